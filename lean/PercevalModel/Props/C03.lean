/-
  C03 — property theorems.  Code model: `Model/C03.lean`; specification: `Found/SimSpec.lean`,
  `Found/Dist.lean`; helper lemmas: `Lemmas/C03*.lean`; sections 10–11: `Model/C03Prec.lean`, `Model/C03Evolve.lean`; section 17: `Model/C03Entry.lean`.  Distributions are association lists read
  through `Dist.get` (the probability of an outcome = the sum over equal keys), amplitude lists
  through `ampGet`.  What is not proved is listed at the end.
-/
import PercevalModel.Model.C03
import PercevalModel.Model.C03Entry
import PercevalModel.Lemmas.C03
import PercevalModel.Lemmas.C03Mass
import PercevalModel.Lemmas.C03More
import PercevalModel.Lemmas.C03Dm
import PercevalModel.Lemmas.C03Prec
import PercevalModel.Lemmas.C03Evolve
import PercevalModel.Lemmas.C03Mixed
import PercevalModel.Lemmas.C03Keys
import PercevalModel.Lemmas.C03Cut
import PercevalModel.Props.C02
import Mathlib.LinearAlgebra.Matrix.ConjTranspose

open Matrix

namespace PM.C03
open PM.Fock PM.Dist PM.SimSpec

variable {R : Type*}

/-! ## 1. linearity of `evolve` / `prob_amplitude` (any commutative ring, any coefficients) -/

/-- **evolve is linear**: the amplitude of every annotated output under `evolve(∑ cₖ |sₖ⟩)` is
`∑ cₖ ·` (its amplitude under `evolve(|sₖ⟩)`), for any number of terms, any coefficients, equal or
unequal photon numbers, any tag assignment. -/
theorem evolve_linear [CommRing R] {m : ℕ} (U : Matrix (Fin m) (Fin m) R) (terms : List (TermR R))
    (k : List Fock) :
    ampGet (evolveCode U terms) k
      = (terms.map fun t => t.coef * ampGet (evolveTerm U t.groups) k).sum := by
  induction terms with
  | nil => rfl
  | cons t r ih =>
    simp only [evolveCode, List.flatMap_cons, List.map_cons, List.sum_cons] at *
    rw [ampGet_append, ampGet_map_mul, ih]

/-- additivity: evolving a sum of superpositions -/
theorem evolve_add [CommRing R] {m : ℕ} (U : Matrix (Fin m) (Fin m) R) (a b : List (TermR R))
    (k : List Fock) :
    ampGet (evolveCode U (a ++ b)) k = ampGet (evolveCode U a) k + ampGet (evolveCode U b) k := by
  simp only [evolveCode, List.flatMap_append, ampGet_append]

/-- homogeneity: a common factor on the input is a common factor on the output -/
theorem evolve_smul [CommRing R] {m : ℕ} (U : Matrix (Fin m) (Fin m) R) (c : R)
    (terms : List (TermR R)) (k : List Fock) :
    ampGet (evolveCode U (terms.map fun t => ⟨c * t.coef, t.groups⟩)) k
      = c * ampGet (evolveCode U terms) k := by
  rw [evolve_linear, evolve_linear, List.map_map, ← List.sum_map_mul_left]
  congr 1
  apply List.map_congr_left
  intro t _
  simp [mul_assoc]

/-- `prob_amplitude(StateVector, BasicState)` is the same linear combination -/
theorem probAmpSV_linear [CommRing R] {m : ℕ} (U : Matrix (Fin m) (Fin m) R)
    (a b : List (R × AState)) (o : AState) :
    probAmpSV U (a ++ b) o = probAmpSV U a o + probAmpSV U b o := by
  simp [probAmpSV]

/-- the left-to-right merge of the cached group evolutions enumerates exactly the specification's
tuples: `evolve` of the code model **is** the shared specification `SimSpec.svAmps` -/
theorem evolve_eq_spec {m : ℕ} (U : Matrix (Fin m) (Fin m) GQ) (terms : List Term) :
    gatherAmps (evolveCode U (terms.map toTermR)) = svAmps U terms := by
  unfold svAmps
  congr 1
  simp only [evolveCode, List.flatMap_map, toTermR]
  apply List.flatMap_congr
  intro t _
  have := evolveTerm_from U t.groups [([], 1)]
  simp only [List.flatMap_cons, List.flatMap_nil, List.append_nil, List.nil_append, one_mul,
    Prod.mk.eta, List.map_id'] at this
  simp only [evolveTerm, this]
  rfl

/-- hence the generic path's member distribution is the specification `probsSV` -/
theorem memberGeneric_eq_spec {m : ℕ} (U : Matrix (Fin m) (Fin m) GQ) (mb : Member) :
    memberGeneric U mb = probsSV U mb.terms := by
  simp only [memberGeneric, probsSV, evolve_eq_spec]

/-! ## 2. tagged photons evolve as independent groups -/

/-- the split by tag (`separate_state` / `_annot_state_mapping`) puts every photon of every mode in
exactly one group: mode by mode the groups' occupations add up to the state's -/
theorem separate_partition (st : AState) (i : ℕ) :
    ((separate st).map fun g => g.getD i 0).sum = (occ st).getD i 0 := by
  unfold separate
  by_cases h : tagsOf st = []
  · simp [h]
  · simp only [h, ↓reduceIte, List.map_map, Function.comp_def, groupOf, occ]
    have hg : ∀ tg : ℕ, (st.map (List.count tg)).getD i 0 = (st.getD i []).count tg := by
      intro tg
      simp [List.getD_eq_getElem?_getD, List.getElem?_map]
      cases st[i]? <;> simp
    have hl : (st.map List.length).getD i 0 = (st.getD i []).length := by
      simp [List.getD_eq_getElem?_getD, List.getElem?_map]
      cases st[i]? <;> simp
    simp only [hg, hl]
    have hnd : (tagsOf st).Nodup := by
      unfold tagsOf
      exact List.nodup_reverse.mpr (List.nodup_dedup _)
    have hsub : ∀ a ∈ st.getD i [], a ∈ tagsOf st := by
      intro a ha
      unfold tagsOf
      rw [List.mem_reverse, List.mem_dedup, List.mem_reverse, List.mem_flatten]
      refine ⟨st.getD i [], ?_, ha⟩
      rw [List.getD_eq_getElem?_getD] at ha ⊢
      cases hi : st[i]? with
      | none => simp [hi] at ha
      | some l => simp only [Option.getD_some]; exact List.mem_of_getElem? hi
    rw [← List.sum_toFinset _ hnd]
    have := Multiset.sum_count_eq_card (s := (tagsOf st).toFinset) (m := (↑(st.getD i []) : Multiset ℕ))
      (by intro a ha; exact List.mem_toFinset.mpr (hsub a (by simpa using ha)))
    simpa using this

/-- **the output distribution of a tagged input is the convolution of its groups' distributions**:
the merge loop `Simulator.probs(BasicState)` runs (`list_tensor_product(merge_modes=True)` over the
cached per-group distributions, zero-probability entries trimmed) gives every outcome the
probability the convolution `SimSpec.probsTagged` gives it — for every circuit matrix, every
assignment of tags, several tags per mode included. -/
theorem probs_tagged_eq_conv {m : ℕ} (U : Matrix (Fin m) (Fin m) GQ) (st : AState) (t : Fock) :
    get (listTensor m 0 ((separate st).map (probsFock U))) t = get (probsTagged U (separate st)) t := by
  rw [probsTagged_eq_foldConv]
  apply listTensor_zero
  · simpa using separate_ne_nil st
  · intro d hd
    obtain ⟨s, _, rfl⟩ := List.mem_map.mp hd
    exact probsFock_nonneg U s
  · intro d hd
    obtain ⟨s, _, rfl⟩ := List.mem_map.mp hd
    exact probsFock_length U s

/-- … **independently of the order in which the groups are merged** -/
theorem probs_tagged_merge_order {m : ℕ} (U : Matrix (Fin m) (Fin m) GQ) (gs gs' : List Fock)
    (h : gs.Perm gs') (t : Fock) :
    get (probsTagged U gs) t = get (probsTagged U gs') t := by
  rw [probsTagged_eq_foldConv, probsTagged_eq_foldConv]
  exact foldConv_perm (h.map _) _ t

/-- merging two groups is commutative and associative on outcomes -/
theorem conv_comm_assoc (a b c : D) (t : Fock) :
    get (conv a b) t = get (conv b a) t ∧ get (conv (conv a b) c) t = get (conv a (conv b c)) t :=
  ⟨conv_comm_eqv a b t, conv_assoc_eqv a b c t⟩

/-- total probability of a tagged input = product of the groups' total probabilities -/
theorem probs_tagged_mass {m : ℕ} (U : Matrix (Fin m) (Fin m) GQ) (gs : List Fock) :
    mass (probsTagged U gs) = (gs.map fun s => mass (probsFock U s)).prod := by
  rw [probsTagged_eq_foldConv, mass_foldConv]
  simp [List.map_map, Function.comp_def]

/-- the normalised result `Simulator.probs(BasicState)` returns -/
theorem probsBS_eq_conv {m : ℕ} (U : Matrix (Fin m) (Fin m) GQ) (st : AState) (t : Fock) :
    get (probsBS U st) t = get (normalize (probsTagged U (separate st))) t :=
  normalize_congr (fun t => probs_tagged_eq_conv U st t) t

/-! ## 3. mixtures are convex -/

/-- **mixture_convex**: the accumulation loop shared by `_probs_svd_fast` and `_probs_svd_generic`
(`res[bs] += p * prob0` over the members) gives every outcome `∑ wᵢ · probsᵢ(outcome)`; when
the members have total probability 1 and the weights sum to 1 the final `res.normalize()` is the
identity. -/
theorem mixture_convex (members : List (ℚ × D)) :
    (∀ t, get (accumAll members) t = (members.map fun p => p.1 * get p.2 t).sum) ∧
    ((∀ p ∈ members, mass p.2 = 1) → (members.map (·.1)).sum = 1 →
      normalize (accumAll members) = accumAll members) := by
  refine ⟨fun t => ?_, fun hm hw => ?_⟩
  · simp [accumAll, get_accumFrom, get_nil]
  · apply normalize_of_mass_one
    rw [accumAll, mass_accumFrom, mass_nil, zero_add, ← hw]
    congr 1
    apply List.map_congr_left
    intro p hp
    rw [hm p hp, mul_one]

/-- the accumulated dict has the meaning of the specification mixture `Dist.mix` -/
theorem accumAll_eq_mix (members : List (ℚ × D)) (t : Fock) :
    get (accumAll members) t = get (mix members) t := by
  rw [(mixture_convex members).1 t, get_mix]

/-- fast path, no trimming: a Fock member contributes the convolution of its photon groups -/
theorem memberFast_eq_conv {m : ℕ} (U : Matrix (Fin m) (Fin m) GQ) (w : ℚ) (term : Term) (t : Fock) :
    get (memberFast U 0 ⟨w, [term]⟩) t = get (probsTagged U (realGroups m term.groups)) t := by
  simp only [memberFast, zero_div]
  rw [probsTagged_eq_foldConv]
  apply listTensor_zero
  · unfold realGroups
    simp only [ne_eq, List.map_eq_nil_iff]
    split <;> simp_all
  · intro d hd
    obtain ⟨s, _, rfl⟩ := List.mem_map.mp hd
    exact probsFock_nonneg U s
  · intro d hd
    obtain ⟨s, _, rfl⟩ := List.mem_map.mp hd
    exact probsFock_length U s

/-- **both paths of `probs_svd`, no trimming**: whatever `_preprocess_svd` kept, the un-normalised
result gives every outcome `∑ wᵢ · (distribution of member i)`, where member `i`'s distribution is the
specification's `probsSV` on the generic path and the convolution of its groups on the fast path -/
theorem probs_svd_paths {m : ℕ} (U : Matrix (Fin m) (Fin m) GQ) (kept : List Member) (t : Fock) :
    get (accumAll (kept.map fun mb => (mb.w, memberGeneric U mb))) t
        = (kept.map fun mb => mb.w * get (probsSV U mb.terms) t).sum ∧
    get (accumAll (kept.map fun mb => (mb.w, memberFast U 0 mb))) t
        = (kept.map fun mb => mb.w * get (memberFast U 0 mb) t).sum := by
  constructor
  · rw [(mixture_convex _).1 t, List.map_map]
    congr 1
    apply List.map_congr_left
    intro mb _
    simp [memberGeneric_eq_spec]
  · rw [(mixture_convex _).1 t, List.map_map]
    rfl

/-! ## 4. trimming: "up to the configured precision" -/

/-- **trim_error_bound**: dropping the members whose weight is at most the threshold `θ`
(`_preprocess_svd`) changes the un-normalised probability of every outcome by the trimmed members'
contribution, which lies between 0 and the trimmed mass, itself at most `θ ·` (number of trimmed
members). -/
theorem trim_error_bound (θ : ℚ) (members : List (ℚ × D))
    (hw : ∀ p ∈ members, 0 ≤ p.1) (hd : ∀ p ∈ members, NonNeg p.2 ∧ mass p.2 = 1) (t : Fock) :
    let kept := members.filter fun p => decide (θ < p.1)
    let cut := members.filter fun p => !decide (θ < p.1)
    get (mix members) t = get (mix kept) t + get (mix cut) t ∧
    0 ≤ get (mix cut) t ∧ get (mix cut) t ≤ mass (mix cut) ∧
    mass (mix cut) ≤ θ * cut.length := by
  induction members with
  | nil => simp [mix, get_nil]
  | cons p r ih =>
    obtain ⟨w, d⟩ := p
    have hw' : ∀ p ∈ r, 0 ≤ p.1 := fun p hp => hw p (List.mem_cons_of_mem _ hp)
    have hd' : ∀ p ∈ r, NonNeg p.2 ∧ mass p.2 = 1 := fun p hp => hd p (List.mem_cons_of_mem _ hp)
    obtain ⟨h1, h2, h3, h4⟩ := ih hw' hd'
    have hw0 : 0 ≤ w := hw (w, d) List.mem_cons_self
    obtain ⟨hnn, hmass⟩ := hd (w, d) List.mem_cons_self
    have hg0 : 0 ≤ get d t := get_nonneg d hnn t
    have hg1 : get d t ≤ 1 := hmass ▸ get_le_mass d hnn t
    by_cases hk : θ < w
    · simp only [List.filter_cons, hk, decide_true, Bool.not_true, ↓reduceIte, Bool.false_eq_true,
        mix, get_append, get_scale]
      exact ⟨by linarith, h2, h3, h4⟩
    · have hle : w ≤ θ := not_lt.mp hk
      simp only [List.filter_cons, hk, decide_false, Bool.not_false, ↓reduceIte, Bool.false_eq_true,
        mix, get_append, get_scale, mass_append, mass_scale, hmass, mul_one, List.length_cons,
        Nat.cast_add, Nat.cast_one]
      refine ⟨by linarith, ?_, ?_, ?_⟩
      · have := mul_nonneg hw0 hg0; linarith
      · have : w * get d t ≤ w := by nlinarith
        linarith
      · linarith

/-- after the final normalisation: if the weights sum to 1, the reported probability of every
outcome differs from the exact mixture's by at most the trimmed mass -/
theorem trim_error_bound_normalized (θ : ℚ) (members : List (ℚ × D))
    (hw : ∀ p ∈ members, 0 ≤ p.1) (hd : ∀ p ∈ members, NonNeg p.2 ∧ mass p.2 = 1)
    (hsum : (members.map (·.1)).sum = 1) (t : Fock) :
    let kept := members.filter fun p => decide (θ < p.1)
    let cut := members.filter fun p => !decide (θ < p.1)
    mass (mix kept) ≠ 0 →
    |get (normalize (mix kept)) t - get (mix members) t| ≤ mass (mix cut) := by
  intro kept cut hK
  obtain ⟨h1, h2, h3, _⟩ := trim_error_bound θ members hw hd t
  -- masses: kept + cut = 1
  have hmk : mass (mix kept) + mass (mix cut) = 1 := by
    have hall : mass (mix members) = 1 :=
      mass_mix_one members (fun p hp => (hd p hp).2) hsum
    have : ∀ l : List (ℚ × D), mass (mix l) =
        mass (mix (l.filter fun p => decide (θ < p.1))) +
          mass (mix (l.filter fun p => !decide (θ < p.1))) := by
      intro l
      induction l with
      | nil => simp [mix]
      | cons p r ih =>
        obtain ⟨w, d⟩ := p
        by_cases hk : θ < w
        · simp only [List.filter_cons, hk, decide_true, Bool.not_true, ↓reduceIte,
            Bool.false_eq_true, mix, mass_append, mass_scale]
          linarith
        · simp only [List.filter_cons, hk, decide_false, Bool.not_false, ↓reduceIte,
            Bool.false_eq_true, mix, mass_append, mass_scale]
          linarith
    rw [← hall]; exact (this members).symm
  -- kept contribution is bounded by the kept mass
  have hkn : NonNeg (mix kept) := by
    have : ∀ l : List (ℚ × D), (∀ p ∈ l, 0 ≤ p.1 ∧ NonNeg p.2) → NonNeg (mix l) := by
      intro l hl
      induction l with
      | nil => intro e he; simp [mix] at he
      | cons p r ih =>
        obtain ⟨w, d⟩ := p
        intro e he
        simp only [mix, List.mem_append] at he
        rcases he with he | he
        · simp only [scale, List.mem_map] at he
          obtain ⟨q, hq, rfl⟩ := he
          exact mul_nonneg (hl (w, d) List.mem_cons_self).1 ((hl (w, d) List.mem_cons_self).2 q hq)
        · exact ih (fun p hp => hl p (List.mem_cons_of_mem _ hp)) e he
    apply this
    intro p hp
    have hp' : p ∈ members := List.mem_of_mem_filter hp
    exact ⟨hw p hp', (hd p hp').1⟩
  have hk0 : 0 ≤ get (mix kept) t := get_nonneg _ hkn t
  have hk1 : get (mix kept) t ≤ mass (mix kept) := get_le_mass _ hkn t
  have hKpos : 0 < mass (mix kept) :=
    lt_of_le_of_ne (le_trans hk0 hk1) (Ne.symm hK)
  have hT0 : 0 ≤ mass (mix cut) := le_trans h2 h3
  simp only [Dist.normalize, hK, ↓reduceIte, get_scale]
  rw [h1]
  set K := mass (mix kept)
  set T := mass (mix cut)
  set k := get (mix kept) t
  set τ := get (mix cut) t
  have hfrac : K⁻¹ * k - (k + τ) = k * T / K - τ := by
    have hK1 : K = 1 - T := by linarith
    field_simp
    rw [hK1]; ring
  rw [hfrac, abs_le]
  have hq0 : 0 ≤ k * T / K := div_nonneg (mul_nonneg hk0 hT0) hKpos.le
  have hq1 : k * T / K ≤ T := by
    rw [div_le_iff₀ hKpos]
    nlinarith
  constructor <;> linarith

/-! ## 5. density matrix = mixture of state vectors (generic star ring) -/

/-- **dm_eq_svd** (whole matrix): evolving `ρ = ∑ wᵢ ψᵢψᵢ†` as a density matrix, `V ρ V†`, gives
the mixture of the evolved vectors `∑ wᵢ (Vψᵢ)(Vψᵢ)†` -/
theorem dm_evolve_eq_svd {n ι : Type*} [Fintype n] [DecidableEq n] [Fintype ι] [CommRing R] [StarRing R]
    (V : Matrix n n R) (w : ι → R) (ψ : ι → n → R) :
    V * (∑ i, w i • vecMulVec (ψ i) (star (ψ i))) * Vᴴ
      = ∑ i, w i • vecMulVec (V *ᵥ ψ i) (star (V *ᵥ ψ i)) := by
  rw [Matrix.mul_sum, Matrix.sum_mul]
  apply Finset.sum_congr rfl
  intro i _
  rw [Matrix.mul_smul, Matrix.smul_mul, mul_vecMulVec, vecMulVec_mul, star_mulVec]

/-- **dm_eq_svd** (output probabilities): `diag(V ρ V†)_t = ∑ wᵢ |(V ψᵢ)_t|²` -/
theorem dm_eq_svd {n ι : Type*} [Fintype n] [DecidableEq n] [Fintype ι] [CommRing R] [StarRing R]
    (V : Matrix n n R) (w : ι → R) (ψ : ι → n → R) (t : n) :
    (V * (∑ i, w i • vecMulVec (ψ i) (star (ψ i))) * Vᴴ) t t
      = ∑ i, w i * ((V *ᵥ ψ i) t * star ((V *ᵥ ψ i) t)) := by
  rw [dm_evolve_eq_svd, Matrix.sum_apply]
  apply Finset.sum_congr rfl
  intro i _
  simp [Matrix.smul_apply, vecMulVec_apply]

/-- `evolve_density_matrix` computes `V S V† + (V S V†)†` with `S = extract_upper_triangle(ρ)`;
whenever `S + S† = ρ` this is `V ρ V†` -/
theorem dm_upper_triangle_trick {n : Type*} [Fintype n] [DecidableEq n] [CommRing R] [StarRing R]
    (V S ρ : Matrix n n R) (h : S + Sᴴ = ρ) :
    V * S * Vᴴ + (V * S * Vᴴ)ᴴ = V * ρ * Vᴴ := by
  rw [← h, Matrix.conjTranspose_mul, Matrix.conjTranspose_mul, Matrix.conjTranspose_conjTranspose,
    Matrix.mul_add, Matrix.add_mul, Matrix.mul_assoc V Sᴴ Vᴴ]

/-- `extract_upper_triangle` of a Hermitian matrix: `S + S† = ρ` -/
theorem upperHalf_add_conjTranspose [CommRing R] [StarRing R] {n : ℕ} (half : R)
    (hh : half + half = 1) (hs : star half = half) (ρ : Matrix (Fin n) (Fin n) R) (hρ : ρᴴ = ρ) :
    upperHalf half ρ + (upperHalf half ρ)ᴴ = ρ := by
  ext i j
  have hji : star (ρ j i) = ρ i j := by
    have := congrFun (congrFun hρ i) j
    simpa [Matrix.conjTranspose_apply] using this
  simp only [Matrix.add_apply, Matrix.conjTranspose_apply, upperHalf]
  rcases lt_trichotomy i j with h | h | h
  · have h1 : ¬ j < i := not_lt.mpr h.le
    have h2 : ¬ j = i := fun e => by rw [e] at h; exact lt_irrefl _ h
    simp [h, h1, h2]
  · subst h
    simp only [lt_irrefl, ↓reduceIte, star_mul', hs, hji]
    rw [← add_mul, hh, one_mul]
  · have h1 : ¬ i < j := not_lt.mpr h.le
    have h2 : ¬ i = j := fun e => by rw [e] at h; exact lt_irrefl _ h
    simp [h, h1, h2, hji]

/-- columns of the evolution operator are only built for basis states with a non-zero diagonal entry
(`_get_density_matrix_input_list`); that loses nothing when a vanishing diagonal entry means a
vanishing row and column (true for every positive semi-definite `ρ`) -/
theorem dm_zero_columns {n : Type*} [Fintype n] [DecidableEq n] [CommRing R] [StarRing R]
    (V ρ : Matrix n n R) (ok : n → Prop) [DecidablePred ok]
    (h : ∀ s, ¬ ok s → ∀ j, ρ s j = 0 ∧ ρ j s = 0) :
    (Matrix.of fun t s => if ok s then V t s else 0) * ρ *
        (Matrix.of fun t s => if ok s then V t s else 0)ᴴ = V * ρ * Vᴴ := by
  have h1 : (Matrix.of fun t s => if ok s then V t s else 0) * ρ = V * ρ := by
    ext t j
    simp only [Matrix.mul_apply, Matrix.of_apply]
    apply Finset.sum_congr rfl
    intro s _
    by_cases hs : ok s
    · simp [hs]
    · simp [hs, (h s hs j).1]
  rw [h1]
  ext t u
  simp only [Matrix.mul_apply, Matrix.conjTranspose_apply, Matrix.of_apply]
  apply Finset.sum_congr rfl
  intro s _
  by_cases hs : ok s
  · simp [hs]
  · have : ∑ x, V t x * ρ x s = 0 := Finset.sum_eq_zero fun x _ => by rw [(h s hs x).2, mul_zero]
    simp [hs, this]

open PM.C03.Dm in
/-- the hypothesis of `dm_zero_columns` is a theorem for every mixed state of state vectors over ℚ[i],
`ρ = ∑ wᵢ ψᵢψᵢ†` with non-negative weights: a basis state whose population `ρ_ss` is EXACTLY zero has a
vanishing row and column (`∑ wᵢ |ψᵢ(s)|² = 0` forces every `wᵢ ψᵢ(s) = 0`) -/
theorem dm_mixture_zero_population {n ι : Type*} [Fintype ι] (w : ι → ℚ) (hw : ∀ i, 0 ≤ w i)
    (ψ : ι → n → GQ) (s : n)
    (h : (∑ i, GQ.ofRat (w i) • vecMulVec (ψ i) (star (ψ i))) s s = 0) (j : n) :
    (∑ i, GQ.ofRat (w i) • vecMulVec (ψ i) (star (ψ i))) s j = 0 ∧
    (∑ i, GQ.ofRat (w i) • vecMulVec (ψ i) (star (ψ i))) j s = 0 := by
  simp only [Matrix.sum_apply, Matrix.smul_apply, vecMulVec_apply, smul_eq_mul, Pi.star_apply] at h ⊢
  have h1 := weighted_amp_zero w hw (fun i => ψ i s) h
  have h2 := weighted_amp_zero_star w hw (fun i => ψ i s) h
  constructor
  · apply Finset.sum_eq_zero
    intro i _
    rw [← mul_assoc, h1 i, zero_mul]
  · apply Finset.sum_eq_zero
    intro i _
    rw [mul_left_comm, h2 i, mul_zero]

/-- **the criterion of `_get_density_matrix_input_list` is exact**: building the columns of the evolution
operator only for the basis states with `ρ_ss ≠ 0` gives `V ρ V†` itself, for every matrix `V`, every mixture of
state vectors with non-negative weights and arbitrary coefficients — however small a non-zero population is -/
theorem dm_skip_unpopulated_exact {n ι : Type*} [Fintype n] [DecidableEq n] [Fintype ι]
    (V : Matrix n n GQ) (w : ι → ℚ) (hw : ∀ i, 0 ≤ w i) (ψ : ι → n → GQ) :
    let ρ : Matrix n n GQ := ∑ i, GQ.ofRat (w i) • vecMulVec (ψ i) (star (ψ i))
    (Matrix.of fun t s => if ρ s s ≠ 0 then V t s else 0) * ρ *
        (Matrix.of fun t s => if ρ s s ≠ 0 then V t s else 0)ᴴ = V * ρ * Vᴴ := by
  intro ρ
  exact dm_zero_columns V ρ (fun s => ρ s s ≠ 0)
    (fun s hs j => dm_mixture_zero_population w hw ψ s (not_not.mp hs) j)

/-- … and `≠ 0` cannot be weakened to "larger than a small ε" at the scale of ε: for the pure state
`|0⟩ + δ|1⟩` (un-normalised) behind the real orthogonal `V = [[3,4],[4,-3]]/5`, the basis state `|1⟩` has
population `δ²`, but leaving out its column changes the output population of `|0⟩` by
`24/25·δ + 16/25·δ² ≥ 24/25·√population` (interference with the dominant term): a population below 1e-6
changes an output probability by up to ~1e-3 -/
theorem dm_population_threshold_error (δ : ℚ) :
    let ψ : Fin 2 → GQ := ![1, GQ.ofRat δ]
    let ρ : Matrix (Fin 2) (Fin 2) GQ := vecMulVec ψ (star ψ)
    let V : Matrix (Fin 2) (Fin 2) GQ :=
      Matrix.of ![![GQ.ofRat (3 / 5), GQ.ofRat (4 / 5)], ![GQ.ofRat (4 / 5), GQ.ofRat (-3 / 5)]]
    let Vskip : Matrix (Fin 2) (Fin 2) GQ := Matrix.of fun t s => if s = 0 then V t s else 0
    V * Vᴴ = 1 ∧ ρ 1 1 = GQ.ofRat (δ ^ 2) ∧
    (Vskip * ρ * Vskipᴴ) 0 0 = GQ.ofRat (9 / 25) ∧
    (V * ρ * Vᴴ) 0 0 = GQ.ofRat (9 / 25 + 24 / 25 * δ + 16 / 25 * δ ^ 2) ∧
    24 / 25 * δ ≤ ((V * ρ * Vᴴ) 0 0).re - ((Vskip * ρ * Vskipᴴ) 0 0).re := by
  intro ψ ρ V Vskip
  have e1 : (Vskip * ρ * Vskipᴴ) 0 0 = GQ.ofRat (9 / 25) := by
    simp only [Matrix.mul_apply, Fin.sum_univ_two, Matrix.conjTranspose_apply, Vskip, V, ρ, ψ,
      vecMulVec_apply, Matrix.of_apply, Pi.star_apply]
    ext <;> simp [GQ.ofRat] <;> ring
  have e2 : (V * ρ * Vᴴ) 0 0 = GQ.ofRat (9 / 25 + 24 / 25 * δ + 16 / 25 * δ ^ 2) := by
    simp only [Matrix.mul_apply, Fin.sum_univ_two, Matrix.conjTranspose_apply, V, ρ, ψ,
      vecMulVec_apply, Pi.star_apply]
    ext <;> simp [GQ.ofRat] <;> ring
  refine ⟨?_, ?_, e1, e2, ?_⟩
  · ext i j <;> fin_cases i <;> fin_cases j <;>
      simp [Matrix.mul_apply, Fin.sum_univ_two, Matrix.conjTranspose_apply, V, GQ.ofRat] <;>
      norm_num
  · simp only [ρ, ψ, vecMulVec_apply, Pi.star_apply]
    ext <;> simp [GQ.ofRat] <;> ring
  · rw [e1, e2]
    simp only [GQ.ofRat]
    nlinarith [sq_nonneg δ]

/-! ## non-vacuity -/

/-- `dm_mixture_zero_population`, `dm_skip_unpopulated_exact`: one member of weight 1, `ψ = (1, 0)`: the second
basis state has population exactly 0 -/
example : (∀ i : Fin 1, (0 : ℚ) ≤ (fun _ => 1) i) ∧
    (∑ i : Fin 1, GQ.ofRat ((fun _ => (1 : ℚ)) i) •
      vecMulVec ((fun _ => ![(1 : GQ), 0]) i) (star ((fun _ => ![(1 : GQ), 0]) i))) 1 1 = 0 := by
  refine ⟨fun _ => by norm_num, ?_⟩
  simp [vecMulVec_apply]


/-- `mixture_convex`, `trim_error_bound`: two unit-mass members, weights 1/4 and 3/4 -/
example : (∀ p ∈ [((1 : ℚ) / 4, ([([1, 0], 1)] : D)), (3 / 4, [([0, 1], 1 / 2), ([1, 0], 1 / 2)])],
      mass p.2 = 1) ∧
    ([((1 : ℚ) / 4, ([([1, 0], 1)] : D)), (3 / 4, [([0, 1], 1 / 2), ([1, 0], 1 / 2)])].map (·.1)).sum = 1 ∧
    accumAll [((1 : ℚ) / 4, ([([1, 0], 1)] : D)), (3 / 4, [([0, 1], 1 / 2), ([1, 0], 1 / 2)])]
      = [([1, 0], 5 / 8), ([0, 1], 3 / 8)] := by
  refine ⟨?_, ?_, ?_⟩
  · intro p hp
    simp only [List.mem_cons, List.not_mem_nil, or_false] at hp
    rcases hp with rfl | rfl <;> norm_num [mass]
  · norm_num
  · decide +kernel

/-- `trim_error_bound`, `trim_error_bound_normalized`: the same two members satisfy every hypothesis at
`θ = 1/3` (non-negative weights summing to 1, non-negative unit-mass members); the first member is
trimmed, the kept mass is 3/4 ≠ 0 -/
example :
    let ms : List (ℚ × D) := [(1 / 4, [([1, 0], 1)]), (3 / 4, [([0, 1], 1 / 2), ([1, 0], 1 / 2)])]
    (∀ p ∈ ms, 0 ≤ p.1) ∧ (∀ p ∈ ms, NonNeg p.2 ∧ mass p.2 = 1) ∧ (ms.map (·.1)).sum = 1 ∧
    (ms.filter fun p => !decide ((1 : ℚ) / 3 < p.1)).length = 1 ∧
    mass (mix (ms.filter fun p => decide ((1 : ℚ) / 3 < p.1))) = 3 / 4 := by
  refine ⟨?_, ?_, ?_, ?_, ?_⟩
  · intro p hp
    simp only [List.mem_cons, List.not_mem_nil, or_false] at hp
    rcases hp with rfl | rfl <;> norm_num
  · intro p hp
    simp only [List.mem_cons, List.not_mem_nil, or_false] at hp
    rcases hp with rfl | rfl
    · refine ⟨?_, by norm_num [mass]⟩
      intro e he
      simp only [List.mem_cons, List.not_mem_nil, or_false] at he
      subst he; norm_num
    · refine ⟨?_, by norm_num [mass]⟩
      intro e he
      simp only [List.mem_cons, List.not_mem_nil, or_false] at he
      rcases he with rfl | rfl <;> norm_num
  · norm_num
  · decide +kernel
  · decide +kernel

/-- `dm_zero_columns`: the hypothesis holds e.g. for `ρ = diag(1, 0)` with `ok s ↔ s = 0` -/
example : ∀ s : Fin 2, ¬ (s = 0) → ∀ j, (Matrix.diagonal ![(1 : GQ), 0]) s j = 0 ∧
    (Matrix.diagonal ![(1 : GQ), 0]) j s = 0 := by
  intro s hs j
  have : s = 1 := by omega
  subst this
  constructor
  · fin_cases j <;> simp [Matrix.diagonal]
  · fin_cases j <;> simp [Matrix.diagonal]

/-- `probs_tagged_merge_order`: a genuine permutation of two different groups -/
example : ([[1, 0], [0, 2]] : List Fock).Perm [[0, 2], [1, 0]] := List.Perm.swap _ _ _

/-- the split by tag: two tags in mode 0, first-occurrence order -/
example : separate [[2, 1], [2], []] = [[1, 1, 0], [1, 0, 0]] := by decide +kernel

/-- `upperHalf_add_conjTranspose`: `1/2` in ℚ[i] -/
example : (⟨1 / 2, 0⟩ : GQ) + ⟨1 / 2, 0⟩ = 1 ∧ star (⟨1 / 2, 0⟩ : GQ) = ⟨1 / 2, 0⟩ := by
  constructor
  · ext <;> norm_num
  · ext <;> simp

/-! ### the amplitude threshold of `_merge_sv` ("up to the configured precision")

`_probs_svd_generic` recombines the evolved tag groups of a term with
`prob_threshold = p_threshold / (10·|c|²·prob0)`.  The four theorems below state, for every threshold
and every pair of component lists, WHICH components the recombination may leave out and how much
probability that is: exactly the products whose squared modulus is at most the threshold — never a
larger one — so the mass neglected by one recombination is at most `threshold × number of products
left out`; and a larger threshold only removes components of the whole term (nothing else changes).
The harness evaluates the same statement on the implementation (`precision_budget`). -/

/-- the thresholded recombination is the full recombination filtered by `|pa|² > threshold` -/
theorem merge_threshold_exact (thr : ℚ) (a : AmpsF) (b : List (Fock × GQ × ℚ)) :
    mergeSVθ thr a b = (mergeAllF a b).filter fun z => decide (thr < sqF z) :=
  mergeSVθ_eq_filter thr a b

/-- a product is left out only if its squared modulus is at most the threshold, and every product
above the threshold is kept -/
theorem merge_threshold_drops_only_small (thr : ℚ) (a : AmpsF) (b : List (Fock × GQ × ℚ))
    (z : List Fock × GQ × ℚ) (hz : z ∈ mergeAllF a b) :
    (z ∉ mergeSVθ thr a b → sqF z ≤ thr) ∧ (thr < sqF z → z ∈ mergeSVθ thr a b) := by
  rw [mergeSVθ_eq_filter]
  constructor
  · intro hn
    by_contra hlt
    exact hn (List.mem_filter.2 ⟨hz, by simpa [keepF] using lt_of_not_ge hlt⟩)
  · intro hlt
    exact List.mem_filter.2 ⟨hz, by simpa [keepF] using hlt⟩

/-- the probability mass neglected by one recombination is at most `threshold × #products left out` -/
theorem merge_threshold_dropped_mass (thr : ℚ) (a : AmpsF) (b : List (Fock × GQ × ℚ)) :
    (((mergeAllF a b).filter fun z => !keepF thr z).map sqF).sum ≤
      thr * (((mergeAllF a b).filter fun z => !keepF thr z).length : ℚ) := by
  have h := List.sum_le_card_nsmul (((mergeAllF a b).filter fun z => !keepF thr z).map sqF) thr
    (by
      intro x hx
      obtain ⟨z, hz, rfl⟩ := List.mem_map.1 hx
      have := (List.mem_filter.1 hz).2
      simp only [keepF, Bool.not_eq_true', decide_eq_false_iff_not, not_lt] at this
      exact this)
  simpa [nsmul_eq_mul, mul_comm] using h

/-- raising the threshold only removes components of the recombined term: the result at `thr'` is a
sub-list of the result at any `thr ≤ thr'` (in particular of the un-thresholded one) -/
theorem evolveTermθ_antitone {m : ℕ} (U : Matrix (Fin m) (Fin m) GQ) {thr thr' : ℚ} (h : thr ≤ thr')
    (gs : List Fock) : (evolveTermθ U thr' gs).Sublist (evolveTermθ U thr gs) := by
  rw [evolveTermθ_eq_foldl, evolveTermθ_eq_foldl]
  exact foldl_stepθ_mono U h gs (List.Sublist.refl _) rfl

/-- `merge_threshold_drops_only_small`: a product that IS left out (|1/2·1/2|² = 1/16 ≤ 1/10) next to
one that is kept (|1·1/2|² = 1/4) -/
example :
    let a : AmpsF := [([[1, 0]], 1, 1), ([[0, 1]], ⟨1 / 2, 0⟩, 1)]
    let b : List (Fock × GQ × ℚ) := [([1, 0], ⟨1 / 2, 0⟩, 1)]
    (mergeAllF a b).length = 2 ∧ (mergeSVθ (1 / 10) a b).length = 1 := by
  decide +kernel

/-- `evolveTermθ_antitone`: `0 ≤ 1/1000000` -/
example : (0 : ℚ) ≤ 1 / 1000000 := by norm_num

/-! ## 6. unit total probability from unitarity

C02's `dist_sums_to_one_GQ` (Parseval for permanents) discharges the unit-mass hypothesis of
`mixture_convex` / `trim_error_bound`: for a unitary circuit matrix the members' distributions are
probability distributions. -/

/-- the output distribution of one group of indistinguishable photons of a unitary circuit has total
probability one -/
theorem probsFock_mass_one {m : ℕ} (U : Matrix (Fin m) (Fin m) GQ) (hU : IsUnitary U) (s : Fock)
    (hs : s.length = m) : mass (probsFock U s) = 1 := by
  rw [mass_probsFock]
  exact PM.C02.dist_sums_to_one_GQ U hU s hs

/-- … hence so has the distribution of a tagged input (any number of tag groups, any photon numbers) -/
theorem probsTagged_mass_one {m : ℕ} (U : Matrix (Fin m) (Fin m) GQ) (hU : IsUnitary U)
    (gs : List Fock) (hgs : ∀ s ∈ gs, s.length = m) : mass (probsTagged U gs) = 1 := by
  rw [probs_tagged_mass]
  apply List.prod_eq_one
  intro x hx
  obtain ⟨s, hs, rfl⟩ := List.mem_map.1 hx
  exact probsFock_mass_one U hU s (hgs s hs)

/-- `Simulator.probs(BasicState)` for a unitary circuit: the final normalisation changes no outcome —
the reported probability of every outcome is that of the convolution of the tag groups, and the
result has total probability one -/
theorem probsBS_unitary {m : ℕ} (U : Matrix (Fin m) (Fin m) GQ) (hU : IsUnitary U) (st : AState)
    (hst : st.length = m) :
    (∀ t, get (probsBS U st) t = get (probsTagged U (separate st)) t) ∧ mass (probsBS U st) = 1 := by
  have hlen : ∀ s ∈ separate st, s.length = m := by
    intro s hs
    unfold separate at hs
    split at hs
    · simp only [List.mem_singleton] at hs
      simp [hs, occ, hst]
    · obtain ⟨tg, _, rfl⟩ := List.mem_map.1 hs
      simp [groupOf, hst]
  have h1 := probsTagged_mass_one U hU (separate st) hlen
  constructor
  · intro t
    rw [probsBS_eq_conv, normalize_of_mass_one _ h1]
  · have := mass_congr (fun t => probsBS_eq_conv U st t)
    rw [this, normalize_of_mass_one _ h1, h1]

/-- **mixture_convex for a unitary circuit** (specification members): a mixture of tagged Fock states
(a Fock state is the case of one group) through a unitary matrix — every outcome gets
`∑ wᵢ · probsᵢ(outcome)`, the final `res.normalize()` is the identity and the result has total
probability one, as soon as the weights sum to one.  No normalisation hypothesis on the members. -/
theorem mixture_convex_unitary {m : ℕ} (U : Matrix (Fin m) (Fin m) GQ) (hU : IsUnitary U)
    (members : List (ℚ × List Fock)) (hlen : ∀ p ∈ members, ∀ s ∈ p.2, s.length = m)
    (hw : (members.map (·.1)).sum = 1) :
    (∀ t, get (accumAll (members.map fun p => (p.1, probsTagged U p.2))) t
        = (members.map fun p => p.1 * get (probsTagged U p.2) t).sum) ∧
    normalize (accumAll (members.map fun p => (p.1, probsTagged U p.2)))
      = accumAll (members.map fun p => (p.1, probsTagged U p.2)) ∧
    mass (accumAll (members.map fun p => (p.1, probsTagged U p.2))) = 1 := by
  have hm : ∀ q ∈ members.map (fun p => (p.1, probsTagged U p.2)), mass q.2 = 1 := by
    intro q hq
    obtain ⟨p, hp, rfl⟩ := List.mem_map.1 hq
    exact probsTagged_mass_one U hU p.2 (hlen p hp)
  have hw' : ((members.map fun p => (p.1, probsTagged U p.2)).map (·.1)).sum = 1 := by
    rw [List.map_map]; exact hw
  obtain ⟨h1, h2⟩ := mixture_convex (members.map fun p => (p.1, probsTagged U p.2))
  refine ⟨fun t => ?_, h2 hm hw', ?_⟩
  · rw [h1 t, List.map_map]; rfl
  · rw [accumAll, mass_accumFrom, mass_nil, zero_add, ← hw', List.map_map, List.map_map]
    congr 1
    apply List.map_congr_left
    intro p hp
    simp only [Function.comp_apply]
    rw [probsTagged_mass_one U hU p.2 (hlen p hp), mul_one]

/-- the same for one-group members written with `probsFock` -/
theorem mixture_convex_unitary_fock {m : ℕ} (U : Matrix (Fin m) (Fin m) GQ) (hU : IsUnitary U)
    (members : List (ℚ × Fock)) (hlen : ∀ p ∈ members, p.2.length = m)
    (hw : (members.map (·.1)).sum = 1) :
    (∀ t, get (accumAll (members.map fun p => (p.1, probsFock U p.2))) t
        = (members.map fun p => p.1 * get (probsFock U p.2) t).sum) ∧
    normalize (accumAll (members.map fun p => (p.1, probsFock U p.2)))
      = accumAll (members.map fun p => (p.1, probsFock U p.2)) := by
  have hm : ∀ q ∈ members.map (fun p => (p.1, probsFock U p.2)), mass q.2 = 1 := by
    intro q hq
    obtain ⟨p, hp, rfl⟩ := List.mem_map.1 hq
    exact probsFock_mass_one U hU p.2 (hlen p hp)
  have hw' : ((members.map fun p => (p.1, probsFock U p.2)).map (·.1)).sum = 1 := by
    rw [List.map_map]; exact hw
  obtain ⟨h1, h2⟩ := mixture_convex (members.map fun p => (p.1, probsFock U p.2))
  refine ⟨fun t => ?_, h2 hm hw'⟩
  rw [h1 t, List.map_map]; rfl

/-- **the code's fast path `_probs_svd_fast` on a unitary circuit, no trimming**: for any kept
members that are Fock states (one term each, any tags), weights summing to one, the accumulated
result gives every outcome `∑ wᵢ ·` (convolution of member `i`'s groups), and the final
`res.normalize()` is the identity.  Unit mass of the members is derived, not assumed. -/
theorem probs_svd_fast_unitary {m : ℕ} (U : Matrix (Fin m) (Fin m) GQ) (hU : IsUnitary U)
    (kept : List (ℚ × Term)) (hlen : ∀ p ∈ kept, ∀ s ∈ p.2.groups, s.length = m)
    (hw : (kept.map (·.1)).sum = 1) :
    (∀ t, get (accumAll (kept.map fun p => (p.1, memberFast U 0 ⟨p.1, [p.2]⟩))) t
        = (kept.map fun p => p.1 * get (probsTagged U (realGroups m p.2.groups)) t).sum) ∧
    normalize (accumAll (kept.map fun p => (p.1, memberFast U 0 ⟨p.1, [p.2]⟩)))
      = accumAll (kept.map fun p => (p.1, memberFast U 0 ⟨p.1, [p.2]⟩)) := by
  have hm : ∀ q ∈ kept.map (fun p => (p.1, memberFast U 0 ⟨p.1, [p.2]⟩)), mass q.2 = 1 := by
    intro q hq
    obtain ⟨p, hp, rfl⟩ := List.mem_map.1 hq
    show mass (memberFast U 0 ⟨p.1, [p.2]⟩) = 1
    rw [mass_congr (fun t => memberFast_eq_conv U p.1 p.2 t)]
    exact probsTagged_mass_one U hU _ (realGroups_length m _ (hlen p hp))
  have hw' : ((kept.map fun p => (p.1, memberFast U 0 ⟨p.1, [p.2]⟩)).map (·.1)).sum = 1 := by
    rw [List.map_map]; exact hw
  obtain ⟨h1, h2⟩ := mixture_convex (kept.map fun p => (p.1, memberFast U 0 ⟨p.1, [p.2]⟩))
  refine ⟨fun t => ?_, h2 hm hw'⟩
  rw [h1 t, List.map_map]
  congr 1
  apply List.map_congr_left
  intro p _
  simp only [Function.comp_apply]
  rw [memberFast_eq_conv]

/-- `trim_error_bound` for a unitary circuit: the members' non-negativity and unit mass are derived -/
theorem trim_error_bound_unitary {m : ℕ} (U : Matrix (Fin m) (Fin m) GQ) (hU : IsUnitary U) (θ : ℚ)
    (members : List (ℚ × List Fock)) (hlen : ∀ p ∈ members, ∀ s ∈ p.2, s.length = m)
    (hw : ∀ p ∈ members, 0 ≤ p.1) (t : Fock) :
    let ds := members.map fun p => (p.1, probsTagged U p.2)
    let kept := ds.filter fun p => decide (θ < p.1)
    let cut := ds.filter fun p => !decide (θ < p.1)
    get (mix ds) t = get (mix kept) t + get (mix cut) t ∧
    0 ≤ get (mix cut) t ∧ get (mix cut) t ≤ mass (mix cut) ∧
    mass (mix cut) ≤ θ * cut.length := by
  apply trim_error_bound
  · intro q hq
    obtain ⟨p, hp, rfl⟩ := List.mem_map.1 hq
    exact hw p hp
  · intro q hq
    obtain ⟨p, hp, rfl⟩ := List.mem_map.1 hq
    exact ⟨probsTagged_nonneg U p.2, probsTagged_mass_one U hU p.2 (hlen p hp)⟩

/-! non-vacuity of section 6: a non-symmetric unitary (`PM.C02.exU`, entries 3/5 and 4i/5), bunched and
tagged inputs, weights 1/4 and 3/4 -/

theorem exU_isUnitary : IsUnitary PM.C02.exU := by unfold IsUnitary; decide +kernel

example : mass (probsFock PM.C02.exU [1, 1]) = 1 := probsFock_mass_one _ exU_isUnitary _ rfl

example : mass (probsTagged PM.C02.exU [[1, 0], [0, 2]]) = 1 :=
  probsTagged_mass_one _ exU_isUnitary _ (by simp)

example : mass (probsBS PM.C02.exU [[2, 1], [2]]) = 1 := (probsBS_unitary _ exU_isUnitary _ rfl).2

/-- `mixture_convex_unitary`, `trim_error_bound_unitary`: a Fock member and a two-tag member -/
example :
    let ms : List (ℚ × List Fock) := [(1 / 4, [[1, 1]]), (3 / 4, [[1, 0], [0, 2]])]
    (∀ p ∈ ms, ∀ s ∈ p.2, s.length = 2) ∧ (ms.map (·.1)).sum = 1 ∧ (∀ p ∈ ms, 0 ≤ p.1) ∧
    mass (accumAll (ms.map fun p => (p.1, probsTagged PM.C02.exU p.2))) = 1 := by
  intro ms
  have h1 : ∀ p ∈ ms, ∀ s ∈ p.2, s.length = 2 := by
    intro p hp s hs
    simp only [ms, List.mem_cons, List.not_mem_nil, or_false] at hp
    rcases hp with rfl | rfl
    · simp only [List.mem_cons, List.not_mem_nil, or_false] at hs
      subst hs; rfl
    · simp only [List.mem_cons, List.not_mem_nil, or_false] at hs
      rcases hs with rfl | rfl <;> rfl
  have h2 : (ms.map (·.1)).sum = 1 := by norm_num [ms]
  refine ⟨h1, h2, ?_, (mixture_convex_unitary _ exU_isUnitary ms h1 h2).2.2⟩
  intro p hp
  simp only [ms, List.mem_cons, List.not_mem_nil, or_false] at hp
  rcases hp with rfl | rfl <;> norm_num

/-- `probs_svd_fast_unitary`: one member with an empty tag group (vacuum of a tag), one with two tags -/
example :
    let kept : List (ℚ × Term) := [(1 / 4, ⟨1, [[1, 0], [0, 0]]⟩), (3 / 4, ⟨1, [[1, 0], [0, 1]]⟩)]
    (∀ p ∈ kept, ∀ s ∈ p.2.groups, s.length = 2) ∧ (kept.map (·.1)).sum = 1 := by
  intro kept
  refine ⟨?_, by norm_num [kept]⟩
  intro p hp s hs
  simp only [kept, List.mem_cons, List.not_mem_nil, or_false] at hp
  rcases hp with rfl | rfl <;>
  · simp only [List.mem_cons, List.not_mem_nil, or_false] at hs
    rcases hs with rfl | rfl <;> rfl

/-! ### superposed members: `‖Uψ‖² = ‖ψ‖²`

For a superposition `∑ₖ cₖ |sₖ⟩` of pairwise distinct (tagged) Fock states the evolved annotated amplitudes
`∑ₖ cₖ ∏_g perm(U[t_g|s_kg])`, squared, divided by `∏ t_g!` and summed over all annotated outputs, give
back `∑ₖ |cₖ|² ∏ s_kg!` — orthonormality of the evolved basis states, from the Fock-space composition
law (`Lemmas/FockComp.lean: pamp_mul_of_inv`) applied to `U† U = 1`, group by group. -/

/-- **the output distribution of a superposed input of a unitary circuit has total probability one**:
any number of terms, any coefficients (not all zero), equal or unequal photon numbers, any tag
groups; the basis states of the terms are pairwise distinct (as in a `StateVector`). -/
theorem probsSV_mass_one {m : ℕ} (U : Matrix (Fin m) (Fin m) GQ) (hU : IsUnitary U)
    (terms : List Term) (hlen : ∀ t ∈ terms, ∀ s ∈ t.groups, s.length = m)
    (hnd : (terms.map (·.groups)).Nodup) (hN : svNorm2 terms ≠ 0) :
    mass (probsSV U terms) = 1 :=
  probsSV_mass_one_aux U hU.2 terms hlen hnd hN

/-- `Simulator.probs(StateVector)` (`_to_bsd(evolve(sv))`) returns a probability distribution -/
theorem probsSVcode_mass_one {m : ℕ} (U : Matrix (Fin m) (Fin m) GQ) (hU : IsUnitary U)
    (terms : List Term) (hlen : ∀ t ∈ terms, ∀ s ∈ t.groups, s.length = m)
    (hnd : (terms.map (·.groups)).Nodup) (hc : ∃ t ∈ terms, t.coef ≠ 0) :
    mass (probsSVcode U terms) = 1 := by
  rw [probsSVcode, memberGeneric_eq_spec]
  exact probsSV_mass_one U hU terms hlen hnd (svNorm2_ne_zero terms hc)

/-- **mixture_convex for a unitary circuit, superposed members** — the generic path
`_probs_svd_generic` without trimming: for any kept members (superpositions of pairwise distinct tagged
Fock states, not the zero vector) and weights summing to one, every outcome gets
`∑ wᵢ · probsSV(memberᵢ)(outcome)`, the final `res.normalize()` is the identity and the result has total
probability one.  No normalisation hypothesis on the members. -/
theorem probs_svd_generic_unitary {m : ℕ} (U : Matrix (Fin m) (Fin m) GQ) (hU : IsUnitary U)
    (kept : List Member) (hok : ∀ mb ∈ kept, MemberOK m mb) (hw : (kept.map (·.w)).sum = 1) :
    (∀ t, get (accumAll (kept.map fun mb => (mb.w, memberGeneric U mb))) t
        = (kept.map fun mb => mb.w * get (probsSV U mb.terms) t).sum) ∧
    normalize (accumAll (kept.map fun mb => (mb.w, memberGeneric U mb)))
      = accumAll (kept.map fun mb => (mb.w, memberGeneric U mb)) ∧
    mass (accumAll (kept.map fun mb => (mb.w, memberGeneric U mb))) = 1 := by
  have hm : ∀ q ∈ kept.map (fun mb => (mb.w, memberGeneric U mb)), mass q.2 = 1 := by
    intro q hq
    obtain ⟨mb, hmb, rfl⟩ := List.mem_map.1 hq
    show mass (memberGeneric U mb) = 1
    rw [memberGeneric_eq_spec]
    exact probsSV_mass_one U hU mb.terms (hok mb hmb).1 (hok mb hmb).2.1 (hok mb hmb).2.2
  have hw' : ((kept.map fun mb => (mb.w, memberGeneric U mb)).map (·.1)).sum = 1 := by
    rw [List.map_map]; exact hw
  refine ⟨fun t => (probs_svd_paths U kept t).1, (mixture_convex _).2 hm hw', ?_⟩
  rw [accumAll, mass_accumFrom, mass_nil, zero_add, ← hw', List.map_map, List.map_map]
  congr 1
  apply List.map_congr_left
  intro mb hmb
  simp only [Function.comp_apply]
  rw [hm _ (List.mem_map.2 ⟨mb, hmb, rfl⟩), mul_one]

/-- the specification mixture `probsSVD` of a unitary circuit is a probability distribution -/
theorem probsSVD_mass_one {m : ℕ} (U : Matrix (Fin m) (Fin m) GQ) (hU : IsUnitary U)
    (members : List (ℚ × List Term)) (hok : ∀ p ∈ members, MemberOK m ⟨p.1, p.2⟩)
    (hw : (members.map (·.1)).sum = 1) : mass (probsSVD U members) = 1 := by
  unfold probsSVD
  apply mass_mix_one
  · intro q hq
    obtain ⟨p, hp, rfl⟩ := List.mem_map.1 hq
    exact probsSV_mass_one U hU p.2 (hok p hp).1 (hok p hp).2.1 (hok p hp).2.2
  · rw [List.map_map]; exact hw

/-- non-vacuity of `probsSV_mass_one` / `probs_svd_generic_unitary`: a superposition of two distinct
two-tag states with a complex relative phase and bunching (`‖ψ‖² = 2·1 + 1·1 = 3`), through the
non-symmetric unitary `PM.C02.exU`, in a mixture with a Fock member (`exSV`, `Lemmas/C03Mass.lean`) -/
theorem exSV_ok : MemberOK 2 ⟨1 / 3, exSV⟩ := by
  refine ⟨?_, by decide, ?_⟩
  · intro t ht s hs
    simp only [exSV, List.mem_cons, List.not_mem_nil, or_false] at ht
    rcases ht with rfl | rfl <;>
    · simp only [List.mem_cons, List.not_mem_nil, or_false] at hs
      rcases hs with rfl | rfl <;> rfl
  · have : svNorm2 exSV = 3 := by decide +kernel
    show svNorm2 exSV ≠ 0
    rw [this]; norm_num

example : mass (probsSV PM.C02.exU exSV) = 1 :=
  probsSV_mass_one _ exU_isUnitary _ exSV_ok.1 exSV_ok.2.1 exSV_ok.2.2

example : mass (accumAll ([⟨1 / 3, exSV⟩, ⟨2 / 3, [⟨1, [[1, 0], [0, 1]]⟩]⟩].map
    fun mb => (mb.w, memberGeneric PM.C02.exU mb))) = 1 := by
  refine (probs_svd_generic_unitary _ exU_isUnitary _ ?_ (by norm_num)).2.2
  intro mb hmb
  simp only [List.mem_cons, List.not_mem_nil, or_false] at hmb
  rcases hmb with rfl | rfl
  · exact exSV_ok
  · refine ⟨?_, by decide, ?_⟩
    · intro t ht s hs
      simp only [List.mem_cons, List.not_mem_nil, or_false] at ht
      subst ht
      simp only [List.mem_cons, List.not_mem_nil, or_false] at hs
      rcases hs with rfl | rfl <;> rfl
    · have : svNorm2 [⟨1, [[1, 0], [0, 1]]⟩] = 1 := by decide +kernel
      show svNorm2 [⟨1, [[1, 0], [0, 1]]⟩] ≠ 0
      rw [this]; norm_num

/-! ## 8. the mixture as a dict of state vectors: accumulating equal keys; a long-lived simulator -/

/-- **`d[k] += w` preserves the mixture**: adding a part to the dict of state vectors — onto the weight of
an equal key when there is one (`trimmed_svd[sv] += p`, `to_add[split_sv] += prob` in `_preprocess_svd`),
as a new entry otherwise — adds exactly `w · f(part)(t)` to `∑ᵢ wᵢ fᵢ(t)` for every outcome `t`, whenever equal
keys have equal distributions.  (Storing `p` instead of adding it loses the weight the key had.) -/
theorem dict_accumulate_preserves_mixture (f : List Term → D)
    (hf : ∀ a b : Member, sameKey a b = true → ∀ t, get (f a.terms) t = get (f b.terms) t)
    (d : List Member) (x : Member) (t : Fock) :
    mixAt f (partAdd d x).1 t = mixAt f d t + x.w * get (f x.terms) t := by
  induction d with
  | nil => simp [partAdd, mixAt]
  | cons y r ih =>
    by_cases h : sameKey y x = true
    · have := hf y x h t
      simp only [partAdd, h, if_true, mixAt, List.map_cons, List.sum_cons] at *
      rw [← this]; ring
    · simp only [mixAt, List.map_cons, List.sum_cons] at ih
      simp only [partAdd, h, mixAt, List.map_cons, List.sum_cons, Bool.false_eq_true, if_false, ih]
      ring

/-- the whole loop `for sv, p in to_add.items(): trimmed_svd[sv] += p`: the mixture of the resulting dict
is the mixture of the dict plus the mixture of the added parts, whatever keys coincide -/
theorem dict_accumulate_all_preserves_mixture (f : List Term → D)
    (hf : ∀ a b : Member, sameKey a b = true → ∀ t, get (f a.terms) t = get (f b.terms) t)
    (d xs : List Member) (t : Fock) :
    mixAt f (partAddAll d xs) t = mixAt f d t + mixAt f xs t := by
  induction xs generalizing d with
  | nil => simp [partAddAll, mixAt]
  | cons x r ih =>
    have h := ih (partAdd d x).1
    simp only [partAddAll, List.foldl_cons] at h ⊢
    rw [h, dict_accumulate_preserves_mixture f hf]
    simp [mixAt]; ring

section Session
variable {K V A : Type} [DecidableEq K]

/-- **a long-lived simulator answers like a fresh one**: after ANY history of queries on the same
simulator (same circuit), a query whose answer is assembled from the cached values of its own keys gets the
answer a new simulator gives — the cache maps a key to a function of that key alone, so what earlier calls
stored cannot change it.  (A memo whose stored value depends on more than its key — e.g. an evolution
operator built for the populated columns of one density matrix and stored under `(m, n_max)` — breaks
`CacheOk` and this conclusion.) -/
theorem session_history_independent (compute : K → V) (ops : List (Query K V A)) (q : Query K V A)
    (hq : ∀ g g' : K → Option V, (∀ k ∈ q.keys, g k = g' k) → q.assemble g = q.assemble g') :
    (sessionStep compute (PM.SM.exec (sessionStep compute) [] ops) q).2 = (sessionStep compute [] q).2 := by
  have hinv : CacheOk compute (PM.SM.exec (sessionStep compute) ([] : List (K × V)) ops) :=
    PM.SM.inv_exec (sessionStep compute) (CacheOk compute)
      (fun s op hs => cacheOk_fill compute s hs op.keys) [] (by intro k v hv; simp at hv) ops
  have h0 : CacheOk compute ([] : List (K × V)) := by intro k v hv; simp at hv
  simp only [sessionStep]
  apply hq
  intro k hk
  rw [lookup_fill_of_mem compute _ hinv _ k hk, lookup_fill_of_mem compute _ h0 _ k hk]

end Session

/-- `dict_accumulate_preserves_mixture`: its hypothesis holds e.g. for a distribution that depends on the basis
states only; two one-component keys `|1,0⟩` and `3·|1,0⟩` are ONE key, `-|1,0⟩` is another -/
example :
    (∀ a b : Member, sameKey a b = true → ∀ t,
      get ((fun ts : List Term => [((ts.map (·.groups)).flatten.flatten, (1 : ℚ))]) a.terms) t =
      get ((fun ts : List Term => [((ts.map (·.groups)).flatten.flatten, (1 : ℚ))]) b.terms) t) ∧
    sameKey ⟨1 / 2, [⟨1, [[1, 0]]⟩]⟩ ⟨1 / 3, [⟨3, [[1, 0]]⟩]⟩ = true ∧
    sameKey ⟨1 / 2, [⟨1, [[1, 0]]⟩]⟩ ⟨1 / 3, [⟨-1, [[1, 0]]⟩]⟩ = false ∧
    ((partAdd [⟨1 / 2, [⟨1, [[1, 0]]⟩]⟩] ⟨1 / 3, [⟨3, [[1, 0]]⟩]⟩).1.map (·.w)) = [5 / 6] := by
  refine ⟨?_, by decide +kernel, by decide +kernel, by decide +kernel⟩
  intro a b h t
  unfold sameKey at h
  split at h
  · rename_i s u hs hu
    simp only [Bool.and_eq_true, beq_iff_eq] at h
    simp [hs, hu, h.1.1]
  · cases h

/-- `session_history_independent`: the hypothesis on the query holds for an answer that reads exactly its
keys, e.g. the list of the cached values of `keys` -/
example (keys : List ℕ) : ∀ g g' : ℕ → Option ℕ, (∀ k ∈ keys, g k = g' k) →
    (fun g : ℕ → Option ℕ => keys.map g) g = (fun g : ℕ → Option ℕ => keys.map g) g' := by
  intro g g' h
  exact List.map_congr_left h

/-! ## 9. the two paths agree; probability by partitions; the photon-number split; threshold 0

Formerly validated by the correspondence only. -/

/-- **the generic path on a Fock member is the convolution of its groups**: for ONE tagged basis state with
a non-zero coefficient the specification's `probsSV` — `|c · ∏_g perm|² / ∏ t_g! / (|c|² ∏ s_g!)`, summed over
the annotated outputs that flatten to `t` — gives every outcome the probability of the convolution of the
groups' distributions.  Any number of groups, any group lengths. -/
theorem probsSV_fock_eq_conv {m : ℕ} (U : Matrix (Fin m) (Fin m) GQ) (c : GQ) (gs : List Fock)
    (hc : c ≠ 0) (t : Fock) : get (probsSV U [⟨c, gs⟩]) t = get (probsTagged U gs) t := by
  rw [probsSV_single U c gs hc]
  exact tupD_eqv U gs t

/-- tags without photons (`realGroups`: what `separate_state` never produces) do not change the
convolution — not even the list -/
theorem probsTagged_drop_vacuum_groups {m : ℕ} (U : Matrix (Fin m) (Fin m) GQ) (gs : List Fock) :
    probsTagged U (realGroups m gs) = probsTagged U gs :=
  probsTagged_realGroups U gs

/-- **`_probs_svd_generic` on a Fock member = `_probs_svd_fast` on it** (threshold 0): the recombined
state vector's squared moduli and the tensor product of the cached group distributions give every outcome
the same probability. -/
theorem memberGeneric_fock_eq_memberFast {m : ℕ} (U : Matrix (Fin m) (Fin m) GQ) (w : ℚ) (term : Term)
    (hc : term.coef ≠ 0) (t : Fock) :
    get (memberGeneric U ⟨w, [term]⟩) t = get (memberFast U 0 ⟨w, [term]⟩) t := by
  rw [memberGeneric_eq_spec, memberFast_eq_conv, probsTagged_realGroups]
  exact probsSV_fock_eq_conv U term.coef term.groups hc t

/-- **probability by partitions = convolution**: `Simulator.probability(BasicState, BasicState)` — the sum
over all `partition`s of the output among the tag groups of the product of the groups' probabilities, with
its vacuum shortcut — is the probability the convolution of the groups' distributions gives the output, for
every `m`-mode output. -/
theorem probability_eq_conv {m : ℕ} (U : Matrix (Fin m) (Fin m) GQ) (st : AState) (t : Fock)
    (ht : t.length = m) : probabilityBS U st t = get (probsTagged U (separate st)) t := by
  unfold probabilityBS
  by_cases h : (occ st).sum = 0
  · rw [if_pos h]
    have hsep : separate st = [occ st] := by
      unfold separate; rw [if_pos (tagsOf_of_vacuum st h)]
    have hpt : probsTagged U [occ st] = [(zeros m, 1)] := by
      show conv [(zeros m, 1)] (probsFock U (occ st)) = _
      rw [probsFock_vacuum U _ h, conv_unit_right m _ (keysLen_unit m)]
    rw [hsep, hpt, get_cons, get_nil, add_zero]
    by_cases h0 : t.sum = 0
    · rw [if_pos h0, eq_zeros_of_sum_zero m t ht h0]; simp
    · have : ¬ zeros m = t := by
        intro e; rw [← e] at h0; exact h0 (zeros_sum m)
      rw [if_neg h0]; simp [this]
  · rw [if_neg h]
    show partSum U (separate st) t = _
    rw [← get_convR_eq_partSum U _ t ht]
    exact (convR_eqv U _ t).symm

/-- … hence, for a unitary circuit, `probability(s, t)` is the entry of `probs(s)` at `t` -/
theorem probability_eq_probs_unitary {m : ℕ} (U : Matrix (Fin m) (Fin m) GQ) (hU : IsUnitary U)
    (st : AState) (hst : st.length = m) (t : Fock) (ht : t.length = m) :
    probabilityBS U st t = get (probsBS U st) t := by
  rw [probability_eq_conv U st t ht, (probsBS_unitary U hU st hst).1 t]

/-- **threshold 0 is no threshold**: `_probs_svd_generic` with the amplitude threshold of `_merge_sv` set to
0 (vacuum groups appended without a merge, the first group never thresholded, products of squared modulus
`≤ 0` left out) gives every outcome the probability of the un-thresholded recombination. -/
theorem memberGenericθ_zero {m : ℕ} (U : Matrix (Fin m) (Fin m) GQ) (mb : Member)
    (hl : ∀ t ∈ mb.terms, ∀ s ∈ t.groups, s.length = m) (t : Fock) :
    get (memberGenericθ U 0 mb) t = get (memberGeneric U mb) t := by
  unfold memberGenericθ memberGeneric
  exact get_toBsd_congr m _ _
    (ampsθ_zero U mb.terms _ (fun _ _ => zero_div _) hl) _ t

/-- **the photon-number split of `_preprocess_svd` preserves the mixture**: the sectors of a superposition
of unequal photon numbers, each normalised and weighted by its share of the squared norm, contribute to every
outcome exactly what the un-split member contributes.  No hypothesis: any coefficients (zero ones, an
all-zero sector included), any terms. -/
theorem splitByN_preserves_mixture {m : ℕ} (U : Matrix (Fin m) (Fin m) GQ) (mb : Member) (t : Fock) :
    mixAt (probsSV U) (splitByN mb) t = mb.w * get (probsSV U mb.terms) t :=
  mixAt_splitByN U mb t

/-- the sectors' weights add up to the member's weight -/
theorem splitByN_weights (mb : Member) (hN : svNorm2 mb.terms ≠ 0) :
    ((splitByN mb).map (·.w)).sum = mb.w := by
  rw [splitByN_eq, List.map_map]
  have : ((photonCounts mb.terms).map
      ((·.w) ∘ fun n => (⟨mb.w * (svNorm2 (sector mb.terms n) / svNorm2 mb.terms), sector mb.terms n⟩ : Member)))
      = (photonCounts mb.terms).map fun n => mb.w / svNorm2 mb.terms * svNorm2 (sector mb.terms n) := by
    apply List.map_congr_left
    intro n _
    simp only [Function.comp_apply]
    ring
  rw [this, List.sum_map_mul_left, svNorm2_sectors]
  field_simp

/-- **equal keys of the dict of state vectors have equal distributions** (the hypothesis `hf` of
`dict_accumulate_preserves_mixture`, now discharged for the specification): two one-component state vectors on
the same annotated basis state whose coefficients differ by a positive factor have the same output
distribution -/
theorem sameKey_equal_distributions {m : ℕ} (U : Matrix (Fin m) (Fin m) GQ) (a b : Member)
    (h : sameKey a b = true) (t : Fock) :
    get (probsSV U a.terms) t = get (probsSV U b.terms) t :=
  sameKey_probsSV U a b h t

/-- **`_preprocess_svd` at precision 0 preserves the mixture** — the whole function: members of weight 0
dropped, superpositions of unequal photon numbers split, their sectors accumulated in `to_add` and then onto
equal keys of the trimmed mixture, the split members removed: for every outcome
`∑_{kept} w · probs = ∑_{input} w · probs`; and the threshold handed to the two paths is 0. -/
theorem preprocess_preserves_mixture {m : ℕ} (U : Matrix (Fin m) (Fin m) GQ) (ms : List Member)
    (hw : ∀ mb ∈ ms, 0 ≤ mb.w) (t : Fock) :
    mixAt (probsSV U) (preprocess 0 0 ms).kept t = mixAt (probsSV U) ms t ∧
      (preprocess 0 0 ms).θ = 0 := by
  have h1 := mixAt_filter_pos (probsSV U) ms hw t
  rw [preprocess_zero]
  split
  · refine ⟨?_, rfl⟩
    show mixAt (probsSV U) (keptSplit _) t = _
    rw [keptSplit_mixture U _ (fun mb h => hw mb (List.mem_of_mem_filter h)), h1]
  · exact ⟨h1, rfl⟩

/-- **`Simulator.probs_svd` at precision 0 is the specification mixture** — the whole pipeline of the model
(`_preprocess_svd` with its split and dict accumulation, the choice between `_probs_svd_fast` and
`_probs_svd_generic`, their thresholds at 0, the accumulation loop, the final normalisation): every outcome
gets the probability the normalised mixture `∑ᵢ wᵢ · probsSV(memberᵢ)` gives it, for all mixtures with
non-negative weights whose terms have non-zero coefficients and `m`-mode groups. -/
theorem probsSvd_exact {m : ℕ} (U : Matrix (Fin m) (Fin m) GQ) (ms : List Member)
    (hw : ∀ mb ∈ ms, 0 ≤ mb.w) (hok : ∀ mb ∈ ms, TermsOK m mb) (t : Fock) :
    get (probsSvd U 0 0 ms) t =
      get (normalize (probsSVD U (ms.map fun mb => (mb.w, mb.terms)))) t := by
  unfold probsSvd
  apply normalize_congr
  intro t
  obtain ⟨hmix, hθ⟩ := preprocess_preserves_mixture U ms hw t
  have hkept : ∀ mb ∈ (preprocess 0 0 ms).kept, TermsOK m mb := by
    rw [preprocess_zero]
    split
    · exact keptSplit_ok m _ (fun mb h => hok mb (List.mem_of_mem_filter h))
    · exact fun mb h => hok mb (List.mem_of_mem_filter h)
  have hsup : (preprocess 0 0 ms).superposed = (preprocess 0 0 ms).kept.any (·.terms.length > 1) := by
    rw [preprocess_zero]; split <;> rfl
  have hrhs : get (probsSVD U (ms.map fun mb => (mb.w, mb.terms))) t = mixAt (probsSV U) ms t := by
    unfold probsSVD mixAt
    rw [get_mix, List.map_map, List.map_map]
    rfl
  rw [hrhs, ← hmix, (mixture_convex _).1 t, List.map_map]
  unfold mixAt
  congr 1
  apply List.map_congr_left
  intro mb hmb
  simp only [Function.comp_apply, hθ]
  congr 1
  have hl : ∀ t ∈ mb.terms, ∀ s ∈ t.groups, s.length = m := fun t ht => (hkept mb hmb t ht).2
  by_cases hs : (preprocess 0 0 ms).superposed = true
  · rw [if_pos hs, memberGenericθ_zero U mb hl, memberGeneric_eq_spec]
  · rw [if_neg hs]
    have hlen : ¬ (mb.terms.length > 1) := by
      intro hgt
      apply hs
      rw [hsup]
      exact List.any_eq_true.2 ⟨mb, hmb, by simpa using hgt⟩
    obtain ⟨w, terms⟩ := mb
    match terms, hlen, hkept ⟨w, terms⟩ hmb with
    | [], _, _ => rfl
    | [term], _, hk =>
      rw [← memberGeneric_fock_eq_memberFast U w term (hk term List.mem_cons_self).1,
        memberGeneric_eq_spec]
    | _ :: _ :: _, hlen, _ => exact absurd (by simp) hlen

/-- … and for a unitary circuit, well-formed members and weights summing to 1 the normalisation is the
identity: `probs_svd` returns `∑ᵢ wᵢ · probsSV(memberᵢ)` itself -/
theorem probsSvd_exact_unitary {m : ℕ} (U : Matrix (Fin m) (Fin m) GQ) (hU : IsUnitary U)
    (ms : List Member) (hw : ∀ mb ∈ ms, 0 ≤ mb.w) (hok : ∀ mb ∈ ms, TermsOK m mb)
    (hnd : ∀ mb ∈ ms, (mb.terms.map (·.groups)).Nodup ∧ mb.terms ≠ [])
    (hsum : (ms.map (·.w)).sum = 1) (t : Fock) :
    get (probsSvd U 0 0 ms) t = (ms.map fun mb => mb.w * get (probsSV U mb.terms) t).sum := by
  rw [probsSvd_exact U ms hw hok t]
  have hone : mass (probsSVD U (ms.map fun mb => (mb.w, mb.terms))) = 1 := by
    apply probsSVD_mass_one U hU
    · intro p hp
      obtain ⟨mb, hmb, rfl⟩ := List.mem_map.1 hp
      refine ⟨fun t ht => (hok mb hmb t ht).2, (hnd mb hmb).1, ?_⟩
      obtain ⟨t0, ht0⟩ := List.exists_mem_of_ne_nil _ (hnd mb hmb).2
      exact svNorm2_ne_zero _ ⟨t0, ht0, (hok mb hmb t0 ht0).1⟩
    · rw [List.map_map]; exact hsum
  rw [normalize_of_mass_one _ hone]
  unfold probsSVD
  rw [get_mix, List.map_map, List.map_map]
  rfl

/-! non-vacuity of section 9 -/

/-- `probsSV_fock_eq_conv`, `memberGeneric_fock_eq_memberFast`: a non-zero (complex) coefficient -/
example : (⟨0, 1⟩ : GQ) ≠ 0 := by decide

/-- `probability_eq_conv`, `probability_eq_probs_unitary`: a two-mode output, a two-mode tagged input with
two tags in one mode -/
example : ([1, 2] : Fock).length = 2 ∧ ([[2, 1], [2]] : AState).length = 2 := ⟨rfl, rfl⟩

/-- `memberGenericθ_zero`, `preprocess_preserves_mixture`, `probsSvd_exact(_unitary)`: every hypothesis holds
for the mixture below — a superposition of photon numbers 1 and 2 with a complex relative phase and a vacuum
tag group (it IS split: `needsSplit`), a Fock member that is one of its sectors up to the positive factor 2
(ONE dict key: its weight 2/3 receives the sector's 1/6), weights 1/3 + 2/3 = 1 -/
example :
    let ms : List Member := [⟨1 / 3, [⟨1, [[1, 0], [0, 0]]⟩, ⟨⟨0, 1⟩, [[1, 0], [0, 1]]⟩]⟩,
      ⟨2 / 3, [⟨⟨2, 0⟩, [[1, 0], [0, 0]]⟩]⟩]
    (∀ mb ∈ ms, 0 ≤ mb.w) ∧ (∀ mb ∈ ms, TermsOK 2 mb) ∧
    (∀ mb ∈ ms, (mb.terms.map (·.groups)).Nodup ∧ mb.terms ≠ []) ∧ (ms.map (·.w)).sum = 1 ∧
    (ms.any needsSplit = true) ∧ ((preprocess 0 0 ms).kept.map (·.w)) = [5 / 6, 1 / 6] := by
  intro ms
  refine ⟨?_, ?_, ?_, by norm_num [ms], by decide +kernel, by decide +kernel⟩
  · intro mb hmb
    simp only [ms, List.mem_cons, List.not_mem_nil, or_false] at hmb
    rcases hmb with rfl | rfl <;> norm_num
  · intro mb hmb
    simp only [ms, List.mem_cons, List.not_mem_nil, or_false] at hmb
    rcases hmb with rfl | rfl
    · intro t ht
      simp only [List.mem_cons, List.not_mem_nil, or_false] at ht
      rcases ht with rfl | rfl
      · refine ⟨by decide, ?_⟩
        intro s hs
        simp only [List.mem_cons, List.not_mem_nil, or_false] at hs
        rcases hs with rfl | rfl <;> rfl
      · refine ⟨by decide, ?_⟩
        intro s hs
        simp only [List.mem_cons, List.not_mem_nil, or_false] at hs
        rcases hs with rfl | rfl <;> rfl
    · intro t ht
      simp only [List.mem_cons, List.not_mem_nil, or_false] at ht
      subst ht
      refine ⟨by decide, ?_⟩
      intro s hs
      simp only [List.mem_cons, List.not_mem_nil, or_false] at hs
      rcases hs with rfl | rfl <;> rfl
  · intro mb hmb
    simp only [ms, List.mem_cons, List.not_mem_nil, or_false] at hmb
    rcases hmb with rfl | rfl
    · exact ⟨by decide, by simp⟩
    · exact ⟨by decide, by simp⟩

/-- `splitByN_weights`: a member with a non-zero norm, split into two sectors of weights 1/6 and 1/6 -/
example : svNorm2 [⟨1, [[1, 0], [0, 0]]⟩, ⟨⟨0, 1⟩, [[1, 0], [0, 1]]⟩] ≠ 0 ∧
    (splitByN ⟨1 / 3, [⟨1, [[1, 0], [0, 0]]⟩, ⟨⟨0, 1⟩, [[1, 0], [0, 1]]⟩]⟩).map (·.w) = [1 / 6, 1 / 6] := by
  constructor
  · have : svNorm2 [⟨1, [[1, 0], [0, 0]]⟩, ⟨⟨0, 1⟩, [[1, 0], [0, 1]]⟩] = 2 := by decide +kernel
    rw [this]; norm_num
  · decide +kernel

/-- `sameKey_equal_distributions`: `|1,0⟩` and `3·|1,0⟩` are one key -/
example : sameKey ⟨1 / 2, [⟨1, [[1, 0]]⟩]⟩ ⟨1 / 3, [⟨3, [[1, 0]]⟩]⟩ = true := by decide +kernel

/-! ## 10. a NON-ZERO precision, end to end: "up to the configured precision" as a theorem

`Simulator.probs_svd` at precision `prec` (`probsSvd U prec minp`) against the same call at precision 0 — which
is the specification mixture (`probsSvd_exact`).  Three stages leave something out, each computed exactly by the
model (`Model/C03Prec.lean`): `_preprocess_svd` (members and accumulated sectors at or below the relative
threshold, before and after the split: `preDropped`, `trimAt`, `trimMass`), the product threshold of
`list_tensor_product` on the fast path (an incoherent loss: `get (memberFast 0) − get (memberFast θ)`), the
amplitude threshold of `_merge_sv` on the generic path (a coherent loss: per annotated output the dropped amplitude
`l` next to the kept one `b` changes the probability by at most `|l|² + 2·|b|·|l|`, `keyErr`).  `errAt t` /
`errTot` add them up with the members' weights; the final `res.normalize()` gives `errNormAt`. -/

/-- a kept member at threshold 0 is the specification, on either path -/
theorem memberAt_zero_eq_spec {m : ℕ} (U : Matrix (Fin m) (Fin m) GQ) (sup : Bool) (mb : Member)
    (hok : TermsOK m mb) (hone : sup = false → ¬ (mb.terms.length > 1)) (t : Fock) :
    get (memberAt U sup 0 mb) t = get (probsSV U mb.terms) t := by
  have hl : ∀ t ∈ mb.terms, ∀ s ∈ t.groups, s.length = m := fun t ht => (hok t ht).2
  unfold memberAt
  cases sup with
  | true => rw [if_pos rfl, memberGenericθ_zero U mb hl, memberGeneric_eq_spec]
  | false =>
    rw [if_neg (by simp)]
    obtain ⟨w, terms⟩ := mb
    match terms, hone rfl, hok with
    | [], _, _ => rfl
    | [term], _, hk =>
      rw [← memberGeneric_fock_eq_memberFast U w term (hk term List.mem_cons_self).1,
        memberGeneric_eq_spec]
    | _ :: _ :: _, hlen, _ => exact absurd (by simp) hlen

/-- **`_preprocess_svd` at ANY precision**: what it keeps and what it leaves out (`preDropped`) add up to the
input mixture for every outcome; the lost probability `trimAt` is non-negative and sums to at most `trimMass`
over any set of outcomes.  Generalises `preprocess_preserves_mixture` (precision 0: nothing is left out). -/
theorem preprocess_split {m : ℕ} (U : Matrix (Fin m) (Fin m) GQ) (prec minp : ℚ) (ms : List Member)
    (hw : ∀ mb ∈ ms, 0 ≤ mb.w) (t : Fock) :
    mixAt (probsSV U) ms t = mixAt (probsSV U) (preprocess prec minp ms).kept t + trimAt U prec minp ms t ∧
      0 ≤ trimAt U prec minp ms t ∧
      ∀ S : Finset Fock, ∑ t ∈ S, trimAt U prec minp ms t ≤ trimMass U prec minp ms := by
  have hnn : ∀ ts : List Term, NonNeg (probsSV U ts) := by
    intro ts e he
    obtain ⟨p, _, rfl⟩ := List.mem_map.1 he
    exact div_nonneg (div_nonneg (normSq_nonneg _) (Nat.cast_nonneg _)) (svNorm2_nonneg _)
  have hd := preDropped_nonneg prec minp ms hw
  refine ⟨preprocess_split_mixture U prec minp ms hw t, ?_, ?_⟩
  · unfold trimAt mixAt
    apply List.sum_nonneg
    intro x hx
    obtain ⟨mb, hmb, rfl⟩ := List.mem_map.1 hx
    exact mul_nonneg (hd mb hmb) (get_nonneg _ (hnn _) t)
  · intro S
    unfold trimAt trimMass mixAt mixMass
    rw [sum_list_finset_comm]
    apply list_sum_le_sum
    intro mb hmb
    rw [← Finset.mul_sum]
    exact mul_le_mul_of_nonneg_left (sum_get_le_mass _ (hnn _) S) (hd mb hmb)

/-- **the product threshold of `list_tensor_product` (fast path) only loses probability**: at every threshold
`θ ≥ 0` the member's distribution is a sub-list of the un-thresholded one, so every outcome loses a non-negative
amount and any set of outcomes at most the difference of the total masses -/
theorem fast_threshold_loss {m : ℕ} (U : Matrix (Fin m) (Fin m) GQ) {θ : ℚ} (hθ : 0 ≤ θ) (mb : Member)
    (hw : 0 ≤ mb.w) :
    (memberFast U θ mb).Sublist (memberFast U 0 mb) ∧
    (∀ t, 0 ≤ get (memberFast U 0 mb) t - get (memberFast U θ mb) t) ∧
    ∀ S : Finset Fock, ∑ t ∈ S, (get (memberFast U 0 mb) t - get (memberFast U θ mb) t) ≤
      mass (memberFast U 0 mb) - mass (memberFast U θ mb) :=
  ⟨memberFast_sublist U hθ mb hw,
    sublist_loss (memberFast_sublist U hθ mb hw) (nonneg_memberFast U 0 mb)⟩

/-- **the amplitude threshold of `_merge_sv` (generic path), propagated to the probabilities**: the member's
probability of every outcome changes by at most the sum, over the annotated outputs `k` of that outcome, of
`λ_k + 2·√β_k·√λ_k` — `λ_k` the squared modulus of the amplitude left out of `k`, `β_k` the probability computed
from what was kept (both on the probability scale, square roots rounded up to 10⁻¹⁵) — and over any set of outcomes
by at most the total of these bounds -/
theorem generic_threshold_loss {m : ℕ} (U : Matrix (Fin m) (Fin m) GQ) (θ : ℚ) (mb : Member) :
    (∀ t, |get (memberGenericθ U 0 mb) t - get (memberGenericθ U θ mb) t| ≤ get (genericErrD U θ mb) t) ∧
    ∀ S : Finset Fock, ∑ t ∈ S, get (genericErrD U θ mb) t ≤ mass (genericErrD U θ mb) :=
  ⟨generic_threshold_bound U θ mb, generic_err_total U θ mb⟩

/-- one member, either path: `memberErrAt` bounds the change per outcome, `memberErrTot` over any set -/
theorem member_threshold_loss {m : ℕ} (U : Matrix (Fin m) (Fin m) GQ) (sup : Bool) {θ : ℚ} (hθ : 0 ≤ θ)
    (mb : Member) (hw : 0 ≤ mb.w) :
    (∀ t, |get (memberAt U sup 0 mb) t - get (memberAt U sup θ mb) t| ≤ memberErrAt U sup θ mb t) ∧
    ∀ S : Finset Fock, ∑ t ∈ S, memberErrAt U sup θ mb t ≤ memberErrTot U sup θ mb := by
  unfold memberAt memberErrAt memberErrTot
  cases sup with
  | true => simpa using generic_threshold_loss U θ mb
  | false =>
    obtain ⟨_, h1, h2⟩ := fast_threshold_loss U hθ mb hw
    simp only [Bool.false_eq_true, if_false]
    exact ⟨fun t => by rw [abs_of_nonneg (h1 t)], h2⟩

/-- the un-normalised result of `probs_svd`: every outcome gets `∑_{kept} w · (member's distribution at θ)` -/
theorem rawSvd_get {m : ℕ} (U : Matrix (Fin m) (Fin m) GQ) (prec minp : ℚ) (ms : List Member) (t : Fock) :
    get (rawSvd U prec minp ms) t = ((preprocess prec minp ms).kept.map fun mb =>
      mb.w * get (memberAt U (preprocess prec minp ms).superposed (preprocess prec minp ms).θ mb) t).sum := by
  unfold rawSvd
  simp only
  rw [(mixture_convex _).1 t, List.map_map]
  rfl

/-- … and at precision 0 that is the specification mixture `∑ᵢ wᵢ · probsSV(memberᵢ)` itself -/
theorem rawSvd_zero {m : ℕ} (U : Matrix (Fin m) (Fin m) GQ) (ms : List Member)
    (hw : ∀ mb ∈ ms, 0 ≤ mb.w) (hok : ∀ mb ∈ ms, TermsOK m mb) (t : Fock) :
    get (rawSvd U 0 0 ms) t = mixAt (probsSV U) ms t := by
  obtain ⟨hmix, hθ⟩ := preprocess_preserves_mixture U ms hw t
  rw [rawSvd_get, ← hmix, hθ]
  unfold mixAt
  congr 1
  apply List.map_congr_left
  intro mb hmb
  congr 1
  apply memberAt_zero_eq_spec U _ mb ((preprocess_kept_facts m 0 0 ms hok mb hmb).1)
  intro hs hgt
  rw [preprocess_superposed] at hs
  have : (preprocess 0 0 ms).kept.any (·.terms.length > 1) = true :=
    List.any_eq_true.2 ⟨mb, hmb, by simpa using hgt⟩
  rw [this] at hs
  cases hs

/-- **the un-normalised error of a non-zero precision**: for every mixture with non-negative weights and
well-formed terms, every precision `prec ≥ 0` and every `min_p`, the un-normalised `probs_svd` differs from the
precision-0 result (= the specification mixture) by at most `errAt` for every outcome — the exactly computed
probability lost with the trimmed members plus the weighted threshold losses of the kept ones — and `errAt` sums to
at most `errTot` over any set of outcomes -/
theorem probsSvd_raw_error {m : ℕ} (U : Matrix (Fin m) (Fin m) GQ) (prec minp : ℚ) (hp : 0 ≤ prec)
    (ms : List Member) (hw : ∀ mb ∈ ms, 0 ≤ mb.w) (hok : ∀ mb ∈ ms, TermsOK m mb) :
    (∀ t, |get (rawSvd U prec minp ms) t - get (rawSvd U 0 0 ms) t| ≤ errAt U prec minp ms t) ∧
    ∀ S : Finset Fock, ∑ t ∈ S, errAt U prec minp ms t ≤ errTot U prec minp ms := by
  have hθ := preprocess_theta_nonneg prec minp hp ms
  have hk := preprocess_kept_facts m prec minp ms hok
  have hkw : ∀ mb ∈ (preprocess prec minp ms).kept, 0 ≤ mb.w := fun mb hmb => (hθ.trans_lt (hk mb hmb).2).le
  constructor
  · intro t
    obtain ⟨hsplit, htrim0, _⟩ := preprocess_split U prec minp ms hw t
    rw [rawSvd_zero U ms hw hok, hsplit, rawSvd_get]
    unfold errAt mixAt
    simp only
    have hspec : ((preprocess prec minp ms).kept.map fun mb => mb.w * get (probsSV U mb.terms) t) =
        (preprocess prec minp ms).kept.map fun mb =>
          mb.w * get (memberAt U (preprocess prec minp ms).superposed 0 mb) t := by
      apply List.map_congr_left
      intro mb hmb
      rw [memberAt_zero_eq_spec U _ mb (hk mb hmb).1]
      intro hs hgt
      rw [preprocess_superposed] at hs
      have : (preprocess prec minp ms).kept.any (·.terms.length > 1) = true :=
        List.any_eq_true.2 ⟨mb, hmb, by simpa using hgt⟩
      rw [this] at hs
      cases hs
    rw [hspec]
    have hdiff : ∀ (l : List Member) (f g : Member → ℚ),
        (l.map f).sum - ((l.map g).sum + trimAt U prec minp ms t) =
          (l.map fun mb => f mb - g mb).sum - trimAt U prec minp ms t := by
      intro l f g
      have : (l.map fun mb => f mb - g mb).sum = (l.map f).sum - (l.map g).sum := by
        induction l with
        | nil => simp
        | cons x r ih => simp only [List.map_cons, List.sum_cons, ih]; ring
      rw [this]; ring
    rw [hdiff]
    refine (abs_sub _ _).trans ?_
    rw [abs_of_nonneg htrim0, add_comm]
    apply add_le_add le_rfl
    refine (abs_list_sum_le _ _).trans (list_sum_le_sum _ _ _ fun mb hmb => ?_)
    rw [← mul_sub, abs_mul, abs_of_nonneg (hkw mb hmb)]
    apply mul_le_mul_of_nonneg_left _ (hkw mb hmb)
    rw [abs_sub_comm]
    exact (member_threshold_loss U _ hθ mb (hkw mb hmb)).1 t
  · intro S
    unfold errAt errTot
    simp only
    rw [Finset.sum_add_distrib, sum_list_finset_comm]
    apply add_le_add ((preprocess_split U prec minp ms hw []).2.2 S)
    apply list_sum_le_sum
    intro mb hmb
    rw [← Finset.mul_sum]
    exact mul_le_mul_of_nonneg_left ((member_threshold_loss U _ hθ mb (hkw mb hmb)).2 S) (hkw mb hmb)

/-- **`probs_svd` at a non-zero precision vs. the specification, normalisation included**: when neither result
is empty, (a) the total un-normalised masses differ by at most `errTot`; (b) for every outcome the reported
probability differs from the precision-0 one — the normalised specification mixture, `probsSvd_exact` — by at most
`errNormAt = (errAt t + P(t)·errTot) / mass`; (c) over any set of outcomes (total variation × 2) by at most
`2·errTot / mass`, `mass` = the un-normalised total at the given precision. -/
theorem probsSvd_precision_bound {m : ℕ} (U : Matrix (Fin m) (Fin m) GQ) (prec minp : ℚ) (hp : 0 ≤ prec)
    (ms : List Member) (hw : ∀ mb ∈ ms, 0 ≤ mb.w) (hok : ∀ mb ∈ ms, TermsOK m mb)
    (h0 : mass (rawSvd U 0 0 ms) ≠ 0) (hθ : mass (rawSvd U prec minp ms) ≠ 0) :
    |mass (rawSvd U prec minp ms) - mass (rawSvd U 0 0 ms)| ≤ errTot U prec minp ms ∧
    (∀ t, |get (probsSvd U prec minp ms) t - get (probsSvd U 0 0 ms) t| ≤ errNormAt U prec minp ms t) ∧
    ∀ S : Finset Fock, ∑ t ∈ S, |get (probsSvd U prec minp ms) t - get (probsSvd U 0 0 ms) t| ≤
      2 * errTot U prec minp ms / mass (rawSvd U prec minp ms) := by
  obtain ⟨hpt, hS⟩ := probsSvd_raw_error U prec minp hp ms hw hok
  have hnn : ∀ (pr mp : ℚ), 0 ≤ pr → ∀ t, 0 ≤ get (rawSvd U pr mp ms) t := by
    intro pr mp hpr t
    rw [rawSvd_get]
    apply List.sum_nonneg
    intro x hx
    obtain ⟨mb, hmb, rfl⟩ := List.mem_map.1 hx
    have hk := preprocess_kept_facts m pr mp ms hok mb hmb
    refine mul_nonneg ((preprocess_theta_nonneg pr mp hpr ms).trans_lt hk.2).le ?_
    unfold memberAt
    split
    · exact get_nonneg _ (nonneg_memberGenericθ U _ mb) t
    · exact get_nonneg _ (nonneg_memberFast U _ mb) t
  exact normalize_perturb (rawSvd U 0 0 ms) (rawSvd U prec minp ms) (errAt U prec minp ms)
    (errTot U prec minp ms) (hnn 0 0 le_rfl) (hnn prec minp hp) hpt hS h0 hθ

/-- … against the specification itself: the reported probability of every outcome is within `errNormAt` of the
normalised mixture `∑ᵢ wᵢ · probsSV(memberᵢ)` -/
theorem probsSvd_precision_vs_spec {m : ℕ} (U : Matrix (Fin m) (Fin m) GQ) (prec minp : ℚ) (hp : 0 ≤ prec)
    (ms : List Member) (hw : ∀ mb ∈ ms, 0 ≤ mb.w) (hok : ∀ mb ∈ ms, TermsOK m mb)
    (h0 : mass (rawSvd U 0 0 ms) ≠ 0) (hθ : mass (rawSvd U prec minp ms) ≠ 0) (t : Fock) :
    |get (probsSvd U prec minp ms) t - get (normalize (probsSVD U (ms.map fun mb => (mb.w, mb.terms)))) t| ≤
      errNormAt U prec minp ms t := by
  rw [← probsSvd_exact U ms hw hok t]
  exact (probsSvd_precision_bound U prec minp hp ms hw hok h0 hθ).2.1 t

/-- **… for a unitary circuit**: well-formed members (pairwise distinct basis states, non-zero coefficients),
weights summing to 1 and a total bound `errTot < 1` — nothing else: the reported probability of every outcome is
within `errNormAt` of `∑ᵢ wᵢ · probsSV(memberᵢ)` itself, and over any set of outcomes within
`2·errTot / (1 − errTot)`; the un-normalised total is at least `1 − errTot` -/
theorem probsSvd_precision_bound_unitary {m : ℕ} (U : Matrix (Fin m) (Fin m) GQ) (hU : IsUnitary U)
    (prec minp : ℚ) (hp : 0 ≤ prec) (ms : List Member) (hw : ∀ mb ∈ ms, 0 ≤ mb.w)
    (hok : ∀ mb ∈ ms, TermsOK m mb) (hnd : ∀ mb ∈ ms, (mb.terms.map (·.groups)).Nodup ∧ mb.terms ≠ [])
    (hsum : (ms.map (·.w)).sum = 1) (hsmall : errTot U prec minp ms < 1) :
    1 - errTot U prec minp ms ≤ mass (rawSvd U prec minp ms) ∧
    (∀ t, |get (probsSvd U prec minp ms) t - (ms.map fun mb => mb.w * get (probsSV U mb.terms) t).sum| ≤
      errNormAt U prec minp ms t) ∧
    ∀ S : Finset Fock,
      ∑ t ∈ S, |get (probsSvd U prec minp ms) t - (ms.map fun mb => mb.w * get (probsSV U mb.terms) t).sum| ≤
        2 * errTot U prec minp ms / (1 - errTot U prec minp ms) := by
  have hone : mass (probsSVD U (ms.map fun mb => (mb.w, mb.terms))) = 1 := by
    apply probsSVD_mass_one U hU
    · intro p hp
      obtain ⟨mb, hmb, rfl⟩ := List.mem_map.1 hp
      refine ⟨fun t ht => (hok mb hmb t ht).2, (hnd mb hmb).1, ?_⟩
      obtain ⟨t0, ht0⟩ := List.exists_mem_of_ne_nil _ (hnd mb hmb).2
      exact svNorm2_ne_zero _ ⟨t0, ht0, (hok mb hmb t0 ht0).1⟩
    · rw [List.map_map]; exact hsum
  have heqv : Eqv (rawSvd U 0 0 ms) (probsSVD U (ms.map fun mb => (mb.w, mb.terms))) := by
    intro t
    rw [rawSvd_zero U ms hw hok t]
    unfold probsSVD mixAt
    rw [get_mix, List.map_map, List.map_map]
    rfl
  have hm0 : mass (rawSvd U 0 0 ms) = 1 := by rw [mass_congr heqv, hone]
  obtain ⟨hpt, hS⟩ := probsSvd_raw_error U prec minp hp ms hw hok
  have hmass := mass_perturb _ _ _ _ hpt hS
  rw [hm0] at hmass
  have hlow : 1 - errTot U prec minp ms ≤ mass (rawSvd U prec minp ms) := by
    have := (abs_le.1 hmass).1; linarith
  have hpos : 0 < mass (rawSvd U prec minp ms) := by linarith
  obtain ⟨_, h2, h3⟩ := probsSvd_precision_bound U prec minp hp ms hw hok (by rw [hm0]; exact one_ne_zero)
    (ne_of_gt hpos)
  have hE0 : 0 ≤ errTot U prec minp ms := by simpa using hS ∅
  have hspec : ∀ t, get (probsSvd U 0 0 ms) t = (ms.map fun mb => mb.w * get (probsSV U mb.terms) t).sum :=
    probsSvd_exact_unitary U hU ms hw hok hnd hsum
  refine ⟨hlow, fun t => by rw [← hspec t]; exact h2 t, fun S => ?_⟩
  simp only [← hspec]
  refine (h3 S).trans ?_
  exact div_le_div_of_nonneg_left (mul_nonneg (by norm_num) hE0) (by linarith) hlow

/-- the list the driver evaluates (every member visited once) carries exactly the bounds of the theorems above -/
theorem errD_spec {m : ℕ} (U : Matrix (Fin m) (Fin m) GQ) (prec minp : ℚ) (ms : List Member) :
    (∀ t, get (errD U prec minp ms) t = errAt U prec minp ms t) ∧
      mass (errD U prec minp ms) = errTot U prec minp ms :=
  ⟨errD_get U prec minp ms, errD_mass U prec minp ms⟩

/-! non-vacuity of section 10.  The hypotheses on the masses involve permanents, which the kernel does not
evaluate: that they hold together with a non-zero bound is witnessed on every run by the correspondence (the
driver evaluates them for every default-precision case: required branch `prec-theorem-applies`).  Here: a mixture
satisfying the decidable hypotheses for which `_preprocess_svd` at the default precision does leave out a member
(weight 1/10⁷ ≤ 10⁻⁶ · 9999999/10⁷). -/
example :
    let ms : List Member := [⟨9999999 / 10000000, [⟨1, [[1, 0]]⟩]⟩, ⟨1 / 10000000, [⟨1, [[0, 1]]⟩]⟩]
    (0 : ℚ) ≤ 1 / 1000000 ∧ (∀ mb ∈ ms, 0 ≤ mb.w) ∧ (∀ mb ∈ ms, TermsOK 2 mb) ∧
    (∀ mb ∈ ms, (mb.terms.map (·.groups)).Nodup ∧ mb.terms ≠ []) ∧ (ms.map (·.w)).sum = 1 ∧
    (preDropped (1 / 1000000) 0 ms).length = 1 ∧ ((preprocess (1 / 1000000) 0 ms).kept).length = 1 := by
  intro ms
  refine ⟨by norm_num, ?_, ?_, ?_, by norm_num [ms], by decide +kernel, by decide +kernel⟩
  · intro mb hmb
    simp only [ms, List.mem_cons, List.not_mem_nil, or_false] at hmb
    rcases hmb with rfl | rfl <;> norm_num
  · intro mb hmb
    simp only [ms, List.mem_cons, List.not_mem_nil, or_false] at hmb
    rcases hmb with rfl | rfl
    all_goals
      intro t ht
      simp only [List.mem_cons, List.not_mem_nil, or_false] at ht
      subst ht
      refine ⟨by decide, ?_⟩
      intro s hs
      simp only [List.mem_cons, List.not_mem_nil, or_false] at hs
      subst hs
      rfl
  · intro mb hmb
    simp only [ms, List.mem_cons, List.not_mem_nil, or_false] at hmb
    rcases hmb with rfl | rfl
    · exact ⟨by decide, by simp⟩
    · exact ⟨by decide, by simp⟩

/-- `sqrtUp`: an upper square root (`normSq_sub_bound` needs only this), exact to 10⁻¹⁵ on an example -/
example : sqrtUp (1 / 4) = 500000000000001 / 1000000000000000 ∧ sqrtUp 0 = 0 := by
  constructor <;> decide +kernel

/-! ## 11. `Simulator.evolve` / `evolve_svd` at amplitude level

`evolveRaw U ψ` is the vector `_evolve_no_compute` builds before `post_select_statevector` normalises it
(`contribs`: the components added term after term; `gatherAmps`: equal annotated outputs meet), `outNorm2` its squared
norm, `probsOfEvolve` the squared moduli of the normalised vector (`_to_bsd(evolve(ψ))`), `evolveSvd` the members of
`evolve_svd`'s result.  The native cut of small components is a parameter (`evolve_cut_bound`). -/

/-- **evolve is linear, amplitude by amplitude**: before the normalisation, `evolve(a·ψ₁ + b·ψ₂)` has on every
annotated output the amplitude `a·evolve(ψ₁) + b·evolve(ψ₂)` has — any complex `a`, `b`, any superpositions
(equal or unequal photon numbers, any tags, common basis states allowed: their amplitudes add) -/
theorem evolve_superposition {m : ℕ} (U : Matrix (Fin m) (Fin m) GQ) (a b : GQ) (ψ₁ ψ₂ : List Term)
    (k : List Fock) :
    ampGet (evolveRaw U (superpose a ψ₁ b ψ₂)) k =
      a * ampGet (evolveRaw U ψ₁) k + b * ampGet (evolveRaw U ψ₂) k := by
  unfold evolveRaw contribs superpose smulTerms
  rw [ampGet_gatherAmps, ampGet_gatherAmps, ampGet_gatherAmps, List.map_append, evolve_add,
    List.map_map, List.map_map]
  have h := evolve_smul U a (ψ₁.map toTermR) k
  have h' := evolve_smul U b (ψ₂.map toTermR) k
  rw [List.map_map] at h h'
  rw [← h, ← h']
  rfl

/-- the un-normalised evolved vector is the shared specification's amplitude list -/
theorem evolveRaw_eq_spec {m : ℕ} (U : Matrix (Fin m) (Fin m) GQ) (terms : List Term) :
    evolveRaw U terms = svAmps U terms := evolve_eq_spec U terms

/-- **a unitary circuit preserves the norm**: the squared norm of the evolved vector is the squared norm of the
input — what `post_select_statevector` divides by is the input's norm (pairwise distinct basis states, `m`-mode
groups, a non-zero vector) -/
theorem evolve_preserves_norm {m : ℕ} (U : Matrix (Fin m) (Fin m) GQ) (hU : IsUnitary U)
    (terms : List Term) (hlen : ∀ t ∈ terms, ∀ s ∈ t.groups, s.length = m)
    (hnd : (terms.map (·.groups)).Nodup) (hN : svNorm2 terms ≠ 0) :
    outNorm2 U terms = svNorm2 terms := by
  have h := probsSV_mass_one U hU terms hlen hnd hN
  unfold probsSV at h
  rw [mass_map_div (svAmps U terms) (fun p => flattenTuple m p.1)
    (fun p => GQ.normSq p.2 / (((p.1.map prodFact).prod : ℕ) : ℚ)) (svNorm2 terms)] at h
  unfold outNorm2
  rw [evolveRaw_eq_spec]
  exact (div_eq_one_iff_eq hN).1 h

/-- **`probs` of the evolved vector is `probsSV`**: `_to_bsd(evolve(ψ))` — the squared moduli of the normalised
output of `evolve` — is the specification's distribution of `ψ`, entry by entry -/
theorem probsOfEvolve_eq_probsSV {m : ℕ} (U : Matrix (Fin m) (Fin m) GQ) (hU : IsUnitary U)
    (terms : List Term) (hlen : ∀ t ∈ terms, ∀ s ∈ t.groups, s.length = m)
    (hnd : (terms.map (·.groups)).Nodup) (hN : svNorm2 terms ≠ 0) :
    probsOfEvolve U terms = probsSV U terms := by
  unfold probsOfEvolve probsSV
  rw [evolve_preserves_norm U hU terms hlen hnd hN, evolveRaw_eq_spec]

/-- **`evolve_svd` is the mixture of the members' `evolve`s**: measuring the distribution of vectors it returns
gives the normalised specification mixture; with weights summing to 1, `∑ᵢ wᵢ · probsSV(memberᵢ)` for every
outcome -/
theorem evolveSvd_is_mixture {m : ℕ} (U : Matrix (Fin m) (Fin m) GQ) (hU : IsUnitary U)
    (ms : List Member) (hok : ∀ mb ∈ ms, MemberOK m mb) :
    (∀ e ∈ (evolveSvd U ms).zip ms, e.1.w = e.2.w ∧ e.1.amps = svAmps U e.2.terms ∧ e.1.norm2 = svNorm2 e.2.terms) ∧
    probsOfEvolveSvd U ms = normalize (probsSVD U (ms.map fun mb => (mb.w, mb.terms))) ∧
    ((ms.map (·.w)).sum = 1 → ∀ t, get (probsOfEvolveSvd U ms) t =
      (ms.map fun mb => mb.w * get (probsSV U mb.terms) t).sum) := by
  have hmem : ∀ mb ∈ ms, probsOfEvolve U mb.terms = probsSV U mb.terms := fun mb hmb =>
    probsOfEvolve_eq_probsSV U hU mb.terms (hok mb hmb).1 (hok mb hmb).2.1 (hok mb hmb).2.2
  have hlist : (ms.map fun mb => (mb.w, probsOfEvolve U mb.terms)) =
      (ms.map fun mb => (mb.w, mb.terms)).map fun p => (p.1, probsSV U p.2) := by
    rw [List.map_map]
    apply List.map_congr_left
    intro mb hmb
    simp only [Function.comp_apply, hmem mb hmb]
  refine ⟨?_, ?_, ?_⟩
  · intro e he
    unfold evolveSvd at he
    rw [List.zip_map_left, List.mem_map] at he
    obtain ⟨⟨x, y⟩, hxy, rfl⟩ := he
    have hx : x = y := by
      have := List.of_mem_zip hxy
      clear hmem hlist
      induction ms with
      | nil => simp at hxy
      | cons z r ih =>
        simp only [List.zip_cons_cons, List.mem_cons, Prod.mk.injEq] at hxy
        rcases hxy with ⟨rfl, rfl⟩ | h
        · rfl
        · exact ih (fun mb h' => hok mb (List.mem_cons_of_mem _ h')) h (List.of_mem_zip h)
    subst hx
    have hx : x ∈ ms := (List.of_mem_zip hxy).1
    exact ⟨rfl, evolveRaw_eq_spec U x.terms,
      evolve_preserves_norm U hU x.terms (hok x hx).1 (hok x hx).2.1 (hok x hx).2.2⟩
  · unfold probsOfEvolveSvd probsSVD
    rw [hlist]
  · intro hsum t
    have hone : mass (probsSVD U (ms.map fun mb => (mb.w, mb.terms))) = 1 := by
      apply probsSVD_mass_one U hU
      · intro p hp
        obtain ⟨mb, hmb, rfl⟩ := List.mem_map.1 hp
        exact hok mb hmb
      · rw [List.map_map]; exact hsum
    unfold probsOfEvolveSvd
    rw [hlist]
    show get (normalize (probsSVD U (ms.map fun mb => (mb.w, mb.terms)))) t = _
    rw [normalize_of_mass_one _ hone]
    unfold probsSVD
    rw [get_mix, List.map_map, List.map_map]
    rfl

/-- **the native cut, whichever components it takes**: split the components `evolve` adds up into kept and lost
ones in ANY way such that every lost one is below the cut (squared modulus on the real scale `< cut2`): the amplitude
of every annotated output then differs from the exact one by at most `lossAt` — the sum of the moduli of ALL
components of that output below the cut (squared, with upper square roots: `|Δ|² ≤ lossAt²`) -/
theorem evolve_cut_bound {m : ℕ} (U : Matrix (Fin m) (Fin m) GQ) (cut2 : ℚ) (terms : List Term)
    (kept lost : Amps GQ) (hperm : (kept ++ lost).Perm (contribs U terms))
    (hsmall : ∀ x ∈ lost, smallC cut2 (svNorm2 terms) x = true) (k : List Fock) :
    GQ.normSq (ampGet (evolveRaw U terms) k - ampGet kept k) * keyScale (svNorm2 terms) k ≤
      (lossAt U cut2 terms k) ^ 2 := by
  have hc : 0 ≤ keyScale (svNorm2 terms) k := keyScale_nonneg _ (svNorm2_nonneg _) k
  have hdiff : ampGet (evolveRaw U terms) k - ampGet kept k = ((lost.filter (·.1 == k)).map (·.2)).sum := by
    unfold evolveRaw
    rw [ampGet_gatherAmps, ← ampGet_perm hperm k, ampGet_append]
    unfold ampGet
    ring
  rw [hdiff]
  refine (normSq_sum_le _ _ hc).trans ?_
  have hS0 : 0 ≤ (((lost.filter (·.1 == k)).map (·.2)).map fun z =>
      sqrtUp (GQ.normSq z * keyScale (svNorm2 terms) k)).sum := by
    apply List.sum_nonneg
    intro x hx
    obtain ⟨y, _, rfl⟩ := List.mem_map.1 hx
    exact sqrtUp_nonneg _
  apply pow_le_pow_left₀ hS0
  rw [List.map_map]
  have hfil : lost.filter (·.1 == k) =
      lost.filter fun x => x.1 == k && smallC cut2 (svNorm2 terms) x := by
    apply List.filter_congr
    intro x hx
    rw [hsmall x hx, Bool.and_true]
  rw [hfil]
  unfold lossAt lossOf
  exact sum_filter_le_of_perm hperm _ _ fun x => sqrtUp_nonneg _

/-- with the cut at 0 nothing can be lost: the bound is 0 -/
theorem lossAt_zero {m : ℕ} (U : Matrix (Fin m) (Fin m) GQ) (terms : List Term) (k : List Fock) :
    lossAt U 0 terms k = 0 := by
  unfold lossAt lossOf
  have : ((contribs U terms).filter fun x => x.1 == k && smallC 0 (svNorm2 terms) x) = [] := by
    apply List.filter_eq_nil_iff.2
    intro x _
    have : ¬ (GQ.normSq x.2 * keyScale (svNorm2 terms) x.1 < 0) :=
      not_lt.2 (mul_nonneg (normSq_nonneg _) (keyScale_nonneg _ (svNorm2_nonneg _) _))
    simp [smallC, this]
  rw [this]; rfl

/-! non-vacuity of section 11: `exSV` behind the unitary `exU` satisfies every hypothesis of
`evolve_preserves_norm` / `probsOfEvolve_eq_probsSV` / `evolveSvd_is_mixture` (`exSV_ok`, `exU_isUnitary`) -/
example : outNorm2 PM.C02.exU exSV = svNorm2 exSV :=
  evolve_preserves_norm _ exU_isUnitary _ exSV_ok.1 exSV_ok.2.1 exSV_ok.2.2

example : probsOfEvolve PM.C02.exU exSV = probsSV PM.C02.exU exSV :=
  probsOfEvolve_eq_probsSV _ exU_isUnitary _ exSV_ok.1 exSV_ok.2.1 exSV_ok.2.2

/-- `evolve_cut_bound`: losing nothing is one admissible choice (`kept` = all components) -/
example {m : ℕ} (U : Matrix (Fin m) (Fin m) GQ) (terms : List Term) :
    (contribs U terms ++ []).Perm (contribs U terms) ∧
      ∀ x ∈ ([] : Amps GQ), smallC (1 / 10 ^ 12) (svNorm2 terms) x = true := by
  refine ⟨by simp, ?_⟩
  intro x hx; cases hx

/-! ## 12. states mixing annotated and un-annotated photons -/

/-- the rule changes nothing for the states covered so far: all photons annotated, or none -/
theorem native_uniform (st : AState) (h : Uniform st) : native st = st := by
  unfold native
  rcases h with h | h
  · have : nzTags st = [] := by
      rw [nzTags, List.filter_eq_nil_iff]
      intro t ht
      simp [h t ((mem_tagsOf st t).mp ht)]
    simp [this]
  · split
    · rfl
    · rename_i f hf
      have hall : ∀ t ∈ st.flatten, t = f := by
        intro t ht
        have : t ∈ nzTags st := (mem_nzTags st t).mpr ⟨ht, h t ht⟩
        rw [hf] at this
        simpa using this
      unfold allTo
      conv_rhs => rw [← List.map_id st]
      apply List.map_congr_left
      intro mode hm
      conv_rhs => rw [id, ← List.map_id mode]
      apply List.map_congr_left
      intro t ht
      have htf := mem_flatten_of_mem hm ht
      have hne : st.flatten ≠ [] := List.ne_nil_of_mem htf
      have hhd : st.flatten.headD 0 ∈ st.flatten := by
        cases hfl : st.flatten with
        | nil => exact absurd hfl hne
        | cons a r => simp
      rw [hall _ hhd, hall t htf, id]
    · rename_i f g r hf
      unfold relabel
      conv_rhs => rw [← List.map_id st]
      apply List.map_congr_left
      intro mode hm
      conv_rhs => rw [id, ← List.map_id mode]
      apply List.map_congr_left
      intro t ht
      simp [h t (mem_flatten_of_mem hm ht)]

/-- no photon is lost, created or moved by the rule -/
theorem occ_native (st : AState) : occ (native st) = occ st := by
  unfold native
  split
  · rfl
  · exact occ_allTo _ _
  · exact occ_relabel _ _

/-- **every photon of a mixed state lies in exactly one group**: mode by mode the groups' occupations add up to the
state's -/
theorem separate_native_partition (st : AState) (i : ℕ) :
    ((separate (native st)).map fun g => g.getD i 0).sum = (occ st).getD i 0 := by
  rw [separate_partition, occ_native]

/-- **the native rule, written out**: the groups of a state mixing annotated and un-annotated photons are (up to
their order) the photons of the first annotation TOGETHER WITH ALL UN-ANNOTATED PHOTONS, then the photons of every
other annotation; without annotations, the whole state -/
theorem separate_native_groups (st : AState) : (separate (native st)).Perm (mixedGroups st) := by
  unfold native mixedGroups
  split
  · rename_i h0
    have hall : ∀ t ∈ st.flatten, t = 0 := by
      intro t ht
      by_contra hne
      have : t ∈ nzTags st := (mem_nzTags st t).mpr ⟨ht, hne⟩
      rw [h0] at this
      cases this
    rw [separate_of_const st 0 hall]
    simp only [h0]; exact List.Perm.refl _
  · rename_i f hf
    have hfm : f ∈ nzTags st := by rw [hf]; simp
    have hf0 := ((mem_nzTags st f).mp hfm).2
    have hall : ∀ t ∈ st.flatten, t = 0 ∨ t = f := by
      intro t ht
      by_cases h0 : t = 0
      · exact Or.inl h0
      · have : t ∈ nzTags st := (mem_nzTags st t).mpr ⟨ht, h0⟩
        rw [hf] at this
        exact Or.inr (by simpa using this)
    rw [separate_of_const (allTo (st.flatten.headD 0) st) (st.flatten.headD 0)
      (by rw [flatten_allTo]; intro t ht; obtain ⟨_, _, rfl⟩ := List.mem_map.mp ht; rfl), occ_allTo,
      occ_eq_two f hf0 st hall]
    simp only [hf, List.map_nil]; exact List.Perm.refl _
  · rename_i f g r hf
    have hfm : f ∈ nzTags st := by rw [hf]; simp
    have hf0 := ((mem_nzTags st f).mp hfm).2
    have hp := tagsOf_relabel_perm f st hfm
    have hne : tagsOf (relabel f st) ≠ [] := by
      intro e; rw [e, hf] at hp; exact absurd hp.length_eq (by simp)
    unfold separate
    simp only [hne, ↓reduceIte, hf]
    refine (hp.map _).trans ?_
    rw [hf]
    simp only [List.map_cons, groupOf_relabel_first f hf0 st]
    have hnd := nzTags_nodup st
    rw [hf] at hnd
    have hx : ∀ x ∈ g :: r, groupOf x (relabel f st) = groupOf x st := by
      intro x hx
      have hxm : x ∈ nzTags st := by rw [hf]; exact List.mem_cons_of_mem _ hx
      apply groupOf_relabel_other f x ((mem_nzTags st x).mp hxm).2
      rintro rfl
      exact (List.nodup_cons.mp hnd).1 hx
    have := List.map_congr_left hx
    simp only [List.map_cons] at this
    rw [this]

/-- **distinguishable groups of a mixed state evolve independently**: `Simulator.probs(BasicState)` of a state
mixing annotated and un-annotated photons gives every outcome the probability of the convolution of the
distributions of: the photons of the first annotation together with all un-annotated photons, and the photons of each
further annotation — for every circuit matrix and every assignment -/
theorem probs_mixed_eq_conv {m : ℕ} (U : Matrix (Fin m) (Fin m) GQ) (st : AState) (t : Fock) :
    get (probsBS U (native st)) t = get (normalize (probsTagged U (mixedGroups st))) t := by
  rw [probsBS_eq_conv]
  exact normalize_congr (fun t => probs_tagged_merge_order U _ _ (separate_native_groups st) t) t

/-- … with total probability 1, the final normalisation changing nothing, behind a unitary circuit -/
theorem probs_mixed_unitary {m : ℕ} (U : Matrix (Fin m) (Fin m) GQ) (hU : IsUnitary U) (st : AState)
    (hm : st.length = m) (t : Fock) :
    get (probsBS U (native st)) t = get (probsTagged U (mixedGroups st)) t := by
  have hm' : (native st).length = m := by
    have := congrArg List.length (occ_native st)
    simpa [occ, hm] using this
  rw [(probsBS_unitary U hU (native st) hm').1]
  exact probs_tagged_merge_order U _ _ (separate_native_groups st) t

example : native [[1, 0], [0], [2]] = [[1, 1], [1], [2]] ∧ native [[0], [1]] = [[0], [0]] ∧
    native [[1, 0], []] = [[1, 1], []] ∧ native [[0, 0], [0]] = [[0, 0], [0]] ∧
    mixedGroups [[1, 0], [0], [2]] = [[2, 1, 0], [0, 0, 1]] ∧ ¬ Uniform [[1, 0], [0], [2]] := by
  refine ⟨by decide, by decide, by decide, by decide, by decide, ?_⟩
  rintro (h | h)
  · exact absurd (h 1 (by decide)) (by decide)
  · exact absurd (h 0 (by decide)) (by decide)

example : Uniform [[1, 2], [2]] ∧ Uniform [[0], [0, 0]] := by
  constructor
  · right; decide
  · left; decide

/-! ## 13. the weights of a mixture: a dict keyed by NORMALISED state vectors (`SVDistribution`)

"All mixtures of such states with arbitrary weights": the weight of a component of the mixture is what the
assignments and accumulations (`svd[ψ] = v`, `svd[ψ] += w`, `svd.add(ψ, w)`) of its — normalised or not — vector add up
to; reading a weight changes nothing. -/

/-- **the repaired container means what was written**: after ANY sequence of assignments, accumulations and reads, with
keys in any scaling, the weight stored for every component is the intended one (`norm` idempotent) -/
theorem svd_weights_fixed {K : Type} [DecidableEq K] (norm : K → K) (hn : ∀ k, norm (norm k) = norm k)
    (ops : List (KeyOp K)) (c : K) :
    wget (svdRun true norm ops) c = intended norm c 0 ops := by
  have key : ∀ (ops : List (KeyOp K)) (d : WDict K),
      wget (ops.foldl (svdStep true norm) d) c = intended norm c (wget d c) ops := by
    intro ops
    induction ops with
    | nil => intro d; rfl
    | cons op r ih =>
      intro d
      rw [List.foldl_cons, ih]
      cases op with
      | set k v => simp only [svdStep, intended, wget_svdSet]
      | iadd k w => simp only [svdStep, intended, wget_svdIadd_fixed norm hn]
      | read k => simp only [svdStep, intended, (wget_svdGet_fixed norm hn d k c).1]
  have := key ops []
  simpa [svdRun, wget] using this

/-- the value a read returns (repaired): the stored weight of the component -/
theorem svd_read_fixed {K : Type} [DecidableEq K] (norm : K → K) (hn : ∀ k, norm (norm k) = norm k)
    (d : WDict K) (k : K) : (svdGet true norm d k).2 = wget d (norm k) :=
  (wget_svdGet_fixed norm hn d k k).2

/-- **the pinned code does not**: with an un-normalised key (`k ≠ norm k`) `svd[k] += w` REPLACES the weight of the
component instead of adding to it, and merely reading `svd[k]` returns 0 and sets the stored weight to 0
(keys: Nat, every vector proportional to the normalised vector 0) -/
theorem svd_weights_fails_on_current_code :
    ¬ (∀ (ops : List (KeyOp Nat)) (c : Nat),
        wget (svdRun false (fun _ => 0) ops) c = intended (fun _ => 0) c 0 ops) := by
  intro h
  have := h [.set 0 (1 / 5), .iadd 1 (3 / 10)] 0
  revert this
  decide +kernel

example : wget (svdRun false (fun _ : Nat => 0) [.set 0 (1 / 5), .iadd 1 (3 / 10)]) 0 = 3 / 10 ∧
    wget (svdRun true (fun _ : Nat => 0) [.set 0 (1 / 5), .iadd 1 (3 / 10)]) 0 = 1 / 2 ∧
    wget (svdRun false (fun _ : Nat => 0) [.set 0 1, .read 1]) 0 = 0 ∧
    wget (svdRun true (fun _ : Nat => 0) [.set 0 1, .read 1]) 0 = 1 := by decide +kernel

example : ∀ k : Nat, (fun _ : Nat => 0) ((fun _ : Nat => 0) k) = (fun _ : Nat => 0) k := fun _ => rfl

/-! ## 14. the native cut of small components AFTER the final normalisation

Section 11 bounds every amplitude BEFORE `post_select_statevector` normalises the vector.  Here the normalisation is
included: the components `contribs U ψ` that `evolve` adds up are split into `kept` and `lost` in ANY way, the kept
vector is normalised by ITS OWN norm (`keptNorm2 kept`, what the native `normalize()` divides by), and the reported
probabilities `probsOfKept m kept` (`_to_bsd` of the normalised kept vector) are compared with the exact
`probsOfEvolve U ψ`.  The bounds are written with the dropped components only: per annotated output `k` with kept
amplitude `b_k` and dropped amplitude `l_k` (the sum of the lost components of `k`), `|l_k|² + 2|b_k||l_k|` on the
probability scale (`cutKeyErr`, rational upper square roots), gathered per outcome in `cutErrD`. -/

/-- `probsOfEvolve` is `probsOfKept` of all components (nothing lost) -/
theorem probsOfEvolve_eq_probsOfKept {m : ℕ} (U : Matrix (Fin m) (Fin m) GQ) (terms : List Term) :
    probsOfEvolve U terms = probsOfKept m (contribs U terms) ∧ outNorm2 U terms = keptNorm2 (contribs U terms) :=
  ⟨rfl, rfl⟩

/-- **the native cut, normalisation included** (whichever components are lost, no smallness assumed): with
`E = mass cutErrD` (the sum of the per-output bounds), on the scale of the input's squared norm
* the squared norm of the kept vector differs from the exact one by at most `E`,
* every reported probability differs from the exact one by at most `(e(t) + P(t)·E) / (kept norm)`,
* any set of outcomes (total variation × 2) by at most `2E / (kept norm)`. -/
theorem evolve_cut_normalized {m : ℕ} (U : Matrix (Fin m) (Fin m) GQ) (terms : List Term)
    (kept lost : Amps GQ) (hperm : (kept ++ lost).Perm (contribs U terms))
    (hN : svNorm2 terms ≠ 0) (h0 : outNorm2 U terms ≠ 0) (h1 : keptNorm2 kept ≠ 0) :
    |keptNorm2 kept / svNorm2 terms - outNorm2 U terms / svNorm2 terms| ≤
      mass (cutErrD m (svNorm2 terms) kept lost) ∧
    (∀ t, |get (probsOfKept m kept) t - get (probsOfEvolve U terms) t| ≤
      (get (cutErrD m (svNorm2 terms) kept lost) t +
        get (probsOfEvolve U terms) t * mass (cutErrD m (svNorm2 terms) kept lost)) /
        (keptNorm2 kept / svNorm2 terms)) ∧
    ∀ S : Finset Fock, ∑ t ∈ S, |get (probsOfKept m kept) t - get (probsOfEvolve U terms) t| ≤
      2 * mass (cutErrD m (svNorm2 terms) kept lost) / (keptNorm2 kept / svNorm2 terms) := by
  have hpos : 0 < svNorm2 terms := lt_of_le_of_ne (svNorm2_nonneg _) (Ne.symm hN)
  exact kept_normalized_bound_of m (svNorm2 terms) hpos kept lost (contribs U terms) hperm h0 h1
    (fun k => cutKeyErr (svNorm2 terms) (ampGet kept k) (ampGet lost k) k)
    (fun k => cutKeyErr_nonneg _ hpos.le _ _ k) (fun K => cutKeyErr_ok _ hpos.le _ _ K)

/-- the dropped amplitude of every output is at most `lossAt` when every lost component is below the cut
(`evolve_cut_bound` read on the lost components) -/
theorem lost_le_lossAt {m : ℕ} (U : Matrix (Fin m) (Fin m) GQ) (cut2 : ℚ) (terms : List Term)
    (kept lost : Amps GQ) (hperm : (kept ++ lost).Perm (contribs U terms))
    (hsmall : ∀ x ∈ lost, smallC cut2 (svNorm2 terms) x = true) (k : List Fock) :
    GQ.normSq (ampGet lost k) * keyScale (svNorm2 terms) k ≤ (lossAt U cut2 terms k) ^ 2 := by
  have h := evolve_cut_bound U cut2 terms kept lost hperm hsmall k
  have hd : ampGet (evolveRaw U terms) k - ampGet kept k = ampGet lost k := by
    unfold evolveRaw
    rw [ampGet_gatherAmps, ← ampGet_perm hperm k, ampGet_append]
    ring
  rwa [hd] at h

/-- **the native cut at `cut2`, normalisation included**: when every lost component is below the cut, the same three
bounds hold with the per-output error `lossAt² + 2·|b_k|·lossAt` (`cutErrDL`), `lossAt` = the sum of the moduli of ALL
components of that output below the cut — computable from the exact evolution alone, whichever components the native
container discards -/
theorem evolve_cut_normalized_lossAt {m : ℕ} (U : Matrix (Fin m) (Fin m) GQ) (cut2 : ℚ) (terms : List Term)
    (kept lost : Amps GQ) (hperm : (kept ++ lost).Perm (contribs U terms))
    (hsmall : ∀ x ∈ lost, smallC cut2 (svNorm2 terms) x = true)
    (hN : svNorm2 terms ≠ 0) (h0 : outNorm2 U terms ≠ 0) (h1 : keptNorm2 kept ≠ 0) :
    |keptNorm2 kept / svNorm2 terms - outNorm2 U terms / svNorm2 terms| ≤
      mass (cutErrDL m (svNorm2 terms) kept lost (lossAt U cut2 terms)) ∧
    (∀ t, |get (probsOfKept m kept) t - get (probsOfEvolve U terms) t| ≤
      (get (cutErrDL m (svNorm2 terms) kept lost (lossAt U cut2 terms)) t +
        get (probsOfEvolve U terms) t * mass (cutErrDL m (svNorm2 terms) kept lost (lossAt U cut2 terms))) /
        (keptNorm2 kept / svNorm2 terms)) ∧
    ∀ S : Finset Fock, ∑ t ∈ S, |get (probsOfKept m kept) t - get (probsOfEvolve U terms) t| ≤
      2 * mass (cutErrDL m (svNorm2 terms) kept lost (lossAt U cut2 terms)) / (keptNorm2 kept / svNorm2 terms) := by
  have hpos : 0 < svNorm2 terms := lt_of_le_of_ne (svNorm2_nonneg _) (Ne.symm hN)
  have hL0 : ∀ k, 0 ≤ lossAt U cut2 terms k := fun k => lossOf_nonneg _ _ _ k
  refine kept_normalized_bound_of m (svNorm2 terms) hpos kept lost (contribs U terms) hperm h0 h1
    (fun k => lossAt U cut2 terms k ^ 2 +
      2 * sqrtUp (GQ.normSq (ampGet kept k) * keyScale (svNorm2 terms) k) * lossAt U cut2 terms k)
    (fun k => ?_) (fun K => ?_)
  · have := mul_nonneg (mul_nonneg (by norm_num : (0 : ℚ) ≤ 2)
      (sqrtUp_nonneg (GQ.normSq (ampGet kept k) * keyScale (svNorm2 terms) k))) (hL0 k)
    have := sq_nonneg (lossAt U cut2 terms k)
    linarith
  · exact cutKeyErrL_ok _ hpos.le _ _ K _ (hL0 K) (lost_le_lossAt U cut2 terms kept lost hperm hsmall K)

/-- **unitary circuit**: the exact vector has the input's norm, so with `E = mass cutErrD < 1` and nothing else
assumed about the kept vector: its squared norm (relative to the input's) is at least `1 − E`, every reported
probability is within `(e(t) + P(t)·E) / (1 − E)` of the specification `probsSV`, any set of outcomes within
`2E / (1 − E)` -/
theorem evolve_cut_normalized_unitary {m : ℕ} (U : Matrix (Fin m) (Fin m) GQ) (hU : IsUnitary U)
    (terms : List Term) (hlen : ∀ t ∈ terms, ∀ s ∈ t.groups, s.length = m)
    (hnd : (terms.map (·.groups)).Nodup) (hN : svNorm2 terms ≠ 0)
    (kept lost : Amps GQ) (hperm : (kept ++ lost).Perm (contribs U terms))
    (hE : mass (cutErrD m (svNorm2 terms) kept lost) < 1) :
    1 - mass (cutErrD m (svNorm2 terms) kept lost) ≤ keptNorm2 kept / svNorm2 terms ∧
    (∀ t, |get (probsOfKept m kept) t - get (probsSV U terms) t| ≤
      (get (cutErrD m (svNorm2 terms) kept lost) t +
        get (probsSV U terms) t * mass (cutErrD m (svNorm2 terms) kept lost)) /
        (1 - mass (cutErrD m (svNorm2 terms) kept lost))) ∧
    ∀ S : Finset Fock, ∑ t ∈ S, |get (probsOfKept m kept) t - get (probsSV U terms) t| ≤
      2 * mass (cutErrD m (svNorm2 terms) kept lost) / (1 - mass (cutErrD m (svNorm2 terms) kept lost)) := by
  set E := mass (cutErrD m (svNorm2 terms) kept lost) with hEdef
  have hpos : 0 < svNorm2 terms := lt_of_le_of_ne (svNorm2_nonneg _) (Ne.symm hN)
  have hout : outNorm2 U terms = svNorm2 terms := evolve_preserves_norm U hU terms hlen hnd hN
  have hspec : probsOfEvolve U terms = probsSV U terms := probsOfEvolve_eq_probsSV U hU terms hlen hnd hN
  have hnn : NonNeg (cutErrD m (svNorm2 terms) kept lost) :=
    nonneg_cutErrDOf m kept lost _ fun k => cutKeyErr_nonneg _ hpos.le _ _ k
  have hE0 : 0 ≤ E := by
    have := sum_get_le_mass _ hnn ∅
    simpa using this
  -- the norms differ by at most E, without assuming the kept vector non-zero
  have hmass : |keptNorm2 kept / svNorm2 terms - outNorm2 U terms / svNorm2 terms| ≤ E := by
    have h := mass_perturb (toBsdOf m (svNorm2 terms) (contribs U terms)) (toBsdOf m (svNorm2 terms) kept)
      (fun t => get (cutErrD m (svNorm2 terms) kept lost) t) E
      (fun t => toBsdOf_cut_bound m (svNorm2 terms) kept lost (contribs U terms) hperm _
        (fun K => cutKeyErr_ok _ hpos.le _ _ K) t)
      (fun S => sum_get_le_mass _ hnn S)
    rw [mass_toBsdOf, mass_toBsdOf] at h
    exact h
  rw [hout, div_self hN] at hmass
  have hlow : 1 - E ≤ keptNorm2 kept / svNorm2 terms := by
    have := (abs_le.1 hmass).1; linarith
  have hkpos : 0 < keptNorm2 kept / svNorm2 terms := by linarith
  have h1 : keptNorm2 kept ≠ 0 := by
    intro h; rw [h, zero_div] at hkpos; exact lt_irrefl _ hkpos
  obtain ⟨_, h2, h3⟩ := evolve_cut_normalized U terms kept lost hperm hN (by rw [hout]; exact hN) h1
  rw [hspec] at h2 h3
  refine ⟨hlow, fun t => (h2 t).trans ?_, fun S => (h3 S).trans ?_⟩
  · have hx : 0 ≤ get (cutErrD m (svNorm2 terms) kept lost) t + get (probsSV U terms) t * E := by
      have := (abs_nonneg _).trans (h2 t)
      by_contra hneg
      have := div_neg_of_neg_of_pos (not_le.1 hneg) hkpos
      linarith
    exact div_le_div_of_nonneg_left hx (by linarith) hlow
  · exact div_le_div_of_nonneg_left (mul_nonneg (by norm_num) hE0) (by linarith) hlow

/-! non-vacuity of section 14.  `exSV` behind `exU` with nothing lost satisfies every hypothesis (the norms are
`svNorm2 exSV = 3 ≠ 0` by `evolve_preserves_norm`); a split that really loses a component is checked on explicit
component lists (the kernel does not evaluate permanents): kept `|1,0⟩` with amplitude 1, lost `|0,1⟩` with
amplitude 1/1000 -/
example : (contribs PM.C02.exU exSV ++ []).Perm (contribs PM.C02.exU exSV) ∧ svNorm2 exSV ≠ 0 ∧
    outNorm2 PM.C02.exU exSV ≠ 0 ∧ keptNorm2 (contribs PM.C02.exU exSV) ≠ 0 := by
  have h := evolve_preserves_norm _ exU_isUnitary _ exSV_ok.1 exSV_ok.2.1 exSV_ok.2.2
  refine ⟨by simp, exSV_ok.2.2, by rw [h]; exact exSV_ok.2.2, ?_⟩
  rw [← (probsOfEvolve_eq_probsOfKept PM.C02.exU exSV).2, h]; exact exSV_ok.2.2

example : keptNorm2 [([[1, 0]], (1 : GQ)), ([[0, 1]], ⟨1 / 1000, 0⟩)] ≠ 0 ∧ keptNorm2 [([[1, 0]], (1 : GQ))] ≠ 0 ∧
    0 < mass (cutErrD 2 1 [([[1, 0]], (1 : GQ))] [([[0, 1]], ⟨1 / 1000, 0⟩)]) ∧
    mass (cutErrD 2 1 [([[1, 0]], (1 : GQ))] [([[0, 1]], ⟨1 / 1000, 0⟩)]) < 1 := by
  decide +kernel

/-! ## 15. basis states of one superposition that coincide after the split into tag groups

Two natively distinct basis states can be mapped to the SAME labelled groups by the mixed tagged/untagged rule
(`|{_:0},1⟩` and `|{_:0},{_:0}⟩`, section 12): in the model, two terms `a·g`, `b·g` with the same `groups`.  Their
evolved vectors coincide, so the evolved superposition is that of the single term `(a+b)·g`, while the input's squared
norm still counts `|a|² + |b|²`.  This section states what the specification and the code-shaped model give then, and
that the hypothesis 'pairwise distinct basis states' of the `*_unitary` theorems is necessary as well as sufficient. -/

/-- merging two terms with the same groups changes no amplitude of the evolved vector -/
theorem contribs_merge {m : ℕ} (U : Matrix (Fin m) (Fin m) GQ) (a b : GQ) (g : List Fock) (rest : List Term) :
    AEqv (contribs U (⟨a, g⟩ :: ⟨b, g⟩ :: rest)) (contribs U (⟨a + b, g⟩ :: rest)) := by
  intro K
  unfold contribs
  rw [evolve_linear, evolve_linear]
  simp only [List.map_cons, List.sum_cons, toTermR]
  ring

theorem probsSV_eq_toBsdOf {m : ℕ} (U : Matrix (Fin m) (Fin m) GQ) (terms : List Term) :
    probsSV U terms = toBsdOf m (svNorm2 terms) (contribs U terms) := by
  unfold probsSV toBsdOf contribs
  rw [evolve_eq_spec]

/-- **two superpositions with the same evolved vector**: the specification's distributions differ exactly by the
ratio of the INPUT norms (the amplitudes are equal, each is divided by its own input norm) -/
theorem probsSV_same_vector {m : ℕ} (U : Matrix (Fin m) (Fin m) GQ) (ψ ψ' : List Term)
    (h : AEqv (contribs U ψ) (contribs U ψ')) (hN : svNorm2 ψ ≠ 0) (hN' : svNorm2 ψ' ≠ 0) :
    (∀ t, get (probsSV U ψ) t = svNorm2 ψ' / svNorm2 ψ * get (probsSV U ψ') t) ∧
    mass (probsSV U ψ) = svNorm2 ψ' / svNorm2 ψ * mass (probsSV U ψ') := by
  have hpt : ∀ t, get (probsSV U ψ) t = svNorm2 ψ' / svNorm2 ψ * get (probsSV U ψ') t := by
    intro t
    rw [probsSV_eq_toBsdOf, probsSV_eq_toBsdOf]
    have h1 : get (toBsdOf m (svNorm2 ψ) (contribs U ψ)) t = get (toBsdOf m (svNorm2 ψ) (contribs U ψ')) t :=
      get_toBsd_congr m _ _ h (svNorm2 ψ) t
    rw [h1, toBsdOf_rescale m (svNorm2 ψ) (svNorm2 ψ') hN hN']
  refine ⟨hpt, ?_⟩
  have : Eqv (probsSV U ψ) (scale (svNorm2 ψ' / svNorm2 ψ) (probsSV U ψ')) := fun t => by
    rw [get_scale]; exact hpt t
  rw [mass_congr this, mass_scale]

/-- **coinciding basis states, unitary circuit**: for `ψ = a·g + b·g + rest` (the other basis states pairwise
distinct and distinct from `g`, `ψ' = (a+b)·g + rest` non-zero)
* the specification gives every outcome `‖ψ'‖²/‖ψ‖²` times the probability under `ψ'` and a total probability
  `‖ψ'‖²/‖ψ‖²` (`≠ 1` in general: `|a+b|²` in place of `|a|² + |b|²`),
* `probs` of the vector `evolve` returns (normalised by its OWN norm) is the distribution of `ψ'`. -/
theorem probs_coinciding_terms {m : ℕ} (U : Matrix (Fin m) (Fin m) GQ) (hU : IsUnitary U) (a b : GQ)
    (g : List Fock) (rest : List Term)
    (hlen : ∀ t ∈ (⟨a + b, g⟩ :: rest : List Term), ∀ s ∈ t.groups, s.length = m)
    (hnd : ((⟨a + b, g⟩ :: rest : List Term).map (·.groups)).Nodup)
    (hN : svNorm2 (⟨a, g⟩ :: ⟨b, g⟩ :: rest) ≠ 0) (hN' : svNorm2 (⟨a + b, g⟩ :: rest) ≠ 0) :
    (∀ t, get (probsSV U (⟨a, g⟩ :: ⟨b, g⟩ :: rest)) t =
      svNorm2 (⟨a + b, g⟩ :: rest) / svNorm2 (⟨a, g⟩ :: ⟨b, g⟩ :: rest) *
        get (probsSV U (⟨a + b, g⟩ :: rest)) t) ∧
    mass (probsSV U (⟨a, g⟩ :: ⟨b, g⟩ :: rest)) =
      svNorm2 (⟨a + b, g⟩ :: rest) / svNorm2 (⟨a, g⟩ :: ⟨b, g⟩ :: rest) ∧
    outNorm2 U (⟨a, g⟩ :: ⟨b, g⟩ :: rest) = svNorm2 (⟨a + b, g⟩ :: rest) ∧
    ∀ t, get (probsOfEvolve U (⟨a, g⟩ :: ⟨b, g⟩ :: rest)) t = get (probsSV U (⟨a + b, g⟩ :: rest)) t := by
  have hA := contribs_merge U a b g rest
  obtain ⟨h1, h2⟩ := probsSV_same_vector U _ _ hA hN hN'
  have hone := probsSV_mass_one U hU _ hlen hnd hN'
  rw [hone, mul_one] at h2
  have hout : outNorm2 U (⟨a, g⟩ :: ⟨b, g⟩ :: rest) = svNorm2 (⟨a + b, g⟩ :: rest) := by
    rw [← evolve_preserves_norm U hU _ hlen hnd hN']
    have e : Eqv (toBsdOf m 1 (contribs U (⟨a, g⟩ :: ⟨b, g⟩ :: rest)))
        (toBsdOf m 1 (contribs U (⟨a + b, g⟩ :: rest))) := fun t => get_toBsd_congr m _ _ hA 1 t
    have := mass_congr e
    rw [mass_toBsdOf, mass_toBsdOf, div_one, div_one] at this
    exact this
  refine ⟨h1, h2, hout, fun t => ?_⟩
  rw [probsSV_eq_toBsdOf]
  show get (toBsdOf m (outNorm2 U (⟨a, g⟩ :: ⟨b, g⟩ :: rest)) (contribs U (⟨a, g⟩ :: ⟨b, g⟩ :: rest))) t = _
  rw [hout]
  exact get_toBsd_congr m _ _ hA _ t

/-- the squared norms of the two-term input and of its merged form -/
theorem svNorm2_pair (a b : GQ) (g : List Fock) :
    svNorm2 [⟨a, g⟩, ⟨b, g⟩] = (GQ.normSq a + GQ.normSq b) * ((g.map prodFact).prod : ℚ) ∧
    svNorm2 [⟨a + b, g⟩] = GQ.normSq (a + b) * ((g.map prodFact).prod : ℚ) := by
  unfold svNorm2
  constructor <;> simp <;> ring

theorem prodFact_prod_pos (g : List Fock) : (0 : ℚ) < ((g.map prodFact).prod : ℚ) := by
  have : (g.map prodFact).prod ≠ 0 := by
    apply List.prod_ne_zero
    intro h0
    obtain ⟨s, _, hs⟩ := List.mem_map.1 h0
    exact PM.FockComp.prodFact_ne_zero s hs
  exact_mod_cast Nat.pos_of_ne_zero this

/-- **two coinciding basis states alone, `a + b ≠ 0`**: the specification's total probability is
`|a+b|² / (|a|² + |b|²)` -/
theorem probs_two_coinciding_mass {m : ℕ} (U : Matrix (Fin m) (Fin m) GQ) (hU : IsUnitary U) (a b : GQ)
    (g : List Fock) (hlen : ∀ s ∈ g, s.length = m) (hab : a + b ≠ 0) :
    mass (probsSV U [⟨a, g⟩, ⟨b, g⟩]) = GQ.normSq (a + b) / (GQ.normSq a + GQ.normSq b) := by
  have hp := prodFact_prod_pos g
  have hN' : svNorm2 [⟨a + b, g⟩] ≠ 0 := svNorm2_ne_zero _ ⟨_, List.mem_cons_self, hab⟩
  have hN : svNorm2 [⟨a, g⟩, ⟨b, g⟩] ≠ 0 := by
    by_cases ha : a = 0
    · refine svNorm2_ne_zero _ ⟨⟨b, g⟩, by simp, ?_⟩
      intro hb; apply hab; rw [ha]; simpa using hb
    · exact svNorm2_ne_zero _ ⟨⟨a, g⟩, by simp, ha⟩
  have h := (probs_coinciding_terms U hU a b g [] (by
      intro t ht s hs
      simp only [List.mem_cons, List.not_mem_nil, or_false] at ht
      subst ht
      exact hlen s hs) (by simp) hN hN').2.1
  rw [h, (svNorm2_pair a b g).1, (svNorm2_pair a b g).2]
  rw [mul_div_mul_right _ _ (ne_of_gt hp)]

/-- … hence total probability 1 exactly when the two coefficients are orthogonal, `Re(a·b̄) = 0` -/
theorem probs_two_coinciding_mass_one_iff {m : ℕ} (U : Matrix (Fin m) (Fin m) GQ) (hU : IsUnitary U) (a b : GQ)
    (g : List Fock) (hlen : ∀ s ∈ g, s.length = m) (hab : a + b ≠ 0) :
    mass (probsSV U [⟨a, g⟩, ⟨b, g⟩]) = 1 ↔ a.re * b.re + a.im * b.im = 0 := by
  rw [probs_two_coinciding_mass U hU a b g hlen hab]
  have hs : 0 < GQ.normSq a + GQ.normSq b := by
    have ha := normSq_nonneg a
    have hb := normSq_nonneg b
    rcases lt_or_eq_of_le (add_nonneg ha hb) with h | h
    · exact h
    · exfalso
      have ha0 : GQ.normSq a = 0 := by linarith
      have hb0 : GQ.normSq b = 0 := by linarith
      apply hab
      rw [normSq_eq_zero ha0, normSq_eq_zero hb0, add_zero]
  rw [div_eq_one_iff_eq (ne_of_gt hs)]
  simp only [GQ.normSq, GQ.add_re, GQ.add_im]
  constructor <;> intro h <;> nlinarith [h]

/-- **'pairwise distinct basis states' is necessary** for `probsSV_mass_one` (and with it for every `*_unitary`
theorem on superposed members): without it the statement is false — `|1,0⟩ + |1,0⟩` written as two terms behind the
unitary `exU` has total probability 2 -/
theorem probsSV_mass_one_needs_distinct :
    ¬ ∀ (U : Matrix (Fin 2) (Fin 2) GQ), IsUnitary U → ∀ terms : List Term,
      (∀ t ∈ terms, ∀ s ∈ t.groups, s.length = 2) → svNorm2 terms ≠ 0 → mass (probsSV U terms) = 1 := by
  intro h
  have h1 := h PM.C02.exU exU_isUnitary [⟨1, [[1, 0]]⟩, ⟨1, [[1, 0]]⟩]
    (by intro t ht s hs; simp only [List.mem_cons, List.not_mem_nil, or_false] at ht
        rcases ht with rfl | rfl <;> simp_all)
    (by decide +kernel)
  have h2 := probs_two_coinciding_mass PM.C02.exU exU_isUnitary 1 1 [[1, 0]] (by simp) (by decide +kernel)
  rw [h1] at h2
  revert h2
  decide +kernel

/-- **two coinciding basis states that cancel, `b = −a`** (any matrix): the evolved vector is 0 — every outcome gets
probability 0 from the specification (`0/‖ψ‖²`) and from `probs` of the evolved vector (`0/0 = 0` in the model; the
real `evolve` has no vector to normalise) -/
theorem probs_two_coinciding_destructive {m : ℕ} (U : Matrix (Fin m) (Fin m) GQ) (a : GQ) (g : List Fock)
    (t : Fock) :
    get (probsSV U [⟨a, g⟩, ⟨-a, g⟩]) t = 0 ∧ get (probsOfEvolve U [⟨a, g⟩, ⟨-a, g⟩]) t = 0 := by
  classical
  have hz : ∀ K, ampGet (contribs U [⟨a, g⟩, ⟨-a, g⟩]) K = 0 := by
    intro K
    unfold contribs
    rw [evolve_linear]
    simp only [List.map_cons, List.map_nil, List.sum_cons, List.sum_nil, toTermR]
    ring
  have hS : ∀ K ∈ (contribs U [⟨a, g⟩, ⟨-a, g⟩]).map (·.1),
      K ∈ ((contribs U [⟨a, g⟩, ⟨-a, g⟩]).map (·.1)).toFinset := fun K hK => List.mem_toFinset.2 hK
  have hall : ∀ n2 : ℚ, get (toBsdOf m n2 (contribs U [⟨a, g⟩, ⟨-a, g⟩])) t = 0 := by
    intro n2
    unfold toBsdOf
    rw [get_toBsd m _ _ t _ hS]
    simp only [hz, outW_zero, Finset.sum_const_zero, zero_div]
  exact ⟨by rw [probsSV_eq_toBsdOf]; exact hall _, hall _⟩

/-! non-vacuity of section 15: a constructive and a partly destructive pair behind `exU` -/
example : mass (probsSV PM.C02.exU [⟨1, [[1, 0]]⟩, ⟨1, [[1, 0]]⟩]) = 2 := by
  rw [probs_two_coinciding_mass PM.C02.exU exU_isUnitary 1 1 [[1, 0]] (by simp) (by decide +kernel)]
  decide +kernel

example : mass (probsSV PM.C02.exU [⟨1, [[1, 0]]⟩, ⟨⟨0, 1⟩, [[1, 0]]⟩]) = 1 :=
  (probs_two_coinciding_mass_one_iff PM.C02.exU exU_isUnitary 1 ⟨0, 1⟩ [[1, 0]] (by simp)
    (by decide +kernel)).2 (by decide +kernel)

/-! ## 16. `d[k] += w` preserves the mixture: the hypothesis 'equal keys have equal distributions' discharged for
more member distributions

`dict_accumulate_preserves_mixture` is stated for an arbitrary `f`.  Two members are equal keys (`sameKey`) exactly when
both are ONE basis state on the same groups with non-zero coefficients that differ by a positive factor
(`sameKey_single`); so the hypothesis reduces to a statement about one-term vectors (`…_single`), which holds with
no further assumption for the evolve route `probsOfEvolve U` (any matrix, unitary or not) and for the fast path at
threshold 0. -/

/-- what an equal key is: one basis state each, same groups, non-zero coefficients, positive ratio -/
theorem sameKey_single (a b : Member) (h : sameKey a b = true) :
    ∃ s u : Term, a.terms = [s] ∧ b.terms = [u] ∧ s.groups = u.groups ∧ s.coef ≠ 0 ∧ u.coef ≠ 0 ∧
      (s.coef * star u.coef).im = 0 ∧ 0 < (s.coef * star u.coef).re := by
  unfold sameKey at h
  split at h
  · rename_i s u hs hu
    simp only [Bool.and_eq_true, beq_iff_eq, decide_eq_true_eq] at h
    obtain ⟨⟨hg, him⟩, hpos⟩ := h
    have hs0 : s.coef ≠ 0 := by
      intro e; rw [e] at hpos; simp at hpos
    have hu0 : u.coef ≠ 0 := by
      intro e; rw [e] at hpos; simp at hpos
    exact ⟨s, u, hs, hu, hg, hs0, hu0, him, hpos⟩
  · cases h

/-- **`d[k] += w` preserves the mixture, hypothesis on one-term vectors only**: it is enough that `f` gives one
basis state the same distribution for any two non-zero coefficients of positive ratio -/
theorem dict_accumulate_preserves_mixture_single (f : List Term → D)
    (hf1 : ∀ (c c' : GQ) (g : List Fock), c ≠ 0 → c' ≠ 0 → (c * star c').im = 0 → 0 < (c * star c').re →
      ∀ t, get (f [⟨c, g⟩]) t = get (f [⟨c', g⟩]) t)
    (d : List Member) (x : Member) (t : Fock) :
    mixAt f (partAdd d x).1 t = mixAt f d t + x.w * get (f x.terms) t := by
  apply dict_accumulate_preserves_mixture f
  intro a b h t
  obtain ⟨s, u, hs, hu, hg, hs0, hu0, him, hpos⟩ := sameKey_single a b h
  rw [hs, hu]
  have := hf1 s.coef u.coef s.groups hs0 hu0 him hpos t
  rw [show (⟨u.coef, s.groups⟩ : Term) = u from by rw [hg]] at this
  exact this

theorem dict_accumulate_all_preserves_mixture_single (f : List Term → D)
    (hf1 : ∀ (c c' : GQ) (g : List Fock), c ≠ 0 → c' ≠ 0 → (c * star c').im = 0 → 0 < (c * star c').re →
      ∀ t, get (f [⟨c, g⟩]) t = get (f [⟨c', g⟩]) t)
    (d xs : List Member) (t : Fock) :
    mixAt f (partAddAll d xs) t = mixAt f d t + mixAt f xs t := by
  apply dict_accumulate_all_preserves_mixture f
  intro a b h t
  obtain ⟨s, u, hs, hu, hg, hs0, hu0, him, hpos⟩ := sameKey_single a b h
  rw [hs, hu]
  have := hf1 s.coef u.coef s.groups hs0 hu0 him hpos t
  rw [show (⟨u.coef, s.groups⟩ : Term) = u from by rw [hg]] at this
  exact this

/-- `probs` of the vector `evolve` returns for ONE basis state with a non-zero coefficient, any matrix: the
normalised distribution of the groups' recombination — the coefficient does not occur -/
theorem probsOfEvolve_single {m : ℕ} (U : Matrix (Fin m) (Fin m) GQ) (c : GQ) (g : List Fock) (hc : c ≠ 0)
    (t : Fock) :
    get (probsOfEvolve U [⟨c, g⟩]) t =
      if mass (tupD U g) = 0 then 0 else get (normalize (tupD U g)) t := by
  classical
  have hsv : probsSV U [⟨c, g⟩] = tupD U g := probsSV_single' U ⟨c, g⟩ hc
  have hN : svNorm2 [⟨c, g⟩] ≠ 0 := svNorm2_ne_zero _ ⟨_, List.mem_cons_self, hc⟩
  have hto : toBsdOf m (svNorm2 [⟨c, g⟩]) (contribs U [⟨c, g⟩]) = tupD U g := by
    rw [← probsSV_eq_toBsdOf, hsv]
  have hk : keptNorm2 (contribs U [⟨c, g⟩]) / svNorm2 [⟨c, g⟩] = mass (tupD U g) := by
    rw [← mass_toBsdOf m, hto]
  show get (probsOfKept m (contribs U [⟨c, g⟩])) t = _
  by_cases h0 : mass (tupD U g) = 0
  · rw [if_pos h0]
    have hz : keptNorm2 (contribs U [⟨c, g⟩]) = 0 := by
      rw [h0] at hk
      rcases div_eq_zero_iff.1 hk with h | h
      · exact h
      · exact absurd h hN
    have hS : ∀ K ∈ (contribs U [⟨c, g⟩]).map (·.1), K ∈ ((contribs U [⟨c, g⟩]).map (·.1)).toFinset :=
      fun K hK => List.mem_toFinset.2 hK
    unfold probsOfKept
    rw [get_toBsd m _ _ t _ hS, hz, div_zero]
  · rw [if_neg h0, ← hto]
    apply get_probsOfKept m _ hN
    intro hz
    rw [hz, zero_div] at hk
    exact h0 hk.symm

/-- **the evolve route**: for `f = probs ∘ evolve` (`probsOfEvolve U`, ANY matrix) `d[k] += w` adds exactly
`w · f(part)(t)` — no hypothesis left -/
theorem dict_accumulate_preserves_mixture_evolve {m : ℕ} (U : Matrix (Fin m) (Fin m) GQ)
    (d : List Member) (x : Member) (t : Fock) :
    mixAt (probsOfEvolve U) (partAdd d x).1 t = mixAt (probsOfEvolve U) d t + x.w * get (probsOfEvolve U x.terms) t :=
  dict_accumulate_preserves_mixture_single (probsOfEvolve U)
    (fun c c' g hc hc' _ _ t => by rw [probsOfEvolve_single U c g hc, probsOfEvolve_single U c' g hc']) d x t

theorem dict_accumulate_all_preserves_mixture_evolve {m : ℕ} (U : Matrix (Fin m) (Fin m) GQ)
    (d xs : List Member) (t : Fock) :
    mixAt (probsOfEvolve U) (partAddAll d xs) t = mixAt (probsOfEvolve U) d t + mixAt (probsOfEvolve U) xs t :=
  dict_accumulate_all_preserves_mixture_single (probsOfEvolve U)
    (fun c c' g hc hc' _ _ t => by rw [probsOfEvolve_single U c g hc, probsOfEvolve_single U c' g hc']) d xs t

/-- at threshold 0 the fast path of a member does not look at its weight -/
theorem memberFast_zero_weight {m : ℕ} (U : Matrix (Fin m) (Fin m) GQ) (mb : Member) :
    memberFast U 0 mb = memberFast U 0 ⟨0, mb.terms⟩ := by
  unfold memberFast
  simp only [zero_div]

/-- **the fast path at threshold 0** (`_probs_svd_fast`: the tensor product of the groups' distributions, the
coefficient is never read): no hypothesis left -/
theorem dict_accumulate_preserves_mixture_fast {m : ℕ} (U : Matrix (Fin m) (Fin m) GQ)
    (d : List Member) (x : Member) (t : Fock) :
    mixAt (fun ts => memberFast U 0 ⟨0, ts⟩) (partAdd d x).1 t =
      mixAt (fun ts => memberFast U 0 ⟨0, ts⟩) d t + x.w * get (memberFast U 0 x) t := by
  rw [memberFast_zero_weight U x]
  exact dict_accumulate_preserves_mixture_single (fun ts => memberFast U 0 ⟨0, ts⟩)
    (fun c c' g _ _ _ _ t => rfl) d x t

/-! non-vacuity of section 16: an equal key exists (`2·|1,0⟩` onto `|1,0⟩`), the weights add up -/
example : sameKey ⟨1 / 2, [⟨1, [[1, 0]]⟩]⟩ ⟨1 / 4, [⟨⟨2, 0⟩, [[1, 0]]⟩]⟩ = true ∧
    (partAdd [⟨1 / 2, [⟨1, [[1, 0]]⟩]⟩] ⟨1 / 4, [⟨⟨2, 0⟩, [[1, 0]]⟩]⟩).2 = 3 / 4 := by decide +kernel

/-! ## 17. the `StateVector` entry points that only dispatch (`Model/C03Entry.lean`) -/

/-- `Simulator.probability(StateVector, BasicState)` reads the distribution `_to_bsd(evolve(ψ))` at the requested
occupation: any matrix, any terms, any output — no hypothesis -/
theorem probabilitySV_eq_get {m : ℕ} (U : Matrix (Fin m) (Fin m) GQ) (terms : List Term) (t : Fock) :
    probabilitySV U terms t = get (probsOfEvolve U terms) t := by
  unfold probabilitySV probabilityOf probsOfEvolve Dist.get
  rw [List.filter_map, List.map_map]
  rfl

/-- … hence, behind a unitary circuit, the specification's probability of that outcome:
`|∑ₖ cₖ ⟨annotated outputs of occupation t | U | sₖ⟩|²` summed, for every superposition of pairwise distinct tagged
basis states, any coefficients, equal or unequal photon numbers -/
theorem probabilitySV_eq_spec {m : ℕ} (U : Matrix (Fin m) (Fin m) GQ) (hU : IsUnitary U)
    (terms : List Term) (hlen : ∀ t ∈ terms, ∀ s ∈ t.groups, s.length = m)
    (hnd : (terms.map (·.groups)).Nodup) (hN : svNorm2 terms ≠ 0) (t : Fock) :
    probabilitySV U terms t = get (probsSV U terms) t := by
  rw [probabilitySV_eq_get, probsOfEvolve_eq_probsSV U hU terms hlen hnd hN]

/-- the one-component branch of `Simulator.probs(StateVector)` (any matrix, ANY coefficient — it is never read):
the normalised convolution of the groups' distributions, tags without photons changing nothing -/
theorem probsSVentry_single {m : ℕ} (U : Matrix (Fin m) (Fin m) GQ) (term : Term) (t : Fock) :
    get (probsSVentry U [term]) t = get (normalize (probsTagged U term.groups)) t := by
  unfold probsSVentry
  refine normalize_congr (fun t => ?_) t
  have h := memberFast_eq_conv U 1 term t
  simp only [memberFast, zero_div] at h
  rw [h, probsTagged_realGroups]

/-- **both branches of `Simulator.probs(StateVector)` are the specification**: behind a unitary circuit, for every
non-empty superposition of pairwise distinct tagged basis states with non-zero coefficients, whichever branch the
number of components selects, every outcome gets its probability under `probsSV` -/
theorem probsSVentry_eq_spec {m : ℕ} (U : Matrix (Fin m) (Fin m) GQ) (hU : IsUnitary U)
    (terms : List Term) (hne : terms ≠ []) (hlen : ∀ t ∈ terms, ∀ s ∈ t.groups, s.length = m)
    (hnd : (terms.map (·.groups)).Nodup) (hc : ∀ t ∈ terms, t.coef ≠ 0) (t : Fock) :
    get (probsSVentry U terms) t = get (probsSV U terms) t := by
  match terms, hne, hlen, hnd, hc with
  | [], hne, _, _, _ => exact absurd rfl hne
  | [term], _, hlen, _, hc =>
    rw [probsSVentry_single,
      normalize_of_mass_one _ (probsTagged_mass_one U hU term.groups (hlen term (by simp)))]
    exact (probsSV_fock_eq_conv U term.coef term.groups (hc term (by simp)) t).symm
  | a :: b :: r, _, hlen, hnd, hc =>
    have hN : svNorm2 (a :: b :: r) ≠ 0 := svNorm2_ne_zero _ ⟨a, by simp, hc a (by simp)⟩
    show get (probsOfEvolve U (a :: b :: r)) t = _
    rw [probsOfEvolve_eq_probsSV U hU _ hlen hnd hN]

/-- `probs(ψ)[t]` and `probability(ψ, t)` agree although a one-component `ψ` takes two different routes (tensor
product of cached group distributions vs. recombined evolved vector) -/
theorem probsSVentry_eq_probabilitySV {m : ℕ} (U : Matrix (Fin m) (Fin m) GQ) (hU : IsUnitary U)
    (terms : List Term) (hne : terms ≠ []) (hlen : ∀ t ∈ terms, ∀ s ∈ t.groups, s.length = m)
    (hnd : (terms.map (·.groups)).Nodup) (hc : ∀ t ∈ terms, t.coef ≠ 0) (t : Fock) :
    get (probsSVentry U terms) t = probabilitySV U terms t := by
  rw [probsSVentry_eq_spec U hU terms hne hlen hnd hc,
    probabilitySV_eq_spec U hU terms hlen hnd (by
      obtain ⟨a, ha⟩ := List.exists_mem_of_ne_nil terms hne
      exact svNorm2_ne_zero _ ⟨a, ha, hc a ha⟩)]

/-- **a basis state is its own one-component vector**: `probability(BasicState, t)` (sum over the partitions of the
output among the tag groups) = `probability(c·|s⟩, t)` (evolve, squared moduli) for every coefficient `c ≠ 0` -/
theorem probability_bs_eq_sv {m : ℕ} (U : Matrix (Fin m) (Fin m) GQ) (hU : IsUnitary U) (st : AState)
    (hst : st.length = m) (c : GQ) (hc : c ≠ 0) (t : Fock) (ht : t.length = m) :
    probabilityBS U st t = probabilitySV U [⟨c, separate st⟩] t := by
  have hlen : ∀ s ∈ separate st, s.length = m := by
    intro s hs
    unfold separate at hs
    split at hs
    · simp only [List.mem_singleton] at hs
      simp [hs, occ, hst]
    · obtain ⟨tg, _, rfl⟩ := List.mem_map.1 hs
      simp [groupOf, hst]
  rw [probability_eq_conv U st t ht,
    probabilitySV_eq_spec U hU [⟨c, separate st⟩] (by simpa using hlen) (by simp)
      (svNorm2_ne_zero _ ⟨⟨c, separate st⟩, by simp, hc⟩)]
  exact (probsSV_fock_eq_conv U c (separate st) hc t).symm

/-- the coefficient of a one-component vector is never read by `probs`; the route through `evolve` divides `0` by `0`
for a zero coefficient (the native container cannot hold such a vector): `c ≠ 0` is needed for the agreement -/
theorem probsSVentry_single_coef {m : ℕ} (U : Matrix (Fin m) (Fin m) GQ) (c c' : GQ) (gs : List Fock) :
    probsSVentry U [⟨c, gs⟩] = probsSVentry U [⟨c', gs⟩] := rfl

/-! non-vacuity of section 17: `exSV` (two components) and its first component alone behind `exU` -/
example : ∀ t, get (probsSVentry PM.C02.exU exSV) t = probabilitySV PM.C02.exU exSV t :=
  probsSVentry_eq_probabilitySV _ exU_isUnitary _ (by simp [exSV]) exSV_ok.1 exSV_ok.2.1 (by
    intro t ht
    simp only [exSV, List.mem_cons, List.not_mem_nil, or_false] at ht
    rcases ht with rfl | rfl <;> decide +kernel)

example : ∀ t, get (probsSVentry PM.C02.exU [⟨⟨0, 1⟩, [[2, 0], [0, 1]]⟩]) t =
    probabilitySV PM.C02.exU [⟨⟨0, 1⟩, [[2, 0], [0, 1]]⟩] t :=
  probsSVentry_eq_probabilitySV _ exU_isUnitary _ (by simp) (by
    intro t ht s hs
    simp only [List.mem_cons, List.not_mem_nil, or_false] at ht
    subst ht
    simp only [List.mem_cons, List.not_mem_nil, or_false] at hs
    rcases hs with rfl | rfl <;> rfl) (by simp) (by
    intro t ht
    simp only [List.mem_cons, List.not_mem_nil, or_false] at ht
    subst ht; decide +kernel)

/-!
Not proved here (validated by the correspondence on every run):
* that the IMPLEMENTATION leaves out at a non-zero precision exactly what the model leaves out: sections 10 bounds
  the modelled algorithm (`probsSvd_precision_bound`), the harness compares `Simulator.probs_svd` with the exact
  mixture under that bound and with the model's own thresholded result at 1e-9;
* the hypotheses `mass (rawSvd …) ≠ 0` / `errTot < 1` involve permanents, which the kernel does not evaluate: their
  non-vacuity is witnessed by the driver on every run (required branch `prec-theorem-applies`);
* the native cut of small components: `evolve_cut_bound` bounds every amplitude BEFORE the final normalisation, for
  every admissible choice of lost components; AFTER the normalisation section 14 bounds the norm the cut took away and
  every PROBABILITY of the normalised kept vector (`evolve_cut_normalized`, `…_lossAt`, `…_unitary`).  Still not
  proved: the same bound for the normalised AMPLITUDES themselves (phase included) — `A_k/√N − A'_k/√N'` involves the
  square roots of the two norms, which are not rational; the harness keeps its numerical `loss_profile` slack for
  the amplitude comparison.  Which components the native container discards is not modelled (the theorems quantify
  over all splits); the harness does not yet compare with `cutErrD` (the driver has no op for it);
* basis states of one superposition that coincide after the split into tag groups: section 15 says what the model
  gives (`probs_coinciding_terms`: total probability `‖ψ'‖²/‖ψ‖²`, `probs∘evolve` = the distribution of the merged
  vector) and that 'pairwise distinct basis states' is necessary (`probsSV_mass_one_needs_distinct`); the iff
  `probs_two_coinciding_mass_one_iff` is proved for TWO coinciding terms alone, the general criterion (any number of
  coinciding terms beside others: total probability 1 iff `‖merged ψ‖² = ‖ψ‖²`) follows from
  `probs_coinciding_terms` by induction on the merges and is not written out; such inputs are still not generated by
  the harness (the native `==` of such states is not symmetric);
* `dict_accumulate_preserves_mixture`: the hypothesis is discharged for `probsSV U`, `probsOfEvolve U` and the fast
  path at threshold 0 (section 16); for the paths at a threshold > 0 the member distribution depends on the member's
  WEIGHT (`θ/(10·w)`), so `d[k] += w` changes the distribution of the key itself — there the statement is false as
  it stands and sections 10's `preprocess_split` is the applicable theorem;
* the identity of two multi-component state vectors as dict keys (native float comparison): not modelled
  (distinct keys in `sameKey`); section 13 models the dict discipline (`norm` abstract): which un-normalised vectors the
  native normalisation maps to bit-identical keys is observed (scalings by powers of two, fresh copies), not modelled;
* section 17 (`probs(StateVector)` / `probability(StateVector, ·)`): the number of components is the length of the term
  list — that the native container holds one component per distinct basis state is compared (`len(sv)`), not modelled;
  `evolve_svd` given a `StateVector`/`BasicState` returns `SVDistribution(evolve(·))`, not the documented dict: not modelled;
* states mixing annotated and un-annotated photons: `native` (Model/C03Mixed.lean) describes what the native
  `separate_state` / `get_photon_annotation(0)` were observed to do; that they do it is the correspondence (every
  request is read through `native`; groups and annotation map compared with the real objects), not a theorem.
-/

end PM.C03
