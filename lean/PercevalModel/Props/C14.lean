/-
  C14 — property theorems (models: `Model/C14.lean`; documented matrices: `Lemmas/C14Complex.lean`).

  * algebra of the components over any commutative star ring with an imaginary unit (numeric branch =
    symbolic branch, factorisation, unitarity), and the instantiation at ℂ for **all real** angles;
  * `Parameter._check_value`: specification of the exact wrap, robustness of the repaired code under
    any rounding, the defect of the pinned code under IEEE double rounding (concrete witness);
  * the declared span of every parameter slot is a period of the component's matrix, hence wrapping
    (however far outside the range) never changes the matrix;
  * PERM: `u[v,i] = 1` sends input mode `k` to output mode `σ[k]`, is unitary, `perm_vector` reads
    the list back, the constructor's assertion accepts exactly the permutations;
  * a slot bound to an expression always evaluates at the live values of its sub-parameters.
-/
import PercevalModel.Lemmas.C14Complex
import PercevalModel.Num.GQ

open Matrix PM Complex

namespace PM.C14
variable {R : Type*}

/-! ### components over a generic ring -/

/-- The numeric branch of `BS._compute_unitary` (cos/sin of sums of angles) and the symbolic branch
(products of phases) are the same matrix, for every convention. -/
theorem bsNum_eq_bs [CommRing R] {I : R} (hI : I * I = -1) (conv : Conv) (h tl bl tr br : Ang R) :
    bsNum I conv h tl bl tr br = bs I conv h.c h.s (tl.cis I) (bl.cis I) (tr.cis I) (br.cis I) := by
  unfold bsNum bs
  rw [cis_add hI, cis_add hI, cis_add hI, cis_add hI]
  ext i j
  fin_cases i <;> fin_cases j <;> simp <;> ring

/-- `BS = (phases on the right arms) · (phase-free BS of the convention) · (phases on the left arms)`. -/
theorem bs_factorisation [CommRing R] (I : R) (conv : Conv) (c s ptl pbl ptr pbr : R) :
    bs I conv c s ptl pbl ptr pbr = diag2 ptr pbr * bsCore I conv c s * diag2 ptl pbl :=
  bs_factorisation' I conv c s ptl pbl ptr pbr

/-- The beam splitter is unitary in every convention whenever `c, s` are self-adjoint with
`c² + s² = 1` and the four phases have unit modulus. -/
theorem bs_isUnitary [CommRing R] [StarRing R] {I : R} (hI : ImagUnit I) (conv : Conv)
    {c s ptl pbl ptr pbr : R} (hc : star c = c) (hs : star s = s) (hcs : c * c + s * s = 1)
    (htl : ptl * star ptl = 1) (hbl : pbl * star pbl = 1)
    (htr : ptr * star ptr = 1) (hbr : pbr * star pbr = 1) :
    IsUnitary (bs I conv c s ptl pbl ptr pbr) := by
  rw [bs_factorisation]
  exact ((diag2_isUnitary htr hbr).mul (bsCore_isUnitary hI conv hc hs hcs)).mul
    (diag2_isUnitary htl hbl)

theorem ps_isUnitary [CommRing R] [StarRing R] {p : R} (hp : p * star p = 1) : IsUnitary (ps p) :=
  ps_isUnitary' hp

/-- numeric = symbolic for the phase shifter is definitional: `psNum I a = ps (a.cis I)`. -/
theorem psNum_eq_ps [Ring R] (I : R) (a : Ang R) : psNum I a = ps (a.cis I) := rfl

theorem wp_isUnitary [CommRing R] [StarRing R] {I : R} (hI : ImagUnit I) {d x : Ang R}
    (hd : d.IsReal) (hx : x.IsReal) : IsUnitary (wp I d x) :=
  wpCore_isUnitary hI hd (hx.add hx)

theorem pr_isUnitary [CommRing R] [StarRing R] {d : Ang R} (hd : d.IsReal) : IsUnitary (pr d) :=
  pr_isUnitary' hd

/-! ### instantiation at ℂ: documented matrix, unitary for all real parameter values -/

/-- Both branches of `BS._compute_unitary` give the documented matrix, which is unitary, for all real
`θ, φ_tl, φ_bl, φ_tr, φ_br` and all three conventions. -/
theorem bs_complex (conv : Conv) (θ φtl φbl φtr φbr : ℝ) :
    bsNum I conv (angR (θ / 2)) (angR φtl) (angR φbl) (angR φtr) (angR φbr)
        = bsDoc conv θ φtl φbl φtr φbr ∧
      bs I conv (Real.cos (θ / 2)) (Real.sin (θ / 2)) (ph φtl) (ph φbl) (ph φtr) (ph φbr)
        = bsDoc conv θ φtl φbl φtr φbr ∧
      IsUnitary (bsDoc conv θ φtl φbl φtr φbr) := by
  have hsym : bs I conv (Real.cos (θ / 2)) (Real.sin (θ / 2)) (ph φtl) (ph φbl) (ph φtr) (ph φbr)
      = bsDoc conv θ φtl φbl φtr φbr := by
    unfold bs bsDoc
    simp only [ph_add]
    cases conv <;> ext i j <;> fin_cases i <;> fin_cases j <;> simp [template] <;> ring
  refine ⟨?_, hsym, ?_⟩
  · rw [bsNum_eq_bs Complex.I_mul_I, angR_cis, angR_cis, angR_cis, angR_cis]
    exact hsym
  · rw [← hsym]
    exact bs_isUnitary imagUnit_I conv (Complex.conj_ofReal _) (Complex.conj_ofReal _)
      (angR_isReal (θ / 2)).unit (exp_unit _) (exp_unit _) (exp_unit _) (exp_unit _)

theorem ps_complex (φ : ℝ) :
    psNum I (angR φ) = psDoc φ ∧ ps (ph φ) = psDoc φ ∧ IsUnitary (psDoc φ) := by
  refine ⟨?_, rfl, ps_isUnitary (exp_unit φ)⟩
  rw [psNum_eq_ps, angR_cis]; rfl

theorem wp_complex (δ ξ : ℝ) : wp I (angR δ) (angR ξ) = wpDoc δ ξ ∧ IsUnitary (wpDoc δ ξ) := by
  have h : wp I (angR δ) (angR ξ) = wpDoc δ ξ := by
    unfold wp wpDoc
    rw [angR_add, ← two_mul]
    ext i j
    fin_cases i <;> fin_cases j <;> simp [angR] <;> ring
  exact ⟨h, h ▸ wp_isUnitary imagUnit_I (angR_isReal δ) (angR_isReal ξ)⟩

theorem pr_complex (δ : ℝ) : pr (angR δ) = prDoc δ ∧ IsUnitary (prDoc δ) := by
  have h : pr (angR δ) = prDoc δ := by unfold pr prDoc angR; rfl
  exact ⟨h, h ▸ pr_isUnitary (angR_isReal δ)⟩

/-! ### `Parameter._check_value` -/

section wrap
variable {K : Type*} [Field K] [LinearOrder K] [IsStrictOrderedRing K] [FloorRing K]
set_option linter.unusedSectionVars false

/-- Exact arithmetic, periodic parameter with bounds `lo < hi`: never raises, the stored value lies in
`[lo, hi]` and differs from the requested one by an integer number of spans. -/
theorem wrap_spec {lo hi : K} (h : lo < hi) (v : K) :
    ∃ w, wrap true (some lo) (some hi) v = some w ∧ lo ≤ w ∧ w ≤ hi ∧
      ∃ k : ℤ, w = v + k * (hi - lo) := by
  obtain ⟨h1, h2, k, hk⟩ := wrapCore_exact h v
  rw [← wrapCore_clamp_id h v] at h1 h2 hk
  exact ⟨_, checkValue_some_of_bounds id true v h1 h2, h1, h2, k, hk⟩

/-- A non-periodic parameter (or one with a missing bound) is never moved: the value is stored as
given when inside the bounds that exist and the call raises otherwise — whatever the rounding. -/
theorem wrap_nonperiodic (rnd : K → K) (clamp : Bool) (lo hi : Option K) (v : K) :
    checkValue rnd clamp false lo hi v =
      if (lo.any fun l => decide (v < l)) || (hi.any fun h => decide (v > h)) then none else some v := by
  simp [checkValue]

/-- The repaired code cannot leave `[lo, hi]` and cannot raise on a periodic bounded parameter,
**whatever the rounding function** applied after each arithmetic operation. -/
theorem wrapFixed_in_bounds (rnd : K → K) {lo hi : K} (h : lo ≤ hi) (v : K) :
    ∃ w, wrapFixed rnd true (some lo) (some hi) v = some w ∧ lo ≤ w ∧ w ≤ hi := by
  obtain ⟨h1, h2⟩ := wrapCore_clamp_bounds rnd h v
  exact ⟨_, checkValue_some_of_bounds rnd true v h1 h2, h1, h2⟩

/-- In exact arithmetic the repair changes nothing. -/
theorem wrapFixed_id_eq_wrapCurrent_id {lo hi : K} (h : lo < hi) (v : K) :
    wrapFixed id true (some lo) (some hi) v = wrapCurrent id true (some lo) (some hi) v := by
  simp only [wrapFixed, wrapCurrent, checkValue, wrapCore_clamp_id h v]

end wrap

/-- `float(2*math.pi)` as the dyadic rational it is -/
def twoPi64 : ℚ := 884279719003555 / 140737488355328

/-- The pinned code violates the property: under IEEE double rounding `PS(phi = -98 * 2π)`
(value `fl64 (-98 * twoPi64)`, bounds `[0, 2π]`) raises `ValueError`, although exact arithmetic
stores an in-range equivalent value (`wrap_spec`) and the repaired code stores the upper bound. -/
theorem wrapCurrent_fails_on_current_code :
    wrapCurrent fl64 true (some 0) (some twoPi64) (fl64 (-98 * twoPi64)) = none ∧
      wrapFixed fl64 true (some 0) (some twoPi64) (fl64 (-98 * twoPi64)) = some twoPi64 := by
  decide +kernel

/-- Same defect for the beam-splitter angle: `BS(theta = 48π)` with bounds `[0, 4π]`. -/
theorem wrapCurrent_fails_on_bs_theta :
    wrapCurrent fl64 true (some 0) (some (2 * twoPi64)) (fl64 (24 * twoPi64)) = none ∧
      (wrapFixed fl64 true (some 0) (some (2 * twoPi64)) (fl64 (24 * twoPi64))).isSome = true := by
  decide +kernel

/-! ### wrapping leaves the matrix unchanged (all real values, however far outside the range) -/

/-- If the declared span `hi - lo` is a period of `f`, the stored (wrapped) value gives the same `f`. -/
theorem wrap_preserves {α : Type*} (f : ℝ → α) {lo hi : ℝ} (h : lo < hi)
    (hf : ∀ x (k : ℤ), f (x + k * (hi - lo)) = f x) (v : ℝ) :
    ∃ w, wrap true (some lo) (some hi) v = some w ∧ lo ≤ w ∧ w ≤ hi ∧ f w = f v := by
  obtain ⟨w, hw, h1, h2, k, hk⟩ := wrap_spec h v
  exact ⟨w, hw, h1, h2, by rw [hk, hf]⟩

/-- `θ` of a beam splitter is declared on `[0, 4π]`, and `4π` is a period of the matrix. -/
theorem wrap_preserves_matrix_bs_theta (conv : Conv) (φtl φbl φtr φbr θ : ℝ) :
    ∃ w, wrap true (some 0) (some (4 * Real.pi)) θ = some w ∧ 0 ≤ w ∧ w ≤ 4 * Real.pi ∧
      bsDoc conv w φtl φbl φtr φbr = bsDoc conv θ φtl φbl φtr φbr := by
  refine wrap_preserves (fun t => bsDoc conv t φtl φbl φtr φbr) (by positivity) ?_ θ
  intro x k
  have : (x + k * (4 * Real.pi - 0)) / 2 = x / 2 + k * (2 * Real.pi) := by ring
  simp only [bsDoc, this, Real.cos_add_int_mul_two_pi, Real.sin_add_int_mul_two_pi]

/-- `2π` is **not** a period in `θ`: it flips the sign of the matrix — why the bound must be `4π`. -/
theorem bsDoc_theta_add_two_pi (conv : Conv) (θ φtl φbl φtr φbr : ℝ) :
    bsDoc conv (θ + 2 * Real.pi) φtl φbl φtr φbr = -bsDoc conv θ φtl φbl φtr φbr := by
  have : (θ + 2 * Real.pi) / 2 = θ / 2 + Real.pi := by ring
  cases conv <;> ext i j <;> fin_cases i <;> fin_cases j <;>
    simp [bsDoc, this, Real.cos_add_pi, Real.sin_add_pi]

/-- the four phases of a beam splitter are declared on `[0, 2π]`, a period of the matrix in each. -/
theorem wrap_preserves_matrix_bs_phases (conv : Conv) (θ φtl φbl φtr φbr : ℝ) :
    (∃ w, wrap true (some 0) (some (2 * Real.pi)) φtl = some w ∧ 0 ≤ w ∧ w ≤ 2 * Real.pi ∧
      bsDoc conv θ w φbl φtr φbr = bsDoc conv θ φtl φbl φtr φbr) ∧
    (∃ w, wrap true (some 0) (some (2 * Real.pi)) φbl = some w ∧ 0 ≤ w ∧ w ≤ 2 * Real.pi ∧
      bsDoc conv θ φtl w φtr φbr = bsDoc conv θ φtl φbl φtr φbr) ∧
    (∃ w, wrap true (some 0) (some (2 * Real.pi)) φtr = some w ∧ 0 ≤ w ∧ w ≤ 2 * Real.pi ∧
      bsDoc conv θ φtl φbl w φbr = bsDoc conv θ φtl φbl φtr φbr) ∧
    (∃ w, wrap true (some 0) (some (2 * Real.pi)) φbr = some w ∧ 0 ≤ w ∧ w ≤ 2 * Real.pi ∧
      bsDoc conv θ φtl φbl φtr w = bsDoc conv θ φtl φbl φtr φbr) := by
  have hp : (0 : ℝ) < 2 * Real.pi := by positivity
  have e1 : ∀ (x y : ℝ) (k : ℤ), ph (x + k * (2 * Real.pi - 0) + y) = ph (x + y) := by
    intro x y k
    have : x + k * (2 * Real.pi - 0) + y = (x + y) + k * (2 * Real.pi) := by ring
    rw [this, ph_periodic]
  have e2 : ∀ (x y : ℝ) (k : ℤ), ph (y + (x + k * (2 * Real.pi - 0))) = ph (y + x) := by
    intro x y k
    have : y + (x + k * (2 * Real.pi - 0)) = (y + x) + k * (2 * Real.pi) := by ring
    rw [this, ph_periodic]
  refine ⟨wrap_preserves (fun t => bsDoc conv θ t φbl φtr φbr) hp ?_ φtl,
    wrap_preserves (fun t => bsDoc conv θ φtl t φtr φbr) hp ?_ φbl,
    wrap_preserves (fun t => bsDoc conv θ φtl φbl t φbr) hp ?_ φtr,
    wrap_preserves (fun t => bsDoc conv θ φtl φbl φtr t) hp ?_ φbr⟩ <;>
  · intro x k
    simp only [bsDoc, e1, e2]

/-- `φ` of a phase shifter: `[0, 2π]`. -/
theorem wrap_preserves_matrix_ps (φ : ℝ) :
    ∃ w, wrap true (some 0) (some (2 * Real.pi)) φ = some w ∧ 0 ≤ w ∧ w ≤ 2 * Real.pi ∧
      psDoc w = psDoc φ := by
  refine wrap_preserves psDoc (by positivity) ?_ φ
  intro x k
  simp only [psDoc, sub_zero, ph_periodic]

/-- `δ` and `ξ` of a wave plate: `[-π, π]` (span `2π`; the true period in `ξ` is `π`). -/
theorem wrap_preserves_matrix_wp (δ ξ : ℝ) :
    (∃ w, wrap true (some (-Real.pi)) (some Real.pi) δ = some w ∧ -Real.pi ≤ w ∧ w ≤ Real.pi ∧
      wpDoc w ξ = wpDoc δ ξ) ∧
    (∃ w, wrap true (some (-Real.pi)) (some Real.pi) ξ = some w ∧ -Real.pi ≤ w ∧ w ≤ Real.pi ∧
      wpDoc δ w = wpDoc δ ξ) := by
  have hp : -Real.pi < Real.pi := by linarith [Real.pi_pos]
  have hs : Real.pi - -Real.pi = 2 * Real.pi := by ring
  refine ⟨wrap_preserves (fun t => wpDoc t ξ) hp ?_ δ, wrap_preserves (fun t => wpDoc δ t) hp ?_ ξ⟩
  · intro x k
    simp only [wpDoc, hs, Real.cos_add_int_mul_two_pi, Real.sin_add_int_mul_two_pi]
  · intro x k
    have : 2 * (x + k * (Real.pi - -Real.pi)) = 2 * x + (2 * k : ℤ) * (2 * Real.pi) := by
      push_cast; ring
    simp only [wpDoc, this, Real.cos_add_int_mul_two_pi, Real.sin_add_int_mul_two_pi]

/-- `δ` of a polarisation rotator: `[-π, π]`. -/
theorem wrap_preserves_matrix_pr (δ : ℝ) :
    ∃ w, wrap true (some (-Real.pi)) (some Real.pi) δ = some w ∧ -Real.pi ≤ w ∧ w ≤ Real.pi ∧
      prDoc w = prDoc δ := by
  have hp : -Real.pi < Real.pi := by linarith [Real.pi_pos]
  have hs : Real.pi - -Real.pi = 2 * Real.pi := by ring
  refine wrap_preserves prDoc hp ?_ δ
  intro x k
  simp only [prDoc, hs, Real.cos_add_int_mul_two_pi, Real.sin_add_int_mul_two_pi]

/-! ### PERM -/

/-- `u[v, i] = 1 for i, v in enumerate(perm)`: the basis vector of input mode `k` is sent to the
basis vector of output mode `σ k` (no hypothesis on `σ`). -/
theorem permMat_sends [NonAssocSemiring R] {n : ℕ} (σ : Fin n → Fin n) (k : Fin n) :
    permMat (R := R) σ *ᵥ Pi.single k 1 = Pi.single (σ k) 1 :=
  permMat_mulVec_single' σ k

theorem permMat_isUnitary [CommRing R] [StarRing R] {n : ℕ} {σ : Fin n → Fin n}
    (hσ : Function.Injective σ) : IsUnitary (permMat (R := R) σ) :=
  permMat_isUnitary' hσ

/-- The constructor's assertion (`min == 0 and max+1 == len == len(set)`) accepts exactly the
lists that are permutations of `0 … n-1`, `n ≥ 1`. -/
theorem permOk_iff_perm (l : List ℤ) :
    permOk l = true ↔ l ≠ [] ∧ l.Nodup ∧ ∀ x ∈ l, 0 ≤ x ∧ x < l.length :=
  permOk_iff l

/-- `PERM(l).perm_vector == l` for every accepted list of any length (over any non-trivial ring). -/
theorem perm_vector_roundtrip [MulZeroOneClass R] [Nontrivial R] [DecidableEq R] {l : List ℤ}
    (h : permOk l = true) :
    (permVector (permMat (R := R) (permFun l))).map Int.ofNat = l := by
  rw [permVector_permMat (permFun_injective h)]
  apply List.ext_getElem (by simp)
  intro i h1 h2
  simp only [List.getElem_map, List.getElem_ofFn]
  exact permFun_val h ⟨i, by simpa using h1⟩

/-- …and the matrix of an accepted list sends input mode `k` to the output mode listed at position `k`. -/
theorem perm_sends_listed [NonAssocSemiring R] {l : List ℤ} (h : permOk l = true)
    (k : Fin l.length) :
    ∃ out : Fin l.length, (out.val : ℤ) = l[k.val] ∧
      permMat (R := R) (permFun l) *ᵥ Pi.single k 1 = Pi.single out 1 :=
  ⟨permFun l k, permFun_val h k, permMat_sends _ k⟩

/-! ### live expressions -/

/-- After any history of `set_value` calls (accepted or rejected, on any parameters), a slot bound
to the expression `e` evaluates `e` at the live value of each of its sub-parameters, and the live
value of `y` is determined by the calls on `y` alone (last accepted one, wrapped into `y`'s own
bounds; the initial value if none) — there is no cached or stale state. -/
theorem expr_live (e : Expr) (st : Store) (ops : List (String × ℚ)) :
    slotValue e (st.run ops) = e.eval fun y => ops.foldl (st.step y) (st.env y) := by
  unfold slotValue
  exact e.eval_congr fun y _ => Store.env_run st ops y

/-- A slot's value depends only on the live values of the parameters that occur in its expression. -/
theorem expr_depends_on_vars (e : Expr) (st₁ st₂ : Store)
    (h : ∀ x ∈ e.vars, st₁.env x = st₂.env x) : slotValue e st₁ = slotValue e st₂ :=
  e.eval_congr h

/-! ### non-vacuity -/

/-- `bs_isUnitary`, `wp_isUnitary`, `pr_isUnitary`, `ps_isUnitary`: the hypotheses hold at `GQ`
for the 3-4-5 and 5-12-13 angles. -/
def a345 : Ang GQ := ⟨⟨3 / 5, 0⟩, ⟨4 / 5, 0⟩⟩
def a51213 : Ang GQ := ⟨⟨-5 / 13, 0⟩, ⟨12 / 13, 0⟩⟩

example : ImagUnit GQ.I ∧ a345.IsReal ∧ a51213.IsReal ∧
    (a345.cis GQ.I) * star (a345.cis GQ.I) = 1 := by
  refine ⟨⟨by decide +kernel, by decide +kernel⟩, ⟨by decide +kernel, by decide +kernel, by decide +kernel⟩,
    ⟨by decide +kernel, by decide +kernel, by decide +kernel⟩, by decide +kernel⟩

example : IsUnitary (bs GQ.I .H a345.c a345.s (a51213.cis GQ.I) 1 (a345.cis GQ.I) 1) ∧
    bs GQ.I .H a345.c a345.s (a51213.cis GQ.I) 1 (a345.cis GQ.I) 1 ≠ 1 := by
  unfold IsUnitary; decide +kernel

/-- `wrap_spec` / `wrapFixed_in_bounds`: a far-out value at ℚ. -/
example : wrap (K := ℚ) true (some 0) (some 4) (-1001 / 2) = some (7 / 2) := by decide +kernel

/-- `wrapFixed_in_bounds` with a rounding that is not the identity: under IEEE double rounding the
repaired code stores the bound itself where the pinned code raises (`wrapCurrent_fails_on_current_code`),
and `wrap_nonperiodic`: both branches (kept as given / raises) occur. -/
example : wrapFixed fl64 true (some 0) (some twoPi64) (fl64 (-98 * twoPi64)) = some twoPi64 ∧
    checkValue (K := ℚ) id true false (some 0) (some 1) (1 / 2) = some (1 / 2) ∧
    checkValue (K := ℚ) id true false (some 0) (some 1) 2 = none ∧
    checkValue (K := ℚ) id true false none (some 1) 2 = none := by
  decide +kernel

/-- `perm_vector_roundtrip`, `perm_sends_listed`: the documentation's example. -/
example : permOk [2, 3, 1, 0] = true ∧ permOk [2, 3, 1, 1] = false ∧ permOk [1, 2, 3] = false := by
  decide +kernel

/-- `permMat_isUnitary`: the hypothesis holds for every accepted list (here the documentation's example),
and the permutation is not the identity. -/
example : Function.Injective (permFun [2, 3, 1, 0]) ∧ (permFun [2, 3, 1, 0] ⟨0, by decide⟩).val = 2 :=
  ⟨permFun_injective (by decide +kernel), by decide +kernel⟩

/-- `expr_live`: a history with a rejected call (out of non-periodic bounds) and a wrapped one. -/
def exStore : Store := fun x =>
  if x = "a" then some ⟨some 0, some 4, true, none⟩
  else if x = "b" then some ⟨some 0, some 1, false, some (1 / 2)⟩ else none

example : slotValue (.add (.mul (.var "a") (.const 2)) (.var "b"))
    (exStore.run [("a", 9), ("b", 7), ("a", -1), ("b", 1 / 4)]) = some (25 / 4) := by
  decide +kernel

/-- `expr_depends_on_vars`: two different stores that agree on the variables of the expression. -/
example : slotValue (.mul (.var "b") (.const 2)) exStore =
    slotValue (.mul (.var "b") (.const 2)) (exStore.run [("a", 9)]) ∧
    exStore.env "a" ≠ (exStore.run [("a", 9)]).env "a" := by
  decide +kernel

end PM.C14
