/-
  C14 — property theorems (models: `Model/C14.lean`; documented matrices: `Lemmas/C14Complex.lean`).

  * algebra of the components over any commutative star ring with an imaginary unit (numeric branch =
    symbolic branch, factorisation, unitarity), and the instantiation at ℂ for **all real** angles;
  * `Parameter._check_value`: specification of the exact wrap, robustness of the repaired code under
    any rounding, the defect of the pinned code under IEEE double rounding (concrete witness);
  * the declared span of every parameter slot is a period of the component's matrix, hence wrapping
    (however far outside the range) never changes the matrix;
  * PERM: `u[v,i] = 1` sends input mode `k` to output mode `σ[k]`, is unitary, `perm_vector` reads
    the list back, the constructor's assertion accepts exactly the permutations;
  * a slot bound to an expression always evaluates at the live values of its sub-parameters;
  * the Parameter LIFECYCLE (`Model/C14Life.lean`: constructor, `set_value`, `fix_value`, `reset`,
    `set_periodic`, recycling by `_set_parameter`, `vars`/`assign`, `copy`) over EVERY history: a stored
    value is inside the bounds, the wrap is idempotent and congruent, a fixed parameter never changes, `reset`
    restores the symbol, a parameter's state depends only on the calls made on it;
  * a parameter SHARED between slots of different declared ranges: the pinned `_set_parameter` makes it
    periodic over the intersection, whose span is not a period of every slot — the matrix changes sign
    (theorem with the witness `BS(theta=x, phi_tl=x)`, `x = 3π`); the repaired rule is sound for every history;
  * EXPRESSION objects (`Model/C14Expr.lean`): the full language (`+ - * /`, integer powers of either sign, unary
    minus, `sin cos exp sqrt acos`, `pi`; functions uninterpreted), `subs` then `float`, sessions of raw parameters
    and Expression objects: a slot holding an Expression that was not given a value reads the expression at the
    CURRENT values after every history (`expression_live`); `set_value` on the object freezes it to a (wrapped)
    constant until `reset` (`expression_override_freezes`); Expressions of Expressions; bounds never touch the value;
  * the SYMBOLIC branch of every leaf (`Model/C14Sym.lean`): entries as expressions over the slots' `spv`, evaluated
    at any real values = documented matrix = numeric branch (`symbolic_bs` … `symbolic_pr`), `spv` evaluates to what
    `float()` reads, base change of the ring-polymorphic definitions, `PBS`;
  * `PS.max_error ≠ 0` stays in the documented family (`ps_max_error`); `compute_unitary(assign=…)` per leaf;
  * (wave 7) the LINK session model ↔ symbolic theorems as one theorem per leaf (`session_symbolic_bs` … `_pr`,
    `expression_live_symbolic_ps`): the rational value `float()` reads is the real value of `spv` under the true
    functions (`xexpr_session_value_is_real_value`, from `xexpr_eval_base_change`) for arithmetic expressions and
    for `pi`-free ones over an exact table.  NOT proved (false as an exact statement, `link_fails_on_pi`,
    `link_needs_true_table`): expressions containing `pi` or read through rounded table entries — there the session
    value only approximates the real one and no error bound is proved.
-/
import PercevalModel.Lemmas.C14Complex
import PercevalModel.Lemmas.C14Life
import PercevalModel.Lemmas.C14Sym
import PercevalModel.Lemmas.C14Link
import PercevalModel.Lemmas.C14Refl
import PercevalModel.Num.GQ

open Matrix PM Complex

namespace PM.C14
variable {R : Type*}

/-! ### components over a generic ring -/

/-- The numeric branch of `BS._compute_unitary` (cos/sin of sums of angles) and the symbolic branch
(products of phases) are the same matrix, for every convention. -/
theorem bsNum_eq_bs [CommRing R] {I : R} (hI : I * I = -1) (conv : Conv) (h tl bl tr br : Ang R) :
    bsNum I conv h tl bl tr br = bs I conv h.c h.s (tl.cis I) (bl.cis I) (tr.cis I) (br.cis I) := by
  unfold bsNum bs
  rw [cis_add hI, cis_add hI, cis_add hI, cis_add hI]
  ext i j
  fin_cases i <;> fin_cases j <;> simp <;> ring

/-- `BS = (phases on the right arms) · (phase-free BS of the convention) · (phases on the left arms)`. -/
theorem bs_factorisation [CommRing R] (I : R) (conv : Conv) (c s ptl pbl ptr pbr : R) :
    bs I conv c s ptl pbl ptr pbr = diag2 ptr pbr * bsCore I conv c s * diag2 ptl pbl :=
  bs_factorisation' I conv c s ptl pbl ptr pbr

/-- The beam splitter is unitary in every convention whenever `c, s` are self-adjoint with
`c² + s² = 1` and the four phases have unit modulus. -/
theorem bs_isUnitary [CommRing R] [StarRing R] {I : R} (hI : ImagUnit I) (conv : Conv)
    {c s ptl pbl ptr pbr : R} (hc : star c = c) (hs : star s = s) (hcs : c * c + s * s = 1)
    (htl : ptl * star ptl = 1) (hbl : pbl * star pbl = 1)
    (htr : ptr * star ptr = 1) (hbr : pbr * star pbr = 1) :
    IsUnitary (bs I conv c s ptl pbl ptr pbr) := by
  rw [bs_factorisation]
  exact ((diag2_isUnitary htr hbr).mul (bsCore_isUnitary hI conv hc hs hcs)).mul
    (diag2_isUnitary htl hbl)

theorem ps_isUnitary [CommRing R] [StarRing R] {p : R} (hp : p * star p = 1) : IsUnitary (ps p) :=
  ps_isUnitary' hp

/-- numeric = symbolic for the phase shifter is definitional: `psNum I a = ps (a.cis I)`. -/
theorem psNum_eq_ps [Ring R] (I : R) (a : Ang R) : psNum I a = ps (a.cis I) := rfl

theorem wp_isUnitary [CommRing R] [StarRing R] {I : R} (hI : ImagUnit I) {d x : Ang R}
    (hd : d.IsReal) (hx : x.IsReal) : IsUnitary (wp I d x) :=
  wpCore_isUnitary hI hd (hx.add hx)

theorem pr_isUnitary [CommRing R] [StarRing R] {d : Ang R} (hd : d.IsReal) : IsUnitary (pr d) :=
  pr_isUnitary' hd

/-! ### instantiation at ℂ: documented matrix, unitary for all real parameter values -/

/-- Both branches of `BS._compute_unitary` give the documented matrix, which is unitary, for all real
`θ, φ_tl, φ_bl, φ_tr, φ_br` and all three conventions. -/
theorem bs_complex (conv : Conv) (θ φtl φbl φtr φbr : ℝ) :
    bsNum I conv (angR (θ / 2)) (angR φtl) (angR φbl) (angR φtr) (angR φbr)
        = bsDoc conv θ φtl φbl φtr φbr ∧
      bs I conv (Real.cos (θ / 2)) (Real.sin (θ / 2)) (ph φtl) (ph φbl) (ph φtr) (ph φbr)
        = bsDoc conv θ φtl φbl φtr φbr ∧
      IsUnitary (bsDoc conv θ φtl φbl φtr φbr) := by
  have hsym : bs I conv (Real.cos (θ / 2)) (Real.sin (θ / 2)) (ph φtl) (ph φbl) (ph φtr) (ph φbr)
      = bsDoc conv θ φtl φbl φtr φbr := by
    unfold bs bsDoc
    simp only [ph_add]
    cases conv <;> ext i j <;> fin_cases i <;> fin_cases j <;> simp [template] <;> ring
  refine ⟨?_, hsym, ?_⟩
  · rw [bsNum_eq_bs Complex.I_mul_I, angR_cis, angR_cis, angR_cis, angR_cis]
    exact hsym
  · rw [← hsym]
    exact bs_isUnitary imagUnit_I conv (Complex.conj_ofReal _) (Complex.conj_ofReal _)
      (angR_isReal (θ / 2)).unit (exp_unit _) (exp_unit _) (exp_unit _) (exp_unit _)

theorem ps_complex (φ : ℝ) :
    psNum I (angR φ) = psDoc φ ∧ ps (ph φ) = psDoc φ ∧ IsUnitary (psDoc φ) := by
  refine ⟨?_, rfl, ps_isUnitary (exp_unit φ)⟩
  rw [psNum_eq_ps, angR_cis]; rfl

theorem wp_complex (δ ξ : ℝ) : wp I (angR δ) (angR ξ) = wpDoc δ ξ ∧ IsUnitary (wpDoc δ ξ) := by
  have h : wp I (angR δ) (angR ξ) = wpDoc δ ξ := by
    unfold wp wpDoc
    rw [angR_add, ← two_mul]
    ext i j
    fin_cases i <;> fin_cases j <;> simp [angR] <;> ring
  exact ⟨h, h ▸ wp_isUnitary imagUnit_I (angR_isReal δ) (angR_isReal ξ)⟩

theorem pr_complex (δ : ℝ) : pr (angR δ) = prDoc δ ∧ IsUnitary (prDoc δ) := by
  have h : pr (angR δ) = prDoc δ := by unfold pr prDoc angR; rfl
  exact ⟨h, h ▸ pr_isUnitary (angR_isReal δ)⟩

/-! ### `Parameter._check_value` -/

section wrap
variable {K : Type*} [Field K] [LinearOrder K] [IsStrictOrderedRing K] [FloorRing K]
set_option linter.unusedSectionVars false

/-- Exact arithmetic, periodic parameter with bounds `lo < hi`: never raises, the stored value lies in
`[lo, hi]` and differs from the requested one by an integer number of spans. -/
theorem wrap_spec {lo hi : K} (h : lo < hi) (v : K) :
    ∃ w, wrap true (some lo) (some hi) v = some w ∧ lo ≤ w ∧ w ≤ hi ∧
      ∃ k : ℤ, w = v + k * (hi - lo) := by
  obtain ⟨h1, h2, k, hk⟩ := wrapCore_exact h v
  rw [← wrapCore_clamp_id h v] at h1 h2 hk
  exact ⟨_, checkValue_some_of_bounds id true v h1 h2, h1, h2, k, hk⟩

/-- A non-periodic parameter (or one with a missing bound) is never moved: the value is stored as
given when inside the bounds that exist and the call raises otherwise — whatever the rounding. -/
theorem wrap_nonperiodic (rnd : K → K) (clamp : Bool) (lo hi : Option K) (v : K) :
    checkValue rnd clamp false lo hi v =
      if (lo.any fun l => decide (v < l)) || (hi.any fun h => decide (v > h)) then none else some v := by
  simp [checkValue]

/-- The repaired code cannot leave `[lo, hi]` and cannot raise on a periodic bounded parameter,
**whatever the rounding function** applied after each arithmetic operation. -/
theorem wrapFixed_in_bounds (rnd : K → K) {lo hi : K} (h : lo ≤ hi) (v : K) :
    ∃ w, wrapFixed rnd true (some lo) (some hi) v = some w ∧ lo ≤ w ∧ w ≤ hi := by
  obtain ⟨h1, h2⟩ := wrapCore_clamp_bounds rnd h v
  exact ⟨_, checkValue_some_of_bounds rnd true v h1 h2, h1, h2⟩

/-- In exact arithmetic the repair changes nothing. -/
theorem wrapFixed_id_eq_wrapCurrent_id {lo hi : K} (h : lo < hi) (v : K) :
    wrapFixed id true (some lo) (some hi) v = wrapCurrent id true (some lo) (some hi) v := by
  simp only [wrapFixed, wrapCurrent, checkValue, wrapCore_clamp_id h v]

end wrap

/-- `float(2*math.pi)` as the dyadic rational it is -/
def twoPi64 : ℚ := 884279719003555 / 140737488355328

/-- The pinned code violates the property: under IEEE double rounding `PS(phi = -98 * 2π)`
(value `fl64 (-98 * twoPi64)`, bounds `[0, 2π]`) raises `ValueError`, although exact arithmetic
stores an in-range equivalent value (`wrap_spec`) and the repaired code stores the upper bound. -/
theorem wrapCurrent_fails_on_current_code :
    wrapCurrent fl64 true (some 0) (some twoPi64) (fl64 (-98 * twoPi64)) = none ∧
      wrapFixed fl64 true (some 0) (some twoPi64) (fl64 (-98 * twoPi64)) = some twoPi64 := by
  decide +kernel

/-- Same defect for the beam-splitter angle: `BS(theta = 48π)` with bounds `[0, 4π]`. -/
theorem wrapCurrent_fails_on_bs_theta :
    wrapCurrent fl64 true (some 0) (some (2 * twoPi64)) (fl64 (24 * twoPi64)) = none ∧
      (wrapFixed fl64 true (some 0) (some (2 * twoPi64)) (fl64 (24 * twoPi64))).isSome = true := by
  decide +kernel

/-! ### wrapping leaves the matrix unchanged (all real values, however far outside the range) -/

/-- If the declared span `hi - lo` is a period of `f`, the stored (wrapped) value gives the same `f`. -/
theorem wrap_preserves {α : Type*} (f : ℝ → α) {lo hi : ℝ} (h : lo < hi)
    (hf : ∀ x (k : ℤ), f (x + k * (hi - lo)) = f x) (v : ℝ) :
    ∃ w, wrap true (some lo) (some hi) v = some w ∧ lo ≤ w ∧ w ≤ hi ∧ f w = f v := by
  obtain ⟨w, hw, h1, h2, k, hk⟩ := wrap_spec h v
  exact ⟨w, hw, h1, h2, by rw [hk, hf]⟩

/-- `θ` of a beam splitter is declared on `[0, 4π]`, and `4π` is a period of the matrix. -/
theorem wrap_preserves_matrix_bs_theta (conv : Conv) (φtl φbl φtr φbr θ : ℝ) :
    ∃ w, wrap true (some 0) (some (4 * Real.pi)) θ = some w ∧ 0 ≤ w ∧ w ≤ 4 * Real.pi ∧
      bsDoc conv w φtl φbl φtr φbr = bsDoc conv θ φtl φbl φtr φbr := by
  refine wrap_preserves (fun t => bsDoc conv t φtl φbl φtr φbr) (by positivity) ?_ θ
  intro x k
  have : (x + k * (4 * Real.pi - 0)) / 2 = x / 2 + k * (2 * Real.pi) := by ring
  simp only [bsDoc, this, Real.cos_add_int_mul_two_pi, Real.sin_add_int_mul_two_pi]

/-- `2π` is **not** a period in `θ`: it flips the sign of the matrix — why the bound must be `4π`. -/
theorem bsDoc_theta_add_two_pi (conv : Conv) (θ φtl φbl φtr φbr : ℝ) :
    bsDoc conv (θ + 2 * Real.pi) φtl φbl φtr φbr = -bsDoc conv θ φtl φbl φtr φbr := by
  have : (θ + 2 * Real.pi) / 2 = θ / 2 + Real.pi := by ring
  cases conv <;> ext i j <;> fin_cases i <;> fin_cases j <;>
    simp [bsDoc, this, Real.cos_add_pi, Real.sin_add_pi]

/-- the four phases of a beam splitter are declared on `[0, 2π]`, a period of the matrix in each. -/
theorem wrap_preserves_matrix_bs_phases (conv : Conv) (θ φtl φbl φtr φbr : ℝ) :
    (∃ w, wrap true (some 0) (some (2 * Real.pi)) φtl = some w ∧ 0 ≤ w ∧ w ≤ 2 * Real.pi ∧
      bsDoc conv θ w φbl φtr φbr = bsDoc conv θ φtl φbl φtr φbr) ∧
    (∃ w, wrap true (some 0) (some (2 * Real.pi)) φbl = some w ∧ 0 ≤ w ∧ w ≤ 2 * Real.pi ∧
      bsDoc conv θ φtl w φtr φbr = bsDoc conv θ φtl φbl φtr φbr) ∧
    (∃ w, wrap true (some 0) (some (2 * Real.pi)) φtr = some w ∧ 0 ≤ w ∧ w ≤ 2 * Real.pi ∧
      bsDoc conv θ φtl φbl w φbr = bsDoc conv θ φtl φbl φtr φbr) ∧
    (∃ w, wrap true (some 0) (some (2 * Real.pi)) φbr = some w ∧ 0 ≤ w ∧ w ≤ 2 * Real.pi ∧
      bsDoc conv θ φtl φbl φtr w = bsDoc conv θ φtl φbl φtr φbr) := by
  have hp : (0 : ℝ) < 2 * Real.pi := by positivity
  have e1 : ∀ (x y : ℝ) (k : ℤ), ph (x + k * (2 * Real.pi - 0) + y) = ph (x + y) := by
    intro x y k
    have : x + k * (2 * Real.pi - 0) + y = (x + y) + k * (2 * Real.pi) := by ring
    rw [this, ph_periodic]
  have e2 : ∀ (x y : ℝ) (k : ℤ), ph (y + (x + k * (2 * Real.pi - 0))) = ph (y + x) := by
    intro x y k
    have : y + (x + k * (2 * Real.pi - 0)) = (y + x) + k * (2 * Real.pi) := by ring
    rw [this, ph_periodic]
  refine ⟨wrap_preserves (fun t => bsDoc conv θ t φbl φtr φbr) hp ?_ φtl,
    wrap_preserves (fun t => bsDoc conv θ φtl t φtr φbr) hp ?_ φbl,
    wrap_preserves (fun t => bsDoc conv θ φtl φbl t φbr) hp ?_ φtr,
    wrap_preserves (fun t => bsDoc conv θ φtl φbl φtr t) hp ?_ φbr⟩ <;>
  · intro x k
    simp only [bsDoc, e1, e2]

/-- `φ` of a phase shifter: `[0, 2π]`. -/
theorem wrap_preserves_matrix_ps (φ : ℝ) :
    ∃ w, wrap true (some 0) (some (2 * Real.pi)) φ = some w ∧ 0 ≤ w ∧ w ≤ 2 * Real.pi ∧
      psDoc w = psDoc φ := by
  refine wrap_preserves psDoc (by positivity) ?_ φ
  intro x k
  simp only [psDoc, sub_zero, ph_periodic]

/-- `δ` and `ξ` of a wave plate: `[-π, π]` (span `2π`; the true period in `ξ` is `π`). -/
theorem wrap_preserves_matrix_wp (δ ξ : ℝ) :
    (∃ w, wrap true (some (-Real.pi)) (some Real.pi) δ = some w ∧ -Real.pi ≤ w ∧ w ≤ Real.pi ∧
      wpDoc w ξ = wpDoc δ ξ) ∧
    (∃ w, wrap true (some (-Real.pi)) (some Real.pi) ξ = some w ∧ -Real.pi ≤ w ∧ w ≤ Real.pi ∧
      wpDoc δ w = wpDoc δ ξ) := by
  have hp : -Real.pi < Real.pi := by linarith [Real.pi_pos]
  have hs : Real.pi - -Real.pi = 2 * Real.pi := by ring
  refine ⟨wrap_preserves (fun t => wpDoc t ξ) hp ?_ δ, wrap_preserves (fun t => wpDoc δ t) hp ?_ ξ⟩
  · intro x k
    simp only [wpDoc, hs, Real.cos_add_int_mul_two_pi, Real.sin_add_int_mul_two_pi]
  · intro x k
    have : 2 * (x + k * (Real.pi - -Real.pi)) = 2 * x + (2 * k : ℤ) * (2 * Real.pi) := by
      push_cast; ring
    simp only [wpDoc, this, Real.cos_add_int_mul_two_pi, Real.sin_add_int_mul_two_pi]

/-- `δ` of a polarisation rotator: `[-π, π]`. -/
theorem wrap_preserves_matrix_pr (δ : ℝ) :
    ∃ w, wrap true (some (-Real.pi)) (some Real.pi) δ = some w ∧ -Real.pi ≤ w ∧ w ≤ Real.pi ∧
      prDoc w = prDoc δ := by
  have hp : -Real.pi < Real.pi := by linarith [Real.pi_pos]
  have hs : Real.pi - -Real.pi = 2 * Real.pi := by ring
  refine wrap_preserves prDoc hp ?_ δ
  intro x k
  simp only [prDoc, hs, Real.cos_add_int_mul_two_pi, Real.sin_add_int_mul_two_pi]

/-! ### PERM -/

/-- `u[v, i] = 1 for i, v in enumerate(perm)`: the basis vector of input mode `k` is sent to the
basis vector of output mode `σ k` (no hypothesis on `σ`). -/
theorem permMat_sends [NonAssocSemiring R] {n : ℕ} (σ : Fin n → Fin n) (k : Fin n) :
    permMat (R := R) σ *ᵥ Pi.single k 1 = Pi.single (σ k) 1 :=
  permMat_mulVec_single' σ k

theorem permMat_isUnitary [CommRing R] [StarRing R] {n : ℕ} {σ : Fin n → Fin n}
    (hσ : Function.Injective σ) : IsUnitary (permMat (R := R) σ) :=
  permMat_isUnitary' hσ

/-- The constructor's assertion (`min == 0 and max+1 == len == len(set)`) accepts exactly the
lists that are permutations of `0 … n-1`, `n ≥ 1`. -/
theorem permOk_iff_perm (l : List ℤ) :
    permOk l = true ↔ l ≠ [] ∧ l.Nodup ∧ ∀ x ∈ l, 0 ≤ x ∧ x < l.length :=
  permOk_iff l

/-- `PERM(l).perm_vector == l` for every accepted list of any length (over any non-trivial ring). -/
theorem perm_vector_roundtrip [MulZeroOneClass R] [Nontrivial R] [DecidableEq R] {l : List ℤ}
    (h : permOk l = true) :
    (permVector (permMat (R := R) (permFun l))).map Int.ofNat = l := by
  rw [permVector_permMat (permFun_injective h)]
  apply List.ext_getElem (by simp)
  intro i h1 h2
  simp only [List.getElem_map, List.getElem_ofFn]
  exact permFun_val h ⟨i, by simpa using h1⟩

/-- …and the matrix of an accepted list sends input mode `k` to the output mode listed at position `k`. -/
theorem perm_sends_listed [NonAssocSemiring R] {l : List ℤ} (h : permOk l = true)
    (k : Fin l.length) :
    ∃ out : Fin l.length, (out.val : ℤ) = l[k.val] ∧
      permMat (R := R) (permFun l) *ᵥ Pi.single k 1 = Pi.single out 1 :=
  ⟨permFun l k, permFun_val h k, permMat_sends _ k⟩

/-! ### live expressions -/

/-- After any history of `set_value` calls (accepted or rejected, on any parameters), a slot bound
to the expression `e` evaluates `e` at the live value of each of its sub-parameters, and the live
value of `y` is determined by the calls on `y` alone (last accepted one, wrapped into `y`'s own
bounds; the initial value if none) — there is no cached or stale state. -/
theorem expr_live (e : Expr) (st : Store) (ops : List (String × ℚ)) :
    slotValue e (st.run ops) = e.eval fun y => ops.foldl (st.step y) (st.env y) := by
  unfold slotValue
  exact e.eval_congr fun y _ => Store.env_run st ops y

/-- A slot's value depends only on the live values of the parameters that occur in its expression. -/
theorem expr_depends_on_vars (e : Expr) (st₁ st₂ : Store)
    (h : ∀ x ∈ e.vars, st₁.env x = st₂.env x) : slotValue e st₁ = slotValue e st₂ :=
  e.eval_congr h

/-! ### the Parameter lifecycle: every history of calls (`Model/C14Life.lean`) -/

section life
open PM.SM

/-- `_check_value`: whatever it returns lies inside the bounds that exist (any flags, any bounds — also
inverted or one-sided ones); otherwise it raised. -/
theorem check_in_bounds {periodic : Bool} {lo hi : Option ℚ} {v w : ℚ}
    (h : checkE periodic lo hi v = .inr w) : Par.InRange lo hi w :=
  checkE_inr_inRange h

/-- The wrap is idempotent: a stored value is stored again unchanged. -/
theorem check_idempotent {periodic : Bool} {lo hi : Option ℚ} {v w : ℚ}
    (h : checkE periodic lo hi v = .inr w) : checkE periodic lo hi w = .inr w :=
  checkE_of_inRange periodic (checkE_inr_inRange h)

/-- A periodic parameter with `lo < hi` never raises; the stored value is in `[lo, hi]` and congruent to
the request modulo the span. -/
theorem check_periodic_congruent {lo hi : ℚ} (h : lo < hi) (v : ℚ) :
    ∃ w, checkE true (some lo) (some hi) v = .inr w ∧ lo ≤ w ∧ w ≤ hi ∧
      ∃ k : ℤ, w = v + k * (hi - lo) :=
  checkE_periodic h v

/-- The constructor establishes the invariant "a defined value is inside `[min, max]`"… -/
theorem init_value_in_bounds {value lo hi : Option ℚ} {periodic : Bool} {p : Par}
    (h : Par.init value lo hi periodic = .inr p) : p.Inv := by
  unfold Par.init at h
  cases value with
  | none =>
    simp only [Sum.inr.injEq] at h; subst h
    intro w hw; simp at hw
  | some v =>
    simp only at h
    cases hc : checkE periodic lo hi v with
    | inl e => simp [hc] at h
    | inr w =>
      simp only [hc, Sum.inr.injEq] at h; subst h
      intro w' hw'
      simp only [Option.some.injEq] at hw'; subst hw'
      exact checkE_inr_inRange hc

/-- …and EVERY history of `set_value` (forced or not, accepted or rejected), `fix_value`, `reset`,
`set_periodic` keeps it (the bounds do not move in such a history). -/
theorem life_value_in_bounds (sound : Bool) (p : Par) (ops : List POp) (hp : p.Inv)
    (hops : ∀ op ∈ ops, op.isBind = false) : (exec (pstep sound) p ops).Inv :=
  exec_inv sound p ops hp hops

/-- Recycling a parameter in a component (`_set_parameter`) narrows the bounds WITHOUT looking at the value
the parameter holds: the invariant can be lost (a value set before the parameter is plugged in)… -/
theorem bind_can_leave_value_outside (sound : Bool) :
    ∃ (p : Par) (ops : List POp), p.Inv ∧ ¬ (exec (pstep sound) p ops).Inv := by
  refine ⟨⟨none, none, true, true, none⟩, [.set 7 false, .bind (some 0) (some 6) (some true)], ?_, ?_⟩
  · intro w hw; simp at hw
  · intro h
    have := (h 7 (by cases sound <;> decide +kernel)).2 6 (by cases sound <;> decide +kernel)
    norm_num at this

/-- …and any later accepted `set_value` / `fix_value` restores it, whatever happened before. -/
theorem accepted_set_restores_bounds (sound : Bool) (p : Par) (pre post : List POp) (op : POp)
    (hop : (∃ v force, op = .set v force) ∨ ∃ v, op = .fix v)
    (hok : (pstep sound (exec (pstep sound) p pre) op).2 = none)
    (hpost : ∀ o ∈ post, o.isBind = false) :
    (exec (pstep sound) p (pre ++ op :: post)).Inv := by
  rw [exec_append, exec_cons]
  refine exec_inv sound _ post ?_ hpost
  rcases hop with ⟨v, force, rfl⟩ | ⟨v, rfl⟩
  · exact pstep_set_ok_inv sound _ v force hok
  · exact pstep_fix_ok_inv sound _ v hok

/-- A fixed parameter never changes: over every history without `force=True` / `fix_value` its value is the
initial one and it stays fixed (bounds may be narrowed, `set_value` calls are rejected). -/
theorem fixed_never_changes (sound : Bool) (p : Par) (ops : List POp) (hs : p.fixed = true)
    (hops : ∀ op ∈ ops, op.forces = false) :
    (exec (pstep sound) p ops).val = p.val ∧ (exec (pstep sound) p ops).fixed = true := by
  have hs' : p.sym = false := by simpa [Par.fixed] using hs
  obtain ⟨h1, h2⟩ := exec_fixed sound p ops hs' hops
  exact ⟨h1, by simp [Par.fixed, h2]⟩

/-- `set_value` on a fixed parameter without `force` always raises — the error of the value check if the
value is not acceptable (it is checked FIRST), `RuntimeError` otherwise — and changes nothing. -/
theorem fixed_set_rejected (sound : Bool) (p : Par) (v : ℚ) (hs : p.fixed = true) :
    (pstep sound p (.set v false)).1 = p ∧
      (pstep sound p (.set v false)).2 =
        some (match p.check v with | .inl e => e | .inr _ => .RuntimeError) := by
  have hs' : p.sym = false := by simpa [Par.fixed] using hs
  cases hc : p.check v with
  | inl e => rw [pstep_set_inl sound false hc]; exact ⟨rfl, rfl⟩
  | inr w => rw [pstep_set_inr sound false hc]; simp [hs']

/-- `reset` on a variable parameter restores the symbol (no value, still variable) and leaves the bounds
alone; on a fixed parameter it does nothing. -/
theorem reset_restores_symbol (sound : Bool) (p : Par) :
    (p.isVariable = true → (pstep sound p .reset).1 = { p with val := none } ∧
        (pstep sound p .reset).1.defined = false ∧ (pstep sound p .reset).1.isVariable = true) ∧
      (p.fixed = true → (pstep sound p .reset).1 = p) := by
  constructor
  · intro h
    have h' : p.sym = true := h
    simp [pstep, h', Par.defined, Par.isVariable]
  · intro h
    have h' : p.sym = false := by simpa [Par.fixed] using h
    simp [pstep, h']

/-- Only `fix_value` ends the variable life of a parameter: over every history without it `is_variable`
keeps its initial value. -/
theorem variable_until_fix (sound : Bool) (p : Par) (ops : List POp)
    (hops : ∀ op ∈ ops, op.isFix = false) :
    (exec (pstep sound) p ops).isVariable = p.isVariable :=
  exec_sym sound p ops hops

/-- Parameter objects do not interfere: after any history of calls addressed to named objects, the state of
`y` is the result of the calls addressed to `y` alone. -/
theorem param_state_local (sound : Bool) (st : LStore) (ops : List (String × POp)) (y : String) :
    (exec (sstep sound) st (ops.map fun o => SOp.par o.1 o.2)) y =
      (st y).map fun p => exec (pstep sound) p ((ops.filter fun o => o.1 = y).map (·.2)) :=
  exec_par_local sound st ops y

/-- `component.assign(d)` is the sequence of `set_value` calls of its items, cut at the first one that raises
(what was assigned before stays assigned), all of them when it returns normally; only variables of the
component are touched. -/
theorem assign_is_prefix_of_sets (sound : Bool) (st : LStore) (c : Comp) (kv : List (String × ℚ)) :
    ∃ pre, pre <+: kv ∧
      (sstep sound st (.assign c kv)).1 =
        exec (sstep sound) st (pre.map fun o => SOp.par o.1 (.set o.2 false)) ∧
      ((sstep sound st (.assign c kv)).2 = none → pre = kv) ∧ ∀ o ∈ pre, o.1 ∈ vars st c :=
  assignRun_prefix sound (vars st c) st kv

/-- `compute_unitary(assign=…)` on a leaf, code as it is: `PS` / `WP` / `HWP` / `QWP` / `PR` perform exactly
`self.assign(assign)` first (so `assign_is_prefix_of_sets` applies), whereas `BS` IGNORES the argument: no
parameter changes and nothing is raised, even for an unknown key or an unacceptable value.  In both cases the
matrix is computed from the values the parameters hold after the call, so "the component reflects the current
values of its parameters" is not contradicted — what `BS` breaks is the documented meaning of `assign`, which is
outside the C14 statement (reported as an observation). -/
theorem compute_unitary_assign (sound : Bool) (st : LStore) (c : Comp) (kv : List (String × ℚ)) :
    computeAssign sound true st c kv = sstep sound st (.assign c kv) ∧
      computeAssign sound false st c kv = (st, none) :=
  ⟨rfl, rfl⟩

/-- `copy()` of a parameter whose value is inside its bounds keeps value, bounds and flag; the copy is fixed
exactly when the original was defined. -/
theorem copy_preserves (p : Par) (hp : p.Inv) : p.copy = .inr { p with sym := p.val.isNone } :=
  Par.copy_of_inv p hp

end life

/-! ### a parameter shared between slots of different declared ranges -/

section shared
open PM.SM

/-- The bounds of a shared parameter are the intersection of the ranges of its slots (and its own), in
whatever order the slots are filled. -/
theorem shared_bounds_order_independent (sound : Bool) (p : Par) {s₁ s₂ : List (ℚ × ℚ)} (h : s₁.Perm s₂) :
    (bindAll sound p s₁).lo = (bindAll sound p s₂).lo ∧ (bindAll sound p s₁).hi = (bindAll sound p s₂).hi := by
  rw [bindAll_lo, bindAll_lo, bindAll_hi, bindAll_hi]
  constructor
  · have : RightCommutative fun (a : Option ℚ) (s : ℚ × ℚ) => narrowLo a (some s.1) :=
      ⟨fun a x y => narrowLo_comm a (some x.1) (some y.1)⟩
    exact h.foldl_eq _
  · have : RightCommutative fun (a : Option ℚ) (s : ℚ × ℚ) => narrowHi a (some s.2) :=
      ⟨fun a x y => narrowHi_comm a (some x.2) (some y.2)⟩
    exact h.foldl_eq _

/-- Two slots: the narrower interval wins. -/
theorem shared_bounds_two (sound : Bool) (l₁ h₁ l₂ h₂ : ℚ) :
    (bindAll sound ⟨none, none, true, true, none⟩ [(l₁, h₁), (l₂, h₂)]).lo = some (max l₁ l₂) ∧
      (bindAll sound ⟨none, none, true, true, none⟩ [(l₁, h₁), (l₂, h₂)]).hi = some (min h₁ h₂) := by
  rw [bindAll_lo, bindAll_hi]
  simp [narrowLo_some, narrowHi_some]

/-- The pinned `_set_parameter` makes the parameter periodic over that intersection, whatever its span. -/
theorem bind_current_periodic (p : Par) (lo hi : Option ℚ) :
    (pstep false p (.bind lo hi (some true))).1.periodic = true := rfl

/-- Trigonometry of the defect: if `θ` and `φ_tl` hold the same parameter and its value is moved by `k` times
`2π` (the span of the intersection `[0,4π] ∩ [0,2π]`), the documented matrix is multiplied by `(-1)^k`. -/
theorem bsDoc_shared_shift (conv : Conv) (v φbl φtr φbr : ℝ) (k : ℤ) :
    bsDoc conv (v + k * (2 * Real.pi)) (v + k * (2 * Real.pi)) φbl φtr φbr =
      ((-1 : ℂ) ^ k) • bsDoc conv v v φbl φtr φbr := by
  have hc : Real.cos ((v + k * (2 * Real.pi)) / 2) = (-1) ^ k * Real.cos (v / 2) := by
    rw [← Real.cos_add_int_mul_pi]; congr 1; ring
  have hs : Real.sin ((v + k * (2 * Real.pi)) / 2) = (-1) ^ k * Real.sin (v / 2) := by
    rw [← Real.sin_add_int_mul_pi]; congr 1; ring
  have hp : ∀ y : ℝ, ph (v + k * (2 * Real.pi) + y) = ph (v + y) := by
    intro y
    have : v + k * (2 * Real.pi) + y = (v + y) + k * (2 * Real.pi) := by ring
    rw [this, ph_periodic]
  cases conv <;> ext i j <;> fin_cases i <;> fin_cases j <;>
    simp [bsDoc, hc, hs, hp, Complex.ofReal_zpow] <;> ring

/-- A documented beam-splitter matrix is never its own opposite (it is unitary). -/
theorem bsDoc_ne_neg (conv : Conv) (θ φtl φbl φtr φbr : ℝ) :
    bsDoc conv θ φtl φbl φtr φbr ≠ -bsDoc conv θ φtl φbl φtr φbr := by
  intro h
  obtain ⟨hU, _⟩ := (bs_complex conv θ φtl φbl φtr φbr).2.2
  set M := bsDoc conv θ φtl φbl φtr φbr with hM
  have z : ∀ i j, M i j = 0 := by
    intro i j
    have e : M i j = -M i j := by
      have e' := congrFun (congrFun h i) j
      rwa [Matrix.neg_apply] at e'
    have : (2 : ℂ) * M i j = 0 := by linear_combination e
    rcases mul_eq_zero.1 this with h2 | h2
    · norm_num at h2
    · exact h2
  have e00 := congrFun (congrFun hU 0) 0
  simp [Matrix.mul_apply, Fin.sum_univ_two, z] at e00

/-- EXACT characterisation of the shared-parameter behaviour of the pinned code: `x` drives `θ` and `φ_tl`
of one beam splitter, its range is `[0, 2π]` periodic; `set_value(v)` stores `w = v + k·2π ∈ [0, 2π]` and
the matrix is `(-1)^k` times the documented matrix at `v`; it is the documented matrix iff `k` is even. -/
theorem shared_theta_phase_sign (conv : Conv) (v φbl φtr φbr : ℝ) :
    ∃ (w : ℝ) (k : ℤ), wrap true (some 0) (some (2 * Real.pi)) v = some w ∧ 0 ≤ w ∧ w ≤ 2 * Real.pi ∧
      w = v + k * (2 * Real.pi) ∧
      bsDoc conv w w φbl φtr φbr = ((-1 : ℂ) ^ k) • bsDoc conv v v φbl φtr φbr ∧
      (bsDoc conv w w φbl φtr φbr = bsDoc conv v v φbl φtr φbr ↔ Even k) := by
  obtain ⟨w, hw, h0, h1, k, hk⟩ := wrap_spec (K := ℝ) (lo := 0) (hi := 2 * Real.pi) (by positivity) v
  rw [sub_zero] at hk
  have hshift := bsDoc_shared_shift conv v φbl φtr φbr k
  rw [← hk] at hshift
  refine ⟨w, k, hw, h0, h1, hk, hshift, ?_⟩
  rw [hshift]
  constructor
  · intro he
    rcases Int.even_or_odd k with hev | hodd
    · exact hev
    · exfalso
      rw [hodd.neg_one_zpow, neg_one_smul] at he
      exact bsDoc_ne_neg conv v v φbl φtr φbr he.symm
  · intro hev
    rw [hev.neg_one_zpow, one_smul]

/-- The pinned code violates the property on a shared parameter: `x = P("x"); BS(theta=x, phi_tl=x);
x.set_value(3π)` — `3π` is inside the nominal range `[0, 4π]` of `θ` — stores `π`, and the matrix is the
OPPOSITE of the documented matrix at `θ = φ_tl = 3π`. -/
theorem shared_range_fails_on_current_code (conv : Conv) (φbl φtr φbr : ℝ) :
    wrap true (some 0) (some (2 * Real.pi)) (3 * Real.pi) = some Real.pi ∧
      bsDoc conv Real.pi Real.pi φbl φtr φbr = -bsDoc conv (3 * Real.pi) (3 * Real.pi) φbl φtr φbr ∧
      bsDoc conv Real.pi Real.pi φbl φtr φbr ≠ bsDoc conv (3 * Real.pi) (3 * Real.pi) φbl φtr φbr := by
  obtain ⟨w, k, hw, h0, h1, hk, hsh, _⟩ := shared_theta_phase_sign conv (3 * Real.pi) φbl φtr φbr
  have hpi := Real.pi_pos
  have hk1 : k = -1 := by
    have a : (-2 : ℝ) < k := by
      by_contra hc
      have : (k : ℝ) ≤ -2 := not_lt.1 hc
      nlinarith
    have b : (k : ℝ) < 0 := by
      by_contra hc
      have : (0 : ℝ) ≤ k := not_lt.1 hc
      nlinarith
    have a' : (-2 : ℤ) < k := by exact_mod_cast a
    have b' : k < (0 : ℤ) := by exact_mod_cast b
    omega
  subst hk1
  have hwpi : w = Real.pi := by rw [hk]; push_cast; ring
  subst hwpi
  have hneg : bsDoc conv Real.pi Real.pi φbl φtr φbr = -bsDoc conv (3 * Real.pi) (3 * Real.pi) φbl φtr φbr := by
    rw [hsh]; simp
  refine ⟨hw, hneg, ?_⟩
  rw [hneg]
  exact (bsDoc_ne_neg conv _ _ _ _ _).symm

/-- The repaired `_set_parameter` is sound over EVERY history in which the parameter is driven by components
(two-sided periodic slots, no explicit `set_periodic`; any `set_value`/`fix_value`/`reset` in between, any
initial state that is not yet plugged anywhere): whatever is then stored by the value check is congruent to
the request modulo the span of EVERY slot the parameter drives — so (`wrap_preserves_matrix_*`) no
component's matrix changes; when the ranges differ the parameter is a bounded one and stores the value as given. -/
theorem shared_repaired_sound (p : Par) (ops : List POp) (hops : ∀ op ∈ ops, op.plain = true)
    (v w : ℚ) (hw : (exec (pstep true) p ops).check v = .inr w) :
    ∀ s ∈ slotsOf ops, s.1 < s.2 → ∃ k : ℤ, w = v + k * (s.2 - s.1) := by
  intro s hs hlt
  have hcov := exec_plain_covers p [] ops hops (fun _ s hs => by simp at hs) (fun h => absurd rfl h) s (Or.inr hs)
  set q := exec (pstep true) p ops with hq
  cases hper : q.periodic with
  | false =>
    unfold Par.check at hw
    rw [hper] at hw
    exact ⟨0, by rw [checkE_nonperiodic hw]; simp⟩
  | true =>
    obtain ⟨hl, hh⟩ := hcov hper
    unfold Par.check at hw
    rw [hper, hl, hh] at hw
    obtain ⟨w', hw', _, _, k, hk⟩ := checkE_periodic hlt v
    rw [hw'] at hw
    simp only [Sum.inr.injEq] at hw
    exact ⟨k, hw ▸ hk⟩

end shared

/-! ### Expression objects: the full expression language, Expressions of Expressions, overrides
(`Model/C14Expr.lean`) -/

section expression
open PM.SM

/-- `Expression.__float__` is `float(self.spv.subs({name: value}))`: substituting the numbers for the symbols and
evaluating the closed expression is evaluating the expression at those values — for every interpretation of
`pi`, `sin`, `cos`, `exp`, `sqrt`, `acos`. -/
theorem expression_subs_then_float (I : Interp ℚ) (σ : String → Option ℚ) (e : XExpr) :
    (e.subst σ).eval I (fun _ => none) = e.eval I σ := by
  rw [XExpr.eval_subst]
  congr 1
  funext x
  cases σ x <;> rfl

/-- The value of an expression depends only on the values of the symbols that occur in it (any field, any
interpretation of the functions). -/
theorem xexpr_depends_on_vars {K : Type*} [Field K] [DecidableEq K] (I : Interp K) (e : XExpr)
    (env₁ env₂ : String → Option K) (h : ∀ x ∈ e.vars, env₁ x = env₂ x) : e.eval I env₁ = e.eval I env₂ :=
  e.eval_congr I h

/-- The full language extends the first one (`expr_live`): same symbols, same value. -/
theorem xexpr_extends_expr (I : Interp ℚ) (env : String → Option ℚ) (e : Expr) :
    e.toX.vars = e.vars ∧ e.toX.eval I env = e.eval env :=
  ⟨e.toX_vars, e.toX_eval I env⟩

/-- Nothing done to an Expression object (creation, `set_value`, `fix_value`, `reset`, binding to slots) writes
back into the raw parameters: after any history they are what the operations addressed to them alone produce. -/
theorem expression_ops_do_not_touch_parameters (sound : Bool) (s : XSt) (ops : List XOp) :
    (exec (xstep sound) s ops).1 = exec (sstep sound) s.1 (XOp.baseOps ops) :=
  xexec_fst sound s ops

/-- MAIN (expressions are live).  Take any state, an Expression object `id` that is live in it (no override,
e.g. freshly made), and ANY history — `set_value` / `fix_value` / `reset` / `assign` on the raw parameters,
creation of parameters and of other Expression objects, binding of `id` to any number of component slots,
`reset` / `set_periodic` on `id`, anything on other Expression objects — in which `id` itself is not given a value.
Then a component slot holding `id` reads: `ValueError` while a sub-parameter has no value, otherwise the
expression evaluated at the CURRENT values of the raw parameters (`TypeError` when that is not a real number). -/
theorem expression_live (sound : Bool) (I : Interp ℚ) (s : XSt) (id : String) (o : EObj) (ops : List XOp)
    (h0 : s.2 id = some o) (hl : o.Live) (hc : ∀ op ∈ ops, op.creates id = false)
    (hov : ∀ op ∈ XOp.objOps id ops, op.overrides = false) :
    slotFloat I (exec (xstep sound) s ops) (.ex id) =
      if (o.e.vars.all fun x => (LStore.env (exec (xstep sound) s ops).1 x).isSome)
      then floatOfEval (o.e.eval I (LStore.env (exec (xstep sound) s ops).1))
      else .inl .ValueError := by
  simp only [slotFloat]
  rw [xexec_obj sound s ops id o h0 hc]
  simp only
  rw [EObj.float_live I _ _ (exec_estep_live sound o _ hl hov)]
  unfold EObj.defined
  rw [exec_estep_e]

/-- …in particular from the creation of the Expression object on, whatever happened before. -/
theorem expression_live_from_creation (sound : Bool) (I : Interp ℚ) (s : XSt) (id : String) (e : XExpr)
    (post : List XOp) (hc : ∀ op ∈ post, op.creates id = false)
    (hov : ∀ op ∈ XOp.objOps id post, op.overrides = false) :
    slotFloat I (exec (xstep sound) s (.xnew id e :: post)) (.ex id) =
      if (e.vars.all fun x => (LStore.env (exec (xstep sound) s (.xnew id e :: post)).1 x).isSome)
      then floatOfEval (e.eval I (LStore.env (exec (xstep sound) s (.xnew id e :: post)).1))
      else .inl .ValueError := by
  rw [exec_cons]
  exact expression_live sound I _ id (EObj.init e) post (by simp [xstep]) (EObj.init_live e) hc hov

/-- `set_value` on an Expression OBJECT (code as it is): an accepted call stores the value, checked and wrapped
against the bounds / periodic flag the object got from the slots it sits in, and from then on the object is
that CONSTANT: whatever is done afterwards to the raw parameters, to other objects, whatever slots the object
is bound to, a component reads `w` (or `ValueError` while a sub-parameter has no value) — until `reset()`. -/
theorem expression_override_freezes (sound : Bool) (I : Interp ℚ) (s : XSt) (id : String) (o : EObj) (v : ℚ)
    (force : Bool) (post : List XOp) (h0 : s.2 id = some o)
    (hok : (xstep sound s (.xpar id (.set v force))).2 = none)
    (hc : ∀ op ∈ post, op.creates id = false)
    (hk : ∀ op ∈ XOp.objOps id post, op.keepsValue = true) :
    ∃ w, o.par.check v = .inr w ∧
      slotFloat I (exec (xstep sound) s (.xpar id (.set v force) :: post)) (.ex id) =
        if (o.e.vars.all fun x =>
          (LStore.env (exec (xstep sound) s (.xpar id (.set v force) :: post)).1 x).isSome)
        then .inr w else .inl .ValueError := by
  have hok' : (estep sound o (.set v force)).2 = none := by simpa [xstep, h0] using hok
  obtain ⟨w, hw, hval⟩ := estep_set_ok sound o v force hok'
  refine ⟨w, hw, ?_⟩
  rw [exec_cons]
  simp only [slotFloat]
  rw [xexec_obj sound _ post id (estep sound o (.set v force)).1 (by simp [xstep, h0]) hc]
  simp only
  rw [EObj.float_override I _ _ ((exec_estep_val sound _ _ hk).trans hval)]
  unfold EObj.defined
  rw [exec_estep_e, estep_e]

/-- `reset()` on an Expression object that still has its `_symbol` makes it live again. -/
theorem expression_reset_restores (sound : Bool) (o : EObj) (h : o.par.sym = true) :
    (estep sound o .reset).1.Live ∧ (estep sound o .reset).1.e = o.e := by
  simp [estep, pstep, EObj.Live, h]

/-- The value of an Expression is never checked against, nor wrapped into, the bounds its object gets from the
slots it is plugged in: binding one Expression object to any number of slots (and flipping its periodic flag)
changes nothing in what it evaluates to. -/
theorem expression_value_ignores_bounds (sound : Bool) (I : Interp ℚ) (st : LStore) (o : EObj) (ops : List POp)
    (h : ∀ op ∈ ops, op.boundsOnly = true) : (exec (estep sound) o ops).float I st = o.float I st := by
  obtain ⟨a, b, c⟩ := exec_estep_boundsOnly sound o ops h
  exact EObj.float_congr I st o _ a b c

/-- Expressions of Expressions: `e1 + e2`, `e1 - e2`, `e1 * e2`, `e1 / e2` made with the overloaded operators
evaluate to the operator applied to the current values of the two operand expressions. -/
theorem expression_of_expressions (I : Interp ℚ) (st : LStore) (a b : EObj) {x y : ℚ}
    (ha : a.e.eval I (LStore.env st) = some x) (hb : b.e.eval I (LStore.env st) = some y) :
    (EObj.binop .add a b).float I st = .inr (x + y) ∧ (EObj.binop .sub a b).float I st = .inr (x - y) ∧
      (EObj.binop .mul a b).float I st = .inr (x * y) ∧ (y ≠ 0 → (EObj.binop .div a b).float I st = .inr (x / y)) := by
  have hd : ∀ op : XExpr → XExpr → XExpr, (op a.e b.e).vars = a.e.vars ++ b.e.vars →
      (EObj.binop op a b).defined st = true := by
    intro op hop
    unfold EObj.defined EObj.binop EObj.init
    simp only [hop, List.all_append, Bool.and_eq_true, List.all_eq_true]
    exact ⟨XExpr.eval_some_defined I a.e ha, XExpr.eval_some_defined I b.e hb⟩
  have hf : ∀ op : XExpr → XExpr → XExpr, (EObj.binop op a b).defined st = true →
      (EObj.binop op a b).float I st = floatOfEval ((op a.e b.e).eval I (LStore.env st)) := by
    intro op h
    have h' : (EObj.init (op a.e b.e)).defined st = true := h
    show (EObj.init (op a.e b.e)).float I st = _
    rw [EObj.float_live I st _ (EObj.init_live _), h']
    rfl
  refine ⟨?_, ?_, ?_, ?_⟩
  · rw [hf _ (hd _ rfl)]; simp [XExpr.eval, ha, hb, floatOfEval]
  · rw [hf _ (hd _ rfl)]; simp [XExpr.eval, ha, hb, floatOfEval]
  · rw [hf _ (hd _ rfl)]; simp [XExpr.eval, ha, hb, floatOfEval]
  · intro hy
    rw [hf _ (hd _ rfl)]; simp [XExpr.eval, ha, hb, floatOfEval, hy]

/-- …and such a composed Expression is built from the TREES of its operands (their names), not from the
objects: it does not see an override (`set_value`) of an operand, nor its bounds. -/
theorem expression_composition_ignores_override (op : XExpr → XExpr → XExpr) (a b a' b' : EObj)
    (ha : a'.e = a.e) (hb : b'.e = b.e) : EObj.binop op a' b' = EObj.binop op a b := by
  unfold EObj.binop
  rw [ha, hb]

/-- The symbolic branch reads `spv` of a slot, the numeric branch `float()`: whatever the slot holds (a number,
a raw parameter, an Expression object — live or overridden), when `float()` gives `v` the expression `spv`
evaluated at the current values of the raw parameters is `v`. -/
theorem slot_spv_evaluates_to_float (I : Interp ℚ) (S : XSt) (r : SlotRef) {v : ℚ}
    (h : slotFloat I S r = .inr v) :
    ∃ e, slotSpv S r = some e ∧ e.eval I (LStore.env S.1) = some v := by
  cases r with
  | par key =>
    unfold slotFloat at h
    cases hk : S.1 key with
    | none => simp [hk] at h
    | some p =>
      simp only [hk] at h
      cases hv : p.val with
      | none => simp [hv] at h
      | some w =>
        simp only [hv, Sum.inr.injEq] at h
        subst h
        exact ⟨.const w, by simp [slotSpv, hk, Par.spv, hv], by simp [XExpr.eval]⟩
  | ex id =>
    unfold slotFloat at h
    cases hk : S.2 id with
    | none => simp [hk] at h
    | some o =>
      simp only [hk] at h
      unfold EObj.float at h
      by_cases hd : o.defined S.1 = true
      · simp only [hd, Bool.not_true, Bool.false_eq_true, if_false] at h
        cases hv : o.par.val with
        | some w =>
          simp only [hv, Sum.inr.injEq] at h
          subst h
          exact ⟨.const w, by simp [slotSpv, hk, EObj.spv, hv], by simp [XExpr.eval]⟩
        | none =>
          simp only [hv] at h
          by_cases hs : o.par.sym = true
          · simp only [hs, if_true] at h
            cases he : o.e.eval I (LStore.env S.1) with
            | none => simp [he, floatOfEval] at h
            | some w =>
              simp only [he, floatOfEval, Sum.inr.injEq] at h
              subst h
              exact ⟨o.e, by simp [slotSpv, hk, EObj.spv, hv, hs], he⟩
          · simp [hs] at h
      · simp [hd] at h
  | lit e =>
    unfold slotFloat at h
    cases he : e.eval I (LStore.env S.1) with
    | none => simp [he, floatOfEval] at h
    | some w =>
      simp only [he, floatOfEval, Sum.inr.injEq] at h
      subst h
      exact ⟨e, rfl, he⟩

end expression

/-! ### the symbolic branch (`use_symbolic=True`) of every leaf (`Model/C14Sym.lean`) -/

section symbolic

/-- Beam splitter, all conventions: whatever the five slots hold symbolically (numbers, free symbols, trees of
Expressions), at EVERY assignment of real values to the symbols at which the slots evaluate to `t, a, b, c, d`
each entry of the symbolic matrix evaluates to the entry of the documented matrix at these angles, which is
also what the numeric branch computes there. -/
theorem symbolic_bs (conv : Conv) (θ tl bl tr br : XExpr) (env : String → Option ℝ) {t a b c d : ℝ}
    (hθ : θ.evalR env = some t) (htl : tl.evalR env = some a) (hbl : bl.evalR env = some b)
    (htr : tr.evalR env = some c) (hbr : br.evalR env = some d) :
    (∀ i j, (symBS conv θ tl bl tr br i j).evalC env = some (bsDoc conv t a b c d i j)) ∧
      bsNum I conv (angR (t / 2)) (angR a) (angR b) (angR c) (angR d) = bsDoc conv t a b c d := by
  refine ⟨?_, (bs_complex conv t a b c d).1⟩
  have hc := evalC_re (evalR_cos (evalR_half hθ))
  have hs := evalC_re (evalR_sin (evalR_half hθ))
  intro i j
  fin_cases i <;> fin_cases j
  · have := evalC_mul (templateS_evalC env conv 0 0) (evalC_mul (evalC_expI (evalR_add htl htr)) hc)
    simp only [symBS, Fin.zero_eta, Fin.isValue, of_apply, cons_val', cons_val_zero, cons_val_fin_one] at this ⊢
    rw [this]
    cases conv <;> simp [template, bsDoc]
  · have := evalC_mul (templateS_evalC env conv 0 1) (evalC_mul (evalC_expI (evalR_add htr hbl)) hs)
    simp only [symBS, Fin.zero_eta, Fin.mk_one, Fin.isValue, of_apply, cons_val', cons_val_zero, cons_val_one,
      cons_val_fin_one] at this ⊢
    rw [this]
    cases conv <;> simp [template, bsDoc] <;> ring
  · have := evalC_mul (templateS_evalC env conv 1 0) (evalC_mul (evalC_expI (evalR_add htl hbr)) hs)
    simp only [symBS, Fin.zero_eta, Fin.mk_one, Fin.isValue, of_apply, cons_val', cons_val_zero, cons_val_one,
      cons_val_fin_one] at this ⊢
    rw [this]
    cases conv <;> simp [template, bsDoc] <;> ring
  · have := evalC_mul (templateS_evalC env conv 1 1) (evalC_mul (evalC_expI (evalR_add hbr hbl)) hc)
    simp only [symBS, Fin.mk_one, Fin.isValue, of_apply, cons_val', cons_val_one, cons_val_fin_one] at this ⊢
    rw [this]
    cases conv <;> simp [template, bsDoc]

/-- Phase shifter (`max_error = 0`). -/
theorem symbolic_ps (φ : XExpr) (env : String → Option ℝ) {x : ℝ} (hφ : φ.evalR env = some x) :
    (∀ i j, (symPS φ i j).evalC env = some (psDoc x i j)) ∧ psNum I (angR x) = psDoc x := by
  refine ⟨?_, (ps_complex x).1⟩
  intro i j
  fin_cases i; fin_cases j
  simpa [symPS, psDoc] using evalC_expI hφ

/-- Wave plate: both slots symbolic. -/
theorem symbolic_wp (δ ξ : XExpr) (env : String → Option ℝ) {d x : ℝ} (hδ : δ.evalR env = some d)
    (hξ : ξ.evalR env = some x) :
    (∀ i j, (symWP δ ξ i j).evalC env = some (wpDoc d x i j)) ∧ wp I (angR d) (angR x) = wpDoc d x := by
  refine ⟨?_, (wp_complex d x).1⟩
  have hcd := evalC_re (evalR_cos hδ)
  have hsd := evalC_re (evalR_sin hδ)
  have hc2 := evalC_re (evalR_cos (evalR_dbl hξ))
  have hs2 := evalC_re (evalR_sin (evalR_dbl hξ))
  have hI := evalC_I env
  intro i j
  fin_cases i <;> fin_cases j
  · have := evalC_add hcd (evalC_mul (evalC_mul hI hsd) hc2)
    simp only [symWP, Fin.zero_eta, Fin.isValue, of_apply, cons_val', cons_val_zero, cons_val_fin_one] at this ⊢
    rw [this]; simp [wpDoc]; ring
  · have := evalC_mul (evalC_mul hI hsd) hs2
    simp only [symWP, Fin.zero_eta, Fin.mk_one, Fin.isValue, of_apply, cons_val', cons_val_zero, cons_val_one,
      cons_val_fin_one] at this ⊢
    rw [this]; simp [wpDoc]
  · have := evalC_mul (evalC_mul hI hsd) hs2
    simp only [symWP, Fin.zero_eta, Fin.mk_one, Fin.isValue, of_apply, cons_val', cons_val_zero, cons_val_one,
      cons_val_fin_one] at this ⊢
    rw [this]; simp [wpDoc]
  · have := evalC_sub hcd (evalC_mul (evalC_mul hI hsd) hc2)
    simp only [symWP, Fin.mk_one, Fin.isValue, of_apply, cons_val', cons_val_one, cons_val_fin_one] at this ⊢
    rw [this]; simp [wpDoc]; ring

/-- Half- and quarter-wave plates: `WP(sp.pi/2, ξ)`, `WP(sp.pi/4, ξ)` — the first slot holds the exact number. -/
theorem symbolic_hwp_qwp (ξ : XExpr) (env : String → Option ℝ) {x : ℝ} (hξ : ξ.evalR env = some x) :
    (∀ i j, (symHWP ξ i j).evalC env = some (wpDoc (Real.pi / 2) x i j)) ∧
      (∀ i j, (symQWP ξ i j).evalC env = some (wpDoc (Real.pi / 4) x i j)) := by
  have h2 : (XExpr.div .pi (.const 2)).evalR env = some (Real.pi / 2) := by
    simp [XExpr.evalR, XExpr.eval]
  have h4 : (XExpr.div .pi (.const 4)).evalR env = some (Real.pi / 4) := by
    simp [XExpr.evalR, XExpr.eval]
  exact ⟨(symbolic_wp _ ξ env h2 hξ).1, (symbolic_wp _ ξ env h4 hξ).1⟩

/-- Polarisation rotator. -/
theorem symbolic_pr (δ : XExpr) (env : String → Option ℝ) {d : ℝ} (hδ : δ.evalR env = some d) :
    (∀ i j, (symPR δ i j).evalC env = some (prDoc d i j)) ∧ pr (angR d) = prDoc d := by
  refine ⟨?_, (pr_complex d).1⟩
  have hc := evalC_re (evalR_cos hδ)
  have hs := evalC_re (evalR_sin hδ)
  intro i j
  fin_cases i <;> fin_cases j
  · simpa [symPR, prDoc] using hc
  · simpa [symPR, prDoc] using hs
  · simpa [symPR, prDoc] using evalC_neg hs
  · simpa [symPR, prDoc] using hc

/-- `PS(phi, max_error)`: numeric branch `phase = float(phi) + float(max_error) * r`, `r = random.uniform(-1, 1)`.
Whatever the draw, the matrix is the documented phase shifter at `φ + δ` with `|δ| ≤ max_error`, unitary: the noisy
component stays inside the documented family (the draw itself is external to the model). -/
theorem ps_max_error (φ m r : ℝ) (hm : 0 ≤ m) (hr : |r| ≤ 1) :
    ∃ δ : ℝ, |δ| ≤ m ∧ psNum I (angR (φ + m * r)) = psDoc (φ + δ) ∧ IsUnitary (psDoc (φ + δ)) := by
  refine ⟨m * r, ?_, (ps_complex _).1, (ps_complex _).2.2⟩
  rw [abs_mul, abs_of_nonneg hm]
  exact mul_le_of_le_one_right hm hr

/-- …the symbolic branch with the same draw evaluates to the same matrix, whatever the two slots hold. -/
theorem symbolic_ps_max_error (φ m : XExpr) (r : ℚ) (env : String → Option ℝ) {x e : ℝ}
    (hφ : φ.evalR env = some x) (hm : m.evalR env = some e) :
    ∀ i j, (symPSerr φ m r i j).evalC env = some (psDoc (x + e * (r : ℝ)) i j) := by
  have hmr : (XExpr.mul m (.const r)).evalR env = some (e * (r : ℝ)) := by
    simp only [XExpr.evalR] at hm
    simp [XExpr.evalR, XExpr.eval, hm]
  intro i j
  fin_cases i; fin_cases j
  simpa [symPSerr, psDoc] using evalC_expI (evalR_add hφ hmr)

/-- `max_error` is declared on `[0, π]`, PERIODIC (`_set_parameter("max_error", max_error, 0, math.pi)`): whatever
amplitude is requested, the stored one lies in `[0, π]` (a request of `3.5` becomes `3.5 - π`). -/
theorem ps_max_error_stored (m : ℝ) :
    ∃ w, wrap true (some 0) (some Real.pi) m = some w ∧ 0 ≤ w ∧ w ≤ Real.pi := by
  obtain ⟨w, hw, h0, h1, _⟩ := wrap_spec (K := ℝ) (lo := 0) (hi := Real.pi) Real.pi_pos m
  exact ⟨w, hw, h0, h1⟩

/-- The numeric and symbolic branches read DIFFERENT things from a slot (`float()` / `spv`), and they agree:
when every slot of a beam splitter reads a value (`float()`), the `spv` expressions exist, evaluate at the
current values of the raw parameters to exactly these values (`slot_spv_evaluates_to_float`) — so, by
`symbolic_bs`, the symbolic matrix evaluated at the current values is the numeric one.  Stated for the slot
layer (all five slots at once, every interpretation of the functions, every state). -/
theorem bs_slots_spv_agree_with_float (I : Interp ℚ) (S : XSt) (slots : Fin 5 → SlotRef) (vals : Fin 5 → ℚ)
    (h : ∀ k, slotFloat I S (slots k) = .inr (vals k)) :
    ∃ es : Fin 5 → XExpr, ∀ k, slotSpv S (slots k) = some (es k) ∧
      (es k).eval I (LStore.env S.1) = some (vals k) := by
  choose es hes using fun k => slot_spv_evaluates_to_float I S (slots k) (h k)
  exact ⟨es, hes⟩

/-! base change: the ring-polymorphic component definitions commute with every ring homomorphism — the symbolic
matrix is the SAME definition over a ring of expressions, and evaluating its entries (a ring homomorphism to
the complex numbers) gives the numeric matrix. -/

theorem bs_base_change {R S : Type*} [CommRing R] [CommRing S] (f : R →+* S) (I : R) (conv : Conv)
    (c s ptl pbl ptr pbr : R) :
    (bs I conv c s ptl pbl ptr pbr).map f = bs (f I) conv (f c) (f s) (f ptl) (f pbl) (f ptr) (f pbr) :=
  bs_map' f I conv c s ptl pbl ptr pbr

theorem bsNum_base_change {R S : Type*} [CommRing R] [CommRing S] (f : R →+* S) (I : R) (conv : Conv)
    (h tl bl tr br : Ang R) :
    (bsNum I conv h tl bl tr br).map f =
      bsNum (f I) conv ⟨f h.c, f h.s⟩ ⟨f tl.c, f tl.s⟩ ⟨f bl.c, f bl.s⟩ ⟨f tr.c, f tr.s⟩ ⟨f br.c, f br.s⟩ :=
  bsNum_map' f I conv h tl bl tr br

theorem ps_wp_pr_base_change {R S : Type*} [CommRing R] [CommRing S] (f : R →+* S) (I p : R) (a d x : Ang R) :
    (ps p).map f = ps (f p) ∧ (psNum I a).map f = psNum (f I) ⟨f a.c, f a.s⟩ ∧
      (wp I d x).map f = wp (f I) ⟨f d.c, f d.s⟩ ⟨f x.c, f x.s⟩ ∧ (pr d).map f = pr ⟨f d.c, f d.s⟩ :=
  ⟨ps_map' f p, psNum_map' f I a, wp_map' f I d x, pr_map' f d⟩

/-- `PERM` and `PBS` hold a numeric matrix whatever `use_symbolic` is; it is the same 0/1 matrix over every ring. -/
theorem perm_base_change {R S : Type*} [CommRing R] [CommRing S] (f : R →+* S) {n : ℕ} (σ : Fin n → Fin n) :
    (permMat (R := R) σ).map f = permMat σ ∧ (pbs (R := R)).map f = pbs :=
  ⟨permMat_map' f σ, permMat_map' f pbsPerm⟩

/-- The beam splitter over the FREE commutative ring on seven symbols `i, c, s, p_tl, p_bl, p_tr, p_br`
(polynomials with integer coefficients), specialised at `i ↦ I`, `c ↦ cos(θ/2)`, `s ↦ sin(θ/2)`,
`p_x ↦ e^{iφ_x}`, is the documented matrix: for all real angles. -/
theorem bs_free_ring_specialises (conv : Conv) (θ φtl φbl φtr φbr : ℝ) :
    (bs (MvPolynomial.X 0 : MvPolynomial (Fin 7) ℤ) conv (MvPolynomial.X 1) (MvPolynomial.X 2)
        (MvPolynomial.X 3) (MvPolynomial.X 4) (MvPolynomial.X 5) (MvPolynomial.X 6)).map
      (MvPolynomial.aeval (R := ℤ)
        (![Complex.I, (Real.cos (θ / 2) : ℂ), (Real.sin (θ / 2) : ℂ), ph φtl, ph φbl, ph φtr, ph φbr] : Fin 7 → ℂ))
      = bsDoc conv θ φtl φbl φtr φbr := by
  have := bs_map' (MvPolynomial.aeval (R := ℤ)
      (![Complex.I, (Real.cos (θ / 2) : ℂ), (Real.sin (θ / 2) : ℂ), ph φtl, ph φbl, ph φtr, ph φbr] :
        Fin 7 → ℂ)).toRingHom
    (MvPolynomial.X 0) conv (MvPolynomial.X 1) (MvPolynomial.X 2) (MvPolynomial.X 3) (MvPolynomial.X 4)
    (MvPolynomial.X 5) (MvPolynomial.X 6)
  simp only [AlgHom.toRingHom_eq_coe, RingHom.coe_coe, MvPolynomial.aeval_X] at this
  rw [this]
  simpa using (bs_complex conv θ φtl φbl φtr φbr).2.1

/-- `PBS()` is the permutation `[2, 1, 0, 3]` of the doubled modes: the documented 4×4 matrix, unitary. -/
theorem pbs_matrix {R : Type*} [CommRing R] [StarRing R] :
    (pbs : Matrix (Fin 4) (Fin 4) R) = !![0, 0, 1, 0; 0, 1, 0, 0; 1, 0, 0, 0; 0, 0, 0, 1] ∧
      IsUnitary (pbs : Matrix (Fin 4) (Fin 4) R) := by
  refine ⟨?_, permMat_isUnitary (by decide)⟩
  ext i j
  fin_cases i <;> fin_cases j <;> simp [pbs, permMat, pbsPerm]

end symbolic

/-! ### non-vacuity -/

/-- `bs_isUnitary`, `wp_isUnitary`, `pr_isUnitary`, `ps_isUnitary`: the hypotheses hold at `GQ`
for the 3-4-5 and 5-12-13 angles. -/
def a345 : Ang GQ := ⟨⟨3 / 5, 0⟩, ⟨4 / 5, 0⟩⟩
def a51213 : Ang GQ := ⟨⟨-5 / 13, 0⟩, ⟨12 / 13, 0⟩⟩

example : ImagUnit GQ.I ∧ a345.IsReal ∧ a51213.IsReal ∧
    (a345.cis GQ.I) * star (a345.cis GQ.I) = 1 := by
  refine ⟨⟨by decide +kernel, by decide +kernel⟩, ⟨by decide +kernel, by decide +kernel, by decide +kernel⟩,
    ⟨by decide +kernel, by decide +kernel, by decide +kernel⟩, by decide +kernel⟩

example : IsUnitary (bs GQ.I .H a345.c a345.s (a51213.cis GQ.I) 1 (a345.cis GQ.I) 1) ∧
    bs GQ.I .H a345.c a345.s (a51213.cis GQ.I) 1 (a345.cis GQ.I) 1 ≠ 1 := by
  unfold IsUnitary; decide +kernel

/-- `wrap_spec` / `wrapFixed_in_bounds`: a far-out value at ℚ. -/
example : wrap (K := ℚ) true (some 0) (some 4) (-1001 / 2) = some (7 / 2) := by decide +kernel

/-- `wrapFixed_in_bounds` with a rounding that is not the identity: under IEEE double rounding the
repaired code stores the bound itself where the pinned code raises (`wrapCurrent_fails_on_current_code`),
and `wrap_nonperiodic`: both branches (kept as given / raises) occur. -/
example : wrapFixed fl64 true (some 0) (some twoPi64) (fl64 (-98 * twoPi64)) = some twoPi64 ∧
    checkValue (K := ℚ) id true false (some 0) (some 1) (1 / 2) = some (1 / 2) ∧
    checkValue (K := ℚ) id true false (some 0) (some 1) 2 = none ∧
    checkValue (K := ℚ) id true false none (some 1) 2 = none := by
  decide +kernel

/-- `perm_vector_roundtrip`, `perm_sends_listed`: the documentation's example. -/
example : permOk [2, 3, 1, 0] = true ∧ permOk [2, 3, 1, 1] = false ∧ permOk [1, 2, 3] = false := by
  decide +kernel

/-- `permMat_isUnitary`: the hypothesis holds for every accepted list (here the documentation's example),
and the permutation is not the identity. -/
example : Function.Injective (permFun [2, 3, 1, 0]) ∧ (permFun [2, 3, 1, 0] ⟨0, by decide⟩).val = 2 :=
  ⟨permFun_injective (by decide +kernel), by decide +kernel⟩

/-- `expr_live`: a history with a rejected call (out of non-periodic bounds) and a wrapped one. -/
def exStore : Store := fun x =>
  if x = "a" then some ⟨some 0, some 4, true, none⟩
  else if x = "b" then some ⟨some 0, some 1, false, some (1 / 2)⟩ else none

example : slotValue (.add (.mul (.var "a") (.const 2)) (.var "b"))
    (exStore.run [("a", 9), ("b", 7), ("a", -1), ("b", 1 / 4)]) = some (25 / 4) := by
  decide +kernel

/-- `expr_depends_on_vars`: two different stores that agree on the variables of the expression. -/
example : slotValue (.mul (.var "b") (.const 2)) exStore =
    slotValue (.mul (.var "b") (.const 2)) (exStore.run [("a", 9)]) ∧
    exStore.env "a" ≠ (exStore.run [("a", 9)]).env "a" := by
  decide +kernel

/-! non-vacuity of the lifecycle / shared-range theorems -/

/-- a fresh variable parameter on `[0, 4]`, periodic -/
def pFresh : Par := ⟨some 0, some 4, true, true, none⟩

/-- `life_value_in_bounds`, `check_*`: a history with a wrapped call, a rejected call on a fixed parameter
(`RuntimeError`), a forced one, a `reset` that does nothing on a fixed parameter. -/
example : pFresh.Inv ∧
    (SM.run (pstep true) pFresh [.set 9 false, .fix (-1), .set 2 false, .set 6 true, .reset]) =
      (⟨some 0, some 4, true, false, some 2⟩, [none, none, some .RuntimeError, none, none]) := by
  refine ⟨fun w hw => by simp [pFresh] at hw, by decide +kernel⟩

/-- exception classes of the value check: out of non-periodic bounds, a missing bound (the message cannot be
formatted), `min == max`; `fix_value` rejected leaves a fixed, undefined parameter. -/
example : checkE false (some 0) (some 1) 2 = .inl .ValueError ∧ checkE true none (some 1) 2 = .inl .TypeError ∧
    checkE true (some 1) (some 1) 5 = .inl .ZeroDivisionError ∧ checkE true (some 1) (some 1) 1 = .inr 1 ∧
    checkE true (some 2) (some 0) 5 = .inl .ValueError ∧
    pstep true ⟨some 0, some 1, false, true, none⟩ (.fix 5) = (⟨some 0, some 1, false, false, none⟩, some .ValueError) := by
  decide +kernel

/-- `accepted_set_restores_bounds`: value set before the parameter is plugged into a narrower slot (stale,
outside), then an accepted call. `fixed_never_changes`: the hypothesis holds for a parameter made from a number. -/
example : ¬ (SM.exec (pstep true) ⟨none, none, true, true, none⟩ [.set 7 false, .bind (some 0) (some 6) (some true)]).Inv ∧
    (pstep true (SM.exec (pstep true) ⟨none, none, true, true, none⟩ [.set 7 false, .bind (some 0) (some 6) (some true)])
      (.set 8 false)) = (⟨some 0, some 6, true, true, some 2⟩, none) ∧
    (Par.init (some 9) (some 0) (some 4) true) = .inr ⟨some 0, some 4, true, false, some 1⟩ := by
  refine ⟨fun h => ?_, by decide +kernel, by decide +kernel⟩
  have := (h 7 (by decide +kernel)).2 6 (by decide +kernel)
  norm_num at this

/-- `copy_preserves` needs the value inside the bounds: the copy of a stale value is wrapped again (here `7` on
`[0, 6]` becomes `1`), and a stale value of a non-periodic parameter makes `copy()` raise. -/
example : (⟨some 0, some 6, true, true, some 7⟩ : Par).copy = .inr ⟨some 0, some 6, true, false, some 1⟩ ∧
    (⟨some 0, some 6, false, true, some 7⟩ : Par).copy = .inl .ValueError ∧
    (⟨some 0, some 6, true, true, some 5⟩ : Par).copy = .inr ⟨some 0, some 6, true, false, some 5⟩ := by
  decide +kernel

/-- `shared_repaired_sound` / the defect at ℚ (`4` standing for `4π`, `2` for `2π`): `x` plugged into a slot on
`[0,4]` and a slot on `[0,2]`.  Pinned rule: periodic on `[0,2]`, `set_value(3)` stores `1 = 3 - 1·2` (odd
multiple of the narrower span: the `[0,4]` slot sees another angle).  Repaired rule: bounded on `[0,2]`,
`set_value(3)` raises and `set_value(3/2)` stores `3/2`; two slots of the same range stay periodic. -/
example :
    bindAll false ⟨none, none, true, true, none⟩ [(0, 4), (0, 2)] = ⟨some 0, some 2, true, true, none⟩ ∧
    (bindAll false ⟨none, none, true, true, none⟩ [(0, 4), (0, 2)]).check 3 = .inr 1 ∧
    bindAll true ⟨none, none, true, true, none⟩ [(0, 4), (0, 2)] = ⟨some 0, some 2, false, true, none⟩ ∧
    bindAll true ⟨none, none, true, true, none⟩ [(0, 2), (0, 4), (0, 2)] = ⟨some 0, some 2, false, true, none⟩ ∧
    (bindAll true ⟨none, none, true, true, none⟩ [(0, 4), (0, 2)]).check 3 = .inl .ValueError ∧
    (bindAll true ⟨none, none, true, true, none⟩ [(0, 4), (0, 2)]).check (3 / 2) = .inr (3 / 2) ∧
    bindAll true ⟨none, none, true, true, none⟩ [(0, 2), (0, 2)] = ⟨some 0, some 2, true, true, none⟩ ∧
    (bindAll true ⟨none, none, true, true, none⟩ [(0, 2), (0, 2)]).check 7 = .inr 1 ∧
    (∀ op ∈ [POp.bind (some 0) (some 2) (some true), .set 7 false, .bind (some 0) (some 2) (some true)],
      op.plain = true) ∧
    slotsOf [POp.bind (some 0) (some 2) (some true), .set 7 false, .bind (some 0) (some 2) (some true)] =
      [(0, 2), (0, 2)] := by
  decide +kernel

/-- `param_state_local`, `assign_is_prefix_of_sets`: two objects; `assign` stops at the unknown key and keeps
what it assigned before. -/
def exL : LStore := fun x =>
  if x = "a" then some pFresh else if x = "f" then some ⟨none, none, true, false, some 1⟩ else none

example : vars exL ["a", "f", "a"] = ["a", "a"] ∧
    (sstep true exL (.assign ["a", "f"] [("a", 9), ("f", 2), ("a", 3)])).2 = some .KeyError ∧
    ((sstep true exL (.assign ["a", "f"] [("a", 9), ("f", 2), ("a", 3)])).1 "a") =
      some ⟨some 0, some 4, true, true, some 1⟩ := by
  decide +kernel

/-! non-vacuity of the Expression / symbolic theorems -/

/-- an interpretation of the function symbols by a finite table (what the driver runs with): `pi ↦ 22/7`,
`sqrt 4 = 2`, `sin 0 = 0`, `cos 0 = 1`, everything else "not a real number" -/
def exI : Interp ℚ :=
  ⟨22 / 7, fun f x => match f with
    | .sqrt => if x = 4 then some 2 else none
    | .sin => if x = 0 then some 0 else none
    | .cos => if x = 0 then some 1 else none
    | _ => none⟩

/-- `sqrt(a) + b**-2 + pi` -/
def exTree : XExpr := .add (.add (.app .sqrt (.var "a")) (.powi (.var "b") (-2))) .pi

/-- `expression_live` / `expression_live_from_creation`: parameters `a`, `b`; the Expression is created while
they have no value, bound to a slot `[0, 6]`, the parameters are set, `a` is set again, reset, set — the hypotheses
hold, and the slot reads `ValueError` → `2 + 4 + 22/7` → `TypeError` (`sqrt 9` is not in the table) → … -/
def exHist : List XOp :=
  [.base (.new "a" none none none true), .base (.new "b" none none none true), .xnew "e" exTree,
   .xpar "e" (.bind (some 0) (some 6) (some true)), .base (.par "a" (.set 4 false)),
   .base (.par "b" (.set (1 / 2) false))]

example : (∀ op ∈ exHist.drop 3, op.creates "e" = false) ∧
    (∀ op ∈ XOp.objOps "e" (exHist.drop 3), op.overrides = false) ∧
    slotFloat exI (SM.exec (xstep true) (fun _ => none, fun _ => none) (exHist.take 4)) (.ex "e") = .inl .ValueError ∧
    slotFloat exI (SM.exec (xstep true) (fun _ => none, fun _ => none) exHist) (.ex "e") = .inr (2 + 4 + 22 / 7) ∧
    slotFloat exI (SM.exec (xstep true) (fun _ => none, fun _ => none)
      (exHist ++ [.base (.par "a" (.set 9 false))])) (.ex "e") = .inl .TypeError ∧
    slotFloat exI (SM.exec (xstep true) (fun _ => none, fun _ => none)
      (exHist ++ [.base (.par "b" (.set 0 false))])) (.ex "e") = .inl .TypeError := by
  decide +kernel

/-- `expression_override_freezes`, `expression_reset_restores`: the object is bound to `[0, 6]` (periodic, first
slot): `set_value(20)` is accepted and stores `2`; later `a := 16`… the slot still reads `2`, although the
expression at the current values is not `2` (it is not even a real number in this table); after `reset()` the
slot is live again; the override differs from the live value `2 + 4 + 22/7`. -/
example :
    (xstep true (SM.exec (xstep true) (fun _ => none, fun _ => none) exHist) (.xpar "e" (.set 20 false))).2 = none ∧
    slotFloat exI (SM.exec (xstep true) (fun _ => none, fun _ => none)
      (exHist ++ [.xpar "e" (.set 20 false), .base (.par "a" (.set 16 false)),
        .xpar "e" (.bind (some 0) (some 12) (some true))])) (.ex "e") = .inr 2 ∧
    slotFloat exI (SM.exec (xstep true) (fun _ => none, fun _ => none)
      (exHist ++ [.xpar "e" (.set 20 false), .xpar "e" .reset])) (.ex "e") = .inr (2 + 4 + 22 / 7) ∧
    (2 : ℚ) ≠ 2 + 4 + 22 / 7 := by
  decide +kernel

/-- the bounds of an Expression object: periodic on the first slot only (`is_periodic` answers `False`), then the
intersection, not periodic — and the value is not touched (`expression_value_ignores_bounds`): `3 * a` at `a = 5`
reads `15` on `[0, 6]`. -/
example :
    (SM.exec (estep true) (EObj.init (.mul (.const 3) (.var "a")))
      [.bind (some 0) (some 6) (some true)]).par = ⟨some 0, some 6, true, true, none⟩ ∧
    (SM.exec (estep true) (EObj.init (.mul (.const 3) (.var "a")))
      [.bind (some 0) (some 6) (some true), .bind (some 0) (some 6) (some true)]).par = ⟨some 0, some 6, false, true, none⟩ ∧
    (SM.exec (estep true) (EObj.init (.mul (.const 3) (.var "a")))
      [.bind (some 0) (some 6) (some true), .bind (some 0) (some 12) (some true), .bind (some (-3)) (some 3) (some true)]).par
        = ⟨some 0, some 3, false, true, none⟩ ∧
    (∀ op ∈ [POp.bind (some 0) (some 6) (some true), .setPeriodic true], op.boundsOnly = true) ∧
    (SM.exec (estep true) (EObj.init (.mul (.const 3) (.var "a"))) [.bind (some 0) (some 6) (some true)]).float exI
      (fun x => if x = "a" then some ⟨none, none, true, true, some 5⟩ else none) = .inr 15 := by
  decide +kernel

/-- a rejected `fix_value` on an Expression object drops `_symbol`: `float()` raises `AttributeError`. -/
example :
    ((estep true (SM.exec (estep true) (EObj.init (.var "a"))
      [.bind (some 0) (some 6) (some true), .bind (some 0) (some 12) (some true)]) (.fix 50)).1).float exI
      (fun x => if x = "a" then some ⟨none, none, true, true, some 5⟩ else none) = .inl .AttributeError := by
  decide +kernel

/-- `expression_of_expressions`, `expression_composition_ignores_override`: `e1 = 2a`, `e2 = e1 + b`; at `a = 3`,
`b = 1/4`: `e1 * e2 = 6 * 25/4`, and `e1 / e2` needs `e2 ≠ 0`; an overridden `e1` gives the same composition. -/
example :
    let st : LStore := fun x => if x = "a" then some ⟨none, none, true, true, some 3⟩
      else if x = "b" then some ⟨none, none, true, true, some (1 / 4)⟩ else none
    let e1 := EObj.init (.mul (.const 2) (.var "a"))
    let e2 := EObj.binop .add e1 (EObj.init (.var "b"))
    e1.e.eval exI (LStore.env st) = some 6 ∧ e2.e.eval exI (LStore.env st) = some (25 / 4) ∧
      (EObj.binop .mul e1 e2).float exI st = .inr (6 * (25 / 4)) ∧
      EObj.binop .mul { e1 with par := { e1.par with val := some 100 } } e2 = EObj.binop .mul e1 e2 := by
  decide +kernel

/-- `expression_subs_then_float`, `xexpr_extends_expr`, `slot_spv_evaluates_to_float` on concrete data. -/
example :
    (exTree.subst fun x => if x = "a" then some 4 else if x = "b" then some (1 / 2) else none).eval exI (fun _ => none)
      = some (2 + 4 + 22 / 7) ∧
    (Expr.pow (.var "a") 3).toX.eval exI (fun x => if x = "a" then some 2 else none) = some 8 ∧
    slotSpv (SM.exec (xstep true) (fun _ => none, fun _ => none) exHist) (.ex "e") = some exTree ∧
    slotSpv (SM.exec (xstep true) (fun _ => none, fun _ => none) (exHist ++ [.xpar "e" (.set 20 false)])) (.ex "e")
      = some (.const 2) ∧
    slotSpv (SM.exec (xstep true) (fun _ => none, fun _ => none) exHist) (.par "a") = some (.const 4) ∧
    slotSpv (SM.exec (xstep true) (fun _ => none, fun _ => none) (exHist.take 3)) (.par "a") = some (.var "a") := by
  decide +kernel

/-- `symbolic_bs` … `symbolic_pr`: the hypotheses hold for slots holding an Expression tree (`2 * a`), a free
symbol, a number, the exact `pi / 2`, at the values `a = 1/2`, `b = 3`. -/
example :
    let env : String → Option ℝ := fun x => if x = "a" then some (1 / 2) else if x = "b" then some 3 else none
    (XExpr.mul (.const 2) (.var "a")).evalR env = some (((2 : ℚ) : ℝ) * (1 / 2)) ∧
      (XExpr.var "b").evalR env = some 3 ∧ (XExpr.const (3 / 10)).evalR env = some (((3 / 10 : ℚ)) : ℝ) ∧
      (XExpr.div .pi (.const 2)).evalR env = some (Real.pi / ((2 : ℚ) : ℝ)) := by
  refine ⟨?_, ?_, ?_, ?_⟩ <;> simp [XExpr.evalR, XExpr.eval]

/-- the executable instance of the symbolic branch (what the driver computes): `PS(e)` with `e` evaluating to
`0` in the table interpretation has the symbolic entry `cos 0 + i sin 0 = 1`; with a value outside the table the
entry is undefined. -/
example :
    (symPS (.sub (.var "a") (.var "a")) 0 0).eval exI GQ.ofRat GQ.I (fun x => if x = "a" then some 5 else none)
      = some 1 ∧
    (symPS (.var "a") 0 0).eval exI GQ.ofRat GQ.I (fun x => if x = "a" then some 5 else none) = none := by
  decide +kernel

/-- `ps_max_error`: the hypotheses hold (`max_error = 1/10`, draw `-1/2`); `compute_unitary_assign`: on `BS` an
unknown key passes silently and nothing changes, on the other leaves it is the `KeyError` of `assign`. -/
example : (0 : ℝ) ≤ 1 / 10 ∧ |(-1 / 2 : ℝ)| ≤ 1 := by
  constructor
  · norm_num
  · rw [abs_le]; constructor <;> norm_num

example : (computeAssign true true exL ["a", "f"] [("zz", 1)]).2 = some .KeyError ∧
    (computeAssign true false exL ["a", "f"] [("zz", 1), ("a", 9)]).2 = none ∧
    ((computeAssign true false exL ["a", "f"] [("a", 9)]).1 "a") = some pFresh ∧
    ((computeAssign true true exL ["a", "f"] [("a", 9)]).1 "a") = some ⟨some 0, some 4, true, true, some 1⟩ := by
  decide +kernel

/-! ### wave 7: ONE combined theorem linking the rational session model to the real-valued symbolic theorems

Until here the link was "by statement": the session theorems speak of rational values read by `float()` under a
table `I : Interp ℚ`, the symbolic theorems of ALL real assignments.  `Lemmas/C14Link.lean` proves that
evaluation commutes with the cast `ℚ → ℝ` (with every field homomorphism, `XExpr.eval_map`), which joins them. -/

section link
open PM.SM

/-- Session value = real value.  An expression that is arithmetic of parameters and numbers (what the overloaded
operators build; NO assumption on the table), or any `pi`-free expression over a table of function values whose
entries are exact, and that evaluates to the rational `v` at the session's values, evaluates to `(v : ℝ)` under
the true real functions at the same values. -/
theorem xexpr_session_value_is_real_value (I : Interp ℚ) (env : String → Option ℚ) {e : XExpr}
    (hl : e.Linkable I) {v : ℚ} (h : e.eval I env = some v) : e.evalR (realEnv env) = some (v : ℝ) :=
  XExpr.evalR_of_linkable I env hl h

/-- For arithmetic expressions it is an EQUATION, undefinedness included (a divisor or the base of a negative
power is zero in `ℚ` iff it is in `ℝ`), for every table. -/
theorem xexpr_arith_real_eq (I : Interp ℚ) (env : String → Option ℚ) {e : XExpr} (h : e.arith = true) :
    e.evalR (realEnv env) = (e.eval I env).map fun q : ℚ => (q : ℝ) :=
  XExpr.evalR_arith I env h

/-- The general form: evaluation commutes with every field homomorphism `f` along which the interpretation is
respected (`pi` only if it occurs). -/
theorem xexpr_eval_base_change {K L : Type*} [Field K] [DecidableEq K] [Field L] [DecidableEq L] (f : K →+* L)
    (I : Interp K) (J : Interp L) (hfn : Interp.Extends f I J) (env : String → Option K) (e : XExpr)
    (hpi : e.usesPi = true → f I.pi = J.pi) {v : K} (h : e.eval I env = some v) :
    e.eval J (fun x => (env x).map f) = some (f v) :=
  XExpr.eval_map f I J hfn env e hpi h

/-- NECESSITY of "`pi` does not occur": whatever rational the table gives for `pi`, the session value of the
expression `pi` is NOT its real value (`π` is irrational). -/
theorem link_fails_on_pi (I : Interp ℚ) (env : String → Option ℚ) :
    XExpr.pi.eval I env = some I.pi ∧ XExpr.pi.evalR (realEnv env) ≠ some ((I.pi : ℚ) : ℝ) := by
  refine ⟨rfl, ?_⟩
  simp only [XExpr.evalR, XExpr.eval, realInterp_pi, ne_eq, Option.some.injEq]
  exact pi_ne_ratCast I.pi

/-- NECESSITY of the true table: with the entry `sin 0 = 1` the session value of `sin(0)` is `1`, the real one `0`. -/
theorem link_needs_true_table :
    ∃ (I : Interp ℚ) (e : XExpr), e.usesPi = false ∧ e.eval I (fun _ => none) = some 1 ∧
      e.evalR (realEnv fun _ => none) = some 0 := by
  refine ⟨⟨0, fun _ _ => some 1⟩, .app .sin (.const 0), rfl, ?_, ?_⟩
  · simp [XExpr.eval]
  · simp [XExpr.evalR, XExpr.eval]

/-- A slot: whatever it holds (a number, a raw parameter with or without value, an Expression object live or
overridden, an exact sympy number), when `float()` gives the rational `v` in the session and the `spv` is
linkable, `spv` evaluated with the TRUE real functions at the current values is `(v : ℝ)`. -/
theorem slot_real_value (I : Interp ℚ) (S : XSt) (r : SlotRef) {v : ℚ} (h : slotFloat I S r = .inr v)
    (hl : ∀ e, slotSpv S r = some e → e.Linkable I) :
    ∃ e, slotSpv S r = some e ∧ e.evalR (realEnv (LStore.env S.1)) = some (v : ℝ) := by
  obtain ⟨e, he, hv⟩ := slot_spv_evaluates_to_float I S r h
  exact ⟨e, he, XExpr.evalR_of_linkable I _ (hl e he) hv⟩

/-- A slot holding a raw parameter is always linkable (its `spv` is a number or a free symbol). -/
theorem slot_par_linkable (I : Interp ℚ) (S : XSt) (key : String) :
    ∀ e, slotSpv S (.par key) = some e → e.Linkable I := by
  intro e he
  simp only [slotSpv] at he
  cases hk : S.1 key with
  | none => simp [hk] at he
  | some p =>
    simp only [hk, Option.map_some, Option.some.injEq] at he
    subst he
    unfold Par.spv
    cases p.val <;> exact Or.inl rfl

/-- COMBINED, beam splitter (all conventions): in ANY session state (hence after any history), when the five
slots read the rationals `vals` through `float()`, the symbolic matrix the code builds from their `spv`, evaluated
with the true real functions at the current values of the raw parameters, is entry by entry the documented matrix
at `vals`, which is also the numeric branch at `vals`. -/
theorem session_symbolic_bs (conv : Conv) (I : Interp ℚ) (S : XSt) (slots : Fin 5 → SlotRef) (vals : Fin 5 → ℚ)
    (h : ∀ k, slotFloat I S (slots k) = .inr (vals k))
    (hl : ∀ k e, slotSpv S (slots k) = some e → e.Linkable I) :
    ∃ es : Fin 5 → XExpr, (∀ k, slotSpv S (slots k) = some (es k)) ∧
      (∀ i j, (symBS conv (es 0) (es 1) (es 2) (es 3) (es 4) i j).evalC (realEnv (LStore.env S.1)) =
        some (bsDoc conv (vals 0) (vals 1) (vals 2) (vals 3) (vals 4) i j)) ∧
      bsNum Complex.I conv (angR ((vals 0 : ℝ) / 2)) (angR (vals 1)) (angR (vals 2)) (angR (vals 3)) (angR (vals 4)) =
        bsDoc conv (vals 0) (vals 1) (vals 2) (vals 3) (vals 4) := by
  choose es hes using fun k => slot_real_value I S (slots k) (h k) (hl k)
  have := symbolic_bs conv (es 0) (es 1) (es 2) (es 3) (es 4) (realEnv (LStore.env S.1))
    (hes 0).2 (hes 1).2 (hes 2).2 (hes 3).2 (hes 4).2
  exact ⟨es, fun k => (hes k).1, this.1, this.2⟩

/-- COMBINED, phase shifter. -/
theorem session_symbolic_ps (I : Interp ℚ) (S : XSt) (r : SlotRef) {v : ℚ} (h : slotFloat I S r = .inr v)
    (hl : ∀ e, slotSpv S r = some e → e.Linkable I) :
    ∃ e, slotSpv S r = some e ∧
      (∀ i j, (symPS e i j).evalC (realEnv (LStore.env S.1)) = some (psDoc (v : ℝ) i j)) ∧
      psNum Complex.I (angR (v : ℝ)) = psDoc (v : ℝ) := by
  obtain ⟨e, he, hv⟩ := slot_real_value I S r h hl
  exact ⟨e, he, (symbolic_ps e _ hv).1, (symbolic_ps e _ hv).2⟩

/-- COMBINED, wave plate (both slots). -/
theorem session_symbolic_wp (I : Interp ℚ) (S : XSt) (rd rx : SlotRef) {d x : ℚ}
    (hd : slotFloat I S rd = .inr d) (hx : slotFloat I S rx = .inr x)
    (hld : ∀ e, slotSpv S rd = some e → e.Linkable I) (hlx : ∀ e, slotSpv S rx = some e → e.Linkable I) :
    ∃ ed ex, slotSpv S rd = some ed ∧ slotSpv S rx = some ex ∧
      (∀ i j, (symWP ed ex i j).evalC (realEnv (LStore.env S.1)) = some (wpDoc (d : ℝ) (x : ℝ) i j)) ∧
      wp Complex.I (angR (d : ℝ)) (angR (x : ℝ)) = wpDoc (d : ℝ) (x : ℝ) := by
  obtain ⟨ed, hed, hvd⟩ := slot_real_value I S rd hd hld
  obtain ⟨ex, hex, hvx⟩ := slot_real_value I S rx hx hlx
  exact ⟨ed, ex, hed, hex, (symbolic_wp ed ex _ hvd hvx).1, (symbolic_wp ed ex _ hvd hvx).2⟩

/-- COMBINED, half- and quarter-wave plates: the first slot holds the exact `pi/2`, `pi/4` (NOT linkable: it is
evaluated at the reals directly), the second any linkable slot. -/
theorem session_symbolic_hwp_qwp (I : Interp ℚ) (S : XSt) (rx : SlotRef) {x : ℚ}
    (hx : slotFloat I S rx = .inr x) (hlx : ∀ e, slotSpv S rx = some e → e.Linkable I) :
    ∃ ex, slotSpv S rx = some ex ∧
      (∀ i j, (symHWP ex i j).evalC (realEnv (LStore.env S.1)) = some (wpDoc (Real.pi / 2) (x : ℝ) i j)) ∧
      (∀ i j, (symQWP ex i j).evalC (realEnv (LStore.env S.1)) = some (wpDoc (Real.pi / 4) (x : ℝ) i j)) := by
  obtain ⟨ex, hex, hvx⟩ := slot_real_value I S rx hx hlx
  exact ⟨ex, hex, (symbolic_hwp_qwp ex _ hvx).1, (symbolic_hwp_qwp ex _ hvx).2⟩

/-- COMBINED, polarisation rotator. -/
theorem session_symbolic_pr (I : Interp ℚ) (S : XSt) (r : SlotRef) {d : ℚ} (h : slotFloat I S r = .inr d)
    (hl : ∀ e, slotSpv S r = some e → e.Linkable I) :
    ∃ e, slotSpv S r = some e ∧
      (∀ i j, (symPR e i j).evalC (realEnv (LStore.env S.1)) = some (prDoc (d : ℝ) i j)) ∧
      pr (angR (d : ℝ)) = prDoc (d : ℝ) := by
  obtain ⟨e, he, hv⟩ := slot_real_value I S r h hl
  exact ⟨e, he, (symbolic_pr e _ hv).1, (symbolic_pr e _ hv).2⟩

/-- END TO END (`expression_live` + `symbolic_ps`).  From the creation of an Expression object `id` with the tree
`e` on, over EVERY history in which the object is not created again nor given a value: the `spv` the symbolic
branch reads is the tree `e` itself with its symbols free; whenever the slot holding it reads a value `v`, that
value is the expression at the current values, and the symbolic `PS` matrix evaluated with the true real functions
at the current values of the raw parameters is the documented phase shifter at `v` = the numeric branch. -/
theorem expression_live_symbolic_ps (sound : Bool) (I : Interp ℚ) (s : XSt) (id : String) (e : XExpr)
    (post : List XOp) (hc : ∀ op ∈ post, op.creates id = false)
    (hov : ∀ op ∈ XOp.objOps id post, op.overrides = false) (hl : e.Linkable I) {v : ℚ}
    (hv : slotFloat I (exec (xstep sound) s (.xnew id e :: post)) (.ex id) = .inr v) :
    slotSpv (exec (xstep sound) s (.xnew id e :: post)) (.ex id) = some e ∧
      e.eval I (LStore.env (exec (xstep sound) s (.xnew id e :: post)).1) = some v ∧
      (∀ i j, (symPS e i j).evalC (realEnv (LStore.env (exec (xstep sound) s (.xnew id e :: post)).1)) =
        some (psDoc (v : ℝ) i j)) ∧
      psNum Complex.I (angR (v : ℝ)) = psDoc (v : ℝ) := by
  have hspv : slotSpv (exec (xstep sound) s (.xnew id e :: post)) (.ex id) = some e := by
    rw [exec_cons]
    simp only [slotSpv]
    rw [xexec_obj sound _ post id (EObj.init e) (by simp [xstep]) hc]
    obtain ⟨h1, h2⟩ := exec_estep_live sound (EObj.init e) _ (EObj.init_live e) hov
    simp only [Option.bind_some, EObj.spv, h1, h2, if_true, exec_estep_e]
    rfl
  obtain ⟨e', he', hv'⟩ := slot_spv_evaluates_to_float I _ _ hv
  rw [hspv, Option.some.injEq] at he'
  subst he'
  have hr := XExpr.evalR_of_linkable I _ hl hv'
  exact ⟨hspv, hv', (symbolic_ps e _ hr).1, (symbolic_ps e _ hr).2⟩

end link

/-! non-vacuity of the wave-7 theorems -/

/-- `Interp.TrueTable` is satisfiable by a non-empty table: `sqrt 4 = 2`, `sin 0 = 0`, `cos 0 = 1` (the table `exI`
of the examples above; its `pi = 22/7` is irrelevant for `pi`-free expressions). -/
example : exI.TrueTable := by
  intro g x y h
  cases g with
  | sqrt =>
    simp only [exI] at h
    split_ifs at h with hx
    · simp only [Option.some.injEq] at h
      subst hx; subst h
      have h4 : Real.sqrt 4 = 2 := by
        rw [show (4 : ℝ) = 2 ^ 2 by norm_num]; exact Real.sqrt_sq (by norm_num)
      simp [realInterp, h4]
  | sin =>
    simp only [exI] at h
    split_ifs at h with hx
    · simp only [Option.some.injEq] at h
      subst hx; subst h
      simp [realInterp]
  | cos =>
    simp only [exI] at h
    split_ifs at h with hx
    · simp only [Option.some.injEq] at h
      subst hx; subst h
      simp [realInterp]
  | exp => simp [exI] at h
  | acos => simp [exI] at h

/-- `session_symbolic_*`, `expression_live_symbolic_ps`: the hypotheses hold — the tree `2*a - b**-2` is
arithmetic, hence linkable for every table; in the history `a = 4`, `b = 1/2` the slot holding it reads `4`. -/
example :
    (XExpr.sub (.mul (.const 2) (.var "a")) (.powi (.var "b") (-2))).arith = true ∧
    (let post : List XOp := [.xpar "e" (.bind (some 0) (some 6) (some true)), .base (.par "a" (.set 4 false)),
        .base (.par "b" (.set (1 / 2) false))]
     let s0 : XSt := SM.exec (xstep true) (fun _ => none, fun _ => none)
        [.base (.new "a" none none none true), .base (.new "b" none none none true)]
     (∀ op ∈ post, op.creates "e" = false) ∧ (∀ op ∈ XOp.objOps "e" post, op.overrides = false) ∧
      slotFloat exI (SM.exec (xstep true) s0
        (.xnew "e" (.sub (.mul (.const 2) (.var "a")) (.powi (.var "b") (-2))) :: post)) (.ex "e") = .inr 4) := by
  decide +kernel

/-! ## EXTENSION 3 — the reflectivity helpers `BS.theta_to_r`, `BS.r_to_theta`, `BS.reflectivity`
(`Model/C14Refl.lean`): what they return is tied to the documented matrix of the beam splitter. -/

/-- **`BS.reflectivity` is the squared modulus of the documented matrix.**  For every convention, every real `θ` and
every value of the four phases, the number `math.cos(θ/2)**2` that `theta_to_r` (hence `reflectivity`) returns is
`|U₀₀|² = |U₁₁|²` of the documented matrix, and `|U₀₁|² = |U₁₀|²` is one minus it. -/
theorem reflectivity_is_matrix_modulus (conv : Conv) (θ φtl φbl φtr φbr : ℝ) :
    thetaToR realInterp (.num θ)
        = .num (some (Complex.normSq (bsDoc conv θ φtl φbl φtr φbr 0 0))) ∧
      Complex.normSq (bsDoc conv θ φtl φbl φtr φbr 1 1) = Complex.normSq (bsDoc conv θ φtl φbl φtr φbr 0 0) ∧
      Complex.normSq (bsDoc conv θ φtl φbl φtr φbr 0 1) = 1 - Complex.normSq (bsDoc conv θ φtl φbl φtr φbr 0 0) ∧
      Complex.normSq (bsDoc conv θ φtl φbl φtr φbr 1 0) = 1 - Complex.normSq (bsDoc conv θ φtl φbl φtr φbr 0 0) := by
  obtain ⟨h00, h11, h01, h10⟩ := bsDoc_normSq conv θ φtl φbl φtr φbr
  refine ⟨?_, ?_, ?_, ?_⟩
  · rw [h00]; rfl
  · rw [h11, h00]
  · rw [h01, h00]
  · rw [h10, h00]

/-- the value stored for `θ` is the requested one shifted by a whole number of spans `4π` (`wrap_spec`): the
reflectivity computed from the STORED value is that of the requested one (the period of `cos²(θ/2)` is even `2π`) -/
theorem reflectivity_wrap_invariant (θ : ℝ) (k : ℤ) :
    thetaToRNum realInterp (θ + k * (4 * Real.pi)) = thetaToRNum realInterp θ ∧
      thetaToRNum realInterp (θ + k * (2 * Real.pi)) = thetaToRNum realInterp θ := by
  rw [thetaToRNum_real, thetaToRNum_real, thetaToRNum_real]
  have h : θ + (k : ℝ) * (4 * Real.pi) = θ + ((2 * k : ℤ) : ℝ) * (2 * Real.pi) := by push_cast; ring
  exact ⟨by rw [h, cos_half_sq_periodic], by rw [cos_half_sq_periodic]⟩

/-- `theta_to_r` of a Parameter object that is not `defined` (a raw parameter without value, an Expression one of
whose sub-parameters has no value) is the Expression `cos(name/2)**2`; at any values of the parameters it evaluates to `cos²(θ/2)` of
whatever the argument evaluates to — it is live. -/
theorem theta_to_r_expression_live (env : String → Option ℝ) (t : XExpr) :
    thetaToR realInterp (.par t none) = .expr (thetaToRTree t) ∧
      (thetaToRTree t).evalR env = (t.evalR env).map fun θ => Real.cos (θ / 2) ^ 2 :=
  ⟨rfl, thetaToRTree_evalR env t⟩

/-- CODE AS IT IS: `theta_to_r` of a `defined` object is a number computed once from the value `float()` reads; the
tree plays no role, so the result does not follow a later `set_value` (a snapshot — `bs.reflectivity` of a beam
splitter whose `theta` is a valued variable parameter is a float, of a free one an Expression). -/
theorem theta_to_r_of_valued_is_snapshot (t t' : XExpr) (v : ℝ) :
    thetaToR realInterp (.par t (some v)) = thetaToR realInterp (.num v) ∧
      thetaToR realInterp (.par t (some v)) = thetaToR realInterp (.par t' (some v)) :=
  ⟨rfl, rfl⟩

/-- **`BS(r_to_theta(r))` has reflectivity `r`.**  For every `r ∈ [0, 1]`, `2*math.acos(math.sqrt(r))` is defined,
lies in `[0, π]` (inside the nominal range `[0, 4π]` of `θ`: it is stored as it is), and the documented matrix at
that angle has `|U₀₀|² = r` in every convention, whatever the phases; `theta_to_r` gives `r` back. -/
theorem r_to_theta_realises_reflectivity (conv : Conv) {r : ℝ} (h0 : 0 ≤ r) (h1 : r ≤ 1) (φtl φbl φtr φbr : ℝ) :
    rToThetaNum realInterp r = some (2 * Real.arccos (Real.sqrt r)) ∧
      (0 ≤ 2 * Real.arccos (Real.sqrt r) ∧ 2 * Real.arccos (Real.sqrt r) ≤ Real.pi) ∧
      Complex.normSq (bsDoc conv (2 * Real.arccos (Real.sqrt r)) φtl φbl φtr φbr 0 0) = r ∧
      thetaToRNum realInterp (2 * Real.arccos (Real.sqrt r)) = some r := by
  refine ⟨?_, rToTheta_range r, ?_, ?_⟩
  · rw [rToThetaNum_real, if_pos ⟨h0, h1⟩]
  · rw [(bsDoc_normSq conv _ φtl φbl φtr φbr).1, cos_half_rToTheta h0 h1]
  · rw [thetaToRNum_real, cos_half_rToTheta h0 h1]

/-- outside `[0, 1]` the numeric form raises (`math domain error`) -/
theorem r_to_theta_outside_unit_interval {r : ℝ} (h : r < 0 ∨ 1 < r) : rToThetaNum realInterp r = none := by
  rw [rToThetaNum_real, if_neg]
  rintro ⟨h0, h1⟩
  rcases h with h | h <;> linarith

/-- `r_to_theta` inverts `theta_to_r` on `[0, π]` (beyond `π` it returns the mirror angle: `cos²` is even) -/
theorem r_to_theta_inverts_theta_to_r {θ : ℝ} (h0 : 0 ≤ θ) (h1 : θ ≤ Real.pi) :
    rToThetaNum realInterp (Real.cos (θ / 2) ^ 2) = some θ := by
  have hc : 0 ≤ Real.cos (θ / 2) ^ 2 := sq_nonneg _
  have hc1 : Real.cos (θ / 2) ^ 2 ≤ 1 := Real.cos_sq_le_one _
  rw [rToThetaNum_real, if_pos ⟨hc, hc1⟩, rToTheta_thetaToR_real h0 h1]

/-- `r_to_theta` of ANY Parameter object (valued or not) is the Expression `2*acos(sqrt(name))`: at values at which
the argument evaluates to `r` it reads `2 arccos √r` when `r ∈ [0, 1]` — and then a `BS` whose `θ` slot reads it has
`|U₀₀|² = r` (previous theorem) — and is not a real number otherwise (`float()` raises `TypeError`). -/
theorem r_to_theta_expression_live {env : String → Option ℝ} {t : XExpr} {r : ℝ} (own : Option ℝ)
    (h : t.evalR env = some r) :
    rToTheta realInterp (.par t own) = .expr (rToThetaTree t) ∧
      (rToThetaTree t).evalR env =
        if 0 ≤ r ∧ r ≤ 1 then some (2 * Real.arccos (Real.sqrt r)) else none :=
  ⟨rfl, rToThetaTree_evalR h⟩

/-- **End to end, symbolic branch.**  A beam splitter whose `θ` slot holds the Expression `r_to_theta(p)` (`p` a
parameter or any expression tree), the phases holding anything: at EVERY assignment of real values at which `p`
evaluates to some `r ∈ [0, 1]`, the entry `[0,0]` of the symbolic matrix evaluates to a complex number of squared
modulus `r`, and so does the numeric branch (same documented matrix, `symbolic_bs`). -/
theorem symbolic_bs_of_r_to_theta (conv : Conv) (p tl bl tr br : XExpr) (env : String → Option ℝ) {r a b c d : ℝ}
    (h0 : 0 ≤ r) (h1 : r ≤ 1) (hp : p.evalR env = some r) (htl : tl.evalR env = some a)
    (hbl : bl.evalR env = some b) (htr : tr.evalR env = some c) (hbr : br.evalR env = some d) :
    ∃ z : ℂ, (symBS conv (rToThetaTree p) tl bl tr br 0 0).evalC env = some z ∧ Complex.normSq z = r ∧
      Complex.normSq (bsNum I conv (angR (2 * Real.arccos (Real.sqrt r) / 2)) (angR a) (angR b) (angR c) (angR d) 0 0)
        = r := by
  have hθ : (rToThetaTree p).evalR env = some (2 * Real.arccos (Real.sqrt r)) := by
    rw [rToThetaTree_evalR hp, if_pos ⟨h0, h1⟩]
  obtain ⟨hs, hn⟩ := symbolic_bs conv _ tl bl tr br env hθ htl hbl htr hbr
  have hm : Complex.normSq (bsDoc conv (2 * Real.arccos (Real.sqrt r)) a b c d 0 0) = r := by
    rw [(bsDoc_normSq conv _ a b c d).1, cos_half_rToTheta h0 h1]
  exact ⟨_, hs 0 0, hm, by rw [hn]; exact hm⟩

/-- **`reflectivity` as an Expression is the squared modulus of the symbolic matrix.**  Whatever tree the `θ` slot
holds, at every assignment at which the slots evaluate, the Expression `cos(θ/2)**2` that `reflectivity` returns
for a slot that is not defined evaluates to `|U₀₀|²` of the symbolic matrix evaluated at the same values. -/
theorem reflectivity_expression_is_symbolic_modulus (conv : Conv) (θ tl bl tr br : XExpr)
    (env : String → Option ℝ) {t a b c d : ℝ} (hθ : θ.evalR env = some t) (htl : tl.evalR env = some a)
    (hbl : bl.evalR env = some b) (htr : tr.evalR env = some c) (hbr : br.evalR env = some d) :
    ∃ z : ℂ, (symBS conv θ tl bl tr br 0 0).evalC env = some z ∧
      (thetaToRTree θ).evalR env = some (Complex.normSq z) := by
  obtain ⟨hs, _⟩ := symbolic_bs conv θ tl bl tr br env hθ htl hbl htr hbr
  refine ⟨_, hs 0 0, ?_⟩
  rw [thetaToRTree_evalR, hθ, (bsDoc_normSq conv t a b c d).1]
  rfl

/-- non-vacuity: `r = 1/3` (the reflectivity used by the post-processed CZ gate) and `θ = π/2` satisfy the hypotheses -/
example : (0 : ℝ) ≤ 1 / 3 ∧ (1 / 3 : ℝ) ≤ 1 ∧ (0 : ℝ) ≤ Real.pi / 2 ∧ Real.pi / 2 ≤ Real.pi := by
  refine ⟨by norm_num, by norm_num, by positivity, by linarith [Real.pi_pos]⟩

/-- non-vacuity of `r_to_theta_expression_live`: the tree of a raw parameter `r` with the value `1/4` -/
example : (XExpr.var "r").evalR (fun _ => some (1 / 4 : ℝ)) = some (1 / 4 : ℝ) := rfl

end PM.C14
