/-
  C08 — property theorems (model: `Model/C08.lean`, helpers: `Lemmas/C08.lean`).

  The model is polymorphic in a linearly ordered field `K`; every theorem below holds for every
  such `K` (ℝ, the semantics of the floats; ℚ, what the driver runs), every wire count, every
  maximum-reading setting, every photon number, every history of calls on one instance, every
  detector list and every input distribution.

  `minP` is the global `min_p` below which `ProbabilityDistribution.add` silently drops a
  contribution.  Pointwise laws are proved for every `minP` in the form "the entry is `keep minP`
  of the law" (`detect_fold_minp`) and, for `minP ≤ 0` (nothing is ever dropped), as exact laws.
  With the shipped `min_p = 1e-16` the code therefore differs from the exact laws by at most
  `1e-16` per entry — the correspondence runs the model at the shipped value.

  `sampleLaw true`  = `simulate_detectors_sample` with `fixes/C08-sample-none-detector.diff` applied
                      (the main model); `sampleLaw false` = the pinned tree, which dereferences an
                      unset detector (`None`) in a mixed list: `sample_total_fails_on_current_code`.

  `bsTree_half_eq_wires` (the design's stretch goal) is proved: for reflectivity 1/2 the click law of
  the beam-splitter tree of depth `L` IS the wire law of `2^L` wires (`Lemmas/C08Tree.lean`).
  `simulate_detectors` at a positive `min_p`: exact law and deviation bound (`Lemmas/C08MinP.lean`).
  `check_heralds_detectors`: exact characterisation of its three results (`Lemmas/C08Heralds.lean`).
  Heralds with detectors (`Model/C08Glue.lean`, the tail of `Simulator.probs_svd`): heralds are read on the
  detector READINGS; the backend's heralds mask (selection on theoretical photon counts) is only used in the
  all-PNR case where it is proved transparent; a pseudo-PNR reading below the maximum is proved NOT to identify
  the photon count (`reading_below_max_not_exact`), so masking before such a detector is unsound
  (`mask_before_detectors_unsound`).
  Extension round 2: `prob_threshold > 0` (`Model/C08Thr.lean`, `Lemmas/C08Thr.lean`), `min_p > 0` for `phys_perf`
  alone / the normalised result / the sample law and `tensor_product`'s empty-left-factor quirk
  (`Lemmas/C08Sample.lean`), the backend's `add` inside `BSLayeredPPNR.detect` (`bsDetectP`), and mixed inputs through
  the detector path (`Model/C08Mix.lean`, `Lemmas/C08Mix.lean`).
  Extension round 4: one instance through `detect` calls at a CHANGING `min_p` (`Model/C08Hist.lean`,
  `Lemmas/C08Hist.lean`): `detectInstH true` / `bsInstH true` = the code with `fixes/C08-detect-cache-stale-minp.diff`
  applied (the main model); `… false` = the pinned tree, whose `_cache` ignores `min_p`
  (`detect_history_minp_fails_on_current_code`).
  Proof round 6 (`Lemmas/C08HistBs.lean`, `Lemmas/C08MixPos.lean`, `Lemmas/C08MixLog.lean`): the exact pinned-code law of
  `BSLayeredPPNR` with `clear_cache()` (`bs_history_minp_pinned_law`, witness `bs_history_minp_fails_on_current_code`);
  the positivity hypotheses of `probs_svd_mix_pnr_law` characterised exactly (`probs_svd_mix_pnr_hyps_iff`,
  `probs_svd_mix_pnr_hyps_nomask_iff`, `probs_svd_mix_pnr_law_of_weights`); the closed form of `logical_perf` of a mixture
  through imperfect detectors (`probs_svd_mix_logical_closed`).
  What is still not proved is listed at the end of this file.
-/
import PercevalModel.Lemmas.C08
import PercevalModel.Lemmas.C08Tree
import PercevalModel.Lemmas.C08MinP
import PercevalModel.Lemmas.C08Heralds
import PercevalModel.Lemmas.C08Leaf
import PercevalModel.Lemmas.C08Post
import PercevalModel.Model.C08Glue
import PercevalModel.Lemmas.C08Thr
import PercevalModel.Lemmas.C08Sample
import PercevalModel.Lemmas.C08Mix
import PercevalModel.Lemmas.C08Hist
import PercevalModel.Lemmas.C08HistBs
import PercevalModel.Lemmas.C08Copy
import PercevalModel.Lemmas.C08MixPos
import PercevalModel.Lemmas.C08MixLog
import Mathlib.Algebra.Order.Field.Rat

set_option linter.unusedSectionVars false

open Finset

namespace PM.C08

/-! ## the click law of `w` saturating wires -/
section clicks
variable {K : Type} [Field K] [CharZero K]

/-- `Detector._cond_probability(det = k, nph = n)` on `w` wires is `C(w,k)·S(n,k)·k!/wⁿ`
(`S` = Stirling number of the second kind), for all `w`, `k`, `n`. -/
theorem condProb_closed (w k n : ℕ) :
    (condProb w k n : K)
      = ((w.choose k * Nat.stirlingSecond n k * k.factorial : ℕ) : K) / (w : K) ^ n :=
  condProb_eq_closed w k n

/-- the click probabilities of `n` photons sum to one (at most `n` wires click) -/
theorem condProb_sum_one (w : ℕ) (hw : 0 < w) (n : ℕ) :
    ∑ k ∈ range (n + 1), (condProb w k n : K) = 1 :=
  condProb_sum_succ w hw n

/-- no more clicks than photons -/
theorem condProb_zero_of_lt (w : ℕ) {k n : ℕ} (h : n < k) : (condProb w k n : K) = 0 :=
  condProb_of_lt w h

/-- the `functools.cache` memo of `_cond_probability` is transparent: started from any table that
only holds values of the recurrence (in particular the empty one), a memoised call returns the value
of the plain recurrence and leaves such a table. -/
theorem condProb_memo_transparent (w n k : ℕ) (t : Memo K) (ht : Memo.Valid w t) :
    (condProbM w n k t).1 = condProb w k n ∧ Memo.Valid w (condProbM w n k t).2 :=
  condProbM_spec w n k t ht

end clicks

/-! ## `Detector.detect` -/
section detect
variable {K : Type} [Field K] [LinearOrder K] [IsStrictOrderedRing K]

/-- `readLaw w mx n k` (Lemmas) is literally the law of `min(clicks, mx)` where `clicks` follows
the closed form: "all outcomes above the configured maximum reading folded into that maximum". -/
theorem readLaw_is_folded_click_law (w mx n k : ℕ) :
    (readLaw w mx n k : K)
      = ∑ j ∈ range (n + 1),
          if min j mx = k then
            ((w.choose j * Nat.stirlingSecond n j * j.factorial : ℕ) : K) / (w : K) ^ n
          else 0 :=
  readLaw_eq_pushforward w mx n k

/-- **detect_fold.** Every constructible wired detector (`Detector(w, maxd)`, `maxd` absent or
`1 ≤ maxd ≤ w`; `w = 1` is the threshold detector) returns, for every photon number `n`, exactly
the folded click law: `closed k n` for `k < max`, the whole tail `∑_{j ≥ max} closed j n` at
`k = max`, nothing above — whichever of the three code paths (`n < 2`, threshold, loop with
remainder) produced the result. -/
theorem detect_fold {w : ℕ} {maxd : Option ℕ} {d : Det}
    (hd : mkDetector (some w) maxd = .ok d) (hmax : maxd ≠ some 0)
    {minP : K} (hmin : minP ≤ 0) (n k : ℕ) :
    prob (d.detect minP n).toDist k = readLaw w (maxd.getD w) n k := by
  obtain ⟨hw, rfl, _⟩ := mkDetector_some hd
  have hmx : 1 ≤ maxd.getD w := by
    cases maxd with
    | none => exact hw
    | some m =>
      have : m ≠ 0 := fun h => hmax (by rw [h])
      show 1 ≤ m
      omega
  by_cases hs : n < 2 ∨ w = 1
  · rw [detect_wired_small w _ minP hs, readLaw_point w hw hmx (by omega)]
    simp [DetOut.toDist, prob]
  · have hn : 2 ≤ n := by omega
    have hw1 : w ≠ 1 := fun h => hs (Or.inr h)
    rw [detect_wired_big w _ minP hn hw1]
    simp only [DetOut.toDist]
    rw [detectWired_prob w _ hw minP (by omega : 1 ≤ n), detectSpec_eq_readLaw w _ (by omega : 1 ≤ n)]
    exact keep_of_nonpos hmin (readLaw_nonneg _ _ _ _)

/-- the same for an arbitrary `min_p` (e.g. the shipped `1e-16`): each entry of the loop branch is
the law's value when that exceeds `min_p`, and is dropped (reads 0) otherwise -/
theorem detect_fold_minp (w mx : ℕ) (hw : 2 ≤ w) (minP : K) {n : ℕ} (hn : 2 ≤ n) (k : ℕ) :
    prob ((Det.wired w mx).detect minP n).toDist k = keep minP (readLaw w mx n k) := by
  rw [detect_wired_big w mx minP hn (by omega)]
  simp only [DetOut.toDist]
  rw [detectWired_prob w mx (by omega) minP (by omega : 1 ≤ n), detectSpec_eq_readLaw w mx (by omega : 1 ≤ n)]

/-- the result of `detect` is a probability distribution (mass one, no negative entry) -/
theorem detect_mass_one {w : ℕ} {maxd : Option ℕ} {d : Det}
    (hd : mkDetector (some w) maxd = .ok d) {minP : K} (hmin : minP ≤ 0) (n : ℕ) :
    mass (d.detect minP n).toDist = 1 ∧ Nonneg (d.detect minP n).toDist :=
  kernel_mass_one hmin (.det d) (mkDetector_wf hd) n

/-- **threshold_reads_min_one.** A one-wire detector (`Detector.threshold()`, or `Detector(1, ·)`)
reads `min(n, 1)` with certainty. -/
theorem threshold_reads_min_one {maxd : Option ℕ} {d : Det}
    (hd : mkDetector (some 1) maxd = .ok d) (minP : K) (n : ℕ) :
    d.detect minP n = .state (min n 1) ∧ d.type = .Threshold := by
  obtain ⟨_, rfl, _⟩ := mkDetector_some hd
  exact ⟨detect_wired_small 1 _ minP (Or.inr rfl), rfl⟩

/-- **pnr_reads_n.** `Detector.pnr()` (= `Detector()`, whatever `max_detections` is passed) and an
unset detector (`None`) read `n` with certainty. -/
theorem pnr_reads_n (maxd : Option ℕ) (minP : K) (n : ℕ) :
    (∃ d, mkDetector none maxd = .ok d ∧ d.type = .PNR ∧ d.detect minP n = .state n) ∧
      (AnyDet.none : AnyDet K).detect minP n = .state n := by
  refine ⟨⟨.pnr, rfl, rfl, ?_⟩, rfl⟩
  simp [Det.detect, Det.type]

/-- the constructor accepts exactly `n_wires is None`, or `n_wires ≥ 1` with `max_detections`
absent or `≤ n_wires` -/
theorem mkDetector_accepts_iff (wires maxd : Option ℕ) :
    (∃ d, mkDetector wires maxd = .ok d) ↔
      (wires = none ∨ ∃ w, wires = some w ∧ 1 ≤ w ∧ ∀ m, maxd = some m → m ≤ w) := by
  cases wires with
  | none => simp [mkDetector]
  | some w =>
    cases maxd with
    | none =>
      by_cases hw : w = 0
      · simp [mkDetector, hw]
      · simp [mkDetector, hw]; omega
    | some m =>
      by_cases hw : w = 0
      · simp [mkDetector, hw]
      · by_cases hm : w < m
        · simp [mkDetector, hw, hm]
        · simp [mkDetector, hw, hm]; omega

/-- **memo cache and `_cache` are transparent.** Over ANY history of `detect(n)` calls on one
long-lived `Detector` (the `functools.cache` table of `_cond_probability` and the per-instance
`_cache` both threaded through), every call returns what a fresh instance returns. -/
theorem detect_history_eq_fresh (d : Det) (minP : K) (ns : List ℕ) :
    (SM.run (detectInst d minP) ⟨[], []⟩ ns).2 = ns.map fun n => (n, d.detect minP n) :=
  run_outputs_eq_map (detectInst d minP) (Inst.Valid d minP) (fun n => (n, d.detect minP n))
    (fun s n h => detectInst_step d minP s n h) ⟨[], []⟩ (Inst.valid_init d minP) ns

end detect

/-! ## `BSLayeredPPNR.detect` (given the assumed multinomial leaf law of the SLOS backend) -/
section tree
variable {K : Type} [Field K] [LinearOrder K] [IsStrictOrderedRing K]

/-- the per-instance `_cache` of a `BSLayeredPPNR` is transparent over any history (at whatever `min_p` the
backend's `add` works with) -/
theorem bs_history_eq_fresh (minP : K) (L : ℕ) (r : K) (ns : List ℕ) :
    (SM.run (bsInst minP L r) [] ns).2 = ns.map fun n => (n, bsDetectP minP L r n) :=
  run_outputs_eq_map (bsInst minP L r) (BsValid minP L r) (fun n => (n, bsDetectP minP L r n))
    (fun c n h => bsInst_step minP L r c n h) [] (by intro n d h; simp [DCache.get] at h) ns

/-- the click distribution of the beam-splitter tree is a probability distribution, for every
depth, every admissible reflectivity and every photon number -/
theorem bsDetect_mass_one {L : ℕ} {r : K} {p : ℕ × K} (h : mkBS L r = .ok p) (n : ℕ) :
    mass (bsDetect p.1 p.2 n).toDist = 1 ∧ Nonneg (bsDetect p.1 p.2 n).toDist := by
  have hwf := mkBS_wf h
  unfold bsDetect
  split
  · exact ⟨by simp [DetOut.toDist], by intro e he; simp [DetOut.toDist] at he; subst he; simp⟩
  · exact ⟨by simp only [DetOut.toDist]; rw [aggregate_mass, treeOcc_mass],
      aggregate_nonneg (treeOcc_nonneg hwf.1 hwf.2 p.1 n)⟩

/-- **the function as coded has the law `bsDetect` at `min_p ≤ 0`**: `BSLayeredPPNR.detect` takes the backend's
`prob_distribution()`, which is built with `add` (a leaf state whose probability is not above `min_p` is dropped
before the click counts are summed: `bsDetectP`); with `min_p ≤ 0` nothing but zero entries is dropped and every
click count holds what the `min_p`-free law `bsDetect` of the theorems below holds -/
theorem bsDetectP_eq_law {L : ℕ} {r : K} {p : ℕ × K} (h : mkBS L r = .ok p) {minP : K} (hmin : minP ≤ 0)
    (n k : ℕ) :
    wt (bsDetectP minP p.1 p.2 n).toDist k = wt (bsDetect p.1 p.2 n).toDist k := by
  have hwf := mkBS_wf h
  unfold bsDetectP bsDetect
  split
  · rfl
  · simp only [DetOut.toDist]
    rw [wt_aggregate_treeOccP, wt_aggregate_sum]
    congr 1
    apply List.map_congr_left
    intro e he
    rw [keep_of_nonpos hmin (treeOcc_nonneg hwf.1 hwf.2 p.1 n e he)]

/-- **bsTree_half_eq_wires** (the design's stretch goal). For reflectivity `1/2`, every depth `L`
(including the degenerate `L = 0`: one wire), every photon number `n` and every click count `k`, the
dictionary `BSLayeredPPNR(L, 1/2).detect(n)` builds — from the multinomial leaf law over the `2^L`
outputs with path weights `r^zeros (1-r)^ones`, thresholded and summed per click count — holds at `k`
exactly what `Detector._cond_probability(k, n)` gives on `2^L` wires: a balanced tree of depth `L`
IS `2^L` equally likely saturating wires. -/
theorem bsTree_half_eq_wires (L n k : ℕ) :
    prob (bsDetect L (1 / 2 : K) n).toDist k = condProb (2 ^ L) k n := by
  rw [condProb_eq_closed]
  unfold bsDetect
  split
  · next hn =>
    rw [closed_point (K := K) (2 ^ L) (Nat.pow_pos (by omega)) (Or.inl (by omega : n ≤ 1)) k]
    have hm : min n 1 = n := by omega
    rw [hm]
    simp only [DetOut.toDist, prob]
    by_cases h : n = k
    · simp [h]
    · have h' : ¬ k = n := fun e => h e.symm
      simp [h, h']
  · exact prob_aggregate_treeOcc_half L n k

/-- the same in closed form: `C(w,k)·S(n,k)·k!/wⁿ` with `w = 2^L` -/
theorem bsTree_half_closed (L n k : ℕ) :
    prob (bsDetect L (1 / 2 : K) n).toDist k
      = (((2 ^ L).choose k * Nat.stirlingSecond n k * k.factorial : ℕ) : K) / ((2 ^ L : ℕ) : K) ^ n := by
  rw [bsTree_half_eq_wires, condProb_closed]

/-- the two PPNR models agree: the balanced tree of depth `L` returns, entry by entry, what the
interleaved detector `Detector(2^L)` (no `max_detections`) returns -/
theorem bsTree_half_eq_detector (L : ℕ) {d : Det} (hd : mkDetector (some (2 ^ L)) none = .ok d)
    {minP : K} (hmin : minP ≤ 0) (n k : ℕ) :
    prob (bsDetect L (1 / 2 : K) n).toDist k = prob (d.detect minP n).toDist k := by
  rw [detect_fold hd (by simp) hmin n k, bsTree_half_eq_wires, condProb_eq_closed]
  exact (readLaw_full (2 ^ L) n k).symm

end tree

/-! ## `get_detection_type` -/
section dtype
variable {K : Type} [Field K] [LinearOrder K]

/-- a non-empty list whose entries all have type `t` has global type `t`; the empty list is PNR -/
theorem detectionType_uniform (t : DType) (ds : List (AnyDet K)) (hne : ds ≠ [])
    (h : ∀ d ∈ ds, d.type = t) : detectionType ds = t := by
  cases ds with
  | nil => exact absurd rfl hne
  | cons d rest =>
    have hd : d.type = t := h d (by simp)
    simp only [detectionType, List.isEmpty_cons, Bool.false_eq_true, if_false, detTypeLoop, hd]
    exact detTypeLoop_uniform t rest fun x hx => h x (by simp [hx])

/-- two entries of different types make the list `Mixed` -/
theorem detectionType_mixed (ds : List (AnyDet K)) (d₁ d₂ : AnyDet K) (h₁ : d₁ ∈ ds) (h₂ : d₂ ∈ ds)
    (hne : d₁.type ≠ d₂.type) : detectionType ds = .Mixed := by
  cases ds with
  | nil => simp at h₁
  | cons d rest =>
    simp only [detectionType, List.isEmpty_cons, Bool.false_eq_true, if_false, detTypeLoop]
    apply detTypeLoop_mixed
    simp only [List.mem_cons] at h₁ h₂
    by_cases e1 : d₁.type = d.type
    · rcases h₂ with rfl | h₂
      · exact absurd e1 hne
      · exact ⟨d₂, h₂, fun e => hne (e1.trans e.symm)⟩
    · rcases h₁ with rfl | h₁
      · exact absurd rfl e1
      · exact ⟨d₁, h₁, e1⟩

end dtype

/-! ## `simulate_detectors` -/
section sim
variable {K : Type} [Field K] [LinearOrder K] [IsStrictOrderedRing K]

/-- every per-mode kernel (unset / PNR / threshold / interleaved / beam-splitter tree) maps a photon
count to a probability distribution -/
theorem kernel_is_distribution {minP : K} (hmin : minP ≤ 0) (d : AnyDet K) (hd : d.WF) (n : ℕ) :
    mass (d.kernel minP n) = 1 ∧ Nonneg (d.kernel minP n) :=
  kernel_mass_one hmin d hd n

/-- the all-PNR branch (no detector, `None`s and `Detector.pnr()`s only) and the empty
distribution: the input is returned untouched with performance 1 — the photon filter is NOT applied
on this branch (as coded) -/
theorem simulate_pnr_identity (minP : K) (dist : Dist (List ℕ) K) (ds : List (AnyDet K))
    (minPhotons : Option ℕ) (h : dist.isEmpty ∨ detectionType ds = .PNR) :
    simulate minP dist ds minPhotons = (dist, 1) := by
  simp only [simulate, simulateRaw, if_pos h]

/-- **simulate_detectors_mass.** For every list of constructible detectors, every non-negative
input distribution over states of the right length and every photon filter, in whichever of the
three branches:
* nothing is lost in the bookkeeping: retained mass + (1 − phys_perf) = input mass — so for a
  normalised input `phys_perf` IS the mass retained under the photon filter;
* `normalize()` does not touch the performance;
* unless everything was filtered out, the returned distribution has mass one. -/
theorem simulate_detectors_mass {minP : K} (hmin : minP ≤ 0) (ds : List (AnyDet K))
    (hwf : ∀ d ∈ ds, d.WF) (dist : Dist (List ℕ) K) (hnn : Nonneg dist)
    (hlen : ∀ e ∈ dist, e.1.length = ds.length) (minPhotons : Option ℕ) :
    mass (simulateRaw minP dist ds minPhotons).1 + (1 - (simulateRaw minP dist ds minPhotons).2)
        = mass dist ∧
      (simulate minP dist ds minPhotons).2 = (simulateRaw minP dist ds minPhotons).2 ∧
      (mass dist = 1 →
        (simulate minP dist ds minPhotons).2 = mass (simulateRaw minP dist ds minPhotons).1) ∧
      (¬ (dist.isEmpty ∨ detectionType ds = .PNR) →
        mass (simulateRaw minP dist ds minPhotons).1 ≠ 0 →
        mass (simulate minP dist ds minPhotons).1 = 1) := by
  have hbal : bal (simulateRaw minP dist ds minPhotons) = mass dist - 1 := by
    unfold simulateRaw
    simp only []
    split
    · simp [bal]
    · next h1 =>
      split
      · exact simThreshold_bal minPhotons dist
      · have hne : ds ≠ [] := by
          intro h; subst h; exact h1 (Or.inr rfl)
        exact simGeneral_bal hmin minPhotons ds hwf hne dist hnn hlen
  have hperf : (simulate minP dist ds minPhotons).2 = (simulateRaw minP dist ds minPhotons).2 := by
    unfold simulate; simp only []; split <;> rfl
  unfold bal at hbal
  refine ⟨by linear_combination hbal, hperf, ?_, ?_⟩
  · intro h1
    rw [hperf]
    linear_combination -hbal - h1
  · intro hbr hm
    unfold simulate
    simp only [hbr, if_false]
    exact mass_normalize _ hm


/-- `kprod (kernels minP ds s) t` (Lemmas) is the product over the modes of the entry the mode's
detector result has at the reading `t i`, given `s i` photons (and 0 when the lengths differ) -/
theorem kprod_kernels_cons (minP : K) (d : AnyDet K) (ds : List (AnyDet K)) (n : ℕ) (s : List ℕ)
    (k : ℕ) (t : List ℕ) :
    kprod (kernels minP (d :: ds) (n :: s)) (k :: t)
      = prob (d.detect minP n).toDist k * kprod (kernels minP ds s) t := by
  have hk : kernels minP (d :: ds) (n :: s) = d.kernel minP n :: kernels minP ds s := rfl
  rw [hk, kprod, ← prob_eq_wt _ (kernel_nodup minP d n)]
  rfl

theorem kprod_kernels_nil (minP : K) :
    kprod (kernels minP [] []) [] = 1 ∧
      (∀ k t, kprod (kernels minP [] []) (k :: t) = 0) ∧
      (∀ (d : AnyDet K) ds n s, kprod (kernels minP (d :: ds) (n :: s)) [] = 0) :=
  ⟨rfl, fun _ _ => rfl, fun _ _ _ _ => rfl⟩

/-- **each mode is transformed independently by its detector's kernel.** Outside the all-PNR
branch (threshold branch and general branch alike), for every list of constructible detectors,
every non-negative input distribution over states of the right length, every photon filter and
every output state `t`: the un-normalised result holds at `t`
  `∑_{(s,p) ∈ dist} p · ∏_i kernel_i(s_i)(t_i)`   if `t` passes the photon filter, and nothing otherwise. -/
theorem simulate_detectors_pointwise {minP : K} (hmin : minP ≤ 0) (ds : List (AnyDet K))
    (hwf : ∀ d ∈ ds, d.WF) (dist : Dist (List ℕ) K) (hnn : Nonneg dist)
    (hlen : ∀ e ∈ dist, e.1.length = ds.length) (minPhotons : Option ℕ)
    (hbr : ¬ (dist.isEmpty ∨ detectionType ds = .PNR)) (t : List ℕ) :
    prob (simulateRaw minP dist ds minPhotons).1 t
      = if belowFilter minPhotons t then 0
        else (dist.map fun e => e.2 * kprod (kernels minP ds e.1) t).sum := by
  simp only [simulateRaw, if_neg hbr]
  split
  · next hthr =>
    rw [prob_eq_wt _ (simThreshold_nodup minPhotons dist), simThreshold_wt]
    have hall := detectionType_threshold_all ds hthr
    congr 2
    apply List.map_congr_left
    intro e he
    rw [kprod_threshold minP ds hall e.1 (hlen e he) t]
  · have hne : ds ≠ [] := by
      intro h; subst h; exact hbr (Or.inr rfl)
    rw [prob_eq_wt _ (simGeneral_nodup minP minPhotons ds dist),
      simGeneral_wt hmin minPhotons ds hwf hne dist hnn hlen t]

/-- the returned distribution is the un-normalised one divided by its (non-zero) mass -/
theorem simulate_detectors_normalised (minP : K) (ds : List (AnyDet K)) (dist : Dist (List ℕ) K)
    (minPhotons : Option ℕ) (hbr : ¬ (dist.isEmpty ∨ detectionType ds = .PNR))
    (hm : mass (simulateRaw minP dist ds minPhotons).1 ≠ 0) (t : List ℕ) :
    prob (simulate minP dist ds minPhotons).1 t
      = prob (simulateRaw minP dist ds minPhotons).1 t / mass (simulateRaw minP dist ds minPhotons).1 := by
  have hnd : (keys (simulateRaw minP dist ds minPhotons).1).Nodup := by
    simp only [simulateRaw, if_neg hbr]
    split
    · exact simThreshold_nodup minPhotons dist
    · exact simGeneral_nodup minP minPhotons ds dist
  simp only [simulate, if_neg hbr]
  rw [prob_eq_wt _ (by rw [keys_normalize]; exact hnd), wt_normalize, if_neg hm, prob_eq_wt _ hnd]


/-- **exact law at ANY `min_p`** (in particular the shipped `1e-16`). Outside the all-PNR branch, for
every list of constructible detectors, every input distribution (no sign condition) over states of the
right length, every photon filter and every output state `t` passing the filter, the un-normalised
result holds at `t`
* all-threshold branch: `∑_{(s,p)} p · ∏_i kernel_i(s_i)(t_i)` (that branch never calls `add`);
* general branch: ONE contribution `p · ∏_i kernel_i(s_i)(t_i)` per input state `(s,p)`, each kept
  if it exceeds `min_p` and dropped otherwise (`keep`),
where the kernels are the detectors' results at the same `min_p`; their entries are in turn the
`min_p = 0` entries, kept or dropped (`kernel_entry_minp` below). -/
theorem simulate_detectors_pointwise_minp (minP : K) (ds : List (AnyDet K))
    (hwf : ∀ d ∈ ds, d.WF) (dist : Dist (List ℕ) K)
    (hlen : ∀ e ∈ dist, e.1.length = ds.length) (minPhotons : Option ℕ)
    (hbr : ¬ (dist.isEmpty ∨ detectionType ds = .PNR)) (t : List ℕ) :
    prob (simulateRaw minP dist ds minPhotons).1 t
      = if belowFilter minPhotons t then 0
        else if detectionType ds = .Threshold then
          (dist.map fun e => e.2 * kprod (kernels minP ds e.1) t).sum
        else (dist.map fun e => keep minP (e.2 * kprod (kernels minP ds e.1) t)).sum := by
  simp only [simulateRaw, if_neg hbr]
  split
  · next hthr =>
    rw [prob_eq_wt _ (simThreshold_nodup minPhotons dist), simThreshold_wt]
    have hall := detectionType_threshold_all ds hthr
    congr 2
    apply List.map_congr_left
    intro e he
    rw [kprod_threshold minP ds hall e.1 (hlen e he) t]
  · have hne : ds ≠ [] := by
      intro h; subst h; exact hbr (Or.inr rfl)
    rw [prob_eq_wt _ (simGeneral_nodup minP minPhotons ds dist),
      simGeneral_wt_minp minP minPhotons ds hwf hne dist hlen t]

/-- every entry of a mode's detector result at `min_p` is the entry of the `min_p = 0` law (the
folded click law of `detect_fold`, the tree law, or a point mass), untouched, or passed through
`add` (kept if it exceeds `min_p`, dropped otherwise), or — beam-splitter tree hit by `≥ 2` photons — the sum
over the leaf states with `k` clicks of the backend's leaf probabilities, each kept iff it exceeds `min_p`
(`SLOSBackend.prob_distribution()` builds its result with `add`) -/
theorem kernel_entry_minp (minP : K) (d : AnyDet K) (hd : d.WF) (n k : ℕ) :
    prob (d.kernel minP n) k = prob (d.kernel 0 n) k ∨
      prob (d.kernel minP n) k = keep minP (prob (d.kernel 0 n) k) ∨
      ∃ L r, d = .bs L r ∧ 2 ≤ n ∧ prob (d.kernel minP n) k
        = ((treeOcc r L n).map fun e => if clicks e.1 = k then keep minP e.2 else 0).sum := by
  rw [prob_eq_wt _ (kernel_nodup minP d n), prob_eq_wt _ (kernel_nodup 0 d n)]
  exact kernel_wt_minp minP d hd n k

/-- **deviation bound for `min_p ≥ 0`: at most `min_p` per contribution.** Outside the all-PNR
branch, for every list of constructible detectors, every non-negative input distribution over
states of the right length, every photon filter and every output state `t`: the un-normalised result
at `t` is never above the exact (`min_p = 0`) law `E(t)` of `simulate_detectors_pointwise`, and below
it by at most `min_p·(∑_{(s,p)} p·kcount(s) + |dist|)` — per input state `(s,p)`: the `kcount(s)` `add` calls behind
its kernels (`Detector.detect`: at most the photons of the mode; beam-splitter tree: one per leaf state in the
backend) may each have lost `≤ min_p` (weighted by `p`) and one accumulation may have lost `≤ min_p`.
(All-threshold branch: no deviation at all.) -/
theorem simulate_detectors_minp_bound {minP : K} (h0 : 0 ≤ minP) (ds : List (AnyDet K))
    (hwf : ∀ d ∈ ds, d.WF) (dist : Dist (List ℕ) K) (hnn : Nonneg dist)
    (hlen : ∀ e ∈ dist, e.1.length = ds.length) (minPhotons : Option ℕ)
    (hbr : ¬ (dist.isEmpty ∨ detectionType ds = .PNR)) (t : List ℕ) :
    prob (simulateRaw minP dist ds minPhotons).1 t
        ≤ (if belowFilter minPhotons t then 0
           else (dist.map fun e => e.2 * kprod (kernels 0 ds e.1) t).sum) ∧
      (if belowFilter minPhotons t then 0
        else (dist.map fun e => e.2 * kprod (kernels 0 ds e.1) t).sum)
          - minP * ((dist.map fun e => e.2 * (kcount ds e.1 : K)).sum + (dist.length : K))
        ≤ prob (simulateRaw minP dist ds minPhotons).1 t := by
  have hslack : 0 ≤ minP * ((dist.map fun e => e.2 * (kcount ds e.1 : K)).sum + (dist.length : K)) := by
    apply mul_nonneg h0 (add_nonneg _ (Nat.cast_nonneg _))
    exact sum_map_nonneg _ _ fun e he => mul_nonneg (hnn e he) (Nat.cast_nonneg _)
  simp only [simulateRaw, if_neg hbr]
  split
  · next hthr =>
    rw [prob_eq_wt _ (simThreshold_nodup minPhotons dist), simThreshold_wt]
    have hall := detectionType_threshold_all ds hthr
    have e : (dist.map fun e => e.2 * kprod (kernels (0 : K) ds e.1) t).sum
        = (dist.map fun e => e.2 * (if e.1.map (min · 1) = t then 1 else 0)).sum := by
      congr 1
      apply List.map_congr_left
      intro e he
      rw [kprod_threshold 0 ds hall e.1 (hlen e he) t]
    rw [e]
    exact ⟨le_refl _, by linarith⟩
  · have hne : ds ≠ [] := by
      intro h; subst h; exact hbr (Or.inr rfl)
    rw [prob_eq_wt _ (simGeneral_nodup minP minPhotons ds dist)]
    exact simGeneral_wt_bound h0 minPhotons ds hwf hne dist hnn hlen t

/-- **mass book-keeping for `min_p ≥ 0`: nothing is gained, and at most `min_p` per `add` call is
lost.** In whichever branch, for every list of constructible detectors, every non-negative input
distribution over states of the right length and every photon filter:
  `mass(dist) − min_p·addCalls ≤ retained mass + (1 − phys_perf) ≤ mass(dist)`,
where `addCalls = ∑_{(s,p) ∈ dist} (p·kcount(s) + number of output states recorded for s)`
counts the `add` calls (those behind the kernels — `Detector.detect`: at most the photons of the mode; tree: one per
leaf state in the backend — enter weighted by `p`).  For `min_p = 0` this
is the identity of `simulate_detectors_mass`. -/
theorem simulate_detectors_mass_minp {minP : K} (h0 : 0 ≤ minP) (ds : List (AnyDet K))
    (hwf : ∀ d ∈ ds, d.WF) (dist : Dist (List ℕ) K) (hnn : Nonneg dist)
    (hlen : ∀ e ∈ dist, e.1.length = ds.length) (minPhotons : Option ℕ) :
    mass (simulateRaw minP dist ds minPhotons).1 + (1 - (simulateRaw minP dist ds minPhotons).2)
        ≤ mass dist ∧
      mass dist - minP * addCalls minP ds dist
        ≤ mass (simulateRaw minP dist ds minPhotons).1
          + (1 - (simulateRaw minP dist ds minPhotons).2) := by
  have hslack : 0 ≤ minP * addCalls minP ds dist :=
    mul_nonneg h0 (addCalls_nonneg minP ds dist hnn)
  have hbal : mass dist - 1 - minP * addCalls minP ds dist
        ≤ bal (simulateRaw minP dist ds minPhotons) ∧
      bal (simulateRaw minP dist ds minPhotons) ≤ mass dist - 1 := by
    unfold simulateRaw
    simp only []
    split
    · simp only [bal]; constructor <;> linarith
    · next h1 =>
      split
      · rw [simThreshold_bal minPhotons dist]; constructor <;> linarith
      · have hne : ds ≠ [] := by
          intro h; subst h; exact h1 (Or.inr rfl)
        exact simGeneral_bal_bounds h0 minPhotons ds hwf hne dist hnn hlen
  unfold bal at hbal
  constructor <;> linarith [hbal.1, hbal.2]

end sim


/-! ## `check_heralds_detectors` -/
section heralds
variable {K : Type}

/-- **when `check_heralds_detectors` returns `False`.** Exactly when both arguments are non-empty
and, reading the heralds in dictionary order, some herald `(mode, value)` *exceeds* its detector —
`detectors[mode]` is set, has a finite `max_detections`, and `max_detections < value`
(`HeraldExceeds`) — while every herald before it addresses an existing mode (otherwise the
`IndexError` comes first). -/
theorem check_heralds_false_iff (heralds : List (ℕ × ℕ)) (ds : List (AnyDet K)) :
    checkHeralds heralds ds = .ok false ↔
      ds ≠ [] ∧ ∃ pre x post, heralds = pre ++ x :: post ∧
        (∀ y ∈ pre, HeraldInRange ds y) ∧ HeraldExceeds ds x := by
  by_cases h1 : heralds = []
  · subst h1
    rw [checkHeralds_trivial _ _ (Or.inl rfl)]
    constructor
    · intro h; cases h
    · rintro ⟨_, pre, x, post, e, _⟩; cases pre <;> simp at e
  by_cases h2 : ds = []
  · subst h2
    rw [checkHeralds_trivial _ _ (Or.inr rfl)]
    constructor
    · intro h; cases h
    · rintro ⟨h, _⟩; exact absurd rfl h
  rw [checkHeralds_eq_go _ _ h1 h2, go_false_iff]
  exact ⟨fun h => ⟨h2, h⟩, fun h => h.2⟩

/-- **when it returns `True`**: an argument is empty/`None`, or every herald addresses an existing
mode and none exceeds its detector -/
theorem check_heralds_true_iff (heralds : List (ℕ × ℕ)) (ds : List (AnyDet K)) :
    checkHeralds heralds ds = .ok true ↔
      heralds = [] ∨ ds = [] ∨ ∀ x ∈ heralds, HeraldInRange ds x ∧ ¬ HeraldExceeds ds x := by
  by_cases h1 : heralds = []
  · exact ⟨fun _ => Or.inl h1, fun _ => checkHeralds_trivial _ _ (Or.inl h1)⟩
  by_cases h2 : ds = []
  · exact ⟨fun _ => Or.inr (Or.inl h2), fun _ => checkHeralds_trivial _ _ (Or.inr h2)⟩
  rw [checkHeralds_eq_go _ _ h1 h2, go_true_iff]
  simp [h1, h2]

/-- **when it raises**: only `IndexError`, exactly when both arguments are non-empty and the first
herald that does not pass addresses a mode outside the detector list -/
theorem check_heralds_error_iff (heralds : List (ℕ × ℕ)) (ds : List (AnyDet K)) (msg : String) :
    checkHeralds heralds ds = .error msg ↔
      msg = "IndexError" ∧ ds ≠ [] ∧ ∃ pre x post, heralds = pre ++ x :: post ∧
        (∀ y ∈ pre, HeraldInRange ds y ∧ ¬ HeraldExceeds ds y) ∧ ¬ HeraldInRange ds x := by
  by_cases h1 : heralds = []
  · subst h1
    rw [checkHeralds_trivial _ _ (Or.inl rfl)]
    constructor
    · intro h; cases h
    · rintro ⟨_, _, pre, x, post, e, _⟩; cases pre <;> simp at e
  by_cases h2 : ds = []
  · subst h2
    rw [checkHeralds_trivial _ _ (Or.inr rfl)]
    constructor
    · intro h; cases h
    · rintro ⟨_, h, _⟩; exact absurd rfl h
  rw [checkHeralds_eq_go _ _ h1 h2, go_error_iff]
  exact ⟨fun h => ⟨h.1, h2, h.2⟩, fun h => ⟨h.1, h.2.2⟩⟩

/-- the usual situation (`Processor` heralds always address modes of the circuit): with every herald
in range and a non-empty detector list the function never raises and returns `False` exactly when
SOME herald exceeds its detector -/
theorem check_heralds_in_range (heralds : List (ℕ × ℕ)) (ds : List (AnyDet K)) (hds : ds ≠ [])
    (hr : ∀ x ∈ heralds, HeraldInRange ds x) :
    (checkHeralds heralds ds = .ok false ↔ ∃ x ∈ heralds, HeraldExceeds ds x) ∧
      (checkHeralds heralds ds = .ok true ↔ ∀ x ∈ heralds, ¬ HeraldExceeds ds x) := by
  constructor
  · rw [check_heralds_false_iff]
    constructor
    · rintro ⟨_, pre, x, post, rfl, _, hx⟩
      exact ⟨x, by simp, hx⟩
    · rintro ⟨x, hx, he⟩
      obtain ⟨pre, post, rfl⟩ := List.append_of_mem hx
      exact ⟨hds, pre, x, post, rfl, fun y hy => hr y (by simp [hy]), he⟩
  · rw [check_heralds_true_iff]
    constructor
    · rintro (h | h | h)
      · subst h; intro x hx; simp at hx
      · exact absurd h hds
      · exact fun x hx => (h x hx).2
    · intro h
      exact Or.inr (Or.inr fun x hx => ⟨hr x hx, h x hx⟩)

/-- what "exceeds" means per kind of detector: an unset detector and `Detector.pnr()` are never
exceeded; `Detector(w, max)` is exceeded by a herald value above `max` (`= w` when no
`max_detections` was given); `BSLayeredPPNR(L, r)` by a value above `2^L` -/
theorem herald_exceeds_iff (ds : List (AnyDet K)) (h : ℕ × ℕ) :
    HeraldExceeds ds h ↔
      (∃ w mx, ds[h.1]? = some (.det (.wired w mx)) ∧ mx < h.2) ∨
      (∃ L r, ds[h.1]? = some (.bs L r) ∧ 2 ^ L < h.2) :=
  heraldExceeds_iff ds h

end heralds


/-! ## `simulate_detectors_sample` (one output sample through the detectors) -/
section samplePath
variable {K : Type} [Field K] [LinearOrder K] [IsStrictOrderedRing K]

/-- applying a detector list to a sample never raises, whatever the list and the sample -/
def SampleTotal (K : Type) [Field K] [LinearOrder K] (fixed : Bool) : Prop :=
  ∀ (minP : K) (ds : List (AnyDet K)) (s : List ℕ), ∃ r, sampleLaw fixed minP ds s = .ok r

/-- with `fixes/C08-sample-none-detector.diff` the sampling path is total -/
theorem sample_total : SampleTotal K true := by
  intro minP ds s
  unfold sampleLaw
  simp only []
  split
  · exact ⟨_, rfl⟩
  · split
    · exact ⟨_, rfl⟩
    · exact sampleLoop_fixed_ok minP s ds []

/-- on the pinned tree a mixed list with an unset detector (`[None, Detector.threshold()]`, as
`Processor.add(1, Detector.threshold())` produces) makes `simulate_detectors_sample` dereference
`None`: `AttributeError` -/
theorem sample_total_fails_on_current_code : ¬ SampleTotal ℚ false := by
  intro h
  obtain ⟨r, hr⟩ := h 0 [.none, .det (.wired 1 1)] [1, 2]
  simp [sampleLaw, detectionType, detTypeLoop, AnyDet.type, Det.type, sampleLoop] at hr

/-- the witness spelled out -/
theorem current_code_sample_raises :
    sampleLaw false (0 : ℚ) [.none, .det (.wired 1 1)] [1, 2] = .error "AttributeError" := by
  simp [sampleLaw, detectionType, detTypeLoop, AnyDet.type, Det.type, sampleLoop]

/-- **the sample is drawn from the mode-wise kernel product** — the same law
`simulate_detectors` applies to the point distribution at `s` (`simulate_detectors_pointwise`),
in all three branches (all-PNR: `s` itself; all-threshold: the thresholded `s`; otherwise one draw
from the pairwise `tensor_product` of the per-mode results).  `wt r t` is the total weight the
distribution `r` records for `t`. -/
theorem sample_law_is_kernel_product {minP : K} (hmin : minP ≤ 0) (ds : List (AnyDet K))
    (hwf : ∀ d ∈ ds, d.WF) (s : List ℕ) (hlen : s.length = ds.length) :
    ∃ r, sampleLaw true minP ds s = .ok r ∧ mass r = 1 ∧
      ∀ t, wt r t = kprod (kernels minP ds s) t := by
  unfold sampleLaw
  simp only []
  split
  · next hp =>
    refine ⟨_, rfl, by simp, fun t => ?_⟩
    rw [kprod_pnr minP ds (detectionType_pnr_all ds hp) s hlen t]
    simp [wt]
  · next hp =>
    split
    · next ht =>
      refine ⟨_, rfl, by simp, fun t => ?_⟩
      rw [kprod_threshold minP ds (detectionType_threshold_all ds ht) s hlen t]
      simp [wt]
    · have hne : ds ≠ [] := by
        intro h; subst h; exact hp rfl
      obtain ⟨r, h1, _, h3, h4⟩ := sampleLoop_spec hmin s ds hwf [] [] (fun _ => rfl)
        (fun h => absurd rfl h) (by simpa using kernels_ne_nil minP hne hlen)
      exact ⟨r, h1, h3, by simpa using h4⟩

end samplePath


/-! ## heralds read through detectors (`Simulator.probs_svd`, i.e. `Processor.probs()` with detectors) -/
section glue
variable {K : Type} [Field K] [LinearOrder K] [IsStrictOrderedRing K]

/-- **the heralds mask is transparent as coded.** `probs_svd` lets the backend drop the theoretical states
that do not have exactly the heralded photon counts only when there are heralds and the global detection type
is PNR; for every theoretical distribution, detector list, photon filter and herald set the result is the one
obtained WITHOUT the mask: detectors first, heralds read on the readings afterwards. -/
theorem heralds_mask_transparent (minP : K) (base : Dist (List ℕ) K) (ds : List (AnyDet K))
    (minPhotons : Option ℕ) (h : List (ℕ × ℕ)) :
    probsTailCoded minP base ds minPhotons h = probsTail false minP base ds minPhotons h := by
  unfold probsTailCoded
  by_cases hm : useMask h ds = true
  · rw [hm]
    have hp : detectionType ds = .PNR := by
      unfold useMask at hm
      simp only [Bool.and_eq_true, decide_eq_true_eq] at hm
      exact hm.2
    unfold probsTail
    simp only [if_true, Bool.false_eq_true, if_false]
    rw [simulate_pnr_identity minP _ ds minPhotons (Or.inr hp),
      simulate_pnr_identity minP base ds minPhotons (Or.inr hp)]
    simp only [selectHeralds_idem]
  · simp only [Bool.not_eq_true] at hm
    rw [hm]

/-- **heralds are read on the detector readings.** At every state `t`, the herald-selected result of
`probs_svd` holds the entry that `simulate_detectors` (applied to the complete theoretical distribution) has at
`t` when the readings `t` satisfy the heralds, and nothing otherwise.  With `simulate_detectors_pointwise` /
`simulate_detectors_normalised` this is: every theoretical state `s` — whatever its photon count in the heralded
modes — contributes `p · ∏ᵢ kernelᵢ(sᵢ)(tᵢ)`. -/
theorem heralds_read_on_readings (minP : K) (base : Dist (List ℕ) K) (ds : List (AnyDet K))
    (minPhotons : Option ℕ) (h : List (ℕ × ℕ)) (t : List ℕ) :
    prob (probsTailCoded minP base ds minPhotons h).1 t
      = if heraldsOk h t then prob (simulate minP base ds minPhotons).1 t else 0 := by
  rw [heralds_mask_transparent]
  exact prob_selectHeralds h _ t

/-- **a pseudo-PNR reading below the maximum does not identify the photon count.** For every constructible
`Detector(w, maxd)` and every reading `1 ≤ v < max_detections`, `v + 1` photons give the reading `v` with positive
probability (`C(w,v)·C(v+1,2)·v!/w^(v+1)`): selecting theoretical states with exactly `v` photons in a mode read by
such a detector loses probability. -/
theorem reading_below_max_not_exact {w : ℕ} {maxd : Option ℕ} {d : Det}
    (hd : mkDetector (some w) maxd = .ok d) {minP : K} (hmin : minP ≤ 0) {v : ℕ} (hv : 1 ≤ v)
    (hlt : v < maxd.getD w) :
    0 < prob (d.detect minP (v + 1)).toDist v := by
  obtain ⟨hw, _, hle⟩ := mkDetector_some hd
  have hmax : maxd ≠ some 0 := by
    intro h0; rw [h0] at hlt; simp at hlt
  rw [detect_fold hd hmax hmin]
  unfold readLaw
  rw [if_pos hlt]
  unfold closed
  apply div_pos
  · have : 0 < surjCount w v (v + 1) := by
      unfold surjCount
      rw [Nat.stirlingSecond_succ_self_left]
      exact Nat.mul_pos (Nat.mul_pos (Nat.choose_pos (by omega)) (Nat.choose_pos (by omega)))
        (Nat.factorial_pos v)
    exact_mod_cast this
  · exact pow_pos (by exact_mod_cast hw) _

end glue

/-- **masking before an imperfect detector is unsound** (why `init_use_mask` must require the PNR detection
type, whatever the expected reading): two photons on `Detector.ppnr(2)`, herald expecting 1 on that mode — the
mask drops the state and nothing is left, whereas the reading 1 occurs with probability 1/2. -/
theorem mask_before_detectors_unsound :
    (probsTail true (0 : ℚ) [([2], 1)] [.det (.wired 2 2)] none [(0, 1)]).1 = [] ∧
    (probsTail false (0 : ℚ) [([2], 1)] [.det (.wired 2 2)] none [(0, 1)]).1 = [([1], 1 / 2)] := by
  have h : detectWired 2 2 (0 : ℚ) 2 = [(1, 1 / 2), (2, 1 / 2)] := by
    norm_num [detectWired, detectLoop, List.range', addP, bump, condProb]
  have hd : (Det.wired 2 2).detect (0 : ℚ) 2 = .dist [(1, 1 / 2), (2, 1 / 2)] := by
    rw [detect_wired_big 2 2 0 (by omega) (by omega), h]
  have hty : detectionType ([.det (.wired 2 2)] : List (AnyDet ℚ)) = .PPNR := by
    simp [detectionType, detTypeLoop, AnyDet.type, Det.type]
  constructor
  · simp [probsTail, selectHeralds, heraldsOk, simulate, simulateRaw, hty]
  · simp [probsTail, selectHeralds, heraldsOk, simulate, simulateRaw, hty, simGeneral, simState, stateDist,
      listTensor, AnyDet.kernel, AnyDet.detect, hd, DetOut.toDist, belowFilter, addP, bump, normalize, mass]
    norm_num

/-! ## the beam-splitter tree from the Fock amplitude specification
(`BSLayeredPPNR.create_circuit()` + the amplitude `perm(U[t|s])/√(∏s!∏t!)`; replaces the former ASSUMPTION that
the backend returns the multinomial leaf law) -/
section fockTree

open PM.Fock

/-- **amplitude from one occupied input mode.** For every `m × m` matrix over every commutative ring, every
photon number `n` and every output state `t` with `n` photons, the Fock amplitude specification gives
`perm(U[t | n,0,…,0]) = n! · ∏_k U[k,0]^{t_k}` (permanent of a matrix with `n` identical columns). -/
theorem single_mode_amplitude {R : Type} [CommRing R] {m : ℕ} (U : Matrix (Fin m) (Fin m) R) (n : ℕ)
    (t : List ℕ) (ht : t.sum = n) :
    pamp U (single m n) t = (n.factorial : R) * powProd (fun k => entry U k 0) 0 t :=
  pamp_single_mode U n t ht

/-- **hence the probabilities are multinomial** in the squared moduli of column 0:
`|perm|²/(n! ∏ t_k!) = n!/∏ t_k! · ∏_k (|U[k,0]|²)^{t_k}` (over `GQ = ℚ[i]`, the ring the driver runs) -/
theorem single_mode_prob_multinomial {m : ℕ} (U : Matrix (Fin m) (Fin m) GQ) (n : ℕ) (t : List ℕ)
    (ht : t.sum = n) :
    Fock.prob U (single m n) t
      = (n.factorial : ℚ) / (prodFact t : ℚ) * powProd (fun k => GQ.normSq (entry U k 0)) 0 t :=
  prob_single_mode U n t ht

/-- the same in any commutative star ring (ℂ in particular), without division:
`|perm(U[t | n,0,…,0])|² = (n!)² ∏_k (|U[k,0]|²)^{t_k}` -/
theorem single_mode_nsq {R : Type} [CommRing R] [StarRing R] {m : ℕ} (U : Matrix (Fin m) (Fin m) R)
    (n : ℕ) (t : List ℕ) (ht : t.sum = n) :
    nsq (pamp U (single m n) t)
      = ((n.factorial : R) * n.factorial) * powProd (fun k => nsq (entry U k 0)) 0 t :=
  nsq_pamp_single_mode U n t ht

/-- **first column of `create_circuit().compute_unitary()`.** The circuit is modelled as the list of placed
components `create_circuit` adds (`treeComps`: per layer the even/odd `PERM`, skipped when trivial, then a
`BS` on every even mode) multiplied as `_compute_circuit_unitary` does. For every depth `L`, every pair of
beam-splitter amplitudes `c = cos θ/2`, `s = i sin θ/2` in every commutative ring and every leaf `k < 2^L`:
the entry `[k, 0]` is `c^zeros(k) · s^ones(k)` (the bits of `k` over `L` positions, first layer = most
significant bit). -/
theorem tree_circuit_first_column {R : Type} [CommRing R] (c s : R) (L : ℕ) (k : Fin (2 ^ L)) :
    treeU c s L k ⟨0, Nat.two_pow_pos L⟩ = c ^ (L - onesL L k.val) * s ^ onesL L k.val := by
  rw [treeU_col0, leafP_eq_pow]

/-- **the first-column moduli are the path weights `r^zeros (1-r)^ones`**, whenever `|c|² = r` and
`|s|² = 1 - r` (what `BS.r_to_theta` arranges: `cos²(θ/2) = r`) -/
theorem tree_circuit_path_weights {R : Type} [CommRing R] [StarRing R] (c s r : R) (hc : nsq c = r)
    (hs : nsq s = 1 - r) (L : ℕ) (k : Fin (2 ^ L)) :
    nsq (treeU c s L k ⟨0, Nat.two_pow_pos L⟩) = r ^ (L - onesL L k.val) * (1 - r) ^ onesL L k.val := by
  rw [treeU_col0, nsq_leafP, hc, hs, leafP_eq_pow]

/-- **the leaf law is a list without repeated states, multinomial in the path weights**: for every
reflectivity, depth, photon number and state `t`, the dictionary read of `treeOcc r L n` at `t` is
`n!/∏t_k! · ∏_k (r^zeros(k) (1-r)^ones(k))^{t_k}` if `t` has `2^L` modes and `n` photons, and `0` otherwise. -/
theorem leaf_law_closed {K : Type} [Field K] [LinearOrder K] [IsStrictOrderedRing K] (r : K) (L n : ℕ)
    (t : List ℕ) :
    (keys (treeOcc r L n)).Nodup ∧
    prob (treeOcc r L n) t
      = if t.length = 2 ^ L ∧ t.sum = n
        then (n.factorial : K) / (prodFact t : K) * powProd (leafP r (1 - r) L) 0 t else 0 := by
  refine ⟨treeOcc_nodup r L n, ?_⟩
  have h := treeOcc_prob r L n t
  have hp : (prodFact t : K) ≠ 0 := prodFact_ne_zero t
  rw [eq_div_of_mul_eq hp h]
  by_cases hc : t.length = 2 ^ L ∧ t.sum = n
  · rw [if_pos hc, if_pos hc]; ring
  · rw [if_neg hc, if_neg hc, zero_div]

/-- **the former assumption, proved from the Fock specification.** Let `c, s ∈ ℚ[i]` be beam-splitter
amplitudes with `|c|² = r`, `|s|² = 1 - r`, `U = create_circuit().compute_unitary()` (model `treeU`) of depth `L`.
For every photon number `n` and every state `t` of `2^L` modes with `n` photons, the probability the Fock
amplitude specification assigns to `t` for the input `|n,0,…,0>` IS the entry the model's leaf law
`treeOcc r L n` holds at `t`; and `treeOcc` holds nothing at any other state. -/
theorem bsTree_leaf_law_from_fock (c s : GQ) (r : ℚ) (hc : GQ.normSq c = r) (hs : GQ.normSq s = 1 - r)
    (L n : ℕ) (t : List ℕ) :
    (t.length = 2 ^ L ∧ t.sum = n →
      Fock.prob (treeU c s L) (single (2 ^ L) n) t = prob (treeOcc r L n) t) ∧
    (¬ (t.length = 2 ^ L ∧ t.sum = n) → prob (treeOcc r L n) t = 0) := by
  constructor
  · intro h
    rw [(leaf_law_closed r L n t).2, if_pos h, prob_single_mode _ n t h.2]
    congr 1
    apply powProd_congr
    intro k hk
    rw [entry_treeU c s L (0 + k) (by omega), GQ_normSq_leafP, hc, hs]
  · intro h
    rw [(leaf_law_closed r L n t).2, if_neg h]

/-- the same for EVERY reflectivity of an ordered field `K` (ℝ) realised in a commutative star ring `R` (ℂ)
through a ring homomorphism `ι`: with `|c|² = ι r`, `|s|² = ι (1 - r)`,
`|perm(U[t | n,0,…,0])|² = ι (n! · ∏t_k! · treeOcc r L n [t])` — i.e. `|perm|²/(n! ∏t_k!)` is the leaf law. -/
theorem bsTree_leaf_law_from_fock_general {K : Type} [Field K] [LinearOrder K] [IsStrictOrderedRing K]
    {R : Type} [CommRing R] [StarRing R] (ι : K →+* R) (c s : R) (r : K) (hc : nsq c = ι r)
    (hs : nsq s = ι (1 - r)) (L n : ℕ) (t : List ℕ) (ht : t.length = 2 ^ L ∧ t.sum = n) :
    nsq (pamp (treeU c s L) (single (2 ^ L) n) t)
      = ι ((n.factorial : K) * (prodFact t : K) * prob (treeOcc r L n) t) := by
  rw [nsq_pamp_single_mode _ n t ht.2, mul_assoc (n.factorial : K), mul_comm (prodFact t : K),
    treeOcc_prob r L n t, if_pos ht, map_mul, map_mul, map_natCast, map_powProd]
  rw [mul_assoc]
  congr 2
  apply powProd_congr
  intro k hk
  rw [entry_treeU c s L (0 + k) (by omega), nsq_leafP, hc, hs, map_leafP]

end fockTree

/-! ## the whole tail of `probs_svd` inside the model: `normalize()`, `simulate_detectors`,
`post_select_distribution` (heralds + PostSelect on the readings, removal of the heralded modes), `logical_perf` -/
section fullTail
variable {K : Type} [Field K] [LinearOrder K] [IsStrictOrderedRing K]

open PM.SimSpec (PS)

/-- **`post_select_distribution` is conditioning.** On every dictionary (no repeated key) of states of one length,
for every PostSelect expression, herald set and `keep_heralds`: the assignment `result[state] = prob` never
overwrites an entry, the result is the list of the accepted entries (heralds satisfied AND expression true, read on
the keys of the dictionary, i.e. on the detector READINGS) filed under their reported states, normalised; the
logical performance is `1 -` the mass of the rejected entries. -/
theorem post_select_is_conditioning (ps : PS) (h : List (ℕ × ℕ)) (keep : Bool) (d : Dist (List ℕ) K) (n : ℕ)
    (hnd : (keys d).Nodup) (hlen : KeysLen d n) :
    postSelect ps h keep d = (normalize (selected ps h keep d), 1 - mass (rejected ps h d)) :=
  postSelect_eq ps h keep d n hnd hlen

/-- two accepted readings of the same length are never merged by the removal of the heralded modes -/
theorem reported_state_injective (ps : PS) (h : List (ℕ × ℕ)) (keep : Bool) {t t' : List ℕ}
    (hl : t.length = t'.length) (ha : accepted ps h t = true) (ha' : accepted ps h t' = true)
    (he : reportState h keep t = reportState h keep t') : t = t' :=
  reportState_inj ps h keep hl ha ha' he

/-- **physical_perf · logical_perf · result = the conditioned specification law** (imperfect detectors).
For every list of constructible detectors whose global type is not PNR, every normalised non-negative
theoretical distribution `base` over states of the right length, photon filter, compatible herald set,
PostSelect expression and `keep_heralds`, `probs_svd` (model `probsSvd`, at `min_p ≤ 0`) returns `out` with
* `physical_perf` = the mass of the readings law that passes the photon filter,
* `logical_perf`  = the share of that retained mass whose READINGS satisfy the heralds and the expression,
* for every reading `t` that passes the filter and is accepted:
  `physical_perf · logical_perf · results[reported t] = ∑_{(s,p) ∈ base} p · ∏_i kernel_i(s_i)(t_i)`,
  the probability the property statement gives to reading `t`; every theoretical state `s` contributes, whatever
  its photon count in the heralded modes. -/
theorem probs_svd_conditioned_law {minP : K} (hmin : minP ≤ 0) (ds : List (AnyDet K))
    (hwf : ∀ d ∈ ds, d.WF) (base : Dist (List ℕ) K) (hnn : Nonneg base)
    (hlen : ∀ e ∈ base, e.1.length = ds.length) (hmass : mass base = 1) (minPhotons : Option ℕ)
    (h : List (ℕ × ℕ)) (ps : PS) (keep : Bool) (hchk : checkHeralds h ds = .ok true)
    (hty : detectionType ds ≠ .PNR) (hR : mass (simulateRaw minP base ds minPhotons).1 ≠ 0) :
    ∃ out, probsSvd minP base ds minPhotons h ps keep = .ok out ∧
      out.phys = mass (simulateRaw minP base ds minPhotons).1 ∧
      out.logical = mass ((simulate minP base ds minPhotons).1.filter fun e => accepted ps h e.1) ∧
      ∀ t : List ℕ, t.length = ds.length → accepted ps h t = true → belowFilter minPhotons t = false →
        out.logical ≠ 0 →
        out.phys * out.logical * prob out.results (reportState h keep t)
          = (base.map fun e => e.2 * kprod (kernels minP ds e.1) t).sum := by
  have hne : base.isEmpty = false := by
    cases base with
    | nil => simp at hmass
    | cons e l => rfl
  have hbr : ¬ (base.isEmpty ∨ detectionType ds = .PNR) := by
    rw [hne]; simpa using hty
  have hmask : useMask h ds = false := by
    unfold useMask; simp [hty]
  obtain ⟨_, _, hphys, hS1⟩ := simulate_detectors_mass hmin ds hwf base hnn hlen minPhotons
  have hS1 := hS1 hbr hR
  have hphys := hphys hmass
  have hnd : (keys (simulate minP base ds minPhotons).1).Nodup := by
    simp only [simulate, if_neg hbr]
    rw [keys_normalize]
    simp only [simulateRaw, if_neg hbr]
    split
    · exact simThreshold_nodup minPhotons base
    · exact simGeneral_nodup minP minPhotons ds base
  have hkl := simulate_keysLen minP base ds minPhotons hlen
  obtain ⟨hlog, hprob⟩ := postSelect_core ps h keep _ ds.length hnd hkl hS1
  refine ⟨⟨(postSelect ps h keep (simulate minP base ds minPhotons).1).1,
    1 * (simulate minP base ds minPhotons).2,
    mass base * (postSelect ps h keep (simulate minP base ds minPhotons).1).2⟩, ?_, ?_, ?_, ?_⟩
  · unfold probsSvd
    rw [hchk]
    simp only [hmask, Bool.false_eq_true, if_false, normalize_of_mass_one base hmass, hne]
  · simp only [one_mul]; exact hphys
  · simp only [hmass, one_mul]; exact hlog
  · intro t ht hacc hpass hA
    simp only [hmass, one_mul] at hA ⊢
    rw [hlog] at hA
    rw [hprob t ht hacc hA, hlog, hphys, simulate_detectors_normalised minP ds base minPhotons hbr hR t,
      simulate_detectors_pointwise hmin ds hwf base hnn hlen minPhotons hbr t, hpass]
    simp only [Bool.false_eq_true, if_false]
    field_simp

/-- **the same identity on the all-PNR path** (no detector / unset / `Detector.pnr()` only), where `probs_svd` lets
the backend apply the heralds as a mask: `raw` is what the backend returns (the herald-selected part of the
theoretical dictionary `base` when there are heralds, all of it otherwise), `_logical_perf` starts as its mass and the
photon filter is not applied by `simulate_detectors` (as coded). For every accepted state `t`:
`physical_perf · logical_perf · results[reported t] = base[t]`, with `physical_perf = 1` and
`logical_perf` = the accepted mass of `base`. -/
theorem probs_svd_pnr_conditioned_law (minP : K) (ds : List (AnyDet K)) (base : Dist (List ℕ) K) (n : ℕ)
    (hnd : (keys base).Nodup) (hlen : KeysLen base n) (minPhotons : Option ℕ)
    (h : List (ℕ × ℕ)) (ps : PS) (keep : Bool) (hchk : checkHeralds h ds = .ok true)
    (hty : detectionType ds = .PNR)
    (hM : mass (if useMask h ds then selectHeralds h base else base) ≠ 0) :
    ∃ out, probsSvd minP base ds minPhotons h ps keep = .ok out ∧
      out.phys = 1 ∧
      out.logical = mass ((if useMask h ds then selectHeralds h base else base).filter
        fun e => accepted ps h e.1) ∧
      ∀ t : List ℕ, t.length = n → accepted ps h t = true → out.logical ≠ 0 →
        out.phys * out.logical * prob out.results (reportState h keep t) = prob base t := by
  set raw := (if useMask h ds then selectHeralds h base else base) with hraw
  have hrnd : (keys raw).Nodup := by
    rw [hraw]; split
    · exact keys_filter_nodup _ base hnd
    · exact hnd
  have hrkl : KeysLen raw n := by
    rw [hraw]; split
    · exact hlen.filter _
    · exact hlen
  have hresnd : (keys (normalize raw)).Nodup := by rw [keys_normalize]; exact hrnd
  have hres1 : mass (normalize raw) = 1 := mass_normalize raw hM
  have hresne : (normalize raw).isEmpty = false := by
    cases hr : normalize raw with
    | nil => rw [hr] at hres1; simp at hres1
    | cons e l => rfl
  have hsim : simulate minP (normalize raw) ds minPhotons = (normalize raw, 1) :=
    simulate_pnr_identity minP _ ds minPhotons (Or.inr hty)
  obtain ⟨hlog, hprob⟩ := postSelect_core ps h keep (normalize raw) n hresnd hrkl.normalize hres1
  have hfilt : mass ((normalize raw).filter fun e => accepted ps h e.1)
      = mass (raw.filter fun e => accepted ps h e.1) / mass raw := by
    unfold normalize
    rw [if_neg hM]
    generalize mass raw = c
    induction raw with
    | nil => simp
    | cons e l ih =>
      simp only [List.map_cons]
      by_cases hp : accepted ps h e.1 = true
      · rw [List.filter_cons_of_pos (by simpa using hp), List.filter_cons_of_pos (by simpa using hp)]
        simp only [mass_cons, ih]; ring
      · rw [List.filter_cons_of_neg (by simpa using hp), List.filter_cons_of_neg (by simpa using hp)]
        exact ih
  refine ⟨⟨(postSelect ps h keep (normalize raw)).1, 1 * 1,
    mass raw * (postSelect ps h keep (normalize raw)).2⟩, ?_, ?_, ?_, ?_⟩
  · unfold probsSvd
    rw [hchk]
    simp only [← hraw, hresne, Bool.false_eq_true, if_false, hsim]
  · simp
  · simp only []
    rw [hlog, hfilt]; field_simp
  · intro t ht hacc hA
    simp only [] at hA ⊢
    have hA' : mass ((normalize raw).filter fun e => accepted ps h e.1) ≠ 0 := by
      intro h0; apply hA; rw [hlog, h0, mul_zero]
    rw [hprob t ht hacc hA', hlog, prob_normalize raw t hM]
    have hbase : prob raw t = prob base t := by
      rw [hraw]; split
      · rw [prob_selectHeralds]
        simp only [accepted, Bool.and_eq_true] at hacc
        rw [if_pos hacc.1]
      · rfl
    rw [hbase]
    field_simp

end fullTail

/-! ## `prob_threshold > 0` (and `min_p > 0`): which states are dropped, how far the result can move
(model `Model/C08Thr.lean`, lemmas `Lemmas/C08Thr.lean`) -/
section threshold
variable {K : Type} [Field K] [LinearOrder K] [IsStrictOrderedRing K]

/-- `simulate_detectors(…, prob_threshold=0)` (the default) is the model of the earlier rounds -/
theorem simulate_threshold_zero (minP : K) (dist : Dist (List ℕ) K) (ds : List (AnyDet K)) (mp : Option ℕ) :
    simulateThr minP 0 dist ds mp = simulate minP dist ds mp :=
  simulateThr_zero minP dist ds mp

/-- the all-PNR branch, the all-threshold branch and the empty distribution never read `prob_threshold` -/
theorem simulate_threshold_ignored (minP T : K) (dist : Dist (List ℕ) K) (ds : List (AnyDet K))
    (mp : Option ℕ)
    (h : dist.isEmpty ∨ detectionType ds = .PNR ∨ detectionType ds = .Threshold) :
    simulateThr minP T dist ds mp = simulate minP dist ds mp := by
  unfold simulateThr simulate simulateRawThr simulateRaw
  by_cases h1 : dist.isEmpty ∨ detectionType ds = .PNR
  · simp only [h1, if_true]
  · have h2 : detectionType ds = .Threshold := by tauto
    simp only [h1, h2, if_true]

/-- `list_tensor_product` of ONE factor returns it untouched — the threshold is not applied (a one-mode
`simulate_detectors` never drops anything) -/
theorem tensor_threshold_single_factor (T : K) (d : Dist ℕ K) (t : List ℕ) :
    wt (listTensorThr T [d]) t = kprod [d] t :=
  wt_lift d t

/-- **which output states `list_tensor_product(…, prob_threshold=T)` drops** (two factors or more, dictionaries
without repeated keys): the state `t` gets `kthr T 1 (trimmed factors) t`, where every factor is first trimmed to
its entries `> T` and -/
theorem tensor_threshold_exact (T : K) (d1 d2 : Dist ℕ K) (rest : List (Dist ℕ K))
    (hnd : ∀ d ∈ d1 :: d2 :: rest, (keys d).Nodup) (t : List ℕ) :
    wt (listTensorThr T (d1 :: d2 :: rest)) t = kthr T 1 ((d1 :: d2 :: rest).map (trimThr T)) t :=
  listTensorThr_wt T d1 d2 rest hnd t

/-- …`kthr` walks through the modes with the running product `q`: the branch is abandoned (weight `0`) as soon
as `q · entry < T` (a running product EQUAL to `T` survives), the full product is recorded otherwise; a trimmed
factor holds the entry when it is `> T` (strict) and nothing otherwise -/
theorem tensor_threshold_walk (T q : K) (d : Dist ℕ K) (ds : List (Dist ℕ K)) (k : ℕ) (t : List ℕ)
    (hnd : (keys d).Nodup) :
    kthr T q (d :: ds) (k :: t) = (if q * wt d k < T then 0 else kthr T (q * wt d k) ds t) ∧
      kthr T q ([] : List (Dist ℕ K)) [] = q ∧ wt (trimThr T d) k = keep T (wt d k) :=
  ⟨rfl, rfl, wt_trimThr T d hnd k⟩

/-- **a dropped state is small, a kept state is exact.** For every list of constructible detectors, every
input state `s` of the right length, `min_p ≥ 0` and threshold `T' ≥ 0`: the weight of `t` in the thresholded kernel
product is either the full product `∏_i kernel_i(s_i)(t_i)` or `0`, and in the second case that product is
`≤ T'` -/
theorem threshold_dropped_state_is_small {minP T' : K} (h0 : 0 ≤ minP) (hT : 0 ≤ T') (ds : List (AnyDet K))
    (hwf : ∀ d ∈ ds, d.WF) (s : List ℕ) (hlen : s.length = ds.length) (hne : ds ≠ []) (t : List ℕ) :
    wt (stateDistThr minP T' ds s) t = kprod (kernels minP ds s) t ∨
      (wt (stateDistThr minP T' ds s) t = 0 ∧ kprod (kernels minP ds s) t ≤ T') :=
  stateDistThr_cases h0 hT ds hwf s hlen hne t

/-- the threshold used for the input state `(s, p)` is `max(T, T/(10p))`; `p` times it is at most
`T·(p + 1/10)` -/
theorem effective_threshold_bound {T p : K} (hT : 0 ≤ T) (hp : 0 ≤ p) :
    T ≤ teff T p ∧ p * teff T p ≤ T * (p + 1 / 10) :=
  ⟨(teff_bounds hT hp).2.1, (teff_bounds hT hp).2.2⟩

/-- **deviation of `simulate_detectors` at `(min_p, prob_threshold = T)` from the exact law**, in every branch,
for every list of constructible detectors, non-negative input over states of the right length, photon filter,
`min_p ≥ 0`, `T ≥ 0` (`simulateRaw 0` is the exact law of `simulate_detectors_pointwise` / `simulate_detectors_mass`):
* `phys_perf` is never below the exact one and above it by at most
  `physSlack = ∑_{(s,p)} (min_p·p·kcount(s) + N_s·T·(p + 1/10))`, `N_s` = number of output states of `s`,
  `kcount(s)` = number of `add` calls behind its kernels;
* the retained mass is never above the exact one and below it by at most
  `massSlack = physSlack + min_p·(number of recorded output states)`;
* every entry of the un-normalised result is never above the exact one and below it by at most
  `pointSlack = ∑_{(s,p)} (min_p·(kcount(s)·p + 1) + T·(p + 1/10))`. -/
theorem simulate_detectors_threshold_bound {minP T : K} (h0 : 0 ≤ minP) (hT : 0 ≤ T) (ds : List (AnyDet K))
    (hwf : ∀ d ∈ ds, d.WF) (dist : Dist (List ℕ) K) (hnn : Nonneg dist)
    (hlen : ∀ e ∈ dist, e.1.length = ds.length) (mp : Option ℕ) :
    (simulateRaw 0 dist ds mp).2 ≤ (simulateRawThr minP T dist ds mp).2 ∧
    (simulateRawThr minP T dist ds mp).2 ≤ (simulateRaw 0 dist ds mp).2 + physSlack minP T ds dist ∧
    mass (simulateRawThr minP T dist ds mp).1 ≤ mass (simulateRaw 0 dist ds mp).1 ∧
    mass (simulateRaw 0 dist ds mp).1 - massSlack minP T ds dist ≤ mass (simulateRawThr minP T dist ds mp).1 ∧
    ∀ t, prob (simulateRawThr minP T dist ds mp).1 t ≤ prob (simulateRaw 0 dist ds mp).1 t ∧
      prob (simulateRaw 0 dist ds mp).1 t - pointSlack minP T ds dist
        ≤ prob (simulateRawThr minP T dist ds mp).1 t :=
  simulateRawThr_vs_exact h0 hT ds hwf dist hnn hlen mp

/-- the slacks, spelled out -/
theorem threshold_slacks (minP T : K) (ds : List (AnyDet K)) (dist : Dist (List ℕ) K) :
    physSlack minP T ds dist
      = (dist.map fun e => minP * (e.2 * (kcount ds e.1 : K))
          + ((stateDist minP ds e.1).length : K) * (T * (e.2 + 1 / 10))).sum ∧
    massSlack minP T ds dist
      = (dist.map fun e => minP * (e.2 * (kcount ds e.1 : K))
          + ((stateDist minP ds e.1).length : K) * (T * (e.2 + 1 / 10))
          + minP * ((stateDistThr minP (teff T e.2) ds e.1).length : K)).sum ∧
    pointSlack minP T ds dist
      = (dist.map fun e => (minP * ((kcount ds e.1 : K) * e.2) + T * (e.2 + 1 / 10)) + minP).sum :=
  ⟨rfl, rfl, rfl⟩

/-- **the NORMALISED result at `(min_p, T)`**: as long as the slack of the retained mass is smaller than the
exact retained mass `M`, every entry of the returned distribution lies in
`[exact − pointSlack/M, exact + massSlack/(M − massSlack)]` -/
theorem simulate_detectors_threshold_normalised {minP T : K} (h0 : 0 ≤ minP) (hT : 0 ≤ T)
    (ds : List (AnyDet K)) (hwf : ∀ d ∈ ds, d.WF) (dist : Dist (List ℕ) K) (hnn : Nonneg dist)
    (hlen : ∀ e ∈ dist, e.1.length = ds.length) (mp : Option ℕ)
    (hbr : ¬ (dist.isEmpty ∨ detectionType ds = .PNR))
    (hpos : massSlack minP T ds dist < mass (simulateRaw 0 dist ds mp).1) (t : List ℕ) :
    prob (simulate 0 dist ds mp).1 t - pointSlack minP T ds dist / mass (simulateRaw 0 dist ds mp).1
        ≤ prob (simulateThr minP T dist ds mp).1 t ∧
      prob (simulateThr minP T dist ds mp).1 t
        ≤ prob (simulate 0 dist ds mp).1 t
          + massSlack minP T ds dist / (mass (simulateRaw 0 dist ds mp).1 - massSlack minP T ds dist) := by
  obtain ⟨_, _, m1, m2, hpt⟩ := simulateRawThr_vs_exact h0 hT ds hwf dist hnn hlen mp
  obtain ⟨p1, p2⟩ := hpt t
  have hΔ := massSlack_nonneg h0 hT ds dist hnn
  have hME : mass (simulateRaw 0 dist ds mp).1 ≠ 0 := ne_of_gt (lt_of_le_of_lt hΔ hpos)
  have hM : mass (simulateRawThr minP T dist ds mp).1 ≠ 0 :=
    ne_of_gt (lt_of_lt_of_le (sub_pos.2 hpos) m2)
  rw [simulate_detectors_normalised 0 ds dist mp hbr hME t, simulateThr_prob minP T ds dist mp hbr hM t]
  have hnn0 := simulateRaw_nonneg (le_refl (0 : K)) ds hwf dist hnn mp
  have hnnT := simulateRawThr_nonneg h0 T ds hwf dist hnn mp
  have hEM : prob (simulateRaw 0 dist ds mp).1 t ≤ mass (simulateRaw 0 dist ds mp).1 := by
    rw [prob_eq_wt _ (simulateRaw_nodup 0 dist ds mp hbr)]; exact wt_le_mass _ hnn0 t
  have hR0 : 0 ≤ prob (simulateRawThr minP T dist ds mp).1 t := by
    rw [prob_eq_wt _ (simulateRawThr_nodup minP T dist ds mp hbr)]; exact wt_nonneg _ hnnT t
  exact normalised_dev hR0 p1 p2 hEM m1 m2 (sub_pos.2 hpos) hΔ

/-- **`min_p > 0`, `phys_perf` taken ALONE and the retained mass ALONE** (target of the earlier rounds' "not
proved" list): for the model of `simulate_detectors` as shipped (`prob_threshold = 0`), every `min_p ≥ 0`:
`exact ≤ phys_perf ≤ exact + min_p·∑ p·kcount(s)` (`kcount(s)` = `add` calls behind the kernels of `s`) and
`exact − min_p·addCalls ≤ retained mass ≤ exact` -/
theorem simulate_detectors_phys_minp {minP : K} (h0 : 0 ≤ minP) (ds : List (AnyDet K))
    (hwf : ∀ d ∈ ds, d.WF) (dist : Dist (List ℕ) K) (hnn : Nonneg dist)
    (hlen : ∀ e ∈ dist, e.1.length = ds.length) (mp : Option ℕ) :
    (simulateRaw 0 dist ds mp).2 ≤ (simulateRaw minP dist ds mp).2 ∧
    (simulateRaw minP dist ds mp).2
      ≤ (simulateRaw 0 dist ds mp).2 + minP * (dist.map fun e => e.2 * (kcount ds e.1 : K)).sum ∧
    mass (simulateRaw minP dist ds mp).1 ≤ mass (simulateRaw 0 dist ds mp).1 ∧
    mass (simulateRaw 0 dist ds mp).1 - minP * addCalls minP ds dist ≤ mass (simulateRaw minP dist ds mp).1 := by
  obtain ⟨a, b, c, d, _⟩ := simulateRawThr_vs_exact h0 (le_refl (0 : K)) ds hwf dist hnn hlen mp
  rw [simulateRawThr_zero] at a b c d
  rw [physSlack_zero] at b
  rw [massSlack_zero] at d
  exact ⟨a, b, c, d⟩

/-- **`min_p > 0`, the NORMALISED result** (what `simulate_detectors` returns): as long as
`min_p·addCalls` is smaller than the exact retained mass `M`, every entry of the returned distribution lies in
`[exact − min_p·(∑ p·kcount(s) + |dist|)/M, exact + min_p·addCalls/(M − min_p·addCalls)]` — the two proved
bounds divided, with the lower bound of the retained mass from `simulate_detectors_phys_minp` -/
theorem simulate_detectors_normalised_minp {minP : K} (h0 : 0 ≤ minP) (ds : List (AnyDet K))
    (hwf : ∀ d ∈ ds, d.WF) (dist : Dist (List ℕ) K) (hnn : Nonneg dist)
    (hlen : ∀ e ∈ dist, e.1.length = ds.length) (mp : Option ℕ)
    (hbr : ¬ (dist.isEmpty ∨ detectionType ds = .PNR))
    (hpos : minP * addCalls minP ds dist < mass (simulateRaw 0 dist ds mp).1) (t : List ℕ) :
    prob (simulate 0 dist ds mp).1 t
          - minP * ((dist.map fun e => e.2 * (kcount ds e.1 : K)).sum + (dist.length : K))
            / mass (simulateRaw 0 dist ds mp).1
        ≤ prob (simulate minP dist ds mp).1 t ∧
      prob (simulate minP dist ds mp).1 t
        ≤ prob (simulate 0 dist ds mp).1 t
          + minP * addCalls minP ds dist
            / (mass (simulateRaw 0 dist ds mp).1 - minP * addCalls minP ds dist) := by
  have h := simulate_detectors_threshold_normalised h0 (le_refl (0 : K)) ds hwf dist hnn hlen mp hbr
    (by rw [massSlack_zero]; exact hpos) t
  rw [simulateThr_zero, massSlack_zero, pointSlack_zero] at h
  exact h

end threshold

/-! ## `simulate_detectors_sample` at an arbitrary `min_p`; `tensor_product`'s empty-left-factor quirk
(`Lemmas/C08Sample.lean`) -/
section sampleMinP
variable {K : Type} [Field K] [LinearOrder K] [IsStrictOrderedRing K]

/-- **the sample is drawn from the mode-wise kernel product at ANY `min_p`, under the explicit guard "no per-mode
result is an empty dictionary"**: the distribution the state is drawn from is non-empty, holds at `t` the product
of the kernels' entries (kernels at that `min_p`: `kernel_entry_minp`) and has the product of the kernels' masses
as total mass (`BSDistribution.sample` divides by it) -/
theorem sample_law_is_kernel_product_minp (minP : K) (ds : List (AnyDet K)) (hwf : ∀ d ∈ ds, d.WF)
    (s : List ℕ) (hlen : s.length = ds.length) (hguard : ∀ k ∈ kernels minP ds s, k ≠ []) :
    ∃ r, sampleLaw true minP ds s = .ok r ∧ r ≠ [] ∧ mass r = ((kernels minP ds s).map mass).prod ∧
      ∀ t, wt r t = kprod (kernels minP ds s) t := by
  have hone : ∀ (f : AnyDet K → ℕ → Dist ℕ K), (∀ d ∈ ds, ∀ n, mass (f d n) = 1) →
      ((List.zipWith (fun n d => f d n) s ds).map mass).prod = 1 := by
    intro f hf
    apply List.prod_eq_one
    intro x hx
    obtain ⟨k, hk, rfl⟩ := List.mem_map.mp hx
    rw [List.mem_iff_getElem] at hk
    obtain ⟨i, hi, rfl⟩ := hk
    rw [List.getElem_zipWith]
    exact hf _ (List.getElem_mem _) _
  unfold sampleLaw
  simp only []
  split
  · next hp =>
    have hall := detectionType_pnr_all ds hp
    refine ⟨_, rfl, by simp, ?_, fun t => ?_⟩
    · have : ((kernels minP ds s).map mass).prod = 1 :=
        hone (fun d n => d.kernel minP n) fun d hd n => by rw [kernel_of_pnr minP d (hall d hd) n]; simp
      rw [this]; simp
    · rw [kprod_pnr minP ds hall s hlen t]; simp [wt]
  · next hp =>
    split
    · next ht =>
      have hall := detectionType_threshold_all ds ht
      refine ⟨_, rfl, by simp, ?_, fun t => ?_⟩
      · have : ((kernels minP ds s).map mass).prod = 1 :=
          hone (fun d n => d.kernel minP n) fun d hd n => by
            rw [kernel_of_threshold minP d (hall d hd) n]; simp
        rw [this]; simp
      · rw [kprod_threshold minP ds hall s hlen t]; simp [wt]
    · have hne : ds ≠ [] := by
        intro h; subst h; exact hp rfl
      obtain ⟨r, h1, _, h3, h4, h5⟩ := sampleLoop_spec_gen minP s ds hwf hguard [] [] (fun _ => rfl)
        (fun h => absurd rfl h) (by simpa using kernels_ne_nil minP hne hlen)
      exact ⟨r, h1, h3, by simpa using h4, by simpa using h5⟩

/-- the guard holds whenever `min_p · (add calls behind the mode's result) < 1` in every mode (`Detector`: the
photons of the mode; tree: its leaf states) — at the shipped `min_p = 1e-16`: fewer than `10^16`; and then the total
mass is within `min_p · kcount(s)` of one -/
theorem sample_guard_of_small_minp {minP : K} (h0 : 0 ≤ minP) (ds : List (AnyDet K)) (hwf : ∀ d ∈ ds, d.WF)
    (s : List ℕ) (h : ∀ p ∈ List.zip s ds, minP * (p.2.addCount p.1 : K) < 1) :
    (∀ k ∈ kernels minP ds s, k ≠ []) ∧
      1 - (kcount ds s : K) * minP ≤ ((kernels minP ds s).map mass).prod ∧
      ((kernels minP ds s).map mass).prod ≤ 1 :=
  ⟨kernels_ne_nil_of_small ds hwf s h, (kernels_mass_prod_bounds h0 ds hwf s).2.2,
    (kernels_mass_prod_bounds h0 ds hwf s).2.1⟩

/-- **which per-mode result can be an empty dictionary**: only `Detector(w ≥ 2 wires, ·).detect(n ≥ 2)` — exactly
when `add` dropped every entry: all `_cond_probability(i, n)`, `1 ≤ i < max_detectable`, and the remainder given to
the highest reading are `≤ min_p` — and `BSLayeredPPNR.detect(n ≥ 2)` — exactly when the backend's `add` dropped
every leaf state -/
theorem kernel_empty_iff (minP : K) (d : AnyDet K) (n : ℕ) :
    d.kernel minP n = [] ↔
      (∃ w mx, d = .det (.wired w mx) ∧ 2 ≤ n ∧ w ≠ 1 ∧
        (∀ i ∈ List.range' 1 (min mx n - 1), condProb w i n ≤ minP) ∧
        (detectLoop w n minP (List.range' 1 (min mx n - 1)) ([], 1)).2 ≤ minP) ∨
      (∃ L r, d = .bs L r ∧ 2 ≤ n ∧ ∀ e ∈ treeOcc r L n, e.2 ≤ minP) := by
  rw [kernel_eq_nil_iff minP d n]
  constructor
  · rintro (⟨w, mx, h1, h2, h3, h4⟩ | h)
    · exact Or.inl ⟨w, mx, h1, h2, h3, (detectWired_eq_nil_iff w mx minP n).mp h4⟩
    · exact Or.inr h
  · rintro (⟨w, mx, h1, h2, h3, h4⟩ | h)
    · exact Or.inl ⟨w, mx, h1, h2, h3, (detectWired_eq_nil_iff w mx minP n).mpr h4⟩
    · exact Or.inr h

/-- **`tensor_product`'s quirk, exactly**: an empty LEFT factor returns the RIGHT factor (`if len(bsd1) == 0:
return bsd2`), an empty RIGHT factor returns the empty distribution -/
theorem tensor_product_empty_factor (a b : Dist (List ℕ) K) :
    tensor2 ([] : Dist (List ℕ) K) b = b ∧ tensor2 a ([] : Dist (List ℕ) K) = [] :=
  ⟨tensor2_nil_left b, tensor2_nil_right a⟩

/-- **consequence for `simulate_detectors_sample`** (mixed / pseudo-PNR lists): if the per-mode result of mode
`|s1|` is an empty dictionary, everything accumulated before it is lost and the loop restarts from the empty
distribution on the remaining modes — so the drawn state only has the modes AFTER the last empty result, with the
kernel product of those modes as law (and `BSDistribution.sample` raises `RuntimeError` when nothing follows) -/
theorem sample_restarts_after_empty_kernel (minP : K) (s1 s2 : List ℕ) (n : ℕ) (d1 d2 : List (AnyDet K))
    (d : AnyDet K) (hl : s1.length = d1.length) (hk : d.kernel minP n = [])
    (hty : detectionType (d1 ++ d :: d2) ≠ .PNR ∧ detectionType (d1 ++ d :: d2) ≠ .Threshold) :
    sampleLaw true minP (d1 ++ d :: d2) (s1 ++ n :: s2) = sampleLoop true minP s2 d2 [] ∧
      (s2 = [] → sampleLaw true minP (d1 ++ d :: d2) (s1 ++ n :: s2) = .ok []) ∧
      ((∀ x ∈ d2, x.WF) → s2.length = d2.length → d2 ≠ [] → (∀ k ∈ kernels minP d2 s2, k ≠ []) →
        ∃ r, sampleLaw true minP (d1 ++ d :: d2) (s1 ++ n :: s2) = .ok r ∧ r ≠ [] ∧
          ∀ t, wt r t = kprod (kernels minP d2 s2) t) := by
  have h1 : sampleLaw true minP (d1 ++ d :: d2) (s1 ++ n :: s2) = sampleLoop true minP s2 d2 [] := by
    unfold sampleLaw
    simp only [hty.1, hty.2, if_false]
    exact sampleLoop_restart minP s1 s2 n d1 d2 d hl hk []
  refine ⟨h1, ?_, ?_⟩
  · intro h; rw [h1, h]; simp [sampleLoop]
  · intro hwf hlen hne hguard
    obtain ⟨r, e1, _, e3, _, e5⟩ := sampleLoop_spec_gen minP s2 d2 hwf hguard [] [] (fun _ => rfl)
      (fun h => absurd rfl h) (by simpa using kernels_ne_nil minP hne hlen)
    exact ⟨r, by rw [h1]; exact e1, e3, by simpa using e5⟩

end sampleMinP

/-! ## mixed inputs through the detector path (`Simulator.probs_svd` with an `SVDistribution` of several Fock
members and detectors; model `Model/C08Mix.lean`, lemmas `Lemmas/C08Mix.lean`) -/
section mixture
variable {K : Type} [Field K] [LinearOrder K] [IsStrictOrderedRing K]

open PM.SimSpec (PS)

/-- **the loop of `_probs_svd_fast` builds the mixture**: for every herald set, mask setting and member list
(no sign or normalisation condition), every linear functional `∑ p(s)·g(s)` of the accumulated distribution is the
weighted sum of the same functional of the members' distributions; in particular the weight recorded at every state
`t` is `∑_m p_m · (member m's weight at t)`, no state is recorded twice, and the accumulated `_logical_perf` is the
mass of the mixture -/
theorem mix_is_weighted_sum (h : List (ℕ × ℕ)) (mask : Bool) (ms : List (Member K)) :
    (∀ g : List ℕ → K, ((mixRaw h mask ms).1.map fun e => e.2 * g e.1).sum
        = (ms.map fun m => m.p * ((memberRaw h mask m).map fun e => e.2 * g e.1).sum).sum) ∧
    (∀ t, prob (mixRaw h mask ms).1 t = (ms.map fun m => m.p * wt (memberRaw h mask m) t).sum) ∧
    (keys (mixRaw h mask ms).1).Nodup ∧
    (mixRaw h mask ms).2 = mass (mixRaw h mask ms).1 ∧
    mass (mixRaw h mask ms).1 = (ms.map fun m => m.p * mass (memberRaw h mask m)).sum :=
  ⟨mixRaw_sum h mask ms, fun t => by rw [prob_eq_wt _ (mixRaw_nodup h mask ms)]; exact mixRaw_wt h mask ms t,
    mixRaw_nodup h mask ms, mixRaw_snd h mask ms, mixRaw_mass h mask ms⟩

/-- **`phys_perf` of `simulate_detectors` is one minus a linear functional of its input** (every `min_p`, both
non-trivial branches): `1 − ∑_{(s,p)} p · loss(s)`, `loss(s)` = the share of the readings of `s` below the photon filter -/
theorem simulate_phys_linear (minP : K) (dist : Dist (List ℕ) K) (ds : List (AnyDet K)) (mp : Option ℕ)
    (hbr : ¬ (dist.isEmpty ∨ detectionType ds = .PNR)) :
    (simulateRaw minP dist ds mp).2 = 1 - (dist.map fun e => e.2 * lossOf minP ds mp e.1).sum :=
  simulateRaw_phys_linear minP dist ds mp hbr

/-- **hence the physical performance of a mixture is the weighted sum over its members**: with non-empty member
distributions and a detector list that is not all-PNR,
`1 − phys_perf(mixture) = ∑_m p_m · (1 − phys_perf(member m))` -/
theorem simulate_phys_of_mixture (minP : K) (h : List (ℕ × ℕ)) (mask : Bool) (ms : List (Member K))
    (ds : List (AnyDet K)) (mp : Option ℕ) (hty : detectionType ds ≠ .PNR)
    (hne : ∀ m ∈ ms, memberRaw h mask m ≠ []) (hmix : (mixRaw h mask ms).1 ≠ []) :
    1 - (simulateRaw minP (mixRaw h mask ms).1 ds mp).2
      = (ms.map fun m => m.p * (1 - (simulateRaw minP (memberRaw h mask m) ds mp).2)).sum := by
  have hbr : ∀ d : Dist (List ℕ) K, d ≠ [] → ¬ (d.isEmpty ∨ detectionType ds = .PNR) := by
    intro d hd
    cases d with
    | nil => exact absurd rfl hd
    | cons e l => simpa using hty
  rw [simulateRaw_phys_linear minP _ ds mp (hbr _ hmix), mixRaw_sum]
  have : ∀ m ∈ ms, m.p * ((memberRaw h mask m).map fun e => e.2 * lossOf minP ds mp e.1).sum
      = m.p * (1 - (simulateRaw minP (memberRaw h mask m) ds mp).2) := by
    intro m hm
    rw [simulateRaw_phys_linear minP _ ds mp (hbr _ (hne m hm))]
    ring
  rw [List.map_congr_left this]
  ring

/-- **`probs_svd` on a mixed input returns the mixture of the per-member conditioned laws with the members'
weights.** For every list of constructible detectors of non-PNR global type, every list of members with positive
weights whose theoretical distributions are normalised, non-negative and over states of the right length, every user
filter, compatible herald set, PostSelect expression and `keep_heralds`, at exact parameters (`min_p ≤ 0`, precision 0),
with `F` = user filter + herald values, `kept` = the members with at least `F` photons (not empty), `W` = their
total weight: `probs_svd` (model `probsSvdMix`) returns `out` with
* `physical_perf · W = (1 − weight of the members below the filter) · ∑_{m ∈ kept} p_m · physical_perf(member m alone)`
  — for a normalised input (`W` = the first factor) the weighted sum of the members' performances
  (`probs_svd_mix_phys_normalised`);
* for every reading `t` that passes the filter and is accepted by the heralds and the expression:
  `physical_perf · logical_perf · results[reported t] = ∑_{m ∈ kept} p_m · ∑_{(s,q) ∈ base_m} q · ∏_i kernel_i(s_i)(t_i)`. -/
theorem probs_svd_mix_law {minP : K} (hmin : minP ≤ 0) (ds : List (AnyDet K)) (hwf : ∀ d ∈ ds, d.WF)
    (ms : List (Member K)) (hp : ∀ m ∈ ms, 0 < m.p)
    (hbase : ∀ m ∈ ms, Nonneg m.base ∧ mass m.base = 1 ∧ ∀ e ∈ m.base, e.1.length = ds.length)
    (uf F : ℕ) (h : List (ℕ × ℕ)) (hF : F = uf + (h.map (·.2)).sum) (ps : PS) (keep : Bool)
    (hchk : checkHeralds h ds = .ok true) (hty : detectionType ds ≠ .PNR)
    (hkept : (ms.filter fun m => decide (F ≤ m.n)) ≠ []) (hphys0 : 0 < prePhys F ms)
    (hR : mass (simulateRaw minP
      (normalize (mixRaw h false (ms.filter fun m => decide (F ≤ m.n))).1) ds (some F)).1 ≠ 0) :
    ∃ out, probsSvdMix minP 0 ms ds uf h ps keep = .ok out ∧
      out.phys * ((ms.filter fun m => decide (F ≤ m.n)).map (·.p)).sum
        = prePhys F ms * ((ms.filter fun m => decide (F ≤ m.n)).map fun m =>
            m.p * (simulateRaw minP m.base ds (some F)).2).sum ∧
      ∀ t : List ℕ, t.length = ds.length → accepted ps h t = true → belowFilter (some F) t = false →
        out.logical ≠ 0 →
        out.phys * out.logical * prob out.results (reportState h keep t)
          = ((ms.filter fun m => decide (F ≤ m.n)).map fun m =>
              m.p * (m.base.map fun e => e.2 * kprod (kernels minP ds e.1) t).sum).sum := by
  set kept := ms.filter fun m => decide (F ≤ m.n) with hkdef
  have hkm : ∀ m ∈ kept, m ∈ ms := fun m hm => (List.mem_filter.mp hm).1
  have hmask : useMask h ds = false := by unfold useMask; simp [hty]
  have hraw : ∀ m : Member K, memberRaw h false m = m.base := fun m => rfl
  set D := (mixRaw h false kept).1 with hD
  set W := (kept.map (·.p)).sum with hW
  have hDmass : mass D = W := by
    rw [hD, mixRaw_mass, hW]
    congr 1
    apply List.map_congr_left
    intro m hm
    rw [hraw, (hbase m (hkm m hm)).2.1, mul_one]
  have hWpos : 0 < W := by
    apply List.sum_pos
    · intro x hx
      obtain ⟨m, hm, rfl⟩ := List.mem_map.mp hx
      exact hp m (hkm m hm)
    · intro hnil
      exact hkept (List.map_eq_nil_iff.mp hnil)
  have hWne : mass D ≠ 0 := by rw [hDmass]; exact ne_of_gt hWpos
  have hDnn : Nonneg D := mixRaw_nonneg h false kept (fun m hm => (hp m (hkm m hm)).le)
    (fun m hm => by rw [hraw]; exact (hbase m (hkm m hm)).1)
  have hDlen : KeysLen D ds.length := mixRaw_keysLen h false kept ds.length
    (fun m hm => by rw [hraw]; exact (hbase m (hkm m hm)).2.2)
  set res := normalize D with hres
  have hres1 : mass res = 1 := mass_normalize D hWne
  have hresnn : Nonneg res := normalize_nonneg D hDnn (by rw [hDmass]; exact hWpos)
  have hreslen : ∀ e ∈ res, e.1.length = ds.length := hDlen.normalize
  have hresne : res.isEmpty = false := by
    cases hr : res with
    | nil => rw [hr] at hres1; simp at hres1
    | cons e l => rfl
  have hbr : ¬ (res.isEmpty ∨ detectionType ds = .PNR) := by rw [hresne]; simpa using hty
  have hmix2 : (mixRaw h false kept).2 = W := by rw [mixRaw_snd, ← hD, hDmass]
  -- the conditioned law of the earlier round, applied to the normalised mixture
  obtain ⟨out', ho', _, _, hlaw⟩ := probs_svd_conditioned_law hmin ds hwf res hresnn hreslen hres1 (some F) h ps keep
    hchk hty hR
  have ho'' : probsSvd minP res ds (some F) h ps keep
      = .ok ⟨(postSelect ps h keep (simulate minP res ds (some F)).1).1, 1 * (simulate minP res ds (some F)).2,
          mass res * (postSelect ps h keep (simulate minP res ds (some F)).1).2⟩ := by
    unfold probsSvd
    rw [hchk]
    simp only [hmask, Bool.false_eq_true, if_false, normalize_of_mass_one res hres1, hresne]
  rw [ho''] at ho'
  have hout' := (Except.ok.inj ho').symm
  set a := simulate minP res ds (some F) with ha
  set b := postSelect ps h keep a.1 with hb
  refine ⟨⟨b.1, prePhys F ms * a.2, (W / prePhys F ms) * b.2⟩, ?_, ?_, ?_⟩
  · unfold probsSvdMix
    rw [hchk]
    simp only [← hF, preThreshold_exact hmin, preKept_exact hmin F ms hp, hmask, ← hkdef, ← hD, ← hres, hresne,
      Bool.false_eq_true, if_false, simulateThr_zero, ← ha, ← hb, hmix2, hWpos, hphys0, and_self, if_true]
  · -- physical performance
    show prePhys F ms * a.2 * W = _
    have ha2 : a.2 = (simulateRaw minP res ds (some F)).2 :=
      (simulate_detectors_mass hmin ds hwf res hresnn hreslen (some F)).2.1
    have hsumD : (D.map fun e => e.2 * lossOf minP ds (some F) e.1).sum
        = (kept.map fun m => m.p * (1 - (simulateRaw minP m.base ds (some F)).2)).sum := by
      rw [hD, mixRaw_sum]
      apply congrArg
      apply List.map_congr_left
      intro m hm
      have hmne : ¬ (m.base.isEmpty ∨ detectionType ds = .PNR) := by
        have h1 := (hbase m (hkm m hm)).2.1
        cases hmb : m.base with
        | nil => rw [hmb] at h1; simp at h1
        | cons e l => simpa using hty
      rw [hraw, simulateRaw_phys_linear minP m.base ds (some F) hmne]
      ring
    have hsplit : ∀ l : List (Member K),
        (l.map fun m => m.p * (1 - (simulateRaw minP m.base ds (some F)).2)).sum
          = (l.map (·.p)).sum - (l.map fun m => m.p * (simulateRaw minP m.base ds (some F)).2).sum := by
      intro l
      induction l with
      | nil => simp
      | cons m l ih => simp only [List.map_cons, List.sum_cons, ih]; ring
    rw [ha2, simulateRaw_phys_linear minP res ds (some F) hbr, hres, sum_normalize D hWne, hsumD, hsplit, hDmass,
      ← hW]
    field_simp
    ring
  · -- the mixture law
    intro t ht hacc hpass hlog
    show prePhys F ms * a.2 * ((W / prePhys F ms) * b.2) * prob b.1 (reportState h keep t) = _
    have hb2 : b.2 ≠ 0 := by
      intro h0; apply hlog; show (W / prePhys F ms) * b.2 = 0; rw [h0, mul_zero]
    have hl := hlaw t ht hacc hpass (by rw [hout']; show mass res * b.2 ≠ 0; rw [hres1, one_mul]; exact hb2)
    rw [hout'] at hl
    simp only [one_mul, hres1] at hl
    have hsum : (res.map fun e => e.2 * kprod (kernels minP ds e.1) t).sum
        = (kept.map fun m => m.p * (m.base.map fun e => e.2 * kprod (kernels minP ds e.1) t).sum).sum / W := by
      rw [hres, sum_normalize D hWne (fun s => kprod (kernels minP ds s) t), hD,
        mixRaw_sum h false kept (fun s => kprod (kernels minP ds s) t), ← hD, hDmass]
      simp only [hraw]
    rw [hsum] at hl
    have hP : prePhys F ms ≠ 0 := ne_of_gt hphys0
    have hW' : W ≠ 0 := ne_of_gt hWpos
    calc prePhys F ms * a.2 * ((W / prePhys F ms) * b.2) * prob b.1 (reportState h keep t)
        = W * (a.2 * b.2 * prob b.1 (reportState h keep t)) := by field_simp
      _ = _ := by rw [hl]; field_simp

/-- **mixed input on the all-PNR path** (no detector / unset / `Detector.pnr()` only; the backend applies the heralds as
a mask to every member): for EVERY `min_p` and EVERY precision — `simulate_detectors` returns its input, so neither is
used after `_preprocess_svd` — with `kept` the members `_preprocess_svd` keeps and `D` the accumulated mixture of what
the backend returns for them: `physical_perf` is the input filter's, `logical_perf` the accepted mass of `D` over it, and
for every accepted state `t`
`physical_perf · logical_perf · results[reported t] = ∑_{m ∈ kept} p_m · base_m[t]`. -/
theorem probs_svd_mix_pnr_law (minP rel : K) (ds : List (AnyDet K)) (ms : List (Member K)) (n : ℕ)
    (hbase : ∀ m ∈ ms, (keys m.base).Nodup ∧ KeysLen m.base n)
    (uf F : ℕ) (h : List (ℕ × ℕ)) (hF : F = uf + (h.map (·.2)).sum) (ps : PS) (keep : Bool)
    (hchk : checkHeralds h ds = .ok true) (hty : detectionType ds = .PNR)
    (hD : 0 < mass (mixRaw h (useMask h ds) (preKept minP rel F ms)).1) (hphys0 : 0 < prePhys F ms) :
    ∃ out, probsSvdMix minP rel ms ds uf h ps keep = .ok out ∧
      out.phys = prePhys F ms ∧
      out.logical = mass ((mixRaw h (useMask h ds) (preKept minP rel F ms)).1.filter
        fun e => accepted ps h e.1) / prePhys F ms ∧
      ∀ t : List ℕ, t.length = n → accepted ps h t = true → out.logical ≠ 0 →
        out.phys * out.logical * prob out.results (reportState h keep t)
          = ((preKept minP rel F ms).map fun m => m.p * prob m.base t).sum := by
  set kept := preKept minP rel F ms with hkdef
  have hkm : ∀ m ∈ kept, m ∈ ms := fun m hm => (List.mem_filter.mp hm).1
  set D := (mixRaw h (useMask h ds) kept).1 with hDdef
  have hM : mass D ≠ 0 := ne_of_gt hD
  have hP : prePhys F ms ≠ 0 := ne_of_gt hphys0
  have hDnd : (keys D).Nodup := mixRaw_nodup h _ kept
  have hrawkl : ∀ m ∈ kept, KeysLen (memberRaw h (useMask h ds) m) n := by
    intro m hm
    unfold memberRaw
    split
    · exact (hbase m (hkm m hm)).2.filter _
    · exact (hbase m (hkm m hm)).2
  have hDkl : KeysLen D n := mixRaw_keysLen h _ kept n hrawkl
  set res := normalize D with hres
  have hresnd : (keys res).Nodup := by rw [hres, keys_normalize]; exact hDnd
  have hres1 : mass res = 1 := mass_normalize D hM
  have hresne : res.isEmpty = false := by
    cases hr : res with
    | nil => rw [hr] at hres1; simp at hres1
    | cons e l => rfl
  have hsim : ∀ T : K, simulateThr minP T res ds (some F) = (res, 1) := by
    intro T
    rw [simulate_threshold_ignored minP T res ds (some F) (Or.inr (Or.inl hty)),
      simulate_pnr_identity minP res ds (some F) (Or.inr hty)]
  obtain ⟨hlog, hprob⟩ := postSelect_core ps h keep res n hresnd hDkl.normalize hres1
  have hfilt : mass (res.filter fun e => accepted ps h e.1)
      = mass (D.filter fun e => accepted ps h e.1) / mass D := by
    rw [hres]
    unfold normalize
    rw [if_neg hM]
    generalize mass D = c
    induction D with
    | nil => simp
    | cons e l ih =>
      simp only [List.map_cons]
      by_cases hp : accepted ps h e.1 = true
      · rw [List.filter_cons_of_pos (by simpa using hp), List.filter_cons_of_pos (by simpa using hp)]
        simp only [mass_cons, ih]; ring
      · rw [List.filter_cons_of_neg (by simpa using hp), List.filter_cons_of_neg (by simpa using hp)]
        exact ih
  have hmix2 : (mixRaw h (useMask h ds) kept).2 = mass D := by rw [mixRaw_snd]
  refine ⟨⟨(postSelect ps h keep res).1, prePhys F ms * 1, (mass D / prePhys F ms) * (postSelect ps h keep res).2⟩,
    ?_, ?_, ?_, ?_⟩
  · unfold probsSvdMix
    rw [hchk]
    simp only [← hF, ← hkdef, ← hDdef, ← hres, hresne, Bool.false_eq_true, if_false, hsim, hmix2, hD, hphys0, and_self,
      if_true]
  · simp
  · show (mass D / prePhys F ms) * (postSelect ps h keep res).2 = _
    rw [hlog, hfilt]
    field_simp
  · intro t ht hacc hA
    show prePhys F ms * 1 * ((mass D / prePhys F ms) * (postSelect ps h keep res).2)
      * prob (postSelect ps h keep res).1 (reportState h keep t) = _
    have hb2 : mass (res.filter fun e => accepted ps h e.1) ≠ 0 := by
      intro h0
      apply hA
      show (mass D / prePhys F ms) * (postSelect ps h keep res).2 = 0
      rw [hlog, h0, mul_zero]
    rw [hprob t ht hacc hb2, hlog, hres, prob_normalize D t hM, ← hres]
    have hwt : prob D t = (kept.map fun m => m.p * prob m.base t).sum := by
      rw [prob_eq_wt D hDnd, hDdef, mixRaw_wt]
      apply congrArg
      apply List.map_congr_left
      intro m hm
      have hmnd : (keys (memberRaw h (useMask h ds) m)).Nodup := by
        unfold memberRaw
        split
        · exact keys_filter_nodup _ m.base (hbase m (hkm m hm)).1
        · exact (hbase m (hkm m hm)).1
      rw [← prob_eq_wt _ hmnd]
      unfold memberRaw
      split
      · rw [prob_selectHeralds]
        simp only [accepted, Bool.and_eq_true] at hacc
        rw [if_pos hacc.1]
      · rfl
    rw [← hwt]
    field_simp

/-- for a normalised input (`∑ p_m = 1`) the factor `1 − weight below the filter` IS `W`: the physical performance
is the weighted sum of the members' performances over the members that pass the input filter -/
theorem probs_svd_mix_phys_normalised (F : ℕ) (ms : List (Member K)) (hsum : (ms.map (·.p)).sum = 1) :
    prePhys F ms = ((ms.filter fun m => decide (F ≤ m.n)).map (·.p)).sum := by
  rw [prePhys_eq]
  have := sum_filter_split ms (fun m => decide (F ≤ m.n))
  have e : (fun m : Member K => !decide (F ≤ m.n)) = fun m => decide (¬ F ≤ m.n) := by
    funext m
    by_cases hm : F ≤ m.n <;> simp [hm]
  rw [e] at this
  linarith

/-! ### round 6: when the positivity hypotheses of `probs_svd_mix_pnr_law` hold, and the closed form of `logical_perf` -/

/-- **the two positivity hypotheses of `probs_svd_mix_pnr_law`, exactly**: for positive weights of total at most one
and non-negative member dictionaries, at EVERY `min_p`, precision, filter, herald set and mask flag,
`0 < mass(D)` and `0 < prePhys` hold together IFF some member kept by `_preprocess_svd` has positive mass in what the
backend returns for it (with the heralds mask: positive mass on the herald-satisfying states). -/
theorem probs_svd_mix_pnr_hyps_iff (minP rel : K) (F : ℕ) (h : List (ℕ × ℕ)) (mask : Bool) (ms : List (Member K))
    (hp : ∀ m ∈ ms, 0 < m.p) (hsum : (ms.map (·.p)).sum ≤ 1) (hnn : ∀ m ∈ ms, Nonneg m.base) :
    (0 < mass (mixRaw h mask (preKept minP rel F ms)).1 ∧ 0 < prePhys F ms)
      ↔ ∃ m ∈ preKept minP rel F ms, 0 < mass (memberRaw h mask m) := by
  have hkm : ∀ m ∈ preKept minP rel F ms, m ∈ ms := fun m hm => (List.mem_filter.mp hm).1
  have hiff := mixRaw_mass_pos_iff h mask (preKept minP rel F ms) (fun m hm => hp m (hkm m hm))
    (fun m hm => hnn m (hkm m hm))
  constructor
  · rintro ⟨h1, _⟩
    exact hiff.mp h1
  · rintro ⟨m, hm, hmass⟩
    refine ⟨hiff.mpr ⟨m, hm, hmass⟩, ?_⟩
    have hc := (List.mem_filter.mp hm).2
    simp only [Bool.and_eq_true, decide_eq_true_eq] at hc
    exact prePhys_pos_of_weights F ms (fun x hx => (hp x hx).le) hsum m (hkm m hm) hc.2 (hp m (hkm m hm))

/-- without the mask (no heralds) and with NORMALISED members the condition is a comparison of two numbers of
`_preprocess_svd`: the threshold `max(min_p, max_p·precision)` is below `max_p` (for a precision `< 1`: `min_p < max_p`
and `0 < max_p`, `preKept_ne_nil_iff_of_rel_lt_one`) -/
theorem probs_svd_mix_pnr_hyps_nomask_iff (minP rel : K) (F : ℕ) (h : List (ℕ × ℕ)) (ms : List (Member K))
    (hp : ∀ m ∈ ms, 0 < m.p) (hsum : (ms.map (·.p)).sum ≤ 1) (hb : ∀ m ∈ ms, mass m.base = 1) :
    (0 < mass (mixRaw h false (preKept minP rel F ms)).1 ∧ 0 < prePhys F ms)
      ↔ preThreshold minP rel F ms < preMaxP F ms := by
  have hkm : ∀ m ∈ preKept minP rel F ms, m ∈ ms := fun m hm => (List.mem_filter.mp hm).1
  have hiff := mixRaw_mass_pos_iff_nomask h (preKept minP rel F ms) (fun m hm => hp m (hkm m hm))
    (fun m hm => hb m (hkm m hm))
  rw [← preKept_ne_nil_iff]
  constructor
  · rintro ⟨h1, _⟩
    exact hiff.mp h1
  · intro hne
    refine ⟨hiff.mpr hne, ?_⟩
    obtain ⟨m, hm⟩ := List.exists_mem_of_ne_nil _ hne
    have hc := (List.mem_filter.mp hm).2
    simp only [Bool.and_eq_true, decide_eq_true_eq] at hc
    exact prePhys_pos_of_weights F ms (fun x hx => (hp x hx).le) hsum m (hkm m hm) hc.2 (hp m (hkm m hm))

/-- **which members `_preprocess_svd` keeps**: some member survives iff `max(min_p, max_p·precision) < max_p` — for every
`min_p`, precision, filter and member list, with no condition on the weights -/
theorem preprocess_keeps_some_iff (minP rel : K) (F : ℕ) (ms : List (Member K)) :
    preKept minP rel F ms ≠ [] ↔ preThreshold minP rel F ms < preMaxP F ms :=
  preKept_ne_nil_iff minP rel F ms

/-- **when the input filter's `physical_perf` is positive**: for a normalised input with positive weights, iff some
member has at least `F` photons (for weights of total ≤ 1 the direction ⇐ is `prePhys_pos_of_weights`) -/
theorem preprocess_phys_pos_iff (F : ℕ) (ms : List (Member K)) (hp : ∀ m ∈ ms, 0 < m.p)
    (hsum : (ms.map (·.p)).sum = 1) : 0 < prePhys F ms ↔ ∃ m ∈ ms, F ≤ m.n :=
  prePhys_pos_iff F ms hp hsum

/-- positive weights and normalised members alone do NOT give `0 < mass(D)` under the heralds mask: one member
`{|0,1>: 1}` of weight 1 with the herald `{0: 1}` — the backend returns nothing for it -/
theorem probs_svd_mix_pnr_mass_needs_herald_support :
    let ms : List (Member ℚ) := [⟨1, 1, [([0, 1], 1)]⟩]
    (∀ m ∈ ms, 0 < m.p) ∧ (ms.map (·.p)).sum = 1 ∧ (∀ m ∈ ms, Nonneg m.base ∧ mass m.base = 1) ∧
      preKept (0 : ℚ) 0 1 ms = ms ∧ 0 < prePhys 1 ms ∧ ¬ 0 < mass (mixRaw [(0, 1)] true (preKept (0 : ℚ) 0 1 ms)).1 := by
  have hk : preKept (0 : ℚ) 0 1 ([⟨1, 1, [([0, 1], 1)]⟩] : List (Member ℚ)) = [⟨1, 1, [([0, 1], 1)]⟩] := by
    norm_num [preKept, preThreshold, preMaxP]
  refine ⟨?_, by norm_num, ?_, hk, by norm_num [prePhys], ?_⟩
  · intro m hm
    simp only [List.mem_cons, List.not_mem_nil, or_false] at hm
    subst hm; norm_num
  · intro m hm
    simp only [List.mem_cons, List.not_mem_nil, or_false] at hm
    subst hm
    exact ⟨by intro e he; simp at he; subst he; norm_num, by norm_num [mass]⟩
  · rw [hk]
    norm_num [mixRaw, mixAdd, memberRaw, selectHeralds, heraldsOk, mass]

/-- **`probs_svd_mix_pnr_law` with its positivity hypotheses DERIVED**: positive weights of total at most one,
non-negative member dictionaries, and one kept member with positive mass in what the backend returns for it. -/
theorem probs_svd_mix_pnr_law_of_weights (minP rel : K) (ds : List (AnyDet K)) (ms : List (Member K)) (n : ℕ)
    (hbase : ∀ m ∈ ms, (keys m.base).Nodup ∧ KeysLen m.base n)
    (hp : ∀ m ∈ ms, 0 < m.p) (hsum : (ms.map (·.p)).sum ≤ 1) (hnn : ∀ m ∈ ms, Nonneg m.base)
    (uf F : ℕ) (h : List (ℕ × ℕ)) (hF : F = uf + (h.map (·.2)).sum) (ps : PS) (keep : Bool)
    (hchk : checkHeralds h ds = .ok true) (hty : detectionType ds = .PNR)
    (hsupp : ∃ m ∈ preKept minP rel F ms, 0 < mass (memberRaw h (useMask h ds) m)) :
    ∃ out, probsSvdMix minP rel ms ds uf h ps keep = .ok out ∧
      out.phys = prePhys F ms ∧
      out.logical = mass ((mixRaw h (useMask h ds) (preKept minP rel F ms)).1.filter
        fun e => accepted ps h e.1) / prePhys F ms ∧
      ∀ t : List ℕ, t.length = n → accepted ps h t = true → out.logical ≠ 0 →
        out.phys * out.logical * prob out.results (reportState h keep t)
          = ((preKept minP rel F ms).map fun m => m.p * prob m.base t).sum := by
  obtain ⟨hD, hphys0⟩ := (probs_svd_mix_pnr_hyps_iff minP rel F h (useMask h ds) ms hp hsum hnn).mpr hsupp
  exact probs_svd_mix_pnr_law minP rel ds ms n hbase uf F h hF ps keep hchk hty hD hphys0

/-- **closed form of `logical_perf` for a mixed input through imperfect detectors** (hypotheses of `probs_svd_mix_law`):
with `kept` the members that pass the input filter, `W` their total weight and, for a member `m`,
`acc_m` = the mass of ITS readings law (`simulate_detectors` on `base_m` alone, before `normalize()`) that passes the
filter and is accepted by the heralds and the expression, `phys_m` = its `phys_perf`:
* `physical_perf · logical_perf = ∑_{m ∈ kept} p_m · acc_m`;
* `logical_perf · (prePhys · ∑_{m ∈ kept} p_m · phys_m) = W · ∑_{m ∈ kept} p_m · acc_m` (division-free closed form). -/
theorem probs_svd_mix_logical_closed {minP : K} (hmin : minP ≤ 0) (ds : List (AnyDet K)) (hwf : ∀ d ∈ ds, d.WF)
    (ms : List (Member K)) (hp : ∀ m ∈ ms, 0 < m.p)
    (hbase : ∀ m ∈ ms, Nonneg m.base ∧ mass m.base = 1 ∧ ∀ e ∈ m.base, e.1.length = ds.length)
    (uf F : ℕ) (h : List (ℕ × ℕ)) (hF : F = uf + (h.map (·.2)).sum) (ps : PS) (keep : Bool)
    (hchk : checkHeralds h ds = .ok true) (hty : detectionType ds ≠ .PNR)
    (hkept : (ms.filter fun m => decide (F ≤ m.n)) ≠ []) (hphys0 : 0 < prePhys F ms)
    (hR : mass (simulateRaw minP
      (normalize (mixRaw h false (ms.filter fun m => decide (F ≤ m.n))).1) ds (some F)).1 ≠ 0) :
    ∃ out, probsSvdMix minP 0 ms ds uf h ps keep = .ok out ∧
      out.phys * out.logical
        = ((ms.filter fun m => decide (F ≤ m.n)).map fun m =>
            m.p * mass ((simulateRaw minP m.base ds (some F)).1.filter fun e => accepted ps h e.1)).sum ∧
      out.logical * (prePhys F ms * ((ms.filter fun m => decide (F ≤ m.n)).map fun m =>
            m.p * (simulateRaw minP m.base ds (some F)).2).sum)
        = ((ms.filter fun m => decide (F ≤ m.n)).map (·.p)).sum *
          ((ms.filter fun m => decide (F ≤ m.n)).map fun m =>
            m.p * mass ((simulateRaw minP m.base ds (some F)).1.filter fun e => accepted ps h e.1)).sum := by
  -- the output of the model is unique: take the one of `probs_svd_mix_law` for the physical performance
  obtain ⟨out0, hout0, hphys, _⟩ := probs_svd_mix_law hmin ds hwf ms hp hbase uf F h hF ps keep hchk hty hkept hphys0 hR
  set kept := ms.filter fun m => decide (F ≤ m.n) with hkdef
  have hkm : ∀ m ∈ kept, m ∈ ms := fun m hm => (List.mem_filter.mp hm).1
  have hmask : useMask h ds = false := by unfold useMask; simp [hty]
  have hraw : ∀ m : Member K, memberRaw h false m = m.base := fun m => rfl
  set D := (mixRaw h false kept).1 with hD
  set W := (kept.map (·.p)).sum with hW
  have hDmass : mass D = W := by
    rw [hD, mixRaw_mass, hW]
    congr 1
    apply List.map_congr_left
    intro m hm
    rw [hraw, (hbase m (hkm m hm)).2.1, mul_one]
  have hWpos : 0 < W := by
    apply List.sum_pos
    · intro x hx
      obtain ⟨m, hm, rfl⟩ := List.mem_map.mp hx
      exact hp m (hkm m hm)
    · intro hnil
      exact hkept (List.map_eq_nil_iff.mp hnil)
  have hWne : mass D ≠ 0 := by rw [hDmass]; exact ne_of_gt hWpos
  have hDnn : Nonneg D := mixRaw_nonneg h false kept (fun m hm => (hp m (hkm m hm)).le)
    (fun m hm => by rw [hraw]; exact (hbase m (hkm m hm)).1)
  have hDlen : KeysLen D ds.length := mixRaw_keysLen h false kept ds.length
    (fun m hm => by rw [hraw]; exact (hbase m (hkm m hm)).2.2)
  set res := normalize D with hres
  have hres1 : mass res = 1 := mass_normalize D hWne
  have hresnn : Nonneg res := normalize_nonneg D hDnn (by rw [hDmass]; exact hWpos)
  have hreslen : ∀ e ∈ res, e.1.length = ds.length := hDlen.normalize
  have hresne : res.isEmpty = false := by
    cases hr : res with
    | nil => rw [hr] at hres1; simp at hres1
    | cons e l => rfl
  have hbr : ¬ (res.isEmpty ∨ detectionType ds = .PNR) := by rw [hresne]; simpa using hty
  have hmix2 : (mixRaw h false kept).2 = W := by rw [mixRaw_snd, ← hD, hDmass]
  obtain ⟨out', ho', hph', hlg', _⟩ := probs_svd_conditioned_law hmin ds hwf res hresnn hreslen hres1 (some F) h ps keep
    hchk hty hR
  have ho'' : probsSvd minP res ds (some F) h ps keep
      = .ok ⟨(postSelect ps h keep (simulate minP res ds (some F)).1).1, 1 * (simulate minP res ds (some F)).2,
          mass res * (postSelect ps h keep (simulate minP res ds (some F)).1).2⟩ := by
    unfold probsSvd
    rw [hchk]
    simp only [hmask, Bool.false_eq_true, if_false, normalize_of_mass_one res hres1, hresne]
  rw [ho''] at ho'
  have hout' := (Except.ok.inj ho').symm
  set a := simulate minP res ds (some F) with ha
  set b := postSelect ps h keep a.1 with hb
  have hout : probsSvdMix minP 0 ms ds uf h ps keep
      = .ok ⟨b.1, prePhys F ms * a.2, (W / prePhys F ms) * b.2⟩ := by
    unfold probsSvdMix
    rw [hchk]
    simp only [← hF, preThreshold_exact hmin, preKept_exact hmin F ms hp, hmask, ← hkdef, ← hD, ← hres, hresne,
      Bool.false_eq_true, if_false, simulateThr_zero, ← ha, ← hb, hmix2, hWpos, hphys0, and_self, if_true]
  set R := (simulateRaw minP res ds (some F)).1 with hRdef
  -- the three ingredients
  have hb2 : b.2 = mass (a.1.filter fun e => accepted ps h e.1) := by
    rw [hout'] at hlg'
    simp only [hres1, one_mul] at hlg'
    exact hlg'
  have ha2 : a.2 = mass R := by
    rw [hout'] at hph'
    simp only [one_mul] at hph'
    exact hph'
  have ha1 : a.1 = normalize R := by
    rw [ha]; unfold simulate; simp only [if_neg hbr]; rfl
  have hacc : mass (R.filter fun e => accepted ps h e.1)
      = (kept.map fun m =>
          m.p * mass ((simulateRaw minP m.base ds (some F)).1.filter fun e => accepted ps h e.1)).sum / W := by
    rw [hRdef, simulateRaw_accMass_linear hmin ds hwf res hresnn hreslen (some F) (fun t => accepted ps h t) hbr,
      hres, sum_normalize D hWne (fun s => accOf minP ds (some F) (fun t => accepted ps h t) s), hD,
      mixRaw_sum h false kept (fun s => accOf minP ds (some F) (fun t => accepted ps h t) s), ← hD, hDmass]
    congr 2
    apply List.map_congr_left
    intro m hm
    have hmne : ¬ (m.base.isEmpty ∨ detectionType ds = .PNR) := by
      have h1 := (hbase m (hkm m hm)).2.1
      cases hmb : m.base with
      | nil => rw [hmb] at h1; simp at h1
      | cons e l => simpa using hty
    rw [hraw, simulateRaw_accMass_linear hmin ds hwf m.base (hbase m (hkm m hm)).1 (hbase m (hkm m hm)).2.2 (some F)
      (fun t => accepted ps h t) hmne]
  have hP : prePhys F ms ≠ 0 := ne_of_gt hphys0
  have hW' : W ≠ 0 := ne_of_gt hWpos
  have hprod : prePhys F ms * a.2 * ((W / prePhys F ms) * b.2)
      = (kept.map fun m =>
          m.p * mass ((simulateRaw minP m.base ds (some F)).1.filter fun e => accepted ps h e.1)).sum := by
    rw [hb2, ha1, mass_filter_normalize _ R hR, ha2, hacc]
    field_simp
  have hsame : out0 = ⟨b.1, prePhys F ms * a.2, (W / prePhys F ms) * b.2⟩ := by
    rw [hout] at hout0
    exact (Except.ok.inj hout0).symm
  refine ⟨_, hout, hprod, ?_⟩
  rw [hsame] at hphys
  simp only at hphys
  show (W / prePhys F ms) * b.2 * _ = W * _
  rw [← hphys, ← hprod]
  ring

end mixture

/-- **the quirk on a concrete input** (replayed on the real code by the harness, corpus
`sample-empty-kernel-quirk.json`): with `min_p = 1/2`, `Detector.ppnr(2).detect(2)` is the EMPTY dictionary (both
entries are `1/2`, not `> min_p`), and `simulate_detectors_sample(|1,2,1>, [None, ppnr(2), None])` returns the ONE-mode
state `|1>`; with the empty result in the last mode nothing is left to draw from -/
theorem sample_quirk_witness :
    (Det.wired 2 2).detect (1 / 2 : ℚ) 2 = .dist [] ∧
    sampleLaw true (1 / 2 : ℚ) [.none, .det (.wired 2 2), .none] [1, 2, 1] = .ok [([1], 1)] ∧
    sampleLaw true (1 / 2 : ℚ) [.none, .det (.wired 2 2)] [1, 2] = .ok [] := by
  have h : detectWired 2 2 (1 / 2 : ℚ) 2 = [] := by
    norm_num [detectWired, detectLoop, List.range', addP, bump, condProb]
  have hd : (Det.wired 2 2).detect (1 / 2 : ℚ) 2 = .dist [] := by
    rw [detect_wired_big 2 2 _ (by omega) (by omega), h]
  have hk : (AnyDet.det (.wired 2 2) : AnyDet ℚ).kernel (1 / 2) 2 = [] := by
    show ((Det.wired 2 2).detect (1 / 2 : ℚ) 2).toDist = []
    rw [hd]; rfl
  have hty3 : detectionType ([.none] ++ .det (.wired 2 2) :: [.none] : List (AnyDet ℚ)) = .Mixed := by
    simp [detectionType, detTypeLoop, AnyDet.type, Det.type]
  have hty2 : detectionType ([.none] ++ .det (.wired 2 2) :: [] : List (AnyDet ℚ)) = .Mixed := by
    simp [detectionType, detTypeLoop, AnyDet.type, Det.type]
  refine ⟨hd, ?_, ?_⟩
  · have h3 := (sample_restarts_after_empty_kernel (1 / 2 : ℚ) [1] [1] 2 [.none] [.none] (.det (.wired 2 2))
      rfl hk (by rw [hty3]; exact ⟨by decide, by decide⟩)).1
    show sampleLaw true (1 / 2 : ℚ) ([.none] ++ .det (.wired 2 2) :: [.none]) ([1] ++ 2 :: [1]) = _
    rw [h3]; rfl
  · have h3 := (sample_restarts_after_empty_kernel (1 / 2 : ℚ) [1] [] 2 [.none] [] (.det (.wired 2 2))
      rfl hk (by rw [hty2]; exact ⟨by decide, by decide⟩)).2.1 rfl
    exact h3

/-! ## histories that change `global_params['min_p']` between the calls on one instance (extension round 4)

`Model/C08Hist.lean`: an operation carries the `min_p` in force when it runs.  The repaired code
(fixes/C08-detect-cache-stale-minp.diff: `_sync_cache()` empties `_cache` when `min_p` differs from the value the
cached dictionaries were computed with) is the main model; the pinned code (cache looked up by photon count alone) is
kept as `fixed = false` with its exact law and the witness of the defect. -/
section minpHistory
variable {K : Type} [Field K] [LinearOrder K]

/-- **a long-lived `Detector` answers as a fresh one at the CURRENT `min_p`** — over ANY history of `detect(n)` calls
with ANY sequence of `min_p` values (memo table of `_cond_probability`, `_cache` and `_cache_min_p` threaded through).
Together with `detect_fold_minp` / `kernel_entry_minp` every answer is the click law of the physical description with
exactly the contributions not above the current `min_p` removed. -/
theorem detect_history_minp_eq_fresh (d : Det) (ops : List (K × ℕ)) :
    (SM.run (detectInstH true d) ⟨⟨[], []⟩, none⟩ ops).2 = ops.map fun op => (op.2, d.detect op.1 op.2) :=
  run_outputs_eq_map (detectInstH true d) (InstH.Valid d) (fun op => (op.2, d.detect op.1 op.2))
    (fun s op h => detectInstH_fixed_step d s op h) ⟨⟨[], []⟩, none⟩ (InstH.valid_init d) ops

/-- the same for `BSLayeredPPNR`, over any history of `detect(n)` at any `min_p` and `clear_cache()` calls -/
theorem bs_history_minp_eq_fresh (L : ℕ) (r : K) (ops : List (Option (K × ℕ))) :
    (SM.run (bsInstH true L r) ⟨[], none⟩ ops).2 = ops.map (bsFresh L r) :=
  run_outputs_eq_map (bsInstH true L r) (BsH.Valid L r) (bsFresh L r)
    (fun s op h => bsInstH_fixed_step L r s op h) ⟨[], none⟩
    ⟨fun p h => (by cases h), fun _ => rfl⟩ ops

/-- **exact law of the PINNED code**: along any history every `detect(n)` returns the fresh answer at the `min_p` of
the FIRST call with that photon count (`staleOuts`), whatever `min_p` is now. -/
theorem detect_history_minp_pinned_law (d : Det) (ops : List (K × ℕ)) :
    (SM.run (detectInstH false d) ⟨⟨[], []⟩, none⟩ ops).2 = staleOuts d [] ops := by
  have key : ∀ (ops pre : List (K × ℕ)) (s : InstH K), InstH.Stale d pre s →
      (SM.run (detectInstH false d) s ops).2 = staleOuts d pre ops := by
    intro ops
    induction ops with
    | nil => intro pre s _; rfl
    | cons op rest ih =>
      intro pre s h
      obtain ⟨h1, h2⟩ := detectInstH_stale_step d pre s op h
      simp only [SM.run, staleOuts]
      rw [h2, ih _ _ h1]
  exact key ops [] _ (InstH.stale_init d)

/-- the pinned code is transparent as long as `min_p` never changes (the earlier `detect_history_eq_fresh`, here as a
corollary of the exact law): the defect needs two calls with the same photon count at different `min_p` -/
theorem detect_history_minp_pinned_constant (d : Det) (minP : K) (ns : List ℕ) :
    (SM.run (detectInstH false d) ⟨⟨[], []⟩, none⟩ (ns.map fun n => (minP, n))).2 =
      ns.map fun n => (n, d.detect minP n) := by
  rw [detect_history_minp_pinned_law]
  have key : ∀ (ns : List ℕ) (pre : List (K × ℕ)), (∀ e ∈ pre, e.1 = minP) →
      staleOuts d pre (ns.map fun n => (minP, n)) = ns.map fun n => (n, d.detect minP n) := by
    intro ns
    induction ns with
    | nil => intro pre _; rfl
    | cons n rest ih =>
      intro pre hp
      simp only [List.map_cons, staleOuts]
      have hf : (firstP pre n).getD minP = minP := by
        unfold firstP
        cases hfind : pre.find? fun e => e.2 = n with
        | none => rfl
        | some e => simpa using hp e (List.mem_of_find?_eq_some hfind)
      rw [hf, ih (pre ++ [(minP, n)])]
      intro e he
      rcases List.mem_append.mp he with he | he
      · exact hp e he
      · simp at he; rw [he]
  exact key ns [] (by intro e he; cases he)

/-- **the defect of the pinned tree** (`Detector.ppnr(3)`: `detect(4)` first at `min_p = 1/20`, then at `min_p = 0`):
the second call returns the dictionary of the first, without the reading `|1>` (probability 1/27) -/
theorem detect_history_minp_fails_on_current_code :
    ¬ ∀ (d : Det) (ops : List (ℚ × ℕ)),
      (SM.run (detectInstH false d) ⟨⟨[], []⟩, none⟩ ops).2 = ops.map fun op => (op.2, d.detect op.1 op.2) := by
  intro h
  have h1 := h (.wired 3 3) [(1 / 20, 4), (0, 4)]
  rw [detect_history_minp_pinned_law] at h1
  have ha : detectWired 3 3 (20⁻¹ : ℚ) 4 = [(2, 14 / 27), (3, 4 / 9)] := by
    norm_num [detectWired, detectLoop, List.range', addP, bump, condProb]
  have hb : detectWired 3 3 (0 : ℚ) 4 = [(1, 1 / 27), (2, 14 / 27), (3, 4 / 9)] := by
    norm_num [detectWired, detectLoop, List.range', addP, bump, condProb]
  simp [staleOuts, firstP, Det.detect, Det.type, hb] at h1
  rw [ha] at h1
  simp at h1

/-- **exact law of the PINNED `BSLayeredPPNR`** (target of round 6): along ANY history of `detect(n)` calls at ANY sequence
of `min_p` values and `clear_cache()` calls, every `detect(n)` returns the fresh dictionary at the `min_p` of the FIRST
`detect(n)` made SINCE THE LAST `clear_cache()` (`bsStaleOuts`), whatever `min_p` is now (`n < 2`: the state itself). -/
theorem bs_history_minp_pinned_law (L : ℕ) (r : K) (ops : List (Option (K × ℕ))) :
    (SM.run (bsInstH false L r) ⟨[], none⟩ ops).2 = bsStaleOuts L r [] ops :=
  bs_stale_run L r ops [] _ (BsH.stale_init L r none)

/-- the pinned tree is transparent as long as `min_p` never changes (corollary of the exact law) -/
theorem bs_history_minp_pinned_constant (L : ℕ) (r minP : K) (ops : List (Option ℕ)) :
    (SM.run (bsInstH false L r) ⟨[], none⟩ (ops.map fun o => o.map fun n => (minP, n))).2
      = ops.map fun o => o.map fun n => (n, bsDetectP minP L r n) := by
  rw [bs_history_minp_pinned_law]
  exact bsStaleOuts_const L r minP ops [] (by intro e he; cases he)

/-- **`clear_cache()` is the work-around on the pinned code**: after ANY history, `clear_cache()` followed by `detect(n)`
answers at the CURRENT `min_p`, and the rest of the history goes on from that single call -/
theorem bs_history_minp_pinned_clear_refreshes (L : ℕ) (r : K) (ops : List (Option (K × ℕ))) (op : K × ℕ)
    (rest : List (Option (K × ℕ))) :
    (SM.run (bsInstH false L r) (SM.exec (bsInstH false L r) ⟨[], none⟩ ops) (none :: some op :: rest)).2
      = none :: some (op.2, bsDetectP op.1 L r op.2) :: bsStaleOuts L r [op] rest := by
  obtain ⟨pre, hpre⟩ := bs_stale_exec L r ops [] _ (BsH.stale_init L r none)
  rw [bs_stale_run L r _ pre _ hpre, bsStaleOuts_after_clear]

/-- **the defect of the pinned tree on `BSLayeredPPNR`** (`BSLayeredPPNR(1)`, reflectivity 1/2: `detect(2)` first at
`min_p = 1/4`, then at `min_p = 0`): the second call returns the dictionary of the first, `{|2>: 1/2}`, instead of
`{|1>: 1/2, |2>: 1/2}` -/
theorem bs_history_minp_fails_on_current_code :
    ¬ ∀ (L : ℕ) (r : ℚ) (ops : List (Option (ℚ × ℕ))),
      (SM.run (bsInstH false L r) ⟨[], none⟩ ops).2 = ops.map (bsFresh L r) := by
  intro h
  have h1 := h 1 (1 / 2) [some (1 / 4, 2), some (0, 2)]
  rw [bs_history_minp_pinned_law] at h1
  have ha : aggregate (treeOccP (1 / 4 : ℚ) (1 / 2) 1 2) = [(2, 1 / 2)] := by
    norm_num [aggregate, treeOccP, treeOcc, scaleTensor, clicks, bump, List.range_succ, List.flatMap, Nat.choose]
  have hb : aggregate (treeOccP (0 : ℚ) (1 / 2) 1 2) = [(1, 1 / 2), (2, 1 / 2)] := by
    norm_num [aggregate, treeOccP, treeOcc, scaleTensor, clicks, bump, List.range_succ, List.flatMap, Nat.choose]
  simp only [bsStaleOuts, bsFresh, firstP, bsDetectP, List.map_cons, List.map_nil, List.nil_append, List.find?_nil,
    List.find?_cons, Option.map_none, Option.getD_none] at h1
  norm_num [ha, hb] at h1

end minpHistory


/-! ## extension round 9 — `copy()` as a model operation (`Model/C08Copy.lean`)

`IDetector.copy` is `copy.copy(self)`: the copy's `_cache` IS the original's dictionary, `_cache_min_p` is copied by
value; `_sync_cache()` and `BSLayeredPPNR.clear_cache()` REBIND `_cache` of the object they run on.  The model is a
heap of dictionaries and objects; the single-object step is the existing `detectInstH true` / `bsInstH true`. -/
section copyHistory
variable {K : Type} [Field K] [LinearOrder K]

/-- **`copy()` is transparent, `Detector`**: over ANY history of `obj_i.detect(n)` calls at ANY sequence of `min_p`
values, interleaved with `obj_i.copy()` calls (each creating a new object that shares the dictionary of `obj_i`), on
the whole family of copies of one `Detector`, every `detect` of an existing object returns exactly what a FRESH
detector returns at the CURRENT `min_p` (`heapSpec`: `some (n, d.detect minP n)`), whichever object wrote the shared
dictionary before. -/
theorem detect_copy_history_eq_fresh (d : Det) (ops : List (HeapOp K)) :
    (SM.run (detHeapStep d) (Heap.init ([] : Memo K)) ops).2 =
      (SM.run (heapSpec fun op : K × ℕ => (op.2, d.detect op.1 op.2)) 1 ops).2 :=
  heap_run_eq_spec (detView d) (detEarly d) [] (MemoOk d) (DetCellOk d) _
    (fun m c mk op hA hB => detView_step d m c mk op hA hB)
    (fun m c mk op h => detView_mark d m c mk op h)
    (InstH.valid_init (K := K) d).1
    (fun mk => ⟨fun p _ t ht => ht.valid_empty p, fun _ => rfl⟩) ops

/-- **`copy()` is transparent, `BSLayeredPPNR`**: the same over histories of `detect(n)` at any `min_p`, `copy()` and
`clear_cache()` on any object of the family. -/
theorem bs_copy_history_eq_fresh (L : ℕ) (r : K) (ops : List (HeapOp K)) :
    (SM.run (bsHeapStep L r) (Heap.init ()) ops).2 =
      (SM.run (heapSpec fun op : K × ℕ => (op.2, bsDetectP op.1 L r op.2)) 1 ops).2 :=
  heap_run_eq_spec (bsView L r) bsEarly () (fun _ => True) (fun c mk => BsH.Valid L r ⟨c, mk⟩) _
    (fun m c mk op hA hB => bsView_step L r m c mk op hA hB)
    (fun m c mk op h => bsView_mark L r m c mk op h)
    trivial
    (fun mk => ⟨fun p _ => bsValid_nil p L r, fun _ => rfl⟩) ops

/-- `copy()` really shares: the new object is bound to the SAME dictionary as `obj_i` and carries the same marker (so a
later write through either object is seen by the other until one of them rebinds) -/
theorem copy_shares_dictionary {M Out : Type} (det : View M K → K × ℕ → View M K × Out) (early : ℕ → Bool) (m0 : M)
    (h : Heap M K) (i : ℕ) (hi : i < h.nObjs) :
    ((heapStep det early m0 h (.copy i)).1.objs h.nObjs).2 = (h.objs i).2 ∧
      (heapStep det early m0 h (.copy i)).1.nObjs = h.nObjs + 1 ∧
      (heapStep det early m0 h (.copy i)).1.cells = h.cells := by
  simp [heapStep, hi]

/-- a write through one object lands in the dictionary the other one reads: the model's heap after
`obj0.copy(); obj1.detect(n)` with equal markers holds ONE dictionary seen by both -/
theorem shared_write_is_seen {M Out : Type} (det : View M K → K × ℕ → View M K × Out) (early : ℕ → Bool) (m0 : M)
    (h : Heap M K) (i j : ℕ) (p : K) (n : ℕ) (hi : i < h.nObjs)
    (hshare : (h.objs i).2.1 = (h.objs j).2.1) (hmk : (h.objs i).2.2 = some p) :
    let h' := (heapStep det early m0 h (.detect i p n)).1
    h'.cells (h'.objs j).2.1 = (det ((h.objs i).1, h.cells (h.objs i).2.1, (h.objs i).2.2) (p, n)).1.2.1 := by
  by_cases hji : j = i
  · simp [heapStep, hi, hmk, hji]
  · simp [heapStep, hi, hmk, hji, hshare]

/-- reading of the specification: an answer can only come from a `detect` of the history and is the fresh answer of
that call -/
theorem heapSpec_answers_fresh {Out : Type} (fresh : K × ℕ → Out) (ops : List (HeapOp K)) (k : ℕ) :
    ∀ o ∈ (SM.run (heapSpec fresh) k ops).2, ∀ x, o = some x →
      ∃ i p n, HeapOp.detect i p n ∈ ops ∧ x = fresh (p, n) := by
  induction ops generalizing k with
  | nil => intro o ho; simp [SM.run] at ho
  | cons op rest ih =>
    intro o ho x hx
    simp only [SM.run, List.mem_cons] at ho
    rcases ho with ho | ho
    · cases op with
      | detect i p n =>
        simp only [heapSpec] at ho
        subst hx
        by_cases hlt : i < k
        · simp only [hlt, if_true, Option.some.injEq] at ho
          exact ⟨i, p, n, List.mem_cons_self, ho⟩
        · simp [hlt] at ho
      | copy i => simp [heapSpec, hx] at ho
      | clear i => simp [heapSpec, hx] at ho
    · obtain ⟨i, p, n, hm, he⟩ := ih _ o ho x hx
      exact ⟨i, p, n, List.mem_cons_of_mem _ hm, he⟩

/-- the specification answers every `detect` of an existing object: original, then its copy, then a copy of the copy -/
example (fresh : ℚ × ℕ → ℕ) (p q : ℚ) :
    (SM.run (heapSpec fresh) 1 [.detect 0 p 3, .copy 0, .detect 1 q 3, .copy 1, .clear 2, .detect 2 p 4,
      .detect 3 p 4]).2 = [some (fresh (p, 3)), none, some (fresh (q, 3)), none, none, some (fresh (p, 4)), none] := by
  simp [SM.run, heapSpec]

end copyHistory



/-! ## non-vacuity and concrete values (evaluated by the kernel over ℚ) -/
section examples

/-- the documented example: `Detector.ppnr(5, 2).detect(3)` = `{|1>: 0.04, |2>: 0.96}` -/
example : (Det.wired 5 2).detect (0 : ℚ) 3 = .dist [(1, 1 / 25), (2, 24 / 25)] := by
  have h : detectWired 5 2 (0 : ℚ) 3 = [(1, 1 / 25), (2, 24 / 25)] := by
    norm_num [detectWired, detectLoop, List.range', addP, bump, condProb]
  simp [Det.detect, Det.type, h]

/-- hypotheses of `detect_fold` / `detect_mass_one` are satisfiable: `Detector.ppnr(5, 2)` -/
example : mkDetector (some 5) (some 2) = .ok (.wired 5 2) ∧ (some 2 : Option ℕ) ≠ some 0 ∧ (0 : ℚ) ≤ 0 := by
  refine ⟨rfl, by decide, le_refl _⟩

/-- `threshold_reads_min_one`: `Detector.threshold()` is constructible -/
example : mkDetector (some 1) none = .ok (.wired 1 1) := rfl

/-- `detect_fold_minp`: `2 ≤ w`, `2 ≤ n` -/
example : (2 : ℕ) ≤ 5 ∧ (2 : ℕ) ≤ 3 := by omega

/-- `condProb_sum_one`: `0 < w` -/
example : (0 : ℕ) < 5 := by omega

/-- `condProb_memo_transparent`: the empty memo table is valid -/
example : Memo.Valid 5 ([] : Memo ℚ) := Memo.valid_nil 5

/-- `bsDetect_mass_one`: `BSLayeredPPNR(2, 1/3)` is constructible -/
example : mkBS 2 (1 / 3 : ℚ) = .ok (2, 1 / 3) := by
  norm_num [mkBS]

/-- `detectionType_uniform` / `detectionType_mixed`: a two-element mixed list -/
example : detectionType ([.det (.wired 1 1), .none] : List (AnyDet ℚ)) = .Mixed :=
  detectionType_mixed _ (.det (.wired 1 1)) .none (by simp) (by simp) (by decide)

/-- `simulate_detectors_mass`: a well-formed detector list, a normalised non-negative input of the
right length, in the general branch, with retained mass ≠ 0 -/
example :
    let ds : List (AnyDet ℚ) := [.det (.wired 2 2), .none]
    let dist : Dist (List ℕ) ℚ := [([2, 0], 1 / 2), ([1, 1], 1 / 2)]
    (∀ d ∈ ds, d.WF) ∧ Nonneg dist ∧ (∀ e ∈ dist, e.1.length = ds.length) ∧ mass dist = 1 ∧
      ¬ (dist.isEmpty ∨ detectionType ds = .PNR) := by
  refine ⟨?_, ?_, ?_, ?_, ?_⟩
  · intro d hd
    simp only [List.mem_cons, List.not_mem_nil, or_false] at hd
    rcases hd with rfl | rfl
    · show 0 < 2; omega
    · trivial
  · intro e he
    simp only [List.mem_cons, List.not_mem_nil, or_false] at he
    rcases he with rfl | rfl <;> norm_num
  · intro e he
    simp only [List.mem_cons, List.not_mem_nil, or_false] at he
    rcases he with rfl | rfl <;> rfl
  · norm_num [mass]
  · simp [detectionType, detTypeLoop, AnyDet.type, Det.type]

/-- `simulate_pnr_identity`: hypothesis satisfiable -/
example : detectionType ([.none, .det .pnr] : List (AnyDet ℚ)) = .PNR := by
  simp [detectionType, detTypeLoop, AnyDet.type, Det.type]

/-- `simulate_detectors_pointwise` / `sample_law_is_kernel_product`: hypotheses satisfiable
(`[Detector.ppnr(2), None]` on `|2,0>`), and the kernel product at `|1,0>` is `1/2` -/
example :
    let ds : List (AnyDet ℚ) := [.det (.wired 2 2), .none]
    (∀ d ∈ ds, d.WF) ∧ ([2, 0] : List ℕ).length = ds.length ∧
      kprod (kernels (0 : ℚ) ds [2, 0]) [1, 0] = 1 / 2 := by
  refine ⟨?_, rfl, ?_⟩
  · intro d hd
    simp only [List.mem_cons, List.not_mem_nil, or_false] at hd
    rcases hd with rfl | rfl
    · show 0 < 2; omega
    · trivial
  · have h : detectWired 2 2 (0 : ℚ) 2 = [(1, 1 / 2), (2, 1 / 2)] := by
      norm_num [detectWired, detectLoop, List.range', addP, bump, condProb]
    have hd : (Det.wired 2 2).detect (0 : ℚ) 2 = .dist [(1, 1 / 2), (2, 1 / 2)] := by
      rw [detect_wired_big 2 2 0 (by omega) (by omega), h]
    norm_num [kernels, kprod, AnyDet.kernel, AnyDet.detect, hd, DetOut.toDist, wt]

/-- `bsTree_half_eq_detector`: `Detector(2^2)` is constructible; and a value of the tree law -/
example : mkDetector (some (2 ^ 2)) none = .ok (.wired 4 4) := rfl

example : prob (bsDetect 1 (1 / 2 : ℚ) 2).toDist 1 = 1 / 2 := by
  rw [bsTree_half_closed]; norm_num [Nat.stirlingSecond, Nat.choose]

/-- `simulate_detectors_minp_bound` / `simulate_detectors_mass_minp`: hypotheses satisfiable at the shipped `min_p = 1e-16`
(`[Detector.ppnr(2), None]`, a normalised input, general branch) -/
example :
    let ds : List (AnyDet ℚ) := [.det (.wired 2 2), .none]
    let dist : Dist (List ℕ) ℚ := [([2, 0], 1 / 2), ([1, 1], 1 / 2)]
    (0 : ℚ) ≤ 1 / 10 ^ 16 ∧ (∀ d ∈ ds, d.WF) ∧ Nonneg dist ∧
      (∀ e ∈ dist, e.1.length = ds.length) ∧ ¬ (dist.isEmpty ∨ detectionType ds = .PNR) := by
  refine ⟨by norm_num, ?_, ?_, ?_, ?_⟩
  · intro d hd
    simp only [List.mem_cons, List.not_mem_nil, or_false] at hd
    rcases hd with rfl | rfl
    · show 0 < 2; omega
    · trivial
  · intro e he
    simp only [List.mem_cons, List.not_mem_nil, or_false] at he
    rcases he with rfl | rfl <;> norm_num
  · intro e he
    simp only [List.mem_cons, List.not_mem_nil, or_false] at he
    rcases he with rfl | rfl <;> rfl
  · simp [detectionType, detTypeLoop, AnyDet.type, Det.type]

/-- `bsTree_leaf_law_from_fock` / `tree_circuit_path_weights` / `bsTree_leaf_law_from_fock_general`: hypotheses
satisfiable — reflectivity `9/25` with amplitudes `c = 3/5`, `s = 4i/5` in ℚ[i] -/
example : GQ.normSq ⟨3 / 5, 0⟩ = (9 / 25 : ℚ) ∧ GQ.normSq ⟨0, 4 / 5⟩ = 1 - (9 / 25 : ℚ) := by
  constructor <;> norm_num [GQ.normSq]

example : nsq (⟨3 / 5, 0⟩ : GQ) = GQ_ofRatHom (9 / 25) ∧ nsq (⟨0, 4 / 5⟩ : GQ) = GQ_ofRatHom (1 - 9 / 25) ∧
    nsq (⟨0, 4 / 5⟩ : GQ) = 1 - GQ_ofRatHom (9 / 25) := by
  refine ⟨?_, ?_, ?_⟩ <;> (ext <;> simp [nsq, GQ.ofRat, sub_eq_add_neg] <;> norm_num)

/-- a value of the first column: depth 2, leaf 3 (bits 11) has amplitude `s·s = (4i/5)² = -16/25` -/
example : treeU (⟨3 / 5, 0⟩ : GQ) ⟨0, 4 / 5⟩ 2 ⟨3, by norm_num⟩ ⟨0, Nat.two_pow_pos 2⟩ = ⟨-16 / 25, 0⟩ := by
  rw [tree_circuit_first_column]
  ext <;> simp [onesL, pow_two] <;> norm_num

/-- `single_mode_amplitude` & co: a state with `n` photons exists for the single-mode input -/
example : ([1, 0, 2, 0] : List ℕ).sum = 3 ∧ ([1, 0, 2, 0] : List ℕ).length = 2 ^ 2 := by decide

/-- `probs_svd_conditioned_law`: hypotheses satisfiable — two photons on `Detector.ppnr(2)`, herald expecting the
reading 1 on that mode (the readings law is `{|1>: 1/2, |2>: 1/2}`, retained mass 1) -/
example :
    let ds : List (AnyDet ℚ) := [.det (.wired 2 2)]
    let base : Dist (List ℕ) ℚ := [([2], 1)]
    (0 : ℚ) ≤ 0 ∧ (∀ d ∈ ds, d.WF) ∧ Nonneg base ∧ (∀ e ∈ base, e.1.length = ds.length) ∧ mass base = 1 ∧
      checkHeralds [(0, 1)] ds = .ok true ∧ detectionType ds ≠ .PNR ∧
      mass (simulateRaw (0 : ℚ) base ds none).1 ≠ 0 ∧
      accepted PM.SimSpec.PS.tt [(0, 1)] [1] = true ∧ belowFilter none [1] = false := by
  have h : detectWired 2 2 (0 : ℚ) 2 = [(1, 1 / 2), (2, 1 / 2)] := by
    norm_num [detectWired, detectLoop, List.range', addP, bump, condProb]
  have hd : (Det.wired 2 2).detect (0 : ℚ) 2 = .dist [(1, 1 / 2), (2, 1 / 2)] := by
    rw [detect_wired_big 2 2 0 (by omega) (by omega), h]
  have hty : detectionType ([.det (.wired 2 2)] : List (AnyDet ℚ)) = .PPNR := by
    simp [detectionType, detTypeLoop, AnyDet.type, Det.type]
  refine ⟨le_refl _, ?_, ?_, ?_, ?_, rfl, ?_, ?_, ?_, rfl⟩
  · intro d hd'
    simp only [List.mem_cons, List.not_mem_nil, or_false] at hd'
    subst hd'
    show 0 < 2; omega
  · intro e he
    simp only [List.mem_cons, List.not_mem_nil, or_false] at he
    subst he; norm_num
  · intro e he
    simp only [List.mem_cons, List.not_mem_nil, or_false] at he
    subst he; rfl
  · norm_num [mass]
  · rw [hty]; decide
  · simp [simulateRaw, hty, simGeneral, simState, stateDist, listTensor, AnyDet.kernel, AnyDet.detect, hd,
      DetOut.toDist, belowFilter, addP, bump, mass]
  · simp [accepted, heraldsOk, PM.SimSpec.PS.eval]

/-- `probs_svd_pnr_conditioned_law` / `post_select_is_conditioning`: hypotheses satisfiable — the dictionary
`{|1,1>: 1/2, |2,0>: 1/2}` with the herald `{0: 1}`, no detector -/
example :
    let base : Dist (List ℕ) ℚ := [([1, 1], 1 / 2), ([2, 0], 1 / 2)]
    (keys base).Nodup ∧ KeysLen base 2 ∧ checkHeralds [(0, 1)] ([] : List (AnyDet ℚ)) = .ok true ∧
      detectionType ([] : List (AnyDet ℚ)) = .PNR ∧
      mass (if useMask [(0, 1)] ([] : List (AnyDet ℚ)) then selectHeralds [(0, 1)] base else base) ≠ 0 ∧
      accepted PM.SimSpec.PS.tt [(0, 1)] [1, 1] = true := by
  refine ⟨by simp [keys], ?_, rfl, rfl, ?_, ?_⟩
  · intro e he
    simp only [List.mem_cons, List.not_mem_nil, or_false] at he
    rcases he with rfl | rfl <;> rfl
  · simp [useMask, detectionType, selectHeralds, heraldsOk, mass]
  · simp [accepted, heraldsOk, PM.SimSpec.PS.eval]

/-- `check_heralds_*`: a herald of 3 photons on `Detector.ppnr(2)` exceeds it (result `False`), a
herald of 2 does not (`True`), a herald on a mode outside the list raises -/
example :
    let ds : List (AnyDet ℚ) := [.det (.wired 2 2), .none]
    HeraldExceeds ds (0, 3) ∧ ¬ HeraldExceeds ds (0, 2) ∧ HeraldInRange ds (0, 3) ∧
      ¬ HeraldInRange ds (2, 1) ∧ ds ≠ [] ∧
      checkHeralds [(1, 7), (0, 3)] ds = .ok false ∧
      checkHeralds [(1, 7), (0, 2)] ds = .ok true ∧
      checkHeralds [(2, 1), (0, 3)] ds = .error "IndexError" := by
  refine ⟨⟨_, 2, rfl, rfl, by omega⟩, ?_, by show 0 < 2; omega, by show ¬ 2 < 2; omega,
    by simp, rfl, rfl, rfl⟩
  rintro ⟨d, mx, h1, h2, h3⟩
  simp only [List.getElem?_cons_zero, Option.some.injEq] at h1
  subst h1
  simp only [AnyDet.maxDetections, Det.maxDetections, Option.some.injEq] at h2
  subst h2
  omega

/-- `simulate_detectors_threshold_bound` / `_normalised`, `simulate_detectors_phys_minp` / `_normalised_minp`,
`threshold_dropped_state_is_small`: hypotheses satisfiable with `prob_threshold = 1/1000`
(`[Detector.ppnr(2), None]` on `{|2,0>: 1/2, |1,1>: 1/2}`): the slack of the retained mass is `9/5000`, below the
exact retained mass `1`.  (Positive `min_p` together with a positive threshold: the slacks are evaluated by the driver
on every run and the harness requires cases in which `massSlack < retained mass` — branch `thr-bound-checked`.) -/
example :
    let ds : List (AnyDet ℚ) := [.det (.wired 2 2), .none]
    let dist : Dist (List ℕ) ℚ := [([2, 0], 1 / 2), ([1, 1], 1 / 2)]
    (0 : ℚ) ≤ 0 ∧ (0 : ℚ) ≤ 1 / 1000 ∧ (∀ d ∈ ds, d.WF) ∧ Nonneg dist ∧
      (∀ e ∈ dist, e.1.length = ds.length) ∧ ¬ (dist.isEmpty ∨ detectionType ds = .PNR) ∧
      massSlack 0 (1 / 1000) ds dist < mass (simulateRaw 0 dist ds none).1 ∧
      (0 : ℚ) * addCalls 0 ds dist < mass (simulateRaw 0 dist ds none).1 := by
  have h0 : detectWired 2 2 (0 : ℚ) 2 = [(1, 1 / 2), (2, 1 / 2)] := by
    norm_num [detectWired, detectLoop, List.range', addP, bump, condProb]
  have hd0 : (Det.wired 2 2).detect (0 : ℚ) 2 = .dist [(1, 1 / 2), (2, 1 / 2)] := by
    rw [detect_wired_big 2 2 0 (by omega) (by omega), h0]
  have hd1 : (Det.wired 2 2).detect (0 : ℚ) 1 = .state 1 := detect_wired_small 2 2 0 (Or.inl (by omega))
  have hty : detectionType ([.det (.wired 2 2), .none] : List (AnyDet ℚ)) = .Mixed := by
    simp [detectionType, detTypeLoop, AnyDet.type, Det.type]
  have hwf : ∀ d ∈ ([.det (.wired 2 2), .none] : List (AnyDet ℚ)), d.WF := by
    intro d hd
    simp only [List.mem_cons, List.not_mem_nil, or_false] at hd
    rcases hd with rfl | rfl
    · show 0 < 2; omega
    · trivial
  have hnn : Nonneg ([([2, 0], 1 / 2), ([1, 1], 1 / 2)] : Dist (List ℕ) ℚ) := by
    intro e he
    simp only [List.mem_cons, List.not_mem_nil, or_false] at he
    rcases he with rfl | rfl <;> norm_num
  have hlen : ∀ e ∈ ([([2, 0], 1 / 2), ([1, 1], 1 / 2)] : Dist (List ℕ) ℚ),
      e.1.length = ([.det (.wired 2 2), .none] : List (AnyDet ℚ)).length := by
    intro e he
    simp only [List.mem_cons, List.not_mem_nil, or_false] at he
    rcases he with rfl | rfl <;> rfl
  have hbr : ¬ (([([2, 0], 1 / 2), ([1, 1], 1 / 2)] : Dist (List ℕ) ℚ).isEmpty ∨
      detectionType ([.det (.wired 2 2), .none] : List (AnyDet ℚ)) = .PNR) := by simp [hty]
  -- exact retained mass 1 (no filter: nothing is lost)
  have hM : mass (simulateRaw (0 : ℚ) [([2, 0], 1 / 2), ([1, 1], 1 / 2)] [.det (.wired 2 2), .none] none).1 = 1 := by
    have hb := (simulate_detectors_mass (le_refl (0 : ℚ)) _ hwf _ hnn hlen none).1
    have hphys : (simulateRaw (0 : ℚ) [([2, 0], 1 / 2), ([1, 1], 1 / 2)] [.det (.wired 2 2), .none] none).2 = 1 := by
      rw [simulateRaw_phys_linear _ _ _ _ hbr]
      simp [lossOf, hty, belowMass, belowFilter]
    rw [hphys] at hb
    norm_num [mass] at hb ⊢
    linarith
  have hs1 : (stateDist (0 : ℚ) [.det (.wired 2 2), .none] [2, 0]).length = 2 := by
    simp [stateDist, listTensor, AnyDet.kernel, AnyDet.detect, hd0, DetOut.toDist, innerTensor, bump]
    norm_num [bump]
  have hs2 : (stateDist (0 : ℚ) [.det (.wired 2 2), .none] [1, 1]).length = 1 := by
    simp [stateDist, listTensor, AnyDet.kernel, AnyDet.detect, hd1, DetOut.toDist, innerTensor, bump]
    norm_num
  refine ⟨le_refl _, by norm_num, hwf, hnn, hlen, hbr, ?_, ?_⟩
  · rw [hM]
    simp only [massSlack, physTerm, List.map_cons, List.map_nil, List.sum_cons, List.sum_nil, hs1, hs2, zero_mul,
      add_zero, zero_add]
    norm_num
  · rw [hM]; norm_num

/-- `sample_law_is_kernel_product_minp` / `sample_guard_of_small_minp`: the guard holds at the shipped `min_p` -/
example :
    let ds : List (AnyDet ℚ) := [.det (.wired 2 2), .none]
    (∀ d ∈ ds, d.WF) ∧ ([2, 0] : List ℕ).length = ds.length ∧ (0 : ℚ) ≤ 1 / 10 ^ 16 ∧
      ∀ p ∈ List.zip ([2, 0] : List ℕ) ds, (1 / 10 ^ 16 : ℚ) * (p.2.addCount p.1 : ℚ) < 1 := by
  refine ⟨?_, rfl, by norm_num, ?_⟩
  · intro d hd
    simp only [List.mem_cons, List.not_mem_nil, or_false] at hd
    rcases hd with rfl | rfl
    · show 0 < 2; omega
    · trivial
  · intro p hp
    simp only [List.zip_cons_cons, List.zip_nil_right, List.mem_cons, List.not_mem_nil, or_false] at hp
    rcases hp with rfl | rfl <;> norm_num [AnyDet.addCount]

/-- `probs_svd_mix_law` / `simulate_phys_of_mixture` / `probs_svd_mix_phys_normalised`: hypotheses satisfiable — the
mixture `{|2>: 1/2, |1>: 1/2}` (a lossy source) on `Detector.ppnr(2)`, no herald, no filter -/
example :
    let ds : List (AnyDet ℚ) := [.det (.wired 2 2)]
    let ms : List (Member ℚ) := [⟨1 / 2, 2, [([2], 1)]⟩, ⟨1 / 2, 1, [([1], 1)]⟩]
    (0 : ℚ) ≤ 0 ∧ (∀ d ∈ ds, d.WF) ∧ (∀ m ∈ ms, 0 < m.p) ∧
      (∀ m ∈ ms, Nonneg m.base ∧ mass m.base = 1 ∧ ∀ e ∈ m.base, e.1.length = ds.length) ∧
      (0 : ℕ) = 0 + (([] : List (ℕ × ℕ)).map (·.2)).sum ∧ checkHeralds [] ds = .ok true ∧ detectionType ds ≠ .PNR ∧
      (ms.filter fun m => decide (0 ≤ m.n)) ≠ [] ∧ 0 < prePhys 0 ms ∧ (ms.map (·.p)).sum = 1 ∧
      mass (simulateRaw (0 : ℚ) (normalize (mixRaw [] false (ms.filter fun m => decide (0 ≤ m.n))).1) ds (some 0)).1 ≠ 0 ∧
      (∀ m ∈ ms, memberRaw [] false m ≠ []) ∧ (mixRaw [] false ms).1 ≠ [] := by
  have h : detectWired 2 2 (0 : ℚ) 2 = [(1, 1 / 2), (2, 1 / 2)] := by
    norm_num [detectWired, detectLoop, List.range', addP, bump, condProb]
  have hd : (Det.wired 2 2).detect (0 : ℚ) 2 = .dist [(1, 1 / 2), (2, 1 / 2)] := by
    rw [detect_wired_big 2 2 0 (by omega) (by omega), h]
  have hd1 : (Det.wired 2 2).detect (0 : ℚ) 1 = .state 1 := detect_wired_small 2 2 0 (Or.inl (by omega))
  have hty : detectionType ([.det (.wired 2 2)] : List (AnyDet ℚ)) = .PPNR := by
    simp [detectionType, detTypeLoop, AnyDet.type, Det.type]
  have hmix : (mixRaw ([] : List (ℕ × ℕ)) false
      ([⟨1 / 2, 2, [([2], 1)]⟩, ⟨1 / 2, 1, [([1], 1)]⟩] : List (Member ℚ))).1 = [([2], 1 / 2), ([1], 1 / 2)] := by
    norm_num [mixRaw, mixAdd, memberRaw, bump]
  refine ⟨le_refl _, ?_, ?_, ?_, rfl, rfl, by rw [hty]; decide, by simp, by norm_num [prePhys], by norm_num, ?_, ?_, ?_⟩
  · intro d hd'
    simp only [List.mem_cons, List.not_mem_nil, or_false] at hd'
    subst hd'
    show 0 < 2; omega
  · intro m hm
    simp only [List.mem_cons, List.not_mem_nil, or_false] at hm
    rcases hm with rfl | rfl <;> norm_num
  · intro m hm
    simp only [List.mem_cons, List.not_mem_nil, or_false] at hm
    rcases hm with rfl | rfl
    · refine ⟨by intro e he; simp at he; subst he; norm_num, by norm_num [mass], by intro e he; simp at he; subst he; rfl⟩
    · refine ⟨by intro e he; simp at he; subst he; norm_num, by norm_num [mass], by intro e he; simp at he; subst he; rfl⟩
  · have hf : (([⟨1 / 2, 2, [([2], 1)]⟩, ⟨1 / 2, 1, [([1], 1)]⟩] : List (Member ℚ)).filter
        fun m => decide (0 ≤ m.n)) = [⟨1 / 2, 2, [([2], 1)]⟩, ⟨1 / 2, 1, [([1], 1)]⟩] := by simp
    rw [hf, hmix]
    have hn : normalize ([([2], 1 / 2), ([1], 1 / 2)] : Dist (List ℕ) ℚ) = [([2], 1 / 2), ([1], 1 / 2)] :=
      normalize_of_mass_one _ (by norm_num [mass])
    rw [hn]
    simp [simulateRaw, hty, simGeneral, simState, stateDist, listTensor, AnyDet.kernel, AnyDet.detect, hd, hd1,
      DetOut.toDist, belowFilter, addP, bump, mass]
    norm_num
  · intro m hm
    simp only [List.mem_cons, List.not_mem_nil, or_false] at hm
    rcases hm with rfl | rfl <;> simp [memberRaw]
  · rw [hmix]; simp

/-- `probs_svd_mix_pnr_law`: hypotheses satisfiable at the shipped `min_p = 1e-16` and precision `1e-3` — a lossy two-mode
mixture, no detectors, herald `{0: 1}` (the backend mask is on) -/
example :
    let ds : List (AnyDet ℚ) := []
    let h : List (ℕ × ℕ) := [(0, 1)]
    let ms : List (Member ℚ) := [⟨1 / 2, 2, [([1, 1], 1 / 2), ([2, 0], 1 / 2)]⟩, ⟨1 / 2, 1, [([1, 0], 1 / 2), ([0, 1], 1 / 2)]⟩]
    (∀ m ∈ ms, (keys m.base).Nodup ∧ KeysLen m.base 2) ∧ (1 : ℕ) = 0 + (h.map (·.2)).sum ∧
      checkHeralds h ds = .ok true ∧ detectionType ds = .PNR ∧ useMask h ds = true ∧
      preKept (1 / 10000000000000000 : ℚ) (1 / 1000) 1 ms = ms ∧
      0 < mass (mixRaw h (useMask h ds) (preKept (1 / 10000000000000000 : ℚ) (1 / 1000) 1 ms)).1 ∧ 0 < prePhys 1 ms := by
  have hk : preKept (1 / 10000000000000000 : ℚ) (1 / 1000) 1
      ([⟨1 / 2, 2, [([1, 1], 1 / 2), ([2, 0], 1 / 2)]⟩, ⟨1 / 2, 1, [([1, 0], 1 / 2), ([0, 1], 1 / 2)]⟩] : List (Member ℚ))
      = [⟨1 / 2, 2, [([1, 1], 1 / 2), ([2, 0], 1 / 2)]⟩, ⟨1 / 2, 1, [([1, 0], 1 / 2), ([0, 1], 1 / 2)]⟩] := by
    norm_num [preKept, preThreshold, preMaxP]
  have hm : useMask [(0, 1)] ([] : List (AnyDet ℚ)) = true := by
    simp [useMask, detectionType]
  refine ⟨?_, rfl, rfl, by simp [detectionType], hm, hk, ?_, by norm_num [prePhys]⟩
  · intro m hm'
    simp only [List.mem_cons, List.not_mem_nil, or_false] at hm'
    rcases hm' with rfl | rfl
    · refine ⟨by simp [keys], ?_⟩
      intro e he; simp at he; rcases he with rfl | rfl <;> rfl
    · refine ⟨by simp [keys], ?_⟩
      intro e he; simp at he; rcases he with rfl | rfl <;> rfl
  · rw [hk, hm]
    norm_num [mixRaw, mixAdd, memberRaw, selectHeralds, heraldsOk, bump, mass]

/-- `reading_below_max_not_exact`: hypotheses satisfiable (`Detector.ppnr(3)`, reading 1 < 3) -/
example : mkDetector (some 3) none = .ok (.wired 3 3) ∧ (0 : ℚ) ≤ 0 ∧ (1 : ℕ) ≤ 1 ∧
    1 < (none : Option ℕ).getD 3 := by
  refine ⟨rfl, le_refl _, le_refl _, ?_⟩
  show 1 < 3
  omega


/-- round 6, `probs_svd_mix_pnr_hyps_iff` / `probs_svd_mix_pnr_law_of_weights`: hypotheses satisfiable at the shipped
`min_p = 1e-16` and precision `1e-3` — the lossy two-mode mixture of the example above, herald `{0: 1}` (mask on): the
first member keeps the mass `1/2` on `|1,1>` -/
example :
    let ds : List (AnyDet ℚ) := []
    let h : List (ℕ × ℕ) := [(0, 1)]
    let ms : List (Member ℚ) := [⟨1 / 2, 2, [([1, 1], 1 / 2), ([2, 0], 1 / 2)]⟩, ⟨1 / 2, 1, [([1, 0], 1 / 2), ([0, 1], 1 / 2)]⟩]
    (∀ m ∈ ms, 0 < m.p) ∧ (ms.map (·.p)).sum ≤ 1 ∧ (∀ m ∈ ms, Nonneg m.base) ∧
      ∃ m ∈ preKept (1 / 10000000000000000 : ℚ) (1 / 1000) 1 ms, 0 < mass (memberRaw h (useMask h ds) m) := by
  have hk : preKept (1 / 10000000000000000 : ℚ) (1 / 1000) 1
      ([⟨1 / 2, 2, [([1, 1], 1 / 2), ([2, 0], 1 / 2)]⟩, ⟨1 / 2, 1, [([1, 0], 1 / 2), ([0, 1], 1 / 2)]⟩] : List (Member ℚ))
      = [⟨1 / 2, 2, [([1, 1], 1 / 2), ([2, 0], 1 / 2)]⟩, ⟨1 / 2, 1, [([1, 0], 1 / 2), ([0, 1], 1 / 2)]⟩] := by
    norm_num [preKept, preThreshold, preMaxP]
  have hm : useMask [(0, 1)] ([] : List (AnyDet ℚ)) = true := by
    simp [useMask, detectionType]
  refine ⟨?_, by norm_num, ?_, ?_⟩
  · intro m hm'
    simp only [List.mem_cons, List.not_mem_nil, or_false] at hm'
    rcases hm' with rfl | rfl <;> norm_num
  · intro m hm'
    simp only [List.mem_cons, List.not_mem_nil, or_false] at hm'
    rcases hm' with rfl | rfl <;> (intro e he; simp at he; rcases he with rfl | rfl <;> norm_num)
  · rw [hk, hm]
    refine ⟨_, List.mem_cons_self, ?_⟩
    norm_num [memberRaw, selectHeralds, heraldsOk, mass]

/-- round 6, `probs_svd_mix_pnr_hyps_nomask_iff` / `preprocess_phys_pos_iff`: hypotheses satisfiable, and its right-hand side holds at the shipped
parameters for the lossy source `{|2>: 1/2, |1>: 1/2}` (threshold `max(1e-16, 1/2·1e-3)` below `max_p = 1/2`) -/
example :
    let ms : List (Member ℚ) := [⟨1 / 2, 2, [([2], 1)]⟩, ⟨1 / 2, 1, [([1], 1)]⟩]
    (∀ m ∈ ms, 0 < m.p) ∧ (ms.map (·.p)).sum ≤ 1 ∧ (∀ m ∈ ms, mass m.base = 1) ∧
      preThreshold (1 / 10000000000000000 : ℚ) (1 / 1000) 0 ms < preMaxP 0 ms ∧ (ms.map (·.p)).sum = 1 := by
  refine ⟨?_, by norm_num, ?_, by norm_num [preThreshold, preMaxP], by norm_num⟩
  · intro m hm
    simp only [List.mem_cons, List.not_mem_nil, or_false] at hm
    rcases hm with rfl | rfl <;> norm_num
  · intro m hm
    simp only [List.mem_cons, List.not_mem_nil, or_false] at hm
    rcases hm with rfl | rfl <;> norm_num [mass]

/-- round 6, `probs_svd_mix_logical_closed`: its hypotheses are literally those of `probs_svd_mix_law` (example above:
the mixture `{|2>: 1/2, |1>: 1/2}` on `Detector.ppnr(2)`).  `bs_history_minp_pinned_law` carries no hypothesis; a value of
its right-hand side: the second `detect(2)` is answered at the first call's `min_p`, a `clear_cache()` resets that -/
example : bsStaleOuts 1 (1 / 2 : ℚ) [] [some (1 / 4, 2), some (0, 2), none, some (0, 2)]
    = [some (2, bsDetectP (1 / 4) 1 (1 / 2) 2), some (2, bsDetectP (1 / 4) 1 (1 / 2) 2), none,
        some (2, bsDetectP 0 1 (1 / 2) 2)] := by
  simp [bsStaleOuts, firstP]


/-
  STILL NOT PROVED (validated by the correspondence only):
  * that the native SLOS backend implements the Fock amplitude specification `perm(U[t|s])/√(∏s!∏t!)` on
    `BSLayeredPPNR.create_circuit()` (compiled code outside the model; property C02 is about exactly that). GIVEN
    the specification, the multinomial leaf law `treeOcc` is a THEOREM (`bsTree_leaf_law_from_fock`); that the backend
    builds its dictionary with `add` (leaf states not above `min_p` dropped: `treeOccP`, `bsDetectP`) is modelled as coded
    and compared with the real `BSLayeredPPNR.detect` at changed `min_p` on every run;
  * `min_p > 0`, `prob_threshold > 0`: PROVED in this round — `phys_perf` alone, the retained mass alone, the
    un-normalised and the NORMALISED result against the exact law (`simulate_detectors_threshold_bound`,
    `simulate_detectors_threshold_normalised`, `simulate_detectors_phys_minp`, `simulate_detectors_normalised_minp`), the
    exact rule of what the threshold drops (`tensor_threshold_exact`, `threshold_dropped_state_is_small`), the sample law
    at any `min_p` under the guard "no per-mode result is empty" and the exact behaviour when the guard fails
    (`sample_law_is_kernel_product_minp`, `kernel_empty_iff`, `sample_restarts_after_empty_kernel`). The slacks are sums over
    the input states of `min_p`/`T` times counts of `add` calls / output states: they are not claimed to be tight;
  * mixed inputs: `probs_svd_mix_law` is stated at exact parameters (`min_p ≤ 0`, precision 0, positive weights, normalised
    non-negative member distributions, non-PNR detector list, `kept ≠ []`, retained mass `≠ 0`); at the shipped `1e-16` /
    a positive precision the model `probsSvdMix` is what the correspondence compares, and the deviation of its
    `simulate_detectors` step is the one bounded above; the closed form of `logical_perf` as the weighted sum of
    the members' accepted masses is PROVED in round 6 at the same exact parameters (`probs_svd_mix_logical_closed`; the
    linearity of the accepted mass, `simulateRaw_accMass_linear`, needs `min_p ≤ 0` — at a positive `min_p` the `add` calls
    drop contributions member by member and only the slack bounds above apply); members are
    un-annotated Fock states (superposed / partially distinguishable inputs belong to C03–C05); the all-PNR (mask) path of
    the mixture is PROVED in round 4 for every `min_p` and precision (`probs_svd_mix_pnr_law`), and in round 6 its two
    positivity hypotheses are DERIVED: for positive weights of total ≤ 1 and non-negative member dictionaries they hold iff
    a member kept by `_preprocess_svd` has positive (herald-selected) mass (`probs_svd_mix_pnr_hyps_iff`); without the mask
    and with normalised members iff `max(min_p, max_p·precision) < max_p` (`probs_svd_mix_pnr_hyps_nomask_iff`); positive
    weights and normalised members ALONE do not suffice under the mask (`probs_svd_mix_pnr_mass_needs_herald_support`);
  * the statistical quality of `BSDistribution.sample`; progress callbacks / cancellation;
  * histories that change `min_p` between calls are PROVED in round 4 for the repaired code
    (`detect_history_minp_eq_fresh`, `bs_history_minp_eq_fresh`; pinned code: `detect_history_minp_pinned_law`,
    `detect_history_minp_fails_on_current_code`); `copy()` of a detector (the copy shares `_cache`) is a model operation since round 9
    (heap of dictionaries and objects, `detect_copy_history_eq_fresh`, `bs_copy_history_eq_fresh`: transparent over any
    history of detect / copy / clear_cache on the family of copies); the exact pinned-code law of `BSLayeredPPNR` (with `clear_cache()`) is PROVED in round 6
    (`bs_history_minp_pinned_law`, `bs_history_minp_pinned_constant`, `bs_history_minp_pinned_clear_refreshes`,
    `bs_history_minp_fails_on_current_code`).
-/

end examples

end PM.C08
