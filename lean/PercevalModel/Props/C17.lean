/-
  C17 — property theorems (model: `Model/C17.lean`, helpers: `Lemmas/C17.lean`).

  `step true`  = the code with the repairs `fixes/C17-streak.diff` and
                 `fixes/C17-sent-once.diff` applied (the main model);
  `step false` = the code as it stood on the pinned tree.

  Every positive theorem is for ALL histories (lists of operations with arbitrary server answers) or,
  where it is stated for one step, for ALL job states (hence for every state any history reaches).
  Theorems that carry `(fixed : Bool)` hold for both versions of the code.
  The two parts of the property the pinned tree violates are stated as `Prop`s of the flag, proved
  for `true` and refuted with a concrete history for `false`.

  Second half of the file (from "the full job object" on): the extension `Model/C17X.lean` — time and
  progress fields, `Job.name`, `_to_dict` / `_from_dict` / `from_id`, `execute_sync` — with the
  theorems that tie it to the machine above (projection / refinement), so that every theorem of the
  first half also speaks about the full object.

  Third part (from "result retrieval on the content of the answer" on): `Model/C17R.lean` — what
  `_get_results` does with the content of the server's answer (decoding, the assignment before the
  inspection, `job_context` / `result_mapping` / `mapping_delta_parameters` / `results_list`, the cache
  test) and every operation of the machine under the real throttle with an explicit clock.

  Last part ("wave 9: the shape of the status answer"): `Model/C17W.lean` — the status read on an answer
  given by the keys it carries (`status`, `progress`, `progress_message`, `status_message`): the KeyError
  paths of `RemoteJob.status`, and the proof that on complete answers it is the full machine.

  Not modelled (see manifest.d/C17.json): `requests`/`RPCHandler` internals, the payload
  (`_create_payload_data`, `_handle_params`, max_shots/max_samples), the mapping function itself
  (opaque: `RV.mapped`), `_running_phase`, the 1 ms sleep of `update_progress` when the
  clock runs backwards, the `metadata` of the dictionary, non-integer times, threads.
-/
import PercevalModel.Lemmas.C17
import PercevalModel.Lemmas.C17X
import PercevalModel.Lemmas.C17W
import PercevalModel.Lemmas.C17R
import PercevalModel.Lemmas.C17Y
import PercevalModel.Lemmas.C17Z

set_option linter.unusedSimpArgs false

namespace PM.C17
open PM.SM

/-! ## sent at most once -/

/-- A job is submitted at most once: over any history, the current job's submission count is ≤ 1
and the handler receives at most one `create_job` call in total (a job born from `rerun` is born
sent and never calls `create_job`). -/
def SentAtMostOnce (fixed : Bool) : Prop :=
  ∀ ops : List Op,
    (exec (step fixed) init ops).sentCount ≤ 1 ∧ totalCreates (run (step fixed) init ops).2 ≤ 1

theorem sent_at_most_once : SentAtMostOnce true := by
  have key : ∀ (ops : List Op) (j : Job), SentInv j →
      SentInv (exec (step true) j ops) ∧ totalCreates (run (step true) j ops).2 + j.sentCount ≤ 1 := by
    intro ops
    induction ops with
    | nil => intro j h; exact ⟨h, by simpa [run, totalCreates] using h.1⟩
    | cons op ops ih =>
      intro j h
      obtain ⟨h1, h2⟩ := step_sent j op h
      obtain ⟨h3, h4⟩ := ih _ h1
      rw [exec_cons, run_cons]
      refine ⟨h3, ?_⟩
      simp only [totalCreates]
      omega
  intro ops
  obtain ⟨h1, h2⟩ := key ops init sentInv_init
  exact ⟨h1.1, by omega⟩

/-- On the pinned tree `execute_async(); execute_async()` (server still WAITING) creates two jobs. -/
theorem sent_at_most_once_fails_on_current_code : ¬ SentAtMostOnce false := by
  intro h
  have := (h [.execute (.ok 1), .execute (.ok 2)]).1
  revert this
  decide

/-- the witness, spelled out: two `create_job` calls and the second id overwrites the first -/
theorem current_code_sends_twice :
    run (step false) init [.execute (.ok 1), .execute (.ok 2)] =
      ({ init with id := some 2, sentCount := 2 }, [⟨.ok, [.create]⟩, ⟨.ok, [.create]⟩]) := by
  decide

/-- `create_job` is only ever called by an unsent WAITING job (repaired code), for every state. -/
theorem create_only_when_unsent (j : Job) (op : Op)
    (h : Call.create ∈ (step true j op).2.calls) : j.id = none ∧ j.status = .waiting := by
  cases op with
  | execute hr =>
    simp only [step, execute] at h
    cases hc : canExecute true j
    · simp [hc] at h
    · simp only [canExecute, Bool.and_eq_true, Bool.not_true, Bool.false_or] at hc
      refine ⟨by simpa using hc.2, ?_⟩
      cases hs : j.status <;> simp [hs, St.isWaiting] at hc ⊢
  | poll v r =>
    have hc := readStatus_calls true j r
    simp only [step, poll] at h
    generalize readStatus true j r = p at h hc
    obtain ⟨j1, e, c⟩ := p
    simp only at hc
    cases e <;> (simp only at h; rw [hc] at h; split at h <;> simp at h)
  | cancel r hr =>
    have hc := readStatus_calls true j r
    simp only [step, cancel] at h
    generalize readStatus true j r = p at h hc
    obtain ⟨j1, e, c⟩ := p
    simp only at hc
    cases e with
    | some e => simp only at h; rw [hc] at h; split at h <;> simp at h
    | none =>
      simp only at h
      split at h
      · cases hr <;> (simp only [List.mem_append] at h; rw [hc] at h; split at h <;> simp at h)
      · simp only at h; rw [hc] at h; split at h <;> simp at h
  | rerun r1 r2 hr sw =>
    have hc := readStatus_calls true j r1
    simp only [step, rerun] at h
    generalize readStatus true j r1 = p at h hc
    obtain ⟨j1, e, c⟩ := p
    simp only at hc
    cases e with
    | some e => simp only at h; rw [hc] at h; split at h <;> simp at h
    | none =>
      simp only at h
      split at h
      · cases hr <;> (simp only [List.mem_append] at h; rw [hc] at h; split at h <;> simp at h)
      · have hc2 := readStatus_calls true j1 r2
        generalize readStatus true j1 r2 = p2 at h hc2
        obtain ⟨j2, e2, c2⟩ := p2
        simp only at hc2
        cases e2 <;>
          (simp only [List.mem_append] at h; rw [hc, hc2] at h
           split at h <;> split at h <;> simp at h)
  | getResults r1 r2 hr =>
    have hc := readStatus_calls true j r1
    simp only [step, getResults] at h
    generalize readStatus true j r1 = p at h hc
    obtain ⟨j1, e, c⟩ := p
    simp only at hc
    cases e with
    | some e => simp only at h; rw [hc] at h; split at h <;> simp at h
    | none =>
      simp only at h
      split at h
      · simp only at h; rw [hc] at h; split at h <;> simp at h
      · have hc2 : (if j1.cache.isSome then readStatus true j1 r2 else (j1, none, [])).2.2 =
            if j1.cache.isSome && statusDue j1 then [Call.status j1.id] else [] := by
          cases j1.cache.isSome <;> simp [readStatus_calls]
        generalize (if j1.cache.isSome then readStatus true j1 r2 else (j1, none, [])) = p2 at h hc2
        obtain ⟨j2, e2, c2⟩ := p2
        simp only at hc2
        cases e2 with
        | some e =>
          simp only [List.mem_append] at h; rw [hc, hc2] at h
          split at h <;> split at h <;> simp at h
        | none =>
          simp only at h
          split at h
          · simp only [List.mem_append] at h; rw [hc, hc2] at h
            split at h <;> split at h <;> simp at h
          · cases hr <;>
              (simp only [List.mem_append] at h; rw [hc, hc2] at h
               split at h <;> split at h <;> simp at h)

example : Call.create ∈ (step true init (.execute (.ok 1))).2.calls := by decide

/-! ## the reported status is the last status read -/

/-- Over any history (both versions of the code): if the most recent event that set the status
was a successful server read of value `x` (no `execute_async`, accepted `cancel` or rerun switch
since), the cached — and reported — status is `x`. -/
theorem status_is_last_read (fixed : Bool) (ops : List Op) (x : St)
    (h : (exec (step fixed) init ops).lastRead = some x) :
    (exec (step fixed) init ops).status = x :=
  inv_exec (step fixed) LastInv (fun s op hs => step_last fixed s op hs) init lastInv_init ops x h

example : (exec (step true) init [.execute (.ok 1), .poll .status (.http 500)]).lastRead = none := by
  decide

/-- A status read that reaches the server and succeeds (any job state with a sent, unfinished job,
any accessor) reports and caches exactly `from_server_response` of the answer, and resets the
error streak. -/
theorem poll_follows_server (fixed : Bool) (j : Job) (v : View) (s : String) (m : Nat)
    (hd : statusDue j = true) :
    (step fixed j (.poll v (.status s m))).2 = ⟨view v (fromServer s), [.status j.id]⟩ ∧
    (step fixed j (.poll v (.status s m))).1.status = fromServer s ∧
    (step fixed j (.poll v (.status s m))).1.streak = 0 ∧
    (step fixed j (.poll v (.status s m))).1.lastRead = some (fromServer s) := by
  simp [step, poll, readStatus, hd]

example : statusDue (born 1) = true := by decide

/-- An absorbed failure leaves the cached status untouched and reports it (any state, both
versions): whenever a status read returns normally after a failed request, the status is the old one. -/
theorem absorbed_failure_keeps_status (fixed : Bool) (j : Job) (v : View) (r : Resp)
    (hr : ∀ s m, r ≠ .status s m)
    (hn : ∀ e, (step fixed j (.poll v r)).2.res ≠ .raised e) :
    (step fixed j (.poll v r)).1.status = j.status ∧
    (step fixed j (.poll v r)).2.res = view v j.status := by
  simp only [step, poll] at hn ⊢
  unfold readStatus at hn ⊢
  cases hd : statusDue j
  · simp
  · cases r with
    | status s m => exact absurd rfl (hr s m)
    | http c =>
      simp only [hd, Bool.not_true, Bool.false_eq_true, if_false] at hn ⊢
      have h1 := handleErr_fst fixed j (some c)
      generalize handleErr fixed j (some c) = p at hn h1 ⊢
      obtain ⟨j1, e⟩ := p
      cases e with
      | some e => exact absurd rfl (hn e)
      | none => simp only at h1; subst h1; simp
    | conn =>
      simp only [hd, Bool.not_true, Bool.false_eq_true, if_false] at hn ⊢
      have h1 := handleErr_fst fixed j none
      generalize handleErr fixed j none = p at hn h1 ⊢
      obtain ⟨j1, e⟩ := p
      cases e with
      | some e => exact absurd rfl (hn e)
      | none => simp only at h1; subst h1; simp

example : ∀ e, (step true (born 1) (.poll .status .conn)).2.res ≠ .raised e := by
  intro e; simp [step, poll, readStatus, statusDue, born, St.completed, handleErr, raisesAt, maxError, view]

/-! ## a final status is absorbing -/

/-- Once a job holds SUCCESS/ERROR/CANCELED, then over every continuation of the history on that
job (any operations and server answers; following a rerun into the *new* job excluded) its status
and id never change and no status request is ever issued again.  Both versions of the code. -/
theorem final_absorbing (fixed : Bool) (j : Job) (post : List Op)
    (hfin : j.status.completed = true) (hns : ∀ op ∈ post, op.switches = false) :
    (exec (step fixed) j post).status = j.status ∧
    (exec (step fixed) j post).id = j.id ∧
    ∀ o ∈ (run (step fixed) j post).2, ∀ c ∈ o.calls, isStatusCall c = false := by
  have hstep : ∀ (s : Job) (op : Op), op.switches = false → (s.status = j.status ∧ s.id = j.id) →
      ((step fixed s op).1.status = j.status ∧ (step fixed s op).1.id = j.id) ∧
        ∀ c ∈ (step fixed s op).2.calls, isStatusCall c = false := by
    intro s op hop hs
    have hc : s.status.completed = true := by rw [hs.1]; exact hfin
    obtain ⟨h1, h2, h3⟩ := step_final fixed s op hc hop
    exact ⟨⟨h1.trans hs.1, h2.trans hs.2⟩, h3⟩
  have hinv := inv_exec_of (step fixed) (fun op => op.switches = false)
    (fun s => s.status = j.status ∧ s.id = j.id)
    (fun s op hop hs => (hstep s op hop hs).1) j ⟨rfl, rfl⟩ post hns
  exact ⟨hinv.1, hinv.2, outputs_run_of (step fixed) (fun op => op.switches = false)
    (fun s => s.status = j.status ∧ s.id = j.id)
    (fun o => ∀ c ∈ o.calls, isStatusCall c = false) hstep j ⟨rfl, rfl⟩ post hns⟩

example : ({ born 1 with status := .success } : Job).status.completed = true := by decide

example : ∀ op ∈ [Op.poll .status .conn, .cancel .conn (.ok 1), .rerun .conn .conn (.ok 2) false],
    op.switches = false := by decide

/-- … and every later status read reports that final status, whatever the server would answer. -/
theorem final_reported_forever (fixed : Bool) (j : Job) (post : List Op) (v : View) (r : Resp)
    (hfin : j.status.completed = true) (hns : ∀ op ∈ post, op.switches = false) :
    (step fixed (exec (step fixed) j post) (.poll v r)).2 = ⟨view v j.status, []⟩ := by
  obtain ⟨h1, _, _⟩ := final_absorbing fixed j post hfin hns
  have hc : (exec (step fixed) j post).status.completed = true := by rw [h1]; exact hfin
  simp [step, poll, readStatus_not_due (statusDue_of_completed hc), h1]

/-! ## … and ONLY a final status: an unfinished job keeps following the server -/

/-- "Stops polling" happens only once a final status was reported: in every state with a sent job whose
status is not SUCCESS/ERROR/CANCELED — WAITING, RUNNING, SUSPENDED, CANCEL_REQUESTED and also UNKNOWN —
every status-dependent operation (status()/is_*, cancel, rerun, get_results; any server answers) begins
with a status request for this job.  Both versions of the code; every read due (throttle transparent). -/
theorem polls_while_unfinished (fixed : Bool) (j : Job) (op : Op)
    (hs : j.id.isSome = true) (hn : j.status.completed = false) (hop : op.readsStatus = true) :
    (step fixed j op).2.calls.head? = some (.status j.id) :=
  step_head_status fixed j op ((statusDue_iff j).2 ⟨hs, hn⟩) hop

example : ({ born 1 with status := .unknown } : Job).id.isSome = true ∧
    ({ born 1 with status := .unknown } : Job).status.completed = false ∧
    (Op.getResults .conn .conn (.ok 1)).readsStatus = true := by decide

/-- for a sent job, a status read sends nothing iff the job already holds a final status -/
theorem poll_silent_iff_final (fixed : Bool) (j : Job) (v : View) (r : Resp) (hs : j.id.isSome = true) :
    (step fixed j (.poll v r)).2.calls = [] ↔ j.status.completed = true := by
  constructor
  · intro h
    cases hc : j.status.completed
    · have := polls_while_unfinished fixed j (.poll v r) hs hc rfl
      rw [h] at this
      simp at this
    · rfl
  · intro h
    simp [step, poll, readStatus_not_due (statusDue_of_completed h)]

example : (born 1).id.isSome = true := rfl

/-- over ANY history: as long as the job the history is talking to is sent and has not reached a final
status, the next status-dependent operation asks the server about exactly this job. -/
theorem keeps_polling_until_final (fixed : Bool) (ops : List Op) (op : Op)
    (hs : (exec (step fixed) init ops).id.isSome = true)
    (hn : (exec (step fixed) init ops).status.completed = false) (hop : op.readsStatus = true) :
    Call.status (exec (step fixed) init ops).id ∈ (step fixed (exec (step fixed) init ops) op).2.calls :=
  List.mem_of_mem_head? (polls_while_unfinished fixed _ op hs hn hop)

example : (exec (step true) init [.execute (.ok 1), .poll .status (.status "mystery" 0)]).id.isSome = true ∧
    (exec (step true) init [.execute (.ok 1), .poll .status (.status "mystery" 0)]).status.completed = false := by
  decide +kernel

/-- a successful read whose meaning is not final (an unknown word included) leaves the job polling -/
theorem nonfinal_read_keeps_polling (fixed : Bool) (j : Job) (v : View) (s : String) (m : Nat)
    (hd : statusDue j = true) (hnf : (fromServer s).completed = false) :
    statusDue (step fixed j (.poll v (.status s m))).1 = true := by
  obtain ⟨hid, hnc⟩ := (statusDue_iff j).1 hd
  simp [step, poll, readStatus, hd, statusDue, hnf, hid, hnc]

/-- UNKNOWN is not sticky: after an answer the client does not understand, the next answer — whatever it
is — is requested, reported and cached (so `get_results` / `cancel` / `rerun` are guarded by it). -/
theorem unknown_is_not_sticky (fixed : Bool) (j : Job) (v v' : View) (s s' : String) (m m' : Nat)
    (hd : statusDue j = true) (hu : fromServer s = .unknown) :
    (step fixed (step fixed j (.poll v (.status s m))).1 (.poll v' (.status s' m'))).2 =
      ⟨view v' (fromServer s'), [.status j.id]⟩ ∧
    (step fixed (step fixed j (.poll v (.status s m))).1 (.poll v' (.status s' m'))).1.status =
      fromServer s' := by
  have hd' := nonfinal_read_keeps_polling fixed j v s m hd (by rw [hu]; rfl)
  have hid : (step fixed j (.poll v (.status s m))).1.id = j.id := by
    simp [step, poll, readStatus, hd]
  obtain ⟨h1, h2, _, _⟩ := poll_follows_server fixed _ v' s' m' hd'
  rw [hid] at h1
  exact ⟨h1, h2⟩

example : statusDue (born 1) = true ∧ fromServer "mystery" = .unknown ∧ fromServer "unknown" = .unknown := by
  decide +kernel

/-! ## the error streak -/

/-- Consecutive transient failures of the status request (connection errors, HTTP
408/409/421/423/429), in any number, starting in any job state with a sent unfinished job whose
streak counter is `k`: failure number `n` of the streak returns the last known status while
`n < 5` and raises the current error for every `n ≥ 5` (see `streakSpec`). -/
def StreakLaw (fixed : Bool) : Prop :=
  ∀ (j : Job) (rs : List Resp), statusDue j = true → (∀ r ∈ rs, r.isTransient = true) →
    (run (step fixed) j (rs.map (Op.poll .status))).2 = streakSpec j j.streak rs

theorem streak_law : StreakLaw true := by
  intro j rs hd ht
  rw [streak_run j rs hd ht]

/-- On the pinned tree the 6th consecutive transient failure is absorbed again. -/
theorem streak_law_fails_on_current_code : ¬ StreakLaw false := by
  intro h
  have := h (born 1) (List.replicate 6 .conn) (by decide) (by decide)
  revert this
  decide

/-- the witness as a history of the pinned code: `execute_async()` then six failed status reads —
the fifth raises, the sixth returns `WAITING` -/
theorem current_code_absorbs_sixth_failure :
    (run (step false) init (.execute (.ok 1) :: List.replicate 6 (.poll .status .conn))).2.drop 5 =
      [⟨.raised .conn, [.status (some 1)]⟩, ⟨.st .waiting, [.status (some 1)]⟩] := by
  decide

/-- the same history on the repaired code: the fifth and the sixth raise -/
theorem fixed_code_raises_sixth_failure :
    (run (step true) init (.execute (.ok 1) :: List.replicate 6 (.poll .status .conn))).2.drop 5 =
      [⟨.raised .conn, [.status (some 1)]⟩, ⟨.raised .conn, [.status (some 1)]⟩] := by
  decide

/-- the first four failures after a successful read are absorbed, every later one raises —
the statement of the property read off `streakSpec` (position `i`, 0-based) -/
theorem streak_law_nth (j : Job) (rs : List Resp) (i : Nat) (r : Resp) (hd : statusDue j = true)
    (ht : ∀ r ∈ rs, r.isTransient = true) (h0 : j.streak = 0) (hi : rs[i]? = some r) :
    (run (step true) j (rs.map (Op.poll .status))).2[i]? =
      some (if i < 4 then ⟨.st j.status, [.status j.id]⟩ else ⟨.raised (respExc r), [.status j.id]⟩) := by
  rw [streak_law j rs hd ht, h0]
  have gen : ∀ (rs : List Resp) (k i : Nat), rs[i]? = some r →
      (streakSpec j k rs)[i]? = some (if k + i + 1 < maxError then (⟨.st j.status, [.status j.id]⟩ : Out)
        else ⟨.raised (respExc r), [.status j.id]⟩) := by
    intro rs
    induction rs with
    | nil => intro k i h; simp at h
    | cons x xs ih =>
      intro k i h
      cases i with
      | zero => simp at h; subst h; simp [streakSpec]
      | succ n =>
        simp only [List.getElem?_cons_succ] at h
        simp only [streakSpec, List.getElem?_cons_succ]
        rw [ih (k + 1) n h]
        have : k + 1 + n + 1 = k + (n + 1) + 1 := by omega
        rw [this]
  rw [gen rs 0 i hi]
  simp only [maxError, Nat.zero_add]
  by_cases hlt : i < 4
  · have : i + 1 < 5 := by omega
    simp [hlt, this]
  · have : ¬ i + 1 < 5 := by omega
    simp [hlt, this]

example : ∀ r ∈ [Resp.conn, .http 429, .http 408], r.isTransient = true := by decide

example : statusDue (born 1) = true ∧ (born 1).streak = 0 ∧
    (List.replicate 6 Resp.conn)[5]? = some .conn := by decide

/-- Any HTTP error outside the whitelist raises at once, in every state, on both versions. -/
theorem fatal_http_raises (fixed : Bool) (j : Job) (v : View) (c : Nat)
    (hd : statusDue j = true) (hc : transient c = false) :
    (step fixed j (.poll v (.http c))).2 = ⟨.raised (.http (some c)), [.status j.id]⟩ ∧
    (step fixed j (.poll v (.http c))).1.status = j.status := by
  simp only [step, poll, readStatus, hd, handleErr, hc, excOf]
  cases raisesAt fixed (j.streak + 1) <;> simp

example : transient 500 = false := by decide

/-- the whitelist is exactly the five documented codes -/
theorem transient_iff (c : Nat) :
    transient c = true ↔ c = 408 ∨ c = 409 ∨ c = 421 ∨ c = 423 ∨ c = 429 := by
  simp [transient, or_assoc]

/-- A failed status request increments the streak by exactly one and a successful one resets it;
the cached status is untouched by a failure (any state, both versions). -/
theorem streak_counts (fixed : Bool) (j : Job) (r : Resp) (hd : statusDue j = true) :
    (readStatus fixed j r).1.streak = (match r with | .status _ _ => 0 | _ => j.streak + 1) ∧
    (match r with | .status _ _ => True | _ => (readStatus fixed j r).1.status = j.status) := by
  cases r <;> simp [readStatus, hd, handleErr_fst]

/-! ## guards -/

/-- Results are refused while the job is unfinished: if the status seen by `get_results` (after its
own status read) is not SUCCESS/ERROR/CANCELED/UNKNOWN, it raises "still running" and sends no
results request.  Any state, both versions. -/
theorem results_guard (fixed : Bool) (j : Job) (r1 r2 : Resp) (h : RResp)
    (hok : (readStatus fixed j r1).2.1 = none)
    (hrun : (readStatus fixed j r1).1.status.maybeCompleted = false) :
    (getResults fixed j r1 r2 h).2.res = .raised .stillRunning ∧
    (getResults fixed j r1 r2 h).1 = (readStatus fixed j r1).1 ∧
    ∀ i, Call.results i ∉ (getResults fixed j r1 r2 h).2.calls := by
  have hc := readStatus_calls fixed j r1
  unfold getResults
  generalize readStatus fixed j r1 = p at hok hrun hc
  obtain ⟨j1, e, c⟩ := p
  simp only at hok hrun hc
  subst hok
  simp only [hrun, Bool.not_false, if_true, true_and]
  intro i
  rw [hc]
  split <;> simp

example : (readStatus true (born 1) (.http 429)).2.1 = none ∧
    (readStatus true (born 1) (.http 429)).1.status.maybeCompleted = false := by decide

/-- conversely, whenever `get_results` returns results, the status its guard saw was final or UNKNOWN -/
theorem results_only_when_maybe_completed (fixed : Bool) (j : Job) (r1 r2 : Resp) (h : RResp)
    (t : Option Nat) (hres : (getResults fixed j r1 r2 h).2.res = .results t) :
    (readStatus fixed j r1).2.1 = none ∧ (readStatus fixed j r1).1.status.maybeCompleted = true := by
  unfold getResults at hres
  generalize readStatus fixed j r1 = p at hres ⊢
  obtain ⟨j1, e, c⟩ := p
  cases e with
  | some e => simp at hres
  | none =>
    simp only at hres ⊢
    cases hm : j1.status.maybeCompleted
    · simp [hm] at hres
    · simp

example : (getResults true { born 1 with status := .success } .conn .conn (.ok 7)).2.res = .results (some 7) := by
  decide

/-- A failed job without retrievable results reports its failure message: the `RuntimeError`
"The job failed: …" is only raised for a job whose status is ERROR/CANCELED and carries that job's
stop message. -/
theorem failed_message (fixed : Bool) (j : Job) (r1 r2 : Resp) (h : RResp) (m : Msg)
    (hres : (getResults fixed j r1 r2 h).2.res = .raised (.jobFailed m)) :
    (getResults fixed j r1 r2 h).1.status.failed = true ∧ (getResults fixed j r1 r2 h).1.msg = m := by
  have he1 := readStatus_exc fixed j r1
  unfold getResults at hres ⊢
  generalize readStatus fixed j r1 = p at hres he1 ⊢
  obtain ⟨j1, e, c⟩ := p
  cases e with
  | some e =>
    have := (he1 e rfl).1
    subst this
    cases r1 <;> simp [respExc] at hres
  | none =>
    simp only at hres ⊢
    split at hres
    · simp at hres
    · split
      · simp_all
      · have he2 : ∀ e, (if j1.cache.isSome then readStatus fixed j1 r2 else (j1, none, [])).2.1 = some e →
            e = respExc r2 := by
          intro e
          split
          · exact fun h => (readStatus_exc fixed j1 r2 e h).1
          · simp
        generalize (if j1.cache.isSome then readStatus fixed j1 r2 else (j1, none, [])) = p2 at hres he2 ⊢
        obtain ⟨j2, e2, c2⟩ := p2
        cases e2 with
        | some e =>
          have := he2 e rfl
          subst this
          cases r2 <;> simp [respExc] at hres
        | none =>
          simp only at hres ⊢
          split at hres
          · simp at hres
          · split
            · simp_all
            · cases h with
              | missing =>
                simp only at hres ⊢
                cases hf : j2.status.failed
                · simp [hf] at hres
                · simp only [hf, if_true, Res.raised.injEq, Exc.jobFailed.injEq] at hres
                  exact ⟨rfl, hres⟩
              | ok t => simp at hres
              | empty => simp at hres
              | http c => simp at hres
              | conn => simp at hres

example : (getResults true { born 1 with status := .error, msg := .server 3 } .conn .conn .missing).2.res =
    .raised (.jobFailed (.server 3)) := by decide

/-- the message of a job whose ERROR/CANCELED status came from the server is that answer's
`status_message` (any state, both versions) -/
theorem failed_read_sets_message (fixed : Bool) (j : Job) (s : String) (m : Nat)
    (hd : statusDue j = true) (hf : (fromServer s).failed = true) :
    (readStatus fixed j (.status s m)).1.msg = .server m ∧
    (readStatus fixed j (.status s m)).1.status = fromServer s := by
  simp [readStatus, hd, hf]

/-- … and then `get_results` with no usable results raises exactly that message -/
theorem failed_job_reports_message (fixed : Bool) (j : Job) (r1 r2 : Resp)
    (hf : j.status.failed = true) (hc : j.cache = none) :
    (getResults fixed j r1 r2 .missing).2.res = .raised (.jobFailed j.msg) := by
  have hcomp : j.status.completed = true := by
    cases hs : j.status <;> simp_all [St.failed, St.completed]
  simp [getResults, readStatus_not_due (statusDue_of_completed hcomp),
    maybeCompleted_of_completed hcomp, hc, hf]

example : ({ born 1 with status := .error, msg := .server 7 } : Job).status.failed = true := by decide

theorem cancellable_iff (s : St) :
    s.cancellable = true ↔ s = .waiting ∨ s = .running ∨ s = .suspended := by
  cases s <;> simp [St.cancellable]

theorem failed_iff (s : St) : s.failed = true ↔ s = .error ∨ s = .canceled := by
  cases s <;> simp [St.failed]

theorem completed_iff (s : St) : s.completed = true ↔ s = .success ∨ s = .error ∨ s = .canceled := by
  cases s <;> simp [St.completed]

/-- Cancelling is only accepted for WAITING/RUNNING/SUSPENDED: a cancel request reaches the
handler only if the status read by `cancel` succeeded and showed one of those; otherwise (read
succeeded, other status) `RuntimeError` is raised and the job is left as the read left it. -/
theorem cancel_guard (fixed : Bool) (j : Job) (r : Resp) (h : HResp) :
    (∀ i, Call.cancel i ∈ (cancel fixed j r h).2.calls →
      (readStatus fixed j r).2.1 = none ∧ (readStatus fixed j r).1.status.cancellable = true ∧
      i = j.id) ∧
    ((readStatus fixed j r).2.1 = none → (readStatus fixed j r).1.status.cancellable = false →
      (cancel fixed j r h).2.res = .raised .notCancellable ∧
      (cancel fixed j r h).1 = (readStatus fixed j r).1) := by
  have hm := mem_readStatus_calls fixed j r
  have hid := readStatus_id fixed j r
  unfold cancel
  generalize readStatus fixed j r = p at hm hid ⊢
  obtain ⟨j1, e, c⟩ := p
  simp only at hm hid
  cases e with
  | some e =>
    refine ⟨fun i hi => ?_, fun h0 => by simp at h0⟩
    have := hm _ hi
    simp at this
  | none =>
    simp only
    cases hc : j1.status.cancellable
    · refine ⟨fun i hi => ?_, fun _ _ => by simp⟩
      simp only [Bool.false_eq_true, if_false] at hi
      have := hm _ hi
      simp at this
    · refine ⟨fun i hi => ⟨trivial, rfl, ?_⟩, fun _ h0 => by simp at h0⟩
      simp only [if_true] at hi
      cases h <;>
        (simp only [List.mem_append, List.mem_singleton] at hi
         rcases hi with hi | hi
         · have := hm _ hi; simp at this
         · simp only [Call.cancel.injEq] at hi; rw [hi, hid])

/-- an accepted cancellation: exactly one cancel request for this job, status CANCEL_REQUESTED -/
theorem cancel_accepted (fixed : Bool) (j : Job) (r : Resp) (n : Nat)
    (hok : (readStatus fixed j r).2.1 = none)
    (hc : (readStatus fixed j r).1.status.cancellable = true) :
    (cancel fixed j r (.ok n)).2 = ⟨.ok, (readStatus fixed j r).2.2 ++ [.cancel j.id]⟩ ∧
    (cancel fixed j r (.ok n)).1.status = .cancelRequested := by
  have hid := readStatus_id fixed j r
  unfold cancel
  generalize readStatus fixed j r = p at hok hc hid ⊢
  obtain ⟨j1, e, c⟩ := p
  simp only at hok hc hid
  subst hok
  simp [hc, hid]

example : (readStatus true (born 1) (.http 429)).2.1 = none ∧
    (readStatus true (born 1) (.http 429)).1.status.cancellable = true := by decide

example : (readStatus true { born 1 with status := .unknown } (.http 429)).2.1 = none ∧
    (readStatus true { born 1 with status := .unknown } (.http 429)).1.status.cancellable = false := by
  decide

/-- Re-running is only accepted for failed (ERROR/CANCELED) jobs: a rerun request reaches the
handler only if the status read succeeded and showed a failed status; otherwise the call raises
(`RuntimeError`, or the error of the second status read made while building the message), no rerun
request is sent and no new job is produced. -/
theorem rerun_guard (fixed : Bool) (j : Job) (r1 r2 : Resp) (h : HResp) (sw : Bool) :
    (∀ i, Call.rerun i ∈ (rerun fixed j r1 r2 h sw).2.calls →
      (readStatus fixed j r1).2.1 = none ∧ (readStatus fixed j r1).1.status.failed = true ∧
      i = j.id) ∧
    ((readStatus fixed j r1).2.1 = none → (readStatus fixed j r1).1.status.failed = false →
      (∃ e, (rerun fixed j r1 r2 h sw).2.res = .raised e) ∧
      (rerun fixed j r1 r2 h sw).1.id = j.id) := by
  have hm := mem_readStatus_calls fixed j r1
  have hid := readStatus_id fixed j r1
  unfold rerun
  generalize readStatus fixed j r1 = p at hm hid ⊢
  obtain ⟨j1, e, c⟩ := p
  simp only at hm hid
  cases e with
  | some e =>
    refine ⟨fun i hi => ?_, fun h0 => by simp at h0⟩
    have := hm _ hi
    simp at this
  | none =>
    simp only
    cases hc : j1.status.failed
    · simp only [Bool.false_eq_true, if_false]
      have hm2 := mem_readStatus_calls fixed j1 r2
      have hid2 := readStatus_id fixed j1 r2
      generalize readStatus fixed j1 r2 = p2 at hm2 hid2 ⊢
      obtain ⟨j2, e2, c2⟩ := p2
      simp only at hm2 hid2
      cases e2 <;>
        (refine ⟨fun i hi => ?_, fun _ _ => ⟨⟨_, rfl⟩, by rw [hid2, hid]⟩⟩
         simp only [List.mem_append] at hi
         rcases hi with hi | hi
         · have := hm _ hi; simp at this
         · have := hm2 _ hi; simp at this)
    · refine ⟨fun i hi => ⟨trivial, rfl, ?_⟩, fun _ h0 => by simp at h0⟩
      simp only [if_true] at hi
      cases h <;>
        (simp only [List.mem_append, List.mem_singleton] at hi
         rcases hi with hi | hi
         · have := hm _ hi; simp at this
         · simp only [Call.rerun.injEq] at hi; rw [hi, hid])

/-- an accepted rerun yields a new job carrying the identifier the server returned, WAITING, born
sent (so, on the repaired code, it can never be submitted again — `sent_at_most_once`); the old
job is left untouched. -/
theorem rerun_new_id (fixed : Bool) (j : Job) (r1 r2 : Resp) (n : Nat) (sw : Bool)
    (hok : (readStatus fixed j r1).2.1 = none)
    (hf : (readStatus fixed j r1).1.status.failed = true) :
    (rerun fixed j r1 r2 (.ok n) sw).2 = ⟨.newJob n, (readStatus fixed j r1).2.2 ++ [.rerun j.id]⟩ ∧
    (rerun fixed j r1 r2 (.ok n) sw).1 = (if sw then born n else (readStatus fixed j r1).1) ∧
    (born n).id = some n ∧ (born n).status = .waiting ∧ (born n).sentCount = 1 := by
  have hid := readStatus_id fixed j r1
  unfold rerun
  generalize readStatus fixed j r1 = p at hok hf hid ⊢
  obtain ⟨j1, e, c⟩ := p
  simp only at hok hf hid
  subst hok
  simp [hf, hid, born]

example : (readStatus true { born 1 with status := .error } .conn).2.1 = none ∧
    (readStatus true { born 1 with status := .error } .conn).1.status.failed = true := by decide

/-- on the repaired code a job born from `rerun` refuses `execute_async` (no second submission) -/
theorem rerun_child_cannot_execute (n : Nat) (h : HResp) :
    step true (born n) (.execute h) = (born n, ⟨.raised .assertion, []⟩) := by
  simp [step, execute, canExecute, born]

/-- … whereas on the pinned tree it is submitted again as a third job -/
theorem current_code_resubmits_rerun_child :
    step false (born 1) (.execute (.ok 2)) =
      ({ born 1 with id := some 2, sentCount := 2 }, ⟨.ok, [.create]⟩) := by
  decide

/-! ## the throttle -/

/-- a status read inside the refresh delay is a no-op: no request, nothing changes, cached status returned -/
theorem throttled_read_is_noop (fixed : Bool) (delay : Int) (t : TJob) (now : Int) (r : Resp)
    (h : now - t.prev ≤ delay) : readStatusAt fixed delay t now r = (t, none, []) := by
  unfold readStatusAt
  split
  · rfl
  · have : ¬ now - t.prev > delay := by omega
    simp [this]

example : (5 : Int) - 5 ≤ 1 := by decide

/-- with a negative delay and a clock that does not run backwards every status read is due: the
clocked machine behaves exactly as the main model (this is how the harness runs the real code:
`STATUS_REFRESH_DELAY = -1`), and the clock hypothesis is re-established. -/
theorem negative_delay_every_read_due (fixed : Bool) (delay : Int) (t : TJob) (now : Int) (r : Resp)
    (hd : delay < 0) (hm : t.prev ≤ now) :
    (readStatusAt fixed delay t now r).1.job = (readStatus fixed t.job r).1 ∧
    (readStatusAt fixed delay t now r).2 = (readStatus fixed t.job r).2 ∧
    (readStatusAt fixed delay t now r).1.prev ≤ now := by
  unfold readStatusAt
  cases hdue : statusDue t.job
  · simp [readStatus_not_due hdue, hm]
  · have : now - t.prev > delay := by omega
    simp [this]

example : (-1 : Int) < 0 ∧ (3 : Int) ≤ 3 := by decide

/-- an overdue read (more than the refresh delay after the previous request) of a sent, unfinished job
reaches the server — whatever non-final status the job shows — and restarts the delay -/
theorem overdue_read_is_sent (fixed : Bool) (delay : Int) (t : TJob) (now : Int) (r : Resp)
    (hd : statusDue t.job = true) (h : now - t.prev > delay) :
    (readStatusAt fixed delay t now r).2.2 = [.status t.job.id] ∧
    (readStatusAt fixed delay t now r).1.prev = now := by
  unfold readStatusAt
  simp [hd, h, readStatus_calls_due fixed t.job r hd]

example : statusDue (⟨{ born 1 with status := .unknown }, 0⟩ : TJob).job = true ∧ (5 : Int) - 0 > 4 := by decide

/-! # the full job object (`Model/C17X.lean`)

## time / progress fields: the status does not depend on them -/

/-- The job part (status, id, streak, stop message, cache) after a status read on the full object —
whatever the time state of the object, the time of the call, and the progress / creation / start /
duration fields of the answer, consistent or not — is exactly what the base machine computes from
the `status` / `status_message` of the answer; the requests are the same.  Both versions. -/
theorem full_status_read_projects (fixed : Bool) (f : FJob) (now : Int) (r : RespF) :
    (readStatusF fixed f now r).1.job = (readStatus fixed f.job r.base).1 ∧
    (readStatusF fixed f now r).2.2 = (readStatus fixed f.job r.base).2.2 :=
  ⟨readStatusF_job fixed f now r, readStatusF_calls fixed f now r⟩

/-- … in particular two answers that differ only in those fields, read by objects that differ only
in their time state, at different times, leave the same job part -/
theorem status_independent_of_time_fields (fixed : Bool) (f : FJob) (ts' : TS) (now now' : Int)
    (s : String) (m : Nat) (b b' : Body) :
    (readStatusF fixed f now (.status s m b)).1.job =
      (readStatusF fixed { f with ts := ts' } now' (.status s m b')).1.job := by
  rw [readStatusF_job, readStatusF_job]
  rfl

/-- With a body a consistent server can send (no duration without a start time) the read also
raises exactly what the base machine raises (nothing on a successful answer). -/
theorem full_status_read_outcome (fixed : Bool) (f : FJob) (now : Int) (r : RespF) (hwf : r.WF) :
    (readStatusF fixed f now r).2.1 = (readStatus fixed f.job r.base).2.1.map FExc.base :=
  readStatusF_exc fixed f now r hwf

example : (RespF.status "running" 1 ⟨2, some 1, some 2, some 3⟩).WF := by decide

/-- the interference channel is real: `update_progress` turns a WAITING status into RUNNING … -/
theorem update_progress_starts_a_waiting_job (ts : TS) (now : Int) (p : Nat) :
    (updateProgress .waiting ts now p).1 = .running ∧
    (updateProgress .waiting ts now p).2.runStart = some now := by
  simp [updateProgress]

/-- … but `RemoteJob.status` only calls it when the status just read is RUNNING / CANCEL_REQUESTED,
where it leaves the status alone -/
theorem update_progress_keeps_running_status (st : St) (h : st.isRunning = true) (ts : TS) (now : Int)
    (p : Nat) : (updateProgress st ts now p).1 = st :=
  updateProgress_status h ts now p

example : St.cancelRequested.isRunning = true := by decide

/-- Quirk of the code as it is (not judged by the property): a final status whose answer carries a
duration, read by a job that was never given a start time, raises TypeError out of `status` —
after the status was stored. -/
theorem time_fields_type_error_witness :
    (readStatusF true ⟨born 1, TS.fresh 0, true, "j"⟩ 5 (.status "canceled" 7 ⟨0, some 1, none, some 5⟩)).2.1 =
      some .typeError ∧
    (readStatusF true ⟨born 1, TS.fresh 0, true, "j"⟩ 5 (.status "canceled" 7 ⟨0, some 1, none, some 5⟩)).1.job.status =
      .canceled := by
  decide +kernel

/-- a completed job whose answer carries a start time `x` and a duration `y` is dated `x + y` and
reports `y` as its running time -/
theorem completed_time_law (fixed : Bool) (f : FJob) (now : Int) (s : String) (m : Nat) (b : Body)
    (x y : Int) (hd : statusDue f.job = true) (hc : (fromServer s).completed = true)
    (hx : nz b.start = some x) (hy : nz b.duration = some y) :
    (readStatusF fixed f now (.status s m b)).1.ts.completedAt = some (x + y) ∧
    (readStatusF fixed f now (.status s m b)).1.ts.runStart = some x ∧
    runningTime (fromServer s) (readStatusF fixed f now (.status s m b)).1.ts = .val y := by
  have hr : (fromServer s).isRunning = false := by
    cases h : fromServer s <;> simp_all [St.completed, St.isRunning]
  have hy0 : nz (some y) = some y := by
    cases hb : b.duration with
    | none => simp [hb, nz] at hy
    | some z =>
      simp only [hb, nz] at hy
      split at hy
      · cases hy
      · rename_i hz
        cases hy
        simp [nz, hz]
  simp [readStatusF, hd, hr, updateTimes, hx, hy, hc, runningTime, hy0]

example : nz (some 2) = some 2 ∧ (fromServer "completed").completed = true := by decide +kernel

/-- One step of the full machine on a base operation (bodies a consistent server can send, job
built with request data) is the step of the base machine on the job part. -/
theorem full_step_refines_base (fixed : Bool) (f : FJob) (t : TOp) (bop : Op)
    (hb : t.op.base? = some bop) (hwf : t.op.WF) (hbody : f.hasBody = true) :
    (fstep fixed f t).1.job = (step fixed f.job bop).1 ∧
    (fstep fixed f t).2 = ⟨.base (step fixed f.job bop).2.res, (step fixed f.job bop).2.calls⟩ ∧
    (fstep fixed f t).1.hasBody = true :=
  fstep_base fixed f t bop hb hwf hbody

/-- Whole histories: for every list of base operations at any times, with any (consistent) time /
progress fields in the answers, the full machine produces the outputs of the base machine and ends
in the same job part.  Hence every theorem of the first half of this file holds of the full object. -/
theorem full_machine_refines_base (fixed : Bool) (ts : List TOp) (f : FJob) (hbody : f.hasBody = true)
    (hts : ∀ t ∈ ts, t.op.base?.isSome = true ∧ t.op.WF) :
    (run (fstep fixed) f ts).1.job = (run (step fixed) f.job (ts.filterMap (·.op.base?))).1 ∧
    (run (fstep fixed) f ts).2 = (run (step fixed) f.job (ts.filterMap (·.op.base?))).2.map Out.lift :=
  ⟨(frun_base fixed ts f hbody hts).1, (frun_base fixed ts f hbody hts).2.1⟩

example : (finit 3 "verif").hasBody = true ∧
    ∀ t ∈ [(⟨4, .execute (.ok 1)⟩ : TOp), ⟨5, .poll .status (.status "running" 2 ⟨2, some 1, some 2, none⟩)⟩],
      t.op.base?.isSome = true ∧ t.op.WF := by
  refine ⟨rfl, ?_⟩
  intro t ht
  simp only [List.mem_cons, List.mem_nil_iff, or_false] at ht
  rcases ht with rfl | rfl
  · exact ⟨rfl, trivial⟩
  · exact ⟨rfl, by show (RespF.status "running" 2 ⟨2, some 1, some 2, none⟩).WF; decide⟩

/-! ## `Job.name`, `_to_dict`, `_from_dict`, `from_id` -/

/-- `RunningStatus[str(status)]` is the status -/
theorem status_name_roundtrip (s : St) : St.ofName s.name = some s := St.ofName_name s

/-- a job name is never empty, and assigning a name twice changes nothing -/
theorem job_name_never_empty (s : String) : setName s ≠ "" ∧ setName (setName s) = setName s :=
  ⟨setName_ne_empty s, setName_of_ne_empty (setName_ne_empty s)⟩

/-- `_from_dict(_to_dict(job))`, for every job that can be written (it has request data or is
SUCCESS; a SUCCESS job was sent): the identifier survives; the status survives if the job was sent
(an unsent job comes back WAITING); the error streak, the stop message and the cached results do
not; the time state is fresh; a SUCCESS job loses its request data and its name. -/
theorem dict_roundtrip (f : FJob) (now : Int)
    (hb : f.hasBody = true ∨ f.job.status.isSuccess = true)
    (hs : f.job.status.isSuccess = true → f.job.id.isSome = true) :
    ∃ d, toDict f = .ok d ∧
      fromDict d now = .ok ⟨restoreJ f.job, TS.fresh now, !f.job.status.isSuccess,
        if f.job.status.isSuccess then "unnamed" else setName f.name⟩ :=
  toDict_fromDict f now hb hs

example : (finit 0 "j").hasBody = true ∨ (finit 0 "j").job.status.isSuccess = true := Or.inl rfl

/-- a sent job keeps identifier and status through the dictionary -/
theorem reopen_keeps_id_and_status (j : Job) (h : j.id.isSome = true) :
    (restoreJ j).id = j.id ∧ (restoreJ j).status = j.status := by
  simp [restoreJ, h]

example : (born 3).id.isSome = true := rfl

/-- The two ghost fields of the model (submission count, last successful read) are ghosts: two
jobs that agree on identifier, status, streak, stop message and cache produce the same outputs over
every history, and keep agreeing.  Both versions. -/
theorem ghost_fields_irrelevant (fixed : Bool) (ops : List Op) (j j' : Job) (h : core j = core j') :
    core (run (step fixed) j ops).1 = core (run (step fixed) j' ops).1 ∧
    (run (step fixed) j ops).2 = (run (step fixed) j' ops).2 :=
  run_core fixed ops j j' h

example : core (born 1) = core { born 1 with sentCount := 5, lastRead := some .running } := rfl

/-- A sent job with no failure streak, no stop message and no cached results, re-created from its
dictionary, behaves for EVERY later history exactly like the original: same return values, same
exceptions, same requests, step by step (so: status follows the server, no second submission,
results guard, … — everything the first half of this file proves).  Both versions. -/
theorem reopened_job_behaves_like_original (fixed : Bool) (j : Job) (ops : List Op)
    (hid : j.id.isSome = true) (h0 : j.streak = 0) (hm : j.msg = .none) (hc : j.cache = none) :
    (run (step fixed) (restoreJ j) ops).2 = (run (step fixed) j ops).2 ∧
    core (run (step fixed) (restoreJ j) ops).1 = core (run (step fixed) j ops).1 := by
  have : core (restoreJ j) = core j := by simp [core, restoreJ, hid, h0, hm, hc]
  exact ⟨(run_core fixed ops _ _ this).2, (run_core fixed ops _ _ this).1⟩

example : (born 1).id.isSome = true ∧ (born 1).streak = 0 ∧ (born 1).msg = .none ∧ (born 1).cache = none := by
  decide

/-- What is lost otherwise, by witnesses: (1) the streak counter restarts — after four absorbed
failures the original raises the fifth, the re-created job absorbs it; -/
theorem reopen_restarts_streak_witness :
    (step true { born 1 with streak := 4 } (.poll .status .conn)).2.res = .raised .conn ∧
    (step true (restoreJ { born 1 with streak := 4 }) (.poll .status .conn)).2.res = .st .waiting := by
  decide

/-- (2) a job whose creation request failed (unsent, ERROR) comes back as a fresh unsent WAITING job
that can be submitted; (3) the failure message of a failed job is forgotten. -/
theorem reopen_forgets_witness :
    (step true { init with status := .error, msg := .createFailed, sentCount := 1 } (.execute (.ok 2))).2.res =
      .raised .assertion ∧
    (step true (restoreJ { init with status := .error, msg := .createFailed, sentCount := 1 }) (.execute (.ok 2))).2 =
      ⟨.ok, [.create]⟩ ∧
    (getResults true (restoreJ { born 1 with status := .error, msg := .server 3 }) .conn .conn .missing).2.res =
      .raised (.jobFailed .none) := by
  decide

/-- A final status survives the dictionary and stays final for ever: for every later history on the
re-created job its status and id never change and no status request is sent.  Both versions. -/
theorem final_survives_reopen (fixed : Bool) (j : Job) (post : List Op) (hid : j.id.isSome = true)
    (hfin : j.status.completed = true) (hns : ∀ op ∈ post, op.switches = false) :
    (exec (step fixed) (restoreJ j) post).status = j.status ∧
    (exec (step fixed) (restoreJ j) post).id = j.id ∧
    ∀ o ∈ (run (step fixed) (restoreJ j) post).2, ∀ c ∈ o.calls, isStatusCall c = false := by
  obtain ⟨h1, h2⟩ := reopen_keeps_id_and_status j hid
  have := final_absorbing fixed (restoreJ j) post (by rw [h2]; exact hfin) hns
  rw [h1, h2] at this
  exact this

example : ({ born 1 with status := .canceled } : Job).id.isSome = true ∧
    ({ born 1 with status := .canceled } : Job).status.completed = true := by decide

/-- `from_id(n)`: one status request for job `n`; if it raises (fatal HTTP error; a first
transient failure is absorbed) no object is returned and the exception is the one the base machine
raises; otherwise the object is the job `n` (born sent, WAITING) after that status read, named
"resumed", without request data. -/
theorem resumed_job_follows_server (fixed : Bool) (n : Nat) (now : Int) (r : RespF) (hwf : r.WF) :
    (fromId fixed n now r).2.1 = (readStatus fixed (born n) r.base).2.1.map FExc.base ∧
    (fromId fixed n now r).2.2 = (readStatus fixed (born n) r.base).2.2 ∧
    ((readStatus fixed (born n) r.base).2.1 = none →
      ∃ f', (fromId fixed n now r).1 = some f' ∧ f'.job = (readStatus fixed (born n) r.base).1 ∧
        f'.hasBody = false ∧ f'.name = "resumed") ∧
    ((readStatus fixed (born n) r.base).2.1 ≠ none → (fromId fixed n now r).1 = none) := by
  have hj := readStatusF_job fixed ⟨born n, TS.fresh now, false, setName "resumed"⟩ now r
  have hc := readStatusF_calls fixed ⟨born n, TS.fresh now, false, setName "resumed"⟩ now r
  have he := readStatusF_exc fixed ⟨born n, TS.fresh now, false, setName "resumed"⟩ now r hwf
  have hh := readStatusF_hasBody fixed ⟨born n, TS.fresh now, false, setName "resumed"⟩ now r
  simp only [fromId]
  generalize readStatusF fixed ⟨born n, TS.fresh now, false, setName "resumed"⟩ now r = p at hj hc he hh
  generalize readStatus fixed (born n) r.base = q at hj hc he
  obtain ⟨f1, e, c⟩ := p
  obtain ⟨j1, e', c'⟩ := q
  simp only at hj hc he hh
  subst hj hc he
  cases e' with
  | some e => simp
  | none =>
    refine ⟨rfl, rfl, fun _ => ⟨f1, rfl, rfl, hh.1, ?_⟩, fun h => absurd rfl h⟩
    rw [hh.2]
    decide +kernel

example : (RespF.status "error" 1 ⟨0, none, none, none⟩).WF := by decide

/-- A job re-created from its id behaves like the original from the first successful status read
on: if the original (sent, unfinished) had no stop message and no cached results, then after
reading the same answer both agree on identifier, status, streak, message and cache — hence
(`ghost_fields_irrelevant`) on every later history. -/
theorem resumed_job_behaves_like_original (fixed : Bool) (j : Job) (n : Nat) (s : String) (m : Nat)
    (ops : List Op) (hid : j.id = some n) (hd : statusDue j = true) (hm : j.msg = .none)
    (hc : j.cache = none) :
    (run (step fixed) (readStatus fixed (born n) (.status s m)).1 ops).2 =
      (run (step fixed) (readStatus fixed j (.status s m)).1 ops).2 := by
  have hb : statusDue (born n) = true := by simp [statusDue, born, St.completed]
  have : core (readStatus fixed (born n) (.status s m)).1 = core (readStatus fixed j (.status s m)).1 := by
    simp only [readStatus, hd, hb, Bool.not_true, Bool.false_eq_true, if_false, core]
    simp [born, hid, hm, hc]
  exact (run_core fixed ops _ _ this).2

example : (born 4).id = some 4 ∧ statusDue (born 4) = true ∧ (born 4).msg = .none ∧ (born 4).cache = none := by
  decide

/-- Quirk of the code as it is (observed on the real code, not judged by the property statement):
a failed job re-created with `from_id` has no request data, `rerun()` builds the dictionary of the
new job with `_to_dict()` before asking the server, and that raises TypeError: no rerun request. -/
theorem resumed_failed_job_cannot_rerun_witness :
    (fstep true ⟨{ born 1 with status := .error }, TS.fresh 0, false, "resumed"⟩
      ⟨1, .rerun .conn .conn (.ok 2) true⟩).2 = ⟨.typeError, []⟩ := by
  decide +kernel

/-- Sent at most once, through everything: on the repaired code, once the job has an identifier,
no history of operations of the full machine — polls, cancel, rerun (also followed into the new
job), get_results, `_to_dict`, re-creation from the dictionary (`reopen`) or from the id (`resume`),
renaming, `execute_async`, `execute_sync` — ever calls `create_job`, and the job stays sent. -/
theorem sent_job_never_creates (f : FJob) (ts : List TOp) (hs : f.job.id.isSome = true) :
    (exec (fstep true) f ts).job.id.isSome = true ∧
    ∀ o ∈ (run (fstep true) f ts).2, Call.create ∉ o.calls :=
  ⟨inv_exec (fstep true) (fun f => f.job.id.isSome = true) (fun s op h => (fstep_sent s op h).1) f hs ts,
   outputs_run (fstep true) (fun f => f.job.id.isSome = true) (fun o => Call.create ∉ o.calls)
     (fun s op h => fstep_sent s op h) f hs ts⟩

example : (⟨born 1, TS.fresh 0, true, "j"⟩ : FJob).job.id.isSome = true := rfl

/-! ## `execute_sync` -/

/-- The polling loop is a fold over the server's answers: it uses up a prefix of them, its outputs
are the outputs of the `is_complete` polls over that prefix and its final state is the state after
them (so the streak law, `status_is_last_read`, … govern every iteration). -/
theorem sync_loop_is_run_of_polls (fixed : Bool) (j : Job) (rs : List Resp) :
    (syncLoop fixed j rs).2.1.length ≤ rs.length ∧
    (syncLoop fixed j rs).1 =
      exec (step fixed) j ((rs.take (syncLoop fixed j rs).2.1.length).map (Op.poll .isComplete)) ∧
    (syncLoop fixed j rs).2.1 =
      (run (step fixed) j ((rs.take (syncLoop fixed j rs).2.1.length).map (Op.poll .isComplete))).2 := by
  have h := loopUntil_run (fun j r => step fixed j (.poll .isComplete r)) Out.isRaise Out.isDone j rs
  have conv : ∀ (l : List Resp) (j : Job),
      run (fun j r => step fixed j (.poll .isComplete r)) j l =
        run (step fixed) j (l.map (Op.poll .isComplete)) := by
    intro l
    induction l with
    | nil => intro j; rfl
    | cons r l ih => intro j; simp [run, ih]
  unfold syncLoop
  obtain ⟨h1, h2, h3⟩ := h
  simp only [exec] at h2 ⊢
  rw [conv] at h2 h3
  exact ⟨h1, h2, h3⟩

/-- It ends exactly when a poll raises or reports completion: every poll but the last returned
"not complete" without raising; the loop is `complete` iff the last poll returned True (and then
the job holds a final status), `raised` iff the last poll raised (what `status` raised — nothing is
added or swallowed), and otherwise all answers are used up and the loop would go on. -/
theorem sync_loop_end (fixed : Bool) (j : Job) (rs : List Resp) :
    match (syncLoop fixed j rs).2.2 with
    | .pending => (syncLoop fixed j rs).2.1.length = rs.length ∧
        ∀ x ∈ (syncLoop fixed j rs).2.1, x.isRaise = false ∧ x.isDone = false
    | .raised => ∃ pre o, (syncLoop fixed j rs).2.1 = pre ++ [o] ∧ o.isRaise = true ∧
        ∀ x ∈ pre, x.isRaise = false ∧ x.isDone = false
    | .complete => (∃ pre o, (syncLoop fixed j rs).2.1 = pre ++ [o] ∧ o.isRaise = false ∧ o.isDone = true ∧
        ∀ x ∈ pre, x.isRaise = false ∧ x.isDone = false) ∧
        (syncLoop fixed j rs).1.status.completed = true := by
  have h := loopUntil_end (fun j r => step fixed j (.poll .isComplete r)) Out.isRaise Out.isDone j rs
  have hc := syncLoop_complete fixed j rs
  unfold syncLoop at hc ⊢
  cases he : (loopUntil (fun j r => step fixed j (.poll .isComplete r)) Out.isRaise Out.isDone j rs).2.2 with
  | pending => rw [he] at h; exact h
  | raised => rw [he] at h; exact h
  | complete => rw [he] at h; exact ⟨h, hc he⟩

/-- once the job is final, `get_results` does not look at the server's status answers any more -/
theorem results_after_final_ignore_server (fixed : Bool) (j : Job) (r1 r2 : Resp) (g : RResp)
    (h : j.status.completed = true) :
    getResults fixed j r1 r2 g = getResults fixed j .conn .conn g := by
  have hnd := statusDue_of_completed h
  simp [getResults, readStatus_not_due hnd]

/-- `execute_sync` sends exactly one creation request when `execute_async` accepts the job (unsent,
WAITING) — whatever the server answers afterwards, however long the loop runs — and none otherwise. -/
theorem sync_one_create (fixed : Bool) (j : Job) (h : HResp) (rs : List Resp) (g : RResp) :
    countCreate (executeSync fixed j h rs g).2.calls = if canExecute fixed j then 1 else 0 := by
  have hx := execute_calls fixed j h
  unfold executeSync
  generalize execute fixed j h = p at hx
  obtain ⟨j0, eo⟩ := p
  simp only at hx
  have hcount : countCreate eo.calls = if canExecute fixed j then 1 else 0 := by
    rw [hx]; split <;> simp [countCreate]
  cases hres : eo.res with
  | ok =>
    simp only [hres]
    have hl := syncLoop_noCreate fixed j0 rs
    generalize syncLoop fixed j0 rs = q at hl
    obtain ⟨j1, outs, e⟩ := q
    simp only at hl
    have hflat : countCreate (List.map (fun x => x.calls) outs).flatten = 0 := by
      apply countCreate_flatten_zero
      intro l hl'
      simp only [List.mem_map] at hl'
      obtain ⟨o, ho, rfl⟩ := hl'
      exact hl o ho
    cases e <;> simp [SyncOut.calls, countCreate_append, hflat, hcount, getResults_noCreate, countCreate]
  | st s => simp [hres, SyncOut.calls, countCreate_append, hcount, countCreate]
  | flag b => simp [hres, SyncOut.calls, countCreate_append, hcount, countCreate]
  | newJob n => simp [hres, SyncOut.calls, countCreate_append, hcount, countCreate]
  | results t => simp [hres, SyncOut.calls, countCreate_append, hcount, countCreate]
  | raised e => simp [hres, SyncOut.calls, countCreate_append, hcount, countCreate]

/-- `execute_sync` on the full object (time fields, name; the k-th poll at `now + k·d`) is
`execute_sync` on the base machine: same job part afterwards, same requests, same number of polls
and sleeps, same outcome. -/
theorem sync_full_refines_base (fixed : Bool) (f : FJob) (now : Int) (h : HResp) (rs : List RespF)
    (g : RResp) (d : Int) (hwf : ∀ r ∈ rs, r.WF) (hb : f.hasBody = true) :
    (executeSyncF fixed f now h rs g d).1.job = (executeSync fixed f.job h (rs.map RespF.base) g).1 ∧
    (executeSyncF fixed f now h rs g d).2 =
      ⟨(executeSync fixed f.job h (rs.map RespF.base) g).2.toFRes,
       (executeSync fixed f.job h (rs.map RespF.base) g).2.calls⟩ :=
  executeSyncF_base fixed f now h rs g d hwf hb

/-- With the real throttle: when the sleep between two polls is longer than the refresh delay (the
shipped values: 3 s vs 1 s) and the first poll is due, every iteration of the loop is a request —
the clocked loop is the plain loop, for every list of answers (fuel = any bound above their number). -/
theorem sync_clocked_is_plain_when_spaced (fixed : Bool) (delay d : Int) (hd : delay < d)
    (rs : List Resp) (fuel : Nat) (t : TJob) (now : Int) (hdue : statusDue t.job = true)
    (hnow : now - t.prev > delay) (hf : rs.length < fuel) :
    (syncLoopAt fixed delay d fuel t now rs).1.job = (syncLoop fixed t.job rs).1 ∧
    (syncLoopAt fixed delay d fuel t now rs).2 = (syncLoop fixed t.job rs).2 :=
  syncLoopAt_eq fixed delay d hd rs fuel t now hdue hnow hf

example : (4 : Int) < 12 ∧ statusDue (⟨born 1, 0⟩ : TJob).job = true ∧ (100 : Int) - 0 > 4 := by decide

/-- … whereas with a sleep shorter than the delay some iterations ask nothing (sleep 2, delay 4:
two silent polls between two requests) -/
theorem sync_throttled_witness :
    ((syncLoopAt true 4 2 20 ⟨born 1, 0⟩ 100 [.status "running" 2, .status "completed" 2]).2.1.map (·.calls)) =
      [[.status (some 1)], [], [], [.status (some 1)]] := by
  decide +kernel

/-! # result retrieval on the content of the answer (`Model/C17R.lean`, part R)

`rstep` = the base machine with `get_results` replaced by `getResultsR`, which works on what the
server actually sent: a body with or without `results`, text that is or is not JSON, a decoded value
of any shape, a `job_context` with or without `result_mapping` / `mapping_delta_parameters`, a
`results_list` whose items may lack `results` / `iteration`. -/

/-- every operation other than `get_results` is the operation of the base machine, so every theorem
of the first part speaks about this machine too -/
theorem results_machine_extends_base (fixed : Bool) (s : RJob) (op : Op) :
    (rstep fixed s (.base op)).1.job = (step fixed s.job op).1 ∧
    (rstep fixed s (.base op)).2 = (step fixed s.job op).2.toR := ⟨rfl, rfl⟩

/-- "Results are refused while the job is unfinished", whatever the server would have answered to the
results request (which is not sent) and whatever `_results` holds: the error, only the requests of
the status read, nothing stored. -/
theorem results_refused_while_unfinished (fixed : Bool) (s : RJob) (r1 r2 : Resp) (b : RBody)
    (hok : (readStatus fixed s.job r1).2.1 = none)
    (hun : (readStatus fixed s.job r1).1.status.maybeCompleted = false) :
    (getResultsR fixed s r1 r2 b).2 =
      ⟨.raised (.base .stillRunning), (readStatus fixed s.job r1).2.2⟩ ∧
    (getResultsR fixed s r1 r2 b).1.val = s.val ∧
    ∀ c ∈ (getResultsR fixed s r1 r2 b).2.calls, isResultsCall c = false := by
  rw [getResultsR_refused fixed s r1 r2 b hok hun]
  exact ⟨rfl, rfl, readStatus_no_results_call fixed s.job r1⟩

example : (readStatus true (born 1) (.status "running" 0)).2.1 = none ∧
    (readStatus true (born 1) (.status "running" 0)).1.status.maybeCompleted = false := by decide +kernel

/-- conversely: a results request is only ever sent after a first status read that went through and
left SUCCESS / ERROR / CANCELED / UNKNOWN in force (all states, all answers) -/
theorem results_request_is_guarded (fixed : Bool) (s : RJob) (r1 r2 : Resp) (b : RBody)
    (c : Call) (hc : c ∈ (getResultsR fixed s r1 r2 b).2.calls) (hr : isResultsCall c = true) :
    (readStatus fixed s.job r1).2.1 = none ∧
    (readStatus fixed s.job r1).1.status.maybeCompleted = true :=
  getResultsR_request_guarded fixed s r1 r2 b c hc hr

example : Call.results (some 1) ∈
    (getResultsR true ⟨{ born 1 with status := .error }, none⟩ .conn .conn .noKey).2.calls := by decide +kernel

/-- "a failed job reports its failure message": a job that is final with ERROR / CANCELED and holds no
truthy result sends exactly the results request and, whenever the retrieval stumbles over the content
of the answer (no `results` entry, `results: null`, a null / numeric value, a null `job_context`, an
item or entry the mapping needs and does not find), raises 'The job failed: <stop message>' … -/
theorem failed_job_reports_message_full (fixed : Bool) (s : RJob) (r1 r2 : Resp) (b : RBody)
    (hf : s.job.status.failed = true) (hv : truthyVal s.val = false) (hb : b.lookupFails = true) :
    (getResultsR fixed s r1 r2 b).2 = ⟨.raised (.base (.jobFailed s.job.msg)), [.results s.job.id]⟩ := by
  have hfin : s.job.status.completed = true := by
    cases hs : s.job.status <;> simp_all [St.failed, St.completed]
  rw [getResultsR_final fixed s r1 r2 b hfin]
  simp only [hv, Bool.false_eq_true, if_false]
  have h1 := fetch_lookup s.job s.val [] b hb
  have h2 := fetch_calls s.job s.val [] b
  rw [lookupExc_failed hf] at h1
  generalize fetch s.job s.val [] b = q at h1 h2
  obtain ⟨s', o⟩ := q
  obtain ⟨res, calls⟩ := o
  simp only at h1 h2
  simp [h1, h2]

example : ({ born 1 with status := .canceled, msg := .server 3 } : Job).status.failed = true ∧
    truthyVal none = false ∧
    (RBody.payload (.dict ⟨none, some [⟨some (.raw 1), none⟩], .mapping .good (some [("a", 1)]), false⟩)).lookupFails
      = true := by decide +kernel

/-- … and in no case 'still running' or the anonymous 'Results are not available' -/
theorem failed_job_never_unavailable (fixed : Bool) (s : RJob) (r1 r2 : Resp) (b : RBody)
    (hf : s.job.status.failed = true) :
    (getResultsR fixed s r1 r2 b).2.res ≠ .raised (.base .unavailable) ∧
    (getResultsR fixed s r1 r2 b).2.res ≠ .raised (.base .stillRunning) := by
  have hfin : s.job.status.completed = true := by
    cases hs : s.job.status <;> simp_all [St.failed, St.completed]
  rw [getResultsR_final fixed s r1 r2 b hfin]
  split
  · simp
  · exact fetch_failed_outcomes s.job s.val [] b hf

/-- the arguments of the mapping function for one item: exactly the delta parameters, in their
order; the item's own `iteration` value where it has one of that name, the default otherwise; names
that only occur in `iteration` are not passed -/
theorem mapping_arguments_law (deltas iter : List (String × Nat)) :
    (argsFor deltas iter).map Prod.fst = deltas.map Prod.fst ∧
    (∀ k v x, (k, v) ∈ deltas → iter.lookup k = some x → (k, x) ∈ argsFor deltas iter) ∧
    (∀ k v, (k, v) ∈ deltas → iter.lookup k = none → (k, v) ∈ argsFor deltas iter) :=
  ⟨argsFor_keys deltas iter, argsFor_override deltas iter, argsFor_default deltas iter⟩

/-- the mapping is applied exactly once to every item: for a final job without cached result and an
answer whose `results_list` has what the loop needs, `get_results` sends the one results request,
returns the dictionary with every item replaced by `f(item, **arguments)`, and stores that very
value -/
theorem mapping_applied_once (fixed : Bool) (s : RJob) (r1 r2 : Resp) (d : RDict)
    (dl : Option (List (String × Nat))) (items : List Item)
    (hfin : s.job.status.completed = true) (hv : truthyVal s.val = false) (hm : d.mappable dl items) :
    (getResultsR fixed s r1 r2 (.payload (.dict d))).2 =
      ⟨.value (.dict { d with rlist := some (mapSpec (dl.getD []) items) }), [.results s.job.id]⟩ ∧
    (getResultsR fixed s r1 r2 (.payload (.dict d))).1.val =
      some (.dict { d with rlist := some (mapSpec (dl.getD []) items) }) := by
  rw [getResultsR_final fixed s r1 r2 _ hfin]
  simp only [hv, Bool.false_eq_true, if_false]
  simp [fetch, process_mappable d dl items hm]

example : (⟨none, some [⟨some (.raw 1), some [("a", 5)]⟩, ⟨some (.raw 2), some []⟩],
    .mapping .good (some [("a", 1)]), false⟩ : RDict).mappable (some [("a", 1)])
    [⟨some (.raw 1), some [("a", 5)]⟩, ⟨some (.raw 2), some []⟩] := by
  refine ⟨rfl, rfl, ?_⟩
  intro it hit
  simp only [List.mem_cons, List.not_mem_nil, or_false] at hit
  rcases hit with rfl | rfl <;> simp

/-- same for an answer with a single `results` entry: mapped once with the delta parameters -/
theorem mapping_applied_once_single (fixed : Bool) (s : RJob) (r1 r2 : Resp) (d : RDict)
    (dl : Option (List (String × Nat))) (v : RV)
    (hfin : s.job.status.completed = true) (hv : truthyVal s.val = false)
    (h1 : d.ctx = .mapping .good dl) (h2 : d.rlist = none) (h3 : d.results = some v) :
    (getResultsR fixed s r1 r2 (.payload (.dict d))).2 =
      ⟨.value (.dict { d with results := some (.mapped v (dl.getD [])) }), [.results s.job.id]⟩ := by
  rw [getResultsR_final fixed s r1 r2 _ hfin]
  simp only [hv, Bool.false_eq_true, if_false]
  simp [fetch, process_single d dl v h1 h2 h3]

/-- an answer without `job_context` (or with one that names no mapping) is handed out untouched -/
theorem unmapped_results_untouched (fixed : Bool) (s : RJob) (r1 r2 : Resp) (d : RDict)
    (hfin : s.job.status.completed = true) (hv : truthyVal s.val = false)
    (h : d.ctx = .absent ∨ d.ctx = .noMapping) :
    (getResultsR fixed s r1 r2 (.payload (.dict d))).2 = ⟨.value (.dict d), [.results s.job.id]⟩ := by
  rw [getResultsR_final fixed s r1 r2 _ hfin]
  simp only [hv, Bool.false_eq_true, if_false]
  simp [fetch, process_no_context d h]

/-- … and never again: once a final job holds a truthy result, over EVERY later history on that
object (any operations, any answers) every `get_results` returns that very value without any
request — no second fetch, no second mapping — and the stored value never changes -/
theorem cached_results_stable (fixed : Bool) (s : RJob) (p : Payload) (post : List ROp)
    (hfin : s.job.status.completed = true) (hv : s.val = some p) (ht : p.truthy = true)
    (hns : ∀ op ∈ post, ∀ o, op = .base o → o.stays = true) :
    (exec (rstep fixed) s post).val = some p ∧
    (∀ r1 r2 b, (rstep fixed (exec (rstep fixed) s post) (.getResults r1 r2 b)).2 = ⟨.value p, []⟩) ∧
    ∀ o ∈ (run (rstep fixed) s post).2, ∀ c ∈ o.calls, isResultsCall c = false := by
  have hstep : ∀ (x : RJob) (op : ROp), (∀ o, op = .base o → o.stays = true) →
      (x.job.status = s.job.status ∧ x.val = some p) →
      ((rstep fixed x op).1.job.status = s.job.status ∧ (rstep fixed x op).1.val = some p) ∧
        ∀ c ∈ (rstep fixed x op).2.calls, isResultsCall c = false := by
    intro x op hop hx
    have hc : x.job.status.completed = true := by rw [hx.1]; exact hfin
    obtain ⟨h1, h2, h3, _⟩ := rstep_final_cached fixed x op p hc hx.2 ht
      (fun o ho => Op.stays_switches (hop o ho))
    refine ⟨⟨h1.trans hx.1, h2⟩, ?_⟩
    intro c hcm
    cases op with
    | getResults r1 r2 b => rw [h3 r1 r2 b rfl] at hcm; simp at hcm
    | base o => exact step_final_no_results_call fixed x.job o hc (hop o rfl) c (by simpa [rstep, Out.toR] using hcm)
  have hinv := inv_exec_of (rstep fixed) (fun op => ∀ o, op = .base o → o.stays = true)
    (fun x => x.job.status = s.job.status ∧ x.val = some p)
    (fun x op hop hx => (hstep x op hop hx).1) s ⟨rfl, hv⟩ post hns
  refine ⟨hinv.2, ?_, outputs_run_of (rstep fixed) (fun op => ∀ o, op = .base o → o.stays = true)
    (fun x => x.job.status = s.job.status ∧ x.val = some p)
    (fun o => ∀ c ∈ o.calls, isResultsCall c = false) hstep s ⟨rfl, hv⟩ post hns⟩
  intro r1 r2 b
  have hc : (exec (rstep fixed) s post).job.status.completed = true := by rw [hinv.1]; exact hfin
  exact (rstep_final_cached fixed _ (.getResults r1 r2 b) p hc hinv.2 ht (fun o ho => by cases ho)).2.2.1 r1 r2 b rfl

example : (Payload.dict ⟨some (.mapped (.raw 1) []), none, .mapping .good none, false⟩).truthy = true ∧
    ∀ op ∈ [ROp.base (.poll .status .conn), .getResults .conn .conn .badJson, .base (.rerun .conn .conn (.ok 2) false)],
      ∀ o, op = .base o → o.stays = true := by
  refine ⟨by decide, ?_⟩
  intro op hop o ho
  simp only [List.mem_cons, List.not_mem_nil, or_false] at hop
  rcases hop with rfl | rfl | rfl <;> (cases ho; try rfl)

/-- what the code does when the retrieval stumbles AFTER `self._results = …`: the half-processed value
stays in `_results`.  A final failed job whose answer has a second item without `iteration` first
raises 'The job failed: …' and then, asked again, hands out the dictionary with the first item mapped
and the second not, without any request.  Modelled and compared as it is; the property statement
does not speak about it. -/
theorem stumbling_retrieval_is_cached_witness :
    let d : RDict := ⟨none, some [⟨some (.raw 1), some []⟩, ⟨some (.raw 2), none⟩], .mapping .good (some [("a", 7)]), false⟩
    let s0 : RJob := ⟨{ born 1 with status := .error, msg := .server 3 }, none⟩
    let p1 := rstep true s0 (.getResults .conn .conn (.payload (.dict d)))
    let p2 := rstep true p1.1 (.getResults .conn .conn .noKey)
    p1.2 = ⟨.raised (.base (.jobFailed (.server 3))), [.results (some 1)]⟩ ∧
    p2.2 = ⟨.value (.dict { d with rlist := some [⟨some (.mapped (.raw 1) [("a", 7)]), some []⟩, ⟨some (.raw 2), none⟩] }), []⟩ := by
  decide +kernel

/-- malformed result text is NOT turned into the job's failure message: `json.JSONDecodeError` is a
ValueError and passes through `get_results` (code as it is) -/
theorem bad_json_passes_through_witness :
    (rstep true ⟨{ born 1 with status := .error, msg := .server 3 }, none⟩ (.getResults .conn .conn .badJson)).2 =
      ⟨.raised .jsonDecode, [.results (some 1)]⟩ := by
  decide +kernel

/-! # every operation under the real throttle (`Model/C17R.lean`, part K) -/

/-- With a negative refresh delay and a clock that does not run backwards (and is not negative: a new
object starts with `_previous_status_refresh = 0`) the clocked machine IS the main model over every
history: same job, same outputs.  This is what justifies running the real code with
`STATUS_REFRESH_DELAY = -1` in the main correspondence — now for all operations, including the double
reads of `rerun` / `get_results` and the jobs born from `rerun`. -/
theorem negative_delay_machine_is_plain (fixed : Bool) (delay : Int) (hd : delay < 0) (ks : List KOp)
    (hmono : Monotone 0 ks) :
    (run (kstep fixed delay) kinit ks).1.job = (run (step fixed) init (ks.map (·.op))).1 ∧
    (run (kstep fixed delay) kinit ks).2 = (run (step fixed) init (ks.map (·.op))).2 :=
  krun_neg fixed delay hd ks kinit 0 (Int.le_refl 0) (Int.le_refl 0) hmono

example : Monotone 0 [⟨1, 1, .execute (.ok 1)⟩, ⟨1, 2, .rerun .conn .conn (.ok 2) true⟩, ⟨2, 2, .poll .status .conn⟩] := by
  simp [Monotone]

/-- one step of it, from any state -/
theorem negative_delay_step_is_plain (fixed : Bool) (delay : Int) (t : TJob) (k : KOp) (hd : delay < 0)
    (hm : t.prev ≤ k.now1) (h12 : k.now1 ≤ k.now2) (h0 : 0 ≤ k.now2) :
    (kstep fixed delay t k).1.job = (step fixed t.job k.op).1 ∧
    (kstep fixed delay t k).2 = (step fixed t.job k.op).2 ∧
    (kstep fixed delay t k).1.prev ≤ k.now2 :=
  kstep_neg fixed delay t k hd hm h12 h0

example : (-1 : Int) < 0 ∧ kinit.prev ≤ 3 ∧ (3 : Int) ≤ 4 ∧ (0 : Int) ≤ 4 := by decide

/-- a final job does not look at the clock: whatever the delay and the times, every operation on it is
the operation of the main model (so `final_absorbing`, `final_reported_forever`, `rerun_guard`,
`results_guard` … hold of it under the real throttle) -/
theorem final_job_ignores_clock (fixed : Bool) (delay : Int) (t : TJob) (k : KOp)
    (hfin : t.job.status.completed = true) :
    (kstep fixed delay t k).1.job = (step fixed t.job k.op).1 ∧
    (kstep fixed delay t k).2 = (step fixed t.job k.op).2 :=
  kstep_final fixed delay t k hfin

example : (⟨{ born 1 with status := .canceled }, 0⟩ : TJob).job.status.completed = true := by decide

/-- inside the refresh delay the guards are evaluated on the status the object holds, and the server
is not asked: `cancel()` goes through (one cancel request, nothing else) iff the held status is
WAITING / RUNNING / SUSPENDED … -/
theorem throttled_cancel_uses_held_status (fixed : Bool) (delay : Int) (t : TJob) (now : Int) (r : Resp)
    (n : Nat) (h : now - t.prev ≤ delay) :
    (cancelAt fixed delay t now r (.ok n)).2 =
      if t.job.status.cancellable then ⟨.ok, [.cancel t.job.id]⟩ else ⟨.raised .notCancellable, []⟩ := by
  simp only [cancelAt, throttled_read_is_noop fixed delay t now r h]
  split <;> simp

/-- … `rerun()` of a job held as not failed is refused without any request (both reads throttled),
whatever the server would say … -/
theorem throttled_rerun_refused (fixed : Bool) (delay : Int) (t : TJob) (now1 now2 : Int) (r1 r2 : Resp)
    (hr : HResp) (sw : Bool) (h1 : now1 - t.prev ≤ delay) (h2 : now2 - t.prev ≤ delay)
    (hnf : t.job.status.failed = false) :
    rerunAt fixed delay t now1 now2 r1 r2 hr sw = (t, ⟨.raised .notRerunnable, []⟩) := by
  simp [rerunAt, throttled_read_is_noop fixed delay t now1 r1 h1, throttled_read_is_noop fixed delay t now2 r2 h2, hnf]

/-- … and `get_results()` of a job held as unfinished is refused without any request -/
theorem throttled_results_refused (fixed : Bool) (delay : Int) (t : TJob) (now1 now2 : Int) (r1 r2 : Resp)
    (hr : RResp) (h1 : now1 - t.prev ≤ delay) (hun : t.job.status.maybeCompleted = false) :
    getResultsAt fixed delay t now1 now2 r1 r2 hr = (t, ⟨.raised .stillRunning, []⟩) := by
  simp [getResultsAt, throttled_read_is_noop fixed delay t now1 r1 h1, hun]

example : (3 : Int) - 0 ≤ 4 ∧ (⟨born 1, 0⟩ : TJob).job.status.failed = false ∧
    (⟨born 1, 0⟩ : TJob).job.status.maybeCompleted = false := by decide

/-- the second status read of `rerun` (the one that builds the error message) comes within the delay
of the first whenever the first was sent: with the shipped delay and a real clock it never reaches
the server (delay 4, both reads at time 10) -/
theorem rerun_second_read_throttled_witness :
    (rerunAt true 4 ⟨born 1, 0⟩ 10 10 (.status "running" 0) (.status "error" 0) (.ok 2) false).2 =
      ⟨.raised .notRerunnable, [.status (some 1)]⟩ := by
  decide +kernel

/-! # third extension (`Model/C17Y.lean`): results on the content of the answer UNDER the real throttle,
re-creation from the dictionary / from the id under the real clock

`ystep` = one object with the status part, the content of `_results` and `_previous_status_refresh`:
the base operations are those of the clocked machine (`kstep`), `get_results` is `getResultsY`
(`getResultsR` with each status read throttled at its own time), `reopen` continues with
`_from_dict(_to_dict())` (a NEW object: `_previous_status_refresh = 0.`, `_results = None`). -/

/-- With a negative refresh delay and a clock that does not run backwards, the combined machine IS
the results machine of part R over every history of timed operations: same job, same stored value,
same outputs.  So running the real code with `STATUS_REFRESH_DELAY = -1` in the results
correspondence loses nothing, and every theorem about `rstep` speaks about the object with a clock. -/
theorem clocked_results_machine_negative_delay_is_plain (fixed : Bool) (delay : Int) (hd : delay < 0)
    (ys : List YOp) (hmono : YMonotone 0 ys) :
    (run (ystep fixed delay) yinit ys).1.r = (run (rstep fixed) rinit (ys.filterMap YOp.plain)).1 ∧
    (run (ystep fixed delay) yinit ys).2 = (run (rstep fixed) rinit (ys.filterMap YOp.plain)).2 :=
  yrun_neg fixed delay hd ys yinit 0 (Int.le_refl 0) (Int.le_refl 0) hmono

example : YMonotone 0 [.base 1 1 (.execute (.ok 1)), .getResults 1 2 .conn .conn .noKey] :=
  ⟨1, 1, rfl, by decide, by decide, 1, 2, rfl, by decide, by decide, trivial⟩

/-- a final job does not look at the clock: whatever the delay and the times, every operation on it
(incl. `get_results` on the content of the answer) is the operation of the results machine — so
`failed_job_reports_message_full`, `mapping_applied_once`, `unmapped_results_untouched` … hold of
the final job under the real throttle -/
theorem clocked_results_final_job_ignores_clock (fixed : Bool) (delay : Int) (s : YJob) (y : YOp) (rop : ROp)
    (hp : y.plain = some rop) (hfin : s.job.status.completed = true) :
    (ystep fixed delay s y).1.r = (rstep fixed s.r rop).1 ∧
    (ystep fixed delay s y).2 = (rstep fixed s.r rop).2 :=
  ystep_final fixed delay s y rop hp hfin

example : (YOp.getResults 3 9 .conn .conn .badJson).plain = some (.getResults .conn .conn .badJson) ∧
    (⟨{ born 1 with status := .error }, none, 0⟩ : YJob).job.status.completed = true := by decide

/-- "Results are refused while the job is unfinished", for every delay and every clock: when the first
status read (sent or held back by the throttle) leaves a status that is not
SUCCESS / ERROR / CANCELED / UNKNOWN in force, `get_results` raises 'still running', sends no results
request whatever the server would have answered, and stores nothing. -/
theorem results_refused_while_unfinished_under_throttle (fixed : Bool) (delay : Int) (s : YJob)
    (n1 n2 : Int) (r1 r2 : Resp) (b : RBody)
    (hok : (readStatusAt fixed delay s.t n1 r1).2.1 = none)
    (hun : (readStatusAt fixed delay s.t n1 r1).1.job.status.maybeCompleted = false) :
    (getResultsY fixed delay s n1 n2 r1 r2 b).2 =
      ⟨.raised (.base .stillRunning), (readStatusAt fixed delay s.t n1 r1).2.2⟩ ∧
    (getResultsY fixed delay s n1 n2 r1 r2 b).1.val = s.val ∧
    ∀ c ∈ (getResultsY fixed delay s n1 n2 r1 r2 b).2.calls, isResultsCall c = false := by
  rw [getResultsY_refused fixed delay s n1 n2 r1 r2 b hok hun]
  exact ⟨rfl, rfl, readStatusAt_no_results_call fixed delay s.t n1 r1⟩

example : (readStatusAt true 4 (⟨born 1, none, 0⟩ : YJob).t 3 (.status "completed" 0)).2.1 = none ∧
    (readStatusAt true 4 (⟨born 1, none, 0⟩ : YJob).t 3 (.status "completed" 0)).1.job.status.maybeCompleted = false := by
  decide +kernel

/-- inside the refresh delay `get_results` asks the server nothing about the status and decides on
what the object holds: refused when the held status is unfinished; the cached value when it holds a
truthy result and a final status; the results request otherwise (held status UNKNOWN, or final
without a truthy result) -/
theorem throttled_get_results_uses_held_state (fixed : Bool) (delay : Int) (s : YJob) (n1 n2 : Int)
    (r1 r2 : Resp) (b : RBody) (h1 : n1 - s.prev ≤ delay) (h2 : n2 - s.prev ≤ delay) :
    getResultsY fixed delay s n1 n2 r1 r2 b =
      if !s.job.status.maybeCompleted then (s, ⟨.raised (.base .stillRunning), []⟩)
      else if truthyVal s.val && s.job.status.completed then (s, ⟨.value (s.val.getD .null), []⟩)
      else (⟨(fetch s.job s.val [] b).1.job, (fetch s.job s.val [] b).1.val, s.prev⟩, (fetch s.job s.val [] b).2) :=
  getResultsY_throttled fixed delay s n1 n2 r1 r2 b h1 h2

example : (3 : Int) - 0 ≤ 4 := by decide

/-- … which the throttle can turn against the server's word: the server says the job is still running,
but the object was told UNKNOWN half a delay ago — the results request goes out (delay 4, read at
time 10, `get_results` at time 12).  Code as it is; the property does not speak about the throttle. -/
theorem throttled_results_request_on_stale_unknown_witness :
    (getResultsY true 4 ⟨{ born 1 with status := .unknown }, none, 10⟩ 12 12
        (.status "running" 0) (.status "running" 0) .noKey).2 =
      ⟨.raised (.base .unavailable), [.results (some 1)]⟩ := by
  decide +kernel

/-- `cached_results_stable` under the real throttle: once a final job holds a truthy result, over EVERY
later history on that object (any operations at any times, any answers, any delay) every
`get_results` returns that very value without any request, no results request is ever sent again and
the stored value never changes. -/
theorem cached_results_stable_under_throttle (fixed : Bool) (delay : Int) (s : YJob) (p : Payload)
    (post : List YOp) (hfin : s.job.status.completed = true) (hv : s.val = some p) (ht : p.truthy = true)
    (hk : ∀ y ∈ post, y.keeps = true) :
    (exec (ystep fixed delay) s post).val = some p ∧
    (∀ n1 n2 r1 r2 b,
      (ystep fixed delay (exec (ystep fixed delay) s post) (.getResults n1 n2 r1 r2 b)).2 = ⟨.value p, []⟩) ∧
    ∀ o ∈ (run (ystep fixed delay) s post).2, ∀ c ∈ o.calls, isResultsCall c = false := by
  have hstep : ∀ (x : YJob) (y : YOp), y.keeps = true →
      (x.job.status = s.job.status ∧ x.val = some p) →
      ((ystep fixed delay x y).1.job.status = s.job.status ∧ (ystep fixed delay x y).1.val = some p) ∧
        ∀ c ∈ (ystep fixed delay x y).2.calls, isResultsCall c = false := by
    intro x y hy hx
    have hc : x.job.status.completed = true := by rw [hx.1]; exact hfin
    obtain ⟨⟨h1, h2⟩, h3, _⟩ := ystep_final_cached fixed delay x y p hy hc hx.2 ht
    exact ⟨⟨h1.trans hx.1, h2⟩, h3⟩
  have hinv := inv_exec_of (ystep fixed delay) (fun y => y.keeps = true)
    (fun x => x.job.status = s.job.status ∧ x.val = some p)
    (fun x y hy hx => (hstep x y hy hx).1) s ⟨rfl, hv⟩ post hk
  refine ⟨hinv.2, ?_, outputs_run_of (ystep fixed delay) (fun y => y.keeps = true)
    (fun x => x.job.status = s.job.status ∧ x.val = some p)
    (fun o => ∀ c ∈ o.calls, isResultsCall c = false) hstep s ⟨rfl, hv⟩ post hk⟩
  intro n1 n2 r1 r2 b
  have hc : (exec (ystep fixed delay) s post).job.status.completed = true := by rw [hinv.1]; exact hfin
  exact (ystep_final_cached fixed delay _ (.getResults n1 n2 r1 r2 b) p rfl hc hinv.2 ht).2.2 n1 n2 r1 r2 b rfl

example : ∀ y ∈ [YOp.base 5 5 (.poll .status .conn), .getResults 5 9 .conn .conn .badJson,
      .base 9 9 (.rerun .conn .conn (.ok 2) false)], y.keeps = true := by
  decide

/-- `reopen` is the dictionary round trip of `dict_roundtrip` on the job part, and the object it yields
is new: `_results = None`, `_previous_status_refresh = 0.` -/
theorem reopen_is_dict_roundtrip (fixed : Bool) (delay : Int) (s : YJob) :
    (ystep fixed delay s .reopen).1 = ⟨restoreJ s.job, none, 0⟩ ∧
    (ystep fixed delay s .reopen).2 = ⟨.base .ok, []⟩ := ⟨rfl, rfl⟩

/-- so the throttle does not survive the dictionary: whenever the original last asked, the first
status-dependent call on the re-created object of a sent unfinished job at any time later than the
delay (every real clock) reaches the server, and is the read of the main model … -/
theorem reopened_job_first_read_reaches_server (fixed : Bool) (delay : Int) (s : YJob) (now : Int) (r : Resp)
    (hdue : statusDue s.job = true) (hnow : now > delay) :
    statusDue (ystep fixed delay s .reopen).1.job = true ∧
    readStatusAt fixed delay (ystep fixed delay s .reopen).1.t now r =
      (⟨(readStatus fixed (restoreJ s.job) r).1, now⟩, (readStatus fixed (restoreJ s.job) r).2.1,
       [.status s.job.id]) := by
  have hid : s.job.id.isSome = true := by
    simp only [statusDue, Bool.and_eq_true] at hdue; exact hdue.1
  have hd2 : statusDue (restoreJ s.job) = true := by
    simp only [statusDue, restoreJ, hid, if_true] at hdue ⊢; exact hdue
  refine ⟨hd2, ?_⟩
  have h := readStatusAt_overdue fixed delay ⟨restoreJ s.job, 0⟩ now r hd2 (by simpa using hnow)
  have hc : (readStatus fixed (restoreJ s.job) r).2.2 = [.status s.job.id] := by
    cases r <;> simp [readStatus, hd2] <;> rfl
  rw [← hc]
  exact h

example : statusDue (⟨born 1, none, 50⟩ : YJob).job = true ∧ (51 : Int) > 4 := by decide

/-- … two requests inside one delay, by witness (delay 4): a read at time 10 is sent, a second read
at time 11 is held back, the object re-created from the dictionary at time 11 asks again -/
theorem reopen_resets_throttle_witness :
    ((run (ystep true 4) ⟨born 1, none, 0⟩
        [.base 10 10 (.poll .status (.status "running" 0)), .base 11 11 (.poll .status (.status "running" 0)),
         .reopen, .base 11 11 (.poll .status (.status "running" 0))]).2.map (·.calls)) =
      [[.status (some 1)], [], [], [.status (some 1)]] := by
  decide +kernel

/-- `RemoteJob.from_id(n)` under the real clock: at any time later than the delay it sends exactly one
status request for `n`; an exception of that read propagates and no object is returned; otherwise the
object shows what the main model's read shows and has asked at `now` -/
theorem from_id_asks_server (fixed : Bool) (delay : Int) (n : Nat) (now : Int) (r : Resp) (h : now > delay) :
    (resumeAt fixed delay n now r).2.2 = [.status (some n)] ∧
    (resumeAt fixed delay n now r).2.1 = (readStatus fixed (born n) r).2.1 ∧
    (resumeAt fixed delay n now r).1 =
      if (readStatus fixed (born n) r).2.1.isSome then none
      else some ⟨(readStatus fixed (born n) r).1, none, now⟩ := by
  rw [resumeAt_overdue fixed delay n now r h]
  have hc := readStatus_born_calls fixed n r
  generalize readStatus fixed (born n) r = q at hc
  obtain ⟨j, e, c⟩ := q
  cases e <;> simp_all

example : (100 : Int) > 4 := by decide

/-- … whereas on a clock that has not yet passed the delay (`_previous_status_refresh` starts at 0.)
`from_id` asks nothing and shows WAITING whatever the server knows.  Code as it is. -/
theorem from_id_throttled_witness :
    resumeAt true 4 7 3 (.status "error" 0) = (some ⟨born 7, none, 0⟩, none, []) := by
  decide +kernel

/-- `final_absorbing` on the whole object — status part, content of `_results`, real throttle — and
THROUGH the dictionary: once a sent job shows SUCCESS / ERROR / CANCELED, over EVERY later history of
operations at any times and with any delay (polls, cancel, rerun that is not followed, `get_results`
with any answer, re-creation with `_from_dict(_to_dict())` any number of times) the status and the
identifier never change and no status request is ever sent.  Both versions of the code. -/
theorem final_absorbing_whole_object (fixed : Bool) (delay : Int) (s : YJob) (post : List YOp)
    (hid : s.job.id.isSome = true) (hfin : s.job.status.completed = true)
    (hns : ∀ y ∈ post, y.noSwitch = true) :
    (exec (ystep fixed delay) s post).job.status = s.job.status ∧
    (exec (ystep fixed delay) s post).job.id = s.job.id ∧
    ∀ o ∈ (run (ystep fixed delay) s post).2, ∀ c ∈ o.calls, isStatusCall c = false := by
  have hstep : ∀ (x : YJob) (y : YOp), y.noSwitch = true →
      (x.job.status = s.job.status ∧ x.job.id = s.job.id) →
      ((ystep fixed delay x y).1.job.status = s.job.status ∧ (ystep fixed delay x y).1.job.id = s.job.id) ∧
        ∀ c ∈ (ystep fixed delay x y).2.calls, isStatusCall c = false := by
    intro x y hy hx
    obtain ⟨h1, h2, h3⟩ := ystep_final_absorbing fixed delay x y hy (by rw [hx.2]; exact hid)
      (by rw [hx.1]; exact hfin)
    exact ⟨⟨h1.trans hx.1, h2.trans hx.2⟩, h3⟩
  have hinv := inv_exec_of (ystep fixed delay) (fun y => y.noSwitch = true)
    (fun x => x.job.status = s.job.status ∧ x.job.id = s.job.id)
    (fun x y hy hx => (hstep x y hy hx).1) s ⟨rfl, rfl⟩ post hns
  exact ⟨hinv.1, hinv.2, outputs_run_of (ystep fixed delay) (fun y => y.noSwitch = true)
    (fun x => x.job.status = s.job.status ∧ x.job.id = s.job.id)
    (fun o => ∀ c ∈ o.calls, isStatusCall c = false) hstep s ⟨rfl, rfl⟩ post hns⟩

example : (⟨{ born 1 with status := .canceled }, none, 7⟩ : YJob).job.id.isSome = true ∧
    (⟨{ born 1 with status := .canceled }, none, 7⟩ : YJob).job.status.completed = true ∧
    ∀ y ∈ [YOp.reopen, .getResults 5 9 .conn .conn .badJson, .base 9 9 (.rerun .conn .conn (.ok 2) false), .reopen],
      y.noSwitch = true := by decide

/-- "sent at most once" on the whole object under the real throttle and through re-creation: once the
object has an identifier, no history of ANY operations at any times (polls, cancel, rerun followed into
the new job or not, `get_results` on any answer, `execute_async` again, `_from_dict(_to_dict())`) ever
calls `create_job`, and the object at hand always has an identifier (repaired code) -/
theorem sent_object_never_creates_under_throttle (delay : Int) (s : YJob) (post : List YOp)
    (hid : s.job.id.isSome = true) :
    (exec (ystep true delay) s post).job.id.isSome = true ∧
    ∀ o ∈ (run (ystep true delay) s post).2, countCreate o.calls = 0 := by
  have hinv := inv_exec_of (ystep true delay) (fun _ => True) (fun x => x.job.id.isSome = true)
    (fun x y _ hx => (ystep_sent delay x y hx).1) s hid post (fun _ _ => trivial)
  exact ⟨hinv, outputs_run_of (ystep true delay) (fun _ => True) (fun x => x.job.id.isSome = true)
    (fun o => countCreate o.calls = 0) (fun x y _ hx => ystep_sent delay x y hx) s hid post
    (fun _ _ => trivial)⟩

example : (⟨born 1, none, 0⟩ : YJob).job.id.isSome = true := rfl

/-! # wave 7: the two headline statements on the WHOLE object from the constructor on, under the real
throttle (`Lemmas/C17Z.lean`) -/

/-- "A job is sent at most once", on the whole object (status part + content of `_results` +
`_previous_status_refresh`) from `RemoteJob(…)` on, for EVERY delay and EVERY clock (no monotonicity
asked): over any history of timed operations — `execute_async` any number of times, status reads,
cancel, rerun followed into the new job or not, `get_results` on any answer — that does not re-create
the object from its dictionary, the handler receives at most one `create_job` call.  (Before: only
`sent_at_most_once` for the unclocked machine, and `sent_object_never_creates_under_throttle` from a
state that already has an identifier.)  Repaired code. -/
theorem sent_at_most_once_whole_object (delay : Int) (ys : List YOp) (hno : ∀ y ∈ ys, y ≠ .reopen) :
    totalCreatesR (run (ystep true delay) yinit ys).2 ≤ 1 := by
  have h := yrun_budget delay ys yinit hno
  have h0 : budget yinit.job = 1 := by decide
  omega

example : ∀ y ∈ [YOp.base 0 0 (.execute .conn), .base 0 0 (.execute (.ok 1)),
    .getResults 5 9 .conn .conn .badJson], y ≠ .reopen := by decide

/-- the hypothesis "no re-creation" is needed, code as it is: a job whose creation request failed comes
back from `_from_dict(_to_dict())` as an unsent WAITING job, and `execute_async` on it creates again -/
theorem sent_at_most_once_needs_no_reopen_witness :
    totalCreatesR (run (ystep true 4) yinit
      [.base 0 0 (.execute .conn), .reopen, .base 0 0 (.execute (.ok 1))]).2 = 2 := by
  decide +kernel

/-- the pinned code under the throttle: `execute_async(); execute_async()` creates two jobs -/
theorem current_code_sends_twice_under_throttle_witness :
    totalCreatesR (run (ystep false 4) yinit
      [.base 0 0 (.execute (.ok 1)), .base 0 0 (.execute (.ok 2))]).2 = 2 := by
  decide +kernel

/-- the same for the clocked machine of part K (all operations, abstract results answer): no hypothesis
at all — any delay, any times, any history -/
theorem sent_at_most_once_under_throttle (delay : Int) (ks : List KOp) :
    totalCreates (run (kstep true delay) kinit ks).2 ≤ 1 := by
  have h := krun_budget delay ks kinit
  have h0 : budget kinit.job = 1 := by decide
  omega

/-- an object that is not "never sent and still WAITING" — it has an identifier, or its creation request
failed (unsent ERROR), or it was cancelled before being sent — never calls `create_job`, over every
history at any times that does not re-create it from the dictionary; and it never becomes "never sent
and WAITING" again.  Repaired code. -/
theorem spent_object_never_creates (delay : Int) (s : YJob) (ys : List YOp)
    (hsp : fresh s.job = false) (hno : ∀ y ∈ ys, y ≠ .reopen) :
    totalCreatesR (run (ystep true delay) s ys).2 = 0 ∧ fresh (exec (ystep true delay) s ys).job = false := by
  have h := yrun_budget delay ys s hno
  have h0 : budget s.job = 0 := by simp [budget, hsp]
  refine ⟨by omega, ?_⟩
  cases hf : fresh (exec (ystep true delay) s ys).job
  · rfl
  · have h1 : budget (exec (ystep true delay) s ys).job = 1 := by simp [budget, hf]
    omega

example : fresh (⟨{ init with status := .error, msg := .createFailed, sentCount := 1 }, none, 0⟩ : YJob).job = false := by
  decide

/-- one step, any state: every `create_job` call is made by a never-sent WAITING object and ends that
condition (`budget` = 1 for such an object, 0 otherwise) -/
theorem create_uses_up_the_budget (delay : Int) (s : YJob) (y : YOp) (hy : y ≠ .reopen) :
    countCreate (ystep true delay s y).2.calls + budget (ystep true delay s y).1.job ≤ budget s.job :=
  ystep_budget delay s y hy

example : YOp.base 0 0 (.execute .conn) ≠ .reopen := by decide

/-- "keeps polling while unfinished" on the whole object under the REAL throttle (before:
`polls_while_unfinished` with every read due, and `overdue_read_is_sent` for a bare status read): in
every state with a sent job whose status is not SUCCESS / ERROR / CANCELED — UNKNOWN included —, for
every delay, EVERY status-dependent operation (status()/is_*, cancel, rerun, `get_results` on any
answer) whose first read comes more than the delay after the previous request begins with a status
request for this very job.  Both versions of the code. -/
theorem polls_while_unfinished_under_throttle (fixed : Bool) (delay : Int) (s : YJob) (y : YOp)
    (hs : s.job.id.isSome = true) (hn : s.job.status.completed = false)
    (hop : y.readsStatus = true) (hover : y.overdue delay s.prev = true) :
    (ystep fixed delay s y).2.calls.head? = some (.status s.job.id) :=
  ystep_head_status fixed delay s y ((statusDue_iff s.job).2 ⟨hs, hn⟩) hop hover

example : (⟨{ born 1 with status := .unknown }, none, 3⟩ : YJob).job.id.isSome = true ∧
    (⟨{ born 1 with status := .unknown }, none, 3⟩ : YJob).job.status.completed = false ∧
    (YOp.getResults 8 8 .conn .conn .noKey).readsStatus = true ∧
    (YOp.getResults 8 8 .conn .conn .noKey).overdue 4 3 = true := by decide

/-- … over ANY history of the whole object (any operations incl. re-creation, any times): as long as the
object at hand is sent and has not shown a final status, the next overdue status-dependent operation
asks the server about exactly this job -/
theorem keeps_polling_until_final_whole_object (fixed : Bool) (delay : Int) (ys : List YOp) (y : YOp)
    (hs : (exec (ystep fixed delay) yinit ys).job.id.isSome = true)
    (hn : (exec (ystep fixed delay) yinit ys).job.status.completed = false)
    (hop : y.readsStatus = true) (hover : y.overdue delay (exec (ystep fixed delay) yinit ys).prev = true) :
    Call.status (exec (ystep fixed delay) yinit ys).job.id ∈
      (ystep fixed delay (exec (ystep fixed delay) yinit ys) y).2.calls :=
  List.mem_of_mem_head? (polls_while_unfinished_under_throttle fixed delay _ y hs hn hop hover)

example : (exec (ystep true 4) yinit [.base 0 0 (.execute (.ok 1)), .reopen]).job.id.isSome = true ∧
    (exec (ystep true 4) yinit [.base 0 0 (.execute (.ok 1)), .reopen]).job.status.completed = false ∧
    (YOp.base 5 5 (.cancel .conn .conn)).overdue 4 (exec (ystep true 4) yinit [.base 0 0 (.execute (.ok 1)), .reopen]).prev = true := by
  decide +kernel

/-- "overdue" is needed: inside the delay the same call on the same unfinished job asks nothing about
the status (here it sends the cancel request on the held status) -/
theorem polls_while_unfinished_needs_overdue_witness :
    (ystep true 4 ⟨born 1, none, 3⟩ (.base 5 5 (.cancel (.status "completed" 0) (.ok 0)))).2.calls =
      [.cancel (some 1)] := by
  decide +kernel

/-! ## necessity of hypotheses of earlier theorems (witnesses) -/

/-- `final_absorbing_whole_object` needs "the rerun is not followed": following an accepted rerun of a
final failed job, the object at hand has another identifier and is WAITING -/
theorem final_absorbing_needs_noSwitch_witness :
    (exec (ystep true 4) ⟨{ born 1 with status := .canceled }, none, 0⟩
      [.base 9 9 (.rerun .conn .conn (.ok 2) true)]).job = born 2 := by
  decide +kernel

/-- `cached_results_stable_under_throttle` needs "no re-creation": after `_from_dict(_to_dict())` the
final job with a truthy cached result sends the results request again -/
theorem cached_results_stable_needs_keeps_witness :
    (run (ystep true 4) ⟨{ born 1 with status := .success }, some (.num 7), 0⟩
      [.reopen, .getResults 9 9 .conn .conn .noKey]).2.map (·.calls) = [[], [.results (some 1)]] := by
  decide +kernel

/-- `clocked_results_machine_negative_delay_is_plain` needs the negative delay: with the shipped
positive delay a read inside it is held back, the plain machine sends it -/
theorem negative_delay_is_needed_witness :
    (run (ystep true 4) yinit [.base 1 1 (.execute (.ok 1)), .base 2 2 (.poll .status (.status "running" 0))]).2 ≠
    (run (rstep true) rinit [.base (.execute (.ok 1)), .base (.poll .status (.status "running" 0))]).2 := by
  decide +kernel

/-! ## the streak law under the real throttle -/

/-- The streak law for EVERY delay and EVERY clock (before: `streak_law` with every read due; under the
clock only the direct oracle of the harness): a run of timed status reads of a sent unfinished job,
of any length, whose requests all fail in the transient way.  A read inside the delay returns the last
known status, sends nothing and does not count; the reads that reach the server are numbered on from
the streak counter, number `n` returns the last known status while `n < 5` and raises its own error
for every `n ≥ 5`, each is exactly one status request for this job and restarts the delay
(`streakSpecAt`).  Clocked machine of part K, repaired code. -/
theorem streak_law_under_throttle (delay : Int) (t : TJob) (xs : List (Int × Resp))
    (hd : statusDue t.job = true) (ht : ∀ x ∈ xs, x.2.isTransient = true) :
    (run (kstep true delay) t (xs.map fun x => ⟨x.1, x.1, .poll .status x.2⟩)).2 =
      streakSpecAt delay t.job t.prev t.job.streak xs :=
  streak_run_at delay t xs hd ht

example : statusDue (⟨born 1, 0⟩ : TJob).job = true ∧
    ∀ x ∈ [((5 : Int), Resp.conn), (6, .http 429)], x.2.isTransient = true := by decide

/-- the same on the whole object (content of `_results` and all) -/
theorem streak_law_whole_object_under_throttle (delay : Int) (s : YJob) (xs : List (Int × Resp))
    (hd : statusDue s.job = true) (ht : ∀ x ∈ xs, x.2.isTransient = true) :
    (run (ystep true delay) s (xs.map fun x => .base x.1 x.1 (.poll .status x.2))).2 =
      (streakSpecAt delay s.job s.prev s.job.streak xs).map Out.toR := by
  have h := yrun_base_noswitch true delay (xs.map fun x => (⟨x.1, x.1, .poll .status x.2⟩ : KOp))
    (by intro k hk; simp only [List.mem_map] at hk; obtain ⟨x, _, rfl⟩ := hk; rfl) s
  rw [List.map_map] at h
  have h2 := streak_run_at delay s.t xs hd ht
  rw [h2] at h
  exact h

example : statusDue (⟨born 1, none, 0⟩ : YJob).job = true := by decide

/-- with all reads spaced by more than the delay it is the plain streak law -/
theorem streakSpecAt_spaced_witness :
    streakSpecAt 4 (born 1) 0 0 [(5, .conn), (10, .conn), (15, .conn), (20, .conn), (25, .conn), (30, .http 429)] =
      streakSpec (born 1) 0 [.conn, .conn, .conn, .conn, .conn, .http 429] := by
  decide +kernel

/-- reads held back by the throttle do not count: four failures reach the server (times 5, 10, 15, 20),
three reads in between are silent, so the read at time 25 is failure number 5 and raises -/
theorem throttled_reads_do_not_count_witness :
    (run (kstep true 4) ⟨born 1, 0⟩
      ([(5, Resp.conn), (6, .conn), (10, .conn), (12, .conn), (15, .conn), (20, .conn), (21, .conn), (25, .conn)].map
        fun x => ⟨x.1, x.1, .poll .status x.2⟩)).2.map (fun o => (o.res, o.calls.length)) =
      [(.st .waiting, 1), (.st .waiting, 0), (.st .waiting, 1), (.st .waiting, 0), (.st .waiting, 1),
       (.st .waiting, 1), (.st .waiting, 0), (.raised .conn, 1)] := by
  decide +kernel

/-! ## wave 9: the shape of the status answer -/

/-- WAVE 9 (Model/C17W.lean): the status read on the SHAPE of the server's answer (which keys the JSON object
carries).  On answers that carry every key `RemoteJob.status` looks up for the status they announce, the machine
with shaped answers IS the full machine over every history — so every theorem above holds of it. -/
theorem shaped_machine_is_full_machine_on_complete_answers (fixed : Bool) (ts : List TWOp)
    (h : ∀ t ∈ ts, t.complete = true) (f : FJob) :
    run (wstep fixed) f ts = run (fstep fixed) f (ts.map TWOp.toF) :=
  wrun_complete fixed ts h f

example : ∀ t ∈ [(⟨5, .rawPoll .status (.status ⟨some "running", some 2, true, false, none, none, none⟩ 1)⟩ : TWOp),
    ⟨6, .rawPoll .isComplete (.status ⟨some "error", none, false, true, none, none, none⟩ 2)⟩,
    ⟨7, .rawPoll .status (.status ⟨some "waiting", none, false, false, none, none, none⟩ 2)⟩],
    t.complete = true := by decide +kernel

/-- An answer lacking a key the code looks up (`status`; `progress` / `progress_message` of a RUNNING or
CANCEL_REQUESTED answer; `status_message` of an ERROR / CANCELED one), read by ANY sent unfinished job at ANY
value of the streak counter, repaired or pinned code: KeyError leaves `status` at once (it is not absorbed, it is
not counted), exactly one status request was sent, the streak counter is 0, the status is the one announced when
the `status` key was there (already stored) and the old one otherwise; stop message, cached results, identifier,
time / progress fields and name are untouched. -/
theorem malformed_status_answer_outcome (fixed : Bool) (f : FJob) (now : Int) (rb : RawBody) (m : Nat) (k : Key)
    (hd : statusDue f.job = true) (hk : rb.missing = some k) :
    (readStatusW fixed f now (.status rb m)).2.1 = some .keyError ∧
    (readStatusW fixed f now (.status rb m)).2.2 = [.status f.job.id] ∧
    (readStatusW fixed f now (.status rb m)).1.job.id = f.job.id ∧
    (readStatusW fixed f now (.status rb m)).1.job.streak = 0 ∧
    (readStatusW fixed f now (.status rb m)).1.job.status =
      (match rb.status with | none => f.job.status | some s => fromServer s) ∧
    (readStatusW fixed f now (.status rb m)).1.job.msg = f.job.msg ∧
    (readStatusW fixed f now (.status rb m)).1.job.cache = f.job.cache ∧
    (readStatusW fixed f now (.status rb m)).1.job.sentCount = f.job.sentCount ∧
    (readStatusW fixed f now (.status rb m)).1.ts = f.ts ∧
    (readStatusW fixed f now (.status rb m)).1.hasBody = f.hasBody ∧
    (readStatusW fixed f now (.status rb m)).1.name = f.name := by
  rw [readStatusW_malformed fixed f now rb m k hd hk]
  exact ⟨rfl, rfl, rfl, rfl, rfl, rfl, rfl, rfl, rfl, rfl, rfl⟩

example : statusDue (⟨born 1, TS.fresh 0, true, "verif"⟩ : FJob).job = true ∧
    (⟨some "running", none, true, true, none, none, none⟩ : RawBody).missing = some .progress := by decide +kernel

/-- KeyError comes out of a status read exactly when the read reached the server and the answer lacks a key. -/
theorem key_error_iff_malformed (fixed : Bool) (f : FJob) (now : Int) (r : RespW) :
    (readStatusW fixed f now r).2.1 = some .keyError ↔ (statusDue f.job = true ∧ r.complete = false) := by
  cases hd : statusDue f.job with
  | false => simp [readStatusW_not_due _ _ _ _ hd]
  | true =>
    cases hc : r.complete with
    | true =>
      rw [readStatusW_complete _ _ _ _ hc]
      simp [readStatusF_not_keyError]
    | false =>
      cases r with
      | status rb m =>
        simp only [RespW.complete] at hc
        cases hk : rb.missing with
        | none => simp [hk] at hc
        | some k => rw [readStatusW_malformed fixed f now rb m k hd hk]; simp
      | http c => simp [RespW.complete] at hc
      | conn => simp [RespW.complete] at hc

/-- An ERROR / CANCELED answer without `status_message`: the read raises KeyError, but the job IS final from
then on (status stored, message not), and every later status read at any time on any answer is silent — the
final-status theorems apply to the job it leaves. -/
theorem malformed_final_answer_makes_job_final (fixed : Bool) (f : FJob) (now : Int) (rb : RawBody) (m : Nat)
    (s : String) (hd : statusDue f.job = true) (hs : rb.status = some s)
    (hf : (fromServer s).failed = true) (hm : rb.message = false) :
    (readStatusW fixed f now (.status rb m)).2.1 = some .keyError ∧
    (readStatusW fixed f now (.status rb m)).1.job.status = fromServer s ∧
    (readStatusW fixed f now (.status rb m)).1.job.msg = f.job.msg ∧
    ∀ now' r', readStatusW fixed (readStatusW fixed f now (.status rb m)).1 now' r' =
      ((readStatusW fixed f now (.status rb m)).1, none, []) := by
  have hr : (fromServer s).isRunning = false := by
    cases h : fromServer s <;> simp_all [St.failed, St.isRunning]
  have hk : rb.missing = some .message := by simp [RawBody.missing, hs, hr, hf, hm]
  rw [readStatusW_malformed fixed f now rb m .message hd hk]
  refine ⟨rfl, by simp [hs], rfl, ?_⟩
  intro now' r'
  apply readStatusW_not_due
  simp [statusDue, hs, St.failed_completed _ hf]

example : statusDue (⟨born 1, TS.fresh 0, true, "verif"⟩ : FJob).job = true ∧
    (fromServer "canceled").failed = true := by decide +kernel

/-- … and get_results of that job reports 'The job failed: None' (code as it is, not judged by the property) -/
theorem failed_without_message_witness :
    let f0 : FJob := ⟨born 1, TS.fresh 0, true, "verif"⟩
    let p := pollW true f0 5 .status (.status ⟨some "error", none, false, false, none, none, none⟩ 1)
    p.2 = ⟨.keyError, [.status (some 1)]⟩ ∧ p.1.job.status = .error ∧ p.1.job.msg = .none ∧
    (getResultsF true p.1 6 .conn .conn .missing).2 = ⟨.base (.raised (.jobFailed .none)), [.results (some 1)]⟩ := by
  decide +kernel

/-- a malformed 200 answer in the middle of a run of connection errors restarts the count (the counter is reset
before the body is looked at): four absorbed, KeyError, four absorbed again, the fifth raised -/
theorem malformed_answer_restarts_streak_witness :
    let bad : RespW := .status ⟨none, some 2, true, true, none, none, none⟩ 1
    (run (wstep true) ⟨born 1, TS.fresh 0, true, "verif"⟩
      ([RespW.conn, .conn, .conn, .conn, bad, .conn, .conn, .conn, .conn, .conn].map
        fun r => ⟨5, .rawPoll .status r⟩)).2.map (fun o => (o.res, o.calls.length)) =
      [(.base (.st .waiting), 1), (.base (.st .waiting), 1), (.base (.st .waiting), 1), (.base (.st .waiting), 1),
       (.keyError, 1),
       (.base (.st .waiting), 1), (.base (.st .waiting), 1), (.base (.st .waiting), 1), (.base (.st .waiting), 1),
       (.base (.raised .conn), 1)] := by
  decide +kernel

/-- a `running` answer without `progress`: RUNNING is stored by plain assignment, `update_progress` /
`update_times` never run (no start time, creation time of the answer ignored) -/
theorem running_stored_without_progress_witness :
    let p := pollW true ⟨born 1, TS.fresh 0, true, "verif"⟩ 5 .status
      (.status ⟨some "running", none, true, true, some 1, some 2, none⟩ 1)
    p.2.res = .keyError ∧ p.1.job.status = .running ∧ p.1.ts = TS.fresh 0 := by
  decide +kernel


/-
  Still NOT proved (validated by the correspondence and the direct oracles only):
  * `status_is_last_read` (ghost field `lastRead`) for the clocked machines at a positive delay — proved
    only through `negative_delay_machine_is_plain` and, for final jobs, `final_job_ignores_clock`;
  * the streak law under the throttle for runs of reads interleaved with cancel / rerun / get_results
    (`streak_law_under_throttle` is about runs of `status()` reads);
  * "sent at most once" through `_from_dict(_to_dict())` is FALSE for the code as it is
    (`sent_at_most_once_needs_no_reopen_witness`); true from a state with an identifier
    (`sent_object_never_creates_under_throttle`);
  * `execute_sync` on the combined machine; model = code (differential testing);
  * wave 9: shaped answers are fed to `status()` / `is_…` reads of the full machine with the transparent throttle;
    the same answers inside the status reads of cancel / rerun / get_results / from_id / execute_sync and under the
    real throttle are the same function `status` but are not separately modelled; answers that are not JSON objects
    or carry values of the wrong type are outside the model.
-/

end PM.C17
