/-
  C07 — property theorems (model: `Model/C07.lean`).

  Statement (properties.jsonl): a processor containing loss channels produces the output
  distribution of the enlarged lossless circuit in which every loss channel is replaced by a beam
  splitter of transmission `1 - loss` coupling its mode to a fresh vacuum mode that is never
  observed; equivalently each photon crossing the channel is removed independently with probability
  `loss`.  The density-matrix loss operation gives the same statistics, the result is a normalised
  distribution over the original modes, loss 0 is the identity, loss 1 removes every photon.

  All matrix theorems hold for every commutative ring `R` (in particular ℂ), every list of
  components of any length, every channel position and every count of channels already expanded.

  Extension (model: `Model/C07SV.lean`): the amplitude-level paths — `LossSimulator.evolve` /
  `_postprocess_sv_impl`, `LC.apply`, the whole matrix of `DensityMatrix.apply_loss` with its beam-splitter
  dilation, a noisy source in front of the loss channels.
  Extension 3 (model: `Model/C07Sel.lean`): (1) a channel block in the presence of photons in the other modes —
  the spectator factorisation of its Fock amplitudes and the binomial law for ANY Fock state of the enlarged
  circuit (`channel_block_with_spectators`, `lc_thinning_with_spectators`, `lc_thinning_row_sums_to_one`);
  (2) the selection glue of the loss layer (`ASimulatorDecorator._postprocess_bsd`: photon filter with the herald
  photons added, heralds, post-selection, `keep_heralds`, two successive normalisations; the filter forwarded to
  the inner simulator) against the specification `SimSpec.conditioned` on the ORIGINAL modes
  (`loss_selection_is_conditioning`, `selection_sees_only_original_modes`, `loss_selected_distribution_mass_one`,
  `forwarded_filter_is_redundant`).
  Still outside the theorems (exercised by the correspondence only): `evolve` on superposition inputs; the
  composition of the per-block Fock operators into the whole enlarged circuit's distribution (each block's operator
  is now proved with spectators; their composition is C02's `pamp_mul_GQ`, not instantiated here); annotated
  photons.
  Extension 5 (model: `Model/C07Det.lean`): detectors below a loss layer — `LossSimulator._prepare_detectors_impl`
  (the caller's list padded with `None` for the virtual modes), `get_detection_type` of the padded list,
  `simulate_detectors` (per-mode detection kernels, tensor product, inner photon filter on the enlarged detected
  state) followed by the marginalisation: `detectors_see_only_original_modes`, `loss_detectors_act_on_marginal`,
  `loss_detected_distribution_mass_one`, `padded_detection_type`, `inner_detector_filter_is_redundant`,
  `loss_detector_selection_is_conditioning` (the whole pipeline = detectors on the marginal, one conditioning),
  `pnr_detectors_are_no_detectors`.  Model `Model/C07Mix.lean`: the noisy source TOGETHER with heralds /
  post-selection / filter on the loss layer (`loss_noisy_selection_is_conditioning`).
  Wave 7 (proofs only): `loss_selection_nothing_passes` / `loss_selection_perf_product_total` (the filter case
  `loss_selection_is_conditioning` excludes: code `logical_perf = 1`, specification 0, products equal — so
  `physical_perf` and `physical_perf · logical_perf` are the specification's with no hypothesis on the filter);
  `loss_detector_selection_end_to_end`, `loss_noisy_selection_end_to_end` (normalisation and filter-mass hypotheses
  discharged for every accepted list with unitary components); `evolve_superposition_linear` (`evolve` on a
  superposition is the coefficient-weighted list of the Fock runs' contributions); `loss_channel_amplitude_composes`,
  `unitary_component_amplitude_composes` (C02's composition law instantiated on the rewritten list: one recursion
  step per list element).  Still not proved: the closed form of the whole circuit's DISTRIBUTION as a composition
  of the per-channel thinning laws (amplitudes compose, probabilities do not); annotated photons.
  Wave 10 (proofs only): `loss_detector_selection_nothing_passes` / `loss_detector_selection_perf_product_total`
  (the filter case excluded by `loss_detector_selection_is_conditioning`: `physical_perf = 0`, product = retained
  probability, no hypothesis on the filter); the same for the noisy-source pipeline, including the case where the
  inner simulator drops every input: `loss_noisy_selection_nothing_passes` /
  `loss_noisy_selection_perf_product_total`.  Still not proved: the code's own `logical_perf` value in the
  nothing-passes case of these two pipelines (it is multiplied by `physical_perf = 0`).
-/
import PercevalModel.Lemmas.C07
import PercevalModel.Lemmas.C07Mass
import PercevalModel.Lemmas.C07SV
import PercevalModel.Lemmas.C07Spect
import PercevalModel.Lemmas.C07Sel
import PercevalModel.Lemmas.C07Det
import PercevalModel.Lemmas.C07Mix
import PercevalModel.Lemmas.C07More
import PercevalModel.Lemmas.C07W10
import PercevalModel.Props.C02

open Matrix

namespace PM.C07
variable {R : Type}

/-! ### the index arithmetic of the rewrite -/

/-- The inverse `PERM` of the model (the transpose) is the inverse matrix of `PERM(in_perm)`, for
every channel position and every count of channels already expanded. -/
theorem inPerm_transpose_is_inverse [CommRing R] {N nfm r0 : ℕ} (h : r0 + 1 < nfm) (hN : nfm < N) :
    embed N (r0 + 1) (permMatL (R := R) (nfm - r0) (inPerm nfm r0))ᵀ *
      embed N (r0 + 1) (permMatL (R := R) (nfm - r0) (inPerm nfm r0)) = 1 ∧
    embed N (r0 + 1) (permMatL (R := R) (nfm - r0) (inPerm nfm r0)) *
      embed N (r0 + 1) (permMatL (R := R) (nfm - r0) (inPerm nfm r0))ᵀ = 1 := by
  rw [embed_inPerm_transpose h hN, embed_inPerm h hN, permMatF_mul]
  have : swapFin (N := N) (r0 + 1) nfm (by omega) hN ∘ swapFin (r0 + 1) nfm (by omega) hN = id :=
    funext (swapFin_invol _ _ _ _)
  rw [this]
  exact ⟨permMatF_id, permMatF_id⟩

/-- `lc_sandwich`: whatever the channel position `r0` and whatever the number of channels
already expanded (`nfm = M + that number`), the blocks the code emits for one loss channel —
`PERM(in_perm)` on `r0+1 … nfm`, the `2 × 2` block on `(r0, r0+1)`, the inverse `PERM` — multiply to
the same `2 × 2` block acting on `(r0, nfm)`, i.e. on the channel's mode and the *fresh* mode, and
the identity on every other mode.  (Covers both branches of `if r[0] != next_free_mode - 1`.) -/
theorem lc_sandwich [CommRing R] {N nfm r0 : ℕ} (h0 : r0 < nfm) (hN : nfm < N)
    (B : Matrix (Fin 2) (Fin 2) R) :
    prod N (lcBlocks nfm r0 B) = twoMode N r0 nfm B := by
  unfold lcBlocks
  by_cases h : r0 + 1 = nfm
  · subst h
    simp only [ne_eq, not_true_eq_false, ↓reduceIte, List.nil_append, List.append_nil, prod_cons,
      prod_nil, Matrix.one_mul, Blk.mat]
    simp only [embed, twoMode, unshift_two_eq]
  · have h1 : r0 + 1 < nfm := by omega
    simp only [ne_eq, h, not_false_eq_true, ↓reduceIte, List.cons_append, List.nil_append,
      prod_cons, prod_nil, Matrix.one_mul, Blk.mat]
    rw [embed_inPerm_transpose h1 hN, embed_inPerm h1 hN,
      permMatF_conj _ (swapFin_invol _ _ _ _)]
    simp only [embed, twoMode]
    rw [place_submatrix _ _ _ (swapFin_injective _ _ _ _), unshift_comp_swap h1 hN]

/-- `expanded_unitary`: for every interleaving of unitary components and loss channels the code
would accept, the matrix of the rewritten component list is the matrix of the specification:
the ordered product of the original unitary components embedded where they were placed in the
enlarged space and, per channel, the two-mode block on (channel mode, its own fresh mode). -/
theorem expanded_unitary [CommRing R] (N : ℕ) : ∀ (items : Items R) (nfm : ℕ), WF N nfm items →
    prod N (rewrite nfm items) = prod N (spec nfm items)
  | [], _, _ => rfl
  | (r0, .uni k U) :: rest, nfm, h => by
    simp only [rewrite, spec, prod_cons]
    rw [expanded_unitary N rest nfm h.2]
  | (r0, .lc c s) :: rest, nfm, h => by
    simp only [rewrite, spec, prod_cons, prod_append]
    rw [expanded_unitary N rest (nfm + 1) h.2.2, lc_sandwich h.1 h.2.1]
    rfl

/-- every fresh mode is distinct: channel number `j` (0-based) uses mode `nfm + j`, and the
enlarged circuit has exactly `nfm + (number of channels)` modes -/
theorem fits_imp_WF (M N : ℕ) : ∀ (items : Items R) (nfm : ℕ), Fits M items → M ≤ nfm →
    nfm + countLC items ≤ N → WF N nfm items
  | [], _, _, _, _ => trivial
  | (r0, .uni k U) :: rest, nfm, hf, hM, hN => by
    have h1 := hf (r0, .uni k U) (by simp)
    simp only [Comp.width] at h1
    simp only [countLC] at hN
    exact ⟨by omega, fits_imp_WF M N rest nfm (fun p hp => hf p (by simp [hp])) hM hN⟩
  | (r0, .lc c s) :: rest, nfm, hf, hM, hN => by
    have h1 := hf (r0, .lc c s) (by simp)
    simp only [Comp.width] at h1
    simp only [countLC] at hN
    exact ⟨by omega, by omega,
      fits_imp_WF M N rest (nfm + 1) (fun p hp => hf p (by simp [hp])) (by omega) (by omega)⟩

/-- the two-mode block of a unitary `2 × 2` matrix on two distinct modes is unitary -/
theorem twoMode_isUnitary [CommRing R] [StarRing R] {N a b : ℕ} (ha : a < N) (hb : b < N)
    (hab : a ≠ b) {B : Matrix (Fin 2) (Fin 2) R} (hB : IsUnitary B) :
    IsUnitary (twoMode N a b B) := by
  have hp := twoG_partialInv ha hb hab
  unfold twoMode
  constructor
  · rw [place_conjTranspose (star_zero R) (star_one R), place_mul hp, hB.1, place_one hp]
  · rw [place_conjTranspose (star_zero R) (star_one R), place_mul hp, hB.2, place_one hp]

/-- `BS.H` with real amplitudes `c² + s² = 1` (`c = √(1 - loss)`, `s = √loss`) is unitary -/
theorem bsH_isUnitary [CommRing R] [StarRing R] (c s : R) (hc : star c = c) (hs : star s = s)
    (h : c * c + s * s = 1) : IsUnitary (bsH c s) := by
  constructor <;>
  · ext i j
    fin_cases i <;> fin_cases j <;>
      simp [bsH, Matrix.mul_apply, Fin.sum_univ_two, conjTranspose_apply, hc, hs] <;>
      first | exact h | linear_combination h | ring

/-- `expanded_isUnitary`: the enlarged circuit is unitary whenever the components are (each
channel's `BS.H` block included), for every interleaving. -/
theorem expanded_isUnitary [CommRing R] [StarRing R] (N : ℕ) : ∀ (items : Items R) (nfm : ℕ),
    WF N nfm items → AllUnitary items → IsUnitary (prod N (rewrite nfm items))
  | [], _, _, _ => by simpa [rewrite] using isUnitary_one
  | (r0, .uni k U) :: rest, nfm, h, hu => by
    simp only [rewrite, prod_cons, Blk.mat]
    exact (expanded_isUnitary N rest nfm h.2 hu.2).mul (IsUnitary.embed h.1 hu.1)
  | (r0, .lc c s) :: rest, nfm, h, hu => by
    simp only [rewrite, prod_append]
    rw [lc_sandwich h.1 h.2.1]
    have h1 : r0 < nfm := h.1
    have h2 : nfm < N := h.2.1
    exact (expanded_isUnitary N rest (nfm + 1) h.2.2 hu.2).mul
      (twoMode_isUnitary (by omega) h2 (by omega) hu.1)

/-! ### independent photon loss (binomial thinning) -/

/-- *Independent photons.*  In any `N`-mode interferometer `U`, `n` photons entering the same
mode `a` (all other inputs vacuum) reach the output pattern `t` with un-normalised amplitude
`n! · ∏_j U[j,a]^{t_j}`: the permanent of a matrix with identical columns.  (Multinomial law.) -/
theorem pamp_single_mode_input [CommRing R] {N : ℕ} (U : Matrix (Fin N) (Fin N) R) (a r n : ℕ)
    (t : List ℕ) (ht : t.sum = n) :
    Fock.pamp U (single a r n) t =
      (n.factorial : R) *
        ((List.range t.length).map fun j => Fock.entry U j a ^ t.getD j 0).prod := by
  have hs := sum_single a r n
  unfold Fock.pamp
  rw [if_pos (by rw [hs, ht])]
  have hcol : Fock.subMat U (single a r n) t =
      (fun i _ => Fock.entry U ((Fock.expand t).getD i.val 0) a) := by
    funext i j
    unfold Fock.subMat
    rw [expand_single]
    have hj : j.val < n := by have := j.isLt; omega
    have : (List.replicate n a).getD j.val 0 = a := by
      rw [List.getD_eq_getElem?_getD, List.getElem?_replicate]; simp [hj]
    rw [this]
  rw [hcol, permanent_const_cols]
  have hlen : (single a r n).sum = (Fock.expand t).length := by
    rw [hs, Fock.expand_length, ht]
  have hprod : ∀ (m : ℕ) (hm : m = (Fock.expand t).length),
      ∏ i : Fin m, Fock.entry U ((Fock.expand t).getD i.val 0) a =
        ((Fock.expand t).map fun x => Fock.entry U x a).prod := by
    intro m hm; subst hm; exact prod_fin_getD (Fock.expand t) (fun x => Fock.entry U x a)
  rw [hprod _ hlen, hs]
  unfold Fock.expand
  rw [prod_map_expandFrom]
  simp

/-- amplitude of "keep `k`, lose `n-k`" for a two-mode block on (mode, vacuum) -/
theorem thinning_amplitude [CommRing R] (U : Matrix (Fin 2) (Fin 2) R) (n k : ℕ) (hk : k ≤ n) :
    Fock.pamp U [n, 0] [k, n - k] = (n.factorial : R) * U 0 0 ^ k * U 1 0 ^ (n - k) := by
  have h := pamp_single_mode_input U 0 1 n [k, n - k] (by simp; omega)
  simp only [single, List.replicate_zero, List.nil_append, List.replicate_one] at h
  rw [h]
  simp [List.range_succ, Fock.entry, mul_assoc]

/-- `binomial_thinning`: a two-mode block whose "stay" entry has squared modulus `τ` and whose
"leave" entry has squared modulus `ρ` sends `n` photons facing vacuum to `(k, n-k)` with
probability `C(n,k) τᵏ ρⁿ⁻ᵏ` — each photon is kept independently with probability `τ`.
(Exact arithmetic in `ℚ[i]`; for `BS.H(r_to_theta(1 - loss))`, `τ = 1 - loss`, `ρ = loss`.) -/
theorem binomial_thinning (U : Matrix (Fin 2) (Fin 2) GQ) (n k : ℕ) (hk : k ≤ n) :
    Fock.prob U [n, 0] [k, n - k] =
      (n.choose k : ℚ) * GQ.normSq (U 0 0) ^ k * GQ.normSq (U 1 0) ^ (n - k) := by
  unfold Fock.prob
  rw [thinning_amplitude U n k hk]
  simp only [normSq_mul, normSq_pow, normSq_natCast, Fock.prodFact, List.map_cons, List.map_nil,
    List.prod_cons, List.prod_nil, Nat.factorial_zero, mul_one, Nat.cast_mul]
  have hf : (n.factorial : ℚ) = n.choose k * k.factorial * (n - k).factorial := by
    exact_mod_cast (Nat.choose_mul_factorial_mul_factorial hk).symm
  have h1 : (k.factorial : ℚ) ≠ 0 := by exact_mod_cast Nat.factorial_ne_zero k
  have h2 : ((n - k).factorial : ℚ) ≠ 0 := by exact_mod_cast Nat.factorial_ne_zero (n - k)
  have h3 : (n.factorial : ℚ) ≠ 0 := by exact_mod_cast Nat.factorial_ne_zero n
  rw [div_eq_iff (by positivity)]
  rw [hf]
  ring

/-- the loss-channel block itself: `BS.H` with `c² = τ`, `s² = 1 - τ` over ℚ -/
theorem lc_binomial_thinning (c s : ℚ) (n k : ℕ) (hk : k ≤ n) :
    Fock.prob (bsH (⟨c, 0⟩ : GQ) ⟨s, 0⟩) [n, 0] [k, n - k] =
      (n.choose k : ℚ) * (c * c) ^ k * (s * s) ^ (n - k) := by
  rw [binomial_thinning _ n k hk]
  simp [bsH, GQ.normSq]

/-- the thinning law is normalised: `∑ₖ C(n,k) τᵏ (1-τ)ⁿ⁻ᵏ = 1` -/
theorem thinning_sum_one (τ : ℚ) (n : ℕ) :
    ∑ k ∈ Finset.range (n + 1), (n.choose k : ℚ) * τ ^ k * (1 - τ) ^ (n - k) = 1 := by
  have := add_pow τ (1 - τ) n
  rw [add_sub_cancel, one_pow] at this
  refine Eq.trans ?_ this.symm
  apply Finset.sum_congr rfl
  intro k _; ring

/-- `loss_zero_id` (statistics): with loss 0 (`c = 1, s = 0`) every photon stays -/
theorem loss_zero_id (n k : ℕ) (hk : k ≤ n) :
    Fock.prob (bsH (1 : GQ) 0) [n, 0] [k, n - k] = if k = n then 1 else 0 := by
  have := lc_binomial_thinning 1 0 n k hk
  have e1 : (⟨1, 0⟩ : GQ) = 1 := rfl
  have e0 : (⟨0, 0⟩ : GQ) = 0 := rfl
  rw [e1, e0] at this
  rw [this]
  by_cases h : k = n
  · subst h; simp
  · have : n - k ≠ 0 := by omega
    simp [h, this]

/-- `loss_zero_id` (matrix): the block of a loss-0 channel is the identity on every original mode
(it only flips the sign of the never-populated, never-observed fresh mode) -/
theorem loss_zero_block [CommRing R] {N a b : ℕ} (hab : a ≠ b) (i j : Fin N)
    (hi : i.val ≠ b) (hj : j.val ≠ b) :
    twoMode N a b (bsH (1 : R) 0) i j = (1 : Matrix (Fin N) (Fin N) R) i j := by
  simp only [twoMode, place, twoG, Matrix.one_apply]
  by_cases h1 : i.val = a <;> by_cases h2 : j.val = a
  · have : i = j := Fin.ext (by omega)
    simp [h1, h2, bsH, this]
  · have : i ≠ j := fun e => h2 (by rw [← e]; exact h1)
    simp [h1, h2, hj, this]
  · have : i ≠ j := fun e => h1 (by rw [e]; exact h2)
    simp [h1, h2, hi, this]
  · simp [h1, h2, hi, hj]

/-- `loss_one_removes_all` (statistics): with loss 1 (`c = 0, s = 1`) no photon stays -/
theorem loss_one_removes_all (n k : ℕ) (hk : k ≤ n) :
    Fock.prob (bsH (0 : GQ) 1) [n, 0] [k, n - k] = if k = 0 then 1 else 0 := by
  have := lc_binomial_thinning 0 1 n k hk
  have e1 : (⟨1, 0⟩ : GQ) = 1 := rfl
  have e0 : (⟨0, 0⟩ : GQ) = 0 := rfl
  rw [e1, e0] at this
  rw [this]
  by_cases h : k = 0
  · subst h; simp
  · simp [h]

/-- `loss_one_removes_all` (matrix): the block of a loss-1 channel exchanges the channel's mode
with its fresh mode — all light entering the channel leaves on the never-observed mode -/
theorem loss_one_block [CommRing R] {N a b : ℕ} (ha : a < N) (hb : b < N) (hab : a ≠ b) :
    twoMode N a b (bsH (0 : R) 1) = permMatF (swapFin a b ha hb) ∧
    (twoMode N a b (bsH (0 : R) 1)).mulVec (Pi.single ⟨a, ha⟩ 1) = Pi.single ⟨b, hb⟩ 1 := by
  have h1 : twoMode N a b (bsH (0 : R) 1) = permMatF (swapFin a b ha hb) := by
    ext i j
    have key : (swapFin a b ha hb j = i) ↔ swapN a b j.val = i.val := by
      rw [Fin.ext_iff]; rfl
    have hij : i = j ↔ i.val = j.val := Fin.ext_iff
    simp only [twoMode, place, twoG, permMatF, key, swapN, hij]
    by_cases i1 : i.val = a <;> by_cases i2 : i.val = b <;> by_cases j1 : j.val = a <;>
      by_cases j2 : j.val = b <;>
      simp [i1, i2, j1, j2, bsH, hab, Ne.symm hab, swapN] <;> first | omega | (simp only [eq_comm])
  refine ⟨h1, ?_⟩
  rw [h1, permMatF_mulVec_single]
  congr 1
  apply Fin.ext
  simp [swapFin, swapN]

/-! ### input padding and marginalisation -/

/-- `_prepare_input`: the user's state on the original modes, vacuum on every virtual mode, same
photon number, length of the enlarged circuit -/
theorem prepareInput_spec (M N : ℕ) (s : List ℕ) (hs : s.length = M) (hMN : M ≤ N) :
    (prepareInput M N s).length = N ∧ (prepareInput M N s).sum = s.sum ∧
    (prepareInput M N s).take M = s ∧ ∀ i, M ≤ i → (prepareInput M N s).getD i 0 = 0 := by
  unfold prepareInput
  refine ⟨by simp [hs]; omega, by simp, by simp [← hs], ?_⟩
  intro i hi
  rw [List.getD_append_right _ _ _ _ (by omega)]
  rw [List.getD_eq_getElem?_getD, List.getElem?_replicate]
  split <;> rfl

/-- `_postprocess_bsd_impl` computes the marginal on the original modes: the probability of a
reduced state is the total probability of the enlarged states that truncate to it -/
theorem postprocess_is_marginal (M : ℕ) (d : Dist.D) (r : List ℕ) :
    Dist.get (postprocess M d) r = Dist.mass (Dist.restrict (fun t => t.take M == r) d) := by
  induction d with
  | nil => simp [postprocess, Dist.mapKeys, Dist.get, Dist.restrict]
  | cons p rest ih =>
    simp only [postprocess, Dist.mapKeys, Dist.get, Dist.restrict, List.map_cons,
      List.filter_cons] at *
    by_cases h : (List.take M p.1 == r) = true
    · simp only [h, ↓reduceIte, List.map_cons, List.sum_cons, Dist.mass_cons]
      rw [ih]
    · simp only [h, Bool.false_eq_true, ↓reduceIte]
      rw [ih]

/-- `marginal_mass_one`: marginalising out the virtual modes keeps the total probability, so the
result is normalised exactly when the distribution of the enlarged lossless circuit is. -/
theorem marginal_mass_one (M : ℕ) (d : Dist.D) :
    Dist.mass (postprocess M d) = Dist.mass d ∧
    (Dist.mass d = 1 → Dist.mass (postprocess M d) = 1) := by
  have : Dist.mass (postprocess M d) = Dist.mass d := Dist.mass_mapKeys _ d
  exact ⟨this, fun h => by rw [this, h]⟩

/- `IsUnitary U → Dist.mass (fullDist U s) = 1` (Parseval for permanents, C02's `dist_sums_to_one_GQ`) is used
below in `fullDist_mass_one` / `loss_distribution_mass_one`: the result of a lossy processor is normalised
outright, not only relative to the enlarged distribution. -/

/-- `LossSimulator.probs` has the mass of the enlarged distribution -/
theorem lossProbs_mass {N : ℕ} (U : Matrix (Fin N) (Fin N) GQ) (M : ℕ) (s : List ℕ) :
    Dist.mass (lossProbs U M s) = Dist.mass (fullDist U (prepareInput M N s)) :=
  (marginal_mass_one M _).1

/-! ### the result is a normalised distribution (from unitarity, C02's `dist_sums_to_one_GQ`) -/

/-- the Fock-space distribution of a unitary matrix is normalised (Parseval for permanents) -/
theorem fullDist_mass_one {N : ℕ} (U : Matrix (Fin N) (Fin N) GQ) (hU : IsUnitary U) (s : List ℕ)
    (hs : s.length = N) : Dist.mass (fullDist U s) = 1 := by
  rw [mass_fullDist]
  exact PM.C02.dist_sums_to_one_GQ U hU s hs

/-- `LossSimulator.probs` on any unitary enlarged matrix: total probability one -/
theorem lossProbs_mass_one {N : ℕ} (U : Matrix (Fin N) (Fin N) GQ) (hU : IsUnitary U) (M : ℕ)
    (s : List ℕ) (hs : s.length = M) (hMN : M ≤ N) : Dist.mass (lossProbs U M s) = 1 := by
  rw [lossProbs_mass]
  exact fullDist_mass_one U hU _ (prepareInput_spec M N s hs hMN).1

/-- **loss_distribution_mass_one**: for every component list the code accepts (`WF`: every interleaving of
unitary components and loss channels, any channel positions, any number of channels) whose unitary components are
unitary and whose channel blocks `BS.H(c, s)` are unitary, the distribution `LossSimulator.probs` returns on the
original modes — the enlarged lossless circuit's distribution with the virtual modes marginalised out — has total
probability exactly one, for every input state. -/
theorem loss_distribution_mass_one (M N : ℕ) (items : Items GQ) (hwf : WF N M items)
    (hu : AllUnitary items) (s : List ℕ) (hs : s.length = M) (hMN : M ≤ N) :
    Dist.mass (lossProbs (prod N (rewrite M items)) M s) = 1 :=
  lossProbs_mass_one _ (expanded_isUnitary N items M hwf hu) M s hs hMN

/-- real channel amplitudes with `c² + s² = 1` (transmission `τ = c²`, `0 ≤ τ ≤ 1`) give unitary blocks -/
theorem realLoss_allUnitary : ∀ items : Items GQ, RealLoss items → AllUnitary items
  | [], _ => trivial
  | (_, .uni _ _) :: rest, h => ⟨h.1, realLoss_allUnitary rest h.2⟩
  | (_, .lc c s) :: rest, h => by
    refine ⟨bsH_isUnitary c s ?_ ?_ ?_, realLoss_allUnitary rest h.2⟩
    · ext <;> simp [h.1.1]
    · ext <;> simp [h.1.2.1]
    · ext
      · simp [h.1.1, h.1.2.1]; exact h.1.2.2
      · simp [h.1.1, h.1.2.1]

/-- the caller's view: a list that fits in the `M` original modes, expanded to `M + (number of channels)` modes,
unitary components, every loss channel with a real transmission `0 ≤ τ = c² ≤ 1`, `s² = 1 - τ` — the output
distribution over the original modes sums to one -/
theorem loss_distribution_mass_one_fits (M : ℕ) (items : Items GQ) (hf : Fits M items)
    (hr : RealLoss items) (s : List ℕ) (hs : s.length = M) :
    Dist.mass (lossProbs (prod (expandedM M items) (rewrite M items)) M s) = 1 :=
  loss_distribution_mass_one M (expandedM M items) items
    (fits_imp_WF M _ items M hf le_rfl le_rfl) (realLoss_allUnitary items hr) s hs (Nat.le_add_right _ _)

/-! ### `DensityMatrix.apply_loss` -/

/-- `kraus_weights_sum_one`: the squared Kraus entries of one column sum to one -/
theorem kraus_weights_sum_one (p : ℚ) (n : ℕ) :
    ((List.range (n + 1)).map (krausW2 p n)).sum = 1 := by
  rw [list_range_sum_rat]
  have := add_pow p (1 - p) n
  rw [add_sub_cancel, one_pow] at this
  refine Eq.trans ?_ this.symm
  apply Finset.sum_congr rfl
  intro k _
  unfold krausW2; ring

/-- the density-matrix loss keeps the trace (total probability of the diagonal) -/
theorem dmLoss_mass (mode : ℕ) (p : ℚ) (d : Dist.D) :
    Dist.mass (dmLossDiag mode p d) = Dist.mass d := by
  induction d with
  | nil => simp [dmLossDiag]
  | cons q rest ih =>
    have hq : Dist.mass ((List.range (q.1.getD mode 0 + 1)).map fun l =>
        (annihilate q.1 mode l, q.2 * krausW2 p (q.1.getD mode 0) l)) = q.2 := by
      have := kraus_weights_sum_one p (q.1.getD mode 0)
      simp only [Dist.mass, List.map_map, Function.comp_def]
      rw [List.sum_map_mul_left, this, mul_one]
    simp only [dmLossDiag, List.flatMap_cons, Dist.mass_append, Dist.mass_cons] at *
    rw [hq, ih]

/-- `dm_loss_eq_bs_thinning`: the density-matrix operation and the beam-splitter model give the
same statistics — losing `n - k` of `n` photons with loss probability `p` has exactly the
probability the `BS.H` block with `c² = 1 - p`, `s² = p` gives to `(k, n-k)`. -/
theorem dm_loss_eq_bs_thinning (c s : ℚ) (n k : ℕ) (hk : k ≤ n) (hcs : c * c = 1 - s * s) :
    krausW2 (s * s) n (n - k) = Fock.prob (bsH (⟨c, 0⟩ : GQ) ⟨s, 0⟩) [n, 0] [k, n - k] := by
  rw [lc_binomial_thinning c s n k hk]
  unfold krausW2
  rw [Nat.choose_symm hk, ← hcs, Nat.sub_sub_self hk]

/-! ### a long-lived processor / simulator: the answers do not depend on the history -/

/-- `session_history_independent`: for every preparation function (in particular the loss expansion
`rewrite`, whose matrix is given by `expanded_unitary`), every starting state — with or without a
simulator already built, whatever it holds — and every history of parameter changes, in-place edits,
`Processor.add` and queries, a long-lived processor gives, query by query, exactly the answers of the
memoryless specification "prepare the components with their current values": a loss channel is
always simulated with its current loss, at the point where it currently is. -/
theorem session_history_independent {C P : Type} (prepare : C → P) (s : Sess C P)
    (ops : List (SOp C)) :
    (SM.run (sessStep prepare) s ops).2 = (SM.run (specStep prepare) s.comps ops).2 ∧
      (SM.run (sessStep prepare) s ops).1.comps = (SM.run (specStep prepare) s.comps ops).1 := by
  have h := SM.refine_run (sessStep prepare) (specStep prepare) (fun s a => s.comps = a)
    (by
      intro s a op h
      subst h
      cases op with
      | edit f => exact ⟨rfl, rfl⟩
      | add f => exact ⟨rfl, rfl⟩
      | query => cases hs : s.sim <;> simp [sessStep, specStep, hs])
    s s.comps rfl ops
  exact ⟨h.2, h.1⟩

/-- after a query the inner simulator holds the preparation of the current components (the invariant
behind the theorem above, for every history that ends with a query) -/
theorem session_sim_is_current {C P : Type} (prepare : C → P) (s : Sess C P) :
    ((sessStep prepare s .query).1.sim = some (prepare s.comps)) ∧
      (sessStep prepare s .query).2 = some (prepare s.comps) := by
  cases hs : s.sim <;> simp [sessStep, hs]

/-- Negative witness (regression): a decorator that skips the preparation "because it has already
seen this circuit" is *not* history independent — after a parameter change the second query still
answers with the old preparation.  (`prepare = id` on ℕ: the value itself.) -/
theorem cached_session_depends_on_history :
    ¬ ∀ (prepare : ℕ → ℕ) (s : Sess ℕ ℕ) (ops : List (SOp ℕ)),
      (SM.run (sessStepCached prepare) s ops).2 = (SM.run (specStep prepare) s.comps ops).2 := by
  intro h
  have := h id ⟨0, none⟩ [.query, .edit (fun _ => 1), .query]
  simp [SM.run, sessStepCached, specStep] at this

/-! ### the state-vector path: `LossSimulator.evolve` / `_postprocess_sv_impl`

The code truncates every state of the enlarged circuit's state vector to the original modes and ADDS the
amplitudes that meet on one truncated state.  Reading the same contributions *incoherently* (`|a|² q` each)
is exactly the distribution path; the coherent sum the code forms is the square root of that probability
only when a truncated state has a single loss pattern behind it. -/

/-- **evolve_incoherent_eq_probs**: for every enlarged matrix, every number of original modes and every Fock
input, the contributions `LossSimulator.evolve` accumulates are — state by state, in the same order — the
amplitudes whose squared moduli `LossSimulator.probs` accumulates: `|perm|²/(∏s!∏t!)` on `t[0:M]`. -/
theorem evolve_incoherent_eq_probs {N : ℕ} (U : Matrix (Fin N) (Fin N) GQ) (M : ℕ) (s : List ℕ) :
    sqDist (lossEvolve U M [(s, 1)]) = lossProbs U M s := by
  simp [lossEvolve, evolveSV, evolveFock, postprocessSV, sqDist, lossProbs, postprocess, fullDist,
    Dist.mapKeys, Fock.prob, div_eq_mul_inv, Function.comp_def]

/-- when a reduced state `r` receives a single contribution (one loss pattern), the squared modulus of the
amplitude `evolve` gives it is the probability `probs` gives it -/
theorem evolve_single_pattern_eq_prob {N : ℕ} (U : Matrix (Fin N) (Fin N) GQ) (M : ℕ) (s r : List ℕ)
    (e : List ℕ × GQ × ℚ) (h : (lossEvolve U M [(s, 1)]).filter (·.1 == r) = [e]) :
    GQ.normSq e.2.1 * e.2.2 = Dist.get (lossProbs U M s) r := by
  rw [← evolve_incoherent_eq_probs, get_sqDist, h]
  simp

/-- **evolve_one_channel_single_pattern**: with ONE loss channel (`M + 1` modes) and a Fock input, every reduced
state has at most one loss pattern behind it (the number of lost photons is fixed by photon-number
conservation) — so there `evolve` agrees with `probs` on every state (previous theorem). -/
theorem evolve_one_channel_single_pattern (M : ℕ) (U : Matrix (Fin (M + 1)) (Fin (M + 1)) GQ)
    (s r : List ℕ) : ((lossEvolve U M [(s, 1)]).filter (·.1 == r)).length ≤ 1 := by
  simp only [lossEvolve, evolveSV, evolveFock, postprocessSV, List.map_cons, List.map_nil,
    List.flatMap_cons, List.flatMap_nil, List.append_nil, List.map_map, List.filter_map,
    List.length_map]
  apply length_le_one_of_nodup_of_all_eq
  · exact (Fock.allStates_nodup _ _).filter _
  · intro t ht u hu
    rw [List.mem_filter] at ht hu
    have h1 := (Fock.mem_allStates_iff _ _ _).1 ht.1
    have h2 := (Fock.mem_allStates_iff _ _ _).1 hu.1
    have e1 : t.take M = r := by simpa [Function.comp_def] using ht.2
    have e2 : u.take M = r := by simpa [Function.comp_def] using hu.2
    exact eq_of_take_eq_of_sum_eq M t u h1.1 h2.1 (h1.2.trans h2.2.symm) (e1.trans e2.symm)

/-- Negative witness (the code as it is): with two loss patterns behind one reduced state the coherent sum is
NOT the probability.  One photon through two channels `(c, s) = (3/5, 4/5)` then `(4/5, 3/5)` on the same
mode: amplitudes `12/25` (kept), `4/5` (lost in the first), `9/25` (lost in the second); `evolve` gives the
vacuum the amplitude `4/5 + 9/25 = 29/25`, squared `841/625`, while its probability is `481/625`. -/
theorem evolve_adds_amplitudes_of_loss_patterns :
    ¬ ∀ (v : SVec) (M : ℕ) (r : List ℕ), (∀ e ∈ v, e.2.2 = 1) →
      GQ.normSq (coherent (postprocessSV M v) r) = Dist.get (sqDist (postprocessSV M v)) r := by
  intro h
  have := h [([1, 0, 0], ⟨12/25, 0⟩, 1), ([0, 1, 0], ⟨4/5, 0⟩, 1), ([0, 0, 1], ⟨9/25, 0⟩, 1)] 1 [0]
    (by simp)
  simp [coherent, postprocessSV, sqDist, Dist.get, GQ.normSq, List.filter_cons] at this
  norm_num at this

/-! ### `LC.apply` (the `Stepper`'s way through a loss channel) -/

/-- **lcApply_marginal_eq_dmLoss**: for every state vector on `M` modes, every mode and every loss, the squared
moduli of `LC.apply`'s output with the extra (lost-photon) mode dropped are, contribution by contribution, the
diagonal of `DensityMatrix.apply_loss` on the squared moduli of the input — the binomial thinning of
`dm_loss_eq_bs_thinning` / `lc_binomial_thinning`. -/
theorem lcApply_marginal_eq_dmLoss (r M : ℕ) (p : ℚ) (v : SVec) (hv : ∀ e ∈ v, e.1.length = M) :
    sqDist (postprocessSV M (lcApply r p v)) = dmLossDiag r p (sqDist v) := by
  induction v with
  | nil => rfl
  | cons e rest ih =>
    have ih' := ih (fun x hx => hv x (by simp [hx]))
    have he : e.1.length = M := hv e (by simp)
    simp only [lcApply, postprocessSV, sqDist, dmLossDiag, List.flatMap_cons, List.map_append,
      List.map_cons, List.map_map] at ih' ⊢
    rw [ih']
    congr 1
    apply List.map_congr_left
    intro l _
    simp only [Function.comp_def]
    rw [List.take_left' (by rw [annihilate_length, he])]
    congr 1
    ring

/-- `LC.apply` keeps the norm of the state vector -/
theorem lcApply_norm_preserved (r M : ℕ) (p : ℚ) (v : SVec) (hv : ∀ e ∈ v, e.1.length = M) :
    Dist.mass (sqDist (lcApply r p v)) = Dist.mass (sqDist v) := by
  rw [← mass_sqDist_postprocessSV M, lcApply_marginal_eq_dmLoss r M p v hv, dmLoss_mass]

/-! ### the whole matrix of `DensityMatrix.apply_loss` (off-diagonal entries included) -/

/-- radicands stay non-negative -/
theorem krausApply_nonnegRad (mode : ℕ) (p : ℚ) (h0 : 0 ≤ p) (h1 : p ≤ 1) (ρ : DMat)
    (h : NonnegRad ρ) : NonnegRad (krausApply mode p ρ) := by
  intro x hx
  simp only [krausApply, List.mem_flatMap, List.mem_map] at hx
  obtain ⟨e, he, l, _, rfl⟩ := hx
  exact mul_nonneg (h e he) (mul_nonneg (krausW2_nonneg p h0 h1 _ _) (krausW2_nonneg p h0 h1 _ _))

/-- **kraus_trace_preserved**: for every density matrix (any list of contributions, off-diagonal entries
included), every mode and every `0 ≤ p ≤ 1`, the map `ρ ↦ Σ_l K_l ρ K_lᵀ` of `_apply_loss` keeps the trace —
under every interpretation of the square roots (`RootEval`; e.g. ℂ with `Real.sqrt`).  Off-diagonal entries
never reach the diagonal (`annihilate_inj`), a diagonal entry is spread with the weights `w(n, l)`, `Σ_l = 1`. -/
theorem kraus_trace_preserved {K : Type} [CommRing K] (E : RootEval K) (mode : ℕ) (p : ℚ)
    (h0 : 0 ≤ p) (h1 : p ≤ 1) (ρ : DMat) (h : NonnegRad ρ) :
    dmTrace E (krausApply mode p ρ) = dmTrace E ρ := by
  induction ρ with
  | nil => rfl
  | cons e rest ih =>
    rw [krausApply_cons, dmTrace_append, dmTrace_cons, kraus_head_trace E mode p h0 h1 e (h e (by simp)),
      ih (fun x hx => h x (by simp [hx]))]

/-- closed form of the beam-splitter amplitude's permanent: `n! c^(n-l) s^l`, a non-negative real for `c, s ≥ 0` -/
theorem dilAmp_closed_form (c s : ℚ) (n l : ℕ) (hl : l ≤ n) :
    (dilAmp c s n l).1 = GQ.ofRat ((n.factorial : ℚ) * c ^ (n - l) * s ^ l) := by
  have h := thinning_amplitude (bsH (⟨c, 0⟩ : GQ) ⟨s, 0⟩) n (n - l) (Nat.sub_le n l)
  rw [Nat.sub_sub_self hl] at h
  unfold dilAmp
  simp only
  rw [h]
  simp only [bsH, mk_zero_eq_ofRat, natCast_eq_ofRat, ← ofRatHom_apply, ← map_pow, ← map_mul]
  simp

/-- **kraus_entry_eq_bs_amplitude**: the entry `√(C(n,l) (1-p)^(n-l) p^l)` the code writes into `K_l` IS the
amplitude `⟨n-l, l| BS.H |n, 0⟩ = perm / √(n! (n-l)! l!)` of the channel's beam splitter (`c = √(1-p) ≥ 0`,
`s = √p ≥ 0`) between the mode and a vacuum environment mode — value and sign, not only the modulus. -/
theorem kraus_entry_eq_bs_amplitude {K : Type} [CommRing K] (E : RootEval K) (c s p : ℚ)
    (hc : 0 ≤ c) (hs : 0 ≤ s) (hcc : c * c = 1 - p) (hss : s * s = p) (n l : ℕ) (hl : l ≤ n) :
    E.eval (dilAmp c s n l) = E.σ (krausW2 p n l) := by
  unfold RootEval.eval
  rw [dilAmp_closed_form c s n l hl]
  simp only [dilAmp]
  have hx0 : 0 ≤ (n.factorial : ℚ) * c ^ (n - l) * s ^ l := by positivity
  rw [← E.σ_sq _ hx0, ← E.σ_mul _ _ (mul_nonneg hx0 hx0) (by positivity)]
  congr 1
  unfold krausW2
  have hf : (n.factorial : ℚ) = n.choose l * l.factorial * (n - l).factorial := by
    exact_mod_cast (Nat.choose_mul_factorial_mul_factorial hl).symm
  have h1 : (l.factorial : ℚ) ≠ 0 := by exact_mod_cast Nat.factorial_ne_zero l
  have h2 : ((n - l).factorial : ℚ) ≠ 0 := by exact_mod_cast Nat.factorial_ne_zero (n - l)
  have h3 : (n.factorial : ℚ) ≠ 0 := by exact_mod_cast Nat.factorial_ne_zero n
  rw [← hcc, ← hss]
  field_simp
  rw [hf]
  ring

/-- **kraus_eq_bs_dilation**: `DensityMatrix.apply_loss` is the beam-splitter dilation with the environment traced
out.  For every density matrix (off-diagonal entries included), every mode and loss `p = s²`, `1 - p = c²`
(`c, s ≥ 0`): coupling the mode to a vacuum environment mode with the block `BS.H(c, s)` and summing over the
environment's photon number gives, contribution by contribution and under every interpretation of the square
roots, the matrix `Σ_l K_l ρ K_lᵀ` the code computes. -/
theorem kraus_eq_bs_dilation {K : Type} [CommRing K] (E : RootEval K) (mode : ℕ) (c s p : ℚ)
    (hc : 0 ≤ c) (hs : 0 ≤ s) (hcc : c * c = 1 - p) (hss : s * s = p) (ρ : DMat) (h : NonnegRad ρ) :
    (dilateTrace mode c s ρ).map (fun e => (e.1, E.eval e.2)) =
      (krausApply mode p ρ).map (fun e => (e.1, E.eval e.2)) := by
  have h0 : 0 ≤ p := by rw [← hss]; exact mul_self_nonneg s
  have h1 : p ≤ 1 := by nlinarith [mul_self_nonneg c]
  induction ρ with
  | nil => rfl
  | cons e rest ih =>
    have ih' := ih (fun x hx => h x (by simp [hx]))
    have hq : 0 ≤ e.2.2 := h e (by simp)
    simp only [dilateTrace, krausApply, List.flatMap_cons, List.map_append, List.map_map] at ih' ⊢
    rw [ih']
    congr 1
    apply List.map_congr_left
    intro l hl
    rw [List.mem_range] at hl
    simp only [Function.comp_def, Prod.mk.injEq, true_and]
    have ht : l ≤ e.1.1.getD mode 0 := by omega
    have hu : l ≤ e.1.2.getD mode 0 := by omega
    have kt := kraus_entry_eq_bs_amplitude E c s p hc hs hcc hss _ l ht
    have ku := kraus_entry_eq_bs_amplitude E c s p hc hs hcc hss _ l hu
    have hst : star (dilAmp c s (e.1.2.getD mode 0) l).1 = (dilAmp c s (e.1.2.getD mode 0) l).1 := by
      rw [dilAmp_closed_form c s _ l hu, star_ofRat]
    have hr1 : 0 ≤ (dilAmp c s (e.1.1.getD mode 0) l).2 := by unfold dilAmp; positivity
    have hr2 : 0 ≤ (dilAmp c s (e.1.2.getD mode 0) l).2 := by unfold dilAmp; positivity
    have hw1 := krausW2_nonneg p h0 h1 (e.1.1.getD mode 0) l
    have hw2 := krausW2_nonneg p h0 h1 (e.1.2.getD mode 0) l
    unfold RootEval.eval at kt ku ⊢
    simp only
    rw [hst, map_mul, map_mul, E.σ_mul _ _ hq (mul_nonneg hr1 hr2), E.σ_mul _ _ hr1 hr2,
      E.σ_mul _ _ hq (mul_nonneg hw1 hw2), E.σ_mul _ _ hw1 hw2, ← kt, ← ku]
    ring

/-! ### a noisy source in front of the lossy circuit -/

/-- the emission-only source model is a probability distribution over the Fock inputs -/
theorem sourceDist_mass_one (e : ℚ) (s : List ℕ) : ((sourceDist e s).map (·.1)).sum = 1 :=
  sourceDist_weights e s

/-- every Fock input the source model can deliver lives on the modes of the expected input -/
theorem sourceDist_length (e : ℚ) : ∀ (s : List ℕ), ∀ q ∈ sourceDist e s, q.2.length = s.length
  | [], q, hq => by
    simp only [sourceDist, List.mem_singleton] at hq
    rw [hq]
  | k :: rest, q, hq => by
    simp only [sourceDist, List.mem_flatMap, List.mem_map] at hq
    obtain ⟨q', hq', l, _, rfl⟩ := hq
    simp [sourceDist_length e rest q' hq']

/-- **loss_noisy_source_mass_one**: noisy source and loss channels together.  For every accepted component list
(`WF`, unitary components, unitary channel blocks) and every source distribution over Fock inputs on the `M`
original modes whose weights sum to one, the distribution `LossSimulator.probs_svd` returns on the original
modes — the mixture over the source's inputs of the marginalised enlarged distributions — has total probability
exactly one. -/
theorem loss_noisy_source_mass_one (M N : ℕ) (items : Items GQ) (hwf : WF N M items)
    (hu : AllUnitary items) (hMN : M ≤ N) (src : List (ℚ × List ℕ))
    (hlen : ∀ q ∈ src, q.2.length = M) (hw : (src.map (·.1)).sum = 1) :
    Dist.mass (lossProbsMix (prod N (rewrite M items)) M src) = 1 := by
  unfold lossProbsMix
  apply Dist.mass_mix_one
  · intro p hp
    rw [List.mem_map] at hp
    obtain ⟨q, hq, rfl⟩ := hp
    exact loss_distribution_mass_one M N items hwf hu q.2 (hlen q hq) hMN
  · rw [List.map_map]
    exact hw

/-- the caller's view with the emission-only source model: expected input `s` on `M` modes, emission probability
`e`, list inside the `M` original modes with real channel amplitudes — total probability one -/
theorem loss_source_model_mass_one (M : ℕ) (items : Items GQ) (hf : Fits M items)
    (hr : RealLoss items) (e : ℚ) (s : List ℕ) (hs : s.length = M) :
    Dist.mass (lossProbsMix (prod (expandedM M items) (rewrite M items)) M (sourceDist e s)) = 1 :=
  loss_noisy_source_mass_one M (expandedM M items) items (fits_imp_WF M _ items M hf le_rfl le_rfl)
    (realLoss_allUnitary items hr) (Nat.le_add_right _ _) (sourceDist e s)
    (fun q hq => (sourceDist_length e s q hq).trans hs) (sourceDist_mass_one e s)

/-! ### a loss channel in the presence of photons in the other modes

`binomial_thinning` speaks about `n` photons meeting the channel with every other mode empty.  The statement
"each photon crossing the channel is removed independently with probability `loss`" is about any state of the
enlarged circuit: photons waiting in other modes, photons already lost into earlier channels' fresh modes. -/

/-- **channel_block_with_spectators**: for every number of modes, every pair of distinct modes `(a, b)`, every
`2 × 2` block and all Fock states `s`, `t` of the enlarged circuit: the block placed on `(a, b)` changes no other
mode (probability zero otherwise) and moves the photons of `(a, b)` with exactly the probability the bare block
gives to `(s_a, s_b) → (t_a, t_b)` — the spectator photons' factorials cancel. -/
theorem channel_block_with_spectators {N a b : ℕ} (ha : a < N) (hb : b < N) (hab : a ≠ b)
    (B : Matrix (Fin 2) (Fin 2) GQ) (s t : List ℕ) (hs : s.length = N) (ht : t.length = N) :
    Fock.prob (twoMode N a b B) s t =
      if spectAgree a b s t then Fock.prob B [s.getD a 0, s.getD b 0] [t.getD a 0, t.getD b 0] else 0 :=
  prob_twoMode ha hb hab B s t hs ht

/-- **lc_thinning_with_spectators**: the block of a loss channel (mode `a`, fresh mode `b` still empty) inside an
`N`-mode circuit holding ANY Fock state: each of the `s_a` photons on the channel's mode is kept independently with
probability `τ = c²` — the transition probability to `t` is `C(s_a, t_a) τ^{t_a} (1-τ)^{t_b}` when every other mode
is unchanged and `t_a + t_b = s_a`, and zero otherwise.  (`thinSpect`.) -/
theorem lc_thinning_with_spectators {N a b : ℕ} (ha : a < N) (hb : b < N) (hab : a ≠ b) (c s : ℚ)
    (S T : List ℕ) (hS : S.length = N) (hT : T.length = N) (hvac : S.getD b 0 = 0) :
    Fock.prob (twoMode N a b (bsH (⟨c, 0⟩ : GQ) ⟨s, 0⟩)) S T = thinSpect (c * c) (s * s) a b S T := by
  rw [prob_twoMode ha hb hab _ S T hS hT]
  unfold thinSpect
  by_cases hag : spectAgree a b S T = true
  · rw [if_pos hag, hvac]
    by_cases hsum : T.getD a 0 + T.getD b 0 = S.getD a 0
    · have hk : T.getD a 0 ≤ S.getD a 0 := by omega
      have hb' : T.getD b 0 = S.getD a 0 - T.getD a 0 := by omega
      have hcond : (spectAgree a b S T && (T.getD a 0 + T.getD b 0 == S.getD a 0)) = true := by
        rw [hag, Bool.true_and]; exact beq_iff_eq.2 hsum
      rw [if_pos hcond, hb']
      exact lc_binomial_thinning c s _ _ hk
    · have hcond : ¬ (spectAgree a b S T && (T.getD a 0 + T.getD b 0 == S.getD a 0)) = true := by
        rw [hag, Bool.true_and, beq_iff_eq]; exact hsum
      rw [if_neg hcond]
      unfold Fock.prob Fock.pamp
      rw [if_neg (by simp only [List.sum_cons, List.sum_nil]; omega)]
      simp [GQ.normSq]
  · have hcond : ¬ (spectAgree a b S T && (T.getD a 0 + T.getD b 0 == S.getD a 0)) = true := by
      rw [Bool.and_eq_true]; exact fun h => hag h.1
    rw [if_neg hag, if_neg hcond]

/-- the thinning law with spectators is a probability law over the number of kept photons: for the state with the
spectators unchanged, `k` photons kept and `n - k` in the fresh mode, `k = 0 … n`, the probabilities sum to one
when `τ + ρ = 1` -/
theorem lc_thinning_row_sums_to_one (τ : ℚ) (n : ℕ) :
    ∑ k ∈ Finset.range (n + 1), thinSpect τ (1 - τ) 0 1 [n, 0] [k, n - k] = 1 := by
  refine Eq.trans ?_ (thinning_sum_one τ n)
  apply Finset.sum_congr rfl
  intro k hk
  have hk' : k ≤ n := Nat.lt_succ_iff.1 (Finset.mem_range.1 hk)
  have hsum : (k + (n - k) == n) = true := by simp; omega
  simp [thinSpect, spectAgree, List.range_succ, hsum]

/-! ### heralds, post-selection and photon filter on top of the loss layer

`SimulatorFactory.build` puts the `LossSimulator` outermost and hands it — and nobody else — the heralds and the
post-selection; `_postprocess_bsd` applies them to the marginalised distribution: first the photon filter (the
caller's value plus the herald photons) with a normalisation, then heralds and post-selection with a second
normalisation, the herald modes being dropped unless `keep_heralds`.  The specification is C03–C05's
`SimSpec.conditioned` of the marginal distribution: keep the outcomes that satisfy everything, normalise once. -/

/-- **loss_selection_is_conditioning**: for every selection (any heralds, any post-selection expression, any
filter, either `keep_heralds`), every number of original modes and every normalised enlarged distribution in which
something passes the photon filter: what `_postprocess_bsd` returns IS the specification — the reported
distribution is `conditioned` (when something is retained), `logical_perf` is `logicalPerf`, `physical_perf` is
`physPerf` of the marginal distribution. -/
theorem loss_selection_is_conditioning (σ : Sel) (M : ℕ) (d : Dist.D) (hd : Dist.mass d = 1)
    (hp : SimSpec.physPerf σ.cond (postprocess M d) ≠ 0) :
    ((Dist.mass (SimSpec.retained σ.cond (postprocess M d)) ≠ 0 →
        (lossPost σ M d).1 = SimSpec.conditioned σ.cond (postprocess M d)) ∧
      (lossPost σ M d).2.1 = SimSpec.logicalPerf σ.cond (postprocess M d)) ∧
      (lossPost σ M d).2.2 = SimSpec.physPerf σ.cond (postprocess M d) :=
  lossPost_spec σ M d hd hp

/-- **selection_sees_only_original_modes**: the probability of passing the whole selection is the probability, in
the enlarged lossless circuit, of the states whose ORIGINAL modes satisfy it — the heralds and the post-selection
look at original modes only and the photon filter counts the photons on the original modes only: a lost photon is
never detected, a virtual mode is never observed. -/
theorem selection_sees_only_original_modes (c : SimSpec.Cond) (M : ℕ) (d : Dist.D) :
    Dist.mass (SimSpec.retained c (postprocess M d)) =
      Dist.mass (Dist.restrict
        (fun t => SimSpec.physOk c (t.take M) && SimSpec.logicOk c (t.take M)) d) :=
  retained_postprocess c M d

/-- **loss_selected_distribution_mass_one**: for every accepted component list (any interleaving of unitary
components and loss channels) with unitary components and unitary channel blocks, every Fock input and every
selection that retains something: the distribution `LossSimulator.probs` reports is normalised, and
`physical_perf · logical_perf` of `probs_svd` is exactly the retained probability of the marginal distribution.
(No separate hypothesis on the photon filter: probabilities are non-negative.) -/
theorem loss_selected_distribution_mass_one (M N : ℕ) (items : Items GQ) (hwf : WF N M items)
    (hu : AllUnitary items) (s : List ℕ) (hs : s.length = M) (hMN : M ≤ N) (σ : Sel)
    (hr : Dist.mass (SimSpec.retained σ.cond (lossProbs (prod N (rewrite M items)) M s)) ≠ 0) :
    Dist.mass (lossProbsSel σ (prod N (rewrite M items)) M s) = 1 ∧
      (lossPost σ M (fullDist (prod N (rewrite M items)) (prepareInput M N s))).2.2 *
        (lossPost σ M (fullDist (prod N (rewrite M items)) (prepareInput M N s))).2.1 =
        Dist.mass (SimSpec.retained σ.cond (lossProbs (prod N (rewrite M items)) M s)) := by
  have hd : Dist.mass (fullDist (prod N (rewrite M items)) (prepareInput M N s)) = 1 :=
    fullDist_mass_one _ (expanded_isUnitary N items M hwf hu) _ (prepareInput_spec M N s hs hMN).1
  have hp : SimSpec.physPerf σ.cond (lossProbs (prod N (rewrite M items)) M s) ≠ 0 :=
    physPerf_ne_zero_of_retained _ _ (nonneg_postprocess M _ (nonneg_fullDist _ _)) hr
  obtain ⟨⟨h1, h2⟩, h3⟩ := lossPost_spec σ M _ hd hp
  refine ⟨?_, ?_⟩
  · unfold lossProbsSel
    rw [h1 hr]
    exact SimSpec.conditioned_mass_one _ _ hr
  · rw [h2, h3]
    exact SimSpec.perf_product _ _ hp

/-- **forwarded_filter_is_redundant**: `set_min_detected_photons_filter` also reaches the inner simulator, which
tests the photon number of the INPUT of the enlarged circuit — a number that includes the photons that will be
lost.  It drops an input only when the specification retains nothing of it either: with fewer input photons than
the caller's filter, no outcome on the original modes passes the outer filter (`physPerf = 0`, nothing retained),
for every enlarged matrix. -/
theorem forwarded_filter_is_redundant {N : ℕ} (σ : Sel) (U : Matrix (Fin N) (Fin N) GQ) (M : ℕ) (s : List ℕ)
    (h : s.sum < σ.minDet) :
    SimSpec.physPerf σ.cond (lossProbs U M s) = 0 ∧ SimSpec.retained σ.cond (lossProbs U M s) = [] ∧
      (lossSvdSel σ U M s).2.2 = 0 := by
  have h0 := restrict_physOk_nil σ U M s h
  refine ⟨by unfold SimSpec.physPerf; rw [h0]; rfl, ?_, ?_⟩
  · unfold SimSpec.retained
    rw [← Dist.restrict_restrict, h0]
    rfl
  · unfold lossSvdSel
    rw [if_pos h]
    simp

/-! ### layer choice of `SimulatorFactory.build` -/

/-- a list with a loss channel (and no feed-forward) gets the loss layer, outermost -/
theorem layers_loss_outermost (k : Kinds) (h : k.hasLC = true) (hff : k.hasFF = false) :
    (layers k).getLast? = some "LossSimulator" ∧ (layers k).head? = some "Simulator" := by
  obtain ⟨lc, td, pol, ff⟩ := k
  simp only at h hff
  subst h hff
  cases td <;> cases pol <;> simp [layers]

/-! ### non-vacuity -/

/-- an accepted program: 3 modes, two channels on the *same interior* mode and one on mode 0,
interleaved with a 2-mode unitary; all hypotheses of the theorems above hold for it -/
def exSwap : Matrix (Fin 2) (Fin 2) GQ := fun i j => if i = j then 0 else 1
def exItems : Items GQ :=
  [(1, .lc ⟨3/5, 0⟩ ⟨4/5, 0⟩), (0, .uni 2 exSwap), (1, .lc ⟨4/5, 0⟩ ⟨3/5, 0⟩), (0, .lc 0 1)]

example : Fits 3 exItems ∧ WF 6 3 exItems ∧ AllUnitary exItems := by
  refine ⟨?_, ?_, ?_⟩
  · intro p hp
    simp only [exItems, List.mem_cons, List.not_mem_nil, or_false] at hp
    rcases hp with rfl | rfl | rfl | rfl <;> simp [Comp.width]
  · simp [exItems, WF]
  · simp only [exItems, AllUnitary, and_true]
    refine ⟨?_, ?_, ?_, ?_⟩ <;> unfold IsUnitary <;> decide +kernel

example : (1 : ℕ) + 1 < 3 ∧ 3 < 6 ∧ (1 : ℕ) ≤ 3 := by omega

example : ∃ (c s : ℚ), c * c = 1 - s * s ∧ c ≠ 0 ∧ s ≠ 0 := ⟨3/5, 4/5, by norm_num, by norm_num, by norm_num⟩

/-- `loss_distribution_mass_one(_fits)`: the program above (two channels on one interior mode, one on mode 0,
real transmissions 9/25, 16/25 and 0) with a two-photon input -/
example : Fits 3 exItems ∧ RealLoss exItems ∧ ([1, 1, 0] : List ℕ).length = 3 ∧ expandedM 3 exItems = 6 := by
  refine ⟨?_, ?_, rfl, rfl⟩
  · intro p hp
    simp only [exItems, List.mem_cons, List.not_mem_nil, or_false] at hp
    rcases hp with rfl | rfl | rfl | rfl <;> simp [Comp.width]
  · unfold exItems RealLoss RealLoss RealLoss RealLoss RealLoss
    refine ⟨⟨rfl, rfl, by norm_num⟩, ?_, ⟨rfl, rfl, by norm_num⟩, ⟨rfl, rfl, ?_⟩, trivial⟩
    · unfold IsUnitary; decide +kernel
    · show (0 : ℚ) * 0 + 1 * 1 = 1
      norm_num

example : Dist.mass (lossProbs (prod 6 (rewrite 3 exItems)) 3 [1, 1, 0]) = 1 :=
  loss_distribution_mass_one 3 6 exItems (by simp [exItems, WF])
    (by
      simp only [exItems, AllUnitary, and_true]
      refine ⟨?_, ?_, ?_, ?_⟩ <;> unfold IsUnitary <;> decide +kernel)
    [1, 1, 0] rfl (by omega)

/-- `RootEval` is inhabited: ℂ with the non-negative real square root (so `kraus_trace_preserved`,
`kraus_entry_eq_bs_amplitude`, `kraus_eq_bs_dilation` speak about the complex matrices of the code) -/
noncomputable example : RootEval ℂ := complexEval

/-- a density matrix with off-diagonal entries (the superposition `(|2,0⟩ + 2|0,1⟩)/√5`) satisfying `NonnegRad`,
a loss `p = 16/25` with `c = 3/5`, `s = 4/5 ≥ 0` -/
example : NonnegRad [(([2, 0], [2, 0]), ⟨1/5, 0⟩, 1), (([2, 0], [0, 1]), ⟨2/5, 0⟩, 1),
    (([0, 1], [2, 0]), ⟨2/5, 0⟩, 1), (([0, 1], [0, 1]), ⟨4/5, 0⟩, 1)] ∧
    (0 : ℚ) ≤ 3/5 ∧ (0 : ℚ) ≤ 4/5 ∧ (3/5 : ℚ) * (3/5) = 1 - 16/25 ∧ (4/5 : ℚ) * (4/5) = 16/25 ∧
    (0 : ℚ) ≤ 16/25 ∧ (16/25 : ℚ) ≤ 1 := by
  refine ⟨?_, by norm_num, by norm_num, by norm_num, by norm_num, by norm_num, by norm_num⟩
  intro e he
  simp only [List.mem_cons, List.not_mem_nil, or_false] at he
  rcases he with rfl | rfl | rfl | rfl <;> norm_num

/-- `lcApply_marginal_eq_dmLoss`: a state vector on 2 modes -/
example : ∀ e ∈ ([([2, 1], 1, 1), ([0, 1], ⟨0, 2⟩, 1)] : SVec), e.1.length = 2 := by
  intro e he
  simp only [List.mem_cons, List.not_mem_nil, or_false] at he
  rcases he with rfl | rfl <;> rfl

/-- `evolve_single_pattern_eq_prob`: its hypothesis is met by every reduced state of a one-channel program that has
a contribution at all (`evolve_one_channel_single_pattern`: the filtered list has length ≤ 1); a source
distribution for `loss_noisy_source_mass_one`: the model's own, `sourceDist (3/4) [1, 1, 0]` -/
example : ((sourceDist (3/4) [1, 1, 0]).map (·.1)).sum = 1 ∧
    ∀ q ∈ sourceDist (3/4) [1, 1, 0], q.2.length = 3 :=
  ⟨sourceDist_mass_one _ _, sourceDist_length _ _⟩

example : Dist.mass (lossProbsMix (prod 6 (rewrite 3 exItems)) 3 (sourceDist (3/4) [1, 1, 0])) = 1 :=
  loss_noisy_source_mass_one 3 6 exItems (by simp [exItems, WF])
    (by
      simp only [exItems, AllUnitary, and_true]
      refine ⟨?_, ?_, ?_, ?_⟩ <;> unfold IsUnitary <;> decide +kernel)
    (by omega) _ (sourceDist_length _ _) (sourceDist_mass_one _ _)

/-- `channel_block_with_spectators` / `lc_thinning_with_spectators`: 5 modes, channel on the interior mode 1 with
fresh mode 4 (still empty), photons waiting in modes 0 and 2 and one already lost into mode 3 -/
example : (1 : ℕ) < 5 ∧ (4 : ℕ) < 5 ∧ (1 : ℕ) ≠ 4 ∧ ([2, 3, 1, 1, 0] : List ℕ).length = 5 ∧
    ([2, 1, 1, 1, 2] : List ℕ).length = 5 ∧ ([2, 3, 1, 1, 0] : List ℕ).getD 4 0 = 0 ∧
    thinSpect (9/25) (16/25) 1 4 [2, 3, 1, 1, 0] [2, 1, 1, 1, 2] = 3 * (9/25) * (16/25) ^ 2 := by
  refine ⟨by omega, by omega, by omega, rfl, rfl, rfl, ?_⟩
  simp [thinSpect, spectAgree, List.range_succ]
  try norm_num [Nat.choose]

/-- a selection for `loss_selection_is_conditioning` / `loss_selected_distribution_mass_one`: herald 0 photons on
mode 2, post-selection "mode 0 holds fewer than 2 photons", at least one detected photon, heralds dropped; on a
normalised two-outcome distribution over 3 + 1 modes both hypotheses hold (something passes the filter, something
is retained) -/
def exSel : Sel := ⟨[(2, 0)], .cond [0] .lt 2, 1, false⟩
def exDist : Dist.D := [([1, 0, 0, 0], 1/2), ([0, 0, 0, 1], 1/2)]

example : Dist.mass exDist = 1 ∧ SimSpec.physPerf exSel.cond (postprocess 3 exDist) ≠ 0 ∧
    Dist.mass (SimSpec.retained exSel.cond (postprocess 3 exDist)) ≠ 0 ∧
    (lossPost exSel 3 exDist).1 = [([1, 0], 1)] := by
  refine ⟨by norm_num [exDist, Dist.mass], ?_, ?_, ?_⟩ <;>
    simp [exSel, exDist, Sel.cond, Sel.filter, SimSpec.physPerf, SimSpec.retained, SimSpec.physOk, SimSpec.logicOk,
      SimSpec.heraldsOk, SimSpec.PS.eval, SimSpec.Cmp.eval, postprocess, Dist.mapKeys, Dist.restrict, Dist.mass,
      lossPost, filterCount, postSelect, hasCond, Dist.normalize, Dist.scale, SimSpec.reported,
      SimSpec.removeModes, List.zipIdx] <;> norm_num

/-- `forwarded_filter_is_redundant`: a filter of 3 photons against a 2-photon input -/
example : ([1, 1, 0] : List ℕ).sum < (⟨[], .tt, 3, true⟩ : Sel).minDet := by decide


/-! ## Extension 5 — detectors together with loss channels -/

/-- **detectors_see_only_original_modes**: `_prepare_detectors_impl` pads the caller's detector list with `None`
for the virtual modes; `simulate_detectors` then runs on the ENLARGED distribution and the loss layer marginalises
afterwards.  For every list of per-mode detection kernels on the `M` original modes (any detectors at all: rows
need not even be normalised), every number `k` of virtual modes and every distribution over `M + k` modes, the
result is — entry by entry, as lists — the detectors applied to the marginal distribution on the original modes:
detection and photon loss commute, a lost photon is never detected and never alters a detection. -/
theorem detectors_see_only_original_modes (ks : List Kern) (M k : ℕ) (hk : ks.length = M) (d : Dist.D)
    (hd : ∀ p ∈ d, p.1.length = M + k) :
    postprocess M (detectAll (ks ++ List.replicate k DetK.none.kern) d) = detectAll ks (postprocess M d) :=
  postprocess_detectAll_pad ks M k hk d hd

/-- the same for the code's objects: any enlarged matrix, any detector list of the caller (one entry per original
mode), any input — the marginal of `simulate_detectors(enlarged distribution, padded list)` is the detectors applied
to what `LossSimulator.probs` returns -/
theorem loss_detectors_act_on_marginal {N : ℕ} (U : Matrix (Fin N) (Fin N) GQ) (M : ℕ) (hMN : M ≤ N)
    (ds : List DetK) (hds : ds.length = M) (s : List ℕ) :
    postprocess M (detectAll ((padDetectors M N ds).map DetK.kern) (fullDist U (prepareInput M N s))) =
      detectMarginal ds U M s := by
  rw [map_kern_pad]
  unfold detectMarginal lossProbs
  apply postprocess_detectAll_pad _ M (N - M) (by simpa using hds)
  intro p hp
  unfold fullDist at hp
  obtain ⟨t, ht, rfl⟩ := List.mem_map.1 hp
  have := ((Fock.mem_allStates_iff _ _ _).1 ht).1
  simp only [this]
  omega

/-- **loss_detected_distribution_mass_one**: for every accepted component list with unitary components, every
input and every detector list whose kernels are probability distributions row by row (PNR, threshold and `None`
are: `stoch_pnr`, `stoch_thr`, `stoch_none`), the detected distribution on the original modes has total
probability exactly one — before the marginalisation and after it. -/
theorem loss_detected_distribution_mass_one (M N : ℕ) (items : Items GQ) (hwf : WF N M items)
    (hu : AllUnitary items) (s : List ℕ) (hs : s.length = M) (hMN : M ≤ N) (ds : List DetK)
    (hst : ∀ d ∈ ds, Stoch d.kern) :
    Dist.mass (detectAll ((padDetectors M N ds).map DetK.kern)
        (fullDist (prod N (rewrite M items)) (prepareInput M N s))) = 1 ∧
      Dist.mass (detectMarginal ds (prod N (rewrite M items)) M s) = 1 := by
  have hd : Dist.mass (fullDist (prod N (rewrite M items)) (prepareInput M N s)) = 1 :=
    fullDist_mass_one _ (expanded_isUnitary N items M hwf hu) _ (prepareInput_spec M N s hs hMN).1
  have hk : ∀ k ∈ ds.map DetK.kern, Stoch k := by
    intro k hk
    obtain ⟨d, hd', rfl⟩ := List.mem_map.1 hk
    exact hst d hd'
  refine ⟨?_, ?_⟩
  · rw [mass_detectAll _ _ ?_, hd]
    intro k hk'
    rw [map_kern_pad] at hk'
    rcases List.mem_append.1 hk' with h | h
    · exact hk k h
    · rw [(List.mem_replicate.1 h).2]; exact stoch_none
  · unfold detectMarginal
    rw [mass_detectAll _ _ hk]
    exact loss_distribution_mass_one M N items hwf hu s hs hMN

/-- **padded_detection_type**: below a loss layer (at least one virtual mode) `get_detection_type` of the padded
list is PNR or Mixed, never Threshold or PPNR — whatever the caller's detectors, `simulate_detectors` takes either
the unchanged-distribution exit or its general per-mode branch, and in the PNR case hands the distribution back
untouched (no filter applied). -/
theorem padded_detection_type (M N : ℕ) (hMN : M < N) (ds : List DetK) :
    (detType (padDetectors M N ds) = .pnr ∨ detType (padDetectors M N ds) = .mixed) ∧
      ∀ (f : ℕ) (d : Dist.D), detType (padDetectors M N ds) = .pnr →
        simDetectors (padDetectors M N ds) f d = (d, 1) := by
  refine ⟨?_, ?_⟩
  · unfold padDetectors
    obtain ⟨k, hk⟩ : ∃ k, N - M = k + 1 := ⟨N - M - 1, by omega⟩
    rw [hk]
    exact detType_pad ds k
  · intro f d h
    simp [simDetectors, h]

/-- **inner_detector_filter_is_redundant**: `simulate_detectors` inside the inner simulator filters on the photon
number of the ENLARGED detected state (lost photons included) with the caller's value `minDet`; the loss layer
filters again on the original modes with `minDet + Σ heralds`.  For every distribution `x` over the enlarged
modes, what the outer filter keeps of the marginal is the same with or without the inner filter: the inner filter
never removes an outcome the outer one accepts. -/
theorem inner_detector_filter_is_redundant (σ : Sel) (M : ℕ) (x : Dist.D) :
    Dist.restrict (fun t => decide (σ.filter ≤ t.sum))
        (postprocess M (Dist.restrict (fun t => decide (σ.minDet ≤ t.sum)) x)) =
      Dist.restrict (fun t => decide (σ.filter ≤ t.sum)) (postprocess M x) := by
  rw [restrict_postprocess, restrict_postprocess,
    restrict_outer_inner M σ.minDet σ.filter (by unfold Sel.filter; omega) x]

/-- **loss_detector_selection_is_conditioning**: the whole pipeline of `LossSimulator.probs_svd(input, detectors)`
as the code runs it — detector list padded with `None`, `simulate_detectors` on the ENLARGED distribution with the
inner photon filter counting lost photons too, its normalisation, the inner `post_select_distribution`
(a further normalisation), marginalisation, outer photon filter (herald photons added) with its normalisation,
heralds and post-selection with theirs — against the property's reading: detectors look at the ORIGINAL modes of the
marginal distribution of the enlarged lossless circuit, then ONE conditioning.  For every enlarged matrix with a
normalised distribution, every selection, every detector list (one entry per original mode, rows non-negative and
summing to one) that is not all-PNR, every input the forwarded filter lets through: when something passes the
photon filter, `physical_perf` and `logical_perf` are the specification's, and when something is retained the
reported distribution is the conditioned detected marginal. -/
theorem loss_detector_selection_is_conditioning {N : ℕ} (σ : Sel) (ds : List DetK)
    (U : Matrix (Fin N) (Fin N) GQ) (M : ℕ) (hMN : M ≤ N) (hds : ds.length = M) (s : List ℕ)
    (hs : σ.minDet ≤ s.sum) (hst : ∀ d ∈ ds, Stoch d.kern)
    (hnn : ∀ d ∈ ds, ∀ n, ∀ e ∈ d.kern n, (0 : ℚ) ≤ e.2)
    (hmix : detType (padDetectors M N ds) ≠ .pnr)
    (hd : Dist.mass (fullDist U (prepareInput M N s)) = 1)
    (hp : SimSpec.physPerf σ.cond (detectMarginal ds U M s) ≠ 0) :
    (Dist.mass (SimSpec.retained σ.cond (detectMarginal ds U M s)) ≠ 0 →
        (lossDetSvd σ ds U M s).1 = SimSpec.conditioned σ.cond (detectMarginal ds U M s)) ∧
      (lossDetSvd σ ds U M s).2.1 = SimSpec.logicalPerf σ.cond (detectMarginal ds U M s) ∧
      (lossDetSvd σ ds U M s).2.2 = SimSpec.physPerf σ.cond (detectMarginal ds U M s) := by
  have hpx := loss_detectors_act_on_marginal U M hMN ds hds s
  have hkst : ∀ k ∈ (padDetectors M N ds).map DetK.kern, Stoch k := by
    intro k hk
    rw [map_kern_pad] at hk
    rcases List.mem_append.1 hk with h | h
    · obtain ⟨d, hd', rfl⟩ := List.mem_map.1 h
      exact hst d hd'
    · rw [(List.mem_replicate.1 h).2]; exact stoch_none
  have hknn : ∀ k ∈ (padDetectors M N ds).map DetK.kern, ∀ n, ∀ e ∈ k n, (0 : ℚ) ≤ e.2 := by
    intro k hk
    rw [map_kern_pad] at hk
    rcases List.mem_append.1 hk with h | h
    · obtain ⟨d, hd', rfl⟩ := List.mem_map.1 h
      exact hnn d hd'
    · rw [(List.mem_replicate.1 h).2]
      intro n e he
      simp only [DetK.kern, List.mem_singleton] at he
      rw [he]; norm_num
  have hmx := mass_detectAll _ (fullDist U (prepareInput M N s)) hkst
  rw [hd] at hmx
  have hnx := nonneg_detectAll _ _ hknn (nonneg_fullDist U (prepareInput M N s))
  have hne : (fullDist U (prepareInput M N s)).isEmpty = false := by
    cases h : fullDist U (prepareInput M N s) with
    | nil => rw [h] at hd; simp at hd
    | cons a b => rfl
  have hmain := simDet_post_spec σ M _ hmx hnx (by rw [hpx]; exact hp)
  simp only [hpx] at hmain
  unfold lossDetSvd
  rw [if_neg (not_lt.2 hs)]
  unfold simDetectors
  simp only [hne, hmix, decide_false, Bool.or_self, Bool.false_eq_true, ↓reduceIte]
  exact hmain

/-- **pnr_detectors_are_no_detectors**: when the padded list is PNR (every entry `None` or a PNR detector),
`simulate_detectors` hands the distribution back and the run is exactly the detector-free run, to which
`loss_selection_is_conditioning` applies -/
theorem pnr_detectors_are_no_detectors {N : ℕ} (σ : Sel) (ds : List DetK) (U : Matrix (Fin N) (Fin N) GQ)
    (M : ℕ) (s : List ℕ) (hpnr : detType (padDetectors M N ds) = .pnr)
    (hd : Dist.mass (fullDist U (prepareInput M N s)) = 1) :
    lossDetSvd σ ds U M s = lossSvdSel σ U M s := by
  unfold lossDetSvd lossSvdSel
  by_cases h : s.sum < σ.minDet
  · rw [if_pos h, if_pos h]
  · rw [if_neg h, if_neg h]
    simp only [simDetectors, hpnr, decide_true, Bool.or_true, ↓reduceIte,
      Dist.normalize_of_mass_one _ hd, one_mul]


/-- non-vacuity: a two-wire partially resolving detector's rows (`detect(2)` = one click 1/2, two clicks 1/2;
`detect(3)` = 1/4, 3/4) are stochastic; a detector list `[threshold, PPNR]` on 2 original modes below one virtual
mode is Mixed; on the enlarged distribution `{|2,1,0⟩: 1/2, |0,2,1⟩: 1/2}` the detected marginal is computed -/
def exPpnr : DetK := .ppnr [[], [], [(1, 1/2), (2, 1/2)], [(1, 1/4), (2, 3/4)]]

example : (∀ n, n ≤ 3 → ((exPpnr.kern n).map (·.2)).sum = 1) ∧
    detType (padDetectors 2 3 [.thr, exPpnr]) = .mixed ∧
    postprocess 2 (detectAll ((padDetectors 2 3 [.thr, exPpnr]).map DetK.kern)
      [([2, 1, 0], 1/2), ([0, 2, 1], 1/2)]) =
      [([1, 1], 1/2), ([0, 1], 1/4), ([0, 2], 1/4)] := by
  refine ⟨?_, by decide, ?_⟩
  · intro n hn
    have h4 : n = 0 ∨ n = 1 ∨ n = 2 ∨ n = 3 := by omega
    rcases h4 with rfl | rfl | rfl | rfl <;> simp [exPpnr, DetK.kern] <;> norm_num
  · simp [padDetectors, exPpnr, DetK.kern, detectAll, detState, Dist.scale, postprocess, Dist.mapKeys]
    norm_num



/-- non-vacuity of `loss_detected_distribution_mass_one` / `loss_detector_selection_is_conditioning`: the detector
list `[threshold, exPpnr]` meets the kernel hypotheses (rows non-negative, summing to one, for EVERY photon number)
and is not all-PNR once padded; `exDist` (normalised, non-negative) with `exSel` passes the photon filter -/
example : (∀ d ∈ [DetK.thr, exPpnr], Stoch d.kern) ∧
    (∀ d ∈ [DetK.thr, exPpnr], ∀ n, ∀ e ∈ d.kern n, (0 : ℚ) ≤ e.2) ∧
    detType (padDetectors 2 3 [.thr, exPpnr]) ≠ .pnr ∧ Nonneg exDist := by
  have hrow : ∀ n, exPpnr.kern n = [(n, 1)] ∨ exPpnr.kern n = [(1, 1/2), (2, 1/2)] ∨
      exPpnr.kern n = [(1, 1/4), (2, 3/4)] := by
    intro n
    rcases n with _ | _ | _ | _ | n <;> simp [exPpnr, DetK.kern]
  refine ⟨?_, ?_, by decide, ?_⟩
  · intro d hd
    simp only [List.mem_cons, List.not_mem_nil, or_false] at hd
    rcases hd with rfl | rfl
    · exact stoch_thr
    · intro n
      rcases hrow n with h | h | h <;> rw [h] <;> norm_num
  · intro d hd n e he
    simp only [List.mem_cons, List.not_mem_nil, or_false] at hd
    rcases hd with rfl | rfl
    · simp only [DetK.kern, List.mem_singleton] at he
      rw [he]; norm_num
    · rcases hrow n with h | h | h <;> rw [h] at he <;>
        simp only [List.mem_cons, List.not_mem_nil, or_false] at he <;>
        rcases he with rfl | rfl <;> norm_num
  · intro p hp
    simp only [exDist, List.mem_cons, List.not_mem_nil, or_false] at hp
    rcases hp with rfl | rfl <;> norm_num



/-! ## Extension 5 — the noisy source together with heralds / post-selection on top of the loss layer -/

/-- **loss_noisy_selection_is_conditioning**: `LossSimulator.probs_svd(source distribution)` with a selection, as
the code runs it: the inner simulator drops every input of the source distribution with fewer photons than the
forwarded filter (the test is on the INPUT of the enlarged circuit, lost photons included), reports the dropped
weight as `physical_perf`, mixes the enlarged distributions of the other inputs, normalises and divides its
`_logical_perf` by its `physical_perf`; the loss layer marginalises, filters on the original modes with the herald
photons added, applies heralds and post-selection, normalising after each step, and multiplies the performances in.
For every enlarged matrix, every source distribution of Fock inputs with non-negative weights summing to one whose
members give normalised enlarged distributions (a theorem for unitary components), and every selection
(heralds, post-selection expression, filter, `keep_heralds`): whenever something passes the photon filter, the
reported `physical_perf` and `logical_perf` are the specification's for the MIXTURE of the marginal distributions on
the original modes, and when something is retained the reported distribution is that mixture conditioned once. -/
theorem loss_noisy_selection_is_conditioning {N : ℕ} (σ : Sel) (U : Matrix (Fin N) (Fin N) GQ) (M : ℕ)
    (src : List (ℚ × List ℕ)) (hw : (src.map (·.1)).sum = 1) (hnn : ∀ ws ∈ src, (0 : ℚ) ≤ ws.1)
    (hd : ∀ ws ∈ src, Dist.mass (fullDist U (prepareInput M N ws.2)) = 1)
    (hp : SimSpec.physPerf σ.cond (lossProbsMix U M src) ≠ 0) :
    (Dist.mass (SimSpec.retained σ.cond (lossProbsMix U M src)) ≠ 0 →
        (lossMixSvdSel σ U M src).1 = SimSpec.conditioned σ.cond (lossProbsMix U M src)) ∧
      (lossMixSvdSel σ U M src).2.1 = SimSpec.logicalPerf σ.cond (lossProbsMix U M src) ∧
      (lossMixSvdSel σ U M src).2.2 = SimSpec.physPerf σ.cond (lossProbsMix U M src) := by
  have hkn : ∀ ws ∈ src.filter (passes σ), (0 : ℚ) ≤ ws.1 := fun ws h => hnn ws (List.mem_filter.1 h).1
  have hkd : ∀ ws ∈ src.filter (passes σ), Dist.mass (fullDist U (prepareInput M N ws.2)) = 1 :=
    fun ws h => hd ws (List.mem_filter.1 h).1
  have hny := nonneg_enlargedMix U M _ hkn
  have hmain := inner_drop_post_spec σ M (enlargedMix U M src) (enlargedMix U M (src.filter (passes σ))) hny
    (restrict_physOk_kept σ U M src) (by rw [postprocess_enlargedMix]; exact hp)
  simp only [postprocess_enlargedMix] at hmain
  obtain ⟨hW, h1, h2, h3⟩ := hmain
  have hmy := mass_enlargedMix U M _ hkd
  have hsplit := sum_filter_split (passes σ) src
  rw [hw] at hsplit
  have hne : (enlargedMix U M (src.filter (passes σ))).isEmpty = false := by
    cases h : enlargedMix U M (src.filter (passes σ)) with
    | nil => rw [h] at hW; simp at hW
    | cons a b => rfl
  have hnorm : Dist.normalize (Dist.normalize (enlargedMix U M (src.filter (passes σ)))) =
      Dist.normalize (enlargedMix U M (src.filter (passes σ))) :=
    Dist.normalize_of_mass_one _ (Dist.mass_normalize _ hW)
  rw [hnorm] at h1 h2 h3
  have hwy : 1 - ((src.filter fun ws => !passes σ ws).map (·.1)).sum =
      Dist.mass (enlargedMix U M (src.filter (passes σ))) := by rw [hmy]; linarith
  have hpos : 0 < Dist.mass (enlargedMix U M (src.filter (passes σ))) :=
    lt_of_le_of_ne (mass_nonneg _ hny) (Ne.symm hW)
  unfold lossMixSvdSel
  simp only [hne, Bool.false_eq_true, ↓reduceIte, hwy, ← hmy, hpos, and_self, div_self hW, one_mul]
  exact ⟨h1, h2, h3⟩

/-- non-vacuity: a source distribution with non-negative weights summing to one (the model's own emission model),
and the enlarged distributions of an accepted program are normalised (`fullDist_mass_one`) -/
example : ((sourceDist (3/4) [1, 1, 0]).map (·.1)).sum = 1 ∧
    (∀ ws ∈ sourceDist (3/4) [1, 1, 0],
      Dist.mass (fullDist (prod 6 (rewrite 3 exItems)) (prepareInput 3 6 ws.2)) = 1) := by
  refine ⟨sourceDist_mass_one _ _, ?_⟩
  intro ws hws
  refine fullDist_mass_one _ (expanded_isUnitary 6 exItems 3 (by simp [exItems, WF]) ?_) _
    (prepareInput_spec 3 6 ws.2 (sourceDist_length _ _ ws hws) (by omega)).1
  simp only [exItems, AllUnitary, and_true]
  refine ⟨?_, ?_, ?_, ?_⟩ <;> unfold IsUnitary <;> decide +kernel



/-! ## Wave 7 — hypotheses discharged, the excluded filter case, `evolve` on superpositions, composition -/


/-- **loss_selection_nothing_passes** (the case `loss_selection_is_conditioning` excludes): for every selection, every
mode count and every normalised non-negative enlarged distribution in which NOTHING passes the photon filter,
`_postprocess_bsd` reports `physical_perf = 0` (the specification's value) and `logical_perf = 1`, where the
specification's convention is `logicalPerf = 0`; nothing is retained.  The one place where the code and the
specification name different numbers — and their products agree (next theorem). -/
theorem loss_selection_nothing_passes (σ : Sel) (M : ℕ) (d : Dist.D) (hd : Dist.mass d = 1) (hn : Nonneg d)
    (hp : SimSpec.physPerf σ.cond (postprocess M d) = 0) :
    (lossPost σ M d).2.2 = 0 ∧ (lossPost σ M d).2.1 = 1 ∧
      SimSpec.logicalPerf σ.cond (postprocess M d) = 0 ∧
      Dist.mass (SimSpec.retained σ.cond (postprocess M d)) = 0 :=
  lossPost_nothing_passes σ M d hd hn hp

/-- **loss_selection_perf_product_total**: WITHOUT any hypothesis on the photon filter — for every selection, every
mode count and every normalised non-negative enlarged distribution, `physical_perf` is the specification's
`physPerf` of the marginal distribution and `physical_perf · logical_perf` is exactly the retained probability. -/
theorem loss_selection_perf_product_total (σ : Sel) (M : ℕ) (d : Dist.D) (hd : Dist.mass d = 1) (hn : Nonneg d) :
    (lossPost σ M d).2.2 * (lossPost σ M d).2.1 = Dist.mass (SimSpec.retained σ.cond (postprocess M d)) ∧
      (lossPost σ M d).2.2 = SimSpec.physPerf σ.cond (postprocess M d) := by
  by_cases hp : SimSpec.physPerf σ.cond (postprocess M d) = 0
  · obtain ⟨h1, _, _, h4⟩ := loss_selection_nothing_passes σ M d hd hn hp
    rw [h1, h4, hp, zero_mul]
    exact ⟨rfl, rfl⟩
  · obtain ⟨⟨_, h2⟩, h3⟩ := lossPost_spec σ M d hd hp
    rw [h2, h3]
    exact ⟨SimSpec.perf_product _ _ hp, rfl⟩

/-- **loss_detector_selection_end_to_end**: `loss_detector_selection_is_conditioning` with both its analytic
hypotheses discharged.  For every accepted component list (any interleaving of unitary components and loss
channels, `WF`) with unitary components and unitary channel blocks, every Fock input on the `M` original modes the
forwarded filter lets through, every non-PNR detector list with non-negative row-stochastic kernels and every
selection that retains something: the whole pipeline reports exactly the specification (detectors on the original
modes of the marginal distribution, one conditioning), the reported distribution has total probability one and
`physical_perf · logical_perf` is the retained probability.  (The normalisation of the enlarged distribution is
`expanded_isUnitary` + C02's Parseval theorem; the filter's mass is non-zero because probabilities are
non-negative.) -/
theorem loss_detector_selection_end_to_end (M N : ℕ) (items : Items GQ) (hwf : WF N M items)
    (hu : AllUnitary items) (hMN : M ≤ N) (σ : Sel) (ds : List DetK) (hds : ds.length = M)
    (s : List ℕ) (hlen : s.length = M) (hs : σ.minDet ≤ s.sum) (hst : ∀ d ∈ ds, Stoch d.kern)
    (hnn : ∀ d ∈ ds, ∀ n, ∀ e ∈ d.kern n, (0 : ℚ) ≤ e.2)
    (hmix : detType (padDetectors M N ds) ≠ .pnr)
    (hr : Dist.mass (SimSpec.retained σ.cond (detectMarginal ds (prod N (rewrite M items)) M s)) ≠ 0) :
    (lossDetSvd σ ds (prod N (rewrite M items)) M s).1 =
        SimSpec.conditioned σ.cond (detectMarginal ds (prod N (rewrite M items)) M s) ∧
      Dist.mass (lossDetSvd σ ds (prod N (rewrite M items)) M s).1 = 1 ∧
      (lossDetSvd σ ds (prod N (rewrite M items)) M s).2.1 =
        SimSpec.logicalPerf σ.cond (detectMarginal ds (prod N (rewrite M items)) M s) ∧
      (lossDetSvd σ ds (prod N (rewrite M items)) M s).2.2 =
        SimSpec.physPerf σ.cond (detectMarginal ds (prod N (rewrite M items)) M s) ∧
      (lossDetSvd σ ds (prod N (rewrite M items)) M s).2.2 * (lossDetSvd σ ds (prod N (rewrite M items)) M s).2.1 =
        Dist.mass (SimSpec.retained σ.cond (detectMarginal ds (prod N (rewrite M items)) M s)) := by
  have hd : Dist.mass (fullDist (prod N (rewrite M items)) (prepareInput M N s)) = 1 :=
    fullDist_mass_one _ (expanded_isUnitary N items M hwf hu) _ (prepareInput_spec M N s hlen hMN).1
  have hp := physPerf_ne_zero_of_retained _ _ (nonneg_detectMarginal ds _ M s hnn) hr
  obtain ⟨h1, h2, h3⟩ := loss_detector_selection_is_conditioning σ ds _ M hMN hds s hs hst hnn hmix hd hp
  refine ⟨h1 hr, ?_, h2, h3, ?_⟩
  · rw [h1 hr]; exact SimSpec.conditioned_mass_one _ _ hr
  · rw [h2, h3]; exact SimSpec.perf_product _ _ hp

/-- **loss_noisy_selection_end_to_end**: `loss_noisy_selection_is_conditioning` with its analytic hypotheses
discharged.  For every accepted component list with unitary components and unitary channel blocks, every source
distribution of Fock inputs on the `M` original modes with non-negative weights summing to one, and every selection
that retains something of the mixture: `LossSimulator.probs_svd` reports the mixture of the marginal distributions
conditioned once, with the specification's `logical_perf` and `physical_perf`; the reported distribution has total
probability one and `physical_perf · logical_perf` is the retained probability. -/
theorem loss_noisy_selection_end_to_end (M N : ℕ) (items : Items GQ) (hwf : WF N M items)
    (hu : AllUnitary items) (hMN : M ≤ N) (σ : Sel) (src : List (ℚ × List ℕ))
    (hlen : ∀ q ∈ src, q.2.length = M) (hw : (src.map (·.1)).sum = 1) (hnn : ∀ ws ∈ src, (0 : ℚ) ≤ ws.1)
    (hr : Dist.mass (SimSpec.retained σ.cond (lossProbsMix (prod N (rewrite M items)) M src)) ≠ 0) :
    (lossMixSvdSel σ (prod N (rewrite M items)) M src).1 =
        SimSpec.conditioned σ.cond (lossProbsMix (prod N (rewrite M items)) M src) ∧
      Dist.mass (lossMixSvdSel σ (prod N (rewrite M items)) M src).1 = 1 ∧
      (lossMixSvdSel σ (prod N (rewrite M items)) M src).2.1 =
        SimSpec.logicalPerf σ.cond (lossProbsMix (prod N (rewrite M items)) M src) ∧
      (lossMixSvdSel σ (prod N (rewrite M items)) M src).2.2 =
        SimSpec.physPerf σ.cond (lossProbsMix (prod N (rewrite M items)) M src) ∧
      (lossMixSvdSel σ (prod N (rewrite M items)) M src).2.2 *
          (lossMixSvdSel σ (prod N (rewrite M items)) M src).2.1 =
        Dist.mass (SimSpec.retained σ.cond (lossProbsMix (prod N (rewrite M items)) M src)) := by
  have hd : ∀ ws ∈ src, Dist.mass (fullDist (prod N (rewrite M items)) (prepareInput M N ws.2)) = 1 :=
    fun ws h => fullDist_mass_one _ (expanded_isUnitary N items M hwf hu) _
      (prepareInput_spec M N ws.2 (hlen ws h) hMN).1
  have hp := physPerf_ne_zero_of_retained _ _ (nonneg_lossProbsMix _ M src hnn) hr
  obtain ⟨h1, h2, h3⟩ := loss_noisy_selection_is_conditioning σ _ M src hw hnn hd hp
  refine ⟨h1 hr, ?_, h2, h3, ?_⟩
  · rw [h1 hr]; exact SimSpec.conditioned_mass_one _ _ hr
  · rw [h2, h3]; exact SimSpec.perf_product _ _ hp

/-! ## Wave 10 — the detector pipeline when nothing passes the photon filter -/

/-- **loss_detector_selection_nothing_passes** (the case `loss_detector_selection_is_conditioning` excludes): under
the same hypotheses on the enlarged matrix, the detector list, the input and the selection, when NOTHING of the
detected marginal distribution passes the photon filter the pipeline reports `physical_perf = 0`, hence
`physical_perf · logical_perf = 0`, which is the retained probability; the specification's `logical_perf` is `0`
by convention (the code's own `logical_perf` in this case is whatever the normalisations leave — it is multiplied
by `0`). -/
theorem loss_detector_selection_nothing_passes {N : ℕ} (σ : Sel) (ds : List DetK)
    (U : Matrix (Fin N) (Fin N) GQ) (M : ℕ) (hMN : M ≤ N) (hds : ds.length = M) (s : List ℕ)
    (hs : σ.minDet ≤ s.sum) (hst : ∀ d ∈ ds, Stoch d.kern)
    (hnn : ∀ d ∈ ds, ∀ n, ∀ e ∈ d.kern n, (0 : ℚ) ≤ e.2)
    (hmix : detType (padDetectors M N ds) ≠ .pnr)
    (hd : Dist.mass (fullDist U (prepareInput M N s)) = 1)
    (hp : SimSpec.physPerf σ.cond (detectMarginal ds U M s) = 0) :
    (lossDetSvd σ ds U M s).2.2 = 0 ∧
      SimSpec.logicalPerf σ.cond (detectMarginal ds U M s) = 0 ∧
      Dist.mass (SimSpec.retained σ.cond (detectMarginal ds U M s)) = 0 ∧
      (lossDetSvd σ ds U M s).2.2 * (lossDetSvd σ ds U M s).2.1 =
        Dist.mass (SimSpec.retained σ.cond (detectMarginal ds U M s)) := by
  have hpx := loss_detectors_act_on_marginal U M hMN ds hds s
  have hkst : ∀ k ∈ (padDetectors M N ds).map DetK.kern, Stoch k := by
    intro k hk
    rw [map_kern_pad] at hk
    rcases List.mem_append.1 hk with h | h
    · obtain ⟨d, hd', rfl⟩ := List.mem_map.1 h
      exact hst d hd'
    · rw [(List.mem_replicate.1 h).2]; exact stoch_none
  have hknn : ∀ k ∈ (padDetectors M N ds).map DetK.kern, ∀ n, ∀ e ∈ k n, (0 : ℚ) ≤ e.2 := by
    intro k hk
    rw [map_kern_pad] at hk
    rcases List.mem_append.1 hk with h | h
    · obtain ⟨d, hd', rfl⟩ := List.mem_map.1 h
      exact hnn d hd'
    · rw [(List.mem_replicate.1 h).2]
      intro n e he
      simp only [DetK.kern, List.mem_singleton] at he
      rw [he]; norm_num
  have hmx := mass_detectAll _ (fullDist U (prepareInput M N s)) hkst
  rw [hd] at hmx
  have hnx := nonneg_detectAll _ _ hknn (nonneg_fullDist U (prepareInput M N s))
  have hne : (fullDist U (prepareInput M N s)).isEmpty = false := by
    cases h : fullDist U (prepareInput M N s) with
    | nil => rw [h] at hd; simp at hd
    | cons a b => rfl
  have hmain := simDet_post_nothing_passes σ M _ hmx hnx (by rw [hpx]; exact hp)
  have hret := retained_mass_zero_of_physPerf_zero σ.cond _ (nonneg_detectMarginal ds U M s hnn) hp
  have h0 : (lossDetSvd σ ds U M s).2.2 = 0 := by
    unfold lossDetSvd
    rw [if_neg (not_lt.2 hs)]
    unfold simDetectors
    simp only [hne, hmix, decide_false, Bool.or_self, Bool.false_eq_true, ↓reduceIte]
    exact hmain
  refine ⟨h0, ?_, hret, ?_⟩
  · unfold SimSpec.logicalPerf; rw [if_pos hp]
  · rw [h0, hret, zero_mul]

/-- **loss_detector_selection_perf_product_total**: WITHOUT any hypothesis on the photon filter — for every enlarged
matrix with a normalised distribution, every selection, every non-PNR detector list with non-negative
row-stochastic kernels and every input the forwarded filter lets through: `physical_perf` is the specification's
`physPerf` of the detected marginal and `physical_perf · logical_perf` is exactly the retained probability. -/
theorem loss_detector_selection_perf_product_total {N : ℕ} (σ : Sel) (ds : List DetK)
    (U : Matrix (Fin N) (Fin N) GQ) (M : ℕ) (hMN : M ≤ N) (hds : ds.length = M) (s : List ℕ)
    (hs : σ.minDet ≤ s.sum) (hst : ∀ d ∈ ds, Stoch d.kern)
    (hnn : ∀ d ∈ ds, ∀ n, ∀ e ∈ d.kern n, (0 : ℚ) ≤ e.2)
    (hmix : detType (padDetectors M N ds) ≠ .pnr)
    (hd : Dist.mass (fullDist U (prepareInput M N s)) = 1) :
    (lossDetSvd σ ds U M s).2.2 = SimSpec.physPerf σ.cond (detectMarginal ds U M s) ∧
      (lossDetSvd σ ds U M s).2.2 * (lossDetSvd σ ds U M s).2.1 =
        Dist.mass (SimSpec.retained σ.cond (detectMarginal ds U M s)) := by
  by_cases hp : SimSpec.physPerf σ.cond (detectMarginal ds U M s) = 0
  · obtain ⟨h1, _, _, h4⟩ := loss_detector_selection_nothing_passes σ ds U M hMN hds s hs hst hnn hmix hd hp
    exact ⟨by rw [h1, hp], h4⟩
  · obtain ⟨_, h2, h3⟩ := loss_detector_selection_is_conditioning σ ds U M hMN hds s hs hst hnn hmix hd hp
    exact ⟨h3, by rw [h2, h3]; exact SimSpec.perf_product _ _ hp⟩

/-- non-vacuity of `loss_detector_selection_nothing_passes`: the identity on one mode, a threshold detector, one
photon, a caller filter of one photon and a herald expecting one more photon on the same mode: the input passes
the forwarded filter, the detected marginal is normalised and nothing reaches the filter of two photons -/
example : (⟨[(0, 1)], .tt, 1, false⟩ : Sel).minDet ≤ ([1] : List ℕ).sum ∧
    detType (padDetectors 1 1 [.thr]) ≠ .pnr ∧
    Dist.mass (fullDist (1 : Matrix (Fin 1) (Fin 1) GQ) (prepareInput 1 1 [1])) = 1 ∧
    SimSpec.physPerf (⟨[(0, 1)], .tt, 1, false⟩ : Sel).cond
      (detectMarginal [.thr] (1 : Matrix (Fin 1) (Fin 1) GQ) 1 [1]) = 0 := by
  refine ⟨by decide, by decide, by decide +kernel, by decide +kernel⟩

/-- **loss_noisy_selection_nothing_passes** (the case `loss_noisy_selection_is_conditioning` excludes): under the
same hypotheses on the enlarged matrix and the source distribution, for every selection, when NOTHING of the
mixture of the marginal distributions passes the photon filter (this includes the case where the inner simulator
dropped every input of the source distribution), `LossSimulator.probs_svd` reports `physical_perf = 0`, hence
`physical_perf · logical_perf = 0`, which is the retained probability; the specification's `logical_perf` is `0`
by convention. -/
theorem loss_noisy_selection_nothing_passes {N : ℕ} (σ : Sel) (U : Matrix (Fin N) (Fin N) GQ) (M : ℕ)
    (src : List (ℚ × List ℕ)) (hw : (src.map (·.1)).sum = 1) (hnn : ∀ ws ∈ src, (0 : ℚ) ≤ ws.1)
    (hd : ∀ ws ∈ src, Dist.mass (fullDist U (prepareInput M N ws.2)) = 1)
    (hp : SimSpec.physPerf σ.cond (lossProbsMix U M src) = 0) :
    (lossMixSvdSel σ U M src).2.2 = 0 ∧
      SimSpec.logicalPerf σ.cond (lossProbsMix U M src) = 0 ∧
      Dist.mass (SimSpec.retained σ.cond (lossProbsMix U M src)) = 0 ∧
      (lossMixSvdSel σ U M src).2.2 * (lossMixSvdSel σ U M src).2.1 =
        Dist.mass (SimSpec.retained σ.cond (lossProbsMix U M src)) := by
  have hkn : ∀ ws ∈ src.filter (passes σ), (0 : ℚ) ≤ ws.1 := fun ws h => hnn ws (List.mem_filter.1 h).1
  have hkd : ∀ ws ∈ src.filter (passes σ), Dist.mass (fullDist U (prepareInput M N ws.2)) = 1 :=
    fun ws h => hd ws (List.mem_filter.1 h).1
  have hny := nonneg_enlargedMix U M _ hkn
  have hmain := inner_drop_post_nothing_passes σ M (enlargedMix U M src) (enlargedMix U M (src.filter (passes σ)))
    hny (restrict_physOk_kept σ U M src) (by rw [postprocess_enlargedMix]; exact hp)
  have hmy := mass_enlargedMix U M _ hkd
  have hsplit := sum_filter_split (passes σ) src
  rw [hw] at hsplit
  have hwy : 1 - ((src.filter fun ws => !passes σ ws).map (·.1)).sum =
      Dist.mass (enlargedMix U M (src.filter (passes σ))) := by rw [hmy]; linarith
  have hret := retained_mass_zero_of_physPerf_zero σ.cond _ (nonneg_lossProbsMix U M src hnn) hp
  have h0 : (lossMixSvdSel σ U M src).2.2 = 0 := by
    unfold lossMixSvdSel
    by_cases he : (enlargedMix U M (src.filter (passes σ))).isEmpty = true
    · simp only [he, ↓reduceIte, hwy]
      rw [List.isEmpty_iff.1 he]
      simp
    · simp only [he, Bool.false_eq_true, ↓reduceIte, hwy]
      by_cases hW : Dist.mass (enlargedMix U M (src.filter (passes σ))) = 0
      · rw [hW, zero_mul]
      · rw [Dist.normalize_of_mass_one _ (Dist.mass_normalize _ hW)] at hmain
        exact hmain
  refine ⟨h0, ?_, hret, ?_⟩
  · unfold SimSpec.logicalPerf; rw [if_pos hp]
  · rw [h0, hret, zero_mul]

/-- **loss_noisy_selection_perf_product_total**: WITHOUT any hypothesis on the photon filter — for every enlarged
matrix, every source distribution of Fock inputs with non-negative weights summing to one whose members give
normalised enlarged distributions, and every selection: `physical_perf` is the specification's `physPerf` of the
mixture of the marginal distributions and `physical_perf · logical_perf` is exactly the retained probability. -/
theorem loss_noisy_selection_perf_product_total {N : ℕ} (σ : Sel) (U : Matrix (Fin N) (Fin N) GQ) (M : ℕ)
    (src : List (ℚ × List ℕ)) (hw : (src.map (·.1)).sum = 1) (hnn : ∀ ws ∈ src, (0 : ℚ) ≤ ws.1)
    (hd : ∀ ws ∈ src, Dist.mass (fullDist U (prepareInput M N ws.2)) = 1) :
    (lossMixSvdSel σ U M src).2.2 = SimSpec.physPerf σ.cond (lossProbsMix U M src) ∧
      (lossMixSvdSel σ U M src).2.2 * (lossMixSvdSel σ U M src).2.1 =
        Dist.mass (SimSpec.retained σ.cond (lossProbsMix U M src)) := by
  by_cases hp : SimSpec.physPerf σ.cond (lossProbsMix U M src) = 0
  · obtain ⟨h1, _, _, h4⟩ := loss_noisy_selection_nothing_passes σ U M src hw hnn hd hp
    exact ⟨by rw [h1, hp], h4⟩
  · obtain ⟨_, h2, h3⟩ := loss_noisy_selection_is_conditioning σ U M src hw hnn hd hp
    exact ⟨h3, by rw [h2, h3]; exact SimSpec.perf_product _ _ hp⟩

/-- non-vacuity of `loss_noisy_selection_nothing_passes`: the identity on one mode, the source emits one photon
with certainty, the caller's filter asks for two: the inner simulator drops the only input -/
example : (([((1 : ℚ), [1])] : List (ℚ × List ℕ)).map (·.1)).sum = 1 ∧
    Dist.mass (fullDist (1 : Matrix (Fin 1) (Fin 1) GQ) (prepareInput 1 1 [1])) = 1 ∧
    SimSpec.physPerf (⟨[], .tt, 2, false⟩ : Sel).cond
      (lossProbsMix (1 : Matrix (Fin 1) (Fin 1) GQ) 1 [((1 : ℚ), [1])]) = 0 := by
  refine ⟨by decide +kernel, by decide +kernel, by decide +kernel⟩

/-- **evolve_superposition_linear**: `LossSimulator.evolve` on a superposition input (any number of terms, any
complex coefficients, terms of different photon numbers allowed) is, contribution by contribution and in order,
the coefficient-weighted list of the contributions `evolve` accumulates for each Fock term alone: the coefficient
multiplies the amplitude, key and radicand are those of the Fock run.  Together with
`evolve_incoherent_eq_probs` (each Fock run's contributions are the amplitudes whose squared moduli `probs`
accumulates) this determines `evolve` on superpositions from the Fock theorems. -/
theorem evolve_superposition_linear {N : ℕ} (U : Matrix (Fin N) (Fin N) GQ) (M : ℕ)
    (inp : List (List ℕ × GQ)) :
    lossEvolve U M inp =
      inp.flatMap fun p => (lossEvolve U M [(p.1, 1)]).map fun e => (e.1, p.2 * e.2.1, e.2.2) := by
  induction inp with
  | nil => rfl
  | cons p r ih =>
    rw [List.flatMap_cons, ← ih]
    simp [lossEvolve, postprocessSV, evolveSV, List.flatMap_cons]

/-- **loss_channel_amplitude_composes**: C02's composition law instantiated on the rewritten list.  For every accepted
list that starts with a loss channel, the Fock amplitude of the WHOLE enlarged circuit (the three blocks the code
emits for the channel, then everything the code emits for the rest) from `S` to `T` is the sum over the
intermediate Fock states `u` of (amplitude of the channel's two-mode block on (channel mode, its fresh mode),
`S → u` — the operator of `channel_block_with_spectators` / `lc_thinning_with_spectators`) × (amplitude of the
rest of the rewritten list, `u → T`) / `∏ uᵢ!`.  Amplitudes, not probabilities, compose. -/
theorem loss_channel_amplitude_composes (N nfm r0 : ℕ) (c s : GQ) (rest : Items GQ)
    (h : WF N nfm ((r0, .lc c s) :: rest)) (S T : List ℕ) (hS : S.length = N) (hT : T.length = N)
    (hST : S.sum = T.sum) :
    Fock.pamp (prod N (rewrite nfm ((r0, .lc c s) :: rest))) S T =
      ((Fock.allStates N S.sum).map fun u =>
        Fock.pamp (prod N (rewrite (nfm + 1) rest)) u T * Fock.pamp (twoMode N r0 nfm (bsH c s)) S u *
          GQ.ofRat (1 / (Fock.prodFact u : ℚ))).sum := by
  rw [expanded_unitary N _ nfm h]
  simp only [spec, prod_cons]
  rw [← expanded_unitary N rest (nfm + 1) h.2.2]
  exact FockComp.pamp_mul_GQ _ _ S T hS hT hST

/-- the same recursion step for a list that starts with a unitary component: its embedded matrix first, then the
rest of the rewritten list (same fresh-mode counter).  With `FockComp.pamp_one` for the empty list the two steps
determine the amplitude of every rewritten list by recursion on the list. -/
theorem unitary_component_amplitude_composes (N nfm r0 k : ℕ) (V : Matrix (Fin k) (Fin k) GQ) (rest : Items GQ)
    (S T : List ℕ) (hS : S.length = N) (hT : T.length = N) (hST : S.sum = T.sum) :
    Fock.pamp (prod N (rewrite nfm ((r0, .uni k V) :: rest))) S T =
      ((Fock.allStates N S.sum).map fun u =>
        Fock.pamp (prod N (rewrite nfm rest)) u T * Fock.pamp (embed N r0 V) S u *
          GQ.ofRat (1 / (Fock.prodFact u : ℚ))).sum := by
  simp only [rewrite, prod_cons]
  exact FockComp.pamp_mul_GQ _ _ S T hS hT hST

/-- necessity of `hd` in `loss_selection_is_conditioning` -/
example : SimSpec.physPerf (⟨[], .tt, 0, false⟩ : Sel).cond (postprocess 1 [([0], 1/2)]) ≠ 0 ∧
    (lossPost ⟨[], .tt, 0, false⟩ 1 [([0], 1/2)]).2.2 ≠
      SimSpec.physPerf (⟨[], .tt, 0, false⟩ : Sel).cond (postprocess 1 [([0], 1/2)]) := by
  decide +kernel

/-- non-vacuity of `loss_selection_nothing_passes` -/
example : Dist.mass [([1, 0], (1 : ℚ))] = 1 ∧ Nonneg [([1, 0], (1 : ℚ))] ∧
    SimSpec.physPerf (⟨[], .tt, 2, false⟩ : Sel).cond (postprocess 1 [([1, 0], 1)]) = 0 := by
  refine ⟨by decide +kernel, ?_, by decide +kernel⟩
  intro p hp
  simp only [List.mem_singleton] at hp
  rw [hp]; norm_num

/-- the example program is accepted and its components are unitary -/
theorem exItems_ok : WF 6 3 exItems ∧ AllUnitary exItems := by
  refine ⟨by simp [exItems, WF], ?_⟩
  simp only [exItems, AllUnitary, and_true]
  refine ⟨?_, ?_, ?_, ?_⟩ <;> unfold IsUnitary <;> decide +kernel

/-- non-vacuity of `loss_noisy_selection_end_to_end`: program `exItems`, the emission-only source, selection `exSel` -/
example : (∀ q ∈ sourceDist (3/4) [1, 1, 0], q.2.length = 3) ∧
    ((sourceDist (3/4) [1, 1, 0]).map (·.1)).sum = 1 ∧
    (∀ ws ∈ sourceDist (3/4) [1, 1, 0], (0 : ℚ) ≤ ws.1) ∧
    Dist.mass (SimSpec.retained exSel.cond
      (lossProbsMix (prod 6 (rewrite 3 exItems)) 3 (sourceDist (3/4) [1, 1, 0]))) ≠ 0 := by
  refine ⟨sourceDist_length _ _, sourceDist_mass_one _ _, by decide +kernel, by decide +kernel⟩

/-- non-vacuity of `loss_detector_selection_end_to_end`: program `exItems`, threshold detectors on modes 0 and 1, none on
mode 2 (Mixed once padded), input `[1, 1, 0]`, selection `exSel` -/
example : ([DetK.thr, .thr, .none] : List DetK).length = 3 ∧ ([1, 1, 0] : List ℕ).length = 3 ∧
    exSel.minDet ≤ ([1, 1, 0] : List ℕ).sum ∧
    (∀ d ∈ [DetK.thr, .thr, .none], Stoch d.kern) ∧
    (∀ d ∈ [DetK.thr, .thr, .none], ∀ n, ∀ e ∈ d.kern n, (0 : ℚ) ≤ e.2) ∧
    detType (padDetectors 3 6 [.thr, .thr, .none]) ≠ .pnr ∧
    Dist.mass (SimSpec.retained exSel.cond
      (detectMarginal [.thr, .thr, .none] (prod 6 (rewrite 3 exItems)) 3 [1, 1, 0])) ≠ 0 := by
  refine ⟨rfl, rfl, by decide, ?_, ?_, by decide, by decide +kernel⟩
  · intro d hd
    simp only [List.mem_cons, List.not_mem_nil, or_false] at hd
    rcases hd with rfl | rfl | rfl
    · exact stoch_thr
    · exact stoch_thr
    · exact stoch_none
  · intro d hd n e he
    simp only [List.mem_cons, List.not_mem_nil, or_false] at hd
    rcases hd with rfl | rfl | rfl <;>
      (simp only [DetK.kern, List.mem_singleton] at he; rw [he]; norm_num)

end PM.C07
