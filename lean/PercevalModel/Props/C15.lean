/-
  C15 — property theorems (model: `Model/C15.lean`, main model = `Cfg.fixed`).
  Every theorem is for all objects / all nesting depths / all parameter kinds; the `…_on_current_code`
  theorems are witnesses that the code as found (`Cfg.current`) breaks the property.
-/
import PercevalModel.Lemmas.C15

namespace PM.C15

/-! ## Parameters, components, circuits nested to any depth -/

/-- One parameter (fixed / variable with or without value / expression over any sub-parameters)
survives `deserialize_parameter ∘ serialize_parameter` for every state of the name table that
agrees with the current bindings, and the table keeps agreeing. -/
theorem roundtrip_parameter {env : Env} (ev : String → List Sub → Dbl) (st : St) (h : Inv env st)
    (p : Param) (hp : p.WF env) :
    ∃ st', decodeParam st (encodeParam Cfg.fixed ev p) = some (p.norm.toDVal, st') ∧ Inv env st' :=
  decodeParam_encodeParam ev h p hp

mutual
  /-- Any component — elementary, `Unitary` with name and polarisation flag, permutation,
  barrier, or a sub-circuit nested to any depth — is rebuilt identically (up to `norm`) from
  what the writer emitted, whatever the name table already holds. -/
  theorem roundtrip_component {env : Env} (ev : String → List Sub → Dbl) :
      (c : Comp) → (st : St) → Inv env st → c.WF env →
        ∃ st', decType Cfg.fixed c.size (encType Cfg.fixed ev c) st = some (c.norm, st') ∧ Inv env st'
    | .leaf k ps, st, h, hw => by
      obtain ⟨st', e, h'⟩ := decLeaf_encode ev h k ps hw.1 hw.2
      exact ⟨st', by simp [encType, decType, e, Comp.norm], h'⟩
    | .perm p, st, h, hw => by
      have hp : isPerm p = true := hw
      exact ⟨st, by simp [encType, decType, hp, Comp.norm], h⟩
    | .unitary mat name up, st, h, hw => by
      have e := decUnitary_encode mat name up hw.1 hw.2.1 hw.2.2
      exact ⟨st, by simp [encType, decType, e, Comp.norm], h⟩
    | .pbs, st, h, _ => ⟨st, by simp [encType, decType, Comp.norm], h⟩
    | .barrier m v, st, h, _ => ⟨st, by simp [encType, decType, Comp.norm, Comp.size], h⟩
    | .circ m name items, st, h, hw => by
      obtain ⟨hm, hn, hi⟩ := hw
      obtain ⟨st', e, h'⟩ := roundtrip_items ev m items st h hi
      refine ⟨st', ?_, h'⟩
      have hk : Cfg.fixed.keepEmptyTable = true := rfl
      have hm' : m ≠ 0 := by omega
      simp only [encType, decType, hk, Bool.true_or, if_true, hm', if_false, e, Comp.norm]
      by_cases hc : name = "CPLX"
      · subst hc; simp
      · simp [hc, hn]
  /-- The component list of a circuit of size `m`. -/
  theorem roundtrip_items {env : Env} (ev : String → List Sub → Dbl) (m : Nat) :
      (items : Items) → (st : St) → Inv env st → items.WF env m →
        ∃ st', decItems Cfg.fixed m (encItems Cfg.fixed ev items) st = some (items.norm, st') ∧ Inv env st'
    | .nil, st, h, _ => ⟨st, by simp [encItems, decItems, Items.norm], h⟩
    | .cons off c rest, st, h, hw => by
      obtain ⟨hfit, hc, hr⟩ := hw
      obtain ⟨st1, e1, h1⟩ := roundtrip_component ev c st h hc
      obtain ⟨st2, e2, h2⟩ := roundtrip_items ev m rest st1 h1 hr
      refine ⟨st2, ?_, h2⟩
      have hpos : 0 < c.size := Comp.size_pos c hc
      simp only [encItems, decItems, e1, Comp.norm_size, hfit, hpos, and_self, if_true, e2,
        Items.norm]
end

/-- `deserialize_circuit(serialize_circuit(c))` / `deserialize(serialize(c))` for a circuit or a
bare unitary component (the writer wraps the latter into a one-component circuit): the result is
the same structure, names, parameters and values; and every variable name was constructed as a
`Parameter` object exactly once (`allocs.Nodup`), i.e. parameter identity — hence every shared
binding — is preserved. -/
theorem roundtrip_circuit {env : Env} (ev : String → List Sub → Dbl) (c : Comp)
    (hw : (wrap c).WF env) :
    ∃ st', decodeCircuit Cfg.fixed (encodeCircuit Cfg.fixed ev c) = some ((wrap c).norm, st')
      ∧ st'.allocs.Nodup ∧ (∀ k v, st'.tbl.lookup k = some v → env k = some v) := by
  obtain ⟨st', e, h'⟩ := roundtrip_component ev (wrap c) {} (Inv.empty env) hw
  refine ⟨st', ?_, by rw [h'.allocs_eq]; exact h'.nodup, h'.agrees⟩
  have hs : ∃ m n i, wrap c = .circ m n i := by
    cases c <;> simp [wrap]
  obtain ⟨m, n, i, hc⟩ := hs
  rw [hc] at e ⊢
  have hn : ∀ (a b : Nat) nm k cs, decType Cfg.fixed a (.circuit nm k cs) {} =
      decType Cfg.fixed b (.circuit nm k cs) {} := by
    intro a b nm k cs; simp only [decType]
  simp only [encodeCircuit, hc, decodeCircuit, encType] at e ⊢
  rw [hn 0 (Comp.circ m n i).size]
  exact e

/-- A numeric matrix of any shape `r × c` (`r, c > 0` … here stated for the square case the
`Unitary` component uses) is transported entry by entry. -/
theorem roundtrip_matrix (rows : List (List Cx)) (h : (Mat.num rows).WFnum) :
    decMat (encMat (.num rows)) = some (.num rows) :=
  decMat_encMat_num rows h

/-! ## Detectors, ports, heralds, noise model -/

/-- Every detector the constructors accept with `max_detections ≥ 1` (wires unset, wires set,
wires and cap set) and every beam-splitter-layer detector comes back identical:
`n_wires or None` / `max_detections or None` never hit a legitimate value. -/
theorem roundtrip_detector (d : Det) (h : d.WF) : decDet (encDet d) = some d := by
  cases d with
  | ppnr name l r =>
    have h' : 0 < l ∧ 0 ≤ r ∧ r ≤ 1 := h
    simp [encDet, decDet, h']
  | det name wires max =>
    cases wires with
    | none => have : max = none := h; subst this; simp [encDet, decDet]
    | some w =>
      obtain ⟨hw, k, hk, hk0, hkw⟩ := h
      subst hk
      have h1 : w ≠ 0 := by omega
      have h2 : k ≠ 0 := by omega
      simp [encDet, decDet, h1, h2, hkw, Nat.min_eq_left hkw]

/-- Ports and heralds (user-named or auto-named, expected value any). -/
theorem roundtrip_port (p : APort) (h : p.WF) : decPort (encPort p) = some p := by
  cases p with
  | port n e => rfl
  | herald v un =>
    cases un with
    | none => rfl
    | some s =>
      have : s ≠ "" := by intro e; subst e; exact h rfl
      simp [encPort, decPort, this]

/-- A noise model with any subset of its seven fields given — including fields given a falsy
value (`g2 = 0`, `g2_distinguishable = False`) — comes back with exactly the same fields. -/
theorem roundtrip_noise (n : Noise) : decNoise (encNoise n) = some n := by
  obtain ⟨a, b, c, d, e, f, g⟩ := n
  cases a <;> cases b <;> cases c <;> cases d <;> cases e <;> cases f <;> cases g <;> rfl

/-! ## Envelope, with and without compression -/

/-- `:PCVL:<tag>:<payload>` is split back into tag and payload, whatever the payload contains
(further `:` included), for both compression settings; compression is any invertible coding. -/
theorem envelope_roundtrip (z : Codec) (tag payload : Text) (doCompress : Bool)
    (h : tag ∈ knownTags) :
    openEnvelope z (handleCompression z (mkEnv tag payload) doCompress) = some (tag, payload) := by
  have hc := colon_not_in_known tag h
  cases doCompress with
  | true =>
    simp only [handleCompression, if_true, openEnvelope, isPrefixOf_append_self, List.drop_left,
      z.inv, Option.bind_some]
    exact parseEnv_mkEnv tag payload hc
  | false =>
    simp only [handleCompression, Bool.false_eq_true, if_false, openEnvelope,
      not_zip_of_known tag payload h]
    exact parseEnv_mkEnv tag payload hc

/-! ## Sample lists -/

/-- `deserialize_bssamples ∘ serialize_bssamples` is the identity on every list of samples
(any length, any repetition pattern, the empty list included). -/
theorem bssamples_roundtrip {σ} [DecidableEq σ] (l : List σ) : bssDecode (bssEncode l) = some l := by
  obtain ⟨ext, e1, e2, e3⟩ := bssGo_spec l []
  unfold bssDecode bssEncode
  cases l with
  | nil => simp [bssGo]
  | cons s rest =>
    have hne : (bssGo [] (s :: rest)).1 ≠ [] := by rw [e1]; exact e3 (by simp)
    have : (bssGo [] (s :: rest)).1.isEmpty = false := by
      cases hh : (bssGo [] (s :: rest)).1 with
      | nil => exact absurd hh hne
      | cons _ _ => rfl
    rw [this, e1]
    simpa using e2

/-! ## 1e-6 text precision -/

/-- `simple_float(v, nsimplify=False)` on `v = n/d`: the printed decimal `k / 10^(6+E)` is within
half a unit of its last digit, `|k/10^(6+E) − n/d| ≤ ½·10^-(6+E)` (stated without division);
`E = 0` unless the value is below `10^-3`, where seven significant digits are kept. -/
theorem grid_error (n d : Nat) (hd : 0 < d) :
    2 * (gridNum n d * d) ≤ 2 * (n * 10 ^ (6 + gridExp n d)) + d ∧
    2 * (n * 10 ^ (6 + gridExp n d)) ≤ 2 * (gridNum n d * d) + d :=
  roundHalfEven_err _ d hd

/-! ## Experiments -/

/-- A whole experiment: name, size, input, noise, post-selection (as tagged payloads), the
photon filter **including 0**, ports, heralds, detectors and the component list (nested circuits,
all parameter kinds, one name table shared by all components) survive. Heralds come back on both
sides from the input map (`Experiment.norm` spells out the resulting output-port list). -/
theorem roundtrip_experiment {env : Env} (ev : String → List Sub → Dbl) (x : Experiment)
    (h : x.WF env) :
    ∃ st', decExperiment Cfg.fixed (encExperiment Cfg.fixed ev x) = some (x.norm, st')
      ∧ st'.allocs.Nodup := by
  obtain ⟨st', e, h'⟩ := roundtrip_items ev x.nMode x.comps {} (Inv.empty env) h.comps
  refine ⟨st', ?_, by rw [h'.allocs_eq]; exact h'.nodup⟩
  obtain ⟨nm, hnm, hne⟩ := h.name
  have e1 := decOptText_enc x.input h.input
  have e2 := decOptText_enc x.noise h.noise
  have e3 := decOptText_enc x.postSelect h.postSelect
  have e4 := decAssoc_map encPort decPort x.inPorts (fun p hp => roundtrip_port p.2 (h.inPorts p hp).1)
  have e5 := decAssoc_map encPort decPort x.outPorts (fun p hp => roundtrip_port p.2 (h.outPorts p hp))
  have e6 := decAssoc_map encDet decDet x.detectors (fun p hp => roundtrip_detector p.2 (h.detectors p hp).1)
  have c1 : (x.detectors.all (·.1 < x.nMode)) = true := by
    simp only [List.all_eq_true, decide_eq_true_eq]
    exact fun p hp => (h.detectors p hp).2
  have c2 : (x.inPorts.all (fun p => !p.2.isHerald || p.2 matches .herald 0 _ || p.2 matches .herald 1 _)) = true := by
    simp only [List.all_eq_true]
    intro p hp
    have := (h.inPorts p hp).2
    cases hp2 : p.2 with
    | port _ _ => simp [APort.isHerald]
    | herald v u =>
      have hv := this v u hp2
      have : v = 0 ∨ v = 1 := by omega
      rcases this with rfl | rfl <;> simp [APort.isHerald]
  have hfil : (if (match x.filter with
        | some n => if Cfg.fixed.filterZero || n ≠ 0 then n else VALUE_NOT_SET
        | none => VALUE_NOT_SET) ≠ VALUE_NOT_SET
      then some (match x.filter with
        | some n => if Cfg.fixed.filterZero || n ≠ 0 then n else VALUE_NOT_SET
        | none => VALUE_NOT_SET) else none) = x.filter := by
    cases hx : x.filter with
    | none => simp
    | some n => simp [Cfg.fixed, h.filter n hx]
  simp only [decExperiment, encExperiment, e1, e2, e3, e4, e5, e6, e, hnm, Option.getD_some, hne,
    if_false, Experiment.norm]
  rw [if_pos ⟨c1, c2⟩, hfil]

end PM.C15
