/-
  C15 — property theorems (model: `Model/C15.lean`, main model = `Cfg.fixed`).
  Every theorem is for all objects / all nesting depths / all parameter kinds; the `…_on_current_code`
  theorems are witnesses that the code as found (`Cfg.current`) breaks the property.
-/
import PercevalModel.Lemmas.C15
import PercevalModel.Lemmas.C15FF
import PercevalModel.Lemmas.C15Text
import PercevalModel.Lemmas.C15PS
import PercevalModel.Lemmas.C15PSW
import PercevalModel.Lemmas.C15PSR
import PercevalModel.Lemmas.C15TextW
import PercevalModel.Lemmas.C15Tree
import PercevalModel.Lemmas.C15F32
import PercevalModel.Lemmas.C15Det
import PercevalModel.Lemmas.C15Noise

namespace PM.C15

/-! ## Parameters, components, circuits nested to any depth -/

/-- One parameter (fixed / variable with or without value / expression over any sub-parameters)
survives `deserialize_parameter ∘ serialize_parameter` for every state of the name table that
agrees with the current bindings, and the table keeps agreeing. -/
theorem roundtrip_parameter {env : Env} (ev : String → List Sub → Dbl) (st : St) (h : Inv env st)
    (p : Param) (hp : p.WF env) :
    ∃ st', decodeParam st (encodeParam Cfg.fixed ev p) = some (p.norm.toDVal, st') ∧ Inv env st' :=
  decodeParam_encodeParam ev h p hp

mutual
  /-- Any component — elementary, `Unitary` with name and polarisation flag, permutation,
  barrier, or a sub-circuit nested to any depth — is rebuilt identically (up to `norm`) from
  what the writer emitted, whatever the name table already holds. -/
  theorem roundtrip_component {env : Env} (ev : String → List Sub → Dbl) :
      (c : Comp) → (st : St) → Inv env st → c.WF env →
        ∃ st', decType Cfg.fixed c.size (encType Cfg.fixed ev c) st = some (c.norm, st') ∧ Inv env st'
    | .leaf k ps, st, h, hw => by
      obtain ⟨st', e, h'⟩ := decLeaf_encode ev h k ps hw.1 hw.2
      exact ⟨st', by simp [encType, decType, e, Comp.norm], h'⟩
    | .perm p, st, h, hw => by
      have hp : isPerm p = true := hw
      exact ⟨st, by simp [encType, decType, hp, Comp.norm], h⟩
    | .unitary mat name up, st, h, hw => by
      have e := decUnitary_encode mat name up hw.1 hw.2.1 hw.2.2
      exact ⟨st, by simp [encType, decType, e, Comp.norm], h⟩
    | .pbs, st, h, _ => ⟨st, by simp [encType, decType, Comp.norm], h⟩
    | .barrier m v, st, h, _ => ⟨st, by simp [encType, decType, Comp.norm, Comp.size], h⟩
    | .circ m name items, st, h, hw => by
      obtain ⟨hm, hn, hi⟩ := hw
      obtain ⟨st', e, h'⟩ := roundtrip_items ev m items st h hi
      refine ⟨st', ?_, h'⟩
      have hk : Cfg.fixed.keepEmptyTable = true := rfl
      have hm' : m ≠ 0 := by omega
      have hnd : (st'.allocs.take (st'.allocs.length - st.allocs.length)).Nodup := by
        have : st'.allocs.Nodup := by rw [h'.allocs_eq]; exact h'.nodup
        exact this.sublist (List.take_sublist _ _)
      simp only [encType, decType, hk, Bool.true_or, if_true, hm', if_false, e, hnd, Comp.norm]
      by_cases hc : name = "CPLX"
      · subst hc; simp
      · simp [hc, hn]
  /-- The component list of a circuit of size `m`. -/
  theorem roundtrip_items {env : Env} (ev : String → List Sub → Dbl) (m : Nat) :
      (items : Items) → (st : St) → Inv env st → items.WF env m →
        ∃ st', decItems Cfg.fixed m (encItems Cfg.fixed ev items) st = some (items.norm, st') ∧ Inv env st'
    | .nil, st, h, _ => ⟨st, by simp [encItems, decItems, Items.norm], h⟩
    | .cons off c rest, st, h, hw => by
      obtain ⟨hfit, hc, hr⟩ := hw
      obtain ⟨st1, e1, h1⟩ := roundtrip_component ev c st h hc
      obtain ⟨st2, e2, h2⟩ := roundtrip_items ev m rest st1 h1 hr
      refine ⟨st2, ?_, h2⟩
      have hpos : 0 < c.size := Comp.size_pos c hc
      simp only [encItems, decItems, e1, Comp.norm_size, hfit, hpos, and_self, if_true, e2,
        Items.norm]
end

/-- `deserialize_circuit(serialize_circuit(c))` / `deserialize(serialize(c))` for a circuit or a
bare unitary component (the writer wraps the latter into a one-component circuit): the result is
the same structure, names, parameters and values; and every variable name was constructed as a
`Parameter` object exactly once (`allocs.Nodup`), i.e. parameter identity — hence every shared
binding — is preserved. -/
theorem roundtrip_circuit {env : Env} (ev : String → List Sub → Dbl) (c : Comp)
    (hw : (wrap c).WF env) :
    ∃ st', decodeCircuit Cfg.fixed (encodeCircuit Cfg.fixed ev c) = some ((wrap c).norm, st')
      ∧ st'.allocs.Nodup ∧ (∀ k v, st'.tbl.lookup k = some v → env k = some v) := by
  obtain ⟨st', e, h'⟩ := roundtrip_component ev (wrap c) {} (Inv.empty env) hw
  refine ⟨st', ?_, by rw [h'.allocs_eq]; exact h'.nodup, h'.agrees⟩
  have hs : ∃ m n i, wrap c = .circ m n i := by
    cases c <;> simp [wrap]
  obtain ⟨m, n, i, hc⟩ := hs
  rw [hc] at e ⊢
  have hn : ∀ (a b : Nat) nm k cs, decType Cfg.fixed a (.circuit nm k cs) {} =
      decType Cfg.fixed b (.circuit nm k cs) {} := by
    intro a b nm k cs; simp only [decType]
  simp only [encodeCircuit, hc, decodeCircuit, encType] at e ⊢
  rw [hn 0 (Comp.circ m n i).size]
  exact e

/-- A numeric or symbolic matrix of any rectangular shape (at least one row and one column) is
transported entry by entry, in place (the writer emits rows, the reader fills rows). -/
theorem roundtrip_matrix (m : Mat) (h : m.WFrect) : decMat (encMat m) = some m :=
  decMat_encMat_rect m h

example : (Mat.sym [["a", "b", "e"], ["c", "d", "f"]]).WFrect :=
  ⟨by simp, 3, by decide, by intro r hr; simp at hr; rcases hr with rfl | rfl <;> rfl⟩

/-! ## Detectors, ports, heralds, noise model -/

/-- Every detector the constructors accept with `max_detections ≥ 1` (wires unset, wires set,
wires and cap set) and every beam-splitter-layer detector comes back identical:
`n_wires or None` / `max_detections or None` never hit a legitimate value. -/
theorem roundtrip_detector (d : Det) (h : d.WF) : decDet (encDet d) = some d := by
  cases d with
  | ppnr name l r =>
    have h' : 0 < l ∧ 0 ≤ r ∧ r ≤ 1 := h
    simp [encDet, decDet, h']
  | det name wires max =>
    cases wires with
    | none => have : max = none := h; subst this; simp [encDet, decDet]
    | some w =>
      obtain ⟨hw, k, hk, hk0, hkw⟩ := h
      subst hk
      have h1 : w ≠ 0 := by omega
      have h2 : k ≠ 0 := by omega
      simp [encDet, decDet, h1, h2, hkw, Nat.min_eq_left hkw]

/-- Ports and heralds (user-named or auto-named, expected value any). -/
theorem roundtrip_port (p : APort) (h : p.WF) : decPort (encPort p) = some p := by
  cases p with
  | port n e => rfl
  | herald v un =>
    cases un with
    | none => rfl
    | some s =>
      have : s ≠ "" := by intro e; subst e; exact h rfl
      simp [encPort, decPort, this]

/-- A noise model with any subset of its seven fields given — including fields given a falsy
value (`g2 = 0`, `g2_distinguishable = False`) — comes back with exactly the same fields. -/
theorem roundtrip_noise (n : Noise) : decNoise (encNoise n) = some n := by
  obtain ⟨a, b, c, d, e, f, g⟩ := n
  cases a <;> cases b <;> cases c <;> cases d <;> cases e <;> cases f <;> cases g <;> rfl

/-! ## Envelope, with and without compression -/

/-- `:PCVL:<tag>:<payload>` is split back into tag and payload, whatever the payload contains
(further `:` included), for both compression settings; compression is any invertible coding. -/
theorem envelope_roundtrip (z : Codec) (tag payload : Text) (doCompress : Bool)
    (h : tag ∈ knownTags) :
    openEnvelope z (handleCompression z (mkEnv tag payload) doCompress) = some (tag, payload) := by
  have hc := colon_not_in_known tag h
  cases doCompress with
  | true =>
    simp only [handleCompression, if_true, openEnvelope, isPrefixOf_append_self, List.drop_left,
      z.inv, Option.bind_some]
    exact parseEnv_mkEnv tag payload hc
  | false =>
    simp only [handleCompression, Bool.false_eq_true, if_false, openEnvelope,
      not_zip_of_known tag payload h]
    exact parseEnv_mkEnv tag payload hc

/-! ## Sample lists -/

/-- `deserialize_bssamples ∘ serialize_bssamples` is the identity on every list of samples
(any length, any repetition pattern, the empty list included). -/
theorem bssamples_roundtrip {σ} [DecidableEq σ] (l : List σ) : bssDecode (bssEncode l) = some l := by
  obtain ⟨ext, e1, e2, e3⟩ := bssGo_spec l []
  unfold bssDecode bssEncode
  cases l with
  | nil => simp [bssGo]
  | cons s rest =>
    have hne : (bssGo [] (s :: rest)).1 ≠ [] := by rw [e1]; exact e3 (by simp)
    have : (bssGo [] (s :: rest)).1.isEmpty = false := by
      cases hh : (bssGo [] (s :: rest)).1 with
      | nil => exact absurd hh hne
      | cons _ _ => rfl
    rw [this, e1]
    simpa using e2

/-! ## 1e-6 text precision -/

/-- `simple_float(v, nsimplify=False)` on `v = n/d`: the printed decimal `k / 10^(6+E)` is within
half a unit of its last digit, `|k/10^(6+E) − n/d| ≤ ½·10^-(6+E)` (stated without division);
`E = 0` unless the value is below `10^-3`, where seven significant digits are kept. -/
theorem grid_error (n d : Nat) (hd : 0 < d) :
    2 * (gridNum n d * d) ≤ 2 * (n * 10 ^ (6 + gridExp n d)) + d ∧
    2 * (n * 10 ^ (6 + gridExp n d)) ≤ 2 * (gridNum n d * d) + d :=
  roundHalfEven_err _ d hd

/-! ## Experiments -/

/-- A whole experiment: name, size, input, noise, post-selection (as tagged payloads), the
photon filter **including 0**, ports, heralds, detectors and the component list (nested circuits,
all parameter kinds, one name table shared by all components) survive. Heralds come back on both
sides from the input map (`Experiment.norm` spells out the resulting output-port list). -/
theorem roundtrip_experiment {env : Env} (ev : String → List Sub → Dbl) (x : Experiment)
    (h : x.WF env) :
    ∃ st', decExperiment Cfg.fixed (encExperiment Cfg.fixed ev x) = some (x.norm, st')
      ∧ st'.allocs.Nodup := by
  obtain ⟨st', e, h'⟩ := roundtrip_items ev x.nMode x.comps {} (Inv.empty env) h.comps
  refine ⟨st', ?_, by rw [h'.allocs_eq]; exact h'.nodup⟩
  obtain ⟨nm, hnm, hne⟩ := h.name
  have e1 := decOptText_enc x.input h.input
  have e2 := decOptText_enc x.noise h.noise
  have e3 := decOptText_enc x.postSelect h.postSelect
  have e4 := decAssoc_map encPort decPort x.inPorts (fun p hp => roundtrip_port p.2 (h.inPorts p hp).1)
  have e5 := decAssoc_map encPort decPort x.outPorts (fun p hp => roundtrip_port p.2 (h.outPorts p hp))
  have e6 := decAssoc_map encDet decDet x.detectors (fun p hp => roundtrip_detector p.2 (h.detectors p hp).1)
  have c1 : (x.detectors.all (·.1 < x.nMode)) = true := by
    simp only [List.all_eq_true, decide_eq_true_eq]
    exact fun p hp => (h.detectors p hp).2
  have c2 : (x.inPorts.all (fun p => !p.2.isHerald || p.2 matches .herald 0 _ || p.2 matches .herald 1 _)) = true := by
    simp only [List.all_eq_true]
    intro p hp
    have := (h.inPorts p hp).2
    cases hp2 : p.2 with
    | port _ _ => simp [APort.isHerald]
    | herald v u =>
      have hv := this v u hp2
      have : v = 0 ∨ v = 1 := by omega
      rcases this with rfl | rfl <;> simp [APort.isHerald]
  simp only [decExperiment, encExperiment, e1, e2, e3, e4, e5, e6, e, hnm, Option.getD_some, hne,
    if_false, Experiment.norm]
  rw [if_pos ⟨c1, c2⟩]
  have hfz := h.filter
  cases hx : x.filter with
  | none => simp
  | some n =>
    have hn := hfz n hx
    simp [Cfg.fixed, hn]

/-! ## Every overload of `serialize` takes `compress=` -/

/-- `serialize(x, compress=b)` is accepted for every tag — hence also inside `serialize(dict)`,
`serialize(list)` and `serialize_to_file`, which forward `compress=`. -/
theorem compress_keyword_uniform (tag : Text) (_h : tag ∈ knownTags) : kwAccepted false tag = true := by
  simp [kwAccepted, compressKeyword]

/-! ## Witnesses: the code as found (`Cfg.current`, `encMatAsFound`, `kwAccepted true`) breaks the property -/

/-- non-vacuity of the hypotheses used below -/
def envNone : Env := fun _ => none
def envPhi : Env := fun n => if n = "phi" then some none else none
def envA : Env := fun n => if n = "a" then some (some 3) else none
def ev1 : String → List Sub → Dbl := fun _ _ => 1

/-- a polarised, named `Unitary` on one spatial mode (a 2×2 matrix) -/
def witUnitary : Comp := .unitary (.num [[(1, 0), (0, 0)], [(0, 0), (1, 0)]]) "foo" true

set_option linter.defProp false in
def witUnitary_wf : (wrap witUnitary).WF envNone := by
  refine ⟨by decide, by decide, ?_, ?_, trivial⟩
  · decide
  · refine ⟨⟨by decide, ?_⟩, by decide, fun _ => by decide⟩
    intro r hr; simp at hr; rcases hr with rfl | rfl <;> rfl

/-- `deserialize_unitary` drops `name` and `use_polarization`: the rebuilt component is twice as
large as its slot and `Circuit.add` refuses it (the `AssertionError` seen on the real code). -/
theorem roundtrip_circuit_fails_on_current_code_unitary :
    decodeCircuit Cfg.current (encodeCircuit Cfg.current ev1 witUnitary) = none := by decide

/-- the same object on the repaired model -/
example : ∃ st, decodeCircuit Cfg.fixed (encodeCircuit Cfg.fixed ev1 witUnitary) = some ((wrap witUnitary).norm, st) :=
  ⟨_, rfl⟩

/-- an experiment whose only setting is `min_detected_photons_filter(0)` -/
def witFilter : Experiment :=
  { name := some "Experiment", nMode := 1, input := none, noise := none, postSelect := none,
    filter := some 0, inPorts := [], outPorts := [], detectors := [], comps := .nil }

set_option linter.defProp false in
def witFilter_wf : witFilter.WF envNone where
  name := ⟨_, rfl, by decide⟩
  input := by intro p h; cases h
  noise := by intro p h; cases h
  postSelect := by intro p h; cases h
  filter := by intro n h; cases h; decide
  inPorts := by intro p h; cases h
  outPorts := by intro p h; cases h
  detectors := by intro p h; cases h
  comps := trivial

/-- `if experiment.min_photons_filter:` writes the not-set sentinel for a filter of 0: it is `None`
after the round trip. -/
theorem roundtrip_experiment_fails_on_current_code_filter :
    (decExperiment Cfg.current (encExperiment Cfg.current ev1 witFilter)).map (·.1.filter) = some none := by
  decide

example : (decExperiment Cfg.fixed (encExperiment Cfg.fixed ev1 witFilter)).map (·.1.filter) = some (some 0) := by
  decide

/-- a variable first met inside a nested sub-circuit and used again outside it -/
def witShared : Comp :=
  .circ 2 "CPLX"
    (.cons 0 (.circ 2 "sub" (.cons 0 (.leaf .ps [.var "phi" none, .fixed 0]) .nil))
    (.cons 1 (.leaf .ps [.var "phi" none, .fixed 0]) .nil))

set_option linter.defProp false in
def witShared_wf : witShared.WF envPhi := by
  have hp : ∀ p ∈ [Param.var "phi" none, Param.fixed 0], p.WF envPhi := by
    intro p hp; simp at hp; rcases hp with rfl | rfl
    · exact ⟨by decide, rfl⟩
    · trivial
  exact ⟨by decide, by decide, by decide, ⟨by decide, by decide, by decide, ⟨rfl, hp⟩, trivial⟩,
    by decide, ⟨rfl, hp⟩, trivial⟩

/-- `params or dict()` hands the sub-circuit a private table while the shared one is still empty:
`phi` is constructed twice and `Circuit.add` raises "two parameters with the same name". -/
theorem roundtrip_circuit_fails_on_current_code_shared_table :
    decodeCircuit Cfg.current (encodeCircuit Cfg.current ev1 witShared) = none := by decide

example : (decodeCircuit Cfg.fixed (encodeCircuit Cfg.fixed ev1 witShared)).map (·.2.allocs) = some ["phi"] := by
  decide

/-- `PS(Expression("2*a", {a}))` with `a = 3` -/
def witExpr : Comp := .leaf .ps [.expr "2*a" [⟨"a", false, some 3⟩], .fixed 0]

set_option linter.defProp false in
def witExpr_wf : (wrap witExpr).WF envA := by
  refine ⟨by decide, by decide, by decide, ⟨rfl, ?_⟩, trivial⟩
  intro p hp; simp at hp; rcases hp with rfl | rfl
  · refine ⟨by decide, ?_⟩
    intro s hs; simp at hs; subst hs
    exact ⟨by decide, rfl, by intro h; cases h⟩
  · trivial

/-- `if param.defined:` is tested before `_is_expression`: an expression whose sub-parameters have
values is written as a plain number named `2*a`, and comes back as an independent `Parameter` —
the binding to `a` is lost. -/
theorem roundtrip_circuit_fails_on_current_code_expression :
    (decodeCircuit Cfg.current (encodeCircuit Cfg.current ev1 witExpr)).map (·.1.params)
      = some [.var "2*a" (some 1), .fixed 0] := by decide

example : (decodeCircuit Cfg.fixed (encodeCircuit Cfg.fixed ev1 witExpr)).map (·.1.params)
    = some (wrap witExpr).norm.params := by decide

/-- one expression in two slots of one component -/
def witExpr2 : Comp :=
  .leaf (.bs .rx) [.expr "2*a" [⟨"a", false, none⟩], .expr "2*a" [⟨"a", false, none⟩], .fixed 0, .fixed 0, .fixed 0]

/-- the reader builds a new `Expression` object per slot; the component constructor refuses two
objects with one name. -/
theorem roundtrip_circuit_fails_on_current_code_expression_twice :
    decodeCircuit Cfg.current (encodeCircuit Cfg.current ev1 witExpr2) = none := by decide

example : (decodeCircuit Cfg.fixed (encodeCircuit Cfg.fixed ev1 witExpr2)).map (·.1.params)
    = some (wrap witExpr2).norm.params := by decide

/-- `serialize_matrix` walks a symbolic matrix with `m.vec()` (columns) while the reader fills
rows: a symbolic matrix comes back transposed (rectangular ones scrambled). -/
theorem roundtrip_matrix_fails_on_current_code_symbolic :
    decMat (encMatAsFound (.sym [["a", "b"], ["c", "d"]])) = some (.sym [["a", "c"], ["b", "d"]]) := by
  decide

/-- `serialize(detector, compress=…)` raises `TypeError` as found. -/
theorem compress_keyword_fails_on_current_code :
    kwAccepted true "Detector".toList = false ∧ kwAccepted true "BSLayeredDetector".toList = false := by
  decide

/-! ## Non-vacuity of the hypotheses of the theorems above -/

example := roundtrip_circuit ev1 witUnitary witUnitary_wf
example := roundtrip_circuit ev1 witShared witShared_wf
example := roundtrip_circuit ev1 witExpr witExpr_wf
example := roundtrip_component ev1 (wrap witExpr) {} (Inv.empty envA) witExpr_wf
example := roundtrip_experiment ev1 witFilter witFilter_wf
example := roundtrip_parameter ev1 {} (Inv.empty envPhi) (.var "phi" none) ⟨by decide, rfl⟩
example : (Det.det "PNR" none none).WF := rfl
example : (Det.det "thr" (some 3) (some 2)).WF := ⟨by decide, 2, rfl, by decide, by decide⟩
example : (Det.ppnr "BS-PPNR2" 2 0).WF := by
  show 0 < 2 ∧ (0 : Dbl) ≤ 0 ∧ (0 : Dbl) ≤ 1
  decide
example : (APort.herald 1 (some "anc")).WF := by
  show some "anc" ≠ some ""
  decide
example : (APort.herald 0 none).WF := by
  show (none : Option String) ≠ some ""
  decide
example : "Detector".toList ∈ knownTags := by decide
example := grid_error 1 3 (by decide)

/-! ## Feed-forward circuit providers (`Model/C15FF.lean`) -/

namespace FF

variable {κ α β : Type} [DecidableEq κ]

/-- Every history of `add_configuration` / `block_circuit_size` calls on a new provider that runs without
raising and never assigns a key twice leaves an object whose `_max_circuit_size` is the largest size among
its default and configured circuits, with distinct keys.  (`Experiment.add`, which blocks the size, is one
of the calls.) -/
theorem reachable_good (size : α → Nat) (m : Nat) (offset : Int) (name : String) (d : α)
    (ops : List (Op κ α)) (hn : (addKeys ops).Nodup) (p : Prov κ α)
    (h : runOps size (Prov.new size m offset name d) ops = some p) : Good size p :=
  runOps_good size ops _ p (good_new size m offset name d) (fun _ _ hk => nomatch hk) hn h

/-- A provider in that state — blocked or not, configured circuits smaller or larger than the default one,
whatever order the protobuf map hands the entries back in — is rebuilt by the reader as the same object up
to the order of its dict: same name, offset, default circuit, blocked flag, maximal size and entries; in
particular the reader never raises.  The codec of the payloads is the one of `roundtrip_circuit` /
`roundtrip_experiment` (hypotheses `hdef`, `hpay`). -/
theorem roundtrip_provider (size : α → Nat) (enc : α → β) (dec : β → Option α) (p : Prov κ α)
    (hg : Good size p) (hname : p.name ≠ "") (hdef : dec (enc p.default) = some p.default)
    (hpay : ∀ e ∈ p.map, dec (enc e.2) = some e.2) (wire : List (κ × α)) (hw : wire.Perm p.map) :
    ∃ q, decProv dec size false p.m (encProv enc p wire) = some q ∧ Equiv q p := by
  have hnd : (keys wire).Nodup := ((hw.map Prod.fst).nodup_iff).2 hg.nodup
  obtain ⟨q, hq, hqm, hqb, h1, h2, h3, h4, h5⟩ :=
    readAll_unblocked (size := size) (enc := enc) (dec := dec) wire
      (Prov.new size p.m p.offset p.name p.default) rfl (fun e he => hpay e (hw.mem_iff.1 he)) hnd
      (fun _ _ hk => nomatch hk) (isMax_new size p.default)
  have hqm' : q.map = wire := by rw [hqm]; rfl
  have hmax : q.maxSize = p.maxSize := by
    refine isMax_unique (l := q.map) (l' := p.map) h5 ?_ (fun e => ?_)
    · rw [h4]; exact hg.isMax
    · rw [hqm']; exact hw.mem_iff
  refine ⟨if p.blocked then { q with blocked := true } else q, ?_, ?_⟩
  · rw [decProv_false dec size p.m (encProv enc p wire) p.default hdef]
    show (readAll dec size (Prov.new size p.m p.offset (if p.name = "" then "FFC" else p.name) p.default)
      (wire.map fun e => (e.1, enc e.2))).map (fun q => if p.blocked then { q with blocked := true } else q) = _
    rw [if_neg hname, hq]; rfl
  · cases hb : p.blocked
    · simp only [Bool.false_eq_true, if_false]
      exact ⟨h1, h2, h3, h4, hmax, hqb.trans hb.symm, hqm' ▸ hw⟩
    · simp only [if_true]
      exact ⟨h1, h2, h3, h4, hmax, hb.symm, hqm' ▸ hw⟩

/-- The two together: build a provider by any history of calls without a re-assigned key (name not empty),
serialise it, read it back — the reader returns the same provider. -/
theorem roundtrip_provider_history (size : α → Nat) (enc : α → β) (dec : β → Option α)
    (hcodec : ∀ c, dec (enc c) = some c) (m : Nat) (offset : Int) (name : String) (hname : name ≠ "") (d : α)
    (ops : List (Op κ α)) (hn : (addKeys ops).Nodup) (p : Prov κ α)
    (h : runOps size (Prov.new size m offset name d) ops = some p) (hpn : p.name = name)
    (wire : List (κ × α)) (hw : wire.Perm p.map) :
    ∃ q, decProv dec size false p.m (encProv enc p wire) = some q ∧ Equiv q p :=
  roundtrip_provider size enc dec p (reachable_good size m offset name d ops hn p h) (hpn ▸ hname)
    (hcodec _) (fun _ _ => hcodec _) wire hw

/-! ### why the order of the reader matters, and where the property stops -/

/-- default circuit of 1 mode, one configured circuit of 2 modes, then blocked (what `Experiment.add` leaves) -/
def witFrozen : Option (Prov Nat Nat) := runOps id (Prov.new id 1 0 "provider" 1) [.add 1 2, .block]

example : witFrozen.map (fun p => (p.maxSize, p.blocked, p.map)) = some (2, true, [(1, 2)]) := rfl

/-- A reader that restores the blocked flag before it re-adds the configured circuits raises on that
provider (regression witness: seeded change C15-4)… -/
theorem reader_flag_first_fails :
    (witFrozen.bind fun p => decProv some id true p.m (encProv id p p.map)) = none := rfl

/-- …while the reader of the code rebuilds it. -/
example : (witFrozen.bind fun p => decProv some id false p.m (encProv id p p.map)).map
    (fun p => (p.maxSize, p.blocked, p.map)) = some (2, true, [(1, 2)]) := rfl

example : ∃ p, witFrozen = some p ∧ Good id p :=
  ⟨_, rfl, reachable_good id 1 0 "provider" 1 [.add 1 2, .block] (by decide) _ rfl⟩

/-- Outside `Good`: a key assigned twice, the second time with a smaller circuit, keeps the old maximal size
in the object; the maximal size is not written, so the round trip returns a provider with a smaller one.
(Boundary of the property on the code as it is; such histories are excluded from the generator.) -/
theorem replaced_key_loses_max :
    let p := runOps id (Prov.new id 1 (-1) "p" 1 : Prov Nat Nat) [.add 1 3, .add 1 2]
    p.map (fun p => (p.maxSize, p.map)) = some (3, [(1, 2)]) ∧
    (p.bind fun p => decProv some id false p.m (encProv id p p.map)).map (fun p => (p.maxSize, p.map))
      = some (2, [(1, 2)]) := ⟨rfl, rfl⟩

end FF

/-! ## Text formats (`Model/C15Text.lean`): numbers, Fock states with annotations, state vectors, distributions,
sample lists — writer and reader as functions on character lists -/

namespace Txt

/-- `float(simple_float(v, nsimplify=False)[1])`: the text of any double reads back as the decimal on the grid … -/
theorem roundtrip_number (v : Dbl) : parseNum (renderNum (gnumOf v)) = some (gridVal v) :=
  parseNum_renderNum _

/-- … which is within half a unit of the last digit kept: `|gridVal v − v| ≤ ½·10^-(6+E)`, `E = 0` unless
`|v| < 10^-3` (seven significant digits then).  This is the "1e-6 text precision" of the property. -/
theorem number_precision (v : Dbl) :
    |gridVal v - v| ≤ 1 / (2 * (10 : Dbl) ^ (6 + gridExp v.num.natAbs v.den)) :=
  gridVal_error v

/-- `BasicState(str(s)) = s` for every Fock state: any number of modes (zero included), any photon numbers, photons
with annotations (several tags per photon, natural-number values up to 2^24 or polarisation letters), groups of
equal photons written with a count, annotated and plain photons mixed in one mode. -/
theorem roundtrip_state (s : FState) (h : FState.WF s = true) : decodeState (encodeState s) = some s :=
  decodeState_encodeState s h

/-- BSDistribution: the states come back exactly (as a dict: same keys, same order), every probability as its
decimal on the grid; the empty distribution included. -/
theorem roundtrip_bsdistribution (d : List (FState × Dbl)) (hw : ∀ e ∈ d, FState.WF e.1 = true)
    (hn : (d.map Prod.fst).Nodup) (hm : uniform (d.map (·.1.length)) = true) :
    decodeBSD (encodeBSD d) = some (d.map fun e => (e.1, gridVal e.2)) :=
  decodeBSD_encodeBSD d hw hn hm

/-- BSCount: exact. -/
theorem roundtrip_bscount (d : List (FState × Nat)) (hw : ∀ e ∈ d, FState.WF e.1 = true)
    (hn : (d.map Prod.fst).Nodup) : decodeBSC (encodeBSC d) = some d :=
  decodeBSC_encodeBSC d hw hn

/-- StateVector: the terms in writing order, every amplitude (real and imaginary part) as its decimal on the grid.
(The reader adds the terms up; the native vector drops a term whose squared modulus is not above 1e-12 and
normalises lazily: outside the model, see the manifest.) -/
theorem roundtrip_statevector (sv : List Term) (hne : sv ≠ []) (hw : ∀ t ∈ sv, FState.WF t.2.2 = true)
    (hm : uniform (sv.map (·.2.2.length)) = true) :
    decodeSV (encodeSV sv) = some (sv.map roundTerm) :=
  decodeSV_encodeSV sv hne hw hm

/-- SVDistribution: every key as above, every probability on the grid; keys that print differently stay apart. -/
theorem roundtrip_svdistribution (d : List (List Term × Dbl)) (hne : ∀ e ∈ d, e.1 ≠ [])
    (hw : ∀ e ∈ d, ∀ t ∈ e.1, FState.WF t.2.2 = true)
    (hm : ∀ e ∈ d, uniform (e.1.map (·.2.2.length)) = true) (hmm : uniform (d.map (svModes ·.1)) = true)
    (hn : (d.map fun e => e.1.map roundTerm).Nodup) :
    decodeSVD (encodeSVD d) = some (d.map fun e => (e.1.map roundTerm, gridVal e.2)) :=
  decodeSVD_encodeSVD d hne hw hm hmm hn

/-- BSSamples down to the characters: dictionary + index coding (`bssamples_roundtrip`) composed with the text layer
(`;`-joined states, `/`, `;`-joined indices): any list of samples, any repetition pattern, the empty list. -/
theorem roundtrip_bssamples_text (l : List FState) (hw : ∀ s ∈ l, FState.WF s = true) :
    decodeBSS (encodeBSS l) = some l := by
  unfold decodeBSS encodeBSS
  rw [decodeBSSText_encode l hw]
  exact bssamples_roundtrip l

/-! non-vacuity: a two-mode state with a counted group, a two-tag photon, a polarised photon and plain photons -/
def witState : FState :=
  [⟨[⟨2, [("_".toList, "1".toList)]⟩, ⟨1, [("a".toList, "1".toList), ("b".toList, "2".toList)]⟩], 3⟩,
   ⟨[⟨1, [("P".toList, "H".toList)]⟩], 0⟩]

example : FState.WF witState = true := by decide
example : encodeState witState = "|2{_:1}{a:1,b:2}3,{P:H}>".toList := by decide
example := roundtrip_state witState (by decide)
example := roundtrip_bsdistribution [(witState, 1 / 3)] (by decide) (by decide) (by decide)
example := roundtrip_statevector [(1 / 2, -1 / 3, witState)] (by decide) (by decide) (by decide)
example := roundtrip_bssamples_text [witState, witState] (by decide)

/-- the reader sorts and merges what a user writes in any order -/
example : decodeState "|{a:1,b:2}{_:1}{_:1}3,{P:H}>".toList = some witState := by decide

/-- boundary: the empty state vector has no text the reader accepts -/
theorem empty_statevector_not_readable : decodeSV (encodeSV []) = none := by decide

/-- WAVE 7.  The hypothesis `hn` of `roundtrip_svdistribution` (the keys stay distinct AFTER rounding to the grid) is
necessary: `0.6|1,0>+0.8|0,1>` (probability 1/2) and `(0.6+1e-8)|1,0>+0.8|0,1>` (probability 1/4) are two distinct
keys that satisfy every other hypothesis, print identically, and the reader's dict assignment keeps one key with the
last probability — the conclusion of the theorem fails. -/
theorem roundtrip_svdistribution_needs_distinct_rounded_keys :
    ((∀ e ∈ witSVD, e.1 ≠ []) ∧ (∀ e ∈ witSVD, ∀ t ∈ e.1, FState.WF t.2.2 = true) ∧
      (∀ e ∈ witSVD, uniform (e.1.map (·.2.2.length)) = true) ∧
      uniform (witSVD.map (svModes ·.1)) = true ∧ (witSVD.map Prod.fst).Nodup ∧
      ¬ (witSVD.map fun e => e.1.map roundTerm).Nodup) ∧
    decodeSVD (encodeSVD witSVD) = some witSVDRead ∧
    decodeSVD (encodeSVD witSVD) ≠ some (witSVD.map fun e => (e.1.map roundTerm, gridVal e.2)) :=
  ⟨witSVD_hyps, witSVD_read, witSVD_collapses⟩

end Txt

/-! ## Post-selection expressions (`Model/C15PS.lean`) -/

namespace PS

/-- `PostSelect(text)` reads back exactly the expression the (repaired) writer printed: all comparators, the three
operators with any number of operands, negations in every position, any nesting depth. -/
theorem roundtrip_postselect (x : Option Expr) (h : ∀ e, x = some e → e.WF) :
    parseTop (printTop true x) = some x :=
  parseTop_printTop_fixed x h

/-- … hence the same predicate on every state. -/
theorem roundtrip_postselect_meaning (x : Option Expr) (h : ∀ e, x = some e → e.WF) (st : List Nat) :
    (parseTop (printTop true x)).map (fun y => evalTop y st) = some (evalTop x st) :=
  eval_roundtrip_fixed x h st

/-- The writer as found (`str(ps)`, no parentheses around a negation) is correct on the expressions in which no
negation is a non-last operand … -/
theorem roundtrip_postselect_asfound_partial (x : Expr) (hw : x.WF) (hn : x.NotLastFree) :
    parse (print false x) = some x :=
  parse_print_asfound_partial x hw hn

/-- … and wrong otherwise: `(![0]==1) & [1]==1` is written `(! [0] == 1 & [1] == 1)`, which the parser reads as
`!([0]==1 & [1]==1)` — another predicate (they differ on the state `|0,0>`). -/
theorem roundtrip_postselect_fails_on_current_code :
    witness.WF ∧ print false witness = "(! [0] == 1 & [1] == 1)".toList ∧
    parse (print false witness) = some witnessRead ∧ witnessRead ≠ witness ∧
    eval witness [0, 0] = false ∧ eval witnessRead [0, 0] = true :=
  print_asfound_changes_meaning

example : ∃ e : Expr, e.WF ∧ ¬ e.NotLastFree := ⟨witness, by decide, by decide⟩

/-- WAVE 7.  What `PostSelect(str(ps))` is, for EVERY well-formed expression and the empty PostSelect: the reader
never raises on the text of the writer as found, and builds `rr x` (`Lemmas/C15PSR.lean`): every negation that is a
non-last operand swallows the rest of its node — `(a o !b o c o d)` comes back as `(a o !(b o c o d))`, `(!a o b)` as
`!(a o b)` — at every depth, with any number of `!` in a row. -/
theorem postselect_asfound_reads_as (x : Option Expr) (h : ∀ e, x = some e → e.WF) :
    parseTop (printTop false x) = some (x.map rr) :=
  parseTop_printTop_asfound_eq x h

/-- WAVE 7.  `roundtrip_postselect_asfound_partial` completed to an equivalence: the writer as found round-trips a
well-formed expression EXACTLY when no negation is a non-last operand of an n-ary node (any position, any depth). -/
theorem roundtrip_postselect_asfound_iff (x : Expr) (hw : x.WF) :
    parse (print false x) = some x ↔ x.NotLastFree :=
  parse_print_asfound_iff x hw

example : ¬ (parse (print false witness) = some witness) :=
  fun h => absurd ((roundtrip_postselect_asfound_iff witness (by decide)).1 h) (by decide)
example : parse (print false witnessRead) = some witnessRead :=
  (roundtrip_postselect_asfound_iff witnessRead (by decide)).2 (by decide)
example := postselect_asfound_reads_as (some witness) (by intro e h; cases h; decide)

/-- `((![0]==1 & [1]==1) | [2]==1)` -/
def witnessDrift : Expr :=
  .nary .or (.cons (.nary .and (.cons (.not (.cond [0] .eq 1)) (.cons (.cond [1] .eq 1) .nil)))
    (.cons (.cond [2] .eq 1) .nil))

/-- WAVE 7.  The as-found round trip is not even idempotent: the object read back may again contain a negation as a
non-last operand, so a SECOND serialize/deserialize changes it again (`((!a & b) | c)` → `(!(a & b) | c)` →
`!((a & b) | c)`, stable from then on). -/
theorem roundtrip_postselect_asfound_drifts :
    witnessDrift.WF ∧
    rr witnessDrift = .nary .or (.cons (.not (.nary .and (.cons (.cond [0] .eq 1) (.cons (.cond [1] .eq 1) .nil))))
      (.cons (.cond [2] .eq 1) .nil)) ∧
    rr (rr witnessDrift) = .not (.nary .or (.cons (.nary .and (.cons (.cond [0] .eq 1) (.cons (.cond [1] .eq 1) .nil)))
      (.cons (.cond [2] .eq 1) .nil))) ∧
    rr witnessDrift ≠ witnessDrift ∧ rr (rr witnessDrift) ≠ rr witnessDrift ∧
    rr (rr (rr witnessDrift)) = rr (rr witnessDrift) ∧
    parse (print false witnessDrift) = some (rr witnessDrift) ∧
    parse (print false (rr witnessDrift)) = some (rr (rr witnessDrift)) :=
  ⟨by decide, by decide, by decide, by decide, by decide, by decide,
    parse_print_asfound_eq _ (by decide), parse_print_asfound_eq _ (by decide)⟩

/-- WAVE 7.  When every n-ary node of the expression is a `^`, the writer as found may change the tree
(`PostSelect.__eq__` is `False`) but never the predicate: `¬a ⊕ b ⊕ … = ¬(a ⊕ b ⊕ …)`, on every state. -/
theorem roundtrip_postselect_asfound_xor_meaning (x : Expr) (hw : x.WF) (hx : x.xorOnly = true) (st : List Nat) :
    (parse (print false x)).map (fun y => eval y st) = some (eval x st) :=
  eval_asfound_xorOnly x hw hx st

/-- non-vacuity: a `^`-only expression with a negation in first position (its tree does change) -/
example :
    let x : Expr := .nary .xor (.cons (.not (.cond [0] .eq 1)) (.cons (.cond [1] .eq 1) (.cons (.cond [2] .eq 1) .nil)))
    x.WF ∧ x.xorOnly = true ∧ ¬ x.NotLastFree := by decide
/-- … and `&` is outside it: `witness` changes its predicate (`roundtrip_postselect_fails_on_current_code`) -/
example : witness.xorOnly = false := by decide

/-- The serializer AS WRITTEN (`_postselect_to_str`: one `re.sub` pass over `str(ps)` with the pattern
`! |\(|\)|\[[^]]*\] \S+ \d+` and the `pending` / `enclosing` bookkeeping, `Model/C15PSW.lean`) writes exactly the text of
the repaired writer, for every expression (any nesting, any number of negations in a row, numbers of any length) and
for the empty PostSelect. -/
theorem postselect_writer_as_written (x : Option Expr) : payloadAsWritten x = some (printTop true x) :=
  payloadAsWritten_eq x

/-- … so `PostSelect(payload)` is the original expression: the round trip of the code as it is written. -/
theorem roundtrip_postselect_as_written (x : Option Expr) (h : ∀ e, x = some e → e.WF) :
    (payloadAsWritten x).bind parseTop = some x :=
  parse_payloadAsWritten x h

/-- … and the same predicate on every state. -/
theorem roundtrip_postselect_as_written_meaning (x : Option Expr) (h : ∀ e, x = some e → e.WF) (st : List Nat) :
    ((payloadAsWritten x).bind parseTop).map (fun y => evalTop y st) = some (evalTop x st) := by
  rw [parse_payloadAsWritten x h]; rfl

/-- The `+` of `\d+` is load-bearing: if the condition token ended after ONE digit, `! [1] <= 10` would be written
`(! [1] <= 1)0` (the closing parenthesis inside the number), a text `PostSelect(…)` refuses. -/
theorem postselect_writer_one_digit_token_breaks :
    twoDigit.WF ∧ scan true 0 0 [] (print false twoDigit) = some "(! [1] <= 1)0".toList ∧
    parseTop "(! [1] <= 1)0".toList = none ∧
    scan false 0 0 [] (print false twoDigit) = some "(! [1] <= 10)".toList :=
  oneDigit_breaks

example : (payloadAsWritten (some witness)).bind parseTop = some (some witness) :=
  roundtrip_postselect_as_written (some witness) (by intro e h; cases h; decide)

end PS

/-! ## dict / list containers (`Model/C15Tree.lean`) -/

namespace Tree

/-- `deserialize(serialize(t, compress=c)) = t` for every tree of dicts (keys: strings or serialisable objects),
lists, serialisable objects and passthrough values, any nesting depth, any `compress` argument (it is handed down
unchanged), given only that the leaf codec round-trips (the other theorems of this file) and writes the prefix. -/
theorem roundtrip_container {α C : Type} [DecidableEq α] {enc : C → α → Text} {dec : Text → Option α}
    (H : LeafCodec enc dec) (c : C) (t : Tree α) (h : t.WF) : decode dec (encode enc c t) = some t :=
  roundtrip_tree H c t h

/-- the same through `serialize_to_file` / `deserialize_file` (json trusted: identity on the wire value) -/
theorem roundtrip_container_file {α C : Type} [DecidableEq α] {enc : C → α → Text} {dec : Text → Option α}
    (H : LeafCodec enc dec) (c : C) (t : Tree α) (h : t.WF) : fileRoundtrip enc dec c t = some t :=
  roundtrip_tree_file H c t h

/-- the prefix hypothesis holds for everything the envelope layer writes, compressed or not -/
theorem envelope_has_prefix (z : Codec) (tag payload : Text) (doCompress : Bool) :
    isPcvl (handleCompression z (mkEnv tag payload) doCompress) = true :=
  isPcvl_envelope z tag payload doCompress

/-- boundary: a plain string that itself starts with `:PCVL:` never comes back as that string -/
theorem container_prefixed_string_not_preserved {α C : Type} [DecidableEq α] (enc : C → α → Text)
    (dec : Text → Option α) (c : C) (s : Text) (h : isPcvl s = true) :
    decode dec (encode enc c (.raw (.str s))) ≠ some (.raw (.str s)) :=
  prefixed_raw_string_not_preserved enc dec c s h

example := roundtrip_container toy_codec () sampleTree sampleTree_wf

end Tree

/-! ## Feed-forward: any history of a provider, the value tables of a configurator, 32-bit floats -/

namespace FF

variable {κ α β : Type} [DecidableEq κ]

/-- EVERY provider state reachable by any history of calls (re-assigned keys included) is read back without raising,
identical in every field except that the maximal size becomes the largest size actually present; it is unchanged
iff the stored maximum is still attained (generalises `replaced_key_loses_max`). -/
theorem roundtrip_provider_any_history (size : α → Nat) (enc : α → β) (dec : β → Option α)
    (hcodec : ∀ c, dec (enc c) = some c) (m : Nat) (offset : Int) (name : String) (d : α)
    (ops : List (Op κ α)) (p : Prov κ α) (h : runOps size (Prov.new size m offset name d) ops = some p)
    (wire : List (κ × α)) (hw : wire.Perm p.map) :
    ∃ q, decProv dec size false p.m (encProv enc p wire) = some q ∧
      q.m = p.m ∧ q.offset = p.offset ∧ q.name = (if p.name = "" then "FFC" else p.name) ∧
      q.default = p.default ∧ q.blocked = p.blocked ∧ q.map = wire ∧ q.map.Perm p.map ∧
      q.maxSize = trueMax size p.default p.map ∧ q.maxSize ≤ p.maxSize ∧
      (q.maxSize = p.maxSize ↔ IsMax size p.default p.map p.maxSize) ∧ Good size q :=
  roundtrip_provider_any size enc dec p (reachable_inv size m offset name d ops p h) (hcodec _)
    (fun _ _ => hcodec _) wire hw

/-- one trip normalises: serialising the rebuilt provider again returns it -/
theorem roundtrip_provider_twice (size : α → Nat) (enc : α → β) (dec : β → Option α)
    (hcodec : ∀ c, dec (enc c) = some c) (m : Nat) (offset : Int) (name : String) (d : α)
    (ops : List (Op κ α)) (p : Prov κ α) (h : runOps size (Prov.new size m offset name d) ops = some p)
    (wire : List (κ × α)) (hw : wire.Perm p.map) (q : Prov κ α)
    (hq : decProv dec size false p.m (encProv enc p wire) = some q)
    (wire' : List (κ × α)) (hw' : wire'.Perm q.map) :
    ∃ r, decProv dec size false q.m (encProv enc q wire') = some r ∧ Equiv r q :=
  roundtrip_provider_second size enc dec p (reachable_inv size m offset name d ops p h) (hcodec _)
    (fun _ _ => hcodec _) wire hw q hq wire' hw'

end FF

namespace FFC

open PM.C15.F32 in
/-- An `FFConfigurator` whose constructor and `add_configuration` calls were accepted is rebuilt — whatever order the
protobuf maps yield states and names in — with every table value replaced by its 32-bit float; the reader does not
raise as long as no variable of the controlled circuit holds a value. -/
theorem roundtrip_configurator_f32 {κ γ δ : Type} [DecidableEq κ] (I : Ctl γ) (enc : γ → δ) (dec : δ → Option γ)
    (ksize : κ → Nat) (x : Cfgr κ γ ℚ) (hv : Valid ksize x) (c' : γ) (hdec : dec (enc x.ctrl) = some c')
    (hvars : (I.vars c').Perm x.linked) (hfree : ∀ n ∈ I.vars c', n ∈ I.free c')
    (wd : Table ℚ) (hwd : wd.Perm x.defaultConfig) (wc : List (κ × Table ℚ)) (hwc : CfgPerm wc x.configs) :
    ∃ y, decCfgr I dec ksize x.m (encCfgr enc f32D x wd wc) = .ok y ∧
      y.defaultConfig = mapT f32D wd ∧ y.configs = mapC f32D wc ∧
      ∀ v : ℚ, |v| < 32 → |f32D v - v| ≤ (2 : ℚ) ^ (-20 : ℤ) :=
  configurator_values_close I enc dec ksize x hv c' hdec hvars hfree wd hwd wc hwc

open PM.C15.F32 in
/-- the rebuilt configurator IS the original (up to dict order) iff every table value is a binary32 number -/
theorem roundtrip_configurator_exact_iff_f32 {κ γ δ : Type} [DecidableEq κ] (I : Ctl γ) (enc : γ → δ)
    (dec : δ → Option γ) (ksize : κ → Nat) (x : Cfgr κ γ ℚ) (hv : Valid ksize x) (c' : γ)
    (hdec : dec (enc x.ctrl) = some c') (hvars : (I.vars c').Perm x.linked) (hfree : ∀ n ∈ I.vars c', n ∈ I.free c')
    (wd : Table ℚ) (hwd : wd.Perm x.defaultConfig) (wc : List (κ × Table ℚ)) (hwc : CfgPerm wc x.configs)
    (y : Cfgr κ γ ℚ) (hy : decCfgr I dec ksize x.m (encCfgr enc f32D x wd wc) = .ok y) :
    Equiv y (expected I (fun v => v) x c') ↔ AllValues IsF32 x :=
  configurator_exact_iff_f32 I enc dec ksize x hv c' hdec hvars hfree wd hwd wc hwc y hy

/-- boundary: a variable of the controlled circuit that holds a value makes the reader's constructor raise
`KeyError` (the constructor copies the circuit, the copy has the variable fixed, `assign` does not find it) -/
theorem configurator_reader_keyerror {κ γ δ V : Type} [DecidableEq κ] (I : Ctl γ) (enc : γ → δ)
    (dec : δ → Option γ) (rnd : V → V) (ksize : κ → Nat) (x : Cfgr κ γ V) (hv : Valid ksize x) (c' : γ)
    (hdec : dec (enc x.ctrl) = some c') (hvars : (I.vars c').Perm x.linked) (hval : ∃ n ∈ I.vars c', n ∉ I.free c')
    (wd : Table V) (hwd : wd.Perm x.defaultConfig) (wc : List (κ × Table V)) :
    ∃ n, n ∈ I.vars c' ∧ n ∉ I.free c' ∧ decCfgr I dec ksize x.m (encCfgr enc rnd x wd wc) = .error (.key n) :=
  reader_keyerror I enc dec rnd ksize x hv c' hdec hvars hval wd hwd wc

end FFC

namespace F32

/-- a value that went through the 32-bit field once goes through it unchanged ever after -/
theorem f32_idempotent (v w : ℚ) (h : f32 v = some w) : f32 w = some w := f32_idem v w h

/-- exactly the binary32 numbers survive unchanged -/
theorem f32_exact_iff (v : ℚ) : f32 v = some v ↔
    v = 0 ∨ ∃ (k : ℕ) (t : ℤ), 0 < k ∧ k < 2 ^ 24 ∧ -149 ≤ t ∧ t ≤ 104 ∧
      (v = (k : ℚ) * (2 : ℚ) ^ t ∨ v = -((k : ℚ) * (2 : ℚ) ^ t)) :=
  f32_fixed_iff v

/-- half an ulp: relative error 2^-24 in the normal range … -/
theorem f32_relative_error (v w : ℚ) (h : f32 v = some w) (hv : (2 : ℚ) ^ (-126 : ℤ) ≤ |v|) :
    |w - v| ≤ (2 : ℚ) ^ (-24 : ℤ) * |v| :=
  f32_err_rel v w h hv

/-- … so below 32 in modulus a table value moves by less than the 1e-6 text precision of the property … -/
theorem f32_within_text_precision (v w : ℚ) (h : f32 v = some w) (hv : |v| < 32) :
    |w - v| ≤ (2 : ℚ) ^ (-20 : ℤ) ∧ (2 : ℚ) ^ (-20 : ℤ) < 1 / 1000000 :=
  f32_err_lt_32 v w h hv

/-- … and 32 is sharp: just above it a value can move by more than 1e-6. -/
theorem f32_beyond_text_precision : f32 (32 + 1 / 524288) = some 32 ∧
    |(32 : ℚ) - (32 + 1 / 524288)| = (2 : ℚ) ^ (-19 : ℤ) ∧ (1 : ℚ) / 1000000 < (2 : ℚ) ^ (-19 : ℤ) :=
  f32_example_tie_32

end F32

/-! ## EXTENSION 8: the constructor layer of `Detector` (`Model/C15Det.lean`)

`roundtrip_detector` above carries the hypothesis `Det.WF` on the STATE of the object.  Below the code that
produces that state is inside the model (`Detector.__init__` on every `int`-or-`None` argument pair, the
factories, `Detector.type`, the 32-bit message fields), so the hypothesis is replaced by "the object was built
by the constructor", and the one place where `max_detections or None` does hit a legitimate value is stated
exactly. -/
namespace DetC

/-- EVERY detector the constructor builds (any `n_wires`, any `max_detections`, negative caps and a cap of 0
included, any factory) and the writer accepts (both numbers fit the `int32` fields) is read back without an
`AssertionError`, and the rebuilt object is the original except that a cap of 0 has become "no cap"
(`_max = _wires`). -/
theorem roundtrip_detector_any_arguments (nw md : Option Int) (s : DState) (h : ctor nw md = some s)
    (f : Int × Int) (hf : enc s = some f) : dec f = some (expected s) :=
  dec_enc_shape s (ctor_shape h) f hf

/-- … so a constructed detector comes back IDENTICAL iff its cap is not 0: `max_detections or None` loses
exactly `Detector(n, 0)` (a negative cap survives, `Detector(None, k)` never stored `k`). -/
theorem roundtrip_detector_exact_iff (nw md : Option Int) (s : DState) (h : ctor nw md = some s)
    (f : Int × Int) (hf : enc s = some f) : dec f = some s ↔ s.max ≠ some 0 := by
  rw [roundtrip_detector_any_arguments nw md s h f hf, Option.some.injEq]
  exact expected_eq_iff s (ctor_shape h)

/-- the boundary is real: `Detector(5, 0)` is accepted, written, and read back as `Detector(5, 5)` -/
theorem roundtrip_detector_zero_cap_witness :
    ctor (some 5) (some 0) = some ⟨some 5, some 0⟩ ∧ enc ⟨some 5, some 0⟩ = some (5, 0) ∧
      dec (5, 0) = some ⟨some 5, some 5⟩ := by decide

/-- a negative cap (accepted by the constructor: there is no lower bound) survives -/
example : ctor (some 3) (some (-1)) = some ⟨some 3, some (-1)⟩ ∧ enc ⟨some 3, some (-1)⟩ = some (3, -1) ∧
    dec (3, -1) = some ⟨some 3, some (-1)⟩ := by decide

/-- `Detector.type` (Threshold / PNR / PPNR) survives for EVERY constructed detector, the cap-0 one included -/
theorem detector_type_survives (nw md : Option Int) (s : DState) (h : ctor nw md = some s)
    (f : Int × Int) (hf : enc s = some f) : ∃ t, dec f = some t ∧ dtype t = dtype s :=
  ⟨expected s, roundtrip_detector_any_arguments nw md s h f hf, dtype_expected s (ctor_shape h)⟩

/-- the factories build the three types -/
theorem factories : threshold.map dtype = some .threshold ∧ pnr.map dtype = some .pnr ∧
    (ppnr 5 (some 2)).map dtype = some .ppnr ∧ (ppnr 1 none).map dtype = some .threshold := by decide

/-- the hypothesis `Det.WF` of `roundtrip_detector` is EXACTLY "built by the constructor with a cap other
than 0" (on natural numbers) … -/
theorem wf_iff_constructed (name : String) (w m : Option Nat) :
    (Det.det name w m).WF ↔ (∃ nw md, ctor nw md = some (ofNatState w m)) ∧ m ≠ some 0 :=
  wf_iff name w m

/-- … hence `roundtrip_detector` without `WF`: whatever the arguments, if the constructor accepted them and the
stored cap is not 0 (and not negative, so that the natural-number message model applies), the object comes
back identical through `serialize_detector` / `deserialize_detector` of the main model. -/
theorem roundtrip_detector_constructed (name : String) (nw md : Option Int) (s : DState)
    (h : ctor nw md = some s) (d : Det) (hd : toDet name s = some d) (h0 : s.max ≠ some 0) :
    decDet (encDet d) = some d :=
  roundtrip_detector d (wf_of_shape name s (ctor_shape h) d hd h0)

example : ∃ s d, ctor (some 4) (some 2) = some s ∧ toDet "PPNR" s = some d ∧ s.max ≠ some 0 :=
  ⟨⟨some 4, some 2⟩, .det "PPNR" (some 4) (some 2), by decide, by decide, by decide⟩

/-- the writer's only failure on a constructed detector is the 32-bit field (`ValueError`): inside the range
it always writes -/
theorem writer_accepts_iff (nw md : Option Int) (s : DState) (h : ctor nw md = some s) :
    (enc s).isSome ↔ (∀ v, s.wires = some v → int32 v = true) ∧ (∀ v, s.max = some v → int32 v = true) := by
  rcases ctor_shape h with rfl | ⟨w, k, _, _, rfl⟩
  · simp [enc, field]
  · by_cases hw : int32 w = true <;> by_cases hk : int32 k = true <;> simp [enc, field, hw, hk]

end DetC

/-! ## EXTENSION 8: the validation layer of `NoiseModel` (`Model/C15Noise.lean`)

`roundtrip_noise` above is about the codec alone; the reader of the real code is the CONSTRUCTOR, which validates
every value again and can raise.  With `ValidatedFloat` / `ValidatedBool`, `NoiseModel.__init__` and
`NoiseModel.set_value` inside the model, the statement becomes one about every object the API can produce. -/
namespace NoiseC

/-- the ranges are an invariant of the object: whatever was passed to the constructor (if it accepted) and
whatever `set_value` calls follow (raising ones included - they change nothing), every given float is in range -/
theorem noise_values_always_valid (a n0 : Noise) (h : ctor a = .ok n0) (ops : List Op) :
    valid (runOps n0 ops) = true :=
  runOps_valid ops n0 (ctor_valid h).2

/-- EVERY noise model reachable through the API - any accepted constructor call followed by any history of
`set_value` calls - is written and read back without the reader's validation raising, with exactly the same
given fields and values (fields set to a falsy or to their default value included). -/
theorem roundtrip_noise_any_history (a n0 : Noise) (h : ctor a = .ok n0) (ops : List Op) :
    decV (encNoise (runOps n0 ops)) = .ok (runOps n0 ops) := by
  have hv := noise_values_always_valid a n0 h ops
  simp [decV, roundtrip_noise, ctor, hv]

/-- non-vacuity: a constructor call, a refused call (`g2 = 2`: ValueError), an unknown name (KeyError), a number
into the bool field (TypeError), two accepted calls (one resets `brightness` to its default value 1) -/
example : ctor { g2 := some 0, brightness := some 0 } = .ok { g2 := some 0, brightness := some 0 } ∧
    step { g2 := some 0 } (.num "g2" 2) = .error .value ∧ step {} (.num "g3" 0) = .error .key ∧
    step {} (.num "g2_distinguishable" 1) = .error .type ∧
    runOps { g2 := some 0, brightness := some 0 } [.num "g2" 2, .num "brightness" 1, .bool false] =
      { g2 := some 0, brightness := some 1, g2Distinguishable := some false } := by decide

/-- the validation is load-bearing: a state the API cannot produce (a value outside its range) would be written
but refused by the reader (`ValueError`), so the invariant above is what makes the round trip total -/
theorem noise_reader_refuses_invalid (n : Noise) (h : valid n = false) : decV (encNoise n) = .error .value := by
  simp [decV, roundtrip_noise, ctor, h]

example : valid { transmittance := some 2 } = false := by decide

/-- the boundary values of the ranges are inside: 0, 1 and `math.pi` itself survive -/
theorem noise_range_ends_accepted :
    ctor { brightness := some 0, indistinguishability := some 1, g2 := some 0, transmittance := some 1,
           phaseImprecision := some 1000000, phaseError := some piDbl } =
      .ok { brightness := some 0, indistinguishability := some 1, g2 := some 0, transmittance := some 1,
            phaseImprecision := some 1000000, phaseError := some piDbl } := by
  norm_num [ctor, valid, okField, NoiseC.get, inRange, FKey.range, piDbl]

/-- ... and the next double above `math.pi` is refused as a phase error (`ValueError`) -/
theorem noise_range_end_sharp :
    step {} (.num "phase_error" (piDbl + 1 / 2251799813685248)) = .error .value := by
  have h : FKey.ofName "phase_error" = some .phaseError := by decide
  simp only [step, h]
  norm_num [inRange, FKey.range, piDbl]

end NoiseC

end PM.C15
