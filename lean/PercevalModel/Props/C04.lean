/-
  C04 — heralds, post-selection and the photon filter condition the output exactly.

  Subject: `PM.C04.probsSvd`, the model of `Simulator.probs_svd` (fast path) with the herald mask, the per-group
  budget `_best_n`, the input-side photon filter, the logical-performance bookkeeping and
  `post_select_distribution`; `PM.C04.interleave` (`Experiment.with_input`).
  Specification: `PM.SimSpec.conditioned / physPerf / logicalPerf` applied to the *unconditioned* distribution
  `PM.C04.full` (mixture of convolutions of the groups' full distributions).

  Hypotheses, all on data the property quantifies over or on the external engine:
  * `HeraldsWF`  : the herald dictionary has distinct modes inside the circuit;
  * `EngOK`      : on the groups that occur the engine returns `m`-mode states with the group's photon number
                   (conservation), non-negative numbers of total 1 (unitarity) — C02's subject; for the Fock-space
                   engine `probsFock U` of a unitary matrix this is *proved* (`fock_engine_ok`, from C02's
                   `dist_sums_to_one_GQ`) and the `…_unitary` corollaries at the end carry no engine hypothesis;
  * `MixOK`      : the input mixture has non-negative weights of total 1.
  Nothing is assumed on where the heralds sit, on their values, on the photon numbers of the groups (a group may
  hold fewer photons than the heralds ask for), on the filter value or on the post-selection expression.

  Further sections: detectors (all-PNR lists take the mask path; any list with a threshold / pseudo-PNR detector takes
  the mask-free path of `simulate_detectors`, proved equal to the conditioning of the detected-pattern distribution
  under `KernsOK` — rows of the kernels are probability distributions without photon gain; `condition_spec_detectors`
  is the statement for every layout); `Simulator.evolve` / `evolve_svd` (logical / physical performance bookkeeping,
  `evolve_logical_perf_spec`, `evolve_svd_perf_spec`); `HeraldsWF` derived from the declaration of the heralds
  (`heralds_wf_of_declared`).

  Extensions (second half of the file): probability trimming at a non-zero precision (`Model/C04Trim.lean`: the
  thresholds of `_preprocess_svd` and `list_tensor_product` as coded; exactness of `physical_perf`, bounds on
  `logical_perf` and on every reported probability in terms of the trimmed mass); a long-lived `Simulator` /
  `Processor` whose selection changes (`Model/C04Session.lean`: state machines with the concrete backend mask;
  history-independence); superposed inputs through `_probs_svd_generic` (`Model/C04Generic.lean`: masked group
  amplitudes and interference; equality with the specification conditioning of `probsSV` / `probsSVD`); trimming on
  the detector path and on the superposed path (`Model/C04TrimDet.lean`) and a-priori bounds of the trimmed mass
  (`Lemmas/C04Apriori.lean`); members superposing DIFFERENT photon numbers (`Model/C04Split.lean`: the two passes of
  `_preprocess_svd` with the photon-count split and the filter; `condition_spec_superposed_split` removes the
  same-photon-number hypothesis of the superposed-path theorems).

  NOT proved (validated by the correspondence only, or outside the model): see the list at the end of this file.
-/
import PercevalModel.Lemmas.C04
import PercevalModel.Lemmas.C04Decl
import PercevalModel.Lemmas.C04Mass
import PercevalModel.Lemmas.C04Det
import PercevalModel.Lemmas.C04Evolve
import PercevalModel.Lemmas.C04More
import PercevalModel.Lemmas.C04Trim
import PercevalModel.Lemmas.C04Session
import PercevalModel.Lemmas.C04Generic
import PercevalModel.Lemmas.C04TrimDet
import PercevalModel.Lemmas.C04Apriori
import PercevalModel.Lemmas.C04TrimGen
import PercevalModel.Lemmas.C04Split
import PercevalModel.Lemmas.C04DetGen
import PercevalModel.Lemmas.C03Mass
import PercevalModel.Props.C02

namespace PM.C04
open PM.Fock PM.Dist PM.SimSpec

/-- **mask_invariance** (one input state).  Computing every tag group only on the outputs the herald mask
keeps, with the photon budget `min(n_ext, n_own + n_heralds)` of `_best_n`, and convolving, gives after
conditioning on the heralds *the same list* as convolving the groups' full distributions. -/
theorem mask_invariance (eng : Fock → D) (c : Cfg) (mb : Member) (wf : HeraldsWF c.m c.heralds)
    (hshape : ∀ s ∈ mb.groups, ∀ q ∈ eng s, q.1.length = c.m ∧ q.1.sum = s.sum) :
    restrict (heraldsOk c.heralds) (memberDist eng c mb) =
    restrict (heraldsOk c.heralds) (fullMember eng c.m mb) :=
  member_heralds_invariance eng c mb wf hshape

/-- the same on the native mask semantics alone, for any mask budget bound `T` and any filters at least as
permissive as the mask (no assumption on how the mask was built) -/
theorem mask_invariance_native (mask : List (Option ℕ)) (N T : ℕ) (hT : maskTotal mask ≤ T)
    (gs : List Grp) (hsz : ∀ g ∈ gs, ∀ q ∈ g.d, q.1.sum ≤ g.n)
    (hf : ∀ g ∈ gs, ∀ y, maskOk mask (min N (g.n + T) - g.n) y = true → g.f y = true)
    (m : ℕ) (hN : (gs.map (·.n)).sum ≤ N) :
    restrict (maskOk mask 0) (convAll [(zeros m, 1)] (gs.map fun g => restrict g.f g.d)) =
    restrict (maskOk mask 0) (convAll [(zeros m, 1)] (gs.map (·.d))) := by
  apply restrict_convAll_masked mask N T hT gs hsz hf _ 0
  · intro p hp
    simp only [List.mem_singleton] at hp
    simp [hp, zeros_sum]
  · omega

/-- **physical performance** = probability that the unconditioned output passes the photon filter
(`1 - Σ` of the inputs below the filter, as the code computes it). -/
theorem physical_perf_spec (eng : Fock → D) (c : Cfg) (members : List Member)
    (he : EngOK eng c.m members) (hmix : MixOK members) :
    (probsSvd eng c members).phys = physPerf (cond c) (full eng c.m members) := by
  have hp : (probsSvd eng c members).phys = physInputs c members := by
    rw [probsSvd_eq]; split <;> rfl
  rw [hp, physInputs_eq c members hmix.wsum, physPerf, restrict_phys_full eng c members he.shape,
    mass_kept_full eng c members he.massOne]

/-- **logical performance** = P(heralds ∧ post-selection | filter passed) of the unconditioned output. -/
theorem logical_perf_spec (eng : Fock → D) (c : Cfg) (members : List Member)
    (wf : HeraldsWF c.m c.heralds) (he : EngOK eng c.m members) (hmix : MixOK members) :
    (probsSvd eng c members).logical = logicalPerf (cond c) (full eng c.m members) := by
  have hPK := physInputs_eq c members hmix.wsum
  have hphys : physPerf (cond c) (full eng c.m members) = physInputs c members := by
    rw [hPK, physPerf, restrict_phys_full eng c members he.shape, mass_kept_full eng c members he.massOne]
  have hR := retained_eq eng c members wf he.shape
  have hNN := NN_codeRes eng c members he.nonneg hmix.wpos
  have hacc0 : 0 ≤ mass (codeRes eng c members) := hNN.mass_nonneg
  have hRle : mass (restrict (logicOk (cond c)) (codeRes eng c members)) ≤ mass (codeRes eng c members) :=
    mass_restrict_le hNN _
  have hR0 : 0 ≤ mass (restrict (logicOk (cond c)) (codeRes eng c members)) := (hNN.restrict _).mass_nonneg
  unfold logicalPerf
  rw [hR, hphys, probsSvd_eq]
  by_cases hacc : mass (codeRes eng c members) = 0
  · simp only [hacc, ↓reduceIte]
    have : mass (restrict (logicOk (cond c)) (codeRes eng c members)) = 0 := by linarith
    rw [this]
    split <;> simp
  · simp only [hacc, ↓reduceIte]
    have hpos : 0 < mass (codeRes eng c members) := lt_of_le_of_ne hacc0 (Ne.symm hacc)
    have hP0 : 0 ≤ physInputs c members := by
      rw [hPK]
      apply List.sum_nonneg
      intro x hx
      obtain ⟨mb, hmb, rfl⟩ := List.mem_map.1 hx
      exact hmix.wpos mb (mem_kept hmb)
    have hPne : physInputs c members ≠ 0 := by
      intro h0
      apply hacc
      have := sum_mul_zero_of_sum_zero (fun mb : Member => mb.w) (fun mb => mass (memberDist eng c mb))
        (kept c members) (fun x hx => hmix.wpos x (mem_kept hx)) (by rw [← hPK]; exact h0)
      rw [codeRes, mass_mix, List.map_map]
      simpa [Function.comp_def] using this
    have hPpos : 0 < physInputs c members := lt_of_le_of_ne hP0 (Ne.symm hPne)
    simp only [hpos, hPpos, and_self, ↓reduceIte, hPne]
    unfold postSelect
    split
    · next hnc =>
      have hnc' : hasCond c.ps = false ∧ c.heralds.isEmpty = true := by simpa using hnc
      have hps := hasCond_false hnc'.1
      have hh : c.heralds = [] := by simpa using hnc'.2
      have : restrict (logicOk (cond c)) (codeRes eng c members) = codeRes eng c members := by
        apply restrict_of_all
        intro p _
        simp [logicOk, cond, heraldsOk, hps, hh, PS.eval]
      rw [this]
      simp
    · simp only
      have hn : normalize (codeRes eng c members) =
          scale (mass (codeRes eng c members))⁻¹ (codeRes eng c members) := by simp [Dist.normalize, hacc]
      have h1 : mass (normalize (codeRes eng c members)) = 1 := mass_normalize _ hacc
      have h2 := mass_restrict_add (logicOk (cond c)) (normalize (codeRes eng c members))
      have h3 : mass (restrict (logicOk (cond c)) (normalize (codeRes eng c members))) =
          (mass (codeRes eng c members))⁻¹ * mass (restrict (logicOk (cond c)) (codeRes eng c members)) := by
        rw [hn, restrict_scale, mass_scale]
      have h4 : 1 - mass (restrict (fun t => !logicOk (cond c) t) (normalize (codeRes eng c members))) =
          (mass (codeRes eng c members))⁻¹ * mass (restrict (logicOk (cond c)) (codeRes eng c members)) := by
        linarith
      rw [h4]
      field_simp

/-- **condition_spec.**  Whenever something is retained, the returned distribution *is* (as a list, entry by
entry) the unconditioned distribution restricted to the outcomes that pass the photon filter, the heralds and
the post-selection, with heralded modes removed (unless kept), renormalised. -/
theorem condition_spec (eng : Fock → D) (c : Cfg) (members : List Member)
    (wf : HeraldsWF c.m c.heralds) (he : EngOK eng c.m members) (hmix : MixOK members)
    (hret : mass (retained (cond c) (full eng c.m members)) ≠ 0) :
    (probsSvd eng c members).results = conditioned (cond c) (full eng c.m members) := by
  have hR := retained_eq eng c members wf he.shape
  have hNN := NN_codeRes eng c members he.nonneg hmix.wpos
  have hRle : mass (restrict (logicOk (cond c)) (codeRes eng c members)) ≤ mass (codeRes eng c members) :=
    mass_restrict_le hNN _
  have hR0 : 0 ≤ mass (restrict (logicOk (cond c)) (codeRes eng c members)) := (hNN.restrict _).mass_nonneg
  rw [hR] at hret
  have hacc : mass (codeRes eng c members) ≠ 0 := by
    intro h0
    apply hret
    linarith
  unfold conditioned
  rw [hR, probsSvd_eq]
  simp only [hacc, ↓reduceIte]
  have hn : normalize (codeRes eng c members) =
      scale (mass (codeRes eng c members))⁻¹ (codeRes eng c members) := by simp [Dist.normalize, hacc]
  unfold postSelect
  split
  · next hnc =>
    have hnc' : hasCond c.ps = false ∧ c.heralds.isEmpty = true := by simpa using hnc
    have hps := hasCond_false hnc'.1
    have hh : c.heralds = [] := by simpa using hnc'.2
    have e1 : restrict (logicOk (cond c)) (codeRes eng c members) = codeRes eng c members := by
      apply restrict_of_all
      intro p _
      simp [logicOk, cond, heraldsOk, hps, hh, PS.eval]
    have e2 : mapKeys (reported (cond c)) (codeRes eng c members) = codeRes eng c members := by
      have : ∀ t, reported (cond c) t = t := by
        intro t
        simp [reported, cond, hh, removeModes_nil]
      simp [mapKeys, this]
    simp only
    rw [e1, e2, normalize_of_mass_one _ (mass_normalize _ hacc)]
  · simp only
    rw [hn, restrict_scale, mapKeys_scale, normalize_scale]
    · exact inv_ne_zero hacc
    · rwa [mass_mapKeys]

/-- …and it is a probability distribution -/
theorem results_mass_one (eng : Fock → D) (c : Cfg) (members : List Member)
    (wf : HeraldsWF c.m c.heralds) (he : EngOK eng c.m members) (hmix : MixOK members)
    (hret : mass (retained (cond c) (full eng c.m members)) ≠ 0) :
    mass (probsSvd eng c members).results = 1 := by
  rw [condition_spec eng c members wf he hmix hret]
  exact conditioned_mass_one _ _ hret

/-- **perf_product** for the code's bookkeeping: physical × logical performance = total retained
probability of the unconditioned output. -/
theorem perf_product (eng : Fock → D) (c : Cfg) (members : List Member)
    (wf : HeraldsWF c.m c.heralds) (he : EngOK eng c.m members) (hmix : MixOK members)
    (hphys : (probsSvd eng c members).phys ≠ 0) :
    (probsSvd eng c members).phys * (probsSvd eng c members).logical =
      mass (retained (cond c) (full eng c.m members)) := by
  rw [logical_perf_spec eng c members wf he hmix]
  rw [physical_perf_spec eng c members he hmix] at hphys ⊢
  exact SimSpec.perf_product _ _ hphys

/-- the mask changes nothing observable: with the mask switched off (`pnr := false` makes `_can_use_mask`
false) the three outputs are the same -/
theorem mask_off_same (eng : Fock → D) (c : Cfg) (members : List Member)
    (wf : HeraldsWF c.m c.heralds) (he : EngOK eng c.m members) (hmix : MixOK members)
    (hret : mass (retained (cond c) (full eng c.m members)) ≠ 0) :
    (probsSvd eng c members).results = (probsSvd eng { c with pnr := !c.pnr } members).results ∧
    (probsSvd eng c members).phys = (probsSvd eng { c with pnr := !c.pnr } members).phys ∧
    (probsSvd eng c members).logical = (probsSvd eng { c with pnr := !c.pnr } members).logical := by
  refine ⟨?_, ?_, ?_⟩
  · rw [condition_spec eng c members wf he hmix hret]
    exact (condition_spec eng { c with pnr := !c.pnr } members wf he hmix hret).symm
  · rw [physical_perf_spec eng c members he hmix]
    exact (physical_perf_spec eng { c with pnr := !c.pnr } members he hmix).symm
  · rw [logical_perf_spec eng c members wf he hmix]
    exact (logical_perf_spec eng { c with pnr := !c.pnr } members wf he hmix).symm

/-- **filter_includes_heralds.**  The threshold the simulator applies to the whole output state is the user's
value plus the herald photons; on every output that satisfies the heralds this is exactly the user's threshold
on the photons detected in the *non-heralded* modes. -/
theorem filter_includes_heralds (c : Cfg) (wf : HeraldsWF c.m c.heralds) (t : Fock) (ht : t.length = c.m)
    (hh : heraldsOk c.heralds t = true) :
    minFilter c = c.userFilter + nHeralds c.heralds ∧
    physOk (cond c) t = decide (c.userFilter ≤ (removeModes (c.heralds.map (·.1)) t).sum) := by
  refine ⟨rfl, ?_⟩
  rw [heraldsOk_eq_maskOk wf t ht] at hh
  have hs := sum_removeM (heraldMask c.m c.heralds) t (by rw [heraldMask_length, ht]) hh
  rw [maskTotal_heraldMask_eq c.m c.heralds wf] at hs
  rw [removeModes_eq_removeM c.m c.heralds t ht]
  simp only [physOk, cond, minFilter]
  rw [← hs]
  simp

/-- **interleave_spec.**  The full input `with_input` builds has the circuit's size, carries the expected
count on every heralded mode — wherever the heralds sit — and is the user's input on the other modes, in order. -/
theorem interleave_spec (m : ℕ) (h : List (ℕ × ℕ)) (user : Fock) (wf : HeraldsWF m h)
    (hu : user.length = freeModes (heraldMask m h)) :
    (interleave m h user).length = m ∧
    heraldsOk h (interleave m h user) = true ∧
    removeModes (h.map (·.1)) (interleave m h user) = user := by
  have hl : (interleave m h user).length = m := by
    rw [interleave, length_interleaveM, heraldMask_length]
  refine ⟨hl, ?_, ?_⟩
  · rw [heraldsOk_eq_maskOk wf _ hl]
    exact maskOk_interleaveM _ _
  · rw [removeModes_eq_removeM m h _ hl]
    exact removeM_interleaveM _ _ hu

/-- **auto_filter_spec** (repaired code).  With no filter set on a perfect source the default threshold is the
photon number of the user's input; heralded photons are not part of it. -/
theorem auto_filter_spec (m : ℕ) (h : List (ℕ × ℕ)) (user : Fock) (wf : HeraldsWF m h)
    (hu : user.length = freeModes (heraldMask m h)) : autoFilter m h user = user.sum := by
  have hl : (interleaveM (heraldMask m h) user).length = (heraldMask m h).length := length_interleaveM _ _
  have hs := sum_removeM (heraldMask m h) (interleaveM (heraldMask m h) user) hl.symm (maskOk_interleaveM _ _)
  rw [removeM_interleaveM _ _ hu, maskTotal_heraldMask_eq m h wf] at hs
  unfold autoFilter interleave
  omega

/-- the unrepaired default (`input_state.n`) is *not* the user's photon number as soon as a herald expects a
photon: heralded CNOT-like register, one herald with value 1 — the effective threshold `default + heralds`
then exceeds the total photon number and nothing passes. -/
theorem auto_filter_fails_on_unrepaired_code :
    ¬ ∀ (m : ℕ) (h : List (ℕ × ℕ)) (user : Fock), HeraldsWF m h → user.length = freeModes (heraldMask m h) →
      autoFilterUnrepaired m h user = user.sum := by
  intro hall
  have := hall 3 [(1, 1)] [1, 0] ⟨by decide, by decide⟩ (by decide)
  revert this
  decide

/-- the repaired recombination loop of `Simulator.evolve` is the plain product of the groups' outputs, whatever
the mask left of them -/
theorem mergeGroups_eq_convAll (d : D) (ds : List D) : mergeGroups (d :: ds) = convAll d ds := by
  unfold mergeGroups convAll
  induction ds generalizing d with
  | nil => rfl
  | cons x r ih =>
    simp only [List.foldl_cons]
    by_cases h : d.isEmpty = true
    · have hd : d = [] := by simpa using h
      subst hd
      simpa using ih []
    · simpa [h] using ih (conv d x)

/-- the unrepaired loop is not: a first group without any mask-compatible output does not empty the product
(witness: every mode heralded, a group with more photons than the heralds allow) -/
theorem mergeGroups_fails_on_unrepaired_code :
    ¬ ∀ (d : D) (ds : List D), mergeGroupsUnrepaired (d :: ds) = convAll d ds := by
  intro hall
  have := hall [] [[([1, 0], 1)]]
  simp [mergeGroupsUnrepaired, convAll] at this

/-- the engine hypothesis `EngOK.shape` holds for the Fock-space specification of any matrix -/
theorem probsFock_shape {m : ℕ} (U : Matrix (Fin m) (Fin m) GQ) (s : Fock) :
    ∀ q ∈ probsFock U s, q.1.length = m ∧ q.1.sum = s.sum := by
  intro q hq
  simp only [probsFock, List.mem_map] at hq
  obtain ⟨t, ht, rfl⟩ := hq
  exact (mem_allStates_iff m s.sum t).1 ht

/-- the unconditioned distribution of the model is the shared specification's (`probsTagged` per member) -/
theorem full_eq_probsTagged {m : ℕ} (U : Matrix (Fin m) (Fin m) GQ) (members : List Member) :
    full (probsFock U) m members = mix (members.map fun mb => (mb.w, probsTagged U mb.groups)) := by
  simp [full, fullMember, probsTagged, convAll, List.foldl_map]

/-! ### non-vacuity.  Witnesses (`Lemmas/C04.lean`): `idEng` (the identity circuit on any register),
`exCfg` (3 modes, herald 1 on the middle mode, post-selection `[0] >= 1`, filter 1), `exMembers` (a three-member
mixture one of whose members has two tag groups and one of which falls below the filter); every hypothesis
of every theorem above holds for them and something is retained. -/

example : (probsSvd idEng exCfg exMembers).results = conditioned (cond exCfg) (full idEng exCfg.m exMembers) :=
  condition_spec idEng exCfg exMembers exWF exEng exMix exRet

example : mass (probsSvd idEng exCfg exMembers).results = 1 :=
  results_mass_one idEng exCfg exMembers exWF exEng exMix exRet

example : (probsSvd idEng exCfg exMembers).phys * (probsSvd idEng exCfg exMembers).logical =
    mass (retained (cond exCfg) (full idEng exCfg.m exMembers)) := by
  apply perf_product idEng exCfg exMembers exWF exEng exMix
  rw [physical_perf_spec idEng exCfg exMembers exEng exMix]
  intro h
  apply exRet
  have h1 : retained (cond exCfg) (full idEng exCfg.m exMembers) =
      restrict (logicOk (cond exCfg)) (restrict (physOk (cond exCfg)) (full idEng exCfg.m exMembers)) := by
    rw [restrict_restrict]; rfl
  have hnn : NN (restrict (physOk (cond exCfg)) (full idEng exCfg.m exMembers)) := by
    intro p hp
    simp [full, fullMember, convAll, exMembers, exCfg, idEng, mix, scale, conv, restrict, zeros, fadd, physOk,
      cond, minFilter, nHeralds, List.replicate] at hp
    rcases hp with rfl | rfl <;> norm_num
  have := mass_restrict_le hnn (logicOk (cond exCfg))
  have := (hnn.restrict (logicOk (cond exCfg))).mass_nonneg
  rw [h1]
  unfold physPerf at h
  linarith

example : (probsSvd idEng exCfg exMembers).phys = physPerf (cond exCfg) (full idEng exCfg.m exMembers) :=
  physical_perf_spec idEng exCfg exMembers exEng exMix

example : (probsSvd idEng exCfg exMembers).logical = logicalPerf (cond exCfg) (full idEng exCfg.m exMembers) :=
  logical_perf_spec idEng exCfg exMembers exWF exEng exMix

example : restrict (heraldsOk exCfg.heralds) (memberDist idEng exCfg ⟨1/4, [[1, 0, 0], [0, 1, 0]]⟩) =
    restrict (heraldsOk exCfg.heralds) (fullMember idEng exCfg.m ⟨1/4, [[1, 0, 0], [0, 1, 0]]⟩) :=
  mask_invariance idEng exCfg _ exWF (by simp [idEng, exCfg])

example : (probsSvd idEng exCfg exMembers).results = (probsSvd idEng { exCfg with pnr := !exCfg.pnr } exMembers).results ∧
    (probsSvd idEng exCfg exMembers).phys = (probsSvd idEng { exCfg with pnr := !exCfg.pnr } exMembers).phys ∧
    (probsSvd idEng exCfg exMembers).logical = (probsSvd idEng { exCfg with pnr := !exCfg.pnr } exMembers).logical :=
  mask_off_same idEng exCfg exMembers exWF exEng exMix exRet

example : restrict (maskOk [none, some 1] 0) (convAll [(zeros 2, 1)] (exGrps.map fun g => restrict g.f g.d)) =
    restrict (maskOk [none, some 1] 0) (convAll [(zeros 2, 1)] (exGrps.map (·.d))) := by
  apply mask_invariance_native [none, some 1] 2 1 (by decide) exGrps _ _ 2 (by decide)
  · intro g hg q hq
    simp only [exGrps, List.mem_cons, List.not_mem_nil, or_false] at hg
    rcases hg with rfl | rfl
    · simp only [List.mem_cons, List.not_mem_nil, or_false] at hq
      rcases hq with rfl | rfl <;> decide
    · simp only [List.mem_cons, List.not_mem_nil, or_false] at hq
      subst hq; decide
  · intro g hg y hy
    simp only [exGrps, List.mem_cons, List.not_mem_nil, or_false] at hg
    rcases hg with rfl | rfl
    · exact hy
    · rfl

example : interleave 4 [(1, 1), (2, 0)] [2, 3] = [2, 1, 0, 3] := by decide

example : (interleave 4 [(1, 1), (2, 0)] [2, 3]).length = 4 ∧
    heraldsOk [(1, 1), (2, 0)] (interleave 4 [(1, 1), (2, 0)] [2, 3]) = true ∧
    removeModes ([(1, 1), (2, 0)].map (·.1)) (interleave 4 [(1, 1), (2, 0)] [2, 3]) = [2, 3] :=
  interleave_spec 4 [(1, 1), (2, 0)] [2, 3] ⟨by decide, by decide⟩ (by decide)

example : autoFilter 4 [(1, 1), (2, 0)] [2, 3] = 5 :=
  auto_filter_spec 4 [(1, 1), (2, 0)] [2, 3] ⟨by decide, by decide⟩ (by decide)

example : physOk (cond exCfg) [1, 1, 0] = decide (exCfg.userFilter ≤ (removeModes [1] [1, 1, 0]).sum) :=
  (filter_includes_heralds exCfg exWF [1, 1, 0] rfl (by decide)).2

/-! ### declaration order of the heralds -/

/-- **herald_order_irrelevant** (inputs).  The order in which the heralds are declared (`add_herald` calls, insertion
order of the `heralds` dict) changes neither the mask string pushed to the engine, nor the full input
`with_input` builds, nor the automatic filter, nor the number of herald photons added to the filter. -/
theorem herald_order_irrelevant (m : ℕ) (h h' : List (ℕ × ℕ)) (hp : h.Perm h') (hnd : (h.map (·.1)).Nodup)
    (user : Fock) :
    heraldMask m h = heraldMask m h' ∧ interleave m h user = interleave m h' user ∧
    autoFilter m h user = autoFilter m h' user ∧ nHeralds h = nHeralds h' := by
  have e := heraldMask_perm m hp hnd
  refine ⟨e, ?_, ?_, nHeralds_perm hp⟩
  · simp [interleave, e]
  · simp [autoFilter, interleave, e, nHeralds_perm hp]

/-- the specification-side condition does not depend on the declaration order either -/
theorem cond_herald_order (c : Cfg) (h' : List (ℕ × ℕ)) (hp : c.heralds.Perm h') :
    physOk (cond { c with heralds := h' }) = physOk (cond c) ∧
    logicOk (cond { c with heralds := h' }) = logicOk (cond c) ∧
    reported (cond { c with heralds := h' }) = reported (cond c) := by
  refine ⟨?_, ?_, ?_⟩
  · funext t
    simp only [physOk, cond, minFilter, nHeralds_perm hp]
    rfl
  · funext t
    simp only [logicOk, cond, heraldsOk]
    rw [hp.all_eq]
  · funext t
    simp only [reported, cond, removeModes]
    have : ∀ i : ℕ, (h'.map (·.1)).contains i = (c.heralds.map (·.1)).contains i := by
      intro i
      rw [Bool.eq_iff_iff]
      simp only [List.contains_iff_mem]
      exact ((hp.map _).mem_iff).symm
    simp only [this]
    rfl

/-- **probsSvd_herald_order.**  Whatever the order in which the same heralds were declared, `probs_svd` returns
the same distribution (as a list) and the same two performances. -/
theorem probsSvd_herald_order (eng : Fock → D) (c : Cfg) (h' : List (ℕ × ℕ)) (members : List Member)
    (hp : c.heralds.Perm h') (wf : HeraldsWF c.m c.heralds) (he : EngOK eng c.m members) (hmix : MixOK members)
    (hret : mass (retained (cond c) (full eng c.m members)) ≠ 0) :
    (probsSvd eng { c with heralds := h' } members).results = (probsSvd eng c members).results ∧
    (probsSvd eng { c with heralds := h' } members).phys = (probsSvd eng c members).phys ∧
    (probsSvd eng { c with heralds := h' } members).logical = (probsSvd eng c members).logical := by
  obtain ⟨e1, e2, e3⟩ := cond_herald_order c h' hp
  have wf' : HeraldsWF c.m h' :=
    ⟨(hp.map _).nodup_iff.mp wf.nodup, fun p hp' => wf.inRange p (hp.symm.subset hp')⟩
  have hr : retained (cond { c with heralds := h' }) (full eng c.m members) =
      retained (cond c) (full eng c.m members) := by
    simp only [retained, e1, e2]
  have hret' : mass (retained (cond { c with heralds := h' }) (full eng c.m members)) ≠ 0 := by rwa [hr]
  refine ⟨?_, ?_, ?_⟩
  · rw [condition_spec eng c members wf he hmix hret,
      condition_spec eng { c with heralds := h' } members wf' he hmix hret']
    simp only [conditioned, hr, e3]
  · rw [physical_perf_spec eng c members he hmix, physical_perf_spec eng { c with heralds := h' } members he hmix]
    simp only [physPerf, e1]
  · rw [logical_perf_spec eng c members wf he hmix,
      logical_perf_spec eng { c with heralds := h' } members wf' he hmix]
    simp only [logicalPerf, physPerf, hr, e1]
    rfl

/-! ### detectors -/

/-- the detector stage moves probability between detected patterns, it neither creates nor loses any -/
theorem detect_mass (Ks : List Kern) (d : D) (hK : KernsNormed Ks) : mass (detect Ks d) = mass d :=
  mass_detect Ks d hK

/-- `Simulator.probs_svd` with detectors that are all PNR (or absent) takes the mask path of `probs_svd` -/
theorem probsSvdDet_pnr (eng : Fock → D) (c : Cfg) (ds : List Det) (members : List Member)
    (hp : allPnr ds = true) :
    probsSvdDet eng c ds members = probsSvd eng { c with pnr := true } members := by
  simp [probsSvdDet, hp]

/-- …and the distribution of detected patterns is the unconditioned distribution itself (as a list) -/
theorem detectedFull_pnr (eng : Fock → D) (c : Cfg) (ds : List Det) (members : List Member)
    (hp : allPnr ds = true) (hl : ds = [] ∨ ds.length = c.m) (he : EngOK eng c.m members) :
    detectedFull eng c.m ds members = full eng c.m members := by
  unfold detectedFull
  split
  · rfl
  · next hne =>
    have hlen : ds.length = c.m := by
      rcases hl with h | h
      · simp [h] at hne
      · exact h
    exact detect_pnr ds hp _ (fun p hp' => by rw [hlen]; exact full_keys eng c.m members he.shape p hp')

/-- **condition_spec_pnr_detectors.**  With photon-number-resolving detectors everywhere the answer is the
conditioning of the distribution of detected patterns — the statement of `condition_spec`, `physical_perf_spec`,
`logical_perf_spec` read on `detectedFull`.  (Layouts containing a threshold / pseudo-PNR detector — mask off —
are `condition_spec_nonpnr_detectors` … below; `condition_spec_detectors` covers every layout.) -/
theorem condition_spec_pnr_detectors (eng : Fock → D) (c : Cfg) (ds : List Det) (members : List Member)
    (hp : allPnr ds = true) (hl : ds = [] ∨ ds.length = c.m)
    (wf : HeraldsWF c.m c.heralds) (he : EngOK eng c.m members) (hmix : MixOK members)
    (hret : mass (retained (cond c) (detectedFull eng c.m ds members)) ≠ 0) :
    (probsSvdDet eng c ds members).results = conditioned (cond c) (detectedFull eng c.m ds members) ∧
    (probsSvdDet eng c ds members).phys = physPerf (cond c) (detectedFull eng c.m ds members) ∧
    (probsSvdDet eng c ds members).logical = logicalPerf (cond c) (detectedFull eng c.m ds members) := by
  rw [detectedFull_pnr eng c ds members hp hl he] at hret ⊢
  rw [probsSvdDet_pnr eng c ds members hp]
  exact ⟨condition_spec eng { c with pnr := true } members wf he hmix hret,
    physical_perf_spec eng { c with pnr := true } members he hmix,
    logical_perf_spec eng { c with pnr := true } members wf he hmix⟩

/-- the mask is *not* harmless next to a threshold detector: were the herald mask used (`pnr := true`) while a
data mode is read by a threshold detector, the physical performance would be that of the herald-compatible
outputs only.  Identity circuit on 2 modes, herald 1 on mode 0, threshold on mode 1, filter 1 (threshold 2 with the
herald), input `|1,2>` with probability 1/2 and `|0,2>` with 1/2: the detected pattern has at most 1 + 1 photons,
so the filter passes with probability 1/2 — which is what the mask-free detector path reports. -/
example :
    (probsSvdDet idEng { m := 2, heralds := [(0, 1)], ps := .tt, userFilter := 1, keepHeralds := false, pnr := true }
      [.none, .thr] [⟨1/2, [[1, 2]]⟩, ⟨1/2, [[0, 2]]⟩]).phys = 1/2 := by
  simp [probsSvdDet, allPnr, Det.isPnr, physInputs, minFilter, nHeralds, Member.n, kept, memberDist, convAll,
    groupDist, canUseMask, idEng, mix, scale, conv, zeros, fadd, List.replicate, mass, Dist.normalize, detect,
    detectState, Det.kern, restrict]
  norm_num

example : heraldMask 4 [(2, 0), (1, 1)] = heraldMask 4 [(1, 1), (2, 0)] ∧
    interleave 4 [(2, 0), (1, 1)] [2, 3] = [2, 1, 0, 3] := by decide

example : (probsSvd idEng { exCfg with heralds := [(1, 1)] } exMembers).results = (probsSvd idEng exCfg exMembers).results :=
  (probsSvd_herald_order idEng exCfg [(1, 1)] exMembers (List.Perm.refl _) exWF exEng exMix exRet).1

example : mass (detect ([Det.thr, Det.none].map Det.kern) [([2, 1], 1/2), ([0, 3], 1/2)]) = 1 := by
  rw [detect_mass]
  · norm_num [mass]
  · intro K hK k
    simp only [List.map_cons, List.map_nil, List.mem_cons, List.not_mem_nil, or_false] at hK
    rcases hK with rfl | rfl <;> simp [Det.kern]

example : (probsSvdDet idEng exCfg [.pnr, .none, .pnr] exMembers).results =
    conditioned (cond exCfg) (detectedFull idEng exCfg.m [.pnr, .none, .pnr] exMembers) :=
  (condition_spec_pnr_detectors idEng exCfg [.pnr, .none, .pnr] exMembers (by decide) (Or.inr rfl) exWF exEng exMix
    (by rw [detectedFull_pnr idEng exCfg _ exMembers (by decide) (Or.inr rfl) exEng]; exact exRet)).1

/-! ### the engine hypothesis discharged: Fock-space engine of a unitary matrix

`EngOK` was a hypothesis on an abstract engine.  For the specification engine `probsFock U` of a *unitary* `U` all
three parts hold — shape by enumeration (`probsFock_shape`), non-negativity by construction, total probability one
by C02's `dist_sums_to_one_GQ` (Parseval for permanents) — so the end-to-end statements below assume unitarity of
the circuit matrix and well-formed data only. -/

/-- the Fock-space distribution of one group of photons through a unitary matrix has total probability one -/
theorem probsFock_total_one {m : ℕ} (U : Matrix (Fin m) (Fin m) GQ) (hU : IsUnitary U) (s : Fock)
    (hs : s.length = m) : mass (probsFock U s) = 1 := by
  rw [mass_probsFock]
  exact PM.C02.dist_sums_to_one_GQ U hU s hs

/-- `EngOK` holds for the Fock-space engine of every unitary matrix, on every mixture of `m`-mode groups -/
theorem fock_engine_ok {m : ℕ} (U : Matrix (Fin m) (Fin m) GQ) (hU : IsUnitary U) (members : List Member)
    (hlen : ∀ mb ∈ members, ∀ s ∈ mb.groups, s.length = m) : EngOK (probsFock U) m members :=
  ⟨fun _ _ s _ => probsFock_shape U s,
   fun mb hmb s hs => probsFock_total_one U hU s (hlen mb hmb s hs),
   fun _ _ s _ => NN_probsFock U s⟩

/-- the unconditioned output distribution of a mixture through a unitary circuit is a probability distribution -/
theorem full_mass_one_unitary {m : ℕ} (U : Matrix (Fin m) (Fin m) GQ) (hU : IsUnitary U) (members : List Member)
    (hlen : ∀ mb ∈ members, ∀ s ∈ mb.groups, s.length = m) (hmix : MixOK members) :
    mass (full (probsFock U) m members) = 1 :=
  mass_full_one _ m members (fock_engine_ok U hU members hlen).massOne hmix.wsum

/-- **condition_spec for a unitary circuit**, against the shared specification: the returned distribution is the
mixture of the members' `probsTagged` distributions restricted to filter ∧ heralds ∧ post-selection, herald modes
removed, renormalised.  No hypothesis on the engine. -/
theorem condition_spec_unitary {m : ℕ} (c : Cfg) (hcm : c.m = m) (U : Matrix (Fin m) (Fin m) GQ) (hU : IsUnitary U)
    (members : List Member) (wf : HeraldsWF c.m c.heralds)
    (hlen : ∀ mb ∈ members, ∀ s ∈ mb.groups, s.length = m) (hmix : MixOK members)
    (hret : mass (retained (cond c) (mix (members.map fun mb => (mb.w, probsTagged U mb.groups)))) ≠ 0) :
    (probsSvd (probsFock U) c members).results =
      conditioned (cond c) (mix (members.map fun mb => (mb.w, probsTagged U mb.groups))) := by
  subst hcm
  rw [← full_eq_probsTagged] at hret ⊢
  exact condition_spec _ c members wf (fock_engine_ok U hU members hlen) hmix hret

/-- …and it has total probability one -/
theorem results_mass_one_unitary {m : ℕ} (c : Cfg) (hcm : c.m = m) (U : Matrix (Fin m) (Fin m) GQ) (hU : IsUnitary U)
    (members : List Member) (wf : HeraldsWF c.m c.heralds)
    (hlen : ∀ mb ∈ members, ∀ s ∈ mb.groups, s.length = m) (hmix : MixOK members)
    (hret : mass (retained (cond c) (mix (members.map fun mb => (mb.w, probsTagged U mb.groups)))) ≠ 0) :
    mass (probsSvd (probsFock U) c members).results = 1 := by
  subst hcm
  rw [← full_eq_probsTagged] at hret
  exact results_mass_one _ c members wf (fock_engine_ok U hU members hlen) hmix hret

/-- the two performances of a unitary circuit are those of the specification -/
theorem perf_spec_unitary {m : ℕ} (c : Cfg) (hcm : c.m = m) (U : Matrix (Fin m) (Fin m) GQ) (hU : IsUnitary U)
    (members : List Member) (wf : HeraldsWF c.m c.heralds)
    (hlen : ∀ mb ∈ members, ∀ s ∈ mb.groups, s.length = m) (hmix : MixOK members) :
    (probsSvd (probsFock U) c members).phys =
      physPerf (cond c) (mix (members.map fun mb => (mb.w, probsTagged U mb.groups))) ∧
    (probsSvd (probsFock U) c members).logical =
      logicalPerf (cond c) (mix (members.map fun mb => (mb.w, probsTagged U mb.groups))) := by
  subst hcm
  rw [← full_eq_probsTagged]
  have he := fock_engine_ok U hU members hlen
  exact ⟨physical_perf_spec _ c members he hmix, logical_perf_spec _ c members wf he hmix⟩

/-- **perf_product for a unitary circuit**: physical × logical performance = the probability that the output of
the unconditioned (normalised) mixture passes the filter, the heralds and the post-selection -/
theorem perf_product_unitary {m : ℕ} (c : Cfg) (hcm : c.m = m) (U : Matrix (Fin m) (Fin m) GQ) (hU : IsUnitary U)
    (members : List Member) (wf : HeraldsWF c.m c.heralds)
    (hlen : ∀ mb ∈ members, ∀ s ∈ mb.groups, s.length = m) (hmix : MixOK members)
    (hphys : (probsSvd (probsFock U) c members).phys ≠ 0) :
    (probsSvd (probsFock U) c members).phys * (probsSvd (probsFock U) c members).logical =
      mass (retained (cond c) (mix (members.map fun mb => (mb.w, probsTagged U mb.groups)))) ∧
    mass (mix (members.map fun mb => (mb.w, probsTagged U mb.groups))) = 1 := by
  subst hcm
  rw [← full_eq_probsTagged]
  exact ⟨perf_product _ c members wf (fock_engine_ok U hU members hlen) hmix hphys,
    full_mass_one_unitary U hU members hlen hmix⟩

/-! non-vacuity of the unitary corollaries: `uCfg`, `uMembers`, `PM.C02.exU` (`Lemmas/C04Mass.lean`) — a mixing
unitary, a herald, a filter that removes one member; 17/50 of the probability is retained -/

theorem uRet' : mass (retained (cond uCfg) (mix (uMembers.map fun mb => (mb.w, probsTagged PM.C02.exU mb.groups))))
    = 17 / 50 := by
  rw [← full_eq_probsTagged]; exact uRet

example : IsUnitary PM.C02.exU ∧ HeraldsWF uCfg.m uCfg.heralds ∧
    (∀ mb ∈ uMembers, ∀ s ∈ mb.groups, s.length = 2) ∧ MixOK uMembers ∧
    mass (retained (cond uCfg) (mix (uMembers.map fun mb => (mb.w, probsTagged PM.C02.exU mb.groups)))) ≠ 0 :=
  ⟨exU_isUnitary, uWF, uLen, uMix, by rw [uRet']; norm_num⟩

example : mass (probsSvd (probsFock PM.C02.exU) uCfg uMembers).results = 1 :=
  results_mass_one_unitary (m := 2) uCfg rfl PM.C02.exU exU_isUnitary uMembers uWF uLen uMix (by rw [uRet']; norm_num)

example : (probsSvd (probsFock PM.C02.exU) uCfg uMembers).results =
    conditioned (cond uCfg) (mix (uMembers.map fun mb => (mb.w, probsTagged PM.C02.exU mb.groups))) :=
  condition_spec_unitary (m := 2) uCfg rfl PM.C02.exU exU_isUnitary uMembers uWF uLen uMix (by rw [uRet']; norm_num)

example : (probsSvd (probsFock PM.C02.exU) uCfg uMembers).phys * (probsSvd (probsFock PM.C02.exU) uCfg uMembers).logical
    = 17 / 50 := by
  have h := perf_product_unitary (m := 2) uCfg rfl PM.C02.exU exU_isUnitary uMembers uWF uLen uMix (by
    rw [(perf_spec_unitary (m := 2) uCfg rfl PM.C02.exU exU_isUnitary uMembers uWF uLen uMix).1, ← full_eq_probsTagged]
    intro h0
    have hnn : NN (restrict (physOk (cond uCfg)) (full (probsFock PM.C02.exU) 2 uMembers)) :=
      (NN.mix _ (by
        intro p hp
        obtain ⟨mb, hmb, rfl⟩ := List.mem_map.1 hp
        refine ⟨uMix.wpos mb hmb, ?_⟩
        apply NN.convAll
        · intro q hq
          simp only [List.mem_singleton] at hq
          simp [hq]
        · intro d hd
          obtain ⟨s, _, rfl⟩ := List.mem_map.1 hd
          exact NN_probsFock _ s)).restrict _
    have h1 : retained (cond uCfg) (full (probsFock PM.C02.exU) 2 uMembers) =
        restrict (logicOk (cond uCfg)) (restrict (physOk (cond uCfg)) (full (probsFock PM.C02.exU) 2 uMembers)) := by
      rw [restrict_restrict]; rfl
    have h2 := mass_restrict_le hnn (logicOk (cond uCfg))
    rw [← h1] at h2
    have h3 : mass (retained (cond uCfg) (full (probsFock PM.C02.exU) 2 uMembers)) = 17 / 50 := uRet
    unfold physPerf at h0
    linarith)
  rw [h.1, uRet']


/-! ### detectors that are not all PNR: the herald mask is off, `simulate_detectors` filters the detected pattern

`probsSvdDet` on a list containing a threshold / pseudo-PNR detector (anywhere: on a data mode or on a heralded
mode) is the code-shaped model of the mask-free path: input-side photon filter, renormalisation, detector kernels,
detected-side photon filter with its own performance factor, renormalisation, `post_select_distribution`.  The
theorems below say that this equals the *specification* — one conditioning of the distribution of detected
patterns `detectedFull`.  Hypotheses: the engine and the mixture as before, and `KernsOK N` on the kernels for the
photon numbers `0..N` that occur (rows are probability distributions, no detector reports more photons than it
received — true of `Detector.pnr/threshold` for every `N` (`kernsOK_builtin`), and of the closed-form kernels of
interleaved pseudo-PNR detectors).  `HeraldsWF` is *not* needed on this path. -/

/-- **physical performance with non-PNR detectors** = probability that the *detected* pattern passes the photon
filter (the code's product `(1 - Σ inputs below the filter) · (passing fraction after detection)`). -/
theorem physical_perf_spec_nonpnr_detectors (eng : Fock → D) (c : Cfg) (ds : List Det) (members : List Member)
    (N : ℕ) (hp : allPnr ds = false) (he : EngOK eng c.m members) (hmix : MixOK members)
    (hN : ∀ mb ∈ members, mb.n ≤ N) (hK : KernsOK N (ds.map Det.kern)) :
    (probsSvdDet eng c ds members).phys = physPerf (cond c) (detectedFull eng c.m ds members) := by
  have F := detFacts eng c ds members N hp he hmix hN hK
  rw [probsSvdDet_nonpnr eng c ds members hp]
  unfold physPerf
  by_cases h0 : mass (codeRes eng { c with pnr := false } members) = 0
  · rw [if_pos h0]
    have hP : physInputs c members = 0 := by rw [← F.massX]; exact h0
    rw [F.zero hP]
    exact hP
  · rw [if_neg h0]
    have hP : physInputs c members ≠ 0 := by rw [← F.massX]; exact h0
    have h1 := mass_restrict_add (physOk (cond c)) (detRes eng c ds members)
    rw [F.massDet h0, F.pass h0, mass_scale] at h1
    have h2 : 1 - mass (restrict (fun t => !physOk (cond c) t) (detRes eng c ds members)) =
        (physInputs c members)⁻¹ * mass (restrict (physOk (cond c)) (detectedFull eng c.m ds members)) := by
      linarith
    show physInputs c members * (1 - mass (restrict (fun t => !physOk (cond c) t) (detRes eng c ds members))) = _
    rw [h2]
    field_simp

/-- **condition_spec with non-PNR detectors.**  Whenever something is retained, the returned distribution *is*
(as a list) the distribution of detected patterns restricted to filter ∧ heralds ∧ post-selection, heralded modes
removed (unless kept), renormalised. -/
theorem condition_spec_nonpnr_detectors (eng : Fock → D) (c : Cfg) (ds : List Det) (members : List Member)
    (N : ℕ) (hp : allPnr ds = false) (he : EngOK eng c.m members) (hmix : MixOK members)
    (hN : ∀ mb ∈ members, mb.n ≤ N) (hK : KernsOK N (ds.map Det.kern))
    (hret : mass (retained (cond c) (detectedFull eng c.m ds members)) ≠ 0) :
    (probsSvdDet eng c ds members).results = conditioned (cond c) (detectedFull eng c.m ds members) := by
  have F := detFacts eng c ds members N hp he hmix hN hK
  have e1 : retained (cond c) (detectedFull eng c.m ds members) =
      restrict (logicOk (cond c)) (restrict (physOk (cond c)) (detectedFull eng c.m ds members)) := by
    rw [restrict_restrict]; rfl
  have hRY : mass (restrict (logicOk (cond c)) (restrict (physOk (cond c)) (detectedFull eng c.m ds members))) ≠ 0 := by
    rwa [e1] at hret
  have hY : mass (restrict (physOk (cond c)) (detectedFull eng c.m ds members)) ≠ 0 := by
    intro h
    apply hRY
    have h1 := mass_restrict_le F.nnY (logicOk (cond c))
    have h2 := (F.nnY.restrict (logicOk (cond c))).mass_nonneg
    linarith
  have hP : physInputs c members ≠ 0 := fun h => hY (F.zero h)
  have h0 : mass (codeRes eng { c with pnr := false } members) ≠ 0 := by rw [F.massX]; exact hP
  rw [probsSvdDet_nonpnr eng c ds members hp, if_neg h0]
  show (postSelect c (normalize (restrict (physOk (cond c)) (detRes eng c ds members)))).1 = _
  rw [F.pass h0, normalize_scale _ (inv_ne_zero hP) _ hY, postSelect_normalize_fst c _ hY hRY]
  unfold conditioned
  rw [e1]

/-- **logical performance with non-PNR detectors**, full statement.  It is the specification's
P(heralds ∧ post-selection | detected pattern passes the filter) — except in the degenerate case where some input
passes the input-side filter but no detected pattern can pass the detected-side one (conditioning on an event of
probability 0): there the code reports 1, where the specification's convention (and the PNR path) is 0. -/
theorem logical_perf_nonpnr_detectors_full (eng : Fock → D) (c : Cfg) (ds : List Det) (members : List Member)
    (N : ℕ) (hp : allPnr ds = false) (he : EngOK eng c.m members) (hmix : MixOK members)
    (hN : ∀ mb ∈ members, mb.n ≤ N) (hK : KernsOK N (ds.map Det.kern)) :
    (probsSvdDet eng c ds members).logical =
      if physPerf (cond c) (detectedFull eng c.m ds members) = 0 ∧ physInputs c members ≠ 0 then 1
      else logicalPerf (cond c) (detectedFull eng c.m ds members) := by
  have F := detFacts eng c ds members N hp he hmix hN hK
  have e1 : retained (cond c) (detectedFull eng c.m ds members) =
      restrict (logicOk (cond c)) (restrict (physOk (cond c)) (detectedFull eng c.m ds members)) := by
    rw [restrict_restrict]; rfl
  rw [probsSvdDet_nonpnr eng c ds members hp]
  unfold logicalPerf physPerf
  by_cases h0 : mass (codeRes eng { c with pnr := false } members) = 0
  · rw [if_pos h0]
    have hP : physInputs c members = 0 := by rw [← F.massX]; exact h0
    simp [hP, F.zero hP]
  · rw [if_neg h0]
    have hP : physInputs c members ≠ 0 := by rw [← F.massX]; exact h0
    have hPpos : 0 < physInputs c members := lt_of_le_of_ne F.physNonneg (Ne.symm hP)
    show (if 0 < mass (codeRes eng { c with pnr := false } members) ∧ 0 < physInputs c members
            then mass (codeRes eng { c with pnr := false } members) / physInputs c members
            else mass (codeRes eng { c with pnr := false } members)) *
          (postSelect c (normalize (restrict (physOk (cond c)) (detRes eng c ds members)))).2 = _
    rw [F.massX, if_pos ⟨hPpos, hPpos⟩, div_self hP, one_mul, F.pass h0]
    by_cases hY : mass (restrict (physOk (cond c)) (detectedFull eng c.m ds members)) = 0
    · rw [if_pos ⟨hY, hP⟩]
      apply postSelect_snd_of_mass_zero
      · exact F.nnY.scale (le_of_lt (inv_pos.2 hPpos))
      · rw [mass_scale, hY, mul_zero]
    · rw [if_neg (fun h => hY h.1), if_neg hY, normalize_scale _ (inv_ne_zero hP) _ hY,
        postSelect_normalize_snd c _ hY, e1]

/-- …in particular, whenever the detected pattern can pass the filter, it is the specification's -/
theorem logical_perf_spec_nonpnr_detectors (eng : Fock → D) (c : Cfg) (ds : List Det) (members : List Member)
    (N : ℕ) (hp : allPnr ds = false) (he : EngOK eng c.m members) (hmix : MixOK members)
    (hN : ∀ mb ∈ members, mb.n ≤ N) (hK : KernsOK N (ds.map Det.kern))
    (hphys : physPerf (cond c) (detectedFull eng c.m ds members) ≠ 0) :
    (probsSvdDet eng c ds members).logical = logicalPerf (cond c) (detectedFull eng c.m ds members) := by
  rw [logical_perf_nonpnr_detectors_full eng c ds members N hp he hmix hN hK, if_neg (fun h => hphys h.1)]

/-- **perf_product with non-PNR detectors**, without any side condition: physical × logical performance = total
retained probability of the distribution of detected patterns (also in the degenerate case above: both sides 0) -/
theorem perf_product_nonpnr_detectors (eng : Fock → D) (c : Cfg) (ds : List Det) (members : List Member)
    (N : ℕ) (hp : allPnr ds = false) (he : EngOK eng c.m members) (hmix : MixOK members)
    (hN : ∀ mb ∈ members, mb.n ≤ N) (hK : KernsOK N (ds.map Det.kern)) :
    (probsSvdDet eng c ds members).phys * (probsSvdDet eng c ds members).logical =
      mass (retained (cond c) (detectedFull eng c.m ds members)) := by
  have F := detFacts eng c ds members N hp he hmix hN hK
  rw [physical_perf_spec_nonpnr_detectors eng c ds members N hp he hmix hN hK]
  by_cases hphys : physPerf (cond c) (detectedFull eng c.m ds members) = 0
  · rw [hphys, zero_mul]
    have e1 : retained (cond c) (detectedFull eng c.m ds members) =
        restrict (logicOk (cond c)) (restrict (physOk (cond c)) (detectedFull eng c.m ds members)) := by
      rw [restrict_restrict]; rfl
    have h1 := mass_restrict_le F.nnY (logicOk (cond c))
    have h2 := (F.nnY.restrict (logicOk (cond c))).mass_nonneg
    unfold physPerf at hphys
    rw [e1]
    linarith
  · rw [logical_perf_spec_nonpnr_detectors eng c ds members N hp he hmix hN hK hphys]
    exact SimSpec.perf_product _ _ hphys

/-- **condition_spec_detectors** — every detector layout (absent, all PNR, threshold, pseudo-PNR, mixed; on data
modes or on heralded modes; mask on or off).  The three outputs of `probs_svd(svd, detectors)` are the conditioning
of the distribution of detected patterns. -/
theorem condition_spec_detectors (eng : Fock → D) (c : Cfg) (ds : List Det) (members : List Member) (N : ℕ)
    (hl : ds = [] ∨ ds.length = c.m) (wf : HeraldsWF c.m c.heralds) (he : EngOK eng c.m members)
    (hmix : MixOK members) (hN : ∀ mb ∈ members, mb.n ≤ N) (hK : KernsOK N (ds.map Det.kern))
    (hret : mass (retained (cond c) (detectedFull eng c.m ds members)) ≠ 0) :
    (probsSvdDet eng c ds members).results = conditioned (cond c) (detectedFull eng c.m ds members) ∧
    (probsSvdDet eng c ds members).phys = physPerf (cond c) (detectedFull eng c.m ds members) ∧
    (probsSvdDet eng c ds members).logical = logicalPerf (cond c) (detectedFull eng c.m ds members) := by
  by_cases hp : allPnr ds = true
  · exact condition_spec_pnr_detectors eng c ds members hp hl wf he hmix hret
  · have hp' : allPnr ds = false := by simpa using hp
    have F := detFacts eng c ds members N hp' he hmix hN hK
    refine ⟨condition_spec_nonpnr_detectors eng c ds members N hp' he hmix hN hK hret,
      physical_perf_spec_nonpnr_detectors eng c ds members N hp' he hmix hN hK,
      logical_perf_spec_nonpnr_detectors eng c ds members N hp' he hmix hN hK ?_⟩
    intro h
    apply hret
    have e1 : retained (cond c) (detectedFull eng c.m ds members) =
        restrict (logicOk (cond c)) (restrict (physOk (cond c)) (detectedFull eng c.m ds members)) := by
      rw [restrict_restrict]; rfl
    have h1 := mass_restrict_le F.nnY (logicOk (cond c))
    have h2 := (F.nnY.restrict (logicOk (cond c))).mass_nonneg
    unfold physPerf at h
    rw [e1]
    linarith

/-- the same for the built-in detectors (none / `Detector.pnr()` / `Detector.threshold()`, in any arrangement):
no hypothesis on kernels or photon numbers is left -/
theorem condition_spec_builtin_detectors (eng : Fock → D) (c : Cfg) (ds : List Det) (members : List Member)
    (hb : ∀ d ∈ ds, d.builtin = true)
    (hl : ds = [] ∨ ds.length = c.m) (wf : HeraldsWF c.m c.heralds) (he : EngOK eng c.m members)
    (hmix : MixOK members)
    (hret : mass (retained (cond c) (detectedFull eng c.m ds members)) ≠ 0) :
    (probsSvdDet eng c ds members).results = conditioned (cond c) (detectedFull eng c.m ds members) ∧
    (probsSvdDet eng c ds members).phys = physPerf (cond c) (detectedFull eng c.m ds members) ∧
    (probsSvdDet eng c ds members).logical = logicalPerf (cond c) (detectedFull eng c.m ds members) :=
  condition_spec_detectors eng c ds members ((members.map (·.n)).sum) hl wf he hmix
    (fun _ hmb => List.single_le_sum (fun _ _ => Nat.zero_le _) _ (List.mem_map_of_mem hmb))
    (kernsOK_builtin _ ds hb) hret


/-! non-vacuity of the detector theorems (`Lemmas/C04Det.lean`: `dCfg`, `dMembers`, `dDets` = threshold detector on
the data mode, `dDetsP` = threshold detector on the *heralded* mode and an interleaved pseudo-PNR kernel table on the
data mode): every hypothesis holds and half of the probability is retained -/

example : allPnr dDets = false ∧ EngOK idEng dCfg.m dMembers ∧ MixOK dMembers ∧ (∀ mb ∈ dMembers, mb.n ≤ 3) ∧
    KernsOK 3 (dDets.map Det.kern) ∧ mass (retained (cond dCfg) (detectedFull idEng dCfg.m dDets dMembers)) ≠ 0 :=
  ⟨by decide, dEng, dMix, dN, kernsOK_builtin 3 dDets (by decide), by rw [dRet]; norm_num⟩

example : (probsSvdDet idEng dCfg dDets dMembers).results =
    conditioned (cond dCfg) (detectedFull idEng dCfg.m dDets dMembers) :=
  condition_spec_nonpnr_detectors idEng dCfg dDets dMembers 3 (by decide) dEng dMix dN
    (kernsOK_builtin 3 dDets (by decide)) (by rw [dRet]; norm_num)

example : (probsSvdDet idEng dCfg dDetsP dMembers).results =
      conditioned (cond dCfg) (detectedFull idEng dCfg.m dDetsP dMembers) ∧
    (probsSvdDet idEng dCfg dDetsP dMembers).phys = physPerf (cond dCfg) (detectedFull idEng dCfg.m dDetsP dMembers) ∧
    (probsSvdDet idEng dCfg dDetsP dMembers).logical =
      logicalPerf (cond dCfg) (detectedFull idEng dCfg.m dDetsP dMembers) :=
  condition_spec_detectors idEng dCfg dDetsP dMembers 3 (Or.inr rfl) dWF dEng dMix dN dKernsP
    (by rw [dRetP]; norm_num)

example : (probsSvdDet idEng dCfg dDets dMembers).phys = physPerf (cond dCfg) (detectedFull idEng dCfg.m dDets dMembers) :=
  physical_perf_spec_nonpnr_detectors idEng dCfg dDets dMembers 3 (by decide) dEng dMix dN
    (kernsOK_builtin 3 dDets (by decide))

example : (probsSvdDet idEng dCfg dDets dMembers).phys * (probsSvdDet idEng dCfg dDets dMembers).logical = 1 / 2 := by
  rw [perf_product_nonpnr_detectors idEng dCfg dDets dMembers 3 (by decide) dEng dMix dN
    (kernsOK_builtin 3 dDets (by decide)), dRet]

example : (probsSvdDet idEng dCfg dDets dMembers).results =
    conditioned (cond dCfg) (detectedFull idEng dCfg.m dDets dMembers) :=
  (condition_spec_builtin_detectors idEng dCfg dDets dMembers (by decide) (Or.inr rfl) dWF dEng dMix
    (by rw [dRet]; norm_num)).1

/-- the degenerate case of `logical_perf_nonpnr_detectors_full` is reachable: one mode, threshold detector, filter 2,
input `|2>` — the input passes the input-side filter, the detected pattern `|1>` cannot pass the detected-side one;
the code's logical performance is 1 where the specification's convention is 0 (physical performance 0 either way) -/
example :
    (probsSvdDet idEng { m := 1, heralds := [], ps := .tt, userFilter := 2, keepHeralds := false, pnr := true }
      [.thr] [⟨1, [[2]]⟩]).logical = 1 ∧
    logicalPerf (cond { m := 1, heralds := [], ps := .tt, userFilter := 2, keepHeralds := false, pnr := true })
      (detectedFull idEng 1 [.thr] [⟨1, [[2]]⟩]) = 0 ∧
    (probsSvdDet idEng { m := 1, heralds := [], ps := .tt, userFilter := 2, keepHeralds := false, pnr := true }
      [.thr] [⟨1, [[2]]⟩]).phys = 0 := by
  refine ⟨?_, ?_, ?_⟩
  · simp [probsSvdDet, allPnr, Det.isPnr, physInputs, minFilter, nHeralds, Member.n, kept, memberDist, convAll,
      groupDist, canUseMask, idEng, mix, scale, conv, zeros, fadd, List.replicate, mass, Dist.normalize, detect,
      detectState, Det.kern, restrict, postSelect, hasCond]
  · simp [logicalPerf, physPerf, cond, detectedFull, full, fullMember, convAll, idEng, mix, scale, conv, zeros, fadd,
      List.replicate, mass, detect, detectState, Det.kern, restrict, physOk, minFilter, nHeralds]
  · simp [probsSvdDet, allPnr, Det.isPnr, physInputs, minFilter, nHeralds, Member.n, kept, memberDist, convAll,
      groupDist, canUseMask, idEng, mix, scale, conv, zeros, fadd, List.replicate, mass, Dist.normalize, detect,
      detectState, Det.kern, restrict]

/-- the detector theorems for a unitary circuit: no hypothesis on the engine (built-in detectors: none on kernels) -/
theorem condition_spec_builtin_detectors_unitary {m : ℕ} (c : Cfg) (hcm : c.m = m) (U : Matrix (Fin m) (Fin m) GQ)
    (hU : IsUnitary U) (ds : List Det) (members : List Member) (hb : ∀ d ∈ ds, d.builtin = true)
    (hl : ds = [] ∨ ds.length = m) (wf : HeraldsWF c.m c.heralds)
    (hlen : ∀ mb ∈ members, ∀ s ∈ mb.groups, s.length = m) (hmix : MixOK members)
    (hret : mass (retained (cond c) (detectedFull (probsFock U) m ds members)) ≠ 0) :
    (probsSvdDet (probsFock U) c ds members).results =
      conditioned (cond c) (detectedFull (probsFock U) m ds members) ∧
    (probsSvdDet (probsFock U) c ds members).phys = physPerf (cond c) (detectedFull (probsFock U) m ds members) ∧
    (probsSvdDet (probsFock U) c ds members).logical =
      logicalPerf (cond c) (detectedFull (probsFock U) m ds members) := by
  subst hcm
  exact condition_spec_builtin_detectors _ c ds members hb hl wf (fock_engine_ok U hU members hlen) hmix hret

/-- …and with kernel tables (interleaved pseudo-PNR) -/
theorem condition_spec_detectors_unitary {m : ℕ} (c : Cfg) (hcm : c.m = m) (U : Matrix (Fin m) (Fin m) GQ)
    (hU : IsUnitary U) (ds : List Det) (members : List Member) (N : ℕ)
    (hl : ds = [] ∨ ds.length = m) (wf : HeraldsWF c.m c.heralds)
    (hlen : ∀ mb ∈ members, ∀ s ∈ mb.groups, s.length = m) (hmix : MixOK members)
    (hN : ∀ mb ∈ members, mb.n ≤ N) (hK : KernsOK N (ds.map Det.kern))
    (hret : mass (retained (cond c) (detectedFull (probsFock U) m ds members)) ≠ 0) :
    (probsSvdDet (probsFock U) c ds members).results =
      conditioned (cond c) (detectedFull (probsFock U) m ds members) ∧
    (probsSvdDet (probsFock U) c ds members).phys = physPerf (cond c) (detectedFull (probsFock U) m ds members) ∧
    (probsSvdDet (probsFock U) c ds members).logical =
      logicalPerf (cond c) (detectedFull (probsFock U) m ds members) := by
  subst hcm
  exact condition_spec_detectors _ c ds members N hl wf (fock_engine_ok U hU members hlen) hmix hN hK hret

/-! ### `Simulator.evolve` / `evolve_svd`: the logical-performance bookkeeping

Model: `evolveGroup`, `evolveMerged`, `evolveLogical`, `evolveSvd` (`Lemmas/C04Evolve.lean`; squared amplitudes).
Hypotheses on the engine, for the groups of the input: `m`-mode outputs with the group's photon number, total
probability 1, and the vacuum goes to the vacuum (`eng s = [(s, 1)]` when `s` holds no photon: `evolve` appends a
vacuum group without calling the engine) — all three proved for the Fock-space engine of a unitary matrix
(`probsFock_shape`, `probsFock_total_one`, `probsFock_vacuum`), see `evolve_logical_perf_unitary`. -/

/-- **mask invariance for `evolve`.**  The squared amplitudes that `post_select_statevector` accepts in the state
recombined from the masked, budgeted group outputs are — as a list — the accepted part of the unconditioned product
of the groups' full outputs. -/
theorem evolve_mask_invariance (eng : Fock → D) (c : Cfg) (groups : List Fock) (hne : groups ≠ [])
    (wf : HeraldsWF c.m c.heralds)
    (hshape : ∀ s ∈ groups, ∀ q ∈ eng s, q.1.length = c.m ∧ q.1.sum = s.sum)
    (hvac : ∀ s ∈ groups, s.sum = 0 → eng s = [(s, 1)]) :
    restrict (logicOk (cond c)) (evolveMerged eng c groups) =
    restrict (logicOk (cond c)) (fullMember eng c.m ⟨1, groups⟩) :=
  evolve_accepted_eq eng c groups hne wf hshape hvac

/-- `logical_perf` after `evolve(one annotated Fock state)` = probability that the unconditioned output of that
input satisfies the heralds and the post-selection -/
theorem evolve_logical_perf_member (eng : Fock → D) (c : Cfg) (groups : List Fock) (hne : groups ≠ [])
    (wf : HeraldsWF c.m c.heralds)
    (hshape : ∀ s ∈ groups, ∀ q ∈ eng s, q.1.length = c.m ∧ q.1.sum = s.sum)
    (hvac : ∀ s ∈ groups, s.sum = 0 → eng s = [(s, 1)])
    (hone : ∀ s ∈ groups, mass (eng s) = 1) :
    evolveLogical eng c groups = mass (restrict (logicOk (cond c)) (fullMember eng c.m ⟨1, groups⟩)) := by
  unfold evolveLogical
  split
  · next hnc =>
    have hnc' : hasCond c.ps = false ∧ c.heralds.isEmpty = true := by simpa using hnc
    have hps := hasCond_false hnc'.1
    have hh : c.heralds = [] := by simpa using hnc'.2
    rw [restrict_of_all, mass_fullMember eng c.m ⟨1, groups⟩ hone]
    intro p _
    simp [logicOk, cond, heraldsOk, hps, hh, PS.eval]
  · rw [evolve_accepted_eq eng c groups hne wf hshape hvac]

/-- **evolve_logical_perf_spec** — in the specification's terms: `Simulator.logical_perf` after `evolve` is the
retained mass (heralds ∧ post-selection; `evolve` applies no user photon filter) of the unconditioned output
distribution of the input — the quantity the correspondence compares `sim.logical_perf` with. -/
theorem evolve_logical_perf_spec (eng : Fock → D) (c : Cfg) (groups : List Fock) (hne : groups ≠ [])
    (wf : HeraldsWF c.m c.heralds)
    (hshape : ∀ s ∈ groups, ∀ q ∈ eng s, q.1.length = c.m ∧ q.1.sum = s.sum)
    (hvac : ∀ s ∈ groups, s.sum = 0 → eng s = [(s, 1)])
    (hone : ∀ s ∈ groups, mass (eng s) = 1) :
    evolveLogical eng c groups =
      mass (retained (cond { c with userFilter := 0 }) (full eng c.m [⟨1, groups⟩])) := by
  rw [retained_single eng c groups wf hshape, evolve_logical_perf_member eng c groups hne wf hshape hvac hone]

/-- **evolve_svd_perf_spec.**  `evolve_svd` on a mixture of annotated Fock states: its `physical_perf` (sum of the
weights of the inputs that pass the photon filter) and its `logical_perf` (`Σ p·logical_perf(input) / physical_perf`)
are the specification's, for the unconditioned distribution of the whole mixture.  (No hypothesis on the weights.) -/
theorem evolve_svd_perf_spec (eng : Fock → D) (c : Cfg) (members : List Member)
    (wf : HeraldsWF c.m c.heralds) (he : EngOK eng c.m members)
    (hg : ∀ mb ∈ members, mb.groups ≠ [])
    (hvac : ∀ mb ∈ members, ∀ s ∈ mb.groups, s.sum = 0 → eng s = [(s, 1)]) :
    (evolveSvd eng c members).1 = physPerf (cond c) (full eng c.m members) ∧
    (evolveSvd eng c members).2 = logicalPerf (cond c) (full eng c.m members) := by
  have hphys : physPerf (cond c) (full eng c.m members) = ((kept c members).map (·.w)).sum := by
    rw [physPerf, restrict_phys_full eng c members he.shape, mass_kept_full eng c members he.massOne]
  have hret : mass (retained (cond c) (full eng c.m members)) =
      ((kept c members).map fun mb => mb.w * evolveLogical eng c mb.groups).sum := by
    have e1 : retained (cond c) (full eng c.m members) =
        restrict (logicOk (cond c)) (restrict (physOk (cond c)) (full eng c.m members)) := by
      rw [restrict_restrict]; rfl
    rw [e1, restrict_phys_full eng c members he.shape, restrict_mix, mass_mix, List.map_map, List.map_map]
    congr 1
    apply List.map_congr_left
    intro mb hmb
    have hm := mem_kept hmb
    simp only [Function.comp]
    rw [evolve_logical_perf_member eng c mb.groups (hg mb hm) wf (he.shape mb hm) (hvac mb hm) (he.massOne mb hm)]
    rfl
  refine ⟨hphys.symm, ?_⟩
  unfold logicalPerf
  rw [hret, hphys]
  simp only [evolveSvd]
  by_cases h0 : ((kept c members).map (·.w)).sum = 0
  · simp [h0]
  · simp [h0]

/-- `logical_perf` after `evolve` through a **unitary** circuit: no hypothesis on the engine -/
theorem evolve_logical_perf_unitary {m : ℕ} (c : Cfg) (hcm : c.m = m) (U : Matrix (Fin m) (Fin m) GQ)
    (hU : IsUnitary U) (groups : List Fock) (hne : groups ≠ []) (wf : HeraldsWF c.m c.heralds)
    (hlen : ∀ s ∈ groups, s.length = m) :
    evolveLogical (probsFock U) c groups =
      mass (retained (cond { c with userFilter := 0 }) (probsTagged U groups)) := by
  subst hcm
  have h1 := evolve_logical_perf_spec (probsFock U) c groups hne wf (fun s _ => probsFock_shape U s)
    (fun s hs h0 => probsFock_vacuum U s (hlen s hs) h0)
    (fun s hs => probsFock_total_one U hU s (hlen s hs))
  rw [h1, full_eq_probsTagged]
  simp [mix, scale]

/-- `evolve_svd` through a unitary circuit -/
theorem evolve_svd_perf_unitary {m : ℕ} (c : Cfg) (hcm : c.m = m) (U : Matrix (Fin m) (Fin m) GQ)
    (hU : IsUnitary U) (members : List Member) (wf : HeraldsWF c.m c.heralds)
    (hlen : ∀ mb ∈ members, ∀ s ∈ mb.groups, s.length = m) (hg : ∀ mb ∈ members, mb.groups ≠ []) :
    (evolveSvd (probsFock U) c members).1 =
      physPerf (cond c) (mix (members.map fun mb => (mb.w, probsTagged U mb.groups))) ∧
    (evolveSvd (probsFock U) c members).2 =
      logicalPerf (cond c) (mix (members.map fun mb => (mb.w, probsTagged U mb.groups))) := by
  subst hcm
  rw [← full_eq_probsTagged]
  exact evolve_svd_perf_spec _ c members wf (fock_engine_ok U hU members hlen) hg
    (fun mb hmb s hs h0 => probsFock_vacuum U s (hlen mb hmb s hs) h0)

/-! non-vacuity: `exCfg` (herald 1 on the middle mode, post-selection `[0] >= 1`), an input with two tag groups and
one with a vacuum group; the identity engine sends every state to itself (so the vacuum to the vacuum) -/

example : evolveLogical idEng exCfg [[1, 0, 0], [0, 1, 0]] =
    mass (retained (cond { exCfg with userFilter := 0 }) (full idEng exCfg.m [⟨1, [[1, 0, 0], [0, 1, 0]]⟩])) :=
  evolve_logical_perf_spec idEng exCfg _ (by simp) exWF (by simp [idEng, exCfg]) (by simp [idEng])
    (by simp [idEng, mass])

example : evolveLogical idEng exCfg [[1, 1, 0], [0, 0, 0]] = 1 := by
  rw [evolve_logical_perf_member idEng exCfg _ (by simp) exWF (by simp [idEng, exCfg]) (by simp [idEng])
    (by simp [idEng, mass])]
  simp [fullMember, convAll, idEng, conv, restrict, zeros, fadd, logicOk, cond, exCfg, heraldsOk, PS.eval, Cmp.eval,
    mass, List.replicate]

example : (evolveSvd idEng exCfg exMembers).1 = physPerf (cond exCfg) (full idEng exCfg.m exMembers) ∧
    (evolveSvd idEng exCfg exMembers).2 = logicalPerf (cond exCfg) (full idEng exCfg.m exMembers) :=
  evolve_svd_perf_spec idEng exCfg exMembers exWF exEng
    (by intro mb hmb; simp only [exMembers, List.mem_cons, List.not_mem_nil, or_false] at hmb
        rcases hmb with rfl | rfl | rfl <;> simp)
    (by intro mb _ s _ _; rfl)

example : evolveLogical (probsFock PM.C02.exU) uCfg [[1, 0]] =
    mass (retained (cond { uCfg with userFilter := 0 }) (probsTagged PM.C02.exU [[1, 0]])) :=
  evolve_logical_perf_unitary (m := 2) uCfg rfl PM.C02.exU exU_isUnitary _ (by simp) uWF (by simp)

/-! ### where `HeraldsWF` comes from -/

/-- **heralds_wf_of_declared.**  A herald dictionary obtained by successful `add_herald` calls on an `m`-mode
experiment (`declareHeralds`: a call on an occupied mode or outside the circuit raises) is well formed — distinct
modes inside the circuit — and lists the heralds in declaration order; the hypothesis `HeraldsWF` of the theorems
above is therefore met by construction. -/
theorem heralds_wf_of_declared (m : ℕ) (calls h : List (ℕ × ℕ)) (e : declareHeralds m calls = some h) :
    HeraldsWF m h ∧ h = calls := by
  have := foldlM_addHerald_wf calls [] h ⟨by simp, by simp⟩ e
  simpa using this

/-- conversely every well-formed dictionary is declared without an exception -/
theorem declared_of_heralds_wf (m : ℕ) (h : List (ℕ × ℕ)) (wf : HeraldsWF m h) : declareHeralds m h = some h := by
  have key : ∀ (calls h0 : List (ℕ × ℕ)), HeraldsWF m (h0 ++ calls) →
      calls.foldlM (addHerald m) h0 = some (h0 ++ calls) := by
    intro calls
    induction calls with
    | nil => intro h0 _; simp
    | cons p r ih =>
      intro h0 wf0
      have hnd := wf0.nodup
      rw [List.map_append, List.map_cons, List.nodup_append] at hnd
      have h1 : addHerald m h0 p = some (h0 ++ [p]) := by
        unfold addHerald
        have ha : ¬ p.1 ∈ h0.map (·.1) := fun hm => hnd.2.2 _ hm _ List.mem_cons_self rfl
        have hb : p.1 < m := wf0.inRange p (by simp)
        have : ((h0.map (·.1)).contains p.1 || decide (m ≤ p.1)) = false := by
          simp only [Bool.or_eq_false_iff, decide_eq_false_iff_not, not_le]
          exact ⟨by simpa using ha, hb⟩
        rw [this]; rfl
      simp only [List.foldlM_cons, Option.bind_eq_bind, h1, Option.bind_some]
      have := ih (h0 ++ [p]) (by simpa using wf0)
      simpa using this
  simpa [declareHeralds] using key h [] (by simpa using wf)

example : declareHeralds 4 [(2, 0), (1, 1)] = some [(2, 0), (1, 1)] ∧ declareHeralds 4 [(2, 0), (2, 1)] = none ∧
    declareHeralds 4 [(4, 1)] = none := by decide

example : HeraldsWF 4 [(2, 0), (1, 1)] := (heralds_wf_of_declared 4 [(2, 0), (1, 1)] _ (by decide)).1


/-! ### probability trimming at a non-zero precision (`Model/C04Trim.lean`)

`probsSvdθ eng P c members` is `probs_svd` with the two thresholds of the fast path as they are coded:
`_preprocess_svd` drops the members that pass the photon filter with a weight not above
`p_threshold = max(min_p, max_p · precision)`, and every member's product of (masked) group distributions is
`list_tensor_product(…, prob_threshold = p_threshold / (10 · weight))`.  The statements: trimming only *drops* entries
of the accumulated list (`trim_only_drops`); `physical_perf` is unaffected — the code subtracts only the members below
the photon filter — hence exactly the specification's (`physical_perf_trim_exact`); `logical_perf` is never above the
specification's and below it by at most `trimmed mass / physical_perf` (`logical_perf_trim_bound`); every reported
probability is within `trimmed retained mass / retained mass` of the specification's conditioned distribution
(`results_trim_bound`), the trimmed retained mass being at most the trimmed mass. -/

/-- **trim_only_drops.**  The list accumulated under the thresholds is a sublist of the one accumulated without:
the same entries with the same values in the same order, some of them missing. -/
theorem trim_only_drops (eng : Fock → D) (P : Prec) (c : Cfg) (members : List Member) (he : EngOK eng c.m members) :
    (codeResθ eng P c members).Sublist (codeRes eng c members) :=
  codeResθ_sublist eng P c members (fun mb hmb s hs q hq => (he.shape mb hmb s hs q hq).1)

/-- the trimmed mass and its accepted part: `0 ≤ trimmedRetained ≤ trimmedMass` -/
theorem trimmed_retained_le_trimmed (eng : Fock → D) (P : Prec) (c : Cfg) (members : List Member)
    (he : EngOK eng c.m members) (hmix : MixOK members) :
    0 ≤ trimmedRetained eng P c members ∧ trimmedRetained eng P c members ≤ trimmedMass eng P c members :=
  sublist_mass_restrict (trim_only_drops eng P c members he) (NN_codeRes eng c members he.nonneg hmix.wpos) _

/-- **physical_perf_trim_exact.**  At any precision the reported physical performance is exactly the probability
that the unconditioned output passes the photon filter: the members dropped by the relative threshold pass the
filter, and the code subtracts only those that do not. -/
theorem physical_perf_trim_exact (eng : Fock → D) (P : Prec) (c : Cfg) (members : List Member)
    (he : EngOK eng c.m members) (hmix : MixOK members) :
    (probsSvdθ eng P c members).phys = physPerf (cond c) (full eng c.m members) := by
  rw [← physical_perf_spec eng c members he hmix, probsSvd_eq_finish, probsSvdθ, finishSvd_phys, finishSvd_phys]

/-- **logical_perf_trim_bound.**  The logical performance computed under the thresholds never exceeds the
specification's P(heralds ∧ post-selection | filter passed) and falls short of it by at most the accepted part of the
trimmed mass (hence at most the trimmed mass) divided by the physical performance. -/
theorem logical_perf_trim_bound (eng : Fock → D) (P : Prec) (c : Cfg) (members : List Member)
    (wf : HeraldsWF c.m c.heralds) (he : EngOK eng c.m members) (hmix : MixOK members) :
    (probsSvdθ eng P c members).logical ≤ logicalPerf (cond c) (full eng c.m members) ∧
    logicalPerf (cond c) (full eng c.m members) - (probsSvdθ eng P c members).logical =
      trimmedRetained eng P c members / physPerf (cond c) (full eng c.m members) ∧
    trimmedRetained eng P c members / physPerf (cond c) (full eng c.m members) ≤
      trimmedMass eng P c members / physPerf (cond c) (full eng c.m members) := by
  have hsub := trim_only_drops eng P c members he
  have hNN := NN_codeRes eng c members he.nonneg hmix.wpos
  have hNNθ : NN (codeResθ eng P c members) := NN.of_sublist hsub hNN
  have hle := sublist_mass_le hsub hNN
  have hpos : mass (codeRes eng c members) ≠ 0 → 0 < physInputs c members :=
    physInputs_pos_of_mass eng c members hmix
  have hposθ : mass (codeResθ eng P c members) ≠ 0 → 0 < physInputs c members := by
    intro h
    apply hpos
    intro h0
    have := hNNθ.mass_nonneg
    apply h
    linarith
  have hphys : physPerf (cond c) (full eng c.m members) = physInputs c members := by
    rw [← physical_perf_spec eng c members he hmix, probsSvd_eq_finish, finishSvd_phys]
  have hex : logicalPerf (cond c) (full eng c.m members) =
      mass (restrict (logicOk (cond c)) (codeRes eng c members)) / physInputs c members := by
    rw [← logical_perf_spec eng c members wf he hmix, probsSvd_eq_finish, finishSvd_logical c _ _ hNN hpos]
  have hθ : (probsSvdθ eng P c members).logical =
      mass (restrict (logicOk (cond c)) (codeResθ eng P c members)) / physInputs c members := by
    rw [probsSvdθ, finishSvd_logical c _ _ hNNθ hposθ]
  obtain ⟨h0, h1⟩ := trimmed_retained_le_trimmed eng P c members he hmix
  have hP0 : 0 ≤ physInputs c members := by
    rw [physInputs_eq c members hmix.wsum]
    apply List.sum_nonneg
    intro x hx
    obtain ⟨mb, hmb, rfl⟩ := List.mem_map.1 hx
    exact hmix.wpos mb (mem_kept hmb)
  have hdiff : logicalPerf (cond c) (full eng c.m members) - (probsSvdθ eng P c members).logical =
      trimmedRetained eng P c members / physInputs c members := by
    rw [hex, hθ, ← sub_div]
    rfl
  refine ⟨?_, ?_, ?_⟩
  · have : 0 ≤ trimmedRetained eng P c members / physInputs c members := div_nonneg h0 hP0
    linarith
  · rw [hphys, hdiff]
  · rw [hphys]
    exact div_le_div_of_nonneg_right h1 hP0

/-- **results_trim_bound.**  Whenever the trimmed computation retains something, every probability it reports is
within `trimmed retained mass / retained mass` (≤ `trimmed mass / retained mass`) of the specification's conditioned
distribution — for every outcome `t`, reported or not. -/
theorem results_trim_bound (eng : Fock → D) (P : Prec) (c : Cfg) (members : List Member)
    (wf : HeraldsWF c.m c.heralds) (he : EngOK eng c.m members) (hmix : MixOK members)
    (hret : mass (restrict (logicOk (cond c)) (codeResθ eng P c members)) ≠ 0) (t : Fock) :
    |get (probsSvdθ eng P c members).results t - get (conditioned (cond c) (full eng c.m members)) t| ≤
      trimmedRetained eng P c members / mass (retained (cond c) (full eng c.m members)) ∧
    trimmedRetained eng P c members / mass (retained (cond c) (full eng c.m members)) ≤
      trimmedMass eng P c members / mass (retained (cond c) (full eng c.m members)) := by
  have hsub := trim_only_drops eng P c members he
  have hNN := NN_codeRes eng c members he.nonneg hmix.wpos
  have hNNθ : NN (codeResθ eng P c members) := NN.of_sublist hsub hNN
  have hR := retained_eq eng c members wf he.shape
  have hA : (mapKeys (reported (cond c)) (restrict (logicOk (cond c)) (codeResθ eng P c members))).Sublist
      (mapKeys (reported (cond c)) (restrict (logicOk (cond c)) (codeRes eng c members))) :=
    mapKeys_sublist _ (restrict_sublist _ hsub)
  have hAnn : NN (mapKeys (reported (cond c)) (restrict (logicOk (cond c)) (codeRes eng c members))) := by
    intro p hp
    simp only [mapKeys, List.mem_map] at hp
    obtain ⟨q, hq, rfl⟩ := hp
    exact hNN q (mem_restrict hq)
  have hb := normalized_get_bound hA hAnn (by rwa [mass_mapKeys]) t
  rw [mass_mapKeys, mass_mapKeys] at hb
  obtain ⟨h0, h1⟩ := trimmed_retained_le_trimmed eng P c members he hmix
  have hRpos : 0 ≤ mass (restrict (logicOk (cond c)) (codeRes eng c members)) := (hNN.restrict _).mass_nonneg
  constructor
  · rw [probsSvdθ, finishSvd_results c _ _ hNNθ hret, conditioned, hR]
    exact hb
  · rw [hR]
    exact div_le_div_of_nonneg_right h1 hRpos

/-- in particular, with nothing trimmed the three outputs are the specification's -/
theorem trim_nothing_exact (eng : Fock → D) (P : Prec) (c : Cfg) (members : List Member)
    (wf : HeraldsWF c.m c.heralds) (he : EngOK eng c.m members) (hmix : MixOK members)
    (h0 : trimmedMass eng P c members = 0) :
    (probsSvdθ eng P c members).logical = logicalPerf (cond c) (full eng c.m members) ∧
    (mass (restrict (logicOk (cond c)) (codeResθ eng P c members)) ≠ 0 → ∀ t,
      get (probsSvdθ eng P c members).results t = get (conditioned (cond c) (full eng c.m members)) t) := by
  obtain ⟨a0, a1⟩ := trimmed_retained_le_trimmed eng P c members he hmix
  have hr : trimmedRetained eng P c members = 0 := by linarith
  constructor
  · have := (logical_perf_trim_bound eng P c members wf he hmix).2.1
    rw [hr, zero_div] at this
    linarith
  · intro hret t
    have := (results_trim_bound eng P c members wf he hmix hret t).1
    rw [hr, zero_div] at this
    have h2 := abs_nonneg (get (probsSvdθ eng P c members).results t - get (conditioned (cond c) (full eng c.m members)) t)
    have h3 : |get (probsSvdθ eng P c members).results t - get (conditioned (cond c) (full eng c.m members)) t| = 0 :=
      le_antisymm this h2
    have := abs_eq_zero.1 h3
    linarith

/-! non-vacuity: `exCfg`, `exMembers`, identity engine, precision 3/5 (`exPrec`): the threshold is 3/10, the member
of weight 1/4 with two tag groups — which passes the photon filter and the heralds — is dropped: the trimmed mass is
1/4, all of it would have been retained; physical performance 3/4 (exact), logical performance 2/3 instead of 1. -/

example : trimmedMass idEng exPrec exCfg exMembers = 1 / 4 ∧ trimmedRetained idEng exPrec exCfg exMembers = 1 / 4 ∧
    mass (restrict (logicOk (cond exCfg)) (codeResθ idEng exPrec exCfg exMembers)) ≠ 0 := by
  decide +kernel

example : (probsSvdθ idEng exPrec exCfg exMembers).phys = 3 / 4 ∧
    (probsSvdθ idEng exPrec exCfg exMembers).logical = 2 / 3 := by
  decide +kernel

example : (probsSvdθ idEng exPrec exCfg exMembers).phys = physPerf (cond exCfg) (full idEng exCfg.m exMembers) :=
  physical_perf_trim_exact idEng exPrec exCfg exMembers exEng exMix

example : logicalPerf (cond exCfg) (full idEng exCfg.m exMembers) - (probsSvdθ idEng exPrec exCfg exMembers).logical =
    trimmedRetained idEng exPrec exCfg exMembers / physPerf (cond exCfg) (full idEng exCfg.m exMembers) :=
  (logical_perf_trim_bound idEng exPrec exCfg exMembers exWF exEng exMix).2.1

example (t : Fock) : |get (probsSvdθ idEng exPrec exCfg exMembers).results t -
      get (conditioned (cond exCfg) (full idEng exCfg.m exMembers)) t| ≤
    trimmedRetained idEng exPrec exCfg exMembers / mass (retained (cond exCfg) (full idEng exCfg.m exMembers)) :=
  (results_trim_bound idEng exPrec exCfg exMembers exWF exEng exMix (by decide +kernel) t).1

example : (codeResθ idEng exPrec exCfg exMembers).Sublist (codeRes idEng exCfg exMembers) :=
  trim_only_drops idEng exPrec exCfg exMembers exEng

/-! ### a long-lived `Simulator` / `Processor` whose selection changes (`Model/C04Session.lean`)

State machines with the real fields: `_heralds`, the separate `_n_heralds`, `_postselect`, the photon filter,
`_keep_heralds`, `_can_use_mask`, the mask left on the backend (concretely), the walk of `_probs_svd_fast` over the
`(group, budget)` keys sorted by budget with `use_mask` called when the budget changes; for the processor the kept
simulator, built from the heralds and post-selection of that moment and dropped by `_circuit_changed`.  Statement:
after ANY history of selection changes and queries, a query answers exactly what the stateless model `probsSvdDet`
gives for the selection set last — so every theorem above applies to the long-lived object. -/

/-- `_n_heralds` (read by `_best_n`) is the photon sum of `_heralds` (read by the photon filter) after every history -/
theorem simulator_n_heralds_invariant (eng : Fock → D) (m : ℕ) (ops : List SimOp) :
    (SM.exec (simStep eng m) SimSt.init ops).nHer = nHeralds (SM.exec (simStep eng m) SimSt.init ops).heralds :=
  SM.inv_exec _ (fun s => s.nHer = nHeralds s.heralds) (fun s op h => simStep_nHer eng m s op h) _ rfl ops

/-- **simulator_selection_history_independent.**  `probs_svd` on a simulator that went through any history of
`set_selection` / `set_heralds` / `clear_heralds` / `set_postselection` / `clear_postselection` / filter /
`keep_heralds` changes and earlier `probs_svd` calls (any detectors, any inputs: masks left on the backend, mask mode
switched on and off) returns what the stateless model returns for the selection in force. -/
theorem simulator_selection_history_independent (eng : Fock → D) (m : ℕ) (ops : List SimOp) (ds : List Det)
    (members : List Member) :
    (simStep eng m (SM.exec (simStep eng m) SimSt.init ops) (.probsSvd ds members)).2 =
      .res (probsSvdDet eng ((SM.exec (simStep eng m) SimSt.init ops).cfg m) ds members) := by
  show SimOut.res _ = _
  rw [simProbs_out _ _ _ _ _ (simulator_n_heralds_invariant eng m ops)]

/-- two histories that end with the same selection answer every query alike -/
theorem simulator_same_selection_same_answer (eng : Fock → D) (m : ℕ) (h₁ h₂ : List SimOp) (ds : List Det)
    (members : List Member)
    (hc : (SM.exec (simStep eng m) SimSt.init h₁).selection = (SM.exec (simStep eng m) SimSt.init h₂).selection) :
    (simStep eng m (SM.exec (simStep eng m) SimSt.init h₁) (.probsSvd ds members)).2 =
      (simStep eng m (SM.exec (simStep eng m) SimSt.init h₂) (.probsSvd ds members)).2 := by
  rw [simulator_selection_history_independent, simulator_selection_history_independent]
  have : (SM.exec (simStep eng m) SimSt.init h₁).cfg m = (SM.exec (simStep eng m) SimSt.init h₂).cfg m := by
    simp only [SimSt.selection, Prod.mk.injEq] at hc
    simp only [SimSt.cfg, hc]
  rw [this]

/-- **simulator_session_condition_spec.**  …hence, after any history, the three outputs are the conditioning of the
distribution of detected patterns by the heralds, post-selection and filter set last (`condition_spec_detectors`). -/
theorem simulator_session_condition_spec (eng : Fock → D) (m : ℕ) (ops : List SimOp) (ds : List Det)
    (members : List Member) (N : ℕ) (hl : ds = [] ∨ ds.length = m)
    (wf : HeraldsWF m (SM.exec (simStep eng m) SimSt.init ops).heralds) (he : EngOK eng m members)
    (hmix : MixOK members) (hN : ∀ mb ∈ members, mb.n ≤ N) (hK : KernsOK N (ds.map Det.kern))
    (hret : mass (retained (cond ((SM.exec (simStep eng m) SimSt.init ops).cfg m))
      (detectedFull eng m ds members)) ≠ 0) :
    ∃ o, (simStep eng m (SM.exec (simStep eng m) SimSt.init ops) (.probsSvd ds members)).2 = .res o ∧
      o.results = conditioned (cond ((SM.exec (simStep eng m) SimSt.init ops).cfg m)) (detectedFull eng m ds members) ∧
      o.phys = physPerf (cond ((SM.exec (simStep eng m) SimSt.init ops).cfg m)) (detectedFull eng m ds members) ∧
      o.logical = logicalPerf (cond ((SM.exec (simStep eng m) SimSt.init ops).cfg m)) (detectedFull eng m ds members) :=
  ⟨_, simulator_selection_history_independent eng m ops ds members,
    condition_spec_detectors eng ((SM.exec (simStep eng m) SimSt.init ops).cfg m) ds members N hl wf he hmix hN hK hret⟩

/-- the kept simulator of a processor was built for the current heralds and post-selection, after every history -/
theorem processor_kept_simulator_current (eng : Fock → D) (m : ℕ) (ops : List ProcOp) :
    ProcInv (SM.exec (procStep true eng m) ProcSt.init ops) :=
  SM.inv_exec _ ProcInv (fun p op h => procStep_inv eng m p op h) _ procInv_init ops

/-- **processor_selection_history_independent.**  `Processor.probs()` after any history of `add_herald`, detector
changes, `set_postselection` / `clear_postselection`, filter changes and earlier `probs()` calls (kept simulator,
stored automatic filter) returns what the stateless model returns for the heralds, post-selection, detectors and
filter in force (`ValueError` when no filter is set and none can be derived). -/
theorem processor_selection_history_independent (eng : Fock → D) (m : ℕ) (ops : List ProcOp)
    (members : List Member) (autoN : Option ℕ) :
    (procStep true eng m (SM.exec (procStep true eng m) ProcSt.init ops) (.probs members autoN)).2 =
      match (SM.exec (procStep true eng m) ProcSt.init ops).filter.or autoN with
      | none => .exc "ValueError"
      | some f => .res (probsSvdDet eng ((SM.exec (procStep true eng m) ProcSt.init ops).cfg m f)
          (SM.exec (procStep true eng m) ProcSt.init ops).dets members) :=
  procProbs_out eng m _ members autoN (processor_kept_simulator_current eng m ops)

/-! non-vacuity / regression witnesses.  Two different simulator histories (a query with other heralds and a
threshold detector in between, the post-selection set and cleared) ending with the same selection; and the reason
`clear_postselection` must notify: in the variant that does not (`procStep false`), the kept simulator of the
processor keeps the old post-selection — the invariant fails and the stale condition is applied. -/

example : (SM.exec (simStep idEng 2) SimSt.init
      [.setSelection (some 1) none (some [(0, 1)]), .setPostselection (.cond [1] .ge 1),
       .probsSvd [.thr, .none] [⟨1, [[1, 1]]⟩], .clearPostselection, .setHeralds [(1, 0)], .setFilter 0]).selection =
    (SM.exec (simStep idEng 2) SimSt.init [.setSelection (some 0) none (some [(1, 0)])]).selection := by
  rfl

/-- the session used by the witnesses: a post-selection `[0] >= 1` is set, `probs()` is called, the post-selection is
cleared -/
def staleOps : List ProcOp :=
  [.setFilter 0, .setPostselection (.cond [0] .ge 1), .probs [⟨1, [[0, 1]]⟩] none, .clearPostselection]

example : ((SM.exec (procStep false idEng 2) ProcSt.init staleOps).sim.map (·.ps.eval [0, 1])) = some false ∧
    (SM.exec (procStep false idEng 2) ProcSt.init staleOps).ps.isNone = true ∧
    (SM.exec (procStep true idEng 2) ProcSt.init staleOps).sim.isNone = true := by
  decide +kernel

example : (procStep true idEng 2 (SM.exec (procStep true idEng 2) ProcSt.init staleOps)
      (.probs [⟨1, [[0, 1]]⟩] none)).2 =
    .res (probsSvdDet idEng { m := 2, heralds := [], ps := .tt, userFilter := 0, keepHeralds := false, pnr := true }
      [] [⟨1, [[0, 1]]⟩]) := by
  rw [processor_selection_history_independent]
  have h1 : (SM.exec (procStep true idEng 2) ProcSt.init staleOps).filter = some 0 := by decide +kernel
  have h2 : (SM.exec (procStep true idEng 2) ProcSt.init staleOps).heralds = [] := by decide +kernel
  have h3 : (SM.exec (procStep true idEng 2) ProcSt.init staleOps).ps.isNone = true := by decide +kernel
  have h4 : (SM.exec (procStep true idEng 2) ProcSt.init staleOps).dets = [] := by decide +kernel
  have h3' : (SM.exec (procStep true idEng 2) ProcSt.init staleOps).ps = none := by simpa using h3
  simp only [h1, ProcSt.cfg, h2, h3', h4, Option.getD_none]
  rfl

/-! ### superposed (StateVector) inputs: `_probs_svd_generic` (`Model/C04Generic.lean`)

`memberGen U c terms` is what the generic path computes for one superposition: per term and per annotation the group's
amplitudes restricted to what the herald mask (budget `_best_n(n, n_own)`) keeps, recombined, multiplied by the
coefficient, *added* over the terms (interference, `gatherAmps`), squared.  `probsSvdGen` wraps it in the bookkeeping
of `probs_svd`.  Specification: `SimSpec.probsSV` / `probsSVD` and their conditioning. -/

/-- **mask_invariance_superposed.**  Conditioned on the heralds, the distribution computed from the masked group
amplitudes — interference between the terms included — is, as a list, the specification's distribution of the
superposition.  Hypotheses: well-formed heralds; every term holds the same number of photons in `m`-mode groups
(`_preprocess_svd` splits by photon number). -/
theorem mask_invariance_superposed {m : ℕ} (U : Matrix (Fin m) (Fin m) GQ) (c : Cfg) (hcm : c.m = m)
    (wf : HeraldsWF c.m c.heralds) (terms : List Term) (ok : SVOK m terms) :
    restrict (heraldsOk c.heralds) (memberGen U c terms) = restrict (heraldsOk c.heralds) (probsSV U terms) :=
  memberGen_heralds_invariance U c hcm wf terms ok

/-- restricting the groups' outputs to the mask and letting the terms interfere commute -/
theorem mask_commutes_with_interference {m : ℕ} (U : Matrix (Fin m) (Fin m) GQ) (c : Cfg) (terms : List Term) :
    svAmpsMasked U c terms = (svAmps U terms).filter fun p => keyOk c (svN terms) p.1 :=
  svAmpsMasked_eq_filter U c terms

/-- the hypotheses on a mixture of superpositions -/
structure GenOK {m : ℕ} (U : Matrix (Fin m) (Fin m) GQ) (members : List GMember) : Prop where
  sv : ∀ g ∈ members, SVOK m g.terms
  massOne : ∀ g ∈ members, mass (probsSV U g.terms) = 1
  wsum : (members.map (·.w)).sum = 1
  wpos : ∀ g ∈ members, 0 ≤ g.w

theorem genOK_am {m : ℕ} (U : Matrix (Fin m) (Fin m) GQ) (c : Cfg) (hcm : c.m = m) (wf : HeraldsWF c.m c.heralds)
    (members : List GMember) (ok : GenOK U members) : AM.OK c (members.map (toAM U c)) := by
  refine ⟨?_, ?_, ?_, ?_, ?_, ?_⟩
  · intro a ha
    obtain ⟨g, hg, rfl⟩ := List.mem_map.1 ha
    exact memberGen_heralds_invariance U c hcm wf g.terms (ok.sv g hg)
  · intro a ha
    obtain ⟨g, hg, rfl⟩ := List.mem_map.1 ha
    exact probsSV_sums U g.terms (ok.sv g hg)
  · intro a ha
    obtain ⟨g, hg, rfl⟩ := List.mem_map.1 ha
    exact ok.massOne g hg
  · intro a ha
    obtain ⟨g, _, rfl⟩ := List.mem_map.1 ha
    exact NN_memberGen U c g.terms
  · rw [List.map_map]
    exact ok.wsum
  · intro a ha
    obtain ⟨g, hg, rfl⟩ := List.mem_map.1 ha
    exact ok.wpos g hg

theorem fullMix_eq_probsSVD {m : ℕ} (U : Matrix (Fin m) (Fin m) GQ) (c : Cfg) (members : List GMember) :
    AM.fullMix (members.map (toAM U c)) = probsSVD U (members.map fun g => (g.w, g.terms)) := by
  simp [AM.fullMix, probsSVD, List.map_map, Function.comp_def, toAM]

/-- **condition_spec_superposed.**  `probs_svd` on a mixture of superpositions (generic path: masked group
amplitudes, interference, photon filter on the inputs, performance bookkeeping, `post_select_distribution`) returns the
specification's physical and logical performance and — whenever something is retained — the conditioned distribution
of `probsSVD`, as a list. -/
theorem condition_spec_superposed {m : ℕ} (U : Matrix (Fin m) (Fin m) GQ) (c : Cfg) (hcm : c.m = m)
    (wf : HeraldsWF c.m c.heralds) (members : List GMember) (ok : GenOK U members) :
    (probsSvdGen U c members).phys = physPerf (cond c) (probsSVD U (members.map fun g => (g.w, g.terms))) ∧
    (probsSvdGen U c members).logical = logicalPerf (cond c) (probsSVD U (members.map fun g => (g.w, g.terms))) ∧
    (mass (retained (cond c) (probsSVD U (members.map fun g => (g.w, g.terms)))) ≠ 0 →
      (probsSvdGen U c members).results =
        conditioned (cond c) (probsSVD U (members.map fun g => (g.w, g.terms)))) := by
  rw [← fullMix_eq_probsSVD U c members]
  exact AM.spec c _ (genOK_am U c hcm wf members ok)

/-- physical × logical performance of the generic path = total retained probability -/
theorem perf_product_superposed {m : ℕ} (U : Matrix (Fin m) (Fin m) GQ) (c : Cfg) (hcm : c.m = m)
    (wf : HeraldsWF c.m c.heralds) (members : List GMember) (ok : GenOK U members)
    (hphys : (probsSvdGen U c members).phys ≠ 0) :
    (probsSvdGen U c members).phys * (probsSvdGen U c members).logical =
      mass (retained (cond c) (probsSVD U (members.map fun g => (g.w, g.terms)))) := by
  obtain ⟨h1, h2, _⟩ := condition_spec_superposed U c hcm wf members ok
  rw [h2]
  rw [h1] at hphys ⊢
  exact SimSpec.perf_product _ _ hphys

/-- **condition_spec_superposed_unitary.**  For a unitary circuit the unit mass of every member's distribution is a
theorem (C03: `probsSV_mass_one_aux`, Parseval for permanents with interference); what is left are hypotheses on the
data: same photon number in `m`-mode groups, pairwise distinct basis states and a non-zero vector per member,
non-negative weights of total 1. -/
theorem condition_spec_superposed_unitary {m : ℕ} (U : Matrix (Fin m) (Fin m) GQ) (hU : IsUnitary U) (c : Cfg)
    (hcm : c.m = m) (wf : HeraldsWF c.m c.heralds) (members : List GMember)
    (hsv : ∀ g ∈ members, SVOK m g.terms) (hnd : ∀ g ∈ members, (g.terms.map (·.groups)).Nodup)
    (hnz : ∀ g ∈ members, svNorm2 g.terms ≠ 0)
    (hw : (members.map (·.w)).sum = 1) (hpos : ∀ g ∈ members, 0 ≤ g.w) :
    (probsSvdGen U c members).phys = physPerf (cond c) (probsSVD U (members.map fun g => (g.w, g.terms))) ∧
    (probsSvdGen U c members).logical = logicalPerf (cond c) (probsSVD U (members.map fun g => (g.w, g.terms))) ∧
    (mass (retained (cond c) (probsSVD U (members.map fun g => (g.w, g.terms)))) ≠ 0 →
      (probsSvdGen U c members).results =
        conditioned (cond c) (probsSVD U (members.map fun g => (g.w, g.terms)))) :=
  condition_spec_superposed U c hcm wf members
    ⟨hsv, fun g hg => PM.C03.probsSV_mass_one_aux U hU.2 g.terms (hsv g hg).len (hnd g hg) (hnz g hg), hw, hpos⟩

/-! non-vacuity: the mixing unitary `PM.C02.exU`, mode 1 heralded on 0 photons (`uCfg`), one member: the
superposition `|1,0> + |0,1>` of one photon (the two terms interfere on both outputs) -/

def gTerms : List Term := [⟨1, [[1, 0]]⟩, ⟨1, [[0, 1]]⟩]

theorem gSV : SVOK 2 gTerms := by
  constructor
  · intro t ht s hs
    simp only [gTerms, List.mem_cons, List.not_mem_nil, or_false] at ht
    rcases ht with rfl | rfl <;>
    · simp only [List.mem_cons, List.not_mem_nil, or_false] at hs
      subst hs; rfl
  · intro t ht
    simp only [gTerms, List.mem_cons, List.not_mem_nil, or_false] at ht
    rcases ht with rfl | rfl <;> rfl

example : restrict (heraldsOk uCfg.heralds) (memberGen PM.C02.exU uCfg gTerms) =
    restrict (heraldsOk uCfg.heralds) (probsSV PM.C02.exU gTerms) :=
  mask_invariance_superposed PM.C02.exU uCfg rfl uWF gTerms gSV

example : (probsSvdGen PM.C02.exU uCfg [⟨1, gTerms⟩]).phys =
      physPerf (cond uCfg) (probsSVD PM.C02.exU [(1, gTerms)]) ∧
    (probsSvdGen PM.C02.exU uCfg [⟨1, gTerms⟩]).logical =
      logicalPerf (cond uCfg) (probsSVD PM.C02.exU [(1, gTerms)]) :=
  let h := condition_spec_superposed_unitary PM.C02.exU exU_isUnitary uCfg rfl uWF [⟨1, gTerms⟩]
    (by intro g hg; simp only [List.mem_singleton] at hg; subst hg; exact gSV)
    (by intro g hg; simp only [List.mem_singleton] at hg; subst hg; decide)
    (by intro g hg; simp only [List.mem_singleton] at hg; subst hg
        exact PM.C03.svNorm2_ne_zero _ ⟨⟨1, [[1, 0]]⟩, by simp [gTerms], by decide⟩)
    (by simp) (by intro g hg; simp only [List.mem_singleton] at hg; subst hg; norm_num)
  ⟨h.1, h.2.1⟩

/-! ### probability trimming on the detector path (`Model/C04TrimDet.lean`, part A)

`probsSvdDetθ eng P c ds members` is `probs_svd(svd, detectors)` at precision `P` for any detector layout.  With a
detector that is not photon-number resolving the mask is off, the inputs and the per-member products are trimmed as on
the fast path, and `simulate_detectors` multiplies, state by state of the *merged* normalised dict, the per-mode
detection rows under `prob_threshold = max(θ, θ/(10·p))` (no threshold at all when every detector is a threshold
detector).  The photon filter after detection subtracts from `phys_perf` only what survived the thresholds, so here
`physical_perf` is NOT exact any more.  Statements, all against the specification (conditioning of the distribution of
detected patterns `detectedFull`), in terms of exactly computable trimmed masses:
`trimmedMassDet` (everything the three thresholds removed), `trimmedPassDet` (its part above the photon filter),
`trimmedRetainedDet` (its part that would have been retained). -/

/-- **trim_only_dominates_detectors.**  For every predicate on detected patterns, the (un-normalised) list computed
under the thresholds holds at most the probability the list computed without thresholds holds; both are
non-negative; above the photon filter the latter is the specification's distribution. -/
theorem trim_only_dominates_detectors (eng : Fock → D) (P : Prec) (c : Cfg) (ds : List Det) (members : List Member)
    (N : ℕ) (hp : allPnr ds = false) (he : EngOK eng c.m members) (hmix : MixOK members)
    (hN : ∀ mb ∈ members, mb.n ≤ N) (hK : KernsOK N (ds.map Det.kern)) :
    (∀ f : Fock → Bool, mass (restrict f (detTrimU eng P c ds members)) ≤ mass (restrict f (detFullU eng c ds members))) ∧
    NN (detTrimU eng P c ds members) ∧ NN (detFullU eng c ds members) ∧
    restrict (physOk (cond c)) (detectedFull eng c.m ds members) =
      restrict (physOk (cond c)) (detFullU eng c ds members) :=
  let F := trimDetFacts eng P c ds members N hp he hmix hN hK
  ⟨F.dom, F.nnT, F.nnE, F.specPass⟩

/-- the trimmed masses are ordered: `0 ≤ retained ≤ passing ≤ total`, and the loss in front of the detectors is
part of the total -/
theorem trimmed_det_order (eng : Fock → D) (P : Prec) (c : Cfg) (ds : List Det) (members : List Member) (N : ℕ)
    (hp : allPnr ds = false) (he : EngOK eng c.m members) (hmix : MixOK members)
    (hN : ∀ mb ∈ members, mb.n ≤ N) (hK : KernsOK N (ds.map Det.kern)) :
    0 ≤ trimmedRetainedDet eng P c ds members ∧
    trimmedRetainedDet eng P c ds members ≤ trimmedPassDet eng P c ds members ∧
    trimmedPassDet eng P c ds members ≤ trimmedMassDet eng P c ds members ∧
    physInputs c members - mass (Xθ eng P c members) ≤ trimmedMassDet eng P c ds members :=
  trimmedDet_order eng P c ds members N hp he hmix hN hK

/-- **physical_perf_trim_bound_detectors.**  With a non-PNR detector the physical performance reported at precision
`P` is within the trimmed mass of P(detected pattern passes the photon filter) — in either direction: trimmed patterns
below the filter are not subtracted (too high), the renormalisation in front of the detectors inflates what is
subtracted (too low). -/
theorem physical_perf_trim_bound_detectors (eng : Fock → D) (P : Prec) (c : Cfg) (ds : List Det)
    (members : List Member) (N : ℕ) (hp : allPnr ds = false) (he : EngOK eng c.m members) (hmix : MixOK members)
    (hN : ∀ mb ∈ members, mb.n ≤ N) (hK : KernsOK N (ds.map Det.kern)) :
    |(probsSvdDetθ eng P c ds members).phys - physPerf (cond c) (detectedFull eng c.m ds members)| ≤
      trimmedMassDet eng P c ds members :=
  trimDet_phys_bound eng P c ds members N hp he hmix hN hK

/-- **logical_perf_trim_bound_detectors.**  Whenever some detected pattern survives the thresholds and the photon
filter, the logical performance is within `(input-side loss)/(input-side physical performance) + (trimmed passing
mass)/(physical performance)` of the specification's P(heralds ∧ post-selection | filter passed). -/
theorem logical_perf_trim_bound_detectors (eng : Fock → D) (P : Prec) (c : Cfg) (ds : List Det)
    (members : List Member) (N : ℕ) (hp : allPnr ds = false) (he : EngOK eng c.m members) (hmix : MixOK members)
    (hN : ∀ mb ∈ members, mb.n ≤ N) (hK : KernsOK N (ds.map Det.kern))
    (hpass : mass (restrict (physOk (cond c)) (detTrimU eng P c ds members)) ≠ 0) :
    |(probsSvdDetθ eng P c ds members).logical - logicalPerf (cond c) (detectedFull eng c.m ds members)| ≤
      (physInputs c members - mass (Xθ eng P c members)) / physInputs c members +
      trimmedPassDet eng P c ds members / physPerf (cond c) (detectedFull eng c.m ds members) :=
  trimDet_logical_bound eng P c ds members N hp he hmix hN hK hpass

/-- **results_trim_bound_detectors.**  Whenever the trimmed computation retains something, every reported probability
is within `trimmed retained mass / retained mass` of the specification's conditioned distribution of detected
patterns. -/
theorem results_trim_bound_detectors (eng : Fock → D) (P : Prec) (c : Cfg) (ds : List Det)
    (members : List Member) (N : ℕ) (hp : allPnr ds = false) (he : EngOK eng c.m members) (hmix : MixOK members)
    (hN : ∀ mb ∈ members, mb.n ≤ N) (hK : KernsOK N (ds.map Det.kern))
    (hret : mass (restrict (fun t => physOk (cond c) t && logicOk (cond c) t) (detTrimU eng P c ds members)) ≠ 0)
    (t : Fock) :
    |get (probsSvdDetθ eng P c ds members).results t -
        get (conditioned (cond c) (detectedFull eng c.m ds members)) t| ≤
      trimmedRetainedDet eng P c ds members / mass (retained (cond c) (detectedFull eng c.m ds members)) :=
  trimDet_results_bound eng P c ds members N hp he hmix hN hK hret t

/-- on an all-PNR layout the detector-path model is the fast-path model (so the fast-path theorems apply) -/
theorem probsSvdDetθ_pnr (eng : Fock → D) (P : Prec) (c : Cfg) (ds : List Det) (members : List Member)
    (hp : allPnr ds = true) : probsSvdDetθ eng P c ds members = probsSvdθ eng P { c with pnr := true } members := by
  unfold probsSvdDetθ
  simp [hp]

/-! non-vacuity: `tCfg` (2 modes, herald 1 on mode 0, filter 0), one input `|1,2>`, a threshold detector on the heralded
mode and an interleaved detector table on the data mode whose row for 2 photons is `{1: 1/4, 2: 3/4}`, precision 3/10:
the per-state threshold is 3/10, the pattern `|1,1>` (probability 1/4) is removed by the pre-filter; the reported
distribution is `{|2>: 1}` instead of `{|1>: 1/4, |2>: 3/4}` — distance 1/4 = trimmed retained mass / retained mass. -/

def tCfg : Cfg := { m := 2, heralds := [(0, 1)], ps := .tt, userFilter := 0, keepHeralds := false, pnr := true }
def tMembers : List Member := [⟨1, [[1, 2]]⟩]
def tDets : List Det := [.thr, .table [[(0, 1)], [(1, 1)], [(1, 1/4), (2, 3/4)], [(1, 1/16), (2, 15/16)]]]
def tPrec : Prec := ⟨3 / 10, 0⟩

theorem tEng : EngOK idEng tCfg.m tMembers := by
  refine ⟨?_, ?_, ?_⟩ <;> intro mb hmb s hs <;> simp [tMembers] at hmb <;> subst hmb <;> simp at hs <;> subst hs <;>
    simp [idEng, tCfg, NN, Dist.mass]

theorem tMix : MixOK tMembers := ⟨by simp [tMembers], by intro mb hmb; simp [tMembers] at hmb; subst hmb; norm_num⟩

theorem tN : ∀ mb ∈ tMembers, mb.n ≤ 3 := by
  intro mb hmb; simp [tMembers] at hmb; subst hmb; decide

theorem tKerns : KernsOK 3 (tDets.map Det.kern) := by
  refine ⟨?_, ?_, ?_⟩ <;> intro K hK k hk <;> simp [tDets] at hK <;> rcases hK with rfl | rfl <;>
    interval_cases k <;> simp [Det.kern] <;> norm_num

example : allPnr tDets = false ∧ trimmedMassDet idEng tPrec tCfg tDets tMembers = 1 / 4 ∧
    trimmedRetainedDet idEng tPrec tCfg tDets tMembers = 1 / 4 ∧
    mass (retained (cond tCfg) (detectedFull idEng tCfg.m tDets tMembers)) = 1 ∧
    mass (restrict (fun t => physOk (cond tCfg) t && logicOk (cond tCfg) t) (detTrimU idEng tPrec tCfg tDets tMembers)) ≠ 0 := by
  decide +kernel

example : get (probsSvdDetθ idEng tPrec tCfg tDets tMembers).results [2] = 1 ∧
    get (conditioned (cond tCfg) (detectedFull idEng tCfg.m tDets tMembers)) [2] = 3 / 4 := by
  decide +kernel

example (t : Fock) : |get (probsSvdDetθ idEng tPrec tCfg tDets tMembers).results t -
      get (conditioned (cond tCfg) (detectedFull idEng tCfg.m tDets tMembers)) t| ≤
    trimmedRetainedDet idEng tPrec tCfg tDets tMembers /
      mass (retained (cond tCfg) (detectedFull idEng tCfg.m tDets tMembers)) :=
  results_trim_bound_detectors idEng tPrec tCfg tDets tMembers 3 (by decide) tEng tMix tN tKerns (by decide +kernel) t

example : |(probsSvdDetθ idEng tPrec tCfg tDets tMembers).phys -
      physPerf (cond tCfg) (detectedFull idEng tCfg.m tDets tMembers)| ≤ trimmedMassDet idEng tPrec tCfg tDets tMembers :=
  physical_perf_trim_bound_detectors idEng tPrec tCfg tDets tMembers 3 (by decide) tEng tMix tN tKerns

/-! ### a-priori bounds: every threshold removes at most (threshold) × (number of entries of its stage)
(`Lemmas/C04Apriori.lean`)

`θ = p_threshold ≤ max(min_p, precision)`; a dropped member weighs at most `θ`; a missing entry of a member's product
at most `θ/(10·w)` before and `θ/10` after weighting; a missing detected pattern of a state of probability `p` at most
`p · max(θ, θ/(10p)) ≤ θ`.  Hence the deviations of `results`, `physical_perf`, `logical_perf` are bounded by an
explicit function of the configured precision and of sizes (`aprioriFast`, `aprioriDet`): number of members, number of
entries of the accumulated list (`length_codeRes_le`: at most Σ_members Π_groups |engine's distribution of the group|),
number of entries of the list of detected patterns. -/

/-- the threshold is at most `max(min_p, precision)` -/
theorem threshold_le_precision (P : Prec) (c : Cfg) (members : List Member) (hmix : MixOK members)
    (hprec : 0 ≤ P.prec) : pThreshold P c members ≤ max P.minp P.prec :=
  pThreshold_le P c members hmix hprec

/-- **trimmed_mass_apriori** (fast path): `trimmed mass ≤ θ · (#members passing the filter + #entries of the
accumulated list / 10) ≤ max(min_p, precision) · (#members + #entries / 10)` -/
theorem trimmed_mass_apriori (eng : Fock → D) (P : Prec) (c : Cfg) (members : List Member)
    (he : EngOK eng c.m members) (hmix : MixOK members) (hg : ∀ mb ∈ members, mb.groups ≠ [])
    (hminp : 0 ≤ P.minp) (hprec : 0 ≤ P.prec) :
    trimmedMass eng P c members ≤
      pThreshold P c members * (((kept c members).length : ℚ) + ((codeRes eng c members).length : ℚ) / 10) ∧
    trimmedMass eng P c members ≤ aprioriFast eng P c members :=
  ⟨trimmedMass_apriori eng P c members he hmix hg hminp,
   trimmedMass_le_aprioriFast eng P c members he hmix hg hminp hprec⟩

/-- the number of entries in that bound, from sizes only -/
theorem accumulated_entries_le (eng : Fock → D) (c : Cfg) (members : List Member) :
    (codeRes eng c members).length ≤
      ((kept c members).map fun mb => (mb.groups.map fun s => (eng s).length).prod).sum :=
  length_codeRes_le eng c members

/-- **logical_perf_trim_apriori** (fast path): the logical performance is below the specification's by at most
`aprioriFast / physical_perf` -/
theorem logical_perf_trim_apriori (eng : Fock → D) (P : Prec) (c : Cfg) (members : List Member)
    (wf : HeraldsWF c.m c.heralds) (he : EngOK eng c.m members) (hmix : MixOK members)
    (hg : ∀ mb ∈ members, mb.groups ≠ []) (hminp : 0 ≤ P.minp) (hprec : 0 ≤ P.prec) :
    (probsSvdθ eng P c members).logical ≤ logicalPerf (cond c) (full eng c.m members) ∧
    logicalPerf (cond c) (full eng c.m members) - (probsSvdθ eng P c members).logical ≤
      aprioriFast eng P c members / physPerf (cond c) (full eng c.m members) := by
  obtain ⟨h1, h2, h3⟩ := logical_perf_trim_bound eng P c members wf he hmix
  refine ⟨h1, ?_⟩
  rw [h2]
  refine le_trans h3 ?_
  have hphys : 0 ≤ physPerf (cond c) (full eng c.m members) := by
    rw [← physical_perf_trim_exact eng P c members he hmix, probsSvdθ, finishSvd_phys,
      physInputs_eq c members hmix.wsum]
    apply List.sum_nonneg
    intro x hx
    obtain ⟨mb, hmb, rfl⟩ := List.mem_map.1 hx
    exact hmix.wpos mb (mem_kept hmb)
  exact div_le_div_of_nonneg_right (trimmedMass_le_aprioriFast eng P c members he hmix hg hminp hprec) hphys

/-- **results_trim_apriori** (fast path): every reported probability is within `aprioriFast / retained mass` of the
specification's conditioned distribution -/
theorem results_trim_apriori (eng : Fock → D) (P : Prec) (c : Cfg) (members : List Member)
    (wf : HeraldsWF c.m c.heralds) (he : EngOK eng c.m members) (hmix : MixOK members)
    (hg : ∀ mb ∈ members, mb.groups ≠ []) (hminp : 0 ≤ P.minp) (hprec : 0 ≤ P.prec)
    (hret : mass (restrict (logicOk (cond c)) (codeResθ eng P c members)) ≠ 0) (t : Fock) :
    |get (probsSvdθ eng P c members).results t - get (conditioned (cond c) (full eng c.m members)) t| ≤
      aprioriFast eng P c members / mass (retained (cond c) (full eng c.m members)) := by
  obtain ⟨h1, h2⟩ := results_trim_bound eng P c members wf he hmix hret t
  refine le_trans h1 (le_trans h2 ?_)
  have hR : 0 ≤ mass (retained (cond c) (full eng c.m members)) := by
    rw [retained_eq eng c members wf he.shape]
    exact ((NN_codeRes eng c members he.nonneg hmix.wpos).restrict _).mass_nonneg
  exact div_le_div_of_nonneg_right (trimmedMass_le_aprioriFast eng P c members he hmix hg hminp hprec) hR

/-- **trimmed_mass_det_apriori** (detector path): `trimmed mass ≤ θ · (#members passing the filter + #entries of the
accumulated list / 10 + #entries of the list of detected patterns) ≤ aprioriDet` -/
theorem trimmed_mass_det_apriori (eng : Fock → D) (P : Prec) (c : Cfg) (ds : List Det) (members : List Member)
    (N : ℕ) (hp : allPnr ds = false) (he : EngOK eng c.m members) (hmix : MixOK members)
    (hg : ∀ mb ∈ members, mb.groups ≠ []) (hminp : 0 ≤ P.minp) (hprec : 0 ≤ P.prec)
    (hN : ∀ mb ∈ members, mb.n ≤ N) (hK : KernsOK N (ds.map Det.kern)) :
    trimmedMassDet eng P c ds members ≤
      pThreshold P c members * (((kept c members).length : ℚ) +
        ((codeRes eng { c with pnr := false } members).length : ℚ) / 10 +
        ((detFullU eng c ds members).length : ℚ)) ∧
    trimmedMassDet eng P c ds members ≤ aprioriDet eng P c ds members :=
  ⟨trimmedMassDet_apriori eng P c ds members N hp he hmix hg hminp hN hK,
   trimmedMassDet_le_aprioriDet eng P c ds members N hp he hmix hg hminp hprec hN hK⟩

/-- the number of detected patterns in that bound, from sizes only: per entry of the accumulated list, the product of
the sizes of the per-mode detection rows -/
theorem detected_entries_eq (Ks : List Kern) (d : D) :
    (detect Ks d).length = ((d.map (·.1)).map fun s => ((rowsOf Ks s).map List.length).prod).sum := by
  rw [length_detect]
  congr 1
  apply List.map_congr_left
  intro s _
  exact length_detectState Ks s

/-- **physical_perf_trim_apriori_detectors**: `|physical_perf − exact| ≤ aprioriDet` -/
theorem physical_perf_trim_apriori_detectors (eng : Fock → D) (P : Prec) (c : Cfg) (ds : List Det)
    (members : List Member) (N : ℕ) (hp : allPnr ds = false) (he : EngOK eng c.m members) (hmix : MixOK members)
    (hg : ∀ mb ∈ members, mb.groups ≠ []) (hminp : 0 ≤ P.minp) (hprec : 0 ≤ P.prec)
    (hN : ∀ mb ∈ members, mb.n ≤ N) (hK : KernsOK N (ds.map Det.kern)) :
    |(probsSvdDetθ eng P c ds members).phys - physPerf (cond c) (detectedFull eng c.m ds members)| ≤
      aprioriDet eng P c ds members :=
  le_trans (trimDet_phys_bound eng P c ds members N hp he hmix hN hK)
    (trimmedMassDet_le_aprioriDet eng P c ds members N hp he hmix hg hminp hprec hN hK)

/-- **results_trim_apriori_detectors**: every reported probability within `aprioriDet / retained mass` -/
theorem results_trim_apriori_detectors (eng : Fock → D) (P : Prec) (c : Cfg) (ds : List Det)
    (members : List Member) (N : ℕ) (hp : allPnr ds = false) (he : EngOK eng c.m members) (hmix : MixOK members)
    (hg : ∀ mb ∈ members, mb.groups ≠ []) (hminp : 0 ≤ P.minp) (hprec : 0 ≤ P.prec)
    (hN : ∀ mb ∈ members, mb.n ≤ N) (hK : KernsOK N (ds.map Det.kern))
    (hret : mass (restrict (fun t => physOk (cond c) t && logicOk (cond c) t) (detTrimU eng P c ds members)) ≠ 0)
    (t : Fock) :
    |get (probsSvdDetθ eng P c ds members).results t -
        get (conditioned (cond c) (detectedFull eng c.m ds members)) t| ≤
      aprioriDet eng P c ds members / mass (retained (cond c) (detectedFull eng c.m ds members)) := by
  refine le_trans (trimDet_results_bound eng P c ds members N hp he hmix hN hK hret t) ?_
  obtain ⟨_, o2, o3, _⟩ := trimmedDet_order eng P c ds members N hp he hmix hN hK
  have F := trimDetFacts eng P c ds members N hp he hmix hN hK
  have hR : 0 ≤ mass (retained (cond c) (detectedFull eng c.m ds members)) := by
    rw [retained_eq_restrict, F.specPass]
    exact ((F.nnE.restrict _).restrict _).mass_nonneg
  exact div_le_div_of_nonneg_right
    (le_trans o2 (le_trans o3 (trimmedMassDet_le_aprioriDet eng P c ds members N hp he hmix hg hminp hprec hN hK))) hR

/-- **logical_perf_trim_apriori_detectors**: within `aprioriDet / input-side physical performance + aprioriDet /
physical performance` -/
theorem logical_perf_trim_apriori_detectors (eng : Fock → D) (P : Prec) (c : Cfg) (ds : List Det)
    (members : List Member) (N : ℕ) (hp : allPnr ds = false) (he : EngOK eng c.m members) (hmix : MixOK members)
    (hg : ∀ mb ∈ members, mb.groups ≠ []) (hminp : 0 ≤ P.minp) (hprec : 0 ≤ P.prec)
    (hN : ∀ mb ∈ members, mb.n ≤ N) (hK : KernsOK N (ds.map Det.kern))
    (hpass : mass (restrict (physOk (cond c)) (detTrimU eng P c ds members)) ≠ 0) :
    |(probsSvdDetθ eng P c ds members).logical - logicalPerf (cond c) (detectedFull eng c.m ds members)| ≤
      aprioriDet eng P c ds members / physInputs c members +
      aprioriDet eng P c ds members / physPerf (cond c) (detectedFull eng c.m ds members) := by
  refine le_trans (trimDet_logical_bound eng P c ds members N hp he hmix hN hK hpass) ?_
  obtain ⟨_, _, o3, o4⟩ := trimmedDet_order eng P c ds members N hp he hmix hN hK
  have F := trimDetFacts eng P c ds members N hp he hmix hN hK
  have hB := trimmedMassDet_le_aprioriDet eng P c ds members N hp he hmix hg hminp hprec hN hK
  have hφ : 0 ≤ physInputs c members := le_trans F.nnA F.massLe
  have hP : 0 ≤ physPerf (cond c) (detectedFull eng c.m ds members) := by
    unfold physPerf
    rw [F.specPass]
    exact (F.nnE.restrict _).mass_nonneg
  exact add_le_add (div_le_div_of_nonneg_right (le_trans o4 hB) hφ) (div_le_div_of_nonneg_right (le_trans o3 hB) hP)

/-! non-vacuity of the a-priori bounds: `exCfg`, `exMembers`, precision 3/5 (one member dropped, trimmed mass 1/4): the
bound is `3/10 · (2 + 2/10)`, and `max(min_p, precision) · (3 + 2/10)`; detector witness above: `3/10 · (1 + 1/10 + 2)`. -/

example : trimmedMass idEng exPrec exCfg exMembers = 1 / 4 ∧
    pThreshold exPrec exCfg exMembers * (((kept exCfg exMembers).length : ℚ) +
      ((codeRes idEng exCfg exMembers).length : ℚ) / 10) = 33 / 50 ∧
    aprioriFast idEng exPrec exCfg exMembers = 48 / 25 := by
  decide +kernel

example : trimmedMass idEng exPrec exCfg exMembers ≤ aprioriFast idEng exPrec exCfg exMembers :=
  (trimmed_mass_apriori idEng exPrec exCfg exMembers exEng exMix (by decide) (by decide +kernel) (by decide +kernel)).2

example : trimmedMassDet idEng tPrec tCfg tDets tMembers = 1 / 4 ∧ aprioriDet idEng tPrec tCfg tDets tMembers = 93 / 100 := by
  decide +kernel

example : trimmedMassDet idEng tPrec tCfg tDets tMembers ≤ aprioriDet idEng tPrec tCfg tDets tMembers :=
  (trimmed_mass_det_apriori idEng tPrec tCfg tDets tMembers 3 (by decide) tEng tMix (by decide) (by decide +kernel)
    (by decide +kernel) tN tKerns).2

/-! ### superposed inputs at a non-zero precision (`Model/C04TrimDet.lean`, part B)

`probsSvdGenθ U P c members` is `probs_svd` on a mixture of superpositions at precision `P`: the relative threshold on
the members, and inside every member the amplitude threshold of `_merge_sv` (`abs(pa1·pa2) > sqrt(θ/(10·|c|²·w))`,
first group untouched) applied to the *masked* group amplitudes, before the terms interfere.  Dropping a component can
raise or lower a probability, so there is no domination here; the statements are: the mask commutes with the
thresholded merge (`mask_commutes_with_merge_threshold`), threshold 0 is the exact masked model
(`merge_threshold_zero_exact`), every member's probabilities move by at most C03's coherent bound
`|l|² + 2|b||l|` per annotated output (`merge_threshold_bound_superposed`, error distribution `genErrDM`), and — through
the mixture, the photon filter, the performance bookkeeping and `post_select_distribution` — `physical_perf` is exact,
`logical_perf` and every reported probability are within explicit functions of the exactly computable error
distribution `genErrD` of the exact masked model `probsSvdGen`, which `condition_spec_superposed` identifies with the
specification. -/

/-- **mask_commutes_with_merge_threshold.**  At every threshold, the components the code keeps for one term under the
herald mask are the components it keeps without mask whose group outputs all pass the mask — as lists. -/
theorem mask_commutes_with_merge_threshold {m : ℕ} (U : Matrix (Fin m) (Fin m) GQ) (c : Cfg) (n : ℕ) (thr : ℚ)
    (gs : List Fock) :
    evolveTermθM U c n thr gs = (PM.C03.evolveTermθ U thr gs).filter fun x => keyOk c n x.1 :=
  evolveTermθM_eq_filter U c n thr gs

/-- **merge_threshold_zero_exact.**  With threshold 0 the code-shaped thresholded model gives every outcome the
probability of the exact masked model (`memberGen`, the subject of `mask_invariance_superposed`). -/
theorem merge_threshold_zero_exact {m : ℕ} (U : Matrix (Fin m) (Fin m) GQ) (c : Cfg) (w : ℚ) (terms : List Term)
    (hl : ∀ t ∈ terms, ∀ s ∈ t.groups, s.length = m) (t : Fock) :
    get (memberGenθ U c 0 w terms) t = get (memberGen U c terms) t :=
  memberGenθ_zero U c w terms hl t

/-- **merge_threshold_bound_superposed.**  One member: the amplitude threshold moves the probability of every outcome
by at most what the error distribution gives to it (per annotated output: squared dropped amplitude plus twice the
product of the moduli of kept and dropped amplitude, with rational upper square roots). -/
theorem merge_threshold_bound_superposed {m : ℕ} (U : Matrix (Fin m) (Fin m) GQ) (c : Cfg) (θ w : ℚ)
    (terms : List Term) (hl : ∀ t ∈ terms, ∀ s ∈ t.groups, s.length = m) (t : Fock) :
    |get (memberGen U c terms) t - get (memberGenθ U c θ w terms) t| ≤ get (genErrDM U c θ w terms) t := by
  rw [← memberGenθ_zero U c w terms hl t]
  exact memberGenθ_bound U c θ w terms t

/-- **superposed_trim_near.**  For every predicate on outcomes, the list accumulated at precision `P` and the list the
exact masked model accumulates give it masses that differ by at most the mass the error distribution gives it
(dropped members with their whole distribution, kept members with their coherent bound). -/
theorem superposed_trim_near {m : ℕ} (U : Matrix (Fin m) (Fin m) GQ) (P : Prec) (c : Cfg) (members : List GMember)
    (hw : ∀ g ∈ members, 0 ≤ g.w) (hl : ∀ g ∈ members, ∀ t ∈ g.terms, ∀ s ∈ t.groups, s.length = m)
    (f : Fock → Bool) :
    |mass (restrict f (AM.res c (members.map (toAM U c)))) - mass (restrict f (genResθ U P c members))| ≤
      mass (restrict f (genErrD U P c members)) :=
  genResθ_near_exact U P c members hw hl f

/-- **physical_perf_trim_exact_superposed.**  The physical performance does not depend on the precision. -/
theorem physical_perf_trim_exact_superposed {m : ℕ} (U : Matrix (Fin m) (Fin m) GQ) (P : Prec) (c : Cfg)
    (members : List GMember) : (probsSvdGenθ U P c members).phys = (probsSvdGen U c members).phys :=
  probsSvdGenθ_phys U P c members

/-- **logical_perf_trim_bound_superposed.**  The logical performance at precision `P` is within
`(accepted mass of the error distribution) / physical_perf` of the exact masked model's. -/
theorem logical_perf_trim_bound_superposed {m : ℕ} (U : Matrix (Fin m) (Fin m) GQ) (P : Prec) (c : Cfg)
    (members : List GMember) (hw : ∀ g ∈ members, 0 ≤ g.w)
    (hl : ∀ g ∈ members, ∀ t ∈ g.terms, ∀ s ∈ t.groups, s.length = m)
    (hphys : 0 < AM.phys c (members.map (toAM U c))) :
    |(probsSvdGenθ U P c members).logical - (probsSvdGen U c members).logical| ≤
      mass (restrict (logicOk (cond c)) (genErrD U P c members)) / AM.phys c (members.map (toAM U c)) :=
  probsSvdGenθ_logical_bound U P c members hw hl hphys

/-- **results_trim_bound_superposed.**  Whenever both computations retain something, every reported probability is
within `(e_t + p_t · E) / (retained mass at precision P)` of the exact masked model's, `e_t` = what the accepted,
relabelled error distribution gives to the outcome, `E` its total, `p_t` the exact reported probability. -/
theorem results_trim_bound_superposed {m : ℕ} (U : Matrix (Fin m) (Fin m) GQ) (P : Prec) (c : Cfg)
    (members : List GMember) (hw : ∀ g ∈ members, 0 ≤ g.w)
    (hl : ∀ g ∈ members, ∀ t ∈ g.terms, ∀ s ∈ t.groups, s.length = m)
    (h0 : mass (restrict (logicOk (cond c)) (AM.res c (members.map (toAM U c)))) ≠ 0)
    (hθ : mass (restrict (logicOk (cond c)) (genResθ U P c members)) ≠ 0) (t : Fock) :
    |get (probsSvdGenθ U P c members).results t - get (probsSvdGen U c members).results t| ≤
      (get (mapKeys (reported (cond c)) (restrict (logicOk (cond c)) (genErrD U P c members))) t +
        get (probsSvdGen U c members).results t * mass (restrict (logicOk (cond c)) (genErrD U P c members))) /
      mass (restrict (logicOk (cond c)) (genResθ U P c members)) :=
  probsSvdGenθ_results_bound U P c members hw hl h0 hθ t

/-- **logical_perf_trim_bound_superposed_spec.**  …hence, under the hypotheses of `condition_spec_superposed`, within
the same distance of the specification's P(heralds ∧ post-selection | filter passed) of `probsSVD`. -/
theorem logical_perf_trim_bound_superposed_spec {m : ℕ} (U : Matrix (Fin m) (Fin m) GQ) (P : Prec) (c : Cfg)
    (hcm : c.m = m) (wf : HeraldsWF c.m c.heralds) (members : List GMember) (ok : GenOK U members)
    (hphys : 0 < AM.phys c (members.map (toAM U c))) :
    (probsSvdGenθ U P c members).phys = physPerf (cond c) (probsSVD U (members.map fun g => (g.w, g.terms))) ∧
    |(probsSvdGenθ U P c members).logical -
        logicalPerf (cond c) (probsSVD U (members.map fun g => (g.w, g.terms)))| ≤
      mass (restrict (logicOk (cond c)) (genErrD U P c members)) / AM.phys c (members.map (toAM U c)) := by
  obtain ⟨h1, h2, _⟩ := condition_spec_superposed U c hcm wf members ok
  refine ⟨by rw [probsSvdGenθ_phys, h1], ?_⟩
  rw [← h2]
  exact probsSvdGenθ_logical_bound U P c members ok.wpos (fun g hg => (ok.sv g hg).len) hphys

/-! non-vacuity (the hypotheses that can be decided without evaluating permanents in the kernel): `uCfg`, the
superposition `gTerms` with weight 1 — non-negative weight, 2-mode groups, input-side physical performance 1.  That
both computations retain something (`results_trim_bound_superposed`) is observed on every compared case of the
correspondence (driver fields `retainedTrimmed`, `retained`; counter `trim-sup-compared-changes-the-answer`). -/

example : (∀ g ∈ [(⟨1, gTerms⟩ : GMember)], 0 ≤ g.w) ∧
    (∀ g ∈ [(⟨1, gTerms⟩ : GMember)], ∀ t ∈ g.terms, ∀ s ∈ t.groups, s.length = 2) ∧
    0 < AM.phys uCfg ([(⟨1, gTerms⟩ : GMember)].map (toAM PM.C02.exU uCfg)) := by
  refine ⟨?_, ?_, ?_⟩
  · intro g hg; simp only [List.mem_singleton] at hg; subst hg; norm_num
  · intro g hg; simp only [List.mem_singleton] at hg; subst hg; exact gSV.len
  · decide +kernel

example : |(probsSvdGenθ PM.C02.exU ⟨1/10, 0⟩ uCfg [⟨1, gTerms⟩]).logical -
      (probsSvdGen PM.C02.exU uCfg [⟨1, gTerms⟩]).logical| ≤
    mass (restrict (logicOk (cond uCfg)) (genErrD PM.C02.exU ⟨1/10, 0⟩ uCfg [⟨1, gTerms⟩])) /
      AM.phys uCfg ([(⟨1, gTerms⟩ : GMember)].map (toAM PM.C02.exU uCfg)) :=
  logical_perf_trim_bound_superposed PM.C02.exU ⟨1/10, 0⟩ uCfg [⟨1, gTerms⟩]
    (by intro g hg; simp only [List.mem_singleton] at hg; subst hg; norm_num)
    (by intro g hg; simp only [List.mem_singleton] at hg; subst hg; exact gSV.len)
    (by decide +kernel)

/-! ### `check_heralds_detectors`: the early exit lies outside the property's quantifier

The property quantifies over expected herald values 0 or 1; every detector reports at least one photon
(`max_detections ≥ 1` or unbounded).  Then the first statement of `probs_svd` never takes its early exit, and
`probs_svd` is the function the theorems above are about.  (With a herald expecting more than its detector can report
the code returns `physical_perf = 1`, `logical_perf = 0` and no result: the product is the retained probability 0; the
physical performance is then a convention, not the probability of passing the filter — outside the statement.) -/

/-- **early_exit_out_of_scope.** -/
theorem early_exit_out_of_scope (eng : Fock → D) (c : Cfg) (ds : List Det) (maxes : List (Option ℕ))
    (members : List Member) (hv : ∀ p ∈ c.heralds, p.2 ≤ 1) (hm : ∀ mx ∈ maxes, ∀ k, mx = some k → 1 ≤ k) :
    checkHeraldsDetectors c.heralds maxes = true ∧
    probsSvdGuarded eng c ds maxes members = probsSvdDet eng c ds members := by
  have h : checkHeraldsDetectors c.heralds maxes = true := by
    unfold checkHeraldsDetectors
    simp only [Bool.or_eq_true, List.all_eq_true]
    right
    intro p hp
    have hp1 := hv p hp
    cases hmx : maxes.getD p.1 none with
    | none => rfl
    | some mx =>
      have hmem : some mx ∈ maxes := by
        rw [List.getD_eq_getElem?_getD] at hmx
        cases hg : maxes[p.1]? with
        | none => simp [hg] at hmx
        | some o =>
          simp only [hg, Option.getD_some] at hmx
          rw [← hmx]
          exact List.mem_of_getElem? hg
      have := hm _ hmem mx rfl
      simp only [Bool.not_eq_eq_eq_not, Bool.not_true, decide_eq_false_iff_not, not_lt]
      omega
  exact ⟨h, by unfold probsSvdGuarded; rw [if_pos h]⟩

/-- when the exit is taken the reported product is 0 -/
theorem early_exit_product (eng : Fock → D) (c : Cfg) (ds : List Det) (maxes : List (Option ℕ))
    (members : List Member) (h : checkHeraldsDetectors c.heralds maxes = false) :
    (probsSvdGuarded eng c ds maxes members).results = [] ∧
    (probsSvdGuarded eng c ds maxes members).phys * (probsSvdGuarded eng c ds maxes members).logical = 0 := by
  unfold probsSvdGuarded
  simp [h]

example : checkHeraldsDetectors [(0, 1), (2, 0)] [some 1, none, some 2] = true ∧
    checkHeraldsDetectors [(0, 2)] [some 1, none] = false ∧ checkHeraldsDetectors [(0, 2)] [] = true := by decide

example : (probsSvdGuarded idEng { dCfg with heralds := [(0, 2)] } dDetsP [some 1, some 2] dMembers).phys = 1 := by
  decide +kernel

/-- a detected pattern never shows, on mode `i`, more than the largest count detector `i` can report -/
theorem detectState_getD_le (mx : ℕ) : ∀ (Ks : List Kern) (s : Fock) (i : ℕ),
    (∀ K, Ks[i]? = some K → ∀ k, ∀ jq ∈ K k, jq.1 ≤ mx) → ∀ x ∈ detectState Ks s, x.1.getD i 0 ≤ mx
  | [], _, _, _, x, hx => by
    simp only [detectState, List.mem_singleton] at hx
    subst hx; simp
  | _ :: _, [], _, _, x, hx => by
    simp only [detectState, List.mem_singleton] at hx
    subst hx; simp
  | K :: Ks, a :: t, i, h, x, hx => by
    obtain ⟨jq, hjq, sp, hsp, rfl⟩ := mem_detectState_cons hx
    cases i with
    | zero => simpa using h K (by simp) a jq hjq
    | succ i =>
      have := detectState_getD_le mx Ks t i (fun K' hK' => h K' (by simpa using hK')) sp hsp
      simpa using this

/-- **early_exit_retained_zero.**  When `check_heralds_detectors` takes the early exit — some herald expects more
photons than the detector on its mode can ever report (`max_detections`) — NO detected pattern can satisfy the heralds:
the specification's retained part of the distribution of detected patterns is empty, whatever the unconditioned
distribution `F`.  Hypothesis: `maxes` really bounds what the kernels report. -/
theorem early_exit_retained_zero (c : Cfg) (ds : List Det) (maxes : List (Option ℕ)) (F : D)
    (h : checkHeraldsDetectors c.heralds maxes = false)
    (hmax : ∀ i mx K, maxes.getD i none = some mx → (ds.map Det.kern)[i]? = some K → ∀ k, ∀ jq ∈ K k, jq.1 ≤ mx) :
    retained (cond c) (detect (ds.map Det.kern) F) = [] := by
  unfold checkHeraldsDetectors at h
  simp only [Bool.or_eq_false_iff] at h
  obtain ⟨_, hall⟩ := h
  have hex : ∃ p ∈ c.heralds, ∃ mx, maxes.getD p.1 none = some mx ∧ mx < p.2 := by
    rw [List.all_eq_false] at hall
    obtain ⟨p, hp, hnp⟩ := hall
    refine ⟨p, hp, ?_⟩
    cases hmx : maxes.getD p.1 none with
    | none =>
      rw [hmx] at hnp
      exact (hnp rfl).elim
    | some mx =>
      rw [hmx] at hnp
      exact ⟨mx, rfl, by simpa using hnp⟩
  obtain ⟨p, hp, mx, hmx, hlt⟩ := hex
  apply restrict_of_none
  intro x hx
  simp only [detect, List.mem_flatMap] at hx
  obtain ⟨tp, _, hx⟩ := hx
  obtain ⟨q, hq, rfl⟩ := mem_scale hx
  have hle := detectState_getD_le mx (ds.map Det.kern) tp.1 p.1 (fun K hK => hmax p.1 mx K hmx hK) q hq
  have hh : heraldsOk c.heralds q.1 = false := by
    unfold heraldsOk
    rw [List.all_eq_false]
    refine ⟨p, hp, ?_⟩
    simp only [beq_iff_eq]
    omega
  show (physOk (cond c) q.1 && logicOk (cond c) q.1) = false
  simp [logicOk, cond, hh]

/-- **early_exit_product_spec.**  …hence on the early exit the reported `physical_perf × logical_perf` (= 0) IS the
specification's retained probability of the detected patterns: the product statement holds on this path too (only the
convention `physical_perf = 1` is outside the statement). -/
theorem early_exit_product_spec (eng : Fock → D) (c : Cfg) (ds : List Det) (maxes : List (Option ℕ))
    (members : List Member) (F : D)
    (h : checkHeraldsDetectors c.heralds maxes = false)
    (hmax : ∀ i mx K, maxes.getD i none = some mx → (ds.map Det.kern)[i]? = some K → ∀ k, ∀ jq ∈ K k, jq.1 ≤ mx) :
    (probsSvdGuarded eng c ds maxes members).phys * (probsSvdGuarded eng c ds maxes members).logical =
      mass (retained (cond c) (detect (ds.map Det.kern) F)) := by
  rw [(early_exit_product eng c ds maxes members h).2, early_exit_retained_zero c ds maxes F h hmax]
  rfl

/-! non-vacuity: herald value 2 on mode 0 read by a threshold detector (`max_detections = 1`) -/
example : checkHeraldsDetectors [(0, 2)] [some 1, none] = false ∧
    (∀ i mx K, [some 1, none].getD i none = some mx → ([Det.thr, Det.none].map Det.kern)[i]? = some K →
      ∀ k, ∀ jq ∈ K k, jq.1 ≤ mx) := by
  refine ⟨by decide, ?_⟩
  intro i mx K hi hK k jq hjq
  match i with
  | 0 =>
    simp at hi hK
    subst hi; subst hK
    simp [Det.kern] at hjq
    subst hjq; simp
  | 1 => simp at hi
  | (i + 2) => simp at hi

/-! ### members superposing DIFFERENT photon numbers: `_preprocess_svd`'s split (`Model/C04Split.lean`)

A member such as `sqrt(.3)|1,0,1,0> + i sqrt(.7)|1,1,1,0>` holds several photon numbers.  `_probs_svd_generic` takes
`next(iter(sv.n))` as THE photon number of a member and budgets every group's herald mask from it, so `_preprocess_svd`
must hand it one photon number per member: pass 1 keeps a member when its LARGEST component passes the photon filter
(else `phys_perf -= p`), pass 2 replaces every kept member that holds several photon numbers by its photon-number
sectors (`_split_by_photon_count`: C03's `splitByN`, weights `p·|sector|²/|sv|²`) and applies the filter to each sector
(`phys_perf -= p·ps` for those below).  `probsSvdGenS` is that computation followed by the generic path.  The theorems
below remove the same-photon-number hypothesis (`SVOK.num`) from the superposed-path theorems. -/

/-- **split_sectors_preserve_mixture.**  Components of different photon number never interfere: the mixture of the
photon-number sectors (weights = the member's weight × the sector's share of the squared norm) gives every outcome the
probability the specification `probsSVD` gives it for the un-split mixture.  No hypothesis. -/
theorem split_sectors_preserve_mixture {m : ℕ} (U : Matrix (Fin m) (Fin m) GQ) (members : List GMember) (t : Fock) :
    get (probsSVD U ((splitAll members).map fun g => (g.w, g.terms))) t =
      get (probsSVD U (members.map fun g => (g.w, g.terms))) t :=
  get_probsSVD_splitAll U members t

/-- **preprocess_split_eq_sectors.**  The two passes of `_preprocess_svd` (filter on the largest component, split, filter
on every sector, both subtracting from `phys_perf`) followed by the generic path are, as the three outputs (lists
included), the generic path's bookkeeping applied to the mixture of the sectors.  Hypothesis: no member is the zero
vector. -/
theorem preprocess_split_eq_sectors {m : ℕ} (U : Matrix (Fin m) (Fin m) GQ) (c : Cfg) (members : List GMember)
    (hN : ∀ g ∈ members, svNorm2 g.terms ≠ 0) :
    probsSvdGenS U c members = probsSvdGen U c (splitAll members) :=
  probsSvdGenS_eq U c members hN

/-- the hypotheses on a mixture of superpositions whose members may hold several photon numbers: `m`-mode groups,
non-zero vectors, unit mass of every sector's distribution, non-negative weights of total 1 -/
structure GenOKS {m : ℕ} (U : Matrix (Fin m) (Fin m) GQ) (members : List GMember) : Prop where
  len : ∀ g ∈ members, ∀ t ∈ g.terms, ∀ s ∈ t.groups, s.length = m
  norm : ∀ g ∈ members, svNorm2 g.terms ≠ 0
  massOne : ∀ x ∈ splitAll members, mass (probsSV U x.terms) = 1
  wsum : (members.map (·.w)).sum = 1
  wpos : ∀ g ∈ members, 0 ≤ g.w

theorem genOKS_split {m : ℕ} (U : Matrix (Fin m) (Fin m) GQ) (members : List GMember) (ok : GenOKS U members) :
    GenOK U (splitAll members) :=
  ⟨svok_splitAll members ok.len, ok.massOne, by rw [wsum_splitAll members ok.norm]; exact ok.wsum,
    wpos_splitAll members ok.wpos⟩

/-- **condition_spec_superposed_sectors.**  `probs_svd` on members holding several photon numbers is — as lists — the
conditioning of the mixture of the photon-number sectors with weights = squared norms. -/
theorem condition_spec_superposed_sectors {m : ℕ} (U : Matrix (Fin m) (Fin m) GQ) (c : Cfg) (hcm : c.m = m)
    (wf : HeraldsWF c.m c.heralds) (members : List GMember) (ok : GenOKS U members) :
    (probsSvdGenS U c members).phys =
      physPerf (cond c) (probsSVD U ((splitAll members).map fun g => (g.w, g.terms))) ∧
    (probsSvdGenS U c members).logical =
      logicalPerf (cond c) (probsSVD U ((splitAll members).map fun g => (g.w, g.terms))) ∧
    (mass (retained (cond c) (probsSVD U ((splitAll members).map fun g => (g.w, g.terms)))) ≠ 0 →
      (probsSvdGenS U c members).results =
        conditioned (cond c) (probsSVD U ((splitAll members).map fun g => (g.w, g.terms)))) := by
  rw [preprocess_split_eq_sectors U c members ok.norm]
  exact condition_spec_superposed U c hcm wf (splitAll members) (genOKS_split U members ok)

/-- **condition_spec_superposed_split.**  The superposed-path theorem WITHOUT the same-photon-number hypothesis:
`probs_svd` on a mixture of superpositions whose members may hold several photon numbers (the vacuum and components
below the filter included) returns the specification's physical and logical performance of the un-split mixture
`probsSVD` and — whenever something is retained — gives every reported state the probability the conditioned
distribution gives it.  (Outcome by outcome rather than as lists: the sectors are accumulated sector by sector, the
specification lists the outputs of the whole vector in first-occurrence order.) -/
theorem condition_spec_superposed_split {m : ℕ} (U : Matrix (Fin m) (Fin m) GQ) (c : Cfg) (hcm : c.m = m)
    (wf : HeraldsWF c.m c.heralds) (members : List GMember) (ok : GenOKS U members) :
    (probsSvdGenS U c members).phys = physPerf (cond c) (probsSVD U (members.map fun g => (g.w, g.terms))) ∧
    (probsSvdGenS U c members).logical = logicalPerf (cond c) (probsSVD U (members.map fun g => (g.w, g.terms))) ∧
    (mass (retained (cond c) (probsSVD U (members.map fun g => (g.w, g.terms)))) ≠ 0 →
      ∀ t, get (probsSvdGenS U c members).results t =
        get (conditioned (cond c) (probsSVD U (members.map fun g => (g.w, g.terms)))) t) := by
  obtain ⟨h1, h2, h3⟩ := condition_spec_superposed_sectors U c hcm wf members ok
  have hg := split_sectors_preserve_mixture U members
  refine ⟨?_, ?_, ?_⟩
  · rw [h1]; exact physPerf_congr_get _ hg
  · rw [h2]; exact logicalPerf_congr_get _ hg
  · intro hret t
    rw [h3 (by rw [retained_mass_congr_get _ hg]; exact hret)]
    exact get_conditioned_congr _ hg t

/-- physical × logical performance = total retained probability, members with several photon numbers included -/
theorem perf_product_superposed_split {m : ℕ} (U : Matrix (Fin m) (Fin m) GQ) (c : Cfg) (hcm : c.m = m)
    (wf : HeraldsWF c.m c.heralds) (members : List GMember) (ok : GenOKS U members)
    (hphys : (probsSvdGenS U c members).phys ≠ 0) :
    (probsSvdGenS U c members).phys * (probsSvdGenS U c members).logical =
      mass (retained (cond c) (probsSVD U (members.map fun g => (g.w, g.terms)))) := by
  obtain ⟨h1, h2, _⟩ := condition_spec_superposed_split U c hcm wf members ok
  rw [h2]
  rw [h1] at hphys ⊢
  exact SimSpec.perf_product _ _ hphys

/-- **condition_spec_superposed_split_unitary.**  For a unitary circuit only hypotheses on the data are left: `m`-mode
groups, pairwise distinct basis states with non-zero coefficients (what a `StateVector` holds), at least one component
per member, non-negative weights of total 1.  No hypothesis on the photon numbers. -/
theorem condition_spec_superposed_split_unitary {m : ℕ} (U : Matrix (Fin m) (Fin m) GQ) (hU : IsUnitary U) (c : Cfg)
    (hcm : c.m = m) (wf : HeraldsWF c.m c.heralds) (members : List GMember)
    (hlen : ∀ g ∈ members, ∀ t ∈ g.terms, ∀ s ∈ t.groups, s.length = m)
    (hnd : ∀ g ∈ members, (g.terms.map (·.groups)).Nodup)
    (hnz : ∀ g ∈ members, g.terms ≠ [] ∧ ∀ t ∈ g.terms, t.coef ≠ 0)
    (hw : (members.map (·.w)).sum = 1) (hpos : ∀ g ∈ members, 0 ≤ g.w) :
    (probsSvdGenS U c members).phys = physPerf (cond c) (probsSVD U (members.map fun g => (g.w, g.terms))) ∧
    (probsSvdGenS U c members).logical = logicalPerf (cond c) (probsSVD U (members.map fun g => (g.w, g.terms))) ∧
    (mass (retained (cond c) (probsSVD U (members.map fun g => (g.w, g.terms)))) ≠ 0 →
      ∀ t, get (probsSvdGenS U c members).results t =
        get (conditioned (cond c) (probsSVD U (members.map fun g => (g.w, g.terms)))) t) :=
  condition_spec_superposed_split U c hcm wf members
    ⟨hlen,
     fun g hg => by
       obtain ⟨t, ht⟩ := List.exists_mem_of_ne_nil _ (hnz g hg).1
       exact PM.C03.svNorm2_ne_zero _ ⟨t, ht, (hnz g hg).2 t ht⟩,
     massOne_splitAll U hU.2 members hlen hnd hnz, hw, hpos⟩

/-! non-vacuity: the mixing unitary `PM.C02.exU`, mode 1 heralded on 0 photons (`uCfg`), one member superposing the
one-photon state `|1,0>` and the two-photon state `|1,1>` -/

def sTerms : List Term := [⟨1, [[1, 0]]⟩, ⟨1, [[1, 1]]⟩]

example : multiN ⟨1, sTerms⟩ = true := by decide

example : (probsSvdGenS PM.C02.exU uCfg [⟨1, sTerms⟩]).phys =
      physPerf (cond uCfg) (probsSVD PM.C02.exU [(1, sTerms)]) ∧
    (probsSvdGenS PM.C02.exU uCfg [⟨1, sTerms⟩]).logical =
      logicalPerf (cond uCfg) (probsSVD PM.C02.exU [(1, sTerms)]) :=
  let h := condition_spec_superposed_split_unitary PM.C02.exU exU_isUnitary uCfg rfl uWF [⟨1, sTerms⟩]
    (by intro g hg; simp only [List.mem_singleton] at hg; subst hg
        intro t ht s hs
        simp only [sTerms, List.mem_cons, List.not_mem_nil, or_false] at ht
        rcases ht with rfl | rfl <;>
        · simp only [List.mem_cons, List.not_mem_nil, or_false] at hs
          subst hs; rfl)
    (by intro g hg; simp only [List.mem_singleton] at hg; subst hg; decide)
    (by intro g hg; simp only [List.mem_singleton] at hg; subst hg
        refine ⟨by simp [sTerms], ?_⟩
        intro t ht
        simp only [sTerms, List.mem_cons, List.not_mem_nil, or_false] at ht
        rcases ht with rfl | rfl <;> decide)
    (by simp) (by intro g hg; simp only [List.mem_singleton] at hg; subst hg; norm_num)
  ⟨h.1, h.2.1⟩

/-! necessity of `KernsOK.noGain` (a detector never reports more photons than arrived): with a detector that has dark
counts — kernel row `0 photons ↦ reports 1` — the claim FAILS, because the code applies the photon filter to the
inputs before the detectors (`_preprocess_svd`) and the vacuum input is discarded although its detected pattern would
have passed: one mode, no herald, filter 1, vacuum input: the code reports physical performance 0, the specification
(probability that the detected pattern passes the filter) is 1.  Every other hypothesis of
`physical_perf_spec_nonpnr_detectors` holds. -/

def kCfg : Cfg := { m := 1, heralds := [], ps := .tt, userFilter := 1, keepHeralds := false, pnr := true }
def kDark : List Det := [.table [[(1, 1)]]]
def kMembers : List Member := [⟨1, [[0]]⟩]

example : allPnr kDark = false ∧ EngOK idEng kCfg.m kMembers ∧ MixOK kMembers ∧ (∀ mb ∈ kMembers, mb.n ≤ 0) ∧
    (∀ K ∈ kDark.map Det.kern, ∀ k ≤ 0, ((K k).map (·.2)).sum = 1) ∧
    (∀ K ∈ kDark.map Det.kern, ∀ k ≤ 0, ∀ jq ∈ K k, 0 ≤ jq.2) ∧
    ¬ KernsOK 0 (kDark.map Det.kern) ∧
    (probsSvdDet idEng kCfg kDark kMembers).phys = 0 ∧
    physPerf (cond kCfg) (detectedFull idEng kCfg.m kDark kMembers) = 1 := by
  refine ⟨by decide, ?_, ?_, ?_, ?_, ?_, ?_, ?_, ?_⟩
  · refine ⟨?_, ?_, ?_⟩ <;> simp [idEng, kMembers, kCfg, NN, mass]
  · refine ⟨?_, ?_⟩
    · norm_num [kMembers]
    · intro mb hmb
      simp only [kMembers, List.mem_singleton] at hmb
      subst hmb; norm_num
  · intro mb hmb
    simp only [kMembers, List.mem_singleton] at hmb
    subst hmb; decide
  · intro K hK k hk
    simp only [kDark, List.map_cons, List.map_nil, List.mem_singleton] at hK
    subst hK
    obtain rfl : k = 0 := by omega
    simp [Det.kern]
  · intro K hK k hk
    simp only [kDark, List.map_cons, List.map_nil, List.mem_singleton] at hK
    subst hK
    obtain rfl : k = 0 := by omega
    simp [Det.kern]
  · intro h
    have := h.noGain (Det.kern (.table [[(1, 1)]])) (by simp [kDark]) 0 (le_refl 0) (1, 1) (by simp [Det.kern])
    omega
  · rw [probsSvdDet_nonpnr idEng kCfg kDark kMembers (by decide)]
    simp [codeRes, kept, kMembers, kCfg, minFilter, nHeralds, Member.n, mix, mass, physInputs]
  · simp [physPerf, cond, detectedFull, full, fullMember, convAll, kMembers, kCfg, kDark, idEng, mix, scale, conv,
      restrict, zeros, fadd, physOk, minFilter, nHeralds, mass, detect, detectState, Det.kern]

/-! ### superposed inputs behind a detector that is not PNR (`probsSvdGenSDet`, `Model/C04Split.lean`)

`Simulator.probs_svd(svd, detectors)` on a mixture of superpositions (members holding any photon numbers) when the
detector list contains a threshold / pseudo-PNR detector: `_preprocess_svd`'s two passes, the generic path with the
herald mask switched OFF, `simulate_detectors` on the normalised accumulated list, the photon filter on the detected
pattern with its own performance factor, `post_select_distribution` on the detected patterns.  The theorems say this
is one conditioning of the distribution of detected patterns `detect kernels (probsSVD U …)`.  `HeraldsWF` is not
needed (no mask); the hypotheses are `GenOKS` (data + unit mass of every sector, proved for unitary circuits), a bound
`N` on the photon numbers and `KernsOK N` on the kernel tables. -/

/-- with an all-PNR layout the detector model is the mask path -/
theorem probsSvdGenSDet_pnr {m : ℕ} (U : Matrix (Fin m) (Fin m) GQ) (c : Cfg) (ds : List Det) (ms : List GMember)
    (hp : allPnr ds = true) : probsSvdGenSDet U c ds ms = probsSvdGenS U { c with pnr := true } ms := by
  unfold probsSvdGenSDet
  simp only [hp, ↓reduceIte]

/-- with a non-PNR detector: mask off, detector stage behind the accumulated list -/
theorem probsSvdGenSDet_nonpnr {m : ℕ} (U : Matrix (Fin m) (Fin m) GQ) (c : Cfg) (ds : List Det) (ms : List GMember)
    (hp : allPnr ds = false) :
    probsSvdGenSDet U c ds ms = finishDetS c ds (physS c ms) (resS U { c with pnr := false } ms) := by
  unfold probsSvdGenSDet
  simp only [hp, Bool.false_eq_true, ↓reduceIte]
  rfl

/-- the hypotheses of the abstract bookkeeping hold with the mask off, without `HeraldsWF` -/
theorem genOK_am_maskoff {m : ℕ} (U : Matrix (Fin m) (Fin m) GQ) (c : Cfg) (members : List GMember)
    (ok : GenOK U members) :
    AM.OK { c with pnr := false } (members.map (toAM U { c with pnr := false })) := by
  refine ⟨?_, ?_, ?_, ?_, ?_, ?_⟩
  · intro a ha
    obtain ⟨g, _, rfl⟩ := List.mem_map.1 ha
    show restrict _ (memberGen U { c with pnr := false } g.terms) = restrict _ (probsSV U g.terms)
    rw [memberGen_maskoff]
  · intro a ha
    obtain ⟨g, hg, rfl⟩ := List.mem_map.1 ha
    exact probsSV_sums U g.terms (ok.sv g hg)
  · intro a ha
    obtain ⟨g, hg, rfl⟩ := List.mem_map.1 ha
    exact ok.massOne g hg
  · intro a ha
    obtain ⟨g, _, rfl⟩ := List.mem_map.1 ha
    exact NN_memberGen U _ g.terms
  · rw [List.map_map]
    exact ok.wsum
  · intro a ha
    obtain ⟨g, hg, rfl⟩ := List.mem_map.1 ha
    exact ok.wpos g hg

/-- **mask off: the generic path accumulates the unconditioned mixture of the sectors above the photon filter**, as a
list, and `_preprocess_svd`'s `phys_perf` is its mass -/
theorem resS_maskoff {m : ℕ} (U : Matrix (Fin m) (Fin m) GQ) (c : Cfg) (members : List GMember)
    (ok : GenOKS U members) :
    resS U { c with pnr := false } members =
      restrict (physOk (cond c)) (probsSVD U ((splitAll members).map fun g => (g.w, g.terms))) ∧
    physS c members =
      mass (restrict (physOk (cond c)) (probsSVD U ((splitAll members).map fun g => (g.w, g.terms)))) := by
  have okG := genOKS_split U members ok
  have okA := genOK_am_maskoff U c (splitAll members) okG
  have h2 : resS U { c with pnr := false } members =
      AM.res { c with pnr := false } ((splitAll members).map (toAM U { c with pnr := false })) := by
    unfold resS AM.res AM.kept
    rw [keptS_eq, List.filter_map, List.map_map]
    rfl
  have h1 : physS c members =
      AM.phys { c with pnr := false } ((splitAll members).map (toAM U { c with pnr := false })) := by
    rw [physS_eq c members ok.norm]
    unfold AM.phys
    rw [List.filter_map, List.map_map]
    rfl
  rw [← fullMix_eq_probsSVD U { c with pnr := false } (splitAll members)]
  constructor
  · rw [h2]
    apply AM.res_maskoff
    · intro a ha
      obtain ⟨g, _, rfl⟩ := List.mem_map.1 ha
      exact memberGen_maskoff U c g.terms
    · exact okA.shape
  · rw [h1]
    exact (AM.physPerf_eq _ _ okA).symm

/-- **condition_spec_superposed_sectors_nonpnr_detectors.**  Superposed inputs behind ANY detector layout containing a
threshold / pseudo-PNR detector: the three outputs are — as lists — the conditioning of the distribution of detected
patterns of the mixture of the photon-number sectors.  `logical_perf` is the specification's except in the degenerate
case where some input passes the input-side filter and no detected pattern can pass (the code reports 1). -/
theorem condition_spec_superposed_sectors_nonpnr_detectors {m : ℕ} (U : Matrix (Fin m) (Fin m) GQ) (c : Cfg)
    (ds : List Det) (members : List GMember) (N : ℕ) (hp : allPnr ds = false) (ok : GenOKS U members)
    (hN : ∀ g ∈ members, maxN g.terms ≤ N) (hK : KernsOK N (ds.map Det.kern)) :
    (probsSvdGenSDet U c ds members).phys =
      physPerf (cond c) (detect (ds.map Det.kern) (probsSVD U ((splitAll members).map fun g => (g.w, g.terms)))) ∧
    (probsSvdGenSDet U c ds members).logical =
      (if physPerf (cond c) (detect (ds.map Det.kern) (probsSVD U ((splitAll members).map fun g => (g.w, g.terms))))
            = 0 ∧ physS c members ≠ 0 then 1
       else logicalPerf (cond c)
          (detect (ds.map Det.kern) (probsSVD U ((splitAll members).map fun g => (g.w, g.terms))))) ∧
    (mass (retained (cond c)
        (detect (ds.map Det.kern) (probsSVD U ((splitAll members).map fun g => (g.w, g.terms))))) ≠ 0 →
      (probsSvdGenSDet U c ds members).results =
        conditioned (cond c)
          (detect (ds.map Det.kern) (probsSVD U ((splitAll members).map fun g => (g.w, g.terms))))) := by
  obtain ⟨hres, hphys⟩ := resS_maskoff U c members ok
  have okG := genOKS_split U members ok
  have okA := genOK_am_maskoff U c (splitAll members) okG
  have hF := fullMix_eq_probsSVD U { c with pnr := false } (splitAll members)
  have hnn : NN (probsSVD U ((splitAll members).map fun g => (g.w, g.terms))) := by
    rw [← hF]
    apply AM.NN_fullMix _ okA.wpos
    intro a ha
    obtain ⟨g, _, rfl⟩ := List.mem_map.1 ha
    show NN (probsSV U g.terms)
    rw [← memberGen_maskoff U c g.terms]
    exact NN_memberGen U _ g.terms
  have hsl : SumLe N (probsSVD U ((splitAll members).map fun g => (g.w, g.terms))) := by
    rw [← hF]
    apply AM.sumLe_fullMix N _ okA.shape
    intro a ha
    obtain ⟨g, hg, rfl⟩ := List.mem_map.1 ha
    exact svN_splitAll_le members N hN g hg
  rw [probsSvdGenSDet_nonpnr U c ds members hp, hres, hphys]
  exact finishDetS_spec c ds _ N hnn hsl hK

/-- **condition_spec_superposed_split_nonpnr_detectors.**  …against the specification for the UN-SPLIT mixture: physical
and logical performance of the distribution of detected patterns of `probsSVD` of the members as given, and — whenever
something is retained — every reported pattern has the probability the conditioned distribution gives it. -/
theorem condition_spec_superposed_split_nonpnr_detectors {m : ℕ} (U : Matrix (Fin m) (Fin m) GQ) (c : Cfg)
    (ds : List Det) (members : List GMember) (N : ℕ) (hp : allPnr ds = false) (ok : GenOKS U members)
    (hN : ∀ g ∈ members, maxN g.terms ≤ N) (hK : KernsOK N (ds.map Det.kern)) :
    (probsSvdGenSDet U c ds members).phys =
      physPerf (cond c) (detect (ds.map Det.kern) (probsSVD U (members.map fun g => (g.w, g.terms)))) ∧
    (probsSvdGenSDet U c ds members).logical =
      (if physPerf (cond c) (detect (ds.map Det.kern) (probsSVD U (members.map fun g => (g.w, g.terms)))) = 0 ∧
            physS c members ≠ 0 then 1
       else logicalPerf (cond c) (detect (ds.map Det.kern) (probsSVD U (members.map fun g => (g.w, g.terms))))) ∧
    (mass (retained (cond c) (detect (ds.map Det.kern) (probsSVD U (members.map fun g => (g.w, g.terms))))) ≠ 0 →
      ∀ t, get (probsSvdGenSDet U c ds members).results t =
        get (conditioned (cond c)
          (detect (ds.map Det.kern) (probsSVD U (members.map fun g => (g.w, g.terms))))) t) := by
  obtain ⟨h1, h2, h3⟩ := condition_spec_superposed_sectors_nonpnr_detectors U c ds members N hp ok hN hK
  have hg := get_detect_congr (ds.map Det.kern) (split_sectors_preserve_mixture U members)
  refine ⟨?_, ?_, ?_⟩
  · rw [h1]; exact physPerf_congr_get _ hg
  · rw [h2, physPerf_congr_get _ hg, logicalPerf_congr_get _ hg]
  · intro hret t
    rw [h3 (by rw [retained_mass_congr_get _ hg]; exact hret)]
    exact get_conditioned_congr _ hg t

/-- physical × logical performance = probability that the detected pattern is retained, unconditionally (the
degenerate case included) -/
theorem perf_product_superposed_nonpnr_detectors {m : ℕ} (U : Matrix (Fin m) (Fin m) GQ) (c : Cfg)
    (ds : List Det) (members : List GMember) (N : ℕ) (hp : allPnr ds = false) (ok : GenOKS U members)
    (hN : ∀ g ∈ members, maxN g.terms ≤ N) (hK : KernsOK N (ds.map Det.kern)) :
    (probsSvdGenSDet U c ds members).phys * (probsSvdGenSDet U c ds members).logical =
      mass (retained (cond c) (detect (ds.map Det.kern) (probsSVD U (members.map fun g => (g.w, g.terms))))) := by
  obtain ⟨hres, hphys⟩ := resS_maskoff U c members ok
  have okG := genOKS_split U members ok
  have okA := genOK_am_maskoff U c (splitAll members) okG
  have hF := fullMix_eq_probsSVD U { c with pnr := false } (splitAll members)
  have hnn : NN (probsSVD U ((splitAll members).map fun g => (g.w, g.terms))) := by
    rw [← hF]
    apply AM.NN_fullMix _ okA.wpos
    intro a ha
    obtain ⟨g, _, rfl⟩ := List.mem_map.1 ha
    show NN (probsSV U g.terms)
    rw [← memberGen_maskoff U c g.terms]
    exact NN_memberGen U _ g.terms
  have hsl : SumLe N (probsSVD U ((splitAll members).map fun g => (g.w, g.terms))) := by
    rw [← hF]
    apply AM.sumLe_fullMix N _ okA.shape
    intro a ha
    obtain ⟨g, hg, rfl⟩ := List.mem_map.1 ha
    exact svN_splitAll_le members N hN g hg
  rw [probsSvdGenSDet_nonpnr U c ds members hp, hres, hphys, finishDetS_product c ds _ N hnn hsl hK]
  exact retained_mass_congr_get _
    (get_detect_congr (ds.map Det.kern) (split_sectors_preserve_mixture U members))

/-- **condition_spec_superposed_split_nonpnr_detectors_unitary.**  For a unitary circuit and the built-in detectors
(none / PNR / threshold, at least one threshold) only hypotheses on the data are left. -/
theorem condition_spec_superposed_split_nonpnr_detectors_unitary {m : ℕ} (U : Matrix (Fin m) (Fin m) GQ)
    (hU : IsUnitary U) (c : Cfg) (ds : List Det) (members : List GMember) (N : ℕ) (hp : allPnr ds = false)
    (hb : ∀ d ∈ ds, d.builtin = true)
    (hlen : ∀ g ∈ members, ∀ t ∈ g.terms, ∀ s ∈ t.groups, s.length = m)
    (hnd : ∀ g ∈ members, (g.terms.map (·.groups)).Nodup)
    (hnz : ∀ g ∈ members, g.terms ≠ [] ∧ ∀ t ∈ g.terms, t.coef ≠ 0)
    (hw : (members.map (·.w)).sum = 1) (hpos : ∀ g ∈ members, 0 ≤ g.w)
    (hN : ∀ g ∈ members, maxN g.terms ≤ N) :
    (probsSvdGenSDet U c ds members).phys =
      physPerf (cond c) (detect (ds.map Det.kern) (probsSVD U (members.map fun g => (g.w, g.terms)))) ∧
    (probsSvdGenSDet U c ds members).phys * (probsSvdGenSDet U c ds members).logical =
      mass (retained (cond c) (detect (ds.map Det.kern) (probsSVD U (members.map fun g => (g.w, g.terms))))) ∧
    (mass (retained (cond c) (detect (ds.map Det.kern) (probsSVD U (members.map fun g => (g.w, g.terms))))) ≠ 0 →
      (probsSvdGenSDet U c ds members).logical =
        logicalPerf (cond c) (detect (ds.map Det.kern) (probsSVD U (members.map fun g => (g.w, g.terms)))) ∧
      ∀ t, get (probsSvdGenSDet U c ds members).results t =
        get (conditioned (cond c)
          (detect (ds.map Det.kern) (probsSVD U (members.map fun g => (g.w, g.terms))))) t) := by
  have ok : GenOKS U members :=
    ⟨hlen,
     fun g hg => by
       obtain ⟨t, ht⟩ := List.exists_mem_of_ne_nil _ (hnz g hg).1
       exact PM.C03.svNorm2_ne_zero _ ⟨t, ht, (hnz g hg).2 t ht⟩,
     massOne_splitAll U hU.2 members hlen hnd hnz, hw, hpos⟩
  have hK := kernsOK_builtin N ds hb
  obtain ⟨h1, h2, h3⟩ := condition_spec_superposed_split_nonpnr_detectors U c ds members N hp ok hN hK
  refine ⟨h1, perf_product_superposed_nonpnr_detectors U c ds members N hp ok hN hK, ?_⟩
  intro hret
  refine ⟨?_, h3 hret⟩
  rw [h2, if_neg]
  intro h
  apply hret
  -- the retained mass is at most the passing mass
  have hprod := perf_product_superposed_nonpnr_detectors U c ds members N hp ok hN hK
  rw [← hprod, h1, h.1, zero_mul]

/-- all-PNR layouts: the mask path, i.e. `condition_spec_superposed_split` with the mask in force (so the two theorems
cover every detector layout for superposed inputs) -/
theorem condition_spec_superposed_split_pnr_detectors {m : ℕ} (U : Matrix (Fin m) (Fin m) GQ) (c : Cfg) (hcm : c.m = m)
    (wf : HeraldsWF c.m c.heralds) (ds : List Det) (members : List GMember) (hp : allPnr ds = true)
    (ok : GenOKS U members) :
    (probsSvdGenSDet U c ds members).phys = physPerf (cond c) (probsSVD U (members.map fun g => (g.w, g.terms))) ∧
    (probsSvdGenSDet U c ds members).logical =
      logicalPerf (cond c) (probsSVD U (members.map fun g => (g.w, g.terms))) ∧
    (mass (retained (cond c) (probsSVD U (members.map fun g => (g.w, g.terms)))) ≠ 0 →
      ∀ t, get (probsSvdGenSDet U c ds members).results t =
        get (conditioned (cond c) (probsSVD U (members.map fun g => (g.w, g.terms)))) t) := by
  rw [probsSvdGenSDet_pnr U c ds members hp]
  exact condition_spec_superposed_split U { c with pnr := true } hcm wf members ok

/-! non-vacuity: the mixing unitary `PM.C02.exU`, mode 1 heralded on 0 photons (`uCfg`), the member `sTerms` superposing
`|1,0>` and `|1,1>`, a threshold detector on mode 0 -/

example : allPnr [Det.thr, Det.none] = false ∧ (∀ d ∈ [Det.thr, Det.none], d.builtin = true) ∧
    (∀ g ∈ [(⟨1, sTerms⟩ : GMember)], maxN g.terms ≤ 2) := by
  refine ⟨by decide, by decide, ?_⟩
  intro g hg; simp only [List.mem_singleton] at hg; subst hg; decide

example : (probsSvdGenSDet PM.C02.exU uCfg [.thr, .none] [⟨1, sTerms⟩]).phys =
      physPerf (cond uCfg) (detect ([Det.thr, Det.none].map Det.kern) (probsSVD PM.C02.exU [(1, sTerms)])) ∧
    (probsSvdGenSDet PM.C02.exU uCfg [.thr, .none] [⟨1, sTerms⟩]).phys *
        (probsSvdGenSDet PM.C02.exU uCfg [.thr, .none] [⟨1, sTerms⟩]).logical =
      mass (retained (cond uCfg)
        (detect ([Det.thr, Det.none].map Det.kern) (probsSVD PM.C02.exU [(1, sTerms)]))) :=
  let h := condition_spec_superposed_split_nonpnr_detectors_unitary PM.C02.exU exU_isUnitary uCfg [.thr, .none]
    [⟨1, sTerms⟩] 2 (by decide) (by decide)
    (by intro g hg; simp only [List.mem_singleton] at hg; subst hg
        intro t ht s hs
        simp only [sTerms, List.mem_cons, List.not_mem_nil, or_false] at ht
        rcases ht with rfl | rfl <;>
        · simp only [List.mem_cons, List.not_mem_nil, or_false] at hs
          subst hs; rfl)
    (by intro g hg; simp only [List.mem_singleton] at hg; subst hg; decide)
    (by intro g hg; simp only [List.mem_singleton] at hg; subst hg
        refine ⟨by simp [sTerms], ?_⟩
        intro t ht
        simp only [sTerms, List.mem_cons, List.not_mem_nil, or_false] at ht
        rcases ht with rfl | rfl <;> decide)
    (by simp) (by intro g hg; simp only [List.mem_singleton] at hg; subst hg; norm_num)
    (by intro g hg; simp only [List.mem_singleton] at hg; subst hg; decide)
  ⟨h.1, h.2.1⟩

/-! ### EXTENSION 4 — where the heralds come from (`Experiment.add_herald` / `add_port` / `heralds` / `m` /
`circuit_size` / `with_input`), and `evolve_svd` against `probs_svd`

`Model/C04Decl.lean` is the port bookkeeping of `Experiment` as coded, every exception caught (`declRun`). -/

/-- **declared_heralds_invariant.**  After ANY history of `add_herald` / `add_port` calls on `Experiment(m)` —
refused calls included, also the call that raises `IndexError` after having stored its port — the declared herald
modes are pairwise distinct, `circuit_size` is still `m`, and the input length `check_input` asks for (`self.m`) is
exactly the number of blanks of the herald mask, i.e. the hypothesis `hu` of `interleave_spec`. -/
theorem declared_heralds_invariant (m : ℕ) (ops : List DeclOp) :
    ((declRun (Exp.init m) ops).1.heralds.map (·.1)).Nodup ∧
    (declRun (Exp.init m) ops).1.circuitSize = m ∧
    (declRun (Exp.init m) ops).1.nMoi = freeModes (heraldMask m (declRun (Exp.init m) ops).1.heralds) := by
  have I := declRun_inv ops _ (declInv_init m)
  have hs : (declRun (Exp.init m) ops).1.size = m := declRun_size ops _
  refine ⟨I.nodup, ?_, ?_⟩
  · rw [Exp.circuitSize, I.size, hs]
  · have := I.free
    rwa [hs] at this

/-- **declared_heralds_wf.**  The hypothesis `HeraldsWF` of every theorem above holds for the `heralds` dictionary of
an experiment none of whose declaration calls ended in `IndexError` (calls refused with `AssertionError` /
`UnavailableModeException` may have been caught; other ports may have been added in between). -/
theorem declared_heralds_wf (m : ℕ) (ops : List DeclOp)
    (h : DeclRes.indexError ∉ (declRun (Exp.init m) ops).2) :
    HeraldsWF m (declRun (Exp.init m) ops).1.heralds :=
  ⟨(declared_heralds_invariant m ops).1,
   declRun_inRange ops (Exp.init m) (by simp [Exp.init, Exp.heralds]) h⟩

/-- …and the `IndexError` is the only way out: the call stores its port before `_mode_type[mode]` raises -/
theorem declared_heralds_wf_needs_no_index_error :
    ¬ ∀ (m : ℕ) (ops : List DeclOp), HeraldsWF m (declRun (Exp.init m) ops).1.heralds := by
  intro h
  have := (h 3 [.herald 5 1]).inRange (5, 1) (by decide)
  omega

/-- every declared expected value is 0 or 1 (`assert expected == 0 or expected == 1`): the property's quantifier -/
theorem declared_values_le_one (m : ℕ) (ops : List DeclOp) :
    ∀ p ∈ (declRun (Exp.init m) ops).1.heralds, p.2 ≤ 1 := by
  suffices H : ∀ (ops : List DeclOp) (e : Exp), (∀ p ∈ e.heralds, p.2 ≤ 1) →
      ∀ p ∈ (declRun e ops).1.heralds, p.2 ≤ 1 from H ops _ (by simp [Exp.init, Exp.heralds])
  intro ops
  induction ops with
  | nil => intro e he; exact he
  | cons op rest ih =>
    intro e he
    simp only [declRun]
    apply ih
    cases op with
    | herald k v =>
      simp only [declStep]
      split_ifs with h1 h2 h3
      · exact he
      · exact he
      · intro p hp
        rw [heralds_append_herald] at hp
        rcases List.mem_append.1 hp with hp | hp
        · exact he p hp
        · simp only [List.mem_singleton] at hp; subst hp; show v ≤ 1; omega
      · intro p hp
        have hH := heralds_append_herald e k v
        simp only [Exp.heralds] at hH hp ⊢
        rw [hH] at hp
        rcases List.mem_append.1 hp with hp | hp
        · exact he p hp
        · simp only [List.mem_singleton] at hp; subst hp; show v ≤ 1; omega
    | port k w =>
      simp only [declStep]
      split_ifs with h1
      · exact he
      · intro p hp
        have hH : Exp.heralds { e with ports := e.ports ++ [(none, List.range' k w)] } = e.heralds :=
          heralds_append_port e _
        rw [hH] at hp
        exact he p hp

/-- **declared_with_input_spec.**  `with_input(BasicState)` on an experiment declared by any such history accepts
exactly the inputs whose length is the number of modes that carry no herald, and the state it stores has the
circuit's size, holds the expected values on the heralded modes and the user's state on the others. -/
theorem declared_with_input_spec (m : ℕ) (ops : List DeclOp) (user : Fock)
    (h : DeclRes.indexError ∉ (declRun (Exp.init m) ops).2) :
    ((declRun (Exp.init m) ops).1.withInput user ≠ none ↔
      user.length = freeModes (heraldMask m (declRun (Exp.init m) ops).1.heralds)) ∧
    ∀ fullIn, (declRun (Exp.init m) ops).1.withInput user = some fullIn →
      fullIn.length = m ∧ heraldsOk (declRun (Exp.init m) ops).1.heralds fullIn = true ∧
      removeModes ((declRun (Exp.init m) ops).1.heralds.map (·.1)) fullIn = user := by
  obtain ⟨_, hcs, hfree⟩ := declared_heralds_invariant m ops
  have wf := declared_heralds_wf m ops h
  constructor
  · unfold Exp.withInput
    rw [hfree]
    split_ifs with hl
    · simp [hl]
    · simp only [ne_eq, not_not] at hl; simp [hl]
  · intro fullIn hw
    unfold Exp.withInput at hw
    split_ifs at hw with hl
    simp only [ne_eq, not_not] at hl
    cases hw
    rw [hcs]
    exact interleave_spec m _ user wf (by rw [hl, hfree])

example : (declRun (Exp.init 4) [.herald 2 1, .herald 2 0, .port 0 2, .herald 1 0, .herald 3 2, .herald 3 0]).2 =
    [.ok, .unavailable, .ok, .unavailable, .assertionError, .ok] ∧
    (declRun (Exp.init 4) [.herald 2 1, .herald 2 0, .port 0 2, .herald 1 0, .herald 3 2, .herald 3 0]).1.heralds =
      [(2, 1), (3, 0)] ∧
    (declRun (Exp.init 4) [.herald 2 1, .herald 2 0, .port 0 2, .herald 1 0, .herald 3 2, .herald 3 0]).1.withInput
      [1, 0] = some [1, 0, 1, 0] := by decide

/-- the quirk of the `IndexError` path, as coded: the port stays in the dictionaries, the counters do not move -/
example : (declRun (Exp.init 3) [.herald 1 1, .herald 5 1]).2 = [.ok, .indexError] ∧
    (declRun (Exp.init 3) [.herald 1 1, .herald 5 1]).1.heralds = [(1, 1), (5, 1)] ∧
    (declRun (Exp.init 3) [.herald 1 1, .herald 5 1]).1.circuitSize = 3 ∧
    (declRun (Exp.init 3) [.herald 1 1, .herald 5 1]).1.withInput [1, 0] = some [1, 1, 0] := by decide

/-- **condition_spec_declared.**  End to end from the declaration: a processor on a UNITARY `m`-mode circuit whose
heralds were declared by ANY history of `add_herald` / `add_port` calls none of which ended in `IndexError`, given an
input `with_input` accepts (perfect source: the one Fock state `with_input` stored), returns the conditioning of the
unconditioned output distribution of that stored state — no well-formedness hypothesis on the heralds, no hypothesis
on the engine, none on the input's length is left. -/
theorem condition_spec_declared {m : ℕ} (U : Matrix (Fin m) (Fin m) GQ) (hU : IsUnitary U) (ops : List DeclOp)
    (hok : DeclRes.indexError ∉ (declRun (Exp.init m) ops).2) (user fullIn : Fock)
    (hin : (declRun (Exp.init m) ops).1.withInput user = some fullIn)
    (ps : PS) (k : ℕ) (keep pnr : Bool)
    (hret : mass (retained (cond ⟨m, (declRun (Exp.init m) ops).1.heralds, ps, k, keep, pnr⟩)
      (mix [((1 : ℚ), probsTagged U [fullIn])])) ≠ 0) :
    (probsSvd (probsFock U) ⟨m, (declRun (Exp.init m) ops).1.heralds, ps, k, keep, pnr⟩ [⟨1, [fullIn]⟩]).results =
      conditioned (cond ⟨m, (declRun (Exp.init m) ops).1.heralds, ps, k, keep, pnr⟩)
        (mix [((1 : ℚ), probsTagged U [fullIn])]) ∧
    heraldsOk (declRun (Exp.init m) ops).1.heralds fullIn = true ∧
    removeModes ((declRun (Exp.init m) ops).1.heralds.map (·.1)) fullIn = user := by
  obtain ⟨hlen, hh, hr⟩ := (declared_with_input_spec m ops user hok).2 fullIn hin
  refine ⟨?_, hh, hr⟩
  exact condition_spec_unitary ⟨m, (declRun (Exp.init m) ops).1.heralds, ps, k, keep, pnr⟩ rfl U hU [⟨1, [fullIn]⟩]
    (declared_heralds_wf m ops hok)
    (by intro mb hmb s hs
        simp only [List.mem_singleton] at hmb; subst hmb
        simp only [List.mem_singleton] at hs; subst hs; exact hlen)
    ⟨by simp, by intro mb hmb; simp only [List.mem_singleton] at hmb; subst hmb; norm_num⟩
    (by simpa using hret)

/-- **evolve_svd_agrees_with_probs_svd.**  On a mixture of annotated Fock states `evolve_svd` and `probs_svd` report
the same two performances (the first sums the weights of the inputs that pass the filter and averages the
per-input logical performances; the second subtracts the rejected weights from 1 and divides accumulated masses). -/
theorem evolve_svd_agrees_with_probs_svd (eng : Fock → D) (c : Cfg) (members : List Member)
    (wf : HeraldsWF c.m c.heralds) (he : EngOK eng c.m members) (hmix : MixOK members)
    (hg : ∀ mb ∈ members, mb.groups ≠ [])
    (hvac : ∀ mb ∈ members, ∀ s ∈ mb.groups, s.sum = 0 → eng s = [(s, 1)]) :
    (evolveSvd eng c members).1 = (probsSvd eng c members).phys ∧
    (evolveSvd eng c members).2 = (probsSvd eng c members).logical := by
  obtain ⟨h1, h2⟩ := evolve_svd_perf_spec eng c members wf he hg hvac
  exact ⟨by rw [h1, physical_perf_spec eng c members he hmix],
         by rw [h2, logical_perf_spec eng c members wf he hmix]⟩

/-- **evolve_svd_perf_product.**  `physical_perf * logical_perf` of `evolve_svd` = total retained probability. -/
theorem evolve_svd_perf_product (eng : Fock → D) (c : Cfg) (members : List Member)
    (wf : HeraldsWF c.m c.heralds) (he : EngOK eng c.m members)
    (hg : ∀ mb ∈ members, mb.groups ≠ [])
    (hvac : ∀ mb ∈ members, ∀ s ∈ mb.groups, s.sum = 0 → eng s = [(s, 1)])
    (hphys : (evolveSvd eng c members).1 ≠ 0) :
    (evolveSvd eng c members).1 * (evolveSvd eng c members).2 =
      mass (retained (cond c) (full eng c.m members)) := by
  obtain ⟨h1, h2⟩ := evolve_svd_perf_spec eng c members wf he hg hvac
  rw [h1] at hphys
  rw [h1, h2]
  exact SimSpec.perf_product _ _ hphys

/-- **evolve_svd_weights_spec.**  The weights of the `SVDistribution` returned by `evolve_svd` (`p · logical_perf` of
each accepted input, normalised): the normalising constant is the total retained probability of the specification,
and the weights sum to 1 whenever something is retained and the reported states have at least one mode (when every
mode is heralded and the heralds are discarded the code stores nothing: `new_sv.m != 0` fails — characterised by
`evolve_svd_weights_all_heralded`, not repaired; `evolve_svd`'s returned distribution is not among the property's
observation points). -/
theorem evolve_svd_weights_spec (eng : Fock → D) (c : Cfg) (members : List Member)
    (wf : HeraldsWF c.m c.heralds) (he : EngOK eng c.m members)
    (hg : ∀ mb ∈ members, mb.groups ≠ [])
    (hvac : ∀ mb ∈ members, ∀ s ∈ mb.groups, s.sum = 0 → eng s = [(s, 1)])
    (hphys : (evolveSvd eng c members).1 ≠ 0) :
    ((kept c members).map fun mb => mb.w * evolveLogical eng c mb.groups).sum =
      mass (retained (cond c) (full eng c.m members)) ∧
    (mass (retained (cond c) (full eng c.m members)) ≠ 0 → outModes c ≠ 0 →
      (evolveSvdWeights eng c members).sum = 1) := by
  have hp := evolve_svd_perf_product eng c members wf he hg hvac hphys
  have hglob : ((kept c members).map fun mb => mb.w * evolveLogical eng c mb.groups).sum =
      mass (retained (cond c) (full eng c.m members)) := by
    rw [← hp]
    simp only [evolveSvd] at hphys ⊢
    rw [if_pos hphys]
    field_simp
  refine ⟨hglob, fun hne hm => ?_⟩
  unfold evolveSvdWeights
  simp only
  rw [if_neg hm, sum_map_div, sum_filter_ne_zero, hglob]
  exact div_self hne

/-- every mode heralded, heralds discarded: `evolve_svd` returns an empty distribution whatever was retained -/
theorem evolve_svd_weights_all_heralded (eng : Fock → D) (c : Cfg) (members : List Member)
    (hk : c.keepHeralds = false) (hall : c.heralds.length = c.m) : evolveSvdWeights eng c members = [] := by
  unfold evolveSvdWeights
  simp [outModes, hk, hall]

/-! ### what is still NOT a theorem

* probability trimming is now modelled on every path of `probs_svd`: fast path (`probsSvdθ`), layouts with a non-PNR
  detector (`probsSvdDetθ`: `simulate_detectors`' per-state threshold on the merged dict) and superposed inputs
  (`probsSvdGenθ`: `_merge_sv`'s amplitude threshold under the mask), each with bounds in terms of exactly computed
  trimmed quantities; a-priori bounds (threshold × number of entries of the stage, hence explicit functions of the
  configured precision and of sizes) are proved for the fast path and the detector path (`trimmed_mass_apriori`,
  `trimmed_mass_det_apriori` and their consequences).  NOT proved: an a-priori bound for the superposed path (the
  coherent error `|l|² + 2|b||l|` is first order in the dropped amplitude: the harness's direct oracle uses a crude,
  unproved amplitude bound there); `min_p` acting inside `BSDistribution.add` (1e-16 per entry); the native
  `StateVector`'s own cut-off `min_complex_component = 1e-6` on amplitudes (exqalibur: components of modulus ≤ 1e-6 are
  dropped whatever the precision — not modelled; the correspondence sets aside superposed cases whose model holds a
  non-zero amplitude below 1e-5); superposed inputs combined with detectors AT A NON-ZERO PRECISION (at precision 0
  they are now a theorem, next item);
* the superposed-input path is modelled and proved for members holding any photon numbers
  (`condition_spec_superposed_split`: `_preprocess_svd`'s two passes with the photon-count split at precision 0; the
  dict merge of equal sectors / members and the split at a non-zero precision are C03's `preprocess`, not re-proved
  here); superposed inputs combined with a non-PNR detector (`probsSvdGenSDet`) are NOW A THEOREM at precision 0:
  `condition_spec_superposed_sectors_nonpnr_detectors` (lists, mixture of the sectors),
  `condition_spec_superposed_split_nonpnr_detectors` (un-split specification, outcome by outcome),
  `perf_product_superposed_nonpnr_detectors`, `…_unitary` (built-in detectors: data hypotheses only) and
  `condition_spec_superposed_split_pnr_detectors` for the all-PNR layouts; what remains a hypothesis there is `KernsOK`
  for non-built-in kernel tables, and the degenerate logical performance is characterised (reported 1), as on the
  Fock-state path; `evolve` of a genuine superposition is not compared at all;
* the *distribution* returned by `evolve` after discarding heralded modes that hold distinguishable photons
  (`post_select_statevector` adds amplitudes of components that differ only by the tags of the discarded photons):
  only its logical performance is modelled and proved (`evolve_logical_perf_spec`), and `evolve_mask_invariance`
  for the accepted squared amplitudes before the heralded modes are removed;
* `evolveSvd` and the declaration machine `declRun` (`Experiment.add_herald` / `add_port` / `heralds` / `m` /
  `circuit_size` / `with_input`, every exception caught — it supersedes `declareHeralds`) are NOW exercised by the
  correspondence (batches `evsvd` and `decl`) and carry theorems (`declared_heralds_invariant`, `declared_heralds_wf`,
  `declared_with_input_spec`, `condition_spec_declared`, `evolve_svd_agrees_with_probs_svd`, `evolve_svd_perf_product`,
  `evolve_svd_weights_spec`).  Still outside: `remove_port` (it deletes a Herald port without restoring `_n_moi` /
  `_n_heralds` — removing a herald is not in the property's quantifier), ports at `PortLocation.INPUT` / `OUTPUT` only,
  negative modes (Python indexes `_mode_type` from the end), `add_herald` after components made the circuit grow;
  the state vectors of `evolve_svd`'s result (only their weights are modelled, under the assumption that distinct
  members evolve to distinct vectors), `evolve_svd` on superposed members (`min(sv.n)` rule);
* that the closed-form kernel tables handed to `Det.table` are `Detector.detect`'s (C08's subject) — here a
  hypothesis `KernsOK` on the tables; for `Detector.pnr/threshold` it is proved (`kernsOK_builtin`);
* the degenerate logical performance of the detector path (`logical_perf_nonpnr_detectors_full`: the code reports
  1 where the conditional probability is undefined) is *characterised*, not repaired;
* history-independence is proved for *selection* changes (heralds, post-selection, filter, keep_heralds, detectors)
  of a reused `Simulator` (`probs_svd`, fast path) and `Processor` (`probs`) on a fixed circuit; `evolve` /
  `evolve_svd` / the generic path's `_evolve` cache on a reused object, and circuit / input / noise / precision changes
  are C05's machines (abstract identifiers), not re-proved here; `check_heralds_detectors`' early exit is modelled
  statelessly (`probsSvdGuarded`, `early_exit_out_of_scope`; `early_exit_retained_zero` / `early_exit_product_spec`:
  when the exit is taken the specification retains nothing, so the product statement holds there too), not inside the
  session machines;
* `KernsOK.noGain` (no detector reports more photons than arrived) is NECESSARY: witness `kCfg`/`kDark` (a dark count
  lifts the vacuum above the filter after `_preprocess_svd` has already discarded it: code 0, specification 1). -/

end PM.C04
