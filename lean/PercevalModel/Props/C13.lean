/-
  C13 — property theorems (model: `Model/C13.lean`, helper lemmas: `Lemmas/C13.lean`).

  Property: simulating a circuit with polarisation components on a polarised input equals the
  spatial simulation of the circuit's `2m × 2m` matrix (ordinary components acting identically on
  both polarisations) fed with each photon in the superposition of the two sub-modes given by its
  Jones vector, followed by summing the two sub-modes of every spatial mode; the doubled matrix is
  unitary; the labels H, V, D, A, L, R denote the standard Jones vectors.

  In the model the simulation *is* `polDist (upol * prep) spatialInput` (definition `polDist`,
  `simMatrix`); sections 1–9 establish, for every commutative (star) ring — in particular
  `ℂ` — and every circuit tree / every angle / every Jones vector, that each ingredient is what
  the statement says it is; section 10 ties them together (`polarised_simulation_spec`,
  `polarised_simulation_of_input`, over `ℂ`: `polarised_simulation_mass_field`); section 11 extends
  the session theorems to histories that edit the circuit (`add`, re-tuned parameters); section 12
  is the state-vector path (`evolve`), section 13 `convert_polarized_state(inverse / symbolic)`,
  section 14 heralds / post-selection / photon filter (composition with the C04 conditioning
  specification); section 15 components known by class (`use_polarization` on every component kind;
  the top-level theorem from the components' parameters and the photons' angles, without the
  hypotheses "leaves unitary" / "Jones vectors normalised"); section 16 the input bookkeeping of a
  `Processor` given a polarised input.  What is NOT proved is listed at the end of the file.
-/
import PercevalModel.Lemmas.C13
import PercevalModel.Props.C01
import Mathlib.LinearAlgebra.Matrix.NonsingularInverse
import PercevalModel.Lemmas.C13Complex
import PercevalModel.Lemmas.C13More
import PercevalModel.Lemmas.C13Session
import PercevalModel.Lemmas.C13Ext
import PercevalModel.Lemmas.C13Kinds
import PercevalModel.Lemmas.C13Proc
import PercevalModel.Lemmas.C13W7
import PercevalModel.Model.C13Shape
import PercevalModel.Props.C02

open Matrix

namespace PM.C13
variable {R : Type}

/-! ### 1. mode doubling -/

/-- the doubled index of (spatial mode `a`, polarisation `p`) is `2a + p` -/
theorem pair_val {m : ℕ} (a : Fin m) (p : Fin 2) :
    (finProdFinEquiv (a, p) : Fin (m * 2)).val = 2 * a.val + p.val := by
  simp [finProdFinEquiv]; ring

/-- `matrix_double`: `pu[2a+p, 2b+q] = u[a, b]` when `p = q`, `0` otherwise. -/
theorem double_entries [Zero R] {m : ℕ} (U : Matrix (Fin m) (Fin m) R) (a b : Fin m) (p q : Fin 2) :
    double U (finProdFinEquiv (a, p)) (finProdFinEquiv (b, q)) = if p = q then U a b else 0 := by
  simp [double, divNat_pair, modNat_pair]

theorem double_one [Zero R] [One R] {m : ℕ} : double (1 : Matrix (Fin m) (Fin m) R) = 1 :=
  double_one'

theorem double_mul [CommRing R] {m : ℕ} (A B : Matrix (Fin m) (Fin m) R) :
    double (A * B) = double A * double B := (double_mul' A B).symm

theorem double_star [CommRing R] [StarRing R] {m : ℕ} (A : Matrix (Fin m) (Fin m) R) :
    double Aᴴ = (double A)ᴴ := (double_conjTranspose' A).symm

/-- doubling a unitary matrix gives a unitary matrix (doubling is a star-monoid homomorphism) -/
theorem double_isUnitary [CommRing R] [StarRing R] {m : ℕ} {A : Matrix (Fin m) (Fin m) R}
    (h : IsUnitary A) : IsUnitary (double A) := double_isUnitary' h

/-- doubling commutes with embedding at the doubled range (the `multiplier` arithmetic of
`_compute_circuit_unitary`: `nU[2·r0 : 2·(r1+1), …] = cU`). -/
theorem double_embed [Zero R] [One R] {N o k : ℕ} (hk : o + k ≤ N) (B : Matrix (Fin k) (Fin k) R) :
    double (embed N o B) = embed (N * 2) (o * 2) (double B) := double_embed' hk B

/-! ### 2. the doubled circuit matrix -/

/-- `compute_unitary(use_polarization=True)` is the ordered product of the leaves' blocks —
`matrix_double(u)` for an ordinary leaf, the `2k × 2k` matrix of a polarising leaf — embedded at
twice the first spatial mode the iterator reports; those ranges lie inside the circuit.
Any nesting depth, any admissible offsets. -/
theorem unitaryOfPol_eq_prod [CommRing R] (c : PComp R) (h : c.WF) :
    unitaryOfPol c =
        C01.prodFlat (dbl c).size ((leaves c).map fun p => (p.1 * 2, p.2.block)) ∧
      ∀ p ∈ leaves c, p.1 + p.2.width ≤ c.size := by
  obtain ⟨e, f⟩ := C01.unitaryOf_eq_prod_flatten (dbl c) (dbl_WF c h)
  rw [flatten_dbl] at e f
  refine ⟨e, ?_⟩
  intro p hp
  have := f (p.1 * 2, p.2.block) (List.mem_map.2 ⟨p, hp, rfl⟩)
  rw [dbl_size] at this
  have hw : p.2.block.1 = p.2.width * 2 := by cases p.2 <;> rfl
  simp only [hw] at this
  omega

/-- The doubled matrix of any circuit built from unitary leaves (ordinary or polarising) is
unitary. -/
theorem unitaryOfPol_isUnitary [CommRing R] [StarRing R] (c : PComp R) (h : c.WF)
    (hu : c.AllUnitary) : IsUnitary (unitaryOfPol c) :=
  C01.unitaryOf_isUnitary (dbl c) (dbl_WF c h) (dbl_AllUnitary c hu)

/-- A circuit without polarising components acts identically on both polarisations: its doubled
matrix is the double of its spatial matrix (sub-circuits of any depth included). -/
theorem unitaryOfPol_plain [CommRing R] (m : ℕ) (items : PItems R)
    (h : items.requires = false) (hw : items.WF m) :
    C01.prodItems (m * 2) (dblItems items) = double (C01.prodItems m (spatialItems items)) :=
  prodItems_dbl_plain m items h hw

/-- `use_polarization=False` is refused exactly for circuits that contain a polarising
component; `None` doubles exactly those. -/
theorem resolve_spec (req : Bool) :
    resolve req none = .ok req ∧ resolve req (some true) = .ok true ∧
      (resolve req (some false) = if req then .error "AssertionError" else .ok false) := by
  cases req <;> simp [resolve]

/-! ### 3. polarising components are unitary (generic ring; then `ℂ`, all real angles) -/

theorem wp_unitary [CommRing R] [StarRing R] (i c s c2 s2 : R) (hi : i * i = -1)
    (hsi : star i = -i) (hc : star c = c) (hs : star s = s) (hc2 : star c2 = c2)
    (hs2 : star s2 = s2) (h1 : c * c + s * s = 1) (h2 : c2 * c2 + s2 * s2 = 1) :
    IsUnitary (wp i c s c2 s2) := by
  have e : (wp i c s c2 s2)ᴴ = wp (-i) c s c2 s2 := by
    ext a b
    fin_cases a <;> fin_cases b <;>
      simp [wp, conjTranspose_apply, hsi, hc, hs, hc2, hs2, sub_eq_add_neg]
  unfold IsUnitary
  rw [e]
  constructor <;> ext a b <;> fin_cases a <;> fin_cases b <;>
    simp [wp, Matrix.mul_apply, Fin.sum_univ_two]
  · linear_combination (-(s * s) * (c2 * c2 + s2 * s2)) * hi + h1 + (s * s) * h2
  · ring
  · ring
  · linear_combination (-(s * s) * (c2 * c2 + s2 * s2)) * hi + h1 + (s * s) * h2
  · linear_combination (-(s * s) * (c2 * c2 + s2 * s2)) * hi + h1 + (s * s) * h2
  · ring
  · ring
  · linear_combination (-(s * s) * (c2 * c2 + s2 * s2)) * hi + h1 + (s * s) * h2

theorem pr_unitary [CommRing R] [StarRing R] (c s : R) (hc : star c = c) (hs : star s = s)
    (h1 : c * c + s * s = 1) : IsUnitary (pr c s) := by
  have e : (pr c s)ᴴ = pr c (-s) := by
    ext a b
    fin_cases a <;> fin_cases b <;> simp [pr, conjTranspose_apply, hc, hs]
  unfold IsUnitary
  rw [e]
  constructor <;> ext a b <;> fin_cases a <;> fin_cases b <;>
    simp [pr, Matrix.mul_apply, Fin.sum_univ_two] <;>
    first | linear_combination h1 | linear_combination -h1 | ring

theorem pbs_unitary [CommRing R] [StarRing R] : IsUnitary (pbs : Matrix (Fin 4) (Fin 4) R) := by
  have e : (pbs : Matrix (Fin 4) (Fin 4) R)ᴴ = pbs := by
    ext a b
    fin_cases a <;> fin_cases b <;> simp [pbs, conjTranspose_apply]
  unfold IsUnitary
  rw [e]
  constructor <;> ext a b <;> fin_cases a <;> fin_cases b <;>
    simp [pbs, Matrix.mul_apply, Fin.sum_univ_four]

/-- `WP(δ, ξ)` (hence `HWP(ξ)`, `QWP(ξ)`) is unitary for all real angles. -/
theorem wp_unitary_complex (δ ξ : ℝ) :
    IsUnitary (wp Complex.I (Real.cos δ : ℂ) (Real.sin δ : ℂ) (Real.cos (2 * ξ) : ℂ)
      (Real.sin (2 * ξ) : ℂ)) :=
  wp_unitary _ _ _ _ _ Complex.I_mul_I Complex.conj_I (Complex.conj_ofReal _)
    (Complex.conj_ofReal _) (Complex.conj_ofReal _) (Complex.conj_ofReal _)
    (cos_sq_add_sin_sq_C δ) (cos_sq_add_sin_sq_C (2 * ξ))

/-- `PR(δ)` is unitary for all real angles. -/
theorem pr_unitary_complex (δ : ℝ) : IsUnitary (pr (Real.cos δ : ℂ) (Real.sin δ : ℂ)) :=
  pr_unitary _ _ (Complex.conj_ofReal _) (Complex.conj_ofReal _) (cos_sq_add_sin_sq_C δ)

/-! ### 4. Jones vectors and the preparation matrix -/

/-- `project_eh_ev` returns a normalised vector for all angles. -/
theorem jones_norm [CommRing R] [StarRing R] (i c s p q : R) (hi : i * i = -1)
    (hsi : star i = -i) (hc : star c = c) (hs : star s = s) (hp : star p = p) (hq : star q = q)
    (h1 : c * c + s * s = 1) (h2 : p * p + q * q = 1) :
    inner (jones i c s p q) (jones i c s p q) = 1 := by
  simp only [inner, jones, star_mul', star_add, hsi, hc, hs, hp, hq]
  linear_combination (-(q * q * s * s)) * hi + h1 + (s * s) * h2

/-- One polarisation in a mode: the block `[[eh, −ev*], [ev, eh*]]` is unitary whenever the Jones
vector is normalised. -/
theorem prep_unitary [CommRing R] [StarRing R] (v : R × R) (h : inner v v = 1) :
    IsUnitary (blockOf v (compl v)) := by
  have h' : v.1 * star v.1 + v.2 * star v.2 = 1 := by
    simp only [inner] at h; linear_combination h
  unfold IsUnitary
  constructor <;> ext a b <;> fin_cases a <;> fin_cases b <;>
    simp [blockOf, compl, Matrix.mul_apply, Fin.sum_univ_two, conjTranspose_apply] <;>
    first | linear_combination h' | ring

/-- Two polarisations in a mode, as given: the block is unitary when they are orthonormal
(exact arithmetic). -/
theorem prep2_unitary [CommRing R] [StarRing R] (v1 v2 : R × R) (h1 : inner v1 v1 = 1)
    (h2 : inner v2 v2 = 1) (h12 : inner v1 v2 = 0) : IsUnitary (blockOf v1 v2) := by
  have h21 : inner v2 v1 = 0 := by
    have := congrArg star h12
    simp only [inner, star_add, star_mul', star_star, star_zero] at this ⊢
    linear_combination this
  have hl : (blockOf v1 v2)ᴴ * blockOf v1 v2 = 1 := by
    simp only [inner] at h1 h2 h12 h21
    ext a b
    fin_cases a <;> fin_cases b <;>
      simp [blockOf, Matrix.mul_apply, Fin.sum_univ_two, conjTranspose_apply]
    · linear_combination h1
    · linear_combination h12
    · linear_combination h21
    · linear_combination h2
  exact ⟨mul_eq_one_comm.1 hl, hl⟩

/-- Two polarisations in a mode, repaired code: after the Gram–Schmidt step the block is unitary
for *any* second vector (no orthogonality needed), `ρ` being the inverse norm. -/
theorem prep2_fixed_unitary [CommRing R] [StarRing R] (ρ : R) (v1 v2 : R × R)
    (h1 : inner v1 v1 = 1) (hρ : star ρ = ρ) (hn : ρ * ρ * gsNorm2 v1 v2 = 1) :
    IsUnitary (blockOf v1 (gs ρ v1 v2)) := by
  apply prep2_unitary _ _ h1
  · simp only [gsNorm2, gs, inner, one_mul] at hn ⊢
    simp only [star_mul', hρ]
    linear_combination hn
  · simp only [gs, inner] at h1 ⊢
    linear_combination (-(ρ * (star v1.1 * v2.1 + star v1.2 * v2.2))) * h1

theorem prepMatrix_mul [CommRing R] {m : ℕ} (A B : Fin m → Matrix (Fin 2) (Fin 2) R) :
    prepMatrix A * prepMatrix B = prepMatrix fun k => A k * B k := by
  ext i j
  rw [Matrix.mul_apply, sum_double]
  simp only [prepMatrix, divNat_pair, modNat_pair]
  rw [Finset.sum_eq_single i.divNat]
  · by_cases h : i.divNat = j.divNat
    · simp [h, Matrix.mul_apply]
    · simp [h]
  · intro a _ ha
    simp [Ne.symm ha]
  · simp

theorem prepMatrix_one [Zero R] [One R] {m : ℕ} :
    prepMatrix (fun _ : Fin m => (1 : Matrix (Fin 2) (Fin 2) R)) = 1 := by
  ext i j
  simp only [prepMatrix, Matrix.one_apply]
  by_cases h : i = j
  · subst h; simp
  · by_cases h1 : i.divNat = j.divNat
    · have : i.modNat ≠ j.modNat := fun h2 => h (fin_double_ext h1 h2)
      simp [h, h1, this]
    · simp [h, h1]

theorem prepMatrix_conjTranspose [CommRing R] [StarRing R] {m : ℕ}
    (A : Fin m → Matrix (Fin 2) (Fin 2) R) : (prepMatrix A)ᴴ = prepMatrix fun k => (A k)ᴴ := by
  ext i j
  simp only [prepMatrix, conjTranspose_apply]
  by_cases h : i.divNat = j.divNat
  · simp [h]
  · have : ¬ j.divNat = i.divNat := fun h' => h h'.symm
    simp [h, this]

/-- The preparation matrix is unitary when every mode's block is. -/
theorem prepMatrix_isUnitary [CommRing R] [StarRing R] {m : ℕ}
    (A : Fin m → Matrix (Fin 2) (Fin 2) R) (h : ∀ k, IsUnitary (A k)) :
    IsUnitary (prepMatrix A) := by
  constructor
  · rw [prepMatrix_conjTranspose, prepMatrix_mul]
    simp only [(h _).1]; exact prepMatrix_one
  · rw [prepMatrix_conjTranspose, prepMatrix_mul]
    simp only [(h _).2]; exact prepMatrix_one

/-- Every block the repaired conversion builds is unitary: no photon → identity; one
polarisation → `prep_unitary`; two → Gram–Schmidt. -/
theorem modeBlock_isUnitary [CommRing R] [StarRing R] (ρ : R) (vs : List (R × R))
    (hnorm : ∀ v ∈ vs, inner v v = 1) (hρ : star ρ = ρ)
    (hn : ∀ v1 v2 rest, vs = v1 :: v2 :: rest → ρ * ρ * gsNorm2 v1 v2 = 1) :
    IsUnitary (modeBlock true ρ vs) := by
  match vs, hnorm, hn with
  | [], _, _ => exact isUnitary_one
  | [v1], hnorm, _ => exact prep_unitary v1 (hnorm v1 (by simp))
  | v1 :: v2 :: rest, hnorm, hn =>
    exact prep2_fixed_unitary ρ v1 v2 (hnorm v1 (by simp)) hρ (hn v1 v2 rest rfl)

/-- `prep_sends_submode`: column `(k, p)` of `upol · prep` is
`block_k[0, p] · col(2k) + block_k[1, p] · col(2k+1)` of `upol`. -/
theorem prep_sends_submode [CommRing R] {m : ℕ} (U : Matrix (Fin (m * 2)) (Fin (m * 2)) R)
    (A : Fin m → Matrix (Fin 2) (Fin 2) R) (i : Fin (m * 2)) (k : Fin m) (p : Fin 2) :
    simMatrix U (prepMatrix A) i (finProdFinEquiv (k, p)) =
      U i (finProdFinEquiv (k, 0)) * A k 0 p + U i (finProdFinEquiv (k, 1)) * A k 1 p := by
  unfold simMatrix
  rw [Matrix.mul_apply, sum_double]
  simp only [prepMatrix, divNat_pair, modNat_pair]
  rw [Finset.sum_eq_single k]
  · simp [Fin.sum_univ_two]
  · intro a _ ha
    simp [ha]
  · simp

/-- A photon put in sub-mode `2k` of the prepared input enters the circuit in the Jones
superposition `eh·|H_k⟩ + ev·|V_k⟩` of the first polarisation met in mode `k`; a photon in
sub-mode `2k+1` in the second one (the orthogonal complement when only one is present). -/
theorem prep_column_jones [CommRing R] [StarRing R] {m : ℕ}
    (U : Matrix (Fin (m * 2)) (Fin (m * 2)) R) (A : Fin m → Matrix (Fin 2) (Fin 2) R)
    (i : Fin (m * 2)) (k : Fin m) (v1 v2 : R × R) (hA : A k = blockOf v1 v2) :
    simMatrix U (prepMatrix A) i (finProdFinEquiv (k, 0)) =
        v1.1 * U i (finProdFinEquiv (k, 0)) + v1.2 * U i (finProdFinEquiv (k, 1)) ∧
      simMatrix U (prepMatrix A) i (finProdFinEquiv (k, 1)) =
        v2.1 * U i (finProdFinEquiv (k, 0)) + v2.2 * U i (finProdFinEquiv (k, 1)) := by
  rw [prep_sends_submode, prep_sends_submode, hA]
  constructor <;> simp [blockOf] <;> ring

/-! ### 5. the labels -/

/-- `project_eh_ev` at real angles -/
noncomputable def jonesC (θ φ : ℝ) : ℂ × ℂ :=
  jones Complex.I (Real.cos (θ / 2) : ℂ) (Real.sin (θ / 2) : ℂ) (Real.cos φ : ℂ) (Real.sin φ : ℂ)

/-- the Jones vector of a label, through `POLARIZATION_MAPPING` -/
noncomputable def labelJones (l : Label) : ℂ × ℂ :=
  jonesC ((labelTurns l).1 * (Real.pi / 2)) ((labelTurns l).2 * (Real.pi / 2))

/-- `jones_table`: the six labels denote the standard Jones vectors
`H = (1,0)`, `V = (0,1)`, `D = (1,1)/√2`, `A = (1,−1)/√2`, `L = (1,i)/√2`, `R = (1,−i)/√2`. -/
theorem jones_table :
    labelJones .H = (1, 0) ∧ labelJones .V = (0, 1) ∧
    labelJones .D = (((√2 / 2 : ℝ) : ℂ), ((√2 / 2 : ℝ) : ℂ)) ∧
    labelJones .A = (((√2 / 2 : ℝ) : ℂ), -((√2 / 2 : ℝ) : ℂ)) ∧
    labelJones .L = (((√2 / 2 : ℝ) : ℂ), ((√2 / 2 : ℝ) : ℂ) * Complex.I) ∧
    labelJones .R = (((√2 / 2 : ℝ) : ℂ), -(((√2 / 2 : ℝ) : ℂ) * Complex.I)) := by
  have q : Real.pi / 2 / 2 = Real.pi / 4 := by ring
  have hv : (2 : ℝ) * (Real.pi / 2) / 2 = Real.pi / 2 := by ring
  have hpi : (2 : ℝ) * (Real.pi / 2) = Real.pi := by ring
  have h3 : (3 : ℝ) * (Real.pi / 2) = Real.pi / 2 + Real.pi := by ring
  refine ⟨?_, ?_, ?_, ?_, ?_, ?_⟩ <;>
    simp only [labelJones, labelTurns, jonesC, jones, Nat.cast_zero, Nat.cast_one, Nat.cast_ofNat,
      zero_mul, zero_div, one_mul, q, hv, hpi, h3, Real.cos_zero, Real.sin_zero, Real.cos_pi_div_two,
      Real.sin_pi_div_two, Real.cos_pi, Real.sin_pi, Real.cos_pi_div_four, Real.sin_pi_div_four,
      Real.cos_add_pi, Real.sin_add_pi] <;>
    (apply Prod.ext <;> simp <;> ring)

/-- every label is a normalised Jones vector -/
theorem labelJones_norm (l : Label) : inner (labelJones l) (labelJones l) = 1 :=
  jones_norm _ _ _ _ _ Complex.I_mul_I Complex.conj_I (Complex.conj_ofReal _)
    (Complex.conj_ofReal _) (Complex.conj_ofReal _) (Complex.conj_ofReal _)
    (cos_sq_add_sin_sq_C _) (cos_sq_add_sin_sq_C _)

/-! ### 6. merging the sub-modes -/

theorem mergeState_spec : ∀ (m : ℕ) (s : List ℕ), s.length = m * 2 →
    (mergeState s).length = m ∧ (mergeState s).sum = s.sum
  | 0, s, h => by
    have : s = [] := List.length_eq_zero_iff.mp (by simpa using h)
    subst this; simp [mergeState]
  | m + 1, s, h => by
    match s, h with
    | [], h => simp at h
    | [_], h => simp at h; omega
    | a :: b :: rest, h =>
      have hr : rest.length = m * 2 := by simp at h; omega
      obtain ⟨h1, h2⟩ := mergeState_spec m rest hr
      simp [mergeState, h1, h2]; ring

/-- `merge_marginal`: summing the two sub-modes of every mode preserves the total mass … -/
theorem merge_marginal {N : ℕ} (U : Matrix (Fin N) (Fin N) GQ) (s : List ℕ) :
    Dist.mass (polDist U s) = Dist.mass (spatialDist U s) :=
  Dist.mass_mapKeys _ _

/-- … and the probability of a merged state is the total probability of the spatial states that
merge to it. -/
theorem merge_get (d : Dist.D) (t : List ℕ) :
    Dist.get (Dist.mapKeys mergeState d) t =
      Dist.mass (Dist.restrict (fun s => mergeState s == t) d) := by
  induction d with
  | nil => rfl
  | cons p r ih =>
    simp only [Dist.get, Dist.mapKeys, Dist.mass, Dist.restrict] at ih ⊢
    simp only [List.map_cons, List.filter_cons]
    by_cases h : (mergeState p.1 == t) = true
    · simp [h, ih]
    · simp [h, ih]

/-! ### 7. conversion bookkeeping: every photon lands in exactly one sub-mode -/

theorem scanStep_count [DecidableEq R] (orth : R × R → R × R → Bool) (st st' : Scan R)
    (v : R × R) (h : scanStep orth st v = .ok st') :
    st'.n0 + st'.n1 = st.n0 + st.n1 + 1 := by
  unfold scanStep at h
  split at h
  · cases h; simp; omega
  · split_ifs at h <;> cases h <;> simp <;> omega
  · split_ifs at h <;> cases h <;> simp <;> omega

theorem scanMode_count [DecidableEq R] (orth : R × R → R × R → Bool) :
    ∀ (vs : List (R × R)) (st st' : Scan R), scanMode orth vs st = .ok st' →
      st'.n0 + st'.n1 = st.n0 + st.n1 + vs.length
  | [], st, st', h => by simp [scanMode] at h; cases h; simp
  | v :: rest, st, st', h => by
    simp only [scanMode] at h
    cases hs : scanStep orth st v with
    | error e => simp [hs] at h
    | ok st1 =>
      simp only [hs] at h
      have := scanMode_count orth rest st1 st' h
      have := scanStep_count orth st st1 v hs
      simp only [List.length_cons]; omega

/-! ### 8. the defect of the code as it stood, and the repair, on `|{P:H}{P:V}>`

The native state stores the annotation angles in single precision: `θ_V = float32(π)`, so the
Jones vector read back for `V` is `(cos(θ_V/2), sin(θ_V/2)) = (−4.37·10⁻⁸, 1 − 10⁻¹⁵)`. -/

def vH : GQ × GQ := (1, 0)
def vV32 : GQ × GQ :=
  (GQ.ofRat (-1651369624515507 / 37778931862957161709568),
   GQ.ofRat (9007199254740983 / 9007199254740992))

/-- Before the repair: the block built from the two *given* vectors fails the acceptance test of
`Unitary(upol @ prep)` (`np.allclose(U U†, 1)`), even for the identity circuit — the simulation of
`|{P:H}{P:V}>` raises `AssertionError`. -/
theorem prep_current_rejected_on_HV :
    acceptsUnitary (simMatrix 1 (prepMatrix fun _ : Fin 1 => modeBlock false 1 [vH, vV32])) = false := by
  decide +kernel

/-- After the repair (Gram–Schmidt, here with `ρ = 1`, exact up to `10⁻¹⁵`) it passes. -/
theorem prep_fixed_accepted_on_HV :
    acceptsUnitary (simMatrix 1 (prepMatrix fun _ : Fin 1 => modeBlock true 1 [vH, vV32])) = true := by
  decide +kernel

/-! ### 9. one simulator object, any history of requests

`SimulatorFactory.build(c)` (and a `Processor`) returns an object that serves many inputs, and
whose circuit may be replaced in between.  The property is stated per (circuit, input) pair, so it
must hold for *every* request of *every* history: the reply of the object is the stateless
`answer` for the circuit in force and the input asked — whatever was asked before, whatever the
wrapped simulator still holds from an earlier query. -/

section Session
variable {C I M S O : Type}

/-- the whole transcript of replies of the long-lived object equals the transcript of the stateless
specification, from any state whose `_upol` is the compiled circuit in force (any `inner`) -/
theorem session_refines_stateless (env : Env C I M S O) (st : Layer M) (cur : Option C)
    (h0 : Tracks env st cur) (h : List (Cmd C I)) :
    (SM.run (sessionStep env) st h).2 = (SM.run (specStep env) cur h).2 :=
  (SM.refine_run (sessionStep env) (specStep env) (Tracks env)
    (fun s a op hr => sessionStep_tracks env s a op hr) st cur h0 h).2

/-- after any history `h` on a fresh object, a query `i` is answered by `answer` for the circuit in
force after `h` (the last circuit `set_circuit` accepted) and `i` alone -/
theorem session_query_answer (env : Env C I M S O) (x : Option M) (h : List (Cmd C I)) (i : I) :
    (sessionStep env (SM.exec (sessionStep env) ⟨none, x⟩ h) (.probs i)).2 =
      answer env (inForce env none h) i := by
  have hr := (SM.refine_run (sessionStep env) (specStep env) (Tracks env)
    (fun s a op hr => sessionStep_tracks env s a op hr) ⟨none, x⟩ none rfl h).1
  exact (sessionStep_tracks env _ _ (.probs i) hr).2

/-- history independence: two histories that leave the same circuit in force give the same reply
to the same input (in particular: the inputs asked before do not matter) -/
theorem session_history_independent (env : Env C I M S O) (x y : Option M)
    (h₁ h₂ : List (Cmd C I)) (i : I) (hc : inForce env none h₁ = inForce env none h₂) :
    (sessionStep env (SM.exec (sessionStep env) ⟨none, x⟩ h₁) (.probs i)).2 =
      (sessionStep env (SM.exec (sessionStep env) ⟨none, y⟩ h₂) (.probs i)).2 := by
  rw [session_query_answer, session_query_answer, hc]

/-- queries do not change the circuit in force; an accepted `set_circuit` replaces it -/
theorem inForce_append_probs (env : Env C I M S O) (cur : Option C) (h : List (Cmd C I)) (i : I) :
    inForce env cur (h ++ [.probs i]) = inForce env cur h := by
  simp [inForce, SM.exec_append, SM.exec_cons, SM.exec_nil, specStep]

theorem inForce_append_set (env : Env C I M S O) (cur : Option C) (h : List (Cmd C I)) (c : C) (u : M)
    (hc : env.compile c = .ok u) :
    inForce env cur (h ++ [.setCircuit c]) = some c := by
  simp [inForce, SM.exec_append, SM.exec_cons, SM.exec_nil, specStep, hc]

/-- the reply to a query never depends on what the wrapped simulator held before it -/
theorem session_inner_irrelevant (env : Env C I M S O) (st : Layer M) (x : Option M) (i : I) :
    (sessionStep env { st with inner := x } (.probs i)).2 = (sessionStep env st (.probs i)).2 := by
  simp only [sessionStep]
  cases env.prepare i with
  | error e => rfl
  | ok sp =>
    obtain ⟨s, p⟩ := sp
    cases hu : st.upol with
    | none => simp
    | some u =>
      simp only
      cases env.mkUnitary u p <;> rfl

/-- Contrast (a design that is *not* the code's): skipping the re-write of the inner circuit when
the preparation is the identity makes the reply depend on the previous input.  Toy instance:
matrices are numbers, the circuit compiles to 1, input `false` prepares with 1 (all photons `H`),
input `true` with 2; the answer is the matrix simulated.  After `set_circuit; probs true` the query
`false` is answered with 2 instead of 1. -/
def toyEnv : Env Unit Bool ℕ Unit ℕ where
  compile _ := .ok 1
  prepare b := .ok ((), if b then 2 else 1)
  mkUnitary u p := .ok (u * p)
  simulate w _ := w

theorem stale_design_is_history_dependent :
    inForce toyEnv none [.setCircuit ()] = inForce toyEnv none [.setCircuit (), .probs true] ∧
    (staleStep toyEnv (· == 1) (SM.exec (staleStep toyEnv (· == 1)) ⟨none, none⟩ [.setCircuit ()])
        (.probs false)).2 = .ok (some 1) ∧
    (staleStep toyEnv (· == 1)
        (SM.exec (staleStep toyEnv (· == 1)) ⟨none, none⟩ [.setCircuit (), .probs true])
        (.probs false)).2 = .ok (some 2) ∧
    (sessionStep toyEnv (SM.exec (sessionStep toyEnv) ⟨none, none⟩ [.setCircuit (), .probs true])
        (.probs false)).2 = .ok (some 1) := by
  refine ⟨rfl, rfl, rfl, rfl⟩

/-- non-vacuity of `session_history_independent` / `inForce_append_set` on the toy instance -/
example : inForce toyEnv none [.setCircuit (), .probs true, .probs false] = some () := rfl

end Session

/-! ### non-vacuity -/

/-- rational-exact instances of every hypothesis used above: `i = GQ.I`, `(c, s) = (3/5, 4/5)`,
`(c2, s2) = (5/13, 12/13)`. -/
def c35 : GQ := GQ.ofRat (3 / 5)
def s45 : GQ := GQ.ofRat (4 / 5)
def c513 : GQ := GQ.ofRat (5 / 13)
def s1213 : GQ := GQ.ofRat (12 / 13)

example : GQ.I * GQ.I = -1 ∧ star GQ.I = -GQ.I ∧ star c35 = c35 ∧ star s45 = s45 ∧
    c35 * c35 + s45 * s45 = 1 ∧ c513 * c513 + s1213 * s1213 = 1 := by decide +kernel

example : IsUnitary (wp GQ.I c35 s45 c513 s1213) := by unfold IsUnitary; decide +kernel
example : IsUnitary (pr c35 s45) := by unfold IsUnitary; decide +kernel

/-- an elliptical Jones vector `(3/5, (5/13 + 12/13 i)·4/5)`, normalised -/
def vEll : GQ × GQ := jones GQ.I c35 s45 c513 s1213
example : inner vEll vEll = 1 := by decide +kernel
example : IsUnitary (blockOf vEll (compl vEll)) := by unfold IsUnitary; decide +kernel

/-- Gram–Schmidt hypothesis: `v2 = (1, 0)` against `vEll` gives `‖w‖² = 16/25`, `ρ = 5/4`. -/
example : star (GQ.ofRat (5 / 4)) = GQ.ofRat (5 / 4) ∧
    GQ.ofRat (5 / 4) * GQ.ofRat (5 / 4) * gsNorm2 vEll (1, 0) = 1 := by decide +kernel

/-- a well-formed tree with unitary leaves: a wave plate on mode 1 after a swap of modes 0,1,
inside a 3-mode circuit, the swap nested at offset 1. -/
def swap2 : Matrix (Fin 2) (Fin 2) GQ := fun i j => if i = j then 0 else 1
def exTree : PComp GQ :=
  .circ 3 (.cons 1 (.circ 2 (.cons 0 (.plain 2 swap2) (.cons 1 (.pol 1 (wp GQ.I c35 s45 c513 s1213)) .nil)))
    (.cons 0 (.pol 2 pbs) .nil))

example : exTree.WF ∧ exTree.AllUnitary := by
  refine ⟨by simp [exTree, PComp.WF, PItems.WF, PComp.size], ?_⟩
  simp only [exTree, PComp.AllUnitary, PItems.AllUnitary, and_true]
  refine ⟨⟨?_, ?_⟩, ?_⟩ <;> unfold IsUnitary <;> decide +kernel

/-- a circuit without polarising component (hypotheses of `unitaryOfPol_plain`) -/
example : (PItems.cons 1 (.plain 2 swap2) .nil : PItems GQ).requires = false ∧
    (PItems.cons 1 (.plain 2 swap2) .nil : PItems GQ).WF 3 := by
  simp [PItems.requires, PComp.requires, PItems.WF, PComp.WF, PComp.size]

/-! ### 10. the top-level statement: polarised simulation = merged spatial simulation of
`upol · prep` on the prepared input, and it is a probability distribution

Side conditions, exactly: the tree is well-formed (`WF`: the ranges `Circuit.add` accepted), every
leaf matrix is unitary (`AllUnitary`), every preparation block is unitary (`hA`; discharged by
`modeBlock_isUnitary` for normalised Jones vectors and an exact inverse norm `ρ`, see
`polarised_simulation_of_input`), and the spatial input has one entry per sub-mode
(`s.length = 2m`).  Nothing is assumed about the photon number, the nesting depth or the angles. -/

section TopLevel
open PM.Fock

/-- `Unitary(upol @ prep)` is unitary (any commutative star ring, in particular `ℂ`) -/
theorem simMatrix_isUnitary [CommRing R] [StarRing R] (c : PComp R) (h : c.WF)
    (hu : c.AllUnitary) (A : Fin c.size → Matrix (Fin 2) (Fin 2) R) (hA : ∀ k, IsUnitary (A k)) :
    IsUnitary (simMatrix (upolOf c) (prepMatrix A)) :=
  (castSq_isUnitary _ (unitaryOfPol_isUnitary c h hu)).mul (prepMatrix_isUnitary A hA)

/-- **Top-level theorem** (executable instance `ℚ[i]`).  For a polarised circuit tree `c` of
unitary leaves on `m = c.size` spatial modes, unitary preparation blocks `A` and a spatial input `s`
on the `2m` sub-modes, the model's polarised simulation `polDist (upol · prep) s`

* is the image under "sum the two sub-modes of every mode" of the spatial Fock distribution
  (permanent formula, C02) of the unitary matrix `unitaryOfPol c · prepMatrix A` on `s`;
* has total mass 1, and so has the list of probabilities reported over the enumeration of the
  `m`-mode states with `s.sum` photons (what `probs()` returns);
* gives every `m`-mode state `t` the sum of the spatial probabilities of the `2m`-mode states that
  merge to `t`, and lists no key outside the `m`-mode states with `s.sum` photons. -/
theorem polarised_simulation_spec (c : PComp GQ) (h : c.WF) (hu : c.AllUnitary)
    (A : Fin c.size → Matrix (Fin 2) (Fin 2) GQ) (hA : ∀ k, IsUnitary (A k))
    (s : List ℕ) (hs : s.length = c.size * 2) :
    IsUnitary (simMatrix (upolOf c) (prepMatrix A)) ∧
    polDist (simMatrix (upolOf c) (prepMatrix A)) s =
      Dist.mapKeys mergeState (spatialDist (upolOf c * prepMatrix A) s) ∧
    Dist.mass (polDist (simMatrix (upolOf c) (prepMatrix A)) s) = 1 ∧
    ((allStates c.size s.sum).map
      (Dist.get (polDist (simMatrix (upolOf c) (prepMatrix A)) s))).sum = 1 ∧
    (∀ t, Dist.get (polDist (simMatrix (upolOf c) (prepMatrix A)) s) t =
      (((allStates (c.size * 2) s.sum).filter fun u => mergeState u == t).map
        (prob (upolOf c * prepMatrix A) s)).sum) ∧
    (∀ p ∈ polDist (simMatrix (upolOf c) (prepMatrix A)) s, p.1 ∈ allStates c.size s.sum) := by
  have hW := simMatrix_isUnitary c h hu A hA
  have h1 := C02.dist_sums_to_one_GQ _ hW s hs
  refine ⟨hW, rfl, ?_, ?_, fun t => get_polDist _ s t, ?_⟩
  · rw [merge_marginal, mass_spatialDist]; exact h1
  · rw [sum_get_polDist]; exact h1
  · intro p hp
    obtain ⟨u, hu', e⟩ := keys_polDist _ s p hp
    rw [e]; exact mergeState_mem hu'

/-- every `m`-mode state with the right photon number is the merge of a state of the `2m` sub-modes
(so the enumeration of `polarised_simulation_spec` is exactly the range of the merge) -/
theorem merge_surjective {m n : ℕ} (t : List ℕ) (ht : t ∈ allStates m n) :
    ∃ u ∈ allStates (m * 2) n, mergeState u = t :=
  ⟨spreadH t, spreadH_mem ht, mergeState_spreadH t⟩

/-- "fed with each photon in the superposition given by its Jones vector": the amplitudes of
`upol · prep` are those of `upol` applied to the state `prep|s⟩` (amplitudes `pamp prep s u`),
summed over the intermediate states of the `2m` sub-modes (Fock-space composition, C02) -/
theorem polarised_amplitude_factorises (c : PComp GQ)
    (A : Fin c.size → Matrix (Fin 2) (Fin 2) GQ) (s t : List ℕ) (hs : s.length = c.size * 2)
    (ht : t.length = c.size * 2) (hst : s.sum = t.sum) :
    pamp (simMatrix (upolOf c) (prepMatrix A)) s t =
      ((allStates (c.size * 2) s.sum).map fun u =>
        pamp (upolOf c) u t * pamp (prepMatrix A) s u * GQ.ofRat (1 / (prodFact u : ℚ))).sum :=
  C02.fock_comp_GQ (upolOf c) (prepMatrix A) s t hs ht hst

/-- the blocks the repaired conversion builds from a successful scan of normalised photons are
unitary, `ρ vs` being an exact self-adjoint inverse norm of the Gram–Schmidt vector wherever two
polarisations share a mode -/
theorem blocksOf_isUnitary [CommRing R] [StarRing R] [DecidableEq R]
    (orth : R × R → R × R → Bool) (modes : List (List (R × R))) (scans : List (Scan R))
    (hscan : scanAll orth modes = .ok scans)
    (hnorm : ∀ phs ∈ modes, ∀ v ∈ phs, inner v v = 1)
    (ρ : List (R × R) → R) (hρ : ∀ vs, star (ρ vs) = ρ vs)
    (hn : ∀ sc ∈ scans, ∀ v1 v2 rest, sc.vectors = v1 :: v2 :: rest →
      ρ sc.vectors * ρ sc.vectors * gsNorm2 v1 v2 = 1) (m : ℕ) (k : Fin m) :
    IsUnitary (blocksOf true ρ scans m k) := by
  have hspec := scanAll_spec orth modes scans hscan
  have hQ : ∀ j, (∀ w ∈ (scans.getD j ⟨[], 0, 0⟩).vectors, inner w w = 1) ∧
      (∀ v1 v2 rest, (scans.getD j ⟨[], 0, 0⟩).vectors = v1 :: v2 :: rest →
        ρ (scans.getD j ⟨[], 0, 0⟩).vectors * ρ (scans.getD j ⟨[], 0, 0⟩).vectors *
          gsNorm2 v1 v2 = 1) := by
    intro j
    rcases getD_mem_or_default (⟨[], 0, 0⟩ : Scan R) scans j with hmem | hdef
    · refine ⟨?_, hn _ hmem⟩
      obtain ⟨phs, hphs, _, hv⟩ := forall₂_mem_right hspec _ hmem
      intro w hw
      exact hnorm phs hphs w (hv w hw)
    · rw [hdef]
      exact ⟨by simp, by simp⟩
  exact modeBlock_isUnitary _ _ (hQ k.val).1 (hρ _) (hQ k.val).2

/-- **Top-level theorem, from the polarised input.**  `modes` lists the Jones vectors of the photons
of every spatial mode.  If the conversion accepts the input (`scanAll … = .ok scans`: at most two
polarisations per mode, the second one orthogonal to the first by the code's test `orth`) and the
photons' Jones vectors are normalised, then the prepared spatial input puts every photon in exactly
one sub-mode of its mode, `upol · prep` is unitary and the simulated distribution is the merged
spatial distribution with total mass 1 over the `m`-mode states with as many photons as the input. -/
theorem polarised_simulation_of_input (c : PComp GQ) (h : c.WF) (hu : c.AllUnitary)
    (orth : GQ × GQ → GQ × GQ → Bool) (modes : List (List (GQ × GQ))) (scans : List (Scan GQ))
    (hm : modes.length = c.size) (hscan : scanAll orth modes = .ok scans)
    (hnorm : ∀ phs ∈ modes, ∀ v ∈ phs, inner v v = 1)
    (ρ : List (GQ × GQ) → GQ) (hρ : ∀ vs, star (ρ vs) = ρ vs)
    (hn : ∀ sc ∈ scans, ∀ v1 v2 rest, sc.vectors = v1 :: v2 :: rest →
      ρ sc.vectors * ρ sc.vectors * gsNorm2 v1 v2 = 1) :
    (spatialInput scans).length = c.size * 2 ∧
    (spatialInput scans).sum = (modes.map List.length).sum ∧
    IsUnitary (simMatrix (upolOf c) (prepMatrix (blocksOf true ρ scans c.size))) ∧
    polDist (simMatrix (upolOf c) (prepMatrix (blocksOf true ρ scans c.size))) (spatialInput scans) =
      Dist.mapKeys mergeState
        (spatialDist (upolOf c * prepMatrix (blocksOf true ρ scans c.size)) (spatialInput scans)) ∧
    Dist.mass (polDist (simMatrix (upolOf c) (prepMatrix (blocksOf true ρ scans c.size)))
      (spatialInput scans)) = 1 ∧
    ((allStates c.size (modes.map List.length).sum).map
      (Dist.get (polDist (simMatrix (upolOf c) (prepMatrix (blocksOf true ρ scans c.size)))
        (spatialInput scans)))).sum = 1 := by
  have hspec := scanAll_spec orth modes scans hscan
  have hlen : (spatialInput scans).length = c.size * 2 := by
    rw [spatialInput_length, ← hspec.length_eq, hm]
  have hsum : (spatialInput scans).sum = (modes.map List.length).sum := by
    rw [spatialInput_sum]
    exact forall₂_sum_eq List.length (fun sc : Scan GQ => sc.n0 + sc.n1) _
      (fun _ _ hp => hp.1) _ _ hspec
  obtain ⟨h1, h2, h3, h4, _, _⟩ := polarised_simulation_spec c h hu
    (blocksOf true ρ scans c.size)
    (blocksOf_isUnitary orth modes scans hscan hnorm ρ hρ hn c.size) (spatialInput scans) hlen
  rw [hsum] at h4
  exact ⟨hlen, hsum, h1, h2, h3, h4⟩

/-- **The same over any `*`-field of characteristic zero — in particular `ℂ`, where the exact
cosines, sines and square roots exist** (so every hypothesis is satisfiable by every physical
set-up: `wp_unitary_complex`, `pr_unitary_complex`, `labelJones_norm`).  The merged probabilities
`∑_{u merges to t} |perm((upol·prep)[u|s])|² / (∏s! ∏u!)` over the `m`-mode states `t` sum to one. -/
theorem polarised_simulation_mass_field [Field R] [CharZero R] [StarRing R] (c : PComp R)
    (h : c.WF) (hu : c.AllUnitary) (A : Fin c.size → Matrix (Fin 2) (Fin 2) R)
    (hA : ∀ k, IsUnitary (A k)) (s : List ℕ) (hs : s.length = c.size * 2) :
    IsUnitary (simMatrix (upolOf c) (prepMatrix A)) ∧
    ((allStates c.size s.sum).map fun t =>
      (((allStates (c.size * 2) s.sum).filter fun u => decide (mergeState u = t)).map fun u =>
        pamp (simMatrix (upolOf c) (prepMatrix A)) s u *
          star (pamp (simMatrix (upolOf c) (prepMatrix A)) s u) /
            ((prodFact s : R) * (prodFact u : R))).sum).sum = 1 := by
  have hW := simMatrix_isUnitary c h hu A hA
  refine ⟨hW, ?_⟩
  rw [← sum_fibres mergeState _ (allStates c.size s.sum) (allStates_nodup _ _)
    (allStates (c.size * 2) s.sum) (fun a ha => mergeState_mem ha)]
  exact C02.dist_sums_to_one _ hW s hs

/-- for a circuit object `Circuit(m)` the re-typing in `upolOf` is the identity: `upolOf` *is* the
matrix `compute_unitary(use_polarization=True)` of section 2 -/
theorem upolOf_circuit [CommRing R] (m : ℕ) (items : PItems R) :
    upolOf (.circ m items) = C01.prodItems (m * 2) (dblItems items) := upolOf_circ m items

end TopLevel

/-! ### 11. histories that also edit the circuit (`add`, re-tuned parameters)

`CmdX` adds to `set_circuit` / `probs` the request `edit e`: the circuit object the session holds is
mutated by `apply e` and the object is made to see it (`set_circuit`; a `Processor` does so before
every computation).  The machine `sessionStepX` delegates every request to the unchanged
`sessionStep`.  The theorems are for *every* edit function `apply` (so for `Circuit.add`, for
`Parameter.set_value`, and for any other mutation); `applyEdit` is the concrete one on trees. -/

section SessionX
variable {C I M S O E : Type}

/-- the transcript of the object over an extended history is the transcript of the stateless
specification -/
theorem sessionX_refines_stateless (env : Env C I M S O) (apply : E → C → Except String C)
    (x : Option M) (h : List (CmdX C I E)) :
    (SM.run (sessionStepX env apply) ⟨none, ⟨none, x⟩⟩ h).2 =
      (SM.run (specStepX env apply) (none, none) h).2 :=
  (SM.refine_run (sessionStepX env apply) (specStepX env apply) (TracksX env)
    (fun s a op hr => sessionStepX_tracks env apply s a op hr) ⟨none, ⟨none, x⟩⟩ (none, none)
    (⟨rfl, rfl⟩ : TracksX env ⟨none, ⟨none, x⟩⟩ (none, none)) h).2

/-- after any history of `set_circuit`, edits (`add`, re-tuning, …) and queries, a query `i` is
answered by the stateless `answer` for the circuit in force — the last circuit, *as edited*, that
`set_circuit` accepted — and `i` alone -/
theorem sessionX_query_answer (env : Env C I M S O) (apply : E → C → Except String C)
    (x : Option M) (h : List (CmdX C I E)) (i : I) :
    (sessionStepX env apply (SM.exec (sessionStepX env apply) ⟨none, ⟨none, x⟩⟩ h) (.probs i)).2 =
      answer env (inForceX env apply h) i := by
  have hr := (SM.refine_run (sessionStepX env apply) (specStepX env apply) (TracksX env)
    (fun s a op hr => sessionStepX_tracks env apply s a op hr) ⟨none, ⟨none, x⟩⟩ (none, none)
    (⟨rfl, rfl⟩ : TracksX env ⟨none, ⟨none, x⟩⟩ (none, none)) h).1
  exact (sessionStepX_tracks env apply _ _ (.probs i) hr).2

/-- history independence with edits: two histories (any mixture of `set_circuit`, `add`, re-tuned
parameters, queries, rejected requests) that leave the same circuit in force give the same reply to
the same input -/
theorem sessionX_history_independent (env : Env C I M S O) (apply : E → C → Except String C)
    (x y : Option M) (h₁ h₂ : List (CmdX C I E)) (i : I)
    (hc : inForceX env apply h₁ = inForceX env apply h₂) :
    (sessionStepX env apply (SM.exec (sessionStepX env apply) ⟨none, ⟨none, x⟩⟩ h₁) (.probs i)).2 =
      (sessionStepX env apply (SM.exec (sessionStepX env apply) ⟨none, ⟨none, y⟩⟩ h₂) (.probs i)).2 := by
  rw [sessionX_query_answer, sessionX_query_answer, hc]

/-- the extended machine is the machine of `Model/C13.lean` run on the lowered history (an accepted
edit = `set_circuit` of the edited circuit — what the harness replays through the driver) -/
theorem sessionX_lowers (env : Env C I M S O) (apply : E → C → Except String C)
    (x : Option M) (h : List (CmdX C I E)) (i : I) :
    (sessionStepX env apply (SM.exec (sessionStepX env apply) ⟨none, ⟨none, x⟩⟩ h) (.probs i)).2 =
      (sessionStep env (SM.exec (sessionStep env) ⟨none, x⟩ (lower apply none h)) (.probs i)).2 := by
  have := exec_lower env apply h ⟨none, ⟨none, x⟩⟩
  simp only [sessionStepX, this]

/-- what is in force after one more request: an accepted edit puts the *edited* circuit in force,
a refused edit (the assertion of `add`, a wrong path) and a query change nothing -/
theorem inForceX_append_edit_ok (env : Env C I M S O) (apply : E → C → Except String C)
    (h : List (CmdX C I E)) (e : E) (c c' : C) (u : M) (hh : heldX env apply h = some c)
    (ha : apply e c = .ok c') (hc : env.compile c' = .ok u) :
    inForceX env apply (h ++ [.edit e]) = some c' ∧ heldX env apply (h ++ [.edit e]) = some c' := by
  unfold heldX at hh
  simp [inForceX, heldX, SM.exec_append, SM.exec_cons, SM.exec_nil, specStepX, hh, ha, specStep, hc]

theorem inForceX_append_edit_refused (env : Env C I M S O) (apply : E → C → Except String C)
    (h : List (CmdX C I E)) (e : E) (c : C) (err : String) (hh : heldX env apply h = some c)
    (ha : apply e c = .error err) :
    inForceX env apply (h ++ [.edit e]) = inForceX env apply h := by
  unfold heldX at hh
  simp [inForceX, SM.exec_append, SM.exec_cons, SM.exec_nil, specStepX, hh, ha]

theorem inForceX_append_probs (env : Env C I M S O) (apply : E → C → Except String C)
    (h : List (CmdX C I E)) (i : I) :
    inForceX env apply (h ++ [.probs i]) = inForceX env apply h := by
  simp [inForceX, SM.exec_append, SM.exec_cons, SM.exec_nil, specStepX]

end SessionX

/-- `add`: the doubled matrix of the extended circuit is the doubled matrix of what was added,
embedded at twice the offset, times the doubled matrix of the circuit before (the new component
acts last; by `upolOf_circuit` the two `prodItems` are `upolOf` of the circuit after and before);
sizes, admissible ranges and unitarity of the leaves are kept -/
theorem addP_spec [CommRing R] [StarRing R] (m off : ℕ) (items : PItems R) (sub c' : PComp R)
    (ha : addP off sub (.circ m items) = .ok c') :
    c' = .circ m (items.append (.cons off sub .nil)) ∧
    C01.prodItems (m * 2) (dblItems (items.append (.cons off sub .nil))) =
      embed (m * 2) (off * 2) (unitaryOfPol sub) * C01.prodItems (m * 2) (dblItems items) ∧
    (items.WF m → sub.WF → c'.WF) ∧ (items.AllUnitary → sub.AllUnitary → c'.AllUnitary) := by
  simp only [addP] at ha
  split_ifs at ha with hfit
  cases ha
  refine ⟨rfl, ?_, fun hi hs => ?_, fun hi hs => ?_⟩
  · rw [dblItems_append, C01.prodItems_append]
    simp [dblItems, unitaryOfPol]
  · exact PItems.WF_append _ _ hi ⟨hfit.1, hs, trivial⟩
  · exact PItems.AllUnitary_append _ _ hi ⟨hs, trivial⟩

/-- re-tuning a leaf (`set_value`): the tree keeps its size and admissible ranges, and stays a tree
of unitary leaves when the re-tuned leaf is unitary (so sections 2 and 10 apply to it again) -/
theorem retune_keeps [CommRing R] [StarRing R] (new : PComp R) (p : List ℕ) (c c' : PComp R)
    (hr : retune new p c = some c') :
    c'.size = c.size ∧ (c.WF → c'.WF) ∧ (new.AllUnitary → c.AllUnitary → c'.AllUnitary) :=
  retune_spec new p c c' hr

/-- every circuit reachable by the harness's edits from a well-formed tree of unitary leaves is
again one, provided what is added / the re-tuned leaf is -/
theorem applyEdit_keeps [CommRing R] [StarRing R] (e : Edit R) (c c' : PComp R)
    (ha : applyEdit e c = .ok c') (hw : c.WF) (hu : c.AllUnitary)
    (he : match e with
      | .add _ sub => sub.WF ∧ sub.AllUnitary
      | .retune _ new => new.AllUnitary) :
    c'.size = c.size ∧ c'.WF ∧ c'.AllUnitary := by
  cases e with
  | add off sub =>
    cases c with
    | plain k U => simp [applyEdit, addP] at ha
    | pol k U => simp [applyEdit, addP] at ha
    | circ m items =>
      obtain ⟨e1, _, h3, h4⟩ := addP_spec m off items sub c' ha
      exact ⟨by rw [e1]; rfl, h3 hw he.1, h4 hu he.2⟩
  | retune path new =>
    simp only [applyEdit] at ha
    cases hr : retune new path c with
    | none => simp [hr] at ha
    | some c'' =>
      simp only [hr, Except.ok.injEq] at ha
      subst ha
      obtain ⟨h1, h2, h3⟩ := retune_spec new path c c'' hr
      exact ⟨h1, h2 hw, h3 he hu⟩

/-! ### non-vacuity of sections 10 and 11 -/

/-- the input `|{P:ell}{P:H}, 0, {P:H}>` on the 3-mode tree `exTree`: two polarisations in mode 0
(`vEll` and `H`, not orthogonal — accepted by a lenient `orth`, repaired by Gram–Schmidt with the
exact `ρ = 5/4`), vacuum in mode 1, one photon in mode 2 -/
def exModes : List (List (GQ × GQ)) := [[vEll, (1, 0)], [], [(1, 0)]]
def exRho : List (GQ × GQ) → GQ
  | _ :: _ :: _ => GQ.ofRat (5 / 4)
  | _ => 1

example : exTree.size = 3 ∧ exModes.length = exTree.size ∧
    scanAll (fun _ _ => true) exModes =
      .ok [⟨[vEll, (1, 0)], 1, 1⟩, ⟨[], 0, 0⟩, ⟨[(1, 0)], 1, 0⟩] ∧
    (∀ phs ∈ exModes, ∀ v ∈ phs, inner v v = 1) ∧ (∀ vs, star (exRho vs) = exRho vs) ∧
    exRho [vEll, (1, 0)] * exRho [vEll, (1, 0)] * gsNorm2 vEll (1, 0) = 1 := by
  refine ⟨rfl, rfl, by decide +kernel, by decide +kernel, ?_, by decide +kernel⟩
  intro vs
  unfold exRho
  split <;> decide +kernel

/-- over `ℂ`: a wave plate at arbitrary real angles is a well-formed tree of unitary leaves
(hypotheses of `polarised_simulation_mass_field` at `R = ℂ`) -/
example (δ ξ : ℝ) :
    (PComp.pol 1 (wp Complex.I (Real.cos δ : ℂ) (Real.sin δ : ℂ) (Real.cos (2 * ξ) : ℂ)
      (Real.sin (2 * ξ) : ℂ)) : PComp ℂ).WF ∧
    (PComp.pol 1 (wp Complex.I (Real.cos δ : ℂ) (Real.sin δ : ℂ) (Real.cos (2 * ξ) : ℂ)
      (Real.sin (2 * ξ) : ℂ)) : PComp ℂ).AllUnitary :=
  ⟨trivial, wp_unitary_complex δ ξ⟩

/-- an extended history on the toy instance (circuits are numbers, an edit adds to the number):
`set_circuit 1; probs; add 2; probs` leaves `3` in force, and so does `set_circuit 3` -/
def toyEnvX : Env ℕ Bool ℕ Unit ℕ where
  compile c := .ok c
  prepare b := .ok ((), if b then 2 else 1)
  mkUnitary u p := .ok (u * p)
  simulate w _ := w

example : inForceX toyEnvX (fun (e : ℕ) c => .ok (c + e))
      [.setCircuit 1, .probs true, .edit 2, .probs false] = some 3 ∧
    inForceX toyEnvX (fun (e : ℕ) c => .ok (c + e)) [.setCircuit 3] = some 3 ∧
    (sessionStepX toyEnvX (fun (e : ℕ) c => .ok (c + e))
      (SM.exec (sessionStepX toyEnvX (fun (e : ℕ) c => .ok (c + e))) ⟨none, ⟨none, none⟩⟩
        [.setCircuit 1, .probs true, .edit 2, .probs false]) (.probs true)).2 = .ok (some 6) :=
  ⟨rfl, rfl, rfl⟩

/-- a refused edit (hypotheses of `inForceX_append_edit_refused`) and an accepted one
(`inForceX_append_edit_ok`) on the toy instance: the edit `0` raises, any other is added -/
example : heldX toyEnvX (fun (e : ℕ) c => if e = 0 then .error "AssertionError" else .ok (c + e))
      [.setCircuit 1] = some 1 ∧
    inForceX toyEnvX (fun (e : ℕ) c => if e = 0 then .error "AssertionError" else .ok (c + e))
      [.setCircuit 1, .edit 0] = some 1 ∧
    inForceX toyEnvX (fun (e : ℕ) c => if e = 0 then .error "AssertionError" else .ok (c + e))
      [.setCircuit 1, .edit 0, .edit 4] = some 5 :=
  ⟨rfl, rfl, rfl⟩

/-- `add` and re-tuning on a concrete tree: a rotator added on mode 2 of `exTree`, then the wave
plate at path `[0, 1]` (second item of the nested sub-circuit) given other angles; an `add` outside
the circuit is refused -/
example : ∃ c1 c2, applyEdit (.add 2 (.pol 1 (pr c35 s45))) exTree = .ok c1 ∧
    applyEdit (.retune [0, 1] (.pol 1 (wp GQ.I c513 s1213 c35 s45))) c1 = .ok c2 ∧
    c2.size = 3 ∧
    applyEdit (.add 3 (.pol 1 (pr c35 s45))) exTree = .error "AssertionError" := by
  refine ⟨_, _, rfl, rfl, rfl, rfl⟩

/-! ### 12. the state-vector path: `evolve` on a polarised state (`_postprocess_sv_impl`)

`evolve(bs)` returns, for every state `t` of the `2m` sub-modes, the amplitude
`perm(W[t|s]) / √(∏s! ∏t!)` of the wrapped spatial simulation (`W = upol · prep`) under the annotated
`m`-mode state that has `t[2k]` photons `P:H` and `t[2k+1]` photons `P:V` in mode `k`.  The square
root is external: the model carries `perm` and `∏s! ∏t!` exactly. -/

section Evolve
open PM.Fock

/-- different states of the `2m` sub-modes get different annotated states: `output += …` never adds
two amplitudes -/
theorem annotState_inj {m : ℕ} (s t : List ℕ) (hs : s.length = m * 2) (ht : t.length = m * 2)
    (h : annotState s = annotState t) : s = t := annotState_injective m s t hs ht h

/-- forgetting the annotations of an output state of `evolve` gives the merged state of `probs` -/
theorem annotState_spatial (t : List ℕ) : spatialOf (annotState t) = mergeState t :=
  spatialOf_annotState t

theorem polSV_keys_nodup [CommRing R] {m : ℕ} (U : Matrix (Fin (m * 2)) (Fin (m * 2)) R)
    (s : List ℕ) : ((polSV U s).map (·.key)).Nodup := by
  rw [polSV_eq, List.map_map]
  refine (allStates_nodup (m * 2) s.sum).map_on ?_
  intro a ha b hb h
  exact annotState_injective m a b ((mem_allStates_iff _ _ _).1 ha).1
    ((mem_allStates_iff _ _ _).1 hb).1 h

/-- the amplitude `evolve` stores under the annotated state of `t` is exactly the amplitude of `t`
in the spatial simulation of `upol · prep` (any commutative ring) -/
theorem polSV_amplitude [CommRing R] {m : ℕ} (U : Matrix (Fin (m * 2)) (Fin (m * 2)) R)
    (s t : List ℕ) (ht : t ∈ allStates (m * 2) s.sum) :
    svGet (polSV U s) (annotState t) = pamp U s t := by
  rw [polSV_eq]
  simp only [svGet, List.filter_map, List.map_map, Function.comp_def]
  rw [sum_filter_map]
  simp only [decide_eq_true_eq]
  exact sum_single_of_injOn annotState (fun u => pamp U s u) t _ (allStates_nodup _ _) ht
    (fun a ha e => annotState_injective m a t ((mem_allStates_iff _ _ _).1 ha).1
      ((mem_allStates_iff _ _ _).1 ht).1 e)

/-- every output state of `evolve` has `m` modes, as many photons as the input — each annotated
`P:H` or `P:V` — and its photon counts form an `m`-mode state of `probs` -/
theorem polSV_keys {m : ℕ} [CommRing R] (U : Matrix (Fin (m * 2)) (Fin (m * 2)) R) (s : List ℕ)
    (e : SVEntry AFock R) (he : e ∈ polSV U s) :
    e.key.length = m ∧ countH e.key + countV e.key = s.sum ∧
      spatialOf e.key ∈ allStates m s.sum := by
  rw [polSV_eq] at he
  obtain ⟨t, ht, rfl⟩ := List.mem_map.1 he
  obtain ⟨hl, hs⟩ := (mem_allStates_iff _ _ _).1 ht
  obtain ⟨h1, h2⟩ := count_annotState m t hl
  refine ⟨h2, h1.trans hs, ?_⟩
  rw [spatialOf_annotState]
  exact mergeState_mem ht

/-- **`evolve` agrees with `probs`**: the `|amplitude|²` of the output states of `evolve` whose
photon counts are `u`, summed, is the probability `probs` reports for `u` (any matrix, any input) -/
theorem evolve_agrees_with_probs {N : ℕ} (U : Matrix (Fin N) (Fin N) GQ) (s u : List ℕ) :
    (((polSV U s).filter fun e => spatialOf e.key == u).map SVEntry.amp2).sum =
      Dist.get (polDist U s) u := by
  rw [get_polDist, polSV_eq]
  simp only [List.filter_map, List.map_map, Function.comp_def, amp2_mk, spatialOf_annotState]

theorem evolve_norm {N : ℕ} (U : Matrix (Fin N) (Fin N) GQ) (s : List ℕ) :
    ((polSV U s).map SVEntry.amp2).sum = ((allStates N s.sum).map (prob U s)).sum := by
  rw [polSV_eq]
  simp only [List.map_map, Function.comp_def, amp2_mk]

/-- **Top-level theorem for `evolve`**: for a unitary `W = upol · prep` on the `2m` sub-modes and a
prepared input `s`, the state vector of the model has pairwise different keys, stores under the
annotated state of every `t` the amplitude of `t`, has norm 1, only `m`-mode keys with the input's
photon number, and its `|amplitude|²` summed over the keys with photon counts `u` is `probs`' value. -/
theorem polarised_evolve_spec {m : ℕ} (W : Matrix (Fin (m * 2)) (Fin (m * 2)) GQ) (hW : IsUnitary W)
    (s : List ℕ) (hs : s.length = m * 2) :
    ((polSV W s).map (·.key)).Nodup ∧
    (∀ t ∈ allStates (m * 2) s.sum, svGet (polSV W s) (annotState t) = pamp W s t) ∧
    (∀ e ∈ polSV W s, e.key.length = m ∧ countH e.key + countV e.key = s.sum) ∧
    ((polSV W s).map SVEntry.amp2).sum = 1 ∧
    (∀ u, (((polSV W s).filter fun e => spatialOf e.key == u).map SVEntry.amp2).sum =
      Dist.get (polDist W s) u) := by
  refine ⟨polSV_keys_nodup W s, fun t ht => polSV_amplitude W s t ht,
    fun e he => ⟨(polSV_keys W s e he).1, (polSV_keys W s e he).2.1⟩, ?_,
    fun u => evolve_agrees_with_probs W s u⟩
  rw [evolve_norm]
  exact C02.dist_sums_to_one_GQ W hW s hs

/-- … in particular for the matrix the layer builds from a well-formed polarised circuit of unitary
leaves and unitary preparation blocks -/
theorem polarised_evolve_of_circuit (c : PComp GQ) (h : c.WF) (hu : c.AllUnitary)
    (A : Fin c.size → Matrix (Fin 2) (Fin 2) GQ) (hA : ∀ k, IsUnitary (A k))
    (s : List ℕ) (hs : s.length = c.size * 2) :
    ((polSV (simMatrix (upolOf c) (prepMatrix A)) s).map SVEntry.amp2).sum = 1 ∧
    (∀ u, (((polSV (simMatrix (upolOf c) (prepMatrix A)) s).filter
        fun e => spatialOf e.key == u).map SVEntry.amp2).sum =
      Dist.get (polDist (simMatrix (upolOf c) (prepMatrix A)) s) u) :=
  ⟨(polarised_evolve_spec _ (simMatrix_isUnitary c h hu A hA) s hs).2.2.2.1,
   (polarised_evolve_spec _ (simMatrix_isUnitary c h hu A hA) s hs).2.2.2.2⟩

/-- **`evolve` with heralds / post-selection set on the layer, heralded modes kept** (`_postprocess_sv`
→ `post_select_statevector`; no photon-number filter on this path, hence `minPhotons = 0`): the
retained mass is the retained mass of the conditioning specification (C04), and the re-normalised
`|amplitude|²` summed over the keys with photon counts `u` is the conditioned probability of `u`.
(`keep_heralds = False` is outside the model, see `selectSV`.) -/
theorem evolve_selection_spec {N : ℕ} (U : Matrix (Fin N) (Fin N) GQ) (s : List ℕ)
    (c : SimSpec.Cond) (hc : c.minPhotons = 0) (hk : c.keepHeralds = true) :
    (selectSV c (polSV U s)).2 = Dist.mass (SimSpec.retained c (polDist U s)) ∧
    ∀ u, (selectSV c (polSV U s)).2 ≠ 0 →
      (((selectSV c (polSV U s)).1.filter fun e => spatialOf e.key == u).map SVEntry.amp2).sum /
          (selectSV c (polSV U s)).2 =
        Dist.get (SimSpec.conditioned c (polDist U s)) u := by
  have hphys : ∀ t, SimSpec.physOk c t = true := by intro t; simp [SimSpec.physOk, hc]
  have hrep : ∀ t, SimSpec.reported c t = t := by intro t; simp [SimSpec.reported, hk]
  have h1 : (selectSV c (polSV U s)).2 = Dist.mass (SimSpec.retained c (polDist U s)) := by
    rw [polSV_eq, polDist_eq]
    simp only [selectSV, SimSpec.retained, Dist.restrict, Dist.mass, List.filter_map, List.map_map,
      Function.comp_def, amp2_mk, spatialOf_annotState, hphys, Bool.true_and]
  refine ⟨h1, fun u hR => ?_⟩
  have hm : Dist.mass (Dist.mapKeys (SimSpec.reported c) (SimSpec.retained c (polDist U s))) ≠ 0 := by
    rw [Dist.mass_mapKeys, ← h1]; exact hR
  rw [SimSpec.conditioned, Dist.normalize, if_neg hm, Dist.get_scale, Dist.mass_mapKeys, ← h1,
    div_eq_inv_mul]
  congr 1
  rw [polSV_eq, polDist_eq]
  simp only [selectSV, SimSpec.retained, Dist.restrict, Dist.get, Dist.mapKeys, List.filter_map,
    List.map_map, Function.comp_def, hrep, spatialOf_annotState, hphys, Bool.true_and]
  simp only [SVEntry.amp2, prob, Nat.cast_mul]

/-- non-vacuity of `evolve_selection_spec`: without herald and post-selection nothing is dropped —
for a unitary matrix the retained mass is 1 (≠ 0) -/
example {m : ℕ} (W : Matrix (Fin (m * 2)) (Fin (m * 2)) GQ) (hW : IsUnitary W) (s : List ℕ)
    (hs : s.length = m * 2) : (selectSV ⟨[], .tt, 0, true⟩ (polSV W s)).2 = 1 := by
  rw [(evolve_selection_spec W s ⟨[], .tt, 0, true⟩ rfl rfl).1]
  have : SimSpec.retained ⟨[], .tt, 0, true⟩ (polDist W s) = polDist W s :=
    restrict_all _ _ (fun p _ => by simp [SimSpec.physOk, SimSpec.logicOk, SimSpec.heraldsOk, SimSpec.PS.eval])
  rw [this, merge_marginal, mass_spatialDist]
  exact C02.dist_sums_to_one_GQ W hW s hs

end Evolve

/-! ### 13. `convert_polarized_state(inverse=True)` and the symbolic branch -/

/-- `Matrix.inv()` of a block is its two-sided inverse whenever `dinv` is the inverse of the
determinant -/
theorem inv2_spec [CommRing R] (dinv : R) (M : Matrix (Fin 2) (Fin 2) R) (h : dinv * det2 M = 1) :
    inv2 dinv M * M = 1 ∧ M * inv2 dinv M = 1 :=
  ⟨inv2_mul_self dinv M h, self_mul_inv2 dinv M h⟩

/-- for a unitary block the inverse is the conjugate transpose -/
theorem inv2_of_unitary [CommRing R] [StarRing R] (dinv : R) (M : Matrix (Fin 2) (Fin 2) R)
    (hU : IsUnitary M) (h : dinv * det2 M = 1) : inv2 dinv M = Mᴴ := by
  calc inv2 dinv M = inv2 dinv M * (M * Mᴴ) := by rw [hU.1, mul_one]
    _ = (inv2 dinv M * M) * Mᴴ := by rw [Matrix.mul_assoc]
    _ = Mᴴ := by rw [inv2_mul_self dinv M h, one_mul]

/-- a unitary 2×2 block over `ℚ[i]` has an invertible determinant, and `gqInv` (what the driver
uses for `1/det`) inverts it -/
theorem gqInv_det_of_unitary (M : Matrix (Fin 2) (Fin 2) GQ) (hU : IsUnitary M) :
    gqInv (det2 M) * det2 M = 1 := by
  apply gqInv_mul
  intro h0
  have := det2_mul M Mᴴ
  rw [hU.1, det2_one, h0, zero_mul] at this
  exact GQ_one_ne_zero this

theorem modeBlockX_inverse [CommRing R] [StarRing R] (fixed : Bool) (ρ : R)
    (dinv : Matrix (Fin 2) (Fin 2) R → R) (vs : List (R × R))
    (h : dinv (modeBlock fixed ρ vs) * det2 (modeBlock fixed ρ vs) = 1) :
    modeBlockX fixed true ρ dinv vs * modeBlockX fixed false ρ dinv vs = 1 ∧
    modeBlockX fixed false ρ dinv vs * modeBlockX fixed true ρ dinv vs = 1 ∧
    modeBlockX fixed false ρ dinv vs = modeBlock fixed ρ vs := by
  cases vs with
  | nil => simp [modeBlockX, modeBlock]
  | cons v r =>
    simp only [modeBlockX, ↓reduceIte, Bool.false_eq_true]
    exact ⟨inv2_mul_self _ _ h, self_mul_inv2 _ _ h, trivial⟩

/-- **`convert_polarized_state(state, inverse=True)[1]` is the inverse of
`convert_polarized_state(state)[1]`** (either branch: `fixed = true` numeric, `fixed = false`
symbolic), and without the flag the blocks are those of sections 4 and 10 -/
theorem prep_inverse_spec [CommRing R] [StarRing R] (fixed : Bool) (ρ : List (R × R) → R)
    (dinv : Matrix (Fin 2) (Fin 2) R → R) (scans : List (Scan R)) (m : ℕ)
    (h : ∀ k : Fin m, dinv (blocksOf fixed ρ scans m k) * det2 (blocksOf fixed ρ scans m k) = 1) :
    prepMatrix (blocksOfX fixed true ρ dinv scans m) * prepMatrix (blocksOf fixed ρ scans m) = 1 ∧
    prepMatrix (blocksOf fixed ρ scans m) * prepMatrix (blocksOfX fixed true ρ dinv scans m) = 1 ∧
    blocksOfX fixed false ρ dinv scans m = blocksOf fixed ρ scans m := by
  have hk : ∀ k : Fin m, _ := fun k =>
    modeBlockX_inverse fixed (ρ (scans.getD k.val ⟨[], 0, 0⟩).vectors) dinv
      (scans.getD k.val ⟨[], 0, 0⟩).vectors (h k)
  refine ⟨?_, ?_, ?_⟩
  · rw [prepMatrix_mul, ← prepMatrix_one]
    congr 1; funext k
    have := (hk k).1
    rw [(hk k).2.2] at this
    exact this
  · rw [prepMatrix_mul, ← prepMatrix_one]
    congr 1; funext k
    have := (hk k).2.1
    rw [(hk k).2.2] at this
    exact this
  · funext k; exact (hk k).2.2

/-- when the blocks are unitary (normalised photons, exact `ρ`: `blocksOf_isUnitary`) the inverse
preparation matrix over `ℚ[i]` is the conjugate transpose of the preparation matrix -/
theorem prep_inverse_unitary (ρ : List (GQ × GQ) → GQ) (scans : List (Scan GQ)) (m : ℕ)
    (hU : ∀ k : Fin m, IsUnitary (blocksOf true ρ scans m k)) :
    prepMatrix (blocksOfX true true ρ (fun M => gqInv (det2 M)) scans m) *
      prepMatrix (blocksOf true ρ scans m) = 1 ∧
    IsUnitary (prepMatrix (blocksOfX true true ρ (fun M => gqInv (det2 M)) scans m)) := by
  have h := prep_inverse_spec true ρ (fun M => gqInv (det2 M)) scans m
    (fun k => gqInv_det_of_unitary _ (hU k))
  refine ⟨h.1, ?_⟩
  have hP := prepMatrix_isUnitary _ hU
  have e : prepMatrix (blocksOfX true true ρ (fun M => gqInv (det2 M)) scans m) =
      (prepMatrix (blocksOf true ρ scans m))ᴴ := by
    calc _ = prepMatrix (blocksOfX true true ρ (fun M => gqInv (det2 M)) scans m) *
          (prepMatrix (blocksOf true ρ scans m) * (prepMatrix (blocksOf true ρ scans m))ᴴ) := by
            rw [hP.1, mul_one]
      _ = _ := by rw [← Matrix.mul_assoc, h.1, one_mul]
  rw [e]
  exact ⟨by rw [conjTranspose_conjTranspose]; exact hP.2, by rw [conjTranspose_conjTranspose]; exact hP.1⟩

/-- the symbolic branch accepts a second polarisation only when it is *exactly* orthogonal to the
first, and then uses it as it is: the block is unitary by `prep2_unitary` -/
theorem symbolic_block_unitary [CommRing R] [StarRing R] [DecidableEq R] (ρ : R) (v1 v2 : R × R)
    (h1 : inner v1 v1 = 1) (h2 : inner v2 v2 = 1) (ho : orthExact v1 v2 = true) :
    IsUnitary (modeBlock false ρ [v1, v2]) := by
  simp only [orthExact, decide_eq_true_eq] at ho
  exact prep2_unitary v1 v2 h1 h2 ho

/-- non-vacuity: the elliptical block of section "non-vacuity" has determinant 1; the scan of
`exModes` with `gqInv` satisfies the hypothesis of `prep_inverse_spec`; `H`/`V` are exactly
orthogonal -/
example : (1 : GQ) * det2 (blockOf vEll (compl vEll)) = 1 := by decide +kernel
example : ∀ k : Fin 3, gqInv (det2 (blocksOf true exRho
      [⟨[vEll, (1, 0)], 1, 1⟩, ⟨[], 0, 0⟩, ⟨[(1, 0)], 1, 0⟩] 3 k)) *
    det2 (blocksOf true exRho [⟨[vEll, (1, 0)], 1, 1⟩, ⟨[], 0, 0⟩, ⟨[(1, 0)], 1, 0⟩] 3 k) = 1 := by
  decide +kernel
example : orthExact ((1, 0) : GQ × GQ) (0, 1) = true ∧ inner ((0, 1) : GQ × GQ) (0, 1) = 1 := by
  decide +kernel

/-! ### 14. heralds, post-selection and the photon filter on a polarised simulation
(`Processor.with_polarized_input` + `probs`, `SimulatorFactory.build(processor)`): composition with
the conditioning specification of C04 (`Found/SimSpec.lean`: `Cond`, `conditioned`, `physPerf`,
`logicalPerf`).

`polProbs fixed sel d0` is the pipeline of the code (`Model/C13.lean`): the wrapped simulator's
photon filter at the threshold `v` given to `min_detected_photons_filter`, the merge of the
sub-modes, the layer's own photon filter, `post_select_distribution`.  The documented threshold is
`v + Σ heralds` on the full state (`Sel.cond`).  The code as it stood used `v` below and `Σ heralds`
above — i.e. `max(v, Σ heralds)`: `polProbs_current_fails_on_herald_filter`.  After the repair
(`fixes/C13-herald-photon-filter.diff`) the layer's threshold is `v + Σ heralds` and the pipeline
is the specification: `polProbs_fixed_pass`, `polProbs_fixed_reject`, `polarised_selection_spec`. -/

section Selection
open PM.Fock PM.Dist PM.SimSpec

/-- `post_select_distribution` on a distribution of mass one whose states all pass the photon
filter is the conditioning of the specification; its logical performance is the retained mass -/
theorem postSelect_spec (c : Cond) (d : D) (hm : mass d = 1)
    (hphys : ∀ p ∈ d, physOk c p.1 = true) :
    postSelect c d = (conditioned c d, mass (retained c d)) := by
  have hret : retained c d = restrict (logicOk c) d := by
    simp only [retained, restrict]
    apply List.filter_congr
    intro p hp
    simp [hphys p hp]
  unfold postSelect
  split_ifs with h
  · have hall : ∀ p ∈ d, logicOk c p.1 = true := fun p _ => (trivial_logicOk c h p.1).1
    have hr : restrict (logicOk c) d = d := restrict_all _ d hall
    rw [conditioned, hret, hr, mapKeys_id' d _ (fun t => (trivial_logicOk c h t).2), hm]
  · rw [conditioned, hret]
    congr 1
    have := mass_restrict_add (logicOk c) d
    rw [hm] at this
    linear_combination -this

/-- **repaired code, enough photons** (`v + Σ heralds ≤ n`): for a full distribution `d0` of mass one
on the `2m` sub-modes with `n` photons in every state, the layer returns the conditioned
distribution of the specification on the merged states, physical performance 1 and the
specification's logical performance -/
theorem polProbs_fixed_pass {m n : ℕ} (sel : Sel) (d0 : D) (hm : mass d0 = 1)
    (hk : ∀ p ∈ d0, p.1.length = m * 2 ∧ p.1.sum = n) (hn : sel.minDet + sel.hsum ≤ n) :
    polProbs true sel d0 =
      (conditioned sel.cond (mapKeys mergeState d0), 1,
        mass (retained sel.cond (mapKeys mergeState d0))) ∧
    physPerf sel.cond (mapKeys mergeState d0) = 1 ∧
    logicalPerf sel.cond (mapKeys mergeState d0) =
      mass (retained sel.cond (mapKeys mergeState d0)) := by
  have hkm := mem_mapKeys_merge (m := m) (n := n) d0 hk
  have hmm : mass (mapKeys mergeState d0) = 1 := by rw [mass_mapKeys, hm]
  have hphys : ∀ p ∈ mapKeys mergeState d0, physOk sel.cond p.1 = true := by
    intro p hp
    simp only [physOk, Sel.cond, decide_eq_true_eq, (hkm p hp).2]
    exact hn
  -- the wrapped simulator keeps everything
  have hin : innerProbs sel.minDet d0 = (d0, 1, 1) := by
    have hr : restrict (fun t => decide (sel.minDet ≤ t.sum)) d0 = d0 :=
      restrict_all _ d0 (fun p hp => by simp [(hk p hp).2]; omega)
    simp only [innerProbs, hr, hm, normalize_of_mass_one d0 hm, nonempty_of_mass_one d0 hm]
    rfl
  -- so does the layer's photon filter
  have hf : photonFilter (layerThreshold true sel) (mapKeys mergeState d0) =
      (mapKeys mergeState d0, 1) := by
    unfold photonFilter
    split_ifs with h0
    · rfl
    · have hr : restrict (fun t => decide (layerThreshold true sel ≤ t.sum))
          (mapKeys mergeState d0) = mapKeys mergeState d0 :=
        restrict_all _ _ (fun p hp => by simp [layerThreshold, (hkm p hp).2]; exact hn)
      simp only [hr, hmm, normalize_of_mass_one _ hmm]
  have hphysPerf : physPerf sel.cond (mapKeys mergeState d0) = 1 := by
    rw [physPerf, restrict_all _ _ hphys, hmm]
  refine ⟨?_, hphysPerf, ?_⟩
  · simp only [polProbs, hin, hf, postSelect_spec sel.cond _ hmm hphys, mul_one, one_mul]
  · simp [logicalPerf, hphysPerf]

/-- **repaired code, too few photons** (`n < v + Σ heralds`): nothing is returned and the physical
performance is 0, as in the specification (the logical performance is then unspecified) -/
theorem polProbs_fixed_reject {m n : ℕ} (sel : Sel) (d0 : D)
    (hk : ∀ p ∈ d0, p.1.length = m * 2 ∧ p.1.sum = n) (hn : n < sel.minDet + sel.hsum) :
    (polProbs true sel d0).1 = [] ∧ (polProbs true sel d0).2.1 = 0 ∧
    conditioned sel.cond (mapKeys mergeState d0) = [] ∧
    physPerf sel.cond (mapKeys mergeState d0) = 0 := by
  have hT : layerThreshold true sel ≠ 0 := by simp [layerThreshold]; omega
  have hps : ∀ c : Cond, (postSelect c []).1 = [] := by
    intro c; unfold postSelect; split_ifs <;> exact normalize_nil
  -- whatever the wrapped simulator returns, no key reaches the layer's threshold
  have hkeys : ∀ p ∈ mapKeys mergeState (innerProbs sel.minDet d0).1, p.1.sum = n := by
    intro p hp
    simp only [innerProbs, mapKeys, List.mem_map] at hp
    obtain ⟨q, hq, rfl⟩ := hp
    have hq0 : ∃ q0 ∈ d0, q0.1 = q.1 := by
      unfold Dist.normalize at hq
      split_ifs at hq
      · exact ⟨q, (List.mem_filter.1 hq).1, rfl⟩
      · simp only [Dist.scale, List.mem_map] at hq
        obtain ⟨q0, hq0, rfl⟩ := hq
        exact ⟨q0, (List.mem_filter.1 hq0).1, rfl⟩
    obtain ⟨q0, hq0, e⟩ := hq0
    rw [← e]
    obtain ⟨h1, h2⟩ := hk q0 hq0
    exact (mergeState_length_sum m q0.1 h1).2.trans h2
  have hr : restrict (fun t => decide (layerThreshold true sel ≤ t.sum))
      (mapKeys mergeState (innerProbs sel.minDet d0).1) = [] :=
    restrict_none _ _ (fun p hp => by simp [layerThreshold, hkeys p hp]; omega)
  have hf : photonFilter (layerThreshold true sel)
      (mapKeys mergeState (innerProbs sel.minDet d0).1) = ([], 0) := by
    simp only [photonFilter, hT, ↓reduceIte, hr, normalize_nil, mass_nil]
  have hkm := mem_mapKeys_merge (m := m) (n := n) d0 hk
  have hnone : restrict (physOk sel.cond) (mapKeys mergeState d0) = [] :=
    restrict_none _ _ (fun p hp => by simp [physOk, Sel.cond, (hkm p hp).2]; omega)
  refine ⟨?_, ?_, ?_, ?_⟩
  · simp only [polProbs, hf, hps]
  · simp only [polProbs, hf, mul_zero]
  · have : retained sel.cond (mapKeys mergeState d0) = [] := by
      simp only [retained, restrict]
      apply List.filter_eq_nil_iff.2
      intro p hp
      have := hkm p hp
      simp [physOk, Sel.cond, this.2]; omega
    rw [conditioned, this]; exact normalize_nil
  · rw [physPerf, hnone, mass_nil]

/-- when no minimum is asked (`v = 0`) the code as it stood and the repaired code are the same
pipeline -/
theorem polProbs_current_eq_fixed (sel : Sel) (d0 : D) (h : sel.minDet = 0) :
    polProbs false sel d0 = polProbs true sel d0 := by
  simp [polProbs, layerThreshold, h]

/-- the witness of the defect: herald `mode 2 = 1`, `min_detected_photons_filter(2)`, two photons.
Three detected photons are demanded (two outside the heralded mode); the specification — and the
simulator layer without polarisation — returns nothing with physical performance 0. -/
def witnessSel : Sel := ⟨[(2, 1)], .tt, 2, false⟩
def witnessD0 : D := [([1, 0, 0, 0, 1, 0], 1 / 2), ([1, 0, 1, 0, 0, 0], 1 / 2)]

/-- **the code as it stood does not implement the documented photon filter when heralds are
present**: it reports `|1,0>` with physical performance 1 where the specification reports nothing
with physical performance 0; the repaired pipeline reports nothing -/
theorem polProbs_current_fails_on_herald_filter :
    (polProbs false witnessSel witnessD0).1 = [([1, 0], 1)] ∧
    (polProbs false witnessSel witnessD0).2.1 = 1 ∧
    conditioned witnessSel.cond (mapKeys mergeState witnessD0) = [] ∧
    physPerf witnessSel.cond (mapKeys mergeState witnessD0) = 0 ∧
    (polProbs true witnessSel witnessD0).1 = [] := by
  decide +kernel

/-- non-vacuity of `polProbs_fixed_pass` / `_reject`: the witness distribution has mass one and two
photons on `3·2` sub-modes; `v = 1` passes (`1 + 1 ≤ 2`), `v = 2` is rejected (`2 < 2 + 1`) -/
example : mass witnessD0 = 1 ∧ (∀ p ∈ witnessD0, p.1.length = 3 * 2 ∧ p.1.sum = 2) ∧
    ({ witnessSel with minDet := 1 } : Sel).minDet + ({ witnessSel with minDet := 1 } : Sel).hsum ≤ 2 ∧
    2 < witnessSel.minDet + witnessSel.hsum := by
  decide +kernel

/-- **Top-level theorem with selection** (repaired code).  For a unitary `W = upol · prep` on the
`2m` sub-modes, a prepared input `s` and any selection (heralds, post-selection expression, minimum
photon count `v`, heralded modes kept or dropped): if `v + Σ heralds ≤ |s|` the layer reports the
conditioned distribution (C04 specification) of the polarised distribution of section 10, physical
performance 1, logical performance = retained mass, and the reported distribution has mass one
whenever something is retained; otherwise it reports nothing with physical performance 0. -/
theorem polarised_selection_spec {m : ℕ} (W : Matrix (Fin (m * 2)) (Fin (m * 2)) GQ)
    (hW : IsUnitary W) (s : List ℕ) (hs : s.length = m * 2) (sel : Sel) :
    (sel.minDet + sel.hsum ≤ s.sum →
      polProbs true sel (spatialDist W s) =
        (conditioned sel.cond (polDist W s), 1, mass (retained sel.cond (polDist W s))) ∧
      physPerf sel.cond (polDist W s) = 1 ∧
      logicalPerf sel.cond (polDist W s) = mass (retained sel.cond (polDist W s)) ∧
      (mass (retained sel.cond (polDist W s)) ≠ 0 → mass (conditioned sel.cond (polDist W s)) = 1)) ∧
    (s.sum < sel.minDet + sel.hsum →
      (polProbs true sel (spatialDist W s)).1 = [] ∧ (polProbs true sel (spatialDist W s)).2.1 = 0 ∧
      conditioned sel.cond (polDist W s) = [] ∧ physPerf sel.cond (polDist W s) = 0) := by
  have hm : mass (spatialDist W s) = 1 := by
    rw [mass_spatialDist]; exact C02.dist_sums_to_one_GQ W hW s hs
  have hk := keys_spatialDist W s
  constructor
  · intro hn
    obtain ⟨h1, h2, h3⟩ := polProbs_fixed_pass (m := m) sel (spatialDist W s) hm hk hn
    exact ⟨h1, h2, h3, fun hr => conditioned_mass_one _ _ hr⟩
  · intro hn
    exact polProbs_fixed_reject (m := m) sel (spatialDist W s) hk hn

/-- … for the matrix built from a well-formed polarised circuit of unitary leaves and unitary
preparation blocks (hypotheses as in `polarised_simulation_spec`) -/
theorem polarised_selection_of_circuit (c : PComp GQ) (h : c.WF) (hu : c.AllUnitary)
    (A : Fin c.size → Matrix (Fin 2) (Fin 2) GQ) (hA : ∀ k, IsUnitary (A k))
    (s : List ℕ) (hs : s.length = c.size * 2) (sel : Sel) (hn : sel.minDet + sel.hsum ≤ s.sum) :
    polProbs true sel (spatialDist (simMatrix (upolOf c) (prepMatrix A)) s) =
      (conditioned sel.cond (polDist (simMatrix (upolOf c) (prepMatrix A)) s), 1,
        mass (retained sel.cond (polDist (simMatrix (upolOf c) (prepMatrix A)) s))) :=
  ((polarised_selection_spec _ (simMatrix_isUnitary c h hu A hA) s hs sel).1 hn).1

end Selection

/-! ### 15. components known by class: `use_polarization` on every component kind, and the
top-level theorem without the hypotheses "every leaf is unitary" / "every Jones vector is normalised"

`Model/C13Kinds.lean`: a leaf is a `Kind` — an ordinary class (`_supports_polarization = False`) with
its `k × k` matrix, `WP/HWP/QWP`, `PR`, `PBS`, `Unitary(U, use_polarization=True)` — with the values of
the cosines and sines of its angles; `leafUnitary` is `ACircuit.compute_unitary(use_polarization=flag)`
on ONE component. -/

section Kinds

/-- the own matrix of a valid component is unitary: `WP`, `PR` from `cos² + sin² = 1`, `PBS`
unconditionally, `Unitary(…)` by its constructor's assertion, ordinary classes by C14 -/
theorem kind_own_isUnitary [CommRing R] [StarRing R] (i : R) (hi : i * i = -1) (hsi : star i = -i)
    (k : Kind R) (h : k.Valid) : IsUnitary (k.own i).2 := by
  cases k with
  | ordinary n U => exact h
  | wp c s c2 s2 =>
    obtain ⟨a, b, c', d, e, f⟩ := h
    exact wp_unitary i _ _ _ _ hi hsi a b c' d e f
  | pr c s => exact pr_unitary _ _ h.1 h.2.1 h.2.2
  | pbs => exact pbs_unitary
  | polU n U => exact h

theorem kind_allUnitary [CommRing R] [StarRing R] (i : R) (hi : i * i = -1) (hsi : star i = -i)
    (k : Kind R) (h : k.Valid) : (k.toP i).AllUnitary := by
  cases k with
  | ordinary n U => exact h
  | wp c s c2 s2 =>
    obtain ⟨a, b, c', d, e, f⟩ := h
    exact wp_unitary i _ _ _ _ hi hsi a b c' d e f
  | pr c s => exact pr_unitary _ _ h.1 h.2.1 h.2.2
  | pbs => exact pbs_unitary
  | polU n U => exact h

/-- **`AllUnitary` discharged**: a circuit built from valid components (any nesting) is a tree of
unitary leaves, and `requires_polarization` of the tree is that of the components -/
theorem typed_circuit_allUnitary [CommRing R] [StarRing R] (i : R) (hi : i * i = -1)
    (hsi : star i = -i) (c : KComp R) (h : c.Valid) :
    (c.toP i).AllUnitary ∧ (c.toP i).requires = c.requires :=
  ⟨KComp.toP_allUnitary i (kind_allUnitary i hi hsi) c h, KComp.toP_requires i c⟩

/-- `compute_unitary(use_polarization=flag)` on ONE component of any class: the flag is resolved by
`resolve` with `requires = _supports_polarization`; a doubled answer is the model's matrix of the leaf
(`unitaryOfPol`, which the product theorem of section 2 multiplies), a plain answer is the own matrix -/
theorem leaf_compute_unitary_resolve [CommRing R] (i : R) (k : Kind R) (flag : Option Bool) :
    leafUnitary i k flag =
      match resolve k.supports flag with
      | .error e => .error e
      | .ok true => .ok ⟨(dbl (k.toP i)).size, unitaryOfPol (k.toP i)⟩
      | .ok false => .ok (k.own i) :=
  leafUnitary_resolve i k flag

/-- … concretely, for every class: a polarising class answers its own `2m × 2m` matrix to `None` and
`True` and refuses `False`; every other class answers its own matrix to `None` / `False` and
`matrix_double` of it to `True` -/
theorem leaf_compute_unitary_table [CommRing R] (i : R) (k : Kind R) :
    (k.supports = true →
      leafUnitary i k none = .ok (k.own i) ∧ leafUnitary i k (some true) = .ok (k.own i) ∧
      leafUnitary i k (some false) = .error "AssertionError") ∧
    (k.supports = false →
      leafUnitary i k none = .ok (k.own i) ∧ leafUnitary i k (some false) = .ok (k.own i) ∧
      leafUnitary i k (some true) = .ok ⟨(k.own i).1 * 2, double (k.own i).2⟩) := by
  constructor <;> intro h <;> simp [leafUnitary, h]

/-- whatever it answers is unitary (the doubled matrix of a single component is unitary) -/
theorem leaf_compute_unitary_isUnitary [CommRing R] [StarRing R] (i : R) (hi : i * i = -1)
    (hsi : star i = -i) (k : Kind R) (h : k.Valid) (flag : Option Bool) (M : SqM R)
    (hM : leafUnitary i k flag = .ok M) : IsUnitary M.2 := by
  have ho := kind_own_isUnitary i hi hsi k h
  obtain ⟨h1, h2⟩ := leaf_compute_unitary_table i k
  cases hs : k.supports
  · obtain ⟨a, b, c⟩ := h2 hs
    rcases flag with _ | _ | _
    · rw [a] at hM; cases hM; exact ho
    · rw [b] at hM; cases hM; exact ho
    · rw [c] at hM; cases hM; exact double_isUnitary ho
  · obtain ⟨a, b, c⟩ := h1 hs
    rcases flag with _ | _ | _
    · rw [a] at hM; cases hM; exact ho
    · rw [c] at hM; cases hM
    · rw [b] at hM; cases hM; exact ho

/-- `project_eh_ev` of a photon given by valid angle values is a normalised Jones vector -/
theorem trig_jones_norm [CommRing R] [StarRing R] (i : R) (hi : i * i = -1) (hsi : star i = -i)
    (t : Trig R) (h : t.Valid) : inner (t.jones i) (t.jones i) = 1 := by
  obtain ⟨a, b, c, d, e, f⟩ := h
  exact jones_norm i _ _ _ _ hi hsi a b c d e f

/-- **Top-level theorem from the components and the angles.**  `polarised_simulation_of_input`
without its hypotheses `AllUnitary` and "Jones vectors normalised": for a circuit of valid components
(ordinary leaves unitary, the cosine / sine values of every `WP`, `PR` real with `cos² + sin² = 1`) and
photons given by valid angle values, if the conversion accepts the input then `upol · prep` is unitary
and the simulated distribution is the merged spatial distribution, of total mass 1 over the `m`-mode
states with as many photons as the input.  Remaining hypotheses: the ranges `Circuit.add` accepted
(`WF`), one list of photons per mode, and an exact inverse norm `ρ` where two polarisations share a
mode. -/
theorem polarised_simulation_of_kinds (c : KComp GQ) (h : (c.toP GQ.I).WF) (hv : c.Valid)
    (orth : GQ × GQ → GQ × GQ → Bool) (photons : List (List (Trig GQ)))
    (hp : ∀ phs ∈ photons, ∀ t ∈ phs, t.Valid) (scans : List (Scan GQ))
    (hm : photons.length = (c.toP GQ.I).size)
    (hscan : scanAll orth (photons.map (List.map (Trig.jones GQ.I))) = .ok scans)
    (ρ : List (GQ × GQ) → GQ) (hρ : ∀ vs, star (ρ vs) = ρ vs)
    (hn : ∀ sc ∈ scans, ∀ v1 v2 rest, sc.vectors = v1 :: v2 :: rest →
      ρ sc.vectors * ρ sc.vectors * gsNorm2 v1 v2 = 1) :
    (spatialInput scans).length = (c.toP GQ.I).size * 2 ∧
    (spatialInput scans).sum = (photons.map List.length).sum ∧
    IsUnitary (simMatrix (upolOf (c.toP GQ.I))
      (prepMatrix (blocksOf true ρ scans (c.toP GQ.I).size))) ∧
    Dist.mass (polDist (simMatrix (upolOf (c.toP GQ.I))
      (prepMatrix (blocksOf true ρ scans (c.toP GQ.I).size))) (spatialInput scans)) = 1 ∧
    ((Fock.allStates (c.toP GQ.I).size (photons.map List.length).sum).map
      (Dist.get (polDist (simMatrix (upolOf (c.toP GQ.I))
        (prepMatrix (blocksOf true ρ scans (c.toP GQ.I).size))) (spatialInput scans)))).sum = 1 := by
  have hI : GQ.I * GQ.I = -1 ∧ star GQ.I = -GQ.I := by decide +kernel
  have hu := (typed_circuit_allUnitary GQ.I hI.1 hI.2 c hv).1
  have hnorm : ∀ phs ∈ photons.map (List.map (Trig.jones GQ.I)), ∀ v ∈ phs, inner v v = 1 := by
    intro phs hphs v hvm
    obtain ⟨ts, hts, rfl⟩ := List.mem_map.1 hphs
    obtain ⟨t, ht, rfl⟩ := List.mem_map.1 hvm
    exact trig_jones_norm GQ.I hI.1 hI.2 t (hp ts hts t ht)
  have hlen : (photons.map (List.map (Trig.jones GQ.I))).length = (c.toP GQ.I).size := by
    rw [List.length_map]; exact hm
  obtain ⟨h1, h2, h3, _, h5, h6⟩ := polarised_simulation_of_input (c.toP GQ.I) h hu orth _ scans hlen
    hscan hnorm ρ hρ hn
  have e : ((photons.map (List.map (Trig.jones GQ.I))).map List.length).sum =
      (photons.map List.length).sum := by
    rw [List.map_map]; congr 1; apply List.map_congr_left; intro a _; simp
  rw [e] at h2 h6
  exact ⟨h1, h2, h3, h5, h6⟩

/-- non-vacuity: the tree `exTree`'s polarising part by class — a rotator and a wave plate at
Pythagorean angles, a PBS, an ordinary swap — is valid, and so are the photons `H` and an elliptical one -/
def exKTree : KComp GQ :=
  .circ 3 (.cons 0 (.leaf (.pr c35 s45)) (.cons 1 (.leaf .pbs)
    (.cons 0 (.circ 2 (.cons 0 (.leaf (.ordinary 2 swap2)) (.cons 1 (.leaf (.wp c35 s45 c513 s1213)) .nil)))
      .nil)))

example : exKTree.Valid ∧ (exKTree.toP GQ.I).WF ∧ exKTree.requires = true ∧
    (⟨c35, s45, c513, s1213⟩ : Trig GQ).Valid ∧ (⟨1, 0, 1, 0⟩ : Trig GQ).Valid := by
  refine ⟨?_, ?_, rfl, ?_, ?_⟩
  · simp only [exKTree, KComp.Valid, KItems.Valid, Kind.Valid, and_true]
    refine ⟨by decide +kernel, trivial, ?_, by decide +kernel⟩
    unfold IsUnitary; decide +kernel
  · simp [exKTree, KComp.toP, KItems.toP, Kind.toP, PComp.WF, PItems.WF, PComp.size]
  · unfold Trig.Valid; decide +kernel
  · unfold Trig.Valid; decide +kernel

example : leafUnitary GQ.I (.pbs : Kind GQ) (some false) = .error "AssertionError" ∧
    (∃ M, leafUnitary GQ.I (.ordinary 2 swap2 : Kind GQ) (some true) = .ok M ∧ M.1 = 4) :=
  ⟨rfl, _, rfl, rfl⟩

end Kinds

/-! ### 16. a `Processor` given a polarised input: the input bookkeeping

`Model/C13Proc.lean`: the fields `_input_state`, `_inputs_map` (cache), noise / source and
`_min_detected_photons_filter`; requests `with_input`, `with_polarized_input`, `noise = …`,
`min_detected_photons_filter(v)`, `clear_input_and_circuit()`, `probs()`.  A query reports what is handed
to the simulator: the input distribution and the photon filter. -/

section Processor
variable {S I Z D : Type}

/-- the transcript of the object (cache and all) over any history is the transcript of the
specification without a cache: every `probs()` hands the simulator what the input in force *means*
for the noise in force — the source's distribution for an ordinary input, `SVDistribution(bs)` for a
polarised one -/
theorem proc_refines_stateless (env : PEnv S I Z D) (z : Z) (h : List (POp S I Z)) :
    (SM.run (procStep env) ⟨none, none, z, none⟩ h).2 =
      (SM.run (pspecStep env) ⟨none, z, none⟩ h).2 :=
  (SM.refine_run (procStep env) (pspecStep env) (PTracks env)
    (fun s a op hr => procStep_tracks env s a op hr) ⟨none, none, z, none⟩ ⟨none, z, none⟩
    ⟨rfl, rfl, rfl, Or.inl rfl⟩ h).2

/-- **a polarised input reaches the simulator as it is.**  After any history, `with_polarized_input(i)`
followed by any number of noise changes, filter settings and queries: a `probs()` that passes the
filter check hands the simulator exactly `SVDistribution(i)` — never a distribution generated by the
source, whatever the noise models set before or after -/
theorem proc_polarised_input_exact (env : PEnv S I Z D) (z : Z) (h h' : List (POp S I Z)) (i : I)
    (hk : ∀ op ∈ h', op.keepsInput = true) (d : Option D) (v : Int)
    (hq : (procStep env (SM.exec (procStep env) ⟨none, none, z, none⟩ (h ++ .withPol i :: h'))
      .query).2 = .ok (some (d, v))) :
    d = some (env.single i) := by
  have hr := (SM.refine_run (procStep env) (pspecStep env) (PTracks env)
    (fun s a op hr => procStep_tracks env s a op hr) ⟨none, none, z, none⟩ ⟨none, z, none⟩
    ⟨rfl, rfl, rfl, Or.inl rfl⟩ (h ++ .withPol i :: h')).1
  have hs := (procStep_tracks env _ _ .query hr).2
  change (procStep env (SM.exec (procStep env) _ _) .query).2 =
    (pspecStep env (SM.exec (pspecStep env) _ _) .query).2 at hs
  rw [hs] at hq
  have hin : (SM.exec (pspecStep env) ⟨none, z, none⟩ (h ++ .withPol i :: h')).input =
      some (.pol i) := by
    rw [SM.exec_append, SM.exec_cons, pspec_keeps_input env h' hk]
    rfl
  simp only [pspecStep] at hq
  split at hq
  · cases hq
  · simp only [Except.ok.injEq, Option.some.injEq, Prod.mk.injEq] at hq
    rw [← hq.1, hin]
    rfl

/-- an ordinary input after a noise change is served with the source of the noise *in force* -/
theorem proc_plain_input_follows_noise (env : PEnv S I Z D) (z z' : Z) (h : List (POp S I Z)) (s : S)
    (v : Int) :
    (procStep env (SM.exec (procStep env) ⟨none, none, z, none⟩
      (h ++ [.withInput s, .setMin v, .setNoise z'])) .query).2 = .ok (some (some (env.gen z' s), v)) := by
  have hr := (SM.refine_run (procStep env) (pspecStep env) (PTracks env)
    (fun s a op hr => procStep_tracks env s a op hr) ⟨none, none, z, none⟩ ⟨none, z, none⟩
    ⟨rfl, rfl, rfl, Or.inl rfl⟩ (h ++ [.withInput s, .setMin v, .setNoise z'])).1
  have hs := (procStep_tracks env _ _ .query hr).2
  change (procStep env (SM.exec (procStep env) _ _) .query).2 =
    (pspecStep env (SM.exec (pspecStep env) _ _) .query).2 at hs
  rw [hs, SM.exec_append]
  simp [SM.exec_cons, SM.exec_nil, pspecStep, checkMin, distOf]

/-- the guard `_has_custom_input` of the noise observer is necessary: a design that drops the cache
on every noise change sends the polarised state through the photon source -/
theorem eager_design_sends_polarised_through_source :
    ∃ (env : PEnv Unit Unit Bool String),
      (eagerStep env (SM.exec (eagerStep env) ⟨none, none, true, none⟩
        [.withPol (), .setMin 0, .setNoise false]) .query).2 = .ok (some (some "source(pol)", 0)) ∧
      (procStep env (SM.exec (procStep env) ⟨none, none, true, none⟩
        [.withPol (), .setMin 0, .setNoise false]) .query).2 = .ok (some (some "single", 0)) :=
  ⟨⟨fun _ _ => "source(plain)", fun _ _ => "source(pol)", fun _ => "single", id, fun _ => 1,
    fun _ => 1, 0⟩, rfl, rfl⟩

/-- the automatic photon filter (`check_min_detected_photons_filter`): with no value set, a perfect
source and an input, `probs()` uses — and keeps — the input's photon number minus the heralded
photons; with an imperfect source it raises, polarised input or not -/
theorem proc_auto_filter (env : PEnv S I Z D) (st : Proc S I Z D) (inp : PIn S I)
    (hm : st.minDet = none) (hi : st.input = some inp) :
    (env.perfect st.noise = true →
      ∃ d, (procStep env st .query).2 = .ok (some (d, (inp.n env : Int) - env.hsum)) ∧
        (procStep env st .query).1.minDet = some ((inp.n env : Int) - env.hsum)) ∧
    (env.perfect st.noise = false → (procStep env st .query) = (st, .error "ValueError")) := by
  constructor <;> intro hp <;> simp [procStep, checkMin, hm, hi, hp]

/-- non-vacuity / a concrete history: ordinary input, noise change, polarised input, noise change -/
example :
    (SM.run (procStep (⟨fun z s => s!"gen({z},{s})", fun z i => s!"genpol({z},{i})",
        fun i => s!"single({i})", fun z => z == 0, fun _ => 2, fun _ => 2, 0⟩ : PEnv Nat Nat Nat String))
      ⟨none, none, 0, none⟩
      [.withInput 7, .query, .setNoise 1, .query, .withPol 9, .setNoise 2, .query, .clear, .query]).2 =
    [.ok none, .ok (some (some "gen(0,7)", 2)), .ok none, .ok (some (some "gen(1,7)", 2)), .ok none,
      .ok none, .ok (some (some "single(9)", 2)), .ok none, .ok (some (none, 2))] := by
  decide

end Processor

/-! ### 17. wave 7: hypotheses discharged, converses, necessity

The exact-`ρ` hypothesis of `blocksOf_isUnitary` / `polarised_simulation_of_input` is (a) shown to be
necessary and sufficient (`prep2_fixed_unitary_iff`, witness `rho_exact_necessary`), (b) discharged
with `ρ = 1` for an exact orthogonality test over any ring (`blocksOf_isUnitary_exact`,
`polarised_simulation_of_input_exact`), (c) discharged over `ℂ` by the exact `1/√·`
(`exists_rho_complex_iff`, `polarised_simulation_complex_of_input`).  Converses of `double_isUnitary`,
`prep_unitary`, `prep2_unitary`. -/

section Wave7
open PM.Fock

/-- doubling reflects unitarity: `matrix_double(u)` is unitary **iff** `u` is -/
theorem double_isUnitary_iff [CommRing R] [StarRing R] {m : ℕ} (A : Matrix (Fin m) (Fin m) R) :
    IsUnitary (double A) ↔ IsUnitary A := by
  refine ⟨fun h => ⟨double_injective ?_, double_injective ?_⟩, double_isUnitary⟩
  · rw [double_mul, double_star, double_one]; exact h.1
  · rw [double_mul, double_star, double_one]; exact h.2

/-- the single-polarisation block is unitary **iff** the Jones vector is normalised -/
theorem prep_unitary_iff [CommRing R] [StarRing R] (v : R × R) :
    IsUnitary (blockOf v (compl v)) ↔ inner v v = 1 := by
  refine ⟨fun h => ?_, prep_unitary v⟩
  have := congrFun (congrFun h.2 0) 0
  simpa [blockOf, compl, Matrix.mul_apply, Fin.sum_univ_two, conjTranspose_apply, inner] using this

/-- the two-polarisation block *as given* (code before the repair, and the symbolic branch) is
unitary **iff** the two vectors are orthonormal -/
theorem prep2_unitary_iff [CommRing R] [StarRing R] (v1 v2 : R × R) :
    IsUnitary (blockOf v1 v2) ↔ inner v1 v1 = 1 ∧ inner v2 v2 = 1 ∧ inner v1 v2 = 0 := by
  refine ⟨fun h => ⟨?_, ?_, ?_⟩, fun h => prep2_unitary v1 v2 h.1 h.2.1 h.2.2⟩
  · have := congrFun (congrFun h.2 0) 0
    simpa [blockOf, Matrix.mul_apply, Fin.sum_univ_two, conjTranspose_apply, inner] using this
  · have := congrFun (congrFun h.2 1) 1
    simpa [blockOf, Matrix.mul_apply, Fin.sum_univ_two, conjTranspose_apply, inner] using this
  · have := congrFun (congrFun h.2 0) 1
    simpa [blockOf, Matrix.mul_apply, Fin.sum_univ_two, conjTranspose_apply, inner] using this

/-- **the exact-`ρ` hypothesis is necessary and sufficient**: for a normalised first vector the
repaired two-polarisation block is unitary **iff** `conj(ρ)·ρ·‖v2 − ⟨v1,v2⟩v1‖² = 1` (for the
self-adjoint `ρ` of `prep2_fixed_unitary`: iff `ρ² ‖…‖² = 1`) -/
theorem prep2_fixed_unitary_iff [CommRing R] [StarRing R] (ρ : R) (v1 v2 : R × R)
    (h1 : inner v1 v1 = 1) :
    IsUnitary (blockOf v1 (gs ρ v1 v2)) ↔ star ρ * ρ * gsNorm2 v1 v2 = 1 := by
  have hn : inner (gs ρ v1 v2) (gs ρ v1 v2) = star ρ * ρ * gsNorm2 v1 v2 := by
    simp only [gsNorm2, gs, inner, one_mul, star_mul', star_sub, star_add, star_star]
    ring
  have ho : inner v1 (gs ρ v1 v2) = 0 := by
    simp only [gs, inner] at h1 ⊢
    linear_combination (-(ρ * (star v1.1 * v2.1 + star v1.2 * v2.2))) * h1
  rw [prep2_unitary_iff, hn]
  exact ⟨fun h => h.2.1, fun h => ⟨h1, h, ho⟩⟩

/-- necessity witness over `ℚ[i]`: with `ρ = 1` instead of the exact `5/4` the repaired block of
`vEll`, `H` is not unitary -/
theorem rho_exact_necessary : ¬ IsUnitary (modeBlock true (1 : GQ) [vEll, (1, 0)]) := by
  unfold IsUnitary; decide +kernel


/-- the scan of a mode keeps at most two vectors, distinct, and the second one passed the code's
orthogonality test against the first -/
theorem scanAll_vectors [DecidableEq R] (orth : R × R → R × R → Bool)
    (modes : List (List (R × R))) (scans : List (Scan R)) (hscan : scanAll orth modes = .ok scans)
    (sc : Scan R) (hsc : sc ∈ scans) :
    sc.vectors.length ≤ 2 ∧
      ∀ v1 v2 rest, sc.vectors = v1 :: v2 :: rest → orth v1 v2 = true ∧ v1 ≠ v2 ∧ rest = [] :=
  scanAll_inv orth modes scans hscan sc hsc

/-- closed form of the norm the Gram–Schmidt step divides by; hence for normalised vectors the
exact-`ρ` hypothesis reads `ρ² (1 − |⟨v1,v2⟩|²) = 1` -/
theorem gsNorm2_eq [CommRing R] [StarRing R] (v1 v2 : R × R) (h1 : inner v1 v1 = 1) :
    gsNorm2 v1 v2 = inner v2 v2 - inner v1 v2 * star (inner v1 v2) := gsNorm2_closed v1 v2 h1

/-- **the exact-`ρ` hypothesis discharged for an exact orthogonality test** (any ring): when the
conversion accepts a second polarisation only if it is exactly orthogonal to the first (`orthExact`,
the symbolic branch's test) and the photons are normalised, `ρ = 1` is an exact inverse norm, the
repaired block is the block of the vectors as given, and every block is unitary. -/
theorem blocksOf_isUnitary_exact [CommRing R] [StarRing R] [DecidableEq R]
    (modes : List (List (R × R))) (scans : List (Scan R))
    (hscan : scanAll orthExact modes = .ok scans)
    (hnorm : ∀ phs ∈ modes, ∀ v ∈ phs, inner v v = 1) (ρ : List (R × R) → R) (m : ℕ) (k : Fin m) :
    blocksOf true (fun _ => 1) scans m k = blocksOf false ρ scans m k ∧
      IsUnitary (blocksOf true (fun _ => 1) scans m k) := by
  have hspec := scanAll_spec orthExact modes scans hscan
  have hinv := scanAll_inv orthExact modes scans hscan
  have horth : ∀ sc ∈ scans, ∀ v1 v2 rest, sc.vectors = v1 :: v2 :: rest → inner v1 v2 = 0 := by
    intro sc hsc v1 v2 rest hv
    have := ((hinv sc hsc).2 v1 v2 rest hv).1
    simpa [orthExact] using this
  have hnv : ∀ sc ∈ scans, ∀ w ∈ sc.vectors, inner w w = 1 := by
    intro sc hsc w hw
    obtain ⟨phs, hphs, _, hv⟩ := forall₂_mem_right hspec _ hsc
    exact hnorm phs hphs w (hv w hw)
  constructor
  · unfold blocksOf
    rcases getD_mem_or_default (⟨[], 0, 0⟩ : Scan R) scans k.val with hmem | hdef
    · generalize scans.getD k.val ⟨[], 0, 0⟩ = sc at hmem
      match hvs : sc.vectors with
      | [] => rfl
      | [_] => rfl
      | v1 :: v2 :: rest =>
        simp only [modeBlock, if_true, Bool.false_eq_true, if_false]
        rw [gs_one_of_orth v1 v2 (horth sc hmem v1 v2 rest hvs)]
    · rw [hdef]; rfl
  · refine blocksOf_isUnitary orthExact modes scans hscan hnorm (fun _ => 1) (fun _ => star_one _)
      ?_ m k
    intro sc hsc v1 v2 rest hv
    rw [one_mul, one_mul]
    exact gsNorm2_of_orthonormal v1 v2 (hnv sc hsc v2 (by rw [hv]; simp)) (horth sc hsc v1 v2 rest hv)

/-- **Top-level theorem from the polarised input, without the exact-`ρ` hypothesis**, for an exact
orthogonality test: accepted input + normalised photons ⇒ the polarised simulation is the merged
spatial simulation of the unitary `upol · prep`, a probability distribution. -/
theorem polarised_simulation_of_input_exact (c : PComp GQ) (h : c.WF) (hu : c.AllUnitary)
    (modes : List (List (GQ × GQ))) (scans : List (Scan GQ))
    (hm : modes.length = c.size) (hscan : scanAll orthExact modes = .ok scans)
    (hnorm : ∀ phs ∈ modes, ∀ v ∈ phs, inner v v = 1) :
    (spatialInput scans).length = c.size * 2 ∧
    (spatialInput scans).sum = (modes.map List.length).sum ∧
    IsUnitary (simMatrix (upolOf c) (prepMatrix (blocksOf true (fun _ => 1) scans c.size))) ∧
    polDist (simMatrix (upolOf c) (prepMatrix (blocksOf true (fun _ => 1) scans c.size)))
        (spatialInput scans) =
      Dist.mapKeys mergeState
        (spatialDist (upolOf c * prepMatrix (blocksOf true (fun _ => 1) scans c.size))
          (spatialInput scans)) ∧
    Dist.mass (polDist (simMatrix (upolOf c) (prepMatrix (blocksOf true (fun _ => 1) scans c.size)))
      (spatialInput scans)) = 1 ∧
    ((allStates c.size (modes.map List.length).sum).map
      (Dist.get (polDist (simMatrix (upolOf c) (prepMatrix (blocksOf true (fun _ => 1) scans c.size)))
        (spatialInput scans)))).sum = 1 := by
  have hspec := scanAll_spec orthExact modes scans hscan
  have hinv := scanAll_inv orthExact modes scans hscan
  refine polarised_simulation_of_input c h hu orthExact modes scans hm hscan hnorm (fun _ => 1)
    (fun _ => star_one _) ?_
  intro sc hsc v1 v2 rest hv
  have ho : inner v1 v2 = 0 := by
    simpa [orthExact] using ((hinv sc hsc).2 v1 v2 rest hv).1
  obtain ⟨phs, hphs, _, hvv⟩ := forall₂_mem_right hspec _ hsc
  rw [one_mul, one_mul]
  exact gsNorm2_of_orthonormal v1 v2 (hnorm phs hphs v2 (hvv v2 (by rw [hv]; simp))) ho

/-- over `ℂ` an exact self-adjoint inverse norm exists **iff** the Gram–Schmidt vector is not zero
(`rhoC` is `1/√‖v2 − ⟨v1,v2⟩v1‖²`) -/
theorem exists_rho_complex_iff (v1 v2 : ℂ × ℂ) :
    (∃ ρ : ℂ, star ρ = ρ ∧ ρ * ρ * gsNorm2 v1 v2 = 1) ↔ gsNorm2 v1 v2 ≠ 0 := by
  constructor
  · rintro ⟨ρ, _, h⟩ h0
    rw [h0, mul_zero] at h
    exact zero_ne_one h
  · intro h
    exact ⟨rhoC [v1, v2], rhoC_star _, rhoC_spec v1 v2 [] h⟩

/-- **Top-level statement over `ℂ` from the polarised input, the exact-`ρ` hypothesis discharged**:
`rhoC` (exact `1/√·`, which exists in `ℂ`) is used by the Gram–Schmidt step.  If the conversion
accepts the input, the photons are normalised and the test `orth` never accepts a second
polarisation equal to the first up to a phase (`|⟨v1,v2⟩|² ≠ 1`), then every preparation block is
unitary, `upol · prep` is unitary and the merged probabilities over the `m`-mode states with as many
photons as the input sum to one. -/
theorem polarised_simulation_complex_of_input [DecidableEq ℂ] (c : PComp ℂ) (h : c.WF)
    (hu : c.AllUnitary) (orth : ℂ × ℂ → ℂ × ℂ → Bool) (modes : List (List (ℂ × ℂ)))
    (scans : List (Scan ℂ)) (hm : modes.length = c.size) (hscan : scanAll orth modes = .ok scans)
    (hnorm : ∀ phs ∈ modes, ∀ v ∈ phs, inner v v = 1)
    (horth : ∀ v1 v2, orth v1 v2 = true → inner v1 v2 * star (inner v1 v2) ≠ 1) :
    (spatialInput scans).length = c.size * 2 ∧
    (spatialInput scans).sum = (modes.map List.length).sum ∧
    (∀ k, IsUnitary (blocksOf true rhoC scans c.size k)) ∧
    IsUnitary (simMatrix (upolOf c) (prepMatrix (blocksOf true rhoC scans c.size))) ∧
    ((allStates c.size (modes.map List.length).sum).map fun t =>
      (((allStates (c.size * 2) (modes.map List.length).sum).filter
          fun u => decide (mergeState u = t)).map fun u =>
        pamp (simMatrix (upolOf c) (prepMatrix (blocksOf true rhoC scans c.size)))
            (spatialInput scans) u *
          star (pamp (simMatrix (upolOf c) (prepMatrix (blocksOf true rhoC scans c.size)))
            (spatialInput scans) u) /
            ((prodFact (spatialInput scans) : ℂ) * (prodFact u : ℂ))).sum).sum = 1 := by
  have hspec := scanAll_spec orth modes scans hscan
  have hinv := scanAll_inv orth modes scans hscan
  have hlen : (spatialInput scans).length = c.size * 2 := by
    rw [spatialInput_length, ← hspec.length_eq, hm]
  have hsum : (spatialInput scans).sum = (modes.map List.length).sum := by
    rw [spatialInput_sum]
    exact forall₂_sum_eq List.length (fun sc : Scan ℂ => sc.n0 + sc.n1) _
      (fun _ _ hp => hp.1) _ _ hspec
  have hB : ∀ k, IsUnitary (blocksOf true rhoC scans c.size k) := by
    refine blocksOf_isUnitary orth modes scans hscan hnorm rhoC rhoC_star ?_ c.size
    intro sc hsc v1 v2 rest hv
    rw [hv]
    apply rhoC_spec
    obtain ⟨phs, hphs, _, hvv⟩ := forall₂_mem_right hspec _ hsc
    have h1 : inner v1 v1 = 1 := hnorm phs hphs v1 (hvv v1 (by rw [hv]; simp))
    have h2 : inner v2 v2 = 1 := hnorm phs hphs v2 (hvv v2 (by rw [hv]; simp))
    rw [gsNorm2_closed v1 v2 h1, h2]
    intro h0
    exact horth v1 v2 ((hinv sc hsc).2 v1 v2 rest hv).1 (by linear_combination -h0)
  obtain ⟨hW, hmass⟩ := polarised_simulation_mass_field c h hu _ hB (spatialInput scans) hlen
  rw [hsum] at hmass
  exact ⟨hlen, hsum, hB, hW, hmass⟩

/-- non-vacuity of `polarised_simulation_of_input_exact` / `blocksOf_isUnitary_exact`: the input
`|{P:H}{P:V}, 0, {P:ell}>` is accepted by the exact test -/
example : [[((1 : GQ), (0 : GQ)), (0, 1)], [], [vEll]].length = exTree.size ∧
    scanAll orthExact [[((1 : GQ), (0 : GQ)), (0, 1)], [], [vEll]] =
      .ok [⟨[(1, 0), (0, 1)], 1, 1⟩, ⟨[], 0, 0⟩, ⟨[vEll], 1, 0⟩] ∧
    (∀ phs ∈ [[((1 : GQ), (0 : GQ)), (0, 1)], [], [vEll]], ∀ v ∈ phs, inner v v = 1) := by
  refine ⟨rfl, by decide +kernel, by decide +kernel⟩

/-- non-vacuity of `polarised_simulation_complex_of_input`: a test that accepts every second
polarisation not equal to the first up to a phase, and the non-orthogonal pair `H`, `(3/5, 4/5)` -/
example [DecidableEq ℂ] :
    let orth : ℂ × ℂ → ℂ × ℂ → Bool :=
      fun v1 v2 => @decide (inner v1 v2 * star (inner v1 v2) ≠ 1) (Classical.dec _)
    (∀ v1 v2, orth v1 v2 = true → inner v1 v2 * star (inner v1 v2) ≠ 1) ∧
    scanAll orth [[((1 : ℂ), (0 : ℂ)), (3 / 5, 4 / 5)]] = .ok [⟨[(1, 0), (3 / 5, 4 / 5)], 1, 1⟩] ∧
    (∀ phs ∈ [[((1 : ℂ), (0 : ℂ)), (3 / 5, 4 / 5)]], ∀ v ∈ phs, inner v v = 1) := by
  intro orth
  have ho : orth (1, 0) (3 / 5, 4 / 5) = true := by
    simp only [orth, inner]
    norm_num
  have hne : ((1 : ℂ), (0 : ℂ)) ≠ (3 / 5, 4 / 5) := by
    intro h; have := congrArg Prod.snd h; norm_num at this
  refine ⟨fun v1 v2 h => by simpa [orth] using h, ?_, ?_⟩
  · simp [scanAll, scanMode, scanStep, ho, hne]
  · intro phs hp v hv
    simp only [List.mem_singleton] at hp
    subst hp
    simp only [List.mem_cons, List.not_mem_nil, or_false] at hv
    rcases hv with rfl | rfl <;> simp only [inner] <;> norm_num

end Wave7


/-!
## 18. The shape of the input (`PolarizationSimulator._prepare_input` before the conversion)

`Model/C13Shape.lean`: the caller hands a `BasicState`, a `StateVector` or an `SVDistribution` to
`probs` / `probs_svd` / `evolve`; the layer accepts a `BasicState` and a one-element distribution whose
state vector has one component (`dispatch`), remembers whether it unwrapped a distribution and wraps the
prepared spatial state again.  The session theorems of sections 8-9 are generic in the type of inputs;
instantiated at `shapeEnv env` they give, for every history of `set_circuit` and queries of ANY shape on
one object: a query is answered by the stateless answer for the circuit in force and the `BasicState`
inside, or refused with `NotImplementedError` leaving the object exactly as it was — before the
conversion is even tried (so `NotImplementedError` wins over the `ValueError` of an inadmissible state
and over the `TypeError` of an object without circuit).
-/
section Shapes
variable {C I M S O : Type}

/-- the layer accepts exactly a `BasicState` (flag `false`) and a one-element distribution whose state
vector has one component (flag `true`) -/
theorem dispatch_ok_iff (x : Shape I) (i : I) (w : Bool) :
    dispatch x = .ok (i, w) ↔ (x = .bs i ∧ w = false) ∨ (x = .svd [[i]] ∧ w = true) := by
  rcases x with j | comps | svs
  · simp [dispatch, unwrapSvd, eq_comm]
  · simp [dispatch, unwrapSvd]
  · rcases svs with _ | ⟨sv, _ | ⟨sv2, rest⟩⟩
    · simp [dispatch, unwrapSvd]
    · rcases sv with _ | ⟨j, _ | ⟨j2, r⟩⟩ <;> simp [dispatch, unwrapSvd, eq_comm]
    · simp [dispatch, unwrapSvd]

/-- every other shape — any `StateVector`, an empty distribution, several state vectors, a superposition —
is refused with `NotImplementedError` -/
theorem dispatch_rejects (x : Shape I) (h₁ : ∀ i, x ≠ .bs i) (h₂ : ∀ i, x ≠ .svd [[i]]) :
    dispatch x = .error "NotImplementedError" := by
  rcases x with j | comps | svs
  · exact absurd rfl (h₁ j)
  · simp [dispatch, unwrapSvd]
  · rcases svs with _ | ⟨sv, _ | ⟨sv2, rest⟩⟩
    · simp [dispatch, unwrapSvd]
    · rcases sv with _ | ⟨j, _ | ⟨j2, r⟩⟩
      · simp [dispatch, unwrapSvd]
      · exact absurd rfl (h₂ j)
      · simp [dispatch, unwrapSvd]
    · simp [dispatch, unwrapSvd]

/-- the dispatch raises no other class -/
theorem dispatch_error_class (x : Shape I) (e : String) (h : dispatch x = .error e) :
    e = "NotImplementedError" := by
  unfold dispatch at h
  split at h
  · cases h
  · cases h; rfl

/-- the stateless answer with the dispatch in front -/
theorem shaped_answer (env : Env C I M S O) (c : Option C) (x : Shape I) :
    answer (shapeEnv env) c x =
      match dispatch x with
      | .error e => .error e
      | .ok (i, _) => answer env c i := by
  unfold answer
  simp only [shapeEnv]
  rcases hd : dispatch x with e | ⟨i, w⟩
  · rfl
  · rcases hp : env.prepare i with e | ⟨s, p⟩
    · simp [hp]
    · rcases c with _ | c
      · simp [hp]
      · rcases hc : env.compile c with e | u
        · simp [hp, hc]
        · rcases hm : env.mkUnitary u p with e | w' <;> simp [hp, hc, hm]

/-- a `BasicState` is served as in sections 8-11 -/
theorem shaped_answer_bs (env : Env C I M S O) (c : Option C) (i : I) :
    answer (shapeEnv env) c (.bs i) = answer env c i := by
  rw [shaped_answer]; rfl

/-- `SVDistribution(bs)` is served as `bs` -/
theorem shaped_answer_svd (env : Env C I M S O) (c : Option C) (i : I) :
    answer (shapeEnv env) c (.svd [[i]]) = answer env c i := by
  rw [shaped_answer]; rfl

/-- a refused shape leaves `_upol` AND the circuit held by the wrapped simulator as they were, whatever
the state inside (it is refused before the conversion) and whether or not a circuit was set -/
theorem shaped_rejected_keeps_object (env : Env C I M S O) (st : Layer M) (x : Shape I) (e : String)
    (h : dispatch x = .error e) :
    sessionStep (shapeEnv env) st (.probs x) = (st, .error "NotImplementedError") := by
  have := dispatch_error_class x e h
  subst this
  simp [sessionStep, shapeEnv, h]

/-- after any history of `set_circuit` and requests of any shape on a fresh object, a request is refused by
its shape or answered by the stateless answer for the circuit in force and the `BasicState` inside -/
theorem shaped_session_query_answer (env : Env C I M S O) (y : Option M) (h : List (Cmd C (Shape I)))
    (x : Shape I) :
    (sessionStep (shapeEnv env) (SM.exec (sessionStep (shapeEnv env)) ⟨none, y⟩ h) (.probs x)).2 =
      match dispatch x with
      | .error e => .error e
      | .ok (i, _) => answer env (inForce (shapeEnv env) none h) i := by
  rw [session_query_answer, shaped_answer]

/-- the contrast design answers a superposition from its first component alone; the code refuses it -/
theorem loose_dispatch_drops_components :
    dispatchLoose (Shape.svd [[0, 1]]) = .ok ((0 : ℕ), true) ∧
    dispatch (Shape.svd [[(0 : ℕ), 1]]) = .error "NotImplementedError" := by
  constructor <;> rfl


/-- the flag handed on is `true` exactly when the caller handed an `SVDistribution`: `probs_svd` of the
wrapped simulator gets a distribution, `probs` / `evolve` a Fock state -/
theorem dispatch_keeps_form (x : Shape I) (i : I) (w : Bool) (h : dispatch x = .ok (i, w)) :
    w = true ↔ ∃ svs, x = .svd svs := by
  rcases (dispatch_ok_iff x i w).1 h with ⟨rfl, rfl⟩ | ⟨rfl, rfl⟩
  · simp
  · simp

/-- non-vacuity: both accepted forms and three rejected ones -/
example : dispatch (Shape.bs (7 : ℕ)) = .ok (7, false) ∧ dispatch (Shape.svd [[(7 : ℕ)]]) = .ok (7, true) ∧
    dispatch (Shape.sv [(7 : ℕ)]) = .error "NotImplementedError" ∧
    dispatch (Shape.svd [[(7 : ℕ)], [8]]) = .error "NotImplementedError" ∧
    dispatch (Shape.svd ([] : List (List ℕ))) = .error "NotImplementedError" ∧
    dispatch (Shape.svd [([] : List ℕ)]) = .error "NotImplementedError" := by
  refine ⟨rfl, rfl, rfl, rfl, rfl, rfl⟩

end Shapes

/-!
### What is proved here and what is not

Proved (sections 1–14): every ingredient of the statement, the top-level composition
(`polarised_simulation_spec`, `polarised_simulation_of_input`, `polarised_simulation_mass_field`,
`polarised_amplitude_factorises`), the session theorems for histories of `set_circuit`, edits
(`add`, re-tuning — any mutation) and queries; the state-vector path (`polarised_evolve_spec`:
injective annotation, amplitudes = spatial amplitudes, norm 1, agreement with `probs`;
`evolve_selection_spec` for heralds / post-selection with the heralded modes kept);
`convert_polarized_state(inverse=True)` (`prep_inverse_spec`, `prep_inverse_unitary`) and the symbolic
branch's block (`symbolic_block_unitary`); heralds / post-selection / photon filter on a polarised
simulation = the C04 conditioning of the polarised distribution for the repaired layer
(`polarised_selection_spec`), with the witness of the code as it stood
(`polProbs_current_fails_on_herald_filter`); section 15: `compute_unitary(use_polarization)` on one
component of every class (`leaf_compute_unitary_resolve / _table / _isUnitary`), a circuit of valid
components is a tree of unitary leaves (`typed_circuit_allUnitary`) and the top-level theorem with only
`cos² + sin² = 1`-type hypotheses on the parameters (`polarised_simulation_of_kinds`); section 16: the
`Processor`'s cached input distribution refines the cache-free specification, a polarised input reaches
the simulator as `SVDistribution(bs)` whatever the noise history (`proc_refines_stateless`,
`proc_polarised_input_exact`, `proc_plain_input_follows_noise`, `proc_auto_filter`), and the guard
`_has_custom_input` is necessary (`eager_design_sends_polarised_through_source`).

NOT proved (validated by the correspondence only, or outside the model):
* `upolOf`/`blocksOf`/`scanAll` compose the model's definitions as `Driver/C13.lean: envGQ` does
  (there through `MatV` materialisation and `matOfRows` re-typing); the driver's glue itself is not
  the subject of a theorem.
* The exact-`ρ` hypothesis: over `ℚ[i]` the driver uses one Newton step for `1/√x`, so the matrix
  it simulates is unitary only up to `10⁻²⁴`; the mass-one theorem is exact for exact `ρ`.  Section 17
  now PROVES that the hypothesis is necessary and sufficient (`prep2_fixed_unitary_iff`), that it holds
  with `ρ = 1` whenever the orthogonality test is exact (`polarised_simulation_of_input_exact`, any
  ring, in particular `ℚ[i]`) and that over `ℂ` the exact `ρ` exists iff the second polarisation is not
  the first up to a phase (`exists_rho_complex_iff`, `polarised_simulation_complex_of_input`).  Still
  not proved: a bound on the defect of unitarity / of the total mass for the driver's *approximate*
  `ρ` over `ℚ[i]` (perturbation estimate on permanents), and that no exact `ρ` exists in `ℚ[i]` for
  e.g. `‖…‖² = 1/2` (irrationality of `√2`; not needed by any theorem).
* `evolve`: the square root `√(∏s!∏t!)` (and `√(retained mass)` with a selection) is taken outside
  the model; `keep_heralds(False)` on the state-vector path is NOT modelled (native
  `BasicState.remove_modes` on annotated states, coherent addition of amplitudes that differ only in
  a dropped photon's polarisation); the native StateVector drops components below `10⁻⁶`.
* symbolic conversion: sympy's arithmetic on the stored floating angles is outside the model; the
  model's exact orthogonality test is on the rationals the harness sends (in practice both reject
  every second polarisation, `H`/`V` included, because the stored angles are single-precision floats).
* selection: that the wrapped simulator's filter is `restrict` + `normalize` of the full distribution
  (`innerProbs`) and that detectors are ignored by the layer (`_prepare_detectors_impl` returns
  `None`) are validated by testing; the logical performance reported when the physical performance
  is 0 is unspecified; noisy sources, losses and time delays on polarised processors are not modelled.
* That the real object has no hidden state beyond `_upol` and the inner circuit, that
  `Parameter.set_value` + `set_circuit` recompiles, and that `Processor.add` is seen by the next
  `probs()` — the session theorems are about the model's machine; model = code by testing.
* section 16 is about the model's machine `procStep`; that `Processor` has no further state feeding
  `probs()` (e.g. `with_input(SVDistribution)`, remote processors, `LogicalState` inputs — not
  described), and that `Source.generate_distribution` is a function of (noise model, state), is
  validated by testing; photon-source noise on a polarised input is *by-passed* by the code (modelled as
  it is); loss channels (`LC`) on a polarised processor (`LossSimulator` around the polarisation layer)
  are neither modelled nor compared here (no theorem ties C07's expansion to the doubling).
* `cos`, `sin`, `√` themselves, the inner spatial engines (C02), the `k × k` leaf matrices (C14).
* section 18 (input shapes) PROVES the acceptance / refusal table of `_prepare_input` and lifts the
  session theorems to requests of any shape.  Not modelled: what the wrapped simulator does with an
  accepted input handed to the entry point that takes the other form (`probs_svd(BasicState)`,
  `probs(SVDistribution(bs))`: its own type errors), the weight of the single state vector, the native
  `StateVector`'s merging of equal components, `Processor.with_input(SVDistribution / StateVector)`.
-/

end PM.C13
