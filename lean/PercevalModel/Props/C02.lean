/-
  C02 — property theorems.  Specification: `Found/Fock.lean`; code models: `Model/C02.lean`.
  What is *not* proved here is said at the end of the file.
-/
import PercevalModel.Model.C02
import PercevalModel.Lemmas.C02
import PercevalModel.Lemmas.FockComp

open Matrix

namespace PM.C02
open PM.Fock

variable {R : Type*}

/-- amplitudes between states of different photon number vanish -/
theorem pamp_zero_of_sum_ne [CommRing R] {m : ℕ} (U : Matrix (Fin m) (Fin m) R) (s t : List ℕ)
    (h : s.sum ≠ t.sum) : pamp U s t = 0 := by
  simp [pamp, h]

/-- `NaiveBackend._compute_submatrix`: the repetition loops build exactly `U[t|s]` -/
theorem subMatLoop_eq_subMat [Zero R] {m : ℕ} (U : Matrix (Fin m) (Fin m) R) (s t : List ℕ)
    (hst : s.sum = t.sum) (i j : Fin s.sum) :
    subMatLoop U s t i.val j.val = subMat U s t i j := by
  have hj : j.val < (expand s).length := by rw [expand_length]; exact j.isLt
  have hi : i.val < (expand t).length := by rw [expand_length, ← hst]; exact i.isLt
  simp only [subMatLoop, subMatLoopCols, subMat, List.getD_eq_getElem?_getD, List.getElem?_map,
    List.getElem?_eq_getElem hj, List.getElem?_eq_getElem hi, Option.map_some, Option.getD_some]

/-- the Naive engine's amplitude (with its size-0/size-1 shortcuts) is the specification -/
theorem naivePamp_eq_pamp [CommRing R] {m : ℕ} (U : Matrix (Fin m) (Fin m) R) (s t : List ℕ) :
    naivePamp U s t = pamp U s t := by
  unfold naivePamp pamp
  by_cases hst : s.sum = t.sum
  · simp only [hst, ne_eq, not_true_eq_false, ↓reduceIte]
    by_cases h0 : t.sum = 0
    · simp only [h0, ↓reduceIte]
      have : IsEmpty (Fin s.sum) := by rw [hst, h0]; infer_instance
      rw [Matrix.permanent_isEmpty]
    · simp only [h0, ↓reduceIte]
      congr 1
      funext i j
      exact subMatLoop_eq_subMat U s t hst i j
  · simp [hst]

/-- bulk results are listed over exactly the states of the input photon number that the masks
keep — each exactly once, in the order of the full enumeration -/
theorem bulk_states_spec (m : ℕ) (s : List ℕ) (masks : List (List (Option ℕ))) :
    (∀ t, t ∈ bulkStates m s masks ↔ t.length = m ∧ t.sum = s.sum ∧ masksOk masks 0 t = true) ∧
    (bulkStates m s masks).Nodup ∧
    (bulkStates m s masks).Sublist (allStates m s.sum) := by
  refine ⟨fun t => ?_, ?_, ?_⟩
  · simp [bulkStates, allStatesMasked, mem_allStates_iff, and_assoc]
  · exact (allStates_nodup m s.sum).filter _
  · exact List.filter_sublist

/-- with a mask, the values on the kept states are the unmasked values (and nothing else is
listed): the masked distribution is the unmasked one filtered -/
theorem mask_restrict {m : ℕ} (U : Matrix (Fin m) (Fin m) GQ) (s : List ℕ)
    (masks : List (List (Option ℕ))) :
    probDistribution U s masks =
      (probDistribution U s []).filter (fun p => masksOk masks 0 p.1) := by
  simp only [probDistribution, bulkStates, allStatesMasked, List.filter_map]
  congr 1
  rw [List.filter_filter]
  apply List.filter_congr
  intro t _
  simp [masksOk, Function.comp]

/-- `all_prob` lists the same numbers as `prob_distribution`, in the same order -/
theorem allProb_eq_probDistribution {m : ℕ} (U : Matrix (Fin m) (Fin m) GQ) (s : List ℕ)
    (masks : List (List (Option ℕ))) :
    allProb U s masks = (probDistribution U s masks).map Prod.snd := by
  simp [allProb, probDistribution, Function.comp_def]

/-- vacuum goes to vacuum with amplitude one -/
theorem pamp_vacuum [CommRing R] {m : ℕ} (U : Matrix (Fin m) (Fin m) R) (s t : List ℕ)
    (hs : s.sum = 0) (ht : t.sum = 0) : pamp U s t = 1 := by
  have : IsEmpty (Fin s.sum) := by rw [hs]; infer_instance
  simp [pamp, hs, ht, Matrix.permanent_isEmpty]

/-- one photon: the amplitude is the matrix entry (`fock_comp_partial`: for a single photon,
composition of circuits is matrix multiplication) -/
theorem pamp_single [CommRing R] {m : ℕ} (U : Matrix (Fin m) (Fin m) R) (s t : List ℕ)
    (hs : s.sum = 1) (ht : t.sum = 1) :
    pamp U s t = entry U ((expand t).getD 0 0) ((expand s).getD 0 0) := by
  unfold pamp
  rw [if_pos (by rw [hs, ht])]
  have hc : Fintype.card (Fin s.sum) = 1 := by simp [hs]
  rw [Matrix.permanent_eq_elem_of_card_eq_one hc ⟨0, by omega⟩]
  rfl

/-- the specification amplitude, evaluated by Laplace expansion over lists -/
theorem pamp_eq_permRec [CommRing R] {m : ℕ} (U : Matrix (Fin m) (Fin m) R) (s t : List ℕ)
    (h : s.sum = t.sum) : pamp U s t = permRec (entry U) (expand t) (expand s) := by
  rw [permRec_eq_permanent _ _ _ (by rw [expand_length, expand_length, h])]
  unfold pamp
  rw [if_pos h, ← permanent_submatrix_equiv_self (finCongr (expand_length s).symm)]
  rfl

/-- **SLOS = boson-sampling amplitude**, for every photon number, every (bunched) input and
output: the layered polynomial-coefficient recursion `coef(t + e_j) += coef(t)·U[j, c_k]`, rescaled
by `∏ t!`, is `perm(U[t|s])`. -/
theorem slosPamp_eq_pamp [CommRing R] {m : ℕ} (U : Matrix (Fin m) (Fin m) R) (s t : List ℕ)
    (ht : t.length = m) : slosPamp U s t = pamp U s t := by
  unfold slosPamp
  by_cases h : s.sum = t.sum
  · rw [if_pos h, pamp_eq_permRec U s t h,
      ← slosCoef_eq_permRec U (expand s) t ht (by rw [expand_length, h])]
    ring
  · rw [if_neg h, pamp_zero_of_sum_ne U s t h]

/-! non-vacuity / regression: a non-symmetric 2-mode matrix, bunched output -/
def exU : Matrix (Fin 2) (Fin 2) GQ := fun i j => if i = j then ⟨3/5, 0⟩ else ⟨0, 4/5⟩

example : slosPamp exU [1, 1] [2, 0] = ⟨0, 24/25⟩ := by decide +kernel

example : bulkStates 3 [1, 1, 0] [[some 1, none, none]] = [[1, 1, 0], [1, 0, 1]] := by
  decide +kernel

/-! ### Fock-space composition, normalisation, permutations (`Lemmas/FockComp.lean`) -/

/-- **Fock-space composition law** (Cauchy–Binet for permanents): the amplitudes of `A * B` are the
composition of those of `B` (applied first) and `A`, summed over the intermediate states of the same
photon number with weight `1/∏uᵢ!`.  Any field of characteristic zero, in particular `ℂ`. -/
theorem fock_comp [Field R] [CharZero R] {m : ℕ} (A B : Matrix (Fin m) (Fin m) R) (s t : List ℕ)
    (hs : s.length = m) (ht : t.length = m) (hst : s.sum = t.sum) :
    pamp (A * B) s t =
      ((allStates m s.sum).map fun u => pamp A u t * pamp B s u / (prodFact u : R)).sum :=
  FockComp.pamp_mul_list A B s t hs ht hst

/-- the same at the executable instance `ℚ[i]` (a commutative ring, not a field in this project) -/
theorem fock_comp_GQ {m : ℕ} (A B : Matrix (Fin m) (Fin m) GQ) (s t : List ℕ)
    (hs : s.length = m) (ht : t.length = m) (hst : s.sum = t.sum) :
    pamp (A * B) s t =
      ((allStates m s.sum).map fun u =>
        pamp A u t * pamp B s u * GQ.ofRat (1 / (prodFact u : ℚ))).sum :=
  FockComp.pamp_mul_GQ A B s t hs ht hst

/-- **a full output distribution sums to one** over exactly the states with the input photon number,
for every unitary matrix, every (bunched) input — over any `*`-field of characteristic zero -/
theorem dist_sums_to_one [Field R] [CharZero R] [StarRing R] {m : ℕ}
    (U : Matrix (Fin m) (Fin m) R) (hU : IsUnitary U) (s : List ℕ) (hs : s.length = m) :
    ((allStates m s.sum).map fun t =>
      pamp U s t * star (pamp U s t) / ((prodFact s : R) * (prodFact t : R))).sum = 1 :=
  FockComp.sum_prob_eq_one_list U hU s hs

/-- … and for the executable probabilities `prob U s t = |pamp|²/(∏s!∏t!)` over `ℚ[i]` -/
theorem dist_sums_to_one_GQ {m : ℕ} (U : Matrix (Fin m) (Fin m) GQ) (hU : IsUnitary U)
    (s : List ℕ) (hs : s.length = m) : ((allStates m s.sum).map (prob U s)).sum = 1 :=
  FockComp.sum_prob_GQ U hU s hs

/-- the identity circuit leaves every Fock state alone -/
theorem pamp_identity [CommRing R] {m : ℕ} (s t : List ℕ) (hs : s.length = m) (ht : t.length = m)
    (hst : s.sum = t.sum) :
    pamp (1 : Matrix (Fin m) (Fin m) R) s t = if t = s then (prodFact s : R) else 0 :=
  FockComp.pamp_one s t hs ht hst

/-- amplitudes of the adjoint circuit are the conjugates of the reversed amplitudes -/
theorem pamp_adjoint [CommRing R] [StarRing R] {m : ℕ} (U : Matrix (Fin m) (Fin m) R)
    (s t : List ℕ) : pamp Uᴴ t s = star (pamp U s t) :=
  FockComp.pamp_conjTranspose U s t

/-- **`PERM.apply` is sound**: Fock evolution by a permutation matrix (`u[φ j, j] = 1`) is the
relabelling of the state — photons of mode `j` move to mode `φ j`, amplitude one (un-normalised:
`∏ sᵢ!`), every other output has amplitude zero; any photon number. -/
theorem perm_relabel [CommRing R] {m : ℕ} (φ ψ : Fin m → Fin m) (hφψ : ∀ x, φ (ψ x) = x)
    (hψφ : ∀ x, ψ (φ x) = x) (s t : List ℕ) (hs : s.length = m) (ht : t.length = m)
    (hst : s.sum = t.sum) :
    pamp (permMatF (R := R) φ) s t =
      if t = List.ofFn (fun a : Fin m => s.getD (ψ a).val 0) then (prodFact s : R) else 0 :=
  FockComp.pamp_permMatF_of_inverse φ ψ hφψ hψφ s t hs ht hst

/-! ### the step-by-step simulator -/

/-- one step of the step-by-step simulator on the table of (un-normalised) amplitudes `f` of the
`n`-photon space: push every intermediate state `u` through the component `A` -/
def stepAmps [Field R] {m : ℕ} (A : Matrix (Fin m) (Fin m) R) (n : ℕ) (f : List ℕ → R)
    (t : List ℕ) : R :=
  ((allStates m n).map fun u => pamp A u t * f u / (prodFact u : R)).sum

/-- component-by-component propagation, components in the order they are applied -/
def propagate [Field R] {m : ℕ} (Us : List (Matrix (Fin m) (Fin m) R)) (s : List ℕ) :
    List ℕ → R :=
  Us.foldl (fun f A => stepAmps A s.sum f) (fun t => pamp (1 : Matrix (Fin m) (Fin m) R) s t)

/-- the matrix of the same component list (`_compute_circuit_unitary`: each component multiplies on
the left) -/
def circuitMatrix [CommRing R] {m : ℕ} (Us : List (Matrix (Fin m) (Fin m) R)) :
    Matrix (Fin m) (Fin m) R :=
  Us.foldl (fun M A => A * M) 1

theorem propagate_aux [Field R] [CharZero R] {m : ℕ} (Us : List (Matrix (Fin m) (Fin m) R))
    (s : List ℕ) (hs : s.length = m) (f : List ℕ → R) (M : Matrix (Fin m) (Fin m) R)
    (hf : ∀ t ∈ allStates m s.sum, f t = pamp M s t) :
    ∀ t ∈ allStates m s.sum,
      Us.foldl (fun f A => stepAmps A s.sum f) f t = pamp (Us.foldl (fun M A => A * M) M) s t := by
  induction Us generalizing f M with
  | nil => simpa using hf
  | cons A rest ih =>
    intro t ht
    simp only [List.foldl_cons]
    apply ih (stepAmps A s.sum f) (A * M) _ t ht
    intro t' ht'
    obtain ⟨hl, hn⟩ := (mem_allStates_iff m s.sum t').1 ht'
    rw [fock_comp A M s t' hs hl hn.symm]
    unfold stepAmps
    apply congrArg
    apply List.map_congr_left
    intro u hu
    rw [hf u hu]

/-- **the step-by-step simulator is sound**: propagating the input through the components one after
the other, over the full intermediate Fock space, yields exactly the amplitudes of the circuit's
matrix — for every component list, every input and output, every photon number -/
theorem stepper_sound [Field R] [CharZero R] {m : ℕ} (Us : List (Matrix (Fin m) (Fin m) R))
    (s t : List ℕ) (hs : s.length = m) (ht : t.length = m) (hst : s.sum = t.sum) :
    propagate Us s t = pamp (circuitMatrix Us) s t :=
  propagate_aux Us s hs _ 1 (fun _ _ => rfl) t ((mem_allStates_iff m s.sum t).2 ⟨ht, hst.symm⟩)


/-- non-vacuity: the hypotheses of `dist_sums_to_one_GQ` / `fock_comp_GQ` are met by a concrete
non-symmetric unitary and a bunched two-photon space -/
example : IsUnitary exU ∧ ([1, 1] : List ℕ).length = 2 ∧ ([2, 0] : List ℕ) ∈ allStates 2 2 :=
  ⟨by unfold IsUnitary; decide +kernel, rfl, by decide⟩

/-!
Not proved: nothing of the design's stretch list remains open.  What stays outside any theorem: the
engines' native kernels (permanent, SLOS/SLAP layers, MPS contraction, `StateVector`) are external
code — for them the model *is* the specification and agreement is established by the correspondence
only; and the `1/√(∏s!∏t!)` normalisation is irrational, so theorems are about `pamp` and `|pamp|²`.
-/

end PM.C02
