/-
  C02 — property theorems.  Specification: `Found/Fock.lean`; code models: `Model/C02.lean`.
  What is *not* proved here is said at the end of the file.
-/
import PercevalModel.Model.C02
import PercevalModel.Lemmas.C02

open Matrix

namespace PM.C02
open PM.Fock

variable {R : Type*}

/-- amplitudes between states of different photon number vanish -/
theorem pamp_zero_of_sum_ne [CommRing R] {m : ℕ} (U : Matrix (Fin m) (Fin m) R) (s t : List ℕ)
    (h : s.sum ≠ t.sum) : pamp U s t = 0 := by
  simp [pamp, h]

/-- `NaiveBackend._compute_submatrix`: the repetition loops build exactly `U[t|s]` -/
theorem subMatLoop_eq_subMat [Zero R] {m : ℕ} (U : Matrix (Fin m) (Fin m) R) (s t : List ℕ)
    (hst : s.sum = t.sum) (i j : Fin s.sum) :
    subMatLoop U s t i.val j.val = subMat U s t i j := by
  have hj : j.val < (expand s).length := by rw [expand_length]; exact j.isLt
  have hi : i.val < (expand t).length := by rw [expand_length, ← hst]; exact i.isLt
  simp only [subMatLoop, subMatLoopCols, subMat, List.getD_eq_getElem?_getD, List.getElem?_map,
    List.getElem?_eq_getElem hj, List.getElem?_eq_getElem hi, Option.map_some, Option.getD_some]

/-- the Naive engine's amplitude (with its size-0/size-1 shortcuts) is the specification -/
theorem naivePamp_eq_pamp [CommRing R] {m : ℕ} (U : Matrix (Fin m) (Fin m) R) (s t : List ℕ) :
    naivePamp U s t = pamp U s t := by
  unfold naivePamp pamp
  by_cases hst : s.sum = t.sum
  · simp only [hst, ne_eq, not_true_eq_false, ↓reduceIte]
    by_cases h0 : t.sum = 0
    · simp only [h0, ↓reduceIte]
      have : IsEmpty (Fin s.sum) := by rw [hst, h0]; infer_instance
      rw [Matrix.permanent_isEmpty]
    · simp only [h0, ↓reduceIte]
      congr 1
      funext i j
      exact subMatLoop_eq_subMat U s t hst i j
  · simp [hst]

/-- bulk results are listed over exactly the states of the input photon number that the masks
keep — each exactly once, in the order of the full enumeration -/
theorem bulk_states_spec (m : ℕ) (s : List ℕ) (masks : List (List (Option ℕ))) :
    (∀ t, t ∈ bulkStates m s masks ↔ t.length = m ∧ t.sum = s.sum ∧ masksOk masks 0 t = true) ∧
    (bulkStates m s masks).Nodup ∧
    (bulkStates m s masks).Sublist (allStates m s.sum) := by
  refine ⟨fun t => ?_, ?_, ?_⟩
  · simp [bulkStates, allStatesMasked, mem_allStates_iff, and_assoc]
  · exact (allStates_nodup m s.sum).filter _
  · exact List.filter_sublist

/-- with a mask, the values on the kept states are the unmasked values (and nothing else is
listed): the masked distribution is the unmasked one filtered -/
theorem mask_restrict {m : ℕ} (U : Matrix (Fin m) (Fin m) GQ) (s : List ℕ)
    (masks : List (List (Option ℕ))) :
    probDistribution U s masks =
      (probDistribution U s []).filter (fun p => masksOk masks 0 p.1) := by
  simp only [probDistribution, bulkStates, allStatesMasked, List.filter_map]
  congr 1
  rw [List.filter_filter]
  apply List.filter_congr
  intro t _
  simp [masksOk, Function.comp]

/-- `all_prob` lists the same numbers as `prob_distribution`, in the same order -/
theorem allProb_eq_probDistribution {m : ℕ} (U : Matrix (Fin m) (Fin m) GQ) (s : List ℕ)
    (masks : List (List (Option ℕ))) :
    allProb U s masks = (probDistribution U s masks).map Prod.snd := by
  simp [allProb, probDistribution, Function.comp_def]

/-- vacuum goes to vacuum with amplitude one -/
theorem pamp_vacuum [CommRing R] {m : ℕ} (U : Matrix (Fin m) (Fin m) R) (s t : List ℕ)
    (hs : s.sum = 0) (ht : t.sum = 0) : pamp U s t = 1 := by
  have : IsEmpty (Fin s.sum) := by rw [hs]; infer_instance
  simp [pamp, hs, ht, Matrix.permanent_isEmpty]

/-- one photon: the amplitude is the matrix entry (`fock_comp_partial`: for a single photon,
composition of circuits is matrix multiplication) -/
theorem pamp_single [CommRing R] {m : ℕ} (U : Matrix (Fin m) (Fin m) R) (s t : List ℕ)
    (hs : s.sum = 1) (ht : t.sum = 1) :
    pamp U s t = entry U ((expand t).getD 0 0) ((expand s).getD 0 0) := by
  unfold pamp
  rw [if_pos (by rw [hs, ht])]
  have hc : Fintype.card (Fin s.sum) = 1 := by simp [hs]
  rw [Matrix.permanent_eq_elem_of_card_eq_one hc ⟨0, by omega⟩]
  rfl

/-- the specification amplitude, evaluated by Laplace expansion over lists -/
theorem pamp_eq_permRec [CommRing R] {m : ℕ} (U : Matrix (Fin m) (Fin m) R) (s t : List ℕ)
    (h : s.sum = t.sum) : pamp U s t = permRec (entry U) (expand t) (expand s) := by
  rw [permRec_eq_permanent _ _ _ (by rw [expand_length, expand_length, h])]
  unfold pamp
  rw [if_pos h, ← permanent_submatrix_equiv_self (finCongr (expand_length s).symm)]
  rfl

/-- **SLOS = boson-sampling amplitude**, for every photon number, every (bunched) input and
output: the layered polynomial-coefficient recursion `coef(t + e_j) += coef(t)·U[j, c_k]`, rescaled
by `∏ t!`, is `perm(U[t|s])`. -/
theorem slosPamp_eq_pamp [CommRing R] {m : ℕ} (U : Matrix (Fin m) (Fin m) R) (s t : List ℕ)
    (ht : t.length = m) : slosPamp U s t = pamp U s t := by
  unfold slosPamp
  by_cases h : s.sum = t.sum
  · rw [if_pos h, pamp_eq_permRec U s t h,
      ← slosCoef_eq_permRec U (expand s) t ht (by rw [expand_length, h])]
    ring
  · rw [if_neg h, pamp_zero_of_sum_ne U s t h]

/-! non-vacuity / regression: a non-symmetric 2-mode matrix, bunched output -/
def exU : Matrix (Fin 2) (Fin 2) GQ := fun i j => if i = j then ⟨3/5, 0⟩ else ⟨0, 4/5⟩

example : slosPamp exU [1, 1] [2, 0] = ⟨0, 24/25⟩ := by decide +kernel

example : bulkStates 3 [1, 1, 0] [[some 1, none, none]] = [[1, 1, 0], [1, 0, 1]] := by
  decide +kernel

/-!
Not proved (stated here so the gap is visible; validated by the correspondence only):
* `fock_comp`: amplitudes of `V * U` are the Fock-space composition of those of `V` and `U`
  (what makes the step-by-step simulator and MPS sound), hence `∑_t prob U s t = 1` for unitary `U`;
* `pamp (permMat σ) s t = if t = permApply σ 0 s then ∏ sᵢ! else 0` for `n > 1`.
The engines' native kernels (permanent, SLOS/SLAP layers, MPS contraction) are external code.
-/

end PM.C02
