/-
  C02 — property theorems.  Specification: `Found/Fock.lean`; code models: `Model/C02.lean`.
  What is *not* proved here is said at the end of the file.
-/
import PercevalModel.Model.C02
import PercevalModel.Lemmas.C02
import PercevalModel.Lemmas.FockComp
import PercevalModel.Lemmas.C02Mps
import PercevalModel.Lemmas.C02Step
import PercevalModel.Lemmas.C02Perm
import PercevalModel.Lemmas.C02Sess
import PercevalModel.Lemmas.C02SessK
import PercevalModel.Lemmas.C02More
import PercevalModel.Lemmas.C02W10
import Mathlib.Algebra.Star.Basic
import Mathlib.Tactic.FieldSimp

open Matrix

namespace PM.C02
open PM.Fock

variable {R : Type*}

/-- amplitudes between states of different photon number vanish -/
theorem pamp_zero_of_sum_ne [CommRing R] {m : ℕ} (U : Matrix (Fin m) (Fin m) R) (s t : List ℕ)
    (h : s.sum ≠ t.sum) : pamp U s t = 0 := by
  simp [pamp, h]

/-- `NaiveBackend._compute_submatrix`: the repetition loops build exactly `U[t|s]` -/
theorem subMatLoop_eq_subMat [Zero R] {m : ℕ} (U : Matrix (Fin m) (Fin m) R) (s t : List ℕ)
    (hst : s.sum = t.sum) (i j : Fin s.sum) :
    subMatLoop U s t i.val j.val = subMat U s t i j := by
  have hj : j.val < (expand s).length := by rw [expand_length]; exact j.isLt
  have hi : i.val < (expand t).length := by rw [expand_length, ← hst]; exact i.isLt
  simp only [subMatLoop, subMatLoopCols, subMat, List.getD_eq_getElem?_getD, List.getElem?_map,
    List.getElem?_eq_getElem hj, List.getElem?_eq_getElem hi, Option.map_some, Option.getD_some]

/-- the Naive engine's amplitude (with its size-0/size-1 shortcuts) is the specification -/
theorem naivePamp_eq_pamp [CommRing R] {m : ℕ} (U : Matrix (Fin m) (Fin m) R) (s t : List ℕ) :
    naivePamp U s t = pamp U s t := by
  unfold naivePamp pamp
  by_cases hst : s.sum = t.sum
  · simp only [hst, ne_eq, not_true_eq_false, ↓reduceIte]
    by_cases h0 : t.sum = 0
    · simp only [h0, ↓reduceIte]
      have : IsEmpty (Fin s.sum) := by rw [hst, h0]; infer_instance
      rw [Matrix.permanent_isEmpty]
    · simp only [h0, ↓reduceIte]
      congr 1
      funext i j
      exact subMatLoop_eq_subMat U s t hst i j
  · simp [hst]

/-- bulk results are listed over exactly the states of the input photon number that the masks
keep — each exactly once, in the order of the full enumeration -/
theorem bulk_states_spec (m : ℕ) (s : List ℕ) (masks : List (List (Option ℕ))) :
    (∀ t, t ∈ bulkStates m s masks ↔ t.length = m ∧ t.sum = s.sum ∧ masksOk masks 0 t = true) ∧
    (bulkStates m s masks).Nodup ∧
    (bulkStates m s masks).Sublist (allStates m s.sum) := by
  refine ⟨fun t => ?_, ?_, ?_⟩
  · simp [bulkStates, allStatesMasked, mem_allStates_iff, and_assoc]
  · exact (allStates_nodup m s.sum).filter _
  · exact List.filter_sublist

/-- with a mask, the values on the kept states are the unmasked values (and nothing else is
listed): the masked distribution is the unmasked one filtered -/
theorem mask_restrict {m : ℕ} (U : Matrix (Fin m) (Fin m) GQ) (s : List ℕ)
    (masks : List (List (Option ℕ))) :
    probDistribution U s masks =
      (probDistribution U s []).filter (fun p => masksOk masks 0 p.1) := by
  simp only [probDistribution, bulkStates, allStatesMasked, List.filter_map]
  congr 1
  rw [List.filter_filter]
  apply List.filter_congr
  intro t _
  simp [masksOk, Function.comp]

/-- `all_prob` lists the same numbers as `prob_distribution`, in the same order -/
theorem allProb_eq_probDistribution {m : ℕ} (U : Matrix (Fin m) (Fin m) GQ) (s : List ℕ)
    (masks : List (List (Option ℕ))) :
    allProb U s masks = (probDistribution U s masks).map Prod.snd := by
  simp [allProb, probDistribution, Function.comp_def]

/-- vacuum goes to vacuum with amplitude one -/
theorem pamp_vacuum [CommRing R] {m : ℕ} (U : Matrix (Fin m) (Fin m) R) (s t : List ℕ)
    (hs : s.sum = 0) (ht : t.sum = 0) : pamp U s t = 1 := by
  have : IsEmpty (Fin s.sum) := by rw [hs]; infer_instance
  simp [pamp, hs, ht, Matrix.permanent_isEmpty]

/-- one photon: the amplitude is the matrix entry (`fock_comp_partial`: for a single photon,
composition of circuits is matrix multiplication) -/
theorem pamp_single [CommRing R] {m : ℕ} (U : Matrix (Fin m) (Fin m) R) (s t : List ℕ)
    (hs : s.sum = 1) (ht : t.sum = 1) :
    pamp U s t = entry U ((expand t).getD 0 0) ((expand s).getD 0 0) := by
  unfold pamp
  rw [if_pos (by rw [hs, ht])]
  have hc : Fintype.card (Fin s.sum) = 1 := by simp [hs]
  rw [Matrix.permanent_eq_elem_of_card_eq_one hc ⟨0, by omega⟩]
  rfl

/-- the specification amplitude, evaluated by Laplace expansion over lists -/
theorem pamp_eq_permRec [CommRing R] {m : ℕ} (U : Matrix (Fin m) (Fin m) R) (s t : List ℕ)
    (h : s.sum = t.sum) : pamp U s t = permRec (entry U) (expand t) (expand s) := by
  rw [permRec_eq_permanent _ _ _ (by rw [expand_length, expand_length, h])]
  unfold pamp
  rw [if_pos h, ← permanent_submatrix_equiv_self (finCongr (expand_length s).symm)]
  rfl

/-- **SLOS = boson-sampling amplitude**, for every photon number, every (bunched) input and
output: the layered polynomial-coefficient recursion `coef(t + e_j) += coef(t)·U[j, c_k]`, rescaled
by `∏ t!`, is `perm(U[t|s])`. -/
theorem slosPamp_eq_pamp [CommRing R] {m : ℕ} (U : Matrix (Fin m) (Fin m) R) (s t : List ℕ)
    (ht : t.length = m) : slosPamp U s t = pamp U s t := by
  unfold slosPamp
  by_cases h : s.sum = t.sum
  · rw [if_pos h, pamp_eq_permRec U s t h,
      ← slosCoef_eq_permRec U (expand s) t ht (by rw [expand_length, h])]
    ring
  · rw [if_neg h, pamp_zero_of_sum_ne U s t h]

/-! non-vacuity / regression: a non-symmetric 2-mode matrix, bunched output -/
def exU : Matrix (Fin 2) (Fin 2) GQ := fun i j => if i = j then ⟨3/5, 0⟩ else ⟨0, 4/5⟩

example : slosPamp exU [1, 1] [2, 0] = ⟨0, 24/25⟩ := by decide +kernel

example : bulkStates 3 [1, 1, 0] [[some 1, none, none]] = [[1, 1, 0], [1, 0, 1]] := by
  decide +kernel

/-! ### Fock-space composition, normalisation, permutations (`Lemmas/FockComp.lean`) -/

/-- **Fock-space composition law** (Cauchy–Binet for permanents): the amplitudes of `A * B` are the
composition of those of `B` (applied first) and `A`, summed over the intermediate states of the same
photon number with weight `1/∏uᵢ!`.  Any field of characteristic zero, in particular `ℂ`. -/
theorem fock_comp [Field R] [CharZero R] {m : ℕ} (A B : Matrix (Fin m) (Fin m) R) (s t : List ℕ)
    (hs : s.length = m) (ht : t.length = m) (hst : s.sum = t.sum) :
    pamp (A * B) s t =
      ((allStates m s.sum).map fun u => pamp A u t * pamp B s u / (prodFact u : R)).sum :=
  FockComp.pamp_mul_list A B s t hs ht hst

/-- the same at the executable instance `ℚ[i]` (a commutative ring, not a field in this project) -/
theorem fock_comp_GQ {m : ℕ} (A B : Matrix (Fin m) (Fin m) GQ) (s t : List ℕ)
    (hs : s.length = m) (ht : t.length = m) (hst : s.sum = t.sum) :
    pamp (A * B) s t =
      ((allStates m s.sum).map fun u =>
        pamp A u t * pamp B s u * GQ.ofRat (1 / (prodFact u : ℚ))).sum :=
  FockComp.pamp_mul_GQ A B s t hs ht hst

/-- **a full output distribution sums to one** over exactly the states with the input photon number,
for every unitary matrix, every (bunched) input — over any `*`-field of characteristic zero -/
theorem dist_sums_to_one [Field R] [CharZero R] [StarRing R] {m : ℕ}
    (U : Matrix (Fin m) (Fin m) R) (hU : IsUnitary U) (s : List ℕ) (hs : s.length = m) :
    ((allStates m s.sum).map fun t =>
      pamp U s t * star (pamp U s t) / ((prodFact s : R) * (prodFact t : R))).sum = 1 :=
  FockComp.sum_prob_eq_one_list U hU s hs

/-- … and for the executable probabilities `prob U s t = |pamp|²/(∏s!∏t!)` over `ℚ[i]` -/
theorem dist_sums_to_one_GQ {m : ℕ} (U : Matrix (Fin m) (Fin m) GQ) (hU : IsUnitary U)
    (s : List ℕ) (hs : s.length = m) : ((allStates m s.sum).map (prob U s)).sum = 1 :=
  FockComp.sum_prob_GQ U hU s hs

/-- the identity circuit leaves every Fock state alone -/
theorem pamp_identity [CommRing R] {m : ℕ} (s t : List ℕ) (hs : s.length = m) (ht : t.length = m)
    (hst : s.sum = t.sum) :
    pamp (1 : Matrix (Fin m) (Fin m) R) s t = if t = s then (prodFact s : R) else 0 :=
  FockComp.pamp_one s t hs ht hst

/-- amplitudes of the adjoint circuit are the conjugates of the reversed amplitudes -/
theorem pamp_adjoint [CommRing R] [StarRing R] {m : ℕ} (U : Matrix (Fin m) (Fin m) R)
    (s t : List ℕ) : pamp Uᴴ t s = star (pamp U s t) :=
  FockComp.pamp_conjTranspose U s t

/-- **`PERM.apply` is sound**: Fock evolution by a permutation matrix (`u[φ j, j] = 1`) is the
relabelling of the state — photons of mode `j` move to mode `φ j`, amplitude one (un-normalised:
`∏ sᵢ!`), every other output has amplitude zero; any photon number. -/
theorem perm_relabel [CommRing R] {m : ℕ} (φ ψ : Fin m → Fin m) (hφψ : ∀ x, φ (ψ x) = x)
    (hψφ : ∀ x, ψ (φ x) = x) (s t : List ℕ) (hs : s.length = m) (ht : t.length = m)
    (hst : s.sum = t.sum) :
    pamp (permMatF (R := R) φ) s t =
      if t = List.ofFn (fun a : Fin m => s.getD (ψ a).val 0) then (prodFact s : R) else 0 :=
  FockComp.pamp_permMatF_of_inverse φ ψ hφψ hψφ s t hs ht hst

/-! ### the step-by-step simulator -/

/-- one step of the step-by-step simulator on the table of (un-normalised) amplitudes `f` of the
`n`-photon space: push every intermediate state `u` through the component `A` -/
def stepAmps [Field R] {m : ℕ} (A : Matrix (Fin m) (Fin m) R) (n : ℕ) (f : List ℕ → R)
    (t : List ℕ) : R :=
  ((allStates m n).map fun u => pamp A u t * f u / (prodFact u : R)).sum

/-- component-by-component propagation, components in the order they are applied -/
def propagate [Field R] {m : ℕ} (Us : List (Matrix (Fin m) (Fin m) R)) (s : List ℕ) :
    List ℕ → R :=
  Us.foldl (fun f A => stepAmps A s.sum f) (fun t => pamp (1 : Matrix (Fin m) (Fin m) R) s t)

/-- the matrix of the same component list (`_compute_circuit_unitary`: each component multiplies on
the left) -/
def circuitMatrix [CommRing R] {m : ℕ} (Us : List (Matrix (Fin m) (Fin m) R)) :
    Matrix (Fin m) (Fin m) R :=
  Us.foldl (fun M A => A * M) 1

theorem propagate_aux [Field R] [CharZero R] {m : ℕ} (Us : List (Matrix (Fin m) (Fin m) R))
    (s : List ℕ) (hs : s.length = m) (f : List ℕ → R) (M : Matrix (Fin m) (Fin m) R)
    (hf : ∀ t ∈ allStates m s.sum, f t = pamp M s t) :
    ∀ t ∈ allStates m s.sum,
      Us.foldl (fun f A => stepAmps A s.sum f) f t = pamp (Us.foldl (fun M A => A * M) M) s t := by
  induction Us generalizing f M with
  | nil => simpa using hf
  | cons A rest ih =>
    intro t ht
    simp only [List.foldl_cons]
    apply ih (stepAmps A s.sum f) (A * M) _ t ht
    intro t' ht'
    obtain ⟨hl, hn⟩ := (mem_allStates_iff m s.sum t').1 ht'
    rw [fock_comp A M s t' hs hl hn.symm]
    unfold stepAmps
    apply congrArg
    apply List.map_congr_left
    intro u hu
    rw [hf u hu]

/-- **the step-by-step simulator is sound**: propagating the input through the components one after
the other, over the full intermediate Fock space, yields exactly the amplitudes of the circuit's
matrix — for every component list, every input and output, every photon number -/
theorem stepper_sound [Field R] [CharZero R] {m : ℕ} (Us : List (Matrix (Fin m) (Fin m) R))
    (s t : List ℕ) (hs : s.length = m) (ht : t.length = m) (hst : s.sum = t.sum) :
    propagate Us s t = pamp (circuitMatrix Us) s t :=
  propagate_aux Us s hs _ 1 (fun _ _ => rfl) t ((mem_allStates_iff m s.sum t).2 ⟨ht, hst.symm⟩)


/-- non-vacuity: the hypotheses of `dist_sums_to_one_GQ` / `fock_comp_GQ` are met by a concrete
non-symmetric unitary and a bunched two-photon space -/
example : IsUnitary exU ∧ ([1, 1] : List ℕ).length = 2 ∧ ([2, 0] : List ℕ) ∈ allStates 2 2 :=
  ⟨by unfold IsUnitary; decide +kernel, rfl, by decide⟩

/-! ### MPS: the closed formulas of the transition tensors (`Lemmas/C02Mps.lean`) -/

/-- **`MPSBackend._transition_matrix_1_mode` is the one-mode specification**: on the `i`-photon
component a phase shifter `(u)` acts as `u^i`; `⟨j|u|i⟩ = pamp/√(i! j!)` and `pamp = i!·u^i·[i = j]`,
every photon number below the tensor's side `d` -/
theorem mps_tm1_eq_pamp [CommRing R] (U : Matrix (Fin 1) (Fin 1) R) (d i j : ℕ) (hi : i < d)
    (hj : j < d) : ((i.factorial : ℕ) : R) * tm1 U d i j = pamp U [i] [j] :=
  tm1_mul_eq_pamp U d i j hi hj

/-- **`MPSBackend._transition_matrix_2_mode` is the two-mode specification**: the explicit double
binomial sum of the code for `|n1,n2> → |m1,m2>` under the block `U` (a photon entering mode `j`
leaves in mode `i` with amplitude `U i j`), times `m1! m2!`, is `perm(U[(m1,m2)|(n1,n2)])` — for
*every* 2×2 matrix over a commutative ring (unitary or not) and all photon numbers within the
tensor (`n1 + n2 ≤ nmax`); in particular it vanishes when `n1 + n2 ≠ m1 + m2` -/
theorem mps_tm2_eq_pamp [CommRing R] (U : Matrix (Fin 2) (Fin 2) R) (nmax n1 n2 m1 m2 : ℕ)
    (hn : n1 + n2 ≤ nmax) :
    ((m1.factorial * m2.factorial : ℕ) : R) * tm2 U nmax n1 n2 m1 m2 =
      pamp U [n1, n2] [m1, m2] :=
  tm2_mul_eq_pamp U nmax n1 n2 m1 m2 hn

/-- rows of the tensor for more photons than the compiled input carries are left empty -/
theorem mps_tm2_beyond [CommRing R] (U : Matrix (Fin 2) (Fin 2) R) (nmax n1 n2 m1 m2 : ℕ)
    (hn : nmax < n1 + n2) : tm2 U nmax n1 n2 m1 m2 = 0 := by
  unfold tm2
  rw [if_neg (by omega)]

/-- the tensor entry as the code stores it — the double sum times `√(m1! m2!) / √(n1! n2!)` — is the
documented amplitude `perm / √(n1! n2! m1! m2!)`: in any field of characteristic zero, for any
elements `rn`, `rm` whose squares are the two factorial products (the square roots in `ℂ`) -/
theorem mps_tm2_normalised [Field R] [CharZero R] (U : Matrix (Fin 2) (Fin 2) R)
    (nmax n1 n2 m1 m2 : ℕ) (hn : n1 + n2 ≤ nmax) (rn rm : R)
    (hrn : rn * rn = ((n1.factorial * n2.factorial : ℕ) : R))
    (hrm : rm * rm = ((m1.factorial * m2.factorial : ℕ) : R)) :
    tm2 U nmax n1 n2 m1 m2 * rm / rn = pamp U [n1, n2] [m1, m2] / (rn * rm) := by
  have hn0 : rn ≠ 0 := by
    intro h
    rw [h, mul_zero] at hrn
    exact (Nat.cast_ne_zero.2 (Nat.mul_ne_zero (Nat.factorial_ne_zero _)
      (Nat.factorial_ne_zero _))) hrn.symm
  have hm0 : rm ≠ 0 := by
    intro h
    rw [h, mul_zero] at hrm
    exact (Nat.cast_ne_zero.2 (Nat.mul_ne_zero (Nat.factorial_ne_zero _)
      (Nat.factorial_ne_zero _))) hrm.symm
  rw [← mps_tm2_eq_pamp U nmax n1 n2 m1 m2 hn, ← hrm]
  field_simp

/-! regression / non-vacuity: the non-symmetric block, bunched output; the transposed block gives
another value (the defect already repaired in /repo) -/
def exV : Matrix (Fin 2) (Fin 2) GQ := fun i j =>
  if i = 0 ∧ j = 0 then ⟨3/5, 0⟩ else if i = 0 ∧ j = 1 then ⟨0, 4/5⟩
  else if i = 1 ∧ j = 0 then ⟨4/5, 0⟩ else ⟨0, 3/5⟩

example : tm2 exV 3 2 1 3 0 = ⟨0, 36/125⟩ := by decide +kernel
example : tm2 exVᵀ 3 2 1 3 0 ≠ tm2 exV 3 2 1 3 0 := by decide +kernel
example : tm1 (fun _ _ => (⟨0, 1⟩ : GQ)) 4 3 3 = ⟨0, -1⟩ := by decide +kernel

/-- **a two-mode block that does not mix its modes is two phases** (exactly degenerate component:
`BS(theta=0)`, `Unitary(diag(a, d))`): when both off-diagonal entries vanish the two-mode tensor is
the product of the one-mode tensors, of `U 0 0` on the upper mode and of `U 1 1` on the lower one —
so the only legitimate short-cut for such a block gives a photon in the lower mode the phase
`U 1 1`, not `U 0 0`; every commutative ring, every photon number within the tensor -/
theorem mps_tm2_diagonal [CommRing R] (U : Matrix (Fin 2) (Fin 2) R) (h01 : U 0 1 = 0)
    (h10 : U 1 0 = 0) (nmax n1 n2 m1 m2 : ℕ) (hn : n1 + n2 ≤ nmax) :
    tm2 U nmax n1 n2 m1 m2 =
      tm1 (fun _ _ => U 0 0) (nmax + 1) n1 m1 * tm1 (fun _ _ => U 1 1) (nmax + 1) n2 m2 := by
  unfold tm2 tm1
  rw [if_pos hn, Finset.sum_eq_single n1, Finset.sum_eq_single 0]
  · by_cases h1 : n1 = m1 <;> by_cases h2 : n2 = m2
    · subst h1; subst h2
      rw [if_pos ⟨by omega, by omega⟩, if_pos ⟨by omega, by omega, rfl⟩,
        if_pos ⟨by omega, by omega, rfl⟩]
      simp
    · rw [if_neg (by omega)]; simp [h2]
    · rw [if_neg (by omega)]; simp [h1]
    · rw [if_neg (by omega)]; simp [h1]
  · intro k2 _ hk2
    split_ifs
    · rw [h01, zero_pow hk2]; ring
    · rfl
  · intro h; exact absurd (Finset.mem_range.2 (Nat.succ_pos _)) h
  · intro k1 hk1 hne
    have : n1 - k1 ≠ 0 := by have := Finset.mem_range.1 hk1; omega
    apply Finset.sum_eq_zero
    intro k2 _
    split_ifs
    · rw [h10, zero_pow this]; ring
    · rfl
  · intro h; exact absurd (Finset.mem_range.2 (Nat.lt_succ_self _)) h

/-- **an anti-diagonal two-mode block is a swap with phases** (`BS(theta=pi)`, the two-mode `PERM`,
`Unitary(antidiag)`): the `n1` photons of the upper mode all leave in the lower mode with `U 1 0`
each, the `n2` photons of the lower mode leave in the upper mode with `U 0 1` each -/
theorem mps_tm2_antidiagonal [CommRing R] (U : Matrix (Fin 2) (Fin 2) R) (h00 : U 0 0 = 0)
    (h11 : U 1 1 = 0) (nmax n1 n2 m1 m2 : ℕ) (hn : n1 + n2 ≤ nmax) :
    tm2 U nmax n1 n2 m1 m2 =
      tm1 (fun _ _ => U 1 0) (nmax + 1) n1 m2 * tm1 (fun _ _ => U 0 1) (nmax + 1) n2 m1 := by
  unfold tm2 tm1
  rw [if_pos hn, Finset.sum_eq_single 0, Finset.sum_eq_single n2]
  · by_cases h1 : n1 = m2 <;> by_cases h2 : n2 = m1
    · subst h1; subst h2
      rw [if_pos ⟨by omega, by omega⟩, if_pos ⟨by omega, by omega, rfl⟩,
        if_pos ⟨by omega, by omega, rfl⟩]
      simp
    · rw [if_neg (by omega)]; simp [h2]
    · rw [if_neg (by omega)]; simp [h1]
    · rw [if_neg (by omega)]; simp [h1]
  · intro k2 hk2 hne
    have : n2 - k2 ≠ 0 := by have := Finset.mem_range.1 hk2; omega
    split_ifs
    · rw [h11, zero_pow this]; ring
    · rfl
  · intro h; exact absurd (Finset.mem_range.2 (Nat.lt_succ_self _)) h
  · intro k1 _ hne
    apply Finset.sum_eq_zero
    intro k2 _
    split_ifs
    · rw [h00, zero_pow hne]; ring
    · rfl
  · intro h; exact absurd (Finset.mem_range.2 (Nat.succ_pos _)) h

/-! regression / non-vacuity for the degenerate blocks: `diag(1, -1)` (= `BS.H(theta=0)`); one photon
in the lower mode picks up `U 1 1 = -1` — an engine that reads `U 0 0` for it returns `+1` -/
def exD : Matrix (Fin 2) (Fin 2) GQ := fun i j =>
  if i = 0 ∧ j = 0 then ⟨1, 0⟩ else if i = 1 ∧ j = 1 then ⟨-1, 0⟩ else 0

example : exD 0 1 = 0 ∧ exD 1 0 = 0 ∧ tm2 exD 2 0 1 0 1 = ⟨-1, 0⟩ ∧
    tm1 (fun _ _ => exD 0 0) 3 1 1 ≠ tm2 exD 2 0 1 0 1 := by decide +kernel
example : exDᵀ.submatrix ![1, 0] id 0 0 = 0 ∧ tm2 (exD.submatrix ![1, 0] id) 2 1 1 1 1 = ⟨-1, 0⟩ := by
  decide +kernel

/-! ### the step-by-step simulator on the modes of each component (`Lemmas/C02Step.lean`,
`Lemmas/C02Embed.lean`) -/

/-- **spectators are untouched** (the lemma `stepper_sound` was missing): the amplitude of a component
`B` embedded at modes `o … o+k-1` of an `m`-mode circuit vanishes unless `t = s` on every other
mode, and then it is the amplitude of `B` alone between the slices times `∏ sⱼ!` of the other
modes — every commutative ring, every photon number -/
theorem embed_amplitude_local [CommRing R] {k m o : ℕ} (hk : o + k ≤ m)
    (B : Matrix (Fin k) (Fin k) R) (s t : List ℕ) (hs : s.length = m) (ht : t.length = m) :
    pamp (PM.embed m o B) s t =
      if ∀ j : Fin m, ¬ (o ≤ j.val ∧ j.val < o + k) → t.getD j.val 0 = s.getD j.val 0 then
        ((∏ j : Fin m with ¬ (o ≤ j.val ∧ j.val < o + k), (s.getD j.val 0).factorial : ℕ) : R) *
          pamp B (slice s o k) (slice t o k)
      else 0 :=
  Embed.pamp_embed_slice hk B s t hs ht

/-- **`Stepper.apply` = one full-space step with the embedded component**: replacing, in every state
of the vector, the slice of the component's modes by the outputs of the component alone (other modes
not looked at) gives exactly `stepAmps (embed M r0 B)` of the amplitudes — the restricted-mode
propagation and the full-size one of `stepper_sound` coincide -/
theorem stepper_apply_eq_stepAmps [Field R] [CharZero R] {M k r0 : ℕ} (hk : r0 + k ≤ M)
    (B : Matrix (Fin k) (Fin k) R) (n : ℕ) (sv : SV R) (hsv : KeysIn M n sv) (t : List ℕ)
    (ht : t.length = M) :
    svGet (stepperApply (fun v => ((prodFact v : R))⁻¹) B r0 sv) t =
      stepAmps (PM.embed M r0 B) n (svGet sv) t := by
  rw [stepperApply_eq_stepAmpsInv hk _
    (fun v => inv_mul_cancel₀ (Nat.cast_ne_zero.2 (FockComp.prodFact_ne_zero v))) B n sv hsv t ht]
  unfold stepAmpsInv stepAmps
  simp only [div_eq_mul_inv]

/-- **the step-by-step simulator as it is written is sound**: `Stepper.compile` — start from the
input state, for each component touch only the slice of its modes — yields for every output `t`
the amplitude of the circuit's full matrix; any component sizes and positions, any (bunched) input,
any photon number.  `inv` is any inverse of the factorial products (`(·)⁻¹` in a field, `gqInv`
in `ℚ[i]`). -/
theorem stepper_run_sound [CommRing R] {M : ℕ} (inv : List ℕ → R)
    (hinv : ∀ v, inv v * (prodFact v : R) = 1) (comps : List (Comp R)) (hfit : Fits M comps)
    (s t : List ℕ) (hs : s.length = M) (ht : t.length = M) (hst : s.sum = t.sum) :
    svGet (stepperRun inv comps s) t = pamp (compsMatrix M comps) s t := by
  have hmem : s ∈ allStates M s.sum := (mem_allStates_iff M s.sum s).2 ⟨hs, rfl⟩
  refine (stepperRun_aux inv hinv s hs comps hfit [(s, (prodFact s : R))] 1 ?_ ?_).2 t
    ((mem_allStates_iff M s.sum t).2 ⟨ht, hst.symm⟩)
  · intro p hp
    rw [List.mem_singleton.1 hp]
    exact hmem
  · intro u hu
    obtain ⟨hul, hun⟩ := (mem_allStates_iff M s.sum u).1 hu
    rw [pamp_identity s u hs hul hun.symm]
    simp [svGet, eq_comm]

/-- … its result has components only in the `(M, n)` space of the input -/
theorem stepper_run_keys [CommRing R] {M : ℕ} (inv : List ℕ → R)
    (hinv : ∀ v, inv v * (prodFact v : R) = 1) (comps : List (Comp R)) (hfit : Fits M comps)
    (s : List ℕ) (hs : s.length = M) : KeysIn M s.sum (stepperRun inv comps s) := by
  refine (stepperRun_aux inv hinv s hs comps hfit [(s, (prodFact s : R))] 1 ?_ ?_).1
  · intro p hp
    rw [List.mem_singleton.1 hp]
    exact (mem_allStates_iff M s.sum s).2 ⟨hs, rfl⟩
  · intro u hu
    obtain ⟨hul, hun⟩ := (mem_allStates_iff M s.sum u).1 hu
    rw [pamp_identity s u hs hul hun.symm]
    simp [svGet, eq_comm]

/-- the executable instance: `ℚ[i]` with `gqInv` -/
theorem stepper_run_sound_GQ {M : ℕ} (comps : List (Comp GQ)) (hfit : Fits M comps)
    (s t : List ℕ) (hs : s.length = M) (ht : t.length = M) (hst : s.sum = t.sum) :
    svGet (stepperRun FockComp.gqInv comps s) t = pamp (compsMatrix M comps) s t :=
  stepper_run_sound FockComp.gqInv FockComp.gqInv_mul comps hfit s t hs ht hst

/-- **the PERM shortcut is the generic step of the permutation block**: relabelling every state
(`PERM.apply`) gives the same amplitudes as `Stepper.apply` with the matrix `u[σ j, j] = 1` — any
permutation list, any position, any photon number -/
theorem stepper_perm_eq_block [CommRing R] {M k r0 : ℕ} (hk : r0 + k ≤ M) (inv : List ℕ → R)
    (hinv : ∀ v, inv v * (prodFact v : R) = 1) {σ : List ℕ} (h : IsPermList k σ) (n : ℕ)
    (sv : SV R) (hsv : KeysIn M n sv) (t : List ℕ) :
    svGet (stepperPerm σ r0 sv) t = svGet (stepperApply inv (permMatL (R := R) k σ) r0 sv) t :=
  svGet_stepperPerm hk inv hinv h n sv hsv t

/-- **`Stepper.compile` as written, PERM shortcut included, is sound**: for a circuit of blocks and
PERM components the final vector holds, for every output `t`, the amplitude of the circuit's full
matrix (product of the embedded blocks and embedded permutation matrices) -/
theorem stepper_runS_sound [CommRing R] {M : ℕ} (inv : List ℕ → R)
    (hinv : ∀ v, inv v * (prodFact v : R) = 1) (steps : List (Step R))
    (hfit : ∀ st ∈ steps, StepFits M st)
    (s t : List ℕ) (hs : s.length = M) (ht : t.length = M) (hst : s.sum = t.sum) :
    svGet (stepperRunS inv steps s) t = pamp (stepsMatrix M steps) s t := by
  have hmem : s ∈ allStates M s.sum := (mem_allStates_iff M s.sum s).2 ⟨hs, rfl⟩
  refine (stepperRunS_aux inv hinv s hs steps hfit [(s, (prodFact s : R))] 1 ?_ ?_).2 t
    ((mem_allStates_iff M s.sum t).2 ⟨ht, hst.symm⟩)
  · intro p hp
    rw [List.mem_singleton.1 hp]
    exact hmem
  · intro u hu
    obtain ⟨hul, hun⟩ := (mem_allStates_iff M s.sum u).1 hu
    rw [pamp_identity s u hs hul hun.symm]
    simp [svGet, eq_comm]

theorem stepper_runS_sound_GQ {M : ℕ} (steps : List (Step GQ))
    (hfit : ∀ st ∈ steps, StepFits M st)
    (s t : List ℕ) (hs : s.length = M) (ht : t.length = M) (hst : s.sum = t.sum) :
    svGet (stepperRunS FockComp.gqInv steps s) t = pamp (stepsMatrix M steps) s t :=
  stepper_runS_sound FockComp.gqInv FockComp.gqInv_mul steps hfit s t hs ht hst

/-- non-vacuity: a 3-cycle (not an involution) placed on modes 1..3 of four -/
example : StepFits (R := GQ) 4 (.perm 1 [1, 2, 0]) := ⟨by decide, by decide⟩

/-- non-vacuity: two overlapping two-mode components on three modes, bunched input -/
example : Fits 3 [(⟨2, 0, exV⟩ : Comp GQ), ⟨2, 1, exV⟩] ∧ ([2, 0, 1] : List ℕ).length = 3 := by
  refine ⟨?_, rfl⟩
  intro c hc
  simp only [List.mem_cons, List.not_mem_nil, or_false] at hc
  rcases hc with rfl | rfl <;> decide

/-! ### `evolve()`: masks and normalisation -/

/-- **masked `evolve` lists the unmasked amplitudes restricted to the kept states** (before the
`StateVector` normalises itself) -/
theorem evolve_mask_restrict [CommRing R] {m : ℕ} (U : Matrix (Fin m) (Fin m) R) (s : List ℕ)
    (masks : List (List (Option ℕ))) :
    evolveAmps U s masks = (evolveAmps U s []).filter (fun p => masksOk masks 0 p.1) := by
  simp only [evolveAmps, bulkStates, allStatesMasked, List.filter_map]
  congr 1
  rw [List.filter_filter]
  apply List.filter_congr
  intro t _
  simp [masksOk, Function.comp]

/-- the kept mass is the mass of the restricted distribution -/
theorem keptMass_eq {m : ℕ} (U : Matrix (Fin m) (Fin m) GQ) (s : List ℕ)
    (masks : List (List (Option ℕ))) :
    keptMass U s masks =
      (((probDistribution U s []).filter (fun p => masksOk masks 0 p.1)).map Prod.snd).sum := by
  rw [← mask_restrict, ← allProb_eq_probDistribution]
  rfl

/-- without a mask a unitary circuit keeps all the mass: the `StateVector` normalisation changes
nothing -/
theorem keptMass_unmasked {m : ℕ} (U : Matrix (Fin m) (Fin m) GQ) (hU : IsUnitary U)
    (s : List ℕ) (hs : s.length = m) : keptMass U s [] = 1 := by
  have h := dist_sums_to_one_GQ U hU s hs
  have hf : (allStates m s.sum).filter (masksOk [] 0) = allStates m s.sum :=
    List.filter_eq_self.2 fun t _ => rfl
  unfold keptMass bulkStates allStatesMasked
  rw [hf]
  exact h

theorem evolveProbs_unmasked {m : ℕ} (U : Matrix (Fin m) (Fin m) GQ) (hU : IsUnitary U)
    (s : List ℕ) (hs : s.length = m) : evolveProbs U s [] = probDistribution U s [] := by
  unfold evolveProbs probDistribution
  rw [keptMass_unmasked U hU s hs]
  simp

/-- **masked `evolve` = restricted and renormalised by the kept mass**: the squared moduli of the
normalised result are the unmasked probabilities of the kept states divided by the kept mass … -/
theorem evolveProbs_eq {m : ℕ} (U : Matrix (Fin m) (Fin m) GQ) (s : List ℕ)
    (masks : List (List (Option ℕ))) :
    evolveProbs U s masks =
      ((probDistribution U s []).filter (fun p => masksOk masks 0 p.1)).map
        fun p => (p.1, p.2 / keptMass U s masks) := by
  rw [← mask_restrict]
  simp [evolveProbs, probDistribution, Function.comp_def]

/-- … and they sum to one whenever the mask keeps some mass -/
theorem evolveProbs_sum_one {m : ℕ} (U : Matrix (Fin m) (Fin m) GQ) (s : List ℕ)
    (masks : List (List (Option ℕ))) (h : keptMass U s masks ≠ 0) :
    ((evolveProbs U s masks).map Prod.snd).sum = 1 := by
  unfold evolveProbs
  rw [List.map_map]
  have : (Prod.snd ∘ fun t => (t, prob U s t / keptMass U s masks)) =
      fun t => prob U s t * (keptMass U s masks)⁻¹ := by
    funext t; simp [div_eq_mul_inv]
  rw [this, List.sum_map_mul_right]
  exact mul_inv_cancel₀ h

/-- the same for the amplitudes themselves in any `*`-field (e.g. `ℂ`): dividing the kept
amplitudes by any `c` with `c·c̄ =` kept mass (the norm the `StateVector` divides by) gives a vector
of unit mass, proportional to the kept unmasked amplitudes -/
theorem evolve_normalised [Field R] [StarRing R] {m : ℕ} (U : Matrix (Fin m) (Fin m) R)
    (s : List ℕ) (masks : List (List (Option ℕ))) (c : R) (hc0 : c ≠ 0)
    (hc : c * star c = ((bulkStates m s masks).map fun t =>
      pamp U s t * star (pamp U s t) / ((prodFact s : R) * (prodFact t : R))).sum) :
    ((bulkStates m s masks).map fun t =>
      (pamp U s t / c) * star (pamp U s t / c) / ((prodFact s : R) * (prodFact t : R))).sum = 1 := by
  have hsc : star c ≠ 0 := by
    intro h
    apply hc0
    have := congrArg star h
    simpa using this
  have hterm : ∀ t ∈ bulkStates m s masks,
      (pamp U s t / c) * star (pamp U s t / c) / ((prodFact s : R) * (prodFact t : R)) =
        pamp U s t * star (pamp U s t) / ((prodFact s : R) * (prodFact t : R)) * (c * star c)⁻¹ := by
    intro t _
    rw [star_div₀]
    field_simp
  rw [List.map_congr_left hterm, List.sum_map_mul_right, ← hc]
  exact mul_inv_cancel₀ (mul_ne_zero hc0 hsc)

/-- non-vacuity of `evolveProbs_sum_one`: a mask that keeps part of the mass -/
example : keptMass exU [1, 1] [[some 1, none]] ≠ 0 := by decide +kernel

/-! ### the configuration glue of `AStrongSimulationBackend` as a state machine (`Model/C02Sess.lean`)

`set_circuit`, `set_input_state`, `set_mask(masks, n)`, `clear_mask`, `_init_mask` and the iterator cache
keyed by the photon number, as written.  The bulk queries list the states of `_get_iterator`; the theorems
say that after ANY exception-free history the list is the one the current configuration alone prescribes:
the cache is never stale and the mask object is never the one of an earlier input. -/

open Sess in
/-- **bulk queries do not depend on the history**: whatever the object served before, a bulk query that
does not raise lists exactly `spec` of the current configuration — the `(m, n)` states of the current input
kept by the current mask strings instantiated for `_mask_n or n` photons; `all_prob(s0)` answers for `s0` -/
theorem session_bulk_history_independent {st st' : St} {so : Option (List ℕ)}
    {out : Option (List (List ℕ))} (hr : Reachable st) (h : step st (.bulk so) = .ok (st', out)) :
    ∃ s, st'.input = some s ∧ out = some (spec st' s) ∧ (∀ s0, so = some s0 → s = s0) ∧
      st'.circ = some s.length :=
  let ⟨hi, s, h1, h2, h3⟩ := bulk_sound (reachable_inv hr) h
  ⟨s, h1, h2, h3, hi.a s h1⟩

open Sess in
/-- two objects with different histories but the same mask configuration give the same list for the same
input -/
theorem session_two_histories_agree {st₁ st₁' st₂ st₂' : St} {s : List ℕ}
    {o₁ o₂ : Option (List (List ℕ))} (h₁ : Reachable st₁) (h₂ : Reachable st₂)
    (q₁ : step st₁ (.bulk (some s)) = .ok (st₁', o₁)) (q₂ : step st₂ (.bulk (some s)) = .ok (st₂', o₂))
    (hm : st₁'.masksStr = st₂'.masksStr) (hn : st₁'.maskN = st₂'.maskN) : o₁ = o₂ := by
  obtain ⟨s₁, _, e₁, g₁, _⟩ := session_bulk_history_independent h₁ q₁
  obtain ⟨s₂, _, e₂, g₂, _⟩ := session_bulk_history_independent h₂ q₂
  have a₁ := g₁ s rfl
  have a₂ := g₂ s rfl
  subst a₁; subst a₂
  rw [e₁, e₂]
  simp only [spec, hm, hn]

open Sess in
/-- without a mask the list is the whole `(m, n)` space in enumeration order -/
theorem session_spec_unmasked (st : St) (s : List ℕ) (h : st.masksStr = none) :
    spec st s = allStates s.length s.sum := by
  simp [spec, h, arrayStates]

open Sess in
/-- with masks given without a photon number (or with 0, which python takes for "none", or with the
photon number of the input) the list is `bulkStates`: the one the theorems above on `all_prob`,
`prob_distribution` and `evolve` are about -/
theorem session_spec_masked (st : St) (s : List ℕ) (ms : List Mask) (h : st.masksStr = some ms)
    (hn : st.maskN = none ∨ st.maskN = some 0 ∨ st.maskN = some s.sum) :
    spec st s = bulkStates s.length s ms := by
  have he : effN st.maskN s.sum = s.sum := by
    rcases hn with hn | hn | hn <;> rw [hn] <;> simp [effN]
  simp [spec, h, arrayStates, he, bulkStates]

open Sess in
/-- a mask instantiated for MORE photons than the input has (`set_mask(masks, n)` with `n` above the
photon number: the input is part of a larger state) keeps the states whose deficit fits in the slack -/
theorem session_spec_slack (st : St) (s : List ℕ) (ms : List Mask) (k : ℕ) (h : st.masksStr = some ms)
    (hk : st.maskN = some k) (h0 : k ≠ 0) (hle : s.sum ≤ k) :
    spec st s = allStatesMasked s.length s.sum ms (k - s.sum) := by
  simp [spec, h, hk, arrayStates, effN, h0, Nat.not_lt.2 hle]

open Sess in
/-- a mask instantiated for FEWER photons than the input has keeps nothing (the code as it is: every bulk
answer is empty, no exception) -/
theorem session_spec_too_few (st : St) (s : List ℕ) (ms : List Mask) (k : ℕ) (h : st.masksStr = some ms)
    (hk : st.maskN = some k) (h0 : k ≠ 0) (hlt : k < s.sum) : spec st s = [] := by
  simp [spec, h, hk, arrayStates, effN, h0, hlt]

open Sess in
/-- in every configuration the list is a sub-list of the enumeration of the `(m, n)` space: each kept state
once, in enumeration order, all of the input's photon number -/
theorem session_spec_sublist (st : St) (s : List ℕ) :
    (spec st s).Sublist (allStates s.length s.sum) := by
  unfold spec arrayStates
  cases st.masksStr with
  | none => exact List.Sublist.refl _
  | some ms =>
    simp only [Option.map_some]
    split
    · exact List.nil_sublist _
    · exact List.filter_sublist

open Sess in
/-- non-vacuity: a history with a change of circuit size, a mask set before the input, a second input of
another photon number served from the same object, and a cleared mask is reachable and answers -/
example : (runOps {} [.setCircuit 2, .setInput [1, 1], .bulk none, .setCircuit 3,
    .setMask [[some 1, none, none]] none, .bulk (some [1, 1, 0]), .bulk (some [1, 0, 0]),
    .clearMask, .bulk none]).map (fun r => match r with | .ok (some l) => l.length | _ => 0)
    = [0, 0, 3, 0, 0, 2, 1, 0, 3] := by decide +kernel

/-! ### the same for the engine classes that override the glue (`Model/C02SessK.lean`)

A bulk answer is a list of pairs (label, value state): the state a value is filed under and the state whose
probability / amplitude the value is.  Base class (Naive, MPS): every query iterates `_get_iterator`.  SLOS:
`_reset` / `_init_mask` / `set_circuit` keeping the deployed paths / `preprocess` bookkeeping of
`_state_mapping` and `_fsas`; `prob_distribution` and `evolve` zip the iterator with the coefficient vector
indexed by `_fsas[n]`, `all_prob` returns that vector.  SLAP: `_fock_space` and the `mask.match` filter.
In each class, after any exception-free history, every answer is the diagonal of `spec`: labels and values
coincide (no value is filed under another state, nothing is truncated by the `zip`) and the list is the one
the current configuration prescribes. -/

open Sess in
theorem session_bulk_history_independent_base {st st' : St} {q : Q} {out : Option Ans}
    (hr : ReachableB st) (h : stepB st (.bulk q) = .ok (st', out)) :
    ∃ s, st'.input = some s ∧ out = some (diag (spec st' s)) ∧
      (∀ s0, q = .allProb (some s0) → s = s0) := by
  obtain ⟨o, ho, rfl⟩ := stepB_step h
  cases q with
  | allProb so =>
    obtain ⟨s, h1, h2, h3, _⟩ := session_bulk_history_independent (reachableB_reachable hr)
      (so := so) ho
    exact ⟨s, h1, by rw [h2]; rfl, by intro s0 hq; cases hq; exact h3 s0 rfl⟩
  | dist =>
    obtain ⟨s, h1, h2, _, _⟩ := session_bulk_history_independent (reachableB_reachable hr)
      (so := none) ho
    exact ⟨s, h1, by rw [h2]; rfl, by intro s0 hq; cases hq⟩
  | evolve =>
    obtain ⟨s, h1, h2, _, _⟩ := session_bulk_history_independent (reachableB_reachable hr)
      (so := none) ho
    exact ⟨s, h1, by rw [h2]; rfl, by intro s0 hq; cases hq⟩

open Sess in
/-- **SLOS**: the iterator cache surviving `set_circuit`, the resets on a change of the mask's photon number,
and the `_fsas` arrays built with the mask object of an earlier moment never make an answer stale -/
theorem session_bulk_history_independent_slos {x x' : StS} {q : Q} {out : Option Ans}
    (hr : ReachableS x) (h : stepS x (.bulk q) = .ok (x', out)) :
    ∃ s, x'.b.input = some s ∧ out = some (diag (spec x'.b s)) ∧
      (∀ s0, q = .allProb (some s0) → s = s0) :=
  (bulkS_sound (reachableS_inv hr) h).2

open Sess in
/-- **SLAP**: `_fock_space` always is the space of the current input, and filtering it with `mask.match`
lists the same states as the masked iterator -/
theorem session_bulk_history_independent_slap {x x' : StP} {q : Q} {out : Option Ans}
    (hr : ReachableP x) (h : stepP x (.bulk q) = .ok (x', out)) :
    ∃ s, x'.b.input = some s ∧ out = some (diag (spec x'.b s)) ∧
      (∀ s0, q = .allProb (some s0) → s = s0) :=
  (bulkP_sound (reachableP_inv hr) h).2

open Sess in
/-- SLOS: the input served always has its array: `self._fsas[n]` after `_input_path` cannot raise KeyError -/
theorem session_slos_fsas_has_key {x x1 : StS} {s : List ℕ} (hr : ReachableS x)
    (hs : x.b.input = some s) (h : preprocess x s = .ok x1) : (fsaGet x1.fsas s.sum).isSome :=
  (preprocess_inv (reachableS_inv hr) hs h).2.2

open Sess in
/-- non-vacuity (SLOS): paths kept across `set_circuit` of the same size, a mask given without photon number
serving two photon numbers, `all_prob(input)` / `prob_distribution` / `evolve` all answer -/
example : (runK stepS {} [.setCircuit 3, .setMask [[some 1, none, none]] none, .setInput [1, 1, 0],
    .bulk .dist, .setCircuit 3, .bulk (.allProb (some [1, 0, 0])), .bulk .evolve, .setCircuit 2,
    .clearMask, .bulk (.allProb (some [1, 1]))]).map
      (fun r => match r with | .ok (some l) => l.length | _ => 0)
    = [0, 0, 0, 2, 0, 1, 1, 0, 0, 3] := by decide +kernel

open Sess in
/-- non-vacuity (SLAP) -/
example : (runK stepP {} [.setCircuit 3, .setInput [1, 1, 0], .setMask [[some 1, none, none]] (some 3),
    .bulk .dist, .bulk (.allProb (some [1, 0, 0])), .bulk .evolve]).map
      (fun r => match r with | .ok (some l) => l.length | _ => 0)
    = [0, 0, 0, 5, 3, 3] := by decide +kernel

/-! ### wave 7: hypotheses discharged, compositions, bounds -/

/-- **`stepper_run_sound` without the photon-number hypothesis**: for EVERY output `t` of the right
length — also one of another photon number, where both sides vanish — the vector built by
`Stepper.compile` holds the amplitude of the circuit's full matrix (`hst` of `stepper_run_sound`
discharged with `stepper_run_keys`) -/
theorem stepper_run_sound_total [CommRing R] {M : ℕ} (inv : List ℕ → R)
    (hinv : ∀ v, inv v * (prodFact v : R) = 1) (comps : List (Comp R)) (hfit : Fits M comps)
    (s t : List ℕ) (hs : s.length = M) (ht : t.length = M) :
    svGet (stepperRun inv comps s) t = pamp (compsMatrix M comps) s t := by
  by_cases hst : s.sum = t.sum
  · exact stepper_run_sound inv hinv comps hfit s t hs ht hst
  · rw [pamp_zero_of_sum_ne _ s t hst]
    apply svGet_eq_zero_of_not_key _ (stepper_run_keys inv hinv comps hfit s hs)
    intro hmem
    exact hst ((mem_allStates_iff M s.sum t).1 hmem).2.symm

/-- a state of another number of modes is never a component of the Stepper's result -/
theorem stepper_run_offspace [CommRing R] {M : ℕ} (inv : List ℕ → R)
    (hinv : ∀ v, inv v * (prodFact v : R) = 1) (comps : List (Comp R)) (hfit : Fits M comps)
    (s t : List ℕ) (hs : s.length = M) (ht : t.length ≠ M) :
    svGet (stepperRun inv comps s) t = 0 := by
  apply svGet_eq_zero_of_not_key _ (stepper_run_keys inv hinv comps hfit s hs)
  intro hmem
  exact ht ((mem_allStates_iff M s.sum t).1 hmem).1

/-- the result of `Stepper.compile` on a circuit with PERM components stays in the `(M, n)` space of
the input (the counterpart of `stepper_run_keys`) -/
theorem stepper_runS_keys [CommRing R] {M : ℕ} (inv : List ℕ → R)
    (hinv : ∀ v, inv v * (prodFact v : R) = 1) (steps : List (Step R))
    (hfit : ∀ st ∈ steps, StepFits M st) (s : List ℕ) (hs : s.length = M) :
    KeysIn M s.sum (stepperRunS inv steps s) := by
  refine (stepperRunS_aux inv hinv s hs steps hfit [(s, (prodFact s : R))] 1 ?_ ?_).1
  · intro p hp
    rw [List.mem_singleton.1 hp]
    exact (mem_allStates_iff M s.sum s).2 ⟨hs, rfl⟩
  · intro u hu
    obtain ⟨hul, hun⟩ := (mem_allStates_iff M s.sum u).1 hu
    rw [pamp_identity s u hs hul hun.symm]
    simp [svGet, eq_comm]

/-- **`stepper_runS_sound` without the photon-number hypothesis** (PERM shortcut included) -/
theorem stepper_runS_sound_total [CommRing R] {M : ℕ} (inv : List ℕ → R)
    (hinv : ∀ v, inv v * (prodFact v : R) = 1) (steps : List (Step R))
    (hfit : ∀ st ∈ steps, StepFits M st)
    (s t : List ℕ) (hs : s.length = M) (ht : t.length = M) :
    svGet (stepperRunS inv steps s) t = pamp (stepsMatrix M steps) s t := by
  by_cases hst : s.sum = t.sum
  · exact stepper_runS_sound inv hinv steps hfit s t hs ht hst
  · rw [pamp_zero_of_sum_ne _ s t hst]
    apply svGet_eq_zero_of_not_key _ (stepper_runS_keys inv hinv steps hfit s hs)
    intro hmem
    exact hst ((mem_allStates_iff M s.sum t).1 hmem).2.symm

/-- **the three modelled engines agree** on every circuit given as a component list: the Naive
engine (loop-built sub-matrix, shortcuts), the SLOS layer recursion — both on the circuit's full
matrix — and the Stepper run component by component on the slices return the same amplitude for every
input and every output of the circuit's size, any photon numbers -/
theorem engines_agree [CommRing R] {M : ℕ} (inv : List ℕ → R)
    (hinv : ∀ v, inv v * (prodFact v : R) = 1) (comps : List (Comp R)) (hfit : Fits M comps)
    (s t : List ℕ) (hs : s.length = M) (ht : t.length = M) :
    naivePamp (compsMatrix M comps) s t = slosPamp (compsMatrix M comps) s t ∧
    slosPamp (compsMatrix M comps) s t = svGet (stepperRun inv comps s) t := by
  rw [naivePamp_eq_pamp, slosPamp_eq_pamp _ s t ht,
    stepper_run_sound_total inv hinv comps hfit s t hs ht]
  exact ⟨rfl, rfl⟩

/-- every probability of the model is non-negative, hence so is the mass a mask keeps -/
theorem keptMass_nonneg {m : ℕ} (U : Matrix (Fin m) (Fin m) GQ) (s : List ℕ)
    (masks : List (List (Option ℕ))) : 0 ≤ keptMass U s masks :=
  sum_map_nonneg _ _ fun t _ => prob_nonneg U s t

/-- **a mask never keeps more than the whole mass** of a unitary circuit: the normalisation of a
masked `evolve()` divides by a number in `[0, 1]` -/
theorem keptMass_le_one {m : ℕ} (U : Matrix (Fin m) (Fin m) GQ) (hU : IsUnitary U)
    (s : List ℕ) (hs : s.length = m) (masks : List (List (Option ℕ))) : keptMass U s masks ≤ 1 := by
  rw [← dist_sums_to_one_GQ U hU s hs]
  exact sum_map_sublist_le (bulk_states_spec m s masks).2.2 _ fun t _ => prob_nonneg U s t

/-- the kept mass vanishes exactly when every kept state has probability zero (then the normalised
`evolve()` result is undefined: the case the correspondence does not compare) -/
theorem keptMass_eq_zero_iff {m : ℕ} (U : Matrix (Fin m) (Fin m) GQ) (s : List ℕ)
    (masks : List (List (Option ℕ))) :
    keptMass U s masks = 0 ↔ ∀ t ∈ bulkStates m s masks, prob U s t = 0 :=
  sum_map_eq_zero_iff _ _ fun t _ => prob_nonneg U s t

/-- **`evolveProbs_sum_one` as an equivalence**: the hypothesis `keptMass ≠ 0` is necessary — the
renormalised masked distribution sums to one exactly when the mask keeps some mass (with `x / 0 = 0`
it sums to zero otherwise) -/
theorem evolveProbs_sum_one_iff {m : ℕ} (U : Matrix (Fin m) (Fin m) GQ) (s : List ℕ)
    (masks : List (List (Option ℕ))) :
    ((evolveProbs U s masks).map Prod.snd).sum = 1 ↔ keptMass U s masks ≠ 0 := by
  refine ⟨fun h h0 => ?_, evolveProbs_sum_one U s masks⟩
  have hz : ((evolveProbs U s masks).map Prod.snd).sum = 0 := by
    unfold evolveProbs
    rw [List.map_map]
    apply List.sum_eq_zero
    intro x hx
    obtain ⟨t, _, rfl⟩ := List.mem_map.1 hx
    simp [h0]
  rw [hz] at h
  exact zero_ne_one h

/-- **renormalisation under a mask only raises probabilities**: for a unitary circuit and a mask that
keeps some mass, every value of the normalised masked `evolve()` is at least the unmasked probability
of the same state -/
theorem evolveProbs_ge_prob {m : ℕ} (U : Matrix (Fin m) (Fin m) GQ) (hU : IsUnitary U)
    (s : List ℕ) (hs : s.length = m) (masks : List (List (Option ℕ)))
    (h : keptMass U s masks ≠ 0) :
    ∀ p ∈ evolveProbs U s masks, prob U s p.1 ≤ p.2 := by
  intro p hp
  obtain ⟨t, _, rfl⟩ := List.mem_map.1 hp
  have hpos : 0 < keptMass U s masks := lt_of_le_of_ne (keptMass_nonneg U s masks) (Ne.symm h)
  show prob U s t ≤ prob U s t / keptMass U s masks
  rw [le_div_iff₀ hpos]
  exact mul_le_of_le_one_right (prob_nonneg U s t) (keptMass_le_one U hU s hs masks)

/-- non-vacuity / necessity: a mask that keeps no mass (`exD` is diagonal: `|1,1>` stays), sum zero -/
example : keptMass exD [1, 1] [[some 2, none]] = 0 ∧
    ((evolveProbs exD [1, 1] [[some 2, none]]).map Prod.snd).sum = 0 := by decide +kernel

/-- non-vacuity of `evolveProbs_ge_prob` / `keptMass_le_one`: a unitary, a mask keeping part of the mass -/
example : IsUnitary exU ∧ ([1, 1] : List ℕ).length = 2 ∧ keptMass exU [1, 1] [[some 1, none]] ≠ 0 ∧
    keptMass exU [1, 1] [[some 1, none]] < 1 :=
  ⟨by unfold IsUnitary; decide +kernel, rfl, by decide +kernel, by decide +kernel⟩

/-- **`slosPamp_eq_pamp` without its hypothesis**: the SLOS layer recursion over the `m` modes of the
matrix equals the permanent for an output list of ANY length (a photon recorded beyond the matrix
meets only zero entries on both sides; a missing mode holds no photon) — `ht : t.length = m` discharged -/
theorem slosPamp_eq_pamp_any [CommRing R] {m : ℕ} (U : Matrix (Fin m) (Fin m) R) (s t : List ℕ) :
    slosPamp U s t = pamp U s t := by
  unfold slosPamp
  by_cases h : s.sum = t.sum
  · rw [if_pos h, pamp_eq_permRec U s t h,
      ← slosCoef_eq_permRec_any U (expand s) t (by rw [expand_length, h])]
    ring
  · rw [if_neg h, pamp_zero_of_sum_ne U s t h]

/-- … hence the Naive and the SLOS model agree on every matrix and every pair of lists, no side
condition at all -/
theorem slosPamp_eq_naivePamp [CommRing R] {m : ℕ} (U : Matrix (Fin m) (Fin m) R) (s t : List ℕ) :
    slosPamp U s t = naivePamp U s t := by
  rw [slosPamp_eq_pamp_any, naivePamp_eq_pamp]

/-- **the Stepper's output distribution of a circuit of unitary components sums to one**: the
squared moduli of the vector built slice by slice by `Stepper.compile`, normalised by `∏s!∏t!`, over
the `(M, n)` space of the input (composition of `stepper_run_sound_GQ`, unitarity of the embedded
product and `dist_sums_to_one_GQ`) -/
theorem stepper_distribution_sums_to_one {M : ℕ} (comps : List (Comp GQ)) (hfit : Fits M comps)
    (hU : ∀ c ∈ comps, IsUnitary c.B) (s : List ℕ) (hs : s.length = M) :
    ((allStates M s.sum).map fun t =>
      GQ.normSq (svGet (stepperRun FockComp.gqInv comps s) t) /
        ((prodFact s : ℚ) * (prodFact t : ℚ))).sum = 1 := by
  rw [← dist_sums_to_one_GQ (compsMatrix M comps) (compsMatrix_isUnitary comps hfit hU) s hs]
  apply congrArg
  apply List.map_congr_left
  intro t ht
  obtain ⟨hl, hn⟩ := (mem_allStates_iff M s.sum t).1 ht
  rw [stepper_run_sound_GQ comps hfit s t hs hl hn.symm]
  rfl

/-- non-vacuity: two overlapping unitary components -/
example : ∀ c ∈ [(⟨2, 0, exU⟩ : Comp GQ), ⟨2, 1, exU⟩], IsUnitary c.B := by
  intro c hc
  simp only [List.mem_cons, List.not_mem_nil, or_false] at hc
  rcases hc with rfl | rfl <;> (unfold IsUnitary; decide +kernel)

/-- **every row of the MPS two-mode tensor of a unitary block has unit norm**: the entries as the code
stores them are `tm2·√(m1! m2!)/√(n1! n2!)`, so their squared moduli `|tm2|²·m1! m2!/(n1! n2!)` over
the outputs `(m1, m2)` of the same photon number sum to one — for every unitary 2×2 block over `ℚ[i]`
and all photon numbers within the tensor (composition of `mps_tm2_eq_pamp` and `dist_sums_to_one_GQ`) -/
theorem mps_tm2_unitary_row_sums_to_one (U : Matrix (Fin 2) (Fin 2) GQ) (hU : IsUnitary U)
    (nmax n1 n2 : ℕ) (hn : n1 + n2 ≤ nmax) :
    ((allStates 2 (n1 + n2)).map fun t =>
      GQ.normSq (tm2 U nmax n1 n2 (t.getD 0 0) (t.getD 1 0)) *
        (((t.getD 0 0).factorial * (t.getD 1 0).factorial : ℕ) : ℚ) /
          ((n1.factorial * n2.factorial : ℕ) : ℚ)).sum = 1 := by
  have h := dist_sums_to_one_GQ U hU [n1, n2] rfl
  simp only [List.sum_cons, List.sum_nil, add_zero] at h
  rw [← h]
  apply congrArg
  apply List.map_congr_left
  intro t ht
  obtain ⟨hl, _⟩ := (mem_allStates_iff 2 (n1 + n2) t).1 ht
  generalize ha : t.getD 0 0 = a
  generalize hb : t.getD 1 0 = b
  have ht2 : t = [a, b] := by rw [← ha, ← hb]; exact eq_pair_of_length_two t hl
  rw [ht2]
  unfold prob
  rw [← mps_tm2_eq_pamp U nmax n1 n2 a b hn, normSq_natCast_mul, prodFact_pair, prodFact_pair]
  have hA : ((a.factorial * b.factorial : ℕ) : ℚ) ≠ 0 :=
    Nat.cast_ne_zero.2 (Nat.mul_ne_zero (Nat.factorial_ne_zero _) (Nat.factorial_ne_zero _))
  have hN : ((n1.factorial * n2.factorial : ℕ) : ℚ) ≠ 0 :=
    Nat.cast_ne_zero.2 (Nat.mul_ne_zero (Nat.factorial_ne_zero _) (Nat.factorial_ne_zero _))
  rw [div_eq_div_iff hN (mul_ne_zero hN hA)]
  ring

/-- non-vacuity: `exU` is unitary; the row `(2,1)` of its tensor for three photons has a bunched entry -/
example : IsUnitary exU ∧ 2 + 1 ≤ 3 ∧ tm2 exU 3 2 1 3 0 ≠ 0 :=
  ⟨by unfold IsUnitary; decide +kernel, by decide, by decide +kernel⟩

/-- necessity of `ht` in `stepper_run_sound_total`: for an output list of another length the Stepper's
vector has no component while the specification amplitude (which only reads the modes that exist) is 1 -/
example : svGet (stepperRun FockComp.gqInv ([] : List (Comp GQ)) [1]) [1, 0] = 0 ∧
    pamp (compsMatrix 1 ([] : List (Comp GQ))) [1] [1, 0] = 1 := by
  refine ⟨by decide +kernel, ?_⟩
  rw [pamp_single _ _ _ rfl rfl]
  simp [compsMatrix, entry, expand, expandFrom]

/-! ### wave 10: circuits with PERM components, end to end -/

/-- **the full matrix of a circuit of unitary blocks and PERM components is unitary** (a PERM carrying a
genuine permutation list needs no hypothesis: its block `u[σ j, j] = 1` is always unitary) -/
theorem stepsMatrix_unitary [CommRing R] [StarRing R] {M : ℕ} (steps : List (Step R))
    (hfit : ∀ st ∈ steps, StepFits M st) (hU : ∀ st ∈ steps, StepUnitary st) :
    IsUnitary (stepsMatrix M steps) :=
  stepsMatrix_isUnitary steps hfit hU

/-- **`stepper_distribution_sums_to_one` with the PERM shortcut included**: the squared moduli of the
vector built by `Stepper.compile` as written (blocks applied slice by slice, PERMs by relabelling the
modes), normalised by `∏s!∏t!`, over the `(M, n)` space of the input sum to one for every circuit of
unitary blocks and genuine permutations (composition of `stepper_runS_sound_GQ`, `stepsMatrix_unitary`
and `dist_sums_to_one_GQ`) -/
theorem stepper_runS_distribution_sums_to_one {M : ℕ} (steps : List (Step GQ))
    (hfit : ∀ st ∈ steps, StepFits M st) (hU : ∀ st ∈ steps, StepUnitary st)
    (s : List ℕ) (hs : s.length = M) :
    ((allStates M s.sum).map fun t =>
      GQ.normSq (svGet (stepperRunS FockComp.gqInv steps s) t) /
        ((prodFact s : ℚ) * (prodFact t : ℚ))).sum = 1 := by
  rw [← dist_sums_to_one_GQ (stepsMatrix M steps) (stepsMatrix_isUnitary steps hfit hU) s hs]
  apply congrArg
  apply List.map_congr_left
  intro t ht
  obtain ⟨hl, hn⟩ := (mem_allStates_iff M s.sum t).1 ht
  rw [stepper_runS_sound_GQ steps hfit s t hs hl hn.symm]
  rfl

/-- non-vacuity: a unitary block followed by a PERM on overlapping modes -/
example : (∀ st ∈ [Step.block (⟨2, 0, exU⟩ : Comp GQ), .perm 1 [1, 0]], StepFits 3 st) ∧
    (∀ st ∈ [Step.block (⟨2, 0, exU⟩ : Comp GQ), .perm 1 [1, 0]], StepUnitary st) := by
  refine ⟨fun st hst => ?_, fun st hst => ?_⟩ <;>
    simp only [List.mem_cons, List.not_mem_nil, or_false] at hst <;>
    rcases hst with rfl | rfl
  · show 0 + 2 ≤ 3; decide
  · exact ⟨by decide, by decide⟩
  · show IsUnitary exU; unfold IsUnitary; decide +kernel
  · trivial

/-- necessity of `hU`: one non-unitary block (`2` on a single mode) — the normalised sum is 4 -/
example : ¬ StepUnitary (Step.block (⟨1, 0, fun _ _ => (⟨2, 0⟩ : GQ)⟩ : Comp GQ)) ∧
    ((allStates 1 1).map fun t =>
      GQ.normSq (svGet (stepperRunS FockComp.gqInv
        [Step.block (⟨1, 0, fun _ _ => (⟨2, 0⟩ : GQ)⟩ : Comp GQ)] [1]) t) /
        ((prodFact [1] : ℚ) * (prodFact t : ℚ))).sum = 4 := by
  refine ⟨?_, by decide +kernel⟩
  show ¬ IsUnitary _
  unfold IsUnitary
  decide +kernel

/-- **the three modelled engines agree on circuits with PERM components** (`engines_agree` for the
Stepper as written, PERM shortcut included; the SLOS side needs no length hypothesis any more): Naive
and SLOS on the circuit's full matrix, the Stepper step by step, every input and output of the
circuit's size, any photon numbers -/
theorem engines_agree_S [CommRing R] {M : ℕ} (inv : List ℕ → R)
    (hinv : ∀ v, inv v * (prodFact v : R) = 1) (steps : List (Step R))
    (hfit : ∀ st ∈ steps, StepFits M st)
    (s t : List ℕ) (hs : s.length = M) (ht : t.length = M) :
    naivePamp (stepsMatrix M steps) s t = slosPamp (stepsMatrix M steps) s t ∧
    slosPamp (stepsMatrix M steps) s t = svGet (stepperRunS inv steps s) t := by
  rw [naivePamp_eq_pamp, slosPamp_eq_pamp_any,
    stepper_runS_sound_total inv hinv steps hfit s t hs ht]
  exact ⟨rfl, rfl⟩

/-!
Not proved: nothing of the design's stretch list remains open.  Wave 10 carried the two end-to-end compositions
over to circuits with PERM components (`stepsMatrix_unitary`, `stepper_runS_distribution_sums_to_one` — `hU` is
necessary, see the example —, `engines_agree_S`).  Wave 7 discharged `hst` of the Stepper
theorems (`stepper_run_sound_total`, `stepper_runS_sound_total`; `ht` is necessary, see the example) and `ht` of
`slosPamp_eq_pamp` (`slosPamp_eq_pamp_any`), made `evolveProbs_sum_one` an equivalence, bounded the kept mass
(`keptMass_nonneg`, `keptMass_le_one`, `keptMass_eq_zero_iff`, `evolveProbs_ge_prob`) and composed the unitary
normalisation with the Stepper and the MPS tensor (`stepper_distribution_sums_to_one`,
`mps_tm2_unitary_row_sums_to_one`); the last two and the kept-mass bounds are over `ℚ[i]` only (the order of `ℚ` is
used; for `ℂ` the same needs `Complex.normSq`, not done).  What stays outside any theorem: the
engines' native kernels (permanent, SLOS/SLAP layers, `StateVector`) and the numerical part of the MPS
engine (tensor contraction, SVD and truncation of `update_state_2_mode`; only the two transition
tensors it contracts with are modelled and proved) are external/numerical code — for them the model
*is* the specification and agreement is established by the correspondence only; the Stepper's
`_result_dict` cache keyed by `describe()` (two components whose parameters agree to 6 significant
digits share an entry) and its photon-number filter are validated by the correspondence only; and the `1/√(∏s!∏t!)` normalisation is
irrational, so theorems are about `pamp` and `|pamp|²` (`mps_tm2_normalised`, `evolve_normalised`
quantify over any square roots instead).  The session machines (`Model/C02Sess.lean`, `Model/C02SessK.lean`)
take the enumeration of the native `xq.FSArray(m, n, mask)` / `FSMask.match` as `arrayStates` (deficit within the
slack, nothing when the mask is instantiated for fewer photons) — validated by the correspondence, not proved; of
SLOS only the python bookkeeping that decides WHICH states an answer lists (`_state_mapping`, `_fsas`, the resets)
is modelled, not the layers `_fsms` / `_mk_l` nor the coefficient propagation of `_Path`; nothing is claimed about
an object after it raised an exception; `MPSBackend._compile` and the `Stepper` are not part of the session model.
-/

end PM.C02
